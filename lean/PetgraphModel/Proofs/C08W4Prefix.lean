import PetgraphModel.Proofs.C08W2Dfsv
/-
C08 (wave 4): the prefix property of `depth_first_search`.

The event with index `k` is computed before the visitor's answer to it is known, and it depends only on
the answers to the events `0 … k-1`.  Hence two visitors that agree on their first `K` answers see the
same first `K + 1` events (`dfsSearch_prefix`).  In particular a run that ends with `Break` at event `K`
is exactly the first `K + 1` events of the run in which the visitor continues instead
(`dfsSearch_break_prefix`): `Break` only cuts the traversal short, so the set discovered by a broken-off
run is the set discovered by that prefix.
-/
namespace PetgraphModel.TravProofs
open PetgraphModel PetgraphModel.Trav

/-- the history of `s'` extends the history of `s` -/
def HExt (s s' : VS) : Prop := ∃ new, s'.evs = new ++ s.evs

theorem HExt.rfl' (s : VS) : HExt s s := ⟨[], rfl⟩

theorem HExt.trans {a b c : VS} (h1 : HExt a b) (h2 : HExt b c) : HExt a c := by
  obtain ⟨n1, e1⟩ := h1
  obtain ⟨n2, e2⟩ := h2
  exact ⟨n2 ++ n1, by rw [e2, e1, List.append_assoc]⟩

theorem HExt.emit (s s' : VS) (e : Ev) (h : s'.evs = e :: s.evs) : HExt s s' := ⟨[e], by rw [h]; rfl⟩

theorem hext_thenRes {s : VS} {p : VS × Res} {k : VS → VS × Res} (hp : HExt s p.1)
    (hk : ∀ s', HExt s' (k s').1) : HExt s (thenRes p k).1 := by
  obtain ⟨s1, r⟩ := p
  cases r with
  | cont => exact hp.trans (hk s1)
  | brk => exact hp
  | panicPruneFinish => exact hp
  | fuel => exact hp

theorem hext_finishStep (script : List Ctl) (u : Nat) (s : VS) : HExt s (finishStep script u s).1 := by
  unfold finishStep
  split <;> exact ⟨[_], rfl⟩

theorem dfsv_hext (v : View) (script : List Ctl) :
    ∀ f : Nat, (∀ u s, HExt s (dfsVisitor v script f u s).1) ∧
      (∀ u ws s, HExt s (neighLoop v script f u ws s).1) := by
  intro f
  induction f with
  | zero =>
    exact ⟨fun u s => by rw [dfsVisitor_zero]; exact HExt.rfl' s,
      fun u ws s => by rw [neighLoop_zero]; exact HExt.rfl' s⟩
  | succ f ih =>
    obtain ⟨ihV, ihN⟩ := ih
    constructor
    · intro u s
      by_cases hu : u ∈ s.disc
      · rw [dfsVisitor_succ_old v script f u s hu]; exact HExt.rfl' s
      · rw [dfsVisitor_succ_new v script f u s hu]
        have h0 : HExt s { disc := u :: s.disc, fin := s.fin, time := s.time + 1, evs := .discover u s.time :: s.evs } :=
          ⟨[_], rfl⟩
        split
        · exact h0
        · exact h0.trans (hext_finishStep ..)
        · exact hext_thenRes (h0.trans (ihN ..)) (fun s' => hext_finishStep ..)
    · intro u ws s
      cases ws with
      | nil => rw [neighLoop_nil]; exact HExt.rfl' s
      | cons w ws =>
        by_cases hw : w ∈ s.disc
        · rw [neighLoop_cons_old v script f u w ws s hw]
          have h0 : HExt s { s with evs := (if w ∉ s.fin then Ev.back u w else Ev.cross u w) :: s.evs } := ⟨[_], rfl⟩
          split
          · exact h0
          · exact h0.trans (ihN ..)
        · rw [neighLoop_cons_new v script f u w ws s hw]
          have h0 : HExt s { s with evs := .tree u w :: s.evs } := ⟨[_], rfl⟩
          split
          · exact h0
          · exact h0.trans (ihN ..)
          · exact hext_thenRes (h0.trans (ihV ..)) (fun s' => ihN ..)

theorem dfsSearch_hext (v : View) (script : List Ctl) (fuel : Nat) :
    ∀ (l : List Nat) (s : VS), HExt s (dfsSearch v script fuel l s).1 := by
  intro l
  induction l with
  | nil => intro s; exact HExt.rfl' s
  | cons st rest ih =>
    intro s
    rw [dfsSearch_cons]
    exact hext_thenRes ((dfsv_hext v script fuel).1 st s) (fun s' => ih s')

/-! ### agreement of two runs up to event `K` -/

/-- the two outcomes are the same and have at most `K` events, or both have more than `K` events and
the same first `K + 1` -/
def AgreeUpTo (K : Nat) (p1 p2 : VS × Res) : Prop :=
  (p1 = p2 ∧ p1.1.evs.length ≤ K) ∨
  (K < p1.1.evs.length ∧ K < p2.1.evs.length ∧
    p1.1.evs.reverse.take (K + 1) = p2.1.evs.reverse.take (K + 1))

theorem take_of_hext {K : Nat} {s s' : VS} (h : HExt s s') (hlen : K < s.evs.length) :
    K < s'.evs.length ∧ s'.evs.reverse.take (K + 1) = s.evs.reverse.take (K + 1) := by
  obtain ⟨new, e⟩ := h
  rw [e]
  refine ⟨by simp; omega, ?_⟩
  rw [List.reverse_append, List.take_append_of_le_length (by simp; omega)]

theorem agree_refl (K : Nat) (p : VS × Res) : AgreeUpTo K p p := by
  by_cases h : p.1.evs.length ≤ K
  · exact Or.inl ⟨rfl, h⟩
  · exact Or.inr ⟨by omega, by omega, rfl⟩

theorem agree_of_hext {K : Nat} {s0 : VS} {p1 p2 : VS × Res} (hlen : K < s0.evs.length)
    (h1 : HExt s0 p1.1) (h2 : HExt s0 p2.1) : AgreeUpTo K p1 p2 := by
  obtain ⟨a1, b1⟩ := take_of_hext h1 hlen
  obtain ⟨a2, b2⟩ := take_of_hext h2 hlen
  exact Or.inr ⟨a1, a2, by rw [b1, b2]⟩

theorem agree_thenRes {K : Nat} {p1 p2 : VS × Res} {k1 k2 : VS → VS × Res} (hp : AgreeUpTo K p1 p2)
    (hk : ∀ s, s.evs.length ≤ K → AgreeUpTo K (k1 s) (k2 s))
    (he1 : ∀ s, HExt s (k1 s).1) (he2 : ∀ s, HExt s (k2 s).1) :
    AgreeUpTo K (thenRes p1 k1) (thenRes p2 k2) := by
  rcases hp with ⟨rfl, hlen⟩ | ⟨l1, l2, ht⟩
  · obtain ⟨s, r⟩ := p1
    cases r with
    | cont => exact hk s hlen
    | brk => exact agree_refl K _
    | panicPruneFinish => exact agree_refl K _
    | fuel => exact agree_refl K _
  · have e1 : HExt p1.1 (thenRes p1 k1).1 := hext_thenRes (HExt.rfl' _) he1
    have e2 : HExt p2.1 (thenRes p2 k2).1 := hext_thenRes (HExt.rfl' _) he2
    obtain ⟨a1, b1⟩ := take_of_hext e1 l1
    obtain ⟨a2, b2⟩ := take_of_hext e2 l2
    exact Or.inr ⟨a1, a2, by rw [b1, b2, ht]⟩

/-- an emit site: `s0` is the state right after the event with index `|s.evs|` was recorded; the two
runs continue with `B1 c1` / `B2 c2`, `c1`, `c2` being their visitors' answers to that event -/
theorem agree_site {K : Nat} {sc1 sc2 : List Ctl} (hagree : ∀ i, i < K → ctlAt sc1 i = ctlAt sc2 i)
    {s s0 : VS} (hs : s.evs.length ≤ K) (hs0 : s0.evs.length = s.evs.length + 1)
    {B1 B2 : Ctl → VS × Res} (he1 : ∀ c, HExt s0 (B1 c).1) (he2 : ∀ c, HExt s0 (B2 c).1)
    (hB : ∀ c, s0.evs.length ≤ K → AgreeUpTo K (B1 c) (B2 c)) :
    AgreeUpTo K (B1 (ctlAt sc1 s.evs.length)) (B2 (ctlAt sc2 s.evs.length)) := by
  by_cases hlt : s.evs.length < K
  · rw [hagree _ hlt]
    exact hB _ (by omega)
  · exact agree_of_hext (s0 := s0) (by omega) (he1 _) (he2 _)

theorem finishStep_eq (script : List Ctl) (u : Nat) (s : VS) :
    finishStep script u s =
      ({ disc := s.disc, fin := u :: s.fin, time := s.time + 1, evs := .finish u s.time :: s.evs },
        match ctlAt script s.evs.length with
        | .brk => Res.brk | .prune => Res.panicPruneFinish | .cont => Res.cont) := by
  unfold finishStep
  split <;> simp_all

theorem agree_finishStep {K : Nat} {sc1 sc2 : List Ctl} (hagree : ∀ i, i < K → ctlAt sc1 i = ctlAt sc2 i)
    (u : Nat) (s : VS) (hs : s.evs.length ≤ K) :
    AgreeUpTo K (finishStep sc1 u s) (finishStep sc2 u s) := by
  rw [finishStep_eq, finishStep_eq]
  exact agree_site hagree hs (s0 := { disc := s.disc, fin := u :: s.fin, time := s.time + 1, evs := .finish u s.time :: s.evs })
    (by simp)
    (B1 := fun c => (_, match c with | .brk => Res.brk | .prune => Res.panicPruneFinish | .cont => Res.cont))
    (B2 := fun c => (_, match c with | .brk => Res.brk | .prune => Res.panicPruneFinish | .cont => Res.cont))
    (fun c => HExt.rfl' _) (fun c => HExt.rfl' _) (fun c _ => agree_refl K _)

theorem dfsv_agree (v : View) {K : Nat} {sc1 sc2 : List Ctl} (hagree : ∀ i, i < K → ctlAt sc1 i = ctlAt sc2 i) :
    ∀ f : Nat,
      (∀ u s, s.evs.length ≤ K → AgreeUpTo K (dfsVisitor v sc1 f u s) (dfsVisitor v sc2 f u s)) ∧
      (∀ u ws s, s.evs.length ≤ K → AgreeUpTo K (neighLoop v sc1 f u ws s) (neighLoop v sc2 f u ws s)) := by
  intro f
  induction f with
  | zero =>
    exact ⟨fun u s _ => by rw [dfsVisitor_zero, dfsVisitor_zero]; exact agree_refl K _,
      fun u ws s _ => by rw [neighLoop_zero, neighLoop_zero]; exact agree_refl K _⟩
  | succ f ih =>
    obtain ⟨ihV, ihN⟩ := ih
    have eV1 := (dfsv_hext v sc1 f).1
    have eN1 := (dfsv_hext v sc1 f).2
    have eV2 := (dfsv_hext v sc2 f).1
    have eN2 := (dfsv_hext v sc2 f).2
    constructor
    · intro u s hs
      by_cases hu : u ∈ s.disc
      · rw [dfsVisitor_succ_old v sc1 f u s hu, dfsVisitor_succ_old v sc2 f u s hu]
        exact agree_refl K _
      · rw [dfsVisitor_succ_new v sc1 f u s hu, dfsVisitor_succ_new v sc2 f u s hu]
        let s0 : VS := { disc := u :: s.disc, fin := s.fin, time := s.time + 1, evs := .discover u s.time :: s.evs }
        exact agree_site hagree hs (s0 := s0) (by simp [s0])
          (B1 := fun c => match c with
            | .brk => (s0, .brk)
            | .prune => finishStep sc1 u s0
            | .cont => thenRes (neighLoop v sc1 f u (v.succ u) s0) (finishStep sc1 u))
          (B2 := fun c => match c with
            | .brk => (s0, .brk)
            | .prune => finishStep sc2 u s0
            | .cont => thenRes (neighLoop v sc2 f u (v.succ u) s0) (finishStep sc2 u))
          (by
            intro c
            cases c with
            | brk => exact HExt.rfl' _
            | prune => exact hext_finishStep ..
            | cont => exact hext_thenRes (eN1 ..) (fun s' => hext_finishStep ..))
          (by
            intro c
            cases c with
            | brk => exact HExt.rfl' _
            | prune => exact hext_finishStep ..
            | cont => exact hext_thenRes (eN2 ..) (fun s' => hext_finishStep ..))
          (by
            intro c hs0
            cases c with
            | brk => exact agree_refl K _
            | prune => exact agree_finishStep hagree u s0 hs0
            | cont =>
              exact agree_thenRes (ihN u (v.succ u) s0 hs0) (fun s' hs' => agree_finishStep hagree u s' hs')
                (fun s' => hext_finishStep ..) (fun s' => hext_finishStep ..))
    · intro u ws s hs
      cases ws with
      | nil => rw [neighLoop_nil, neighLoop_nil]; exact agree_refl K _
      | cons w ws =>
        by_cases hw : w ∈ s.disc
        · rw [neighLoop_cons_old v sc1 f u w ws s hw, neighLoop_cons_old v sc2 f u w ws s hw]
          let s0 : VS := { s with evs := (if w ∉ s.fin then Ev.back u w else Ev.cross u w) :: s.evs }
          exact agree_site hagree hs (s0 := s0) (by simp [s0])
            (B1 := fun c => match c with
              | .brk => (s0, .brk)
              | _ => neighLoop v sc1 f u ws s0)
            (B2 := fun c => match c with
              | .brk => (s0, .brk)
              | _ => neighLoop v sc2 f u ws s0)
            (by intro c; cases c <;> first | exact HExt.rfl' _ | exact eN1 ..)
            (by intro c; cases c <;> first | exact HExt.rfl' _ | exact eN2 ..)
            (by intro c hs0; cases c <;> first | exact agree_refl K _ | exact ihN u ws s0 hs0)
        · rw [neighLoop_cons_new v sc1 f u w ws s hw, neighLoop_cons_new v sc2 f u w ws s hw]
          let s0 : VS := { s with evs := .tree u w :: s.evs }
          exact agree_site hagree hs (s0 := s0) (by simp [s0])
            (B1 := fun c => match c with
              | .brk => (s0, .brk)
              | .prune => neighLoop v sc1 f u ws s0
              | .cont => thenRes (dfsVisitor v sc1 f w s0) (neighLoop v sc1 f u ws))
            (B2 := fun c => match c with
              | .brk => (s0, .brk)
              | .prune => neighLoop v sc2 f u ws s0
              | .cont => thenRes (dfsVisitor v sc2 f w s0) (neighLoop v sc2 f u ws))
            (by
              intro c
              cases c with
              | brk => exact HExt.rfl' _
              | prune => exact eN1 ..
              | cont => exact hext_thenRes (eV1 ..) (fun s' => eN1 ..))
            (by
              intro c
              cases c with
              | brk => exact HExt.rfl' _
              | prune => exact eN2 ..
              | cont => exact hext_thenRes (eV2 ..) (fun s' => eN2 ..))
            (by
              intro c hs0
              cases c with
              | brk => exact agree_refl K _
              | prune => exact ihN u ws s0 hs0
              | cont =>
                exact agree_thenRes (ihV w s0 hs0) (fun s' hs' => ihN u ws s' hs')
                  (fun s' => eN1 ..) (fun s' => eN2 ..))

theorem dfsSearch_agree (v : View) {K : Nat} {sc1 sc2 : List Ctl} (hagree : ∀ i, i < K → ctlAt sc1 i = ctlAt sc2 i)
    (fuel : Nat) : ∀ (l : List Nat) (s : VS), s.evs.length ≤ K →
      AgreeUpTo K (dfsSearch v sc1 fuel l s) (dfsSearch v sc2 fuel l s) := by
  intro l
  induction l with
  | nil => intro s _; exact agree_refl K _
  | cons st rest ih =>
    intro s hs
    rw [dfsSearch_cons, dfsSearch_cons]
    exact agree_thenRes ((dfsv_agree v hagree fuel).1 st s hs) (fun s' hs' => ih s' hs')
      (fun s' => dfsSearch_hext v sc1 fuel rest s') (fun s' => dfsSearch_hext v sc2 fuel rest s')

/-- **Prefix property.**  Two visitors that agree on their answers to the events `0 … K-1` see the same
first `K + 1` events; and if one of the runs has at most `K` events, the runs are identical. -/
theorem dfsSearch_prefix (v : View) {K : Nat} {sc1 sc2 : List Ctl}
    (hagree : ∀ i, i < K → ctlAt sc1 i = ctlAt sc2 i) (fuel : Nat) (starts : List Nat) :
    (dfsSearch v sc1 fuel starts {}).1.evs.reverse.take (K + 1) =
      (dfsSearch v sc2 fuel starts {}).1.evs.reverse.take (K + 1) ∧
    ((dfsSearch v sc1 fuel starts {}).1.evs.length ≤ K →
      dfsSearch v sc1 fuel starts {} = dfsSearch v sc2 fuel starts {}) := by
  have h := dfsSearch_agree v hagree fuel starts {} (Nat.zero_le _)
  rcases h with ⟨h1, _⟩ | ⟨l1, _, ht⟩
  · exact ⟨by rw [h1], fun _ => h1⟩
  · exact ⟨ht, fun hle => by omega⟩

theorem ctlAt_take (script : List Ctl) (K i : Nat) (h : i < K) : ctlAt (script.take K) i = ctlAt script i := by
  unfold ctlAt
  rw [List.getD_eq_getElem?_getD, List.getD_eq_getElem?_getD, List.getElem?_take_of_lt h]

/-- **`Break` only cuts the traversal short.**  A run that ends with `Break` consists of exactly the
first events of the run in which the visitor answers `Continue` from the breaking event on (the script
truncated just before the `Break`). -/
theorem dfsSearch_break_prefix (v : View) (script : List Ctl) (fuel : Nat) (starts : List Nat)
    (s1 : VS) (h1 : dfsSearch v script fuel starts {} = (s1, .brk)) :
    s1.evs.reverse =
      (dfsSearch v (script.take (s1.evs.length - 1)) fuel starts {}).1.evs.reverse.take s1.evs.length := by
  obtain ⟨pre, e, hL, _⟩ := (dfsv_result_brk h1).mp rfl
  have hlen : s1.evs.length = pre.length + 1 := by
    have := congrArg List.length hL
    simpa using this
  have hp := (dfsSearch_prefix v (K := pre.length) (sc1 := script) (sc2 := script.take pre.length)
    (fun i hi => (ctlAt_take script pre.length i hi).symm) fuel starts).1
  rw [h1] at hp
  simp only at hp
  rw [hlen, Nat.add_sub_cancel, ← hp]
  rw [List.take_of_length_le (by simp [hlen])]

end PetgraphModel.TravProofs
