import PetgraphModel.Proofs.C15W2JoinA
/-
C15 wave 2 — `find_join`, phase B: the inner vertices of one path up to the join receive the `Edge`
label and the join as first inner vertex; the walk ends at the join within its fuel.
-/
namespace PetgraphModel.C15W2
open PetgraphModel PetgraphModel.C15 PetgraphModel.C15M PetgraphModel.C15P

theorem setLabel_eq (s : GS) (i : Nat) (x : Label) (h : i < s.label.length) :
    s.setLabel i x = { s with label := s.label.set i x } := by
  unfold GS.setLabel; rw [if_pos h]

theorem setFi_eq (s : GS) (i : Nat) (x : Nat) (h : i < s.fi.length) :
    s.setFi i x = { s with fi := s.fi.set i x } := by
  unfold GS.setFi; rw [if_pos h]

/-- head of a list, with a default -/
def hdOr : List Nat → Nat → Nat
  | [], d => d
  | x :: _, _ => x

@[simp] theorem hdOr_nil (d : Nat) : hdOr [] d = d := rfl
@[simp] theorem hdOr_cons (x : Nat) (l : List Nat) (d : Nat) : hdOr (x :: l) d = x := rfl

theorem labelAdvance_eval (v : View) (k : Key) (esrc etgt join : Nat) (s : GS) (inner : Nat)
    (calls : List Nat) (p y nx : Nat)
    (hl : inner < s.label.length) (hf : inner < s.fi.length) (hm : inner < s.mate.length)
    (hp : getM s.mate inner = some p) (hpl : v.toIndex p < s.label.length)
    (hlp : labI (s.label.set inner (Label.edge k esrc etgt)) (v.toIndex p) = Label.vertex y)
    (hyl : v.toIndex y < s.fi.length) (hfy : fiI (s.fi.set inner join) (v.toIndex y) = nx) :
    labelAdvance v k esrc etgt join s inner calls =
      .yield ({ s with label := s.label.set inner (Label.edge k esrc etgt), fi := s.fi.set inner join },
        calls, nx) := by
  unfold labelAdvance
  rw [setLabel_eq _ _ _ hl]
  rw [setFi_eq ({ s with label := s.label.set inner (Label.edge k esrc etgt) } : GS) inner join hf]
  have e1 : ({ s with label := s.label.set inner (Label.edge k esrc etgt), fi := s.fi.set inner join } : GS).getMate inner
      = (some p, false) := by
    rw [getMate_eq ({ s with label := s.label.set inner (Label.edge k esrc etgt), fi := s.fi.set inner join } : GS) inner hm]; exact congrArg (·, false) hp
  have e2 : ({ s with label := s.label.set inner (Label.edge k esrc etgt), fi := s.fi.set inner join } : GS).getLabel (v.toIndex p)
      = (Label.vertex y, false) := by
    rw [getLabel_eq ({ s with label := s.label.set inner (Label.edge k esrc etgt), fi := s.fi.set inner join } : GS) (v.toIndex p) (by simpa using hpl)]; exact congrArg (·, false) hlp
  have e3 : ({ s with label := s.label.set inner (Label.edge k esrc etgt), fi := s.fi.set inner join } : GS).getFi (v.toIndex y)
      = (nx, false) := by
    rw [getFi_eq ({ s with label := s.label.set inner (Label.edge k esrc etgt), fi := s.fi.set inner join } : GS) (v.toIndex y) (by simpa using hyl)]; exact congrArg (·, false) hfy
  simp only [e1, e2, Bool.or_self, flt_false, e3]

section
variable (c : Ctx) (k : Key) (esrc etgt : Nat) (lab0 : List Label) (fi0 : List Nat)
  (s : GS) (calls0 : List Nat) (L : List Nat) (join : Nat)

/-- loop invariant of the labelling walk: `done` has been labelled -/
structure LInv (i : Nat) (st : LSt) : Prop where
  mate : st.1.mate = c.m0
  fault : st.1.fault = false
  labLen : st.1.label.length = c.v.nb + 1
  fiLen : st.1.fi.length = c.v.nb + 1
  pos : ∃ done todo, L = done ++ todo ∧ done.length = i ∧ st.2.2 = hdOr todo join ∧
    (∀ j, labI st.1.label j = if j ∈ done then Label.edge k esrc etgt else labI s.label j) ∧
    (∀ j, fiI st.1.fi j = if j ∈ done then join else fiI s.fi j) ∧
    st.2.1 = calls0 ++ done.map (fromIndex c.v)

structure LPost (st : LSt) : Prop where
  mate : st.1.mate = c.m0
  fault : st.1.fault = false
  labLen : st.1.label.length = c.v.nb + 1
  fiLen : st.1.fi.length = c.v.nb + 1
  lab : ∀ j, labI st.1.label j = if j ∈ L then Label.edge k esrc etgt else labI s.label j
  fi : ∀ j, fiI st.1.fi j = if j ∈ L then join else fiI s.fi j
  calls : st.2.1 = calls0 ++ L.map (fromIndex c.v)

variable {c k esrc etgt lab0 fi0 s calls0 L join}

theorem labelStep_spec (hm0 : c.m0.length = c.v.nb + 1) (U R : List Nat) (hU : ChainOK c lab0 fi0 U)
    (hUL : U = L ++ join :: R)
    (hlabO : ∀ j, (labI lab0 j).isOuter = true → labI s.label j = labI lab0 j)
    (hfiO : ∀ j, (labI lab0 j).isOuter = true → fiI s.fi j = fiI fi0 j)
    (i : Nat) (st : LSt) (hI : LInv c k esrc etgt s calls0 L join i st) :
    stepPost (LInv c k esrc etgt s calls0 L join (i + 1)) (LPost c k esrc etgt s calls0 L join)
      (labelStep c.v k esrc etgt join st) := by
  obtain ⟨done, todo, hL, hlen, hinner, hlab, hfi, hcalls⟩ := hI.pos
  unfold labelStep
  rw [if_neg (by rw [hI.fault]; simp)]
  cases todo with
  | nil =>
    -- arrived at the join
    have hj : st.2.2 = join := by simpa using hinner
    rw [if_pos (by simp [hj])]
    have hLd : L = done := by simpa using hL
    exact ⟨hI.mate, hI.fault, hI.labLen, hI.fiLen, by rw [hLd]; exact hlab, by rw [hLd]; exact hfi,
      by rw [hLd]; exact hcalls⟩
  | cons x todo' =>
    have hx : st.2.2 = x := by simpa using hinner
    have hUx : U = done ++ x :: (todo' ++ join :: R) := by rw [hUL, hL]; simp
    have hxj : x ≠ join := by
      intro e
      have := hU.nodup
      rw [hUx, e] at this
      have h2 := (List.nodup_append.mp this).2.1
      simp at h2
    have hxnb : x ≠ c.v.nb := by
      intro e
      obtain ⟨U0, e0⟩ := hU.last
      have hn := hU.nodup
      rw [hUx] at e0
      -- `x` is not the last element of `U`
      have h3 : ∃ l', x :: (todo' ++ join :: R) = l' ++ [c.v.nb] :=
        suffix_snoc c.v.nb done _ U0 e0 (by simp)
      obtain ⟨l', hl'⟩ := h3
      cases l' with
      | nil => simp at hl'
      | cons a l'' =>
        simp only [List.cons_append, List.cons.injEq] at hl'
        rw [hUx, hl'.2, e] at hn
        have h4 := (List.nodup_append.mp hn).2.1
        simp at h4
    rw [if_neg (by simp [hx, hxj]), if_pos (by simp [hx, hxnb])]
    rw [hx]
    obtain ⟨nx, R', hR', p, y, hp, hpi, hpl, hyi, hyo, hnx⟩ := hU.succ hUx hxnb
    have hx_le : x ≤ c.v.nb := hU.le x (by rw [hUx]; simp)
    have hx_in : (labI lab0 x).isOuter = false := hU.inner x (by rw [hUx]; simp)
    have hdone_in : ∀ j ∈ done, (labI lab0 j).isOuter = false := by
      intro j hj; exact hU.inner j (by rw [hUx]; simp [hj])
    have hnx_eq : nx = hdOr todo' join := by
      cases todo' with
      | nil => simp at hR'; simp [hR'.1]
      | cons a t => simp at hR'; simp [hR'.1]
    -- indices whose entries are untouched
    have hpx : c.v.toIndex p ≠ x := fun e => by rw [← e, hpl] at hx_in; cases hx_in
    have hyx : c.v.toIndex y ≠ x := fun e => by rw [← e, hyo] at hx_in; cases hx_in
    have hpd : c.v.toIndex p ∉ done := fun h => by have := hdone_in _ h; rw [hpl] at this; cases this
    have hyd : c.v.toIndex y ∉ done := fun h => by have := hdone_in _ h; rw [hyo] at this; cases this
    have hl1 : labI (st.1.label.set x (Label.edge k esrc etgt)) (c.v.toIndex p) = Label.vertex y := by
      rw [labI_set _ _ _ _ (by rw [hI.labLen]; omega), if_neg (fun e => hpx e.symm), hlab, if_neg hpd,
        hlabO _ (by rw [hpl]; rfl), hpl]
    have hf1 : fiI (st.1.fi.set x join) (c.v.toIndex y) = nx := by
      rw [fiI_set _ _ _ _ (by rw [hI.fiLen]; omega), if_neg (fun e => hyx e.symm), hfi, if_neg hyd,
        hfiO _ hyo, hnx]
    rw [labelAdvance_eval c.v k esrc etgt join st.1 x _ p y nx (by rw [hI.labLen]; omega)
      (by rw [hI.fiLen]; omega) (by rw [hI.mate, hm0]; omega) (by rw [hI.mate]; exact hp)
      (by rw [hI.labLen]; omega) hl1 (by rw [hI.fiLen]; omega) hf1]
    refine ⟨hI.mate, hI.fault, by simp [hI.labLen], by simp [hI.fiLen], ?_⟩
    refine ⟨done ++ [x], todo', by rw [hL]; simp, by simp [hlen], hnx_eq, ?_, ?_, ?_⟩
    · intro j
      show labI (st.1.label.set x (Label.edge k esrc etgt)) j = _
      rw [labI_set _ _ _ _ (by rw [hI.labLen]; omega), hlab j]
      by_cases hj : x = j
      · subst hj; simp
      · have : j ≠ x := fun e => hj e.symm
        simp [hj, this]
    · intro j
      show fiI (st.1.fi.set x join) j = _
      rw [fiI_set _ _ _ _ (by rw [hI.fiLen]; omega), hfi j]
      by_cases hj : x = j
      · subst hj; simp
      · have : j ≠ x := fun e => hj e.symm
        simp [hj, this]
    · show st.2.1 ++ [fromIndex c.v x] = _
      rw [hcalls]; simp

/-- **phase B of `find_join`, one side** -/
theorem labelLoop_spec (hm0 : c.m0.length = c.v.nb + 1) (U R : List Nat) (hU : ChainOK c lab0 fi0 U)
    (hUL : U = L ++ join :: R)
    (hlabO : ∀ j, (labI lab0 j).isOuter = true → labI s.label j = labI lab0 j)
    (hfiO : ∀ j, (labI lab0 j).isOuter = true → fiI s.fi j = fiI fi0 j)
    (init : LSt) (h0 : LInv c k esrc etgt s calls0 L join 0 init) :
    LPost c k esrc etgt s calls0 L join
      (forIn (m := Id) [:4 * (c.v.nb + 2)] init (fun _ st => pure (labelStep c.v k esrc etgt join st))).run := by
  have := forIn_range_pure (LInv c k esrc etgt s calls0 L join) (LPost c k esrc etgt s calls0 L join)
    (4 * (c.v.nb + 2)) (fun _ st => labelStep c.v k esrc etgt join st) init h0
    (fun i st _ hI => labelStep_spec hm0 U R hU hUL hlabO hfiO i st hI)
  rcases this with h | h
  · exact h
  · exfalso
    obtain ⟨done, todo, hL, hlen, _⟩ := h.pos
    have l1 := hU.length_le
    rw [hUL, hL] at l1
    simp only [List.length_append, List.length_cons] at l1
    omega

end

end PetgraphModel.C15W2
