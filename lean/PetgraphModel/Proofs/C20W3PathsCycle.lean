import PetgraphModel.Proofs.C20W2Paths
/-
C20 (wave 3) — what the mirrored `all_simple_paths` iterator yields for `from = to`.

* soundness: `CInv` (the `PInv` of `C20PathsModel` without "`to` is not visited" and with the depth
  bound `rvis.length ≤ max max_length 1`) is kept by `next`; whatever is yielded is `a, mid…, a` with
  `a :: mid` = the visited list (duplicate-free).
* completeness: `next_complete` of `C20W2Paths` re-done for an abstract specification `P` that
  satisfies the five facts of `CSpec`; `cspec_cycle` proves them for `IsSimpleCycleIn`.
* exactly once: `collect_nodup` of `C20W2Paths` does not mention the specification and is reused.
-/
namespace PetgraphModel.C20.Paths
open PetgraphModel PetgraphModel.MGraph

/-- a simple cycle through `a`, written `a, mid…, a` (`a :: mid` duplicate-free), whose number of
intermediate nodes is within `[lo, hi]`; WITHOUT an upper bound the real code stops at
`node_count() - 1` visited nodes, so the cycle has at most `n - 2` intermediate nodes (a Hamiltonian
cycle has `n - 1`) — except that a self-loop `a, a` is always within the bound -/
def IsSimpleCycleIn (g : MGraph) (a lo : Nat) (hi : Option Nat) (p : List Nat) : Prop :=
  ∃ mid, p = a :: (mid ++ [a]) ∧ (a :: mid).Nodup ∧ IsWalk g p ∧ lo ≤ mid.length ∧
    (∀ h, hi = some h → mid.length ≤ h) ∧ (hi = none → mid.length + 2 ≤ max g.nodes.length 2)

/-! ### soundness -/

structure CInv (g : MGraph) (a : Nat) (hi : Option Nat) (st : St) : Prop where
  nodup : st.rvis.Nodup
  chain : RChain g st.rvis
  first : st.rvis = [] ∨ st.rvis.getLast? = some a
  aligned : Aligned g st.rvis st.stack
  bound : st.rvis.length ≤ max (maxLenOf g.nodes.length hi) 1

theorem cinv_pop {g : MGraph} {a : Nat} {hi : Option Nat} {rvis : List Nat} {cs : List Nat} {rest : List (List Nat)}
    (h : CInv g a hi { rvis := rvis, stack := cs :: rest }) :
    CInv g a hi { rvis := rvis.tail, stack := rest } := by
  obtain ⟨h1, h3, h4, h5, h6⟩ := h
  simp only at h1 h3 h4 h5 h6
  cases rvis with
  | nil => exact absurd h5 (by simp [Aligned])
  | cons v t =>
    refine ⟨(List.nodup_cons.mp h1).2, rchain_tail g h3, getLast?_tail_of h4, h5.2, ?_⟩
    simp only [List.length_cons, List.tail_cons] at h6 ⊢
    omega

theorem cinv_shrink {g : MGraph} {a : Nat} {hi : Option Nat} {rvis : List Nat} {cs cs' : List Nat}
    {rest : List (List Nat)} (h : CInv g a hi { rvis := rvis, stack := cs :: rest })
    (hsub : ∀ c ∈ cs', c ∈ cs) : CInv g a hi { rvis := rvis, stack := cs' :: rest } := by
  obtain ⟨h1, h3, h4, h5, h6⟩ := h
  refine ⟨h1, h3, h4, ?_, h6⟩
  simp only at h5 ⊢
  cases rvis with
  | nil => exact absurd h5 (by simp [Aligned])
  | cons v t => exact ⟨fun c hc => h5.1 c (hsub c hc), h5.2⟩

theorem cemit_ok {g : MGraph} {a lo : Nat} {hi : Option Nat} {rvis cs : List Nat} {rest : List (List Nat)}
    (h : CInv g a hi { rvis := rvis, stack := cs :: rest }) (hto : a ∈ cs) (hmin : lo + 1 ≤ rvis.length) :
    IsSimpleCycleIn g a lo hi (a :: rvis).reverse := by
  obtain ⟨h1, h3, h4, h5, h6⟩ := h
  simp only at h1 h3 h4 h5 h6
  cases rvis with
  | nil => exact absurd h5 (by simp [Aligned])
  | cons v t =>
    have hadj : g.Adj v a := h5.1 a hto
    have hlast : (v :: t).getLast? = some a := by
      cases h4 with
      | inl e => cases e
      | inr e => exact e
    obtain ⟨m, hm⟩ := List.getLast?_eq_some_iff.mp hlast
    have hlen : (v :: t).length = m.length + 1 := by rw [hm]; simp
    refine ⟨m.reverse, ?_, ?_, rchain_walk g _ ⟨hadj, h3⟩, ?_, ?_, ?_⟩
    · rw [hm]; simp
    · have hnd : (m ++ [a]).Nodup := hm ▸ h1
      have e : a :: m.reverse = (m ++ [a]).reverse := by simp
      rw [e]
      exact (List.reverse_perm _).nodup_iff.mpr hnd
    · rw [List.length_reverse]; omega
    · intro hh hhi
      subst hhi
      simp only [maxLenOf] at h6
      rw [List.length_reverse]; omega
    · intro hhi
      subst hhi
      simp only [maxLenOf] at h6
      rw [List.length_reverse]; omega

/-- one call of `next` (with `to = a`): a yielded path meets the cycle specification and the invariant is kept -/
theorem cnext_sound (g : MGraph) (a lo : Nat) (hi : Option Nat) :
    ∀ (f : Nat) (st st' : St) (p : List Nat), CInv g a hi st →
      next g.succ a (lo + 1) (maxLenOf g.nodes.length hi) f st = some (some p, st') →
      IsSimpleCycleIn g a lo hi p ∧ CInv g a hi st' := by
  intro f
  induction f with
  | zero => intro st st' p _ h; simp [next] at h
  | succ f ih =>
    intro st st' p hinv h
    obtain ⟨rvis, stack⟩ := st
    unfold next at h
    simp only at h
    split at h
    · simp at h
    · rename_i rest
      exact ih _ st' p (cinv_pop hinv) h
    · rename_i child cs rest
      split at h
      · rename_i hlt
        split at h
        · rename_i hct
          have hct' : child = a := by simpa using hct
          split at h
          · rename_i hmin
            simp only [Option.some.injEq, Prod.mk.injEq] at h
            obtain ⟨hp, hs⟩ := h
            subst hp; subst hs
            exact ⟨cemit_ok hinv (by simp [hct']) hmin, cinv_shrink hinv (fun c hc => List.mem_cons_of_mem _ hc)⟩
          · exact ih _ st' p (cinv_shrink hinv (fun c hc => List.mem_cons_of_mem _ hc)) h
        · split at h
          · rename_i hnew
            have hnew' : child ∉ rvis := by simpa using hnew
            apply ih _ st' p _ h
            obtain ⟨h1, h3, h4, h5, h6⟩ := hinv
            simp only at h1 h3 h4 h5 h6
            cases rvis with
            | nil => exact absurd h5 (by simp [Aligned])
            | cons v t =>
              have hadj : g.Adj v child := h5.1 child (by simp)
              refine ⟨List.nodup_cons.mpr ⟨hnew', h1⟩, ⟨hadj, h3⟩, ?_, ?_, ?_⟩
              · right
                cases h4 with
                | inl e => cases e
                | inr e => simpa [List.getLast?_cons_cons] using e
              · exact ⟨fun c hc => MGraph.mem_succ.mp hc, fun c hc => h5.1 c (List.mem_cons_of_mem _ hc), h5.2⟩
              · simp only [List.length_cons] at hlt ⊢
                omega
          · exact ih _ st' p (cinv_shrink hinv (fun c hc => List.mem_cons_of_mem _ hc)) h
      · split at h
        · rename_i hfound
          simp only [Bool.and_eq_true, Bool.or_eq_true, beq_iff_eq, decide_eq_true_eq] at hfound
          simp only [Option.some.injEq, Prod.mk.injEq] at h
          obtain ⟨hp, hs⟩ := h
          subst hp; subst hs
          have hto : a ∈ child :: cs := by
            cases hfound.1 with
            | inl e => simp [e]
            | inr e => exact List.mem_cons_of_mem _ (by simpa using e)
          refine ⟨cemit_ok hinv hto hfound.2, cinv_shrink hinv ?_⟩
          intro c hc
          split at hc
          · exact List.mem_cons_of_mem _ hc
          · exact List.mem_cons_of_mem _ ((List.dropWhile_sublist _).subset (List.mem_of_mem_tail hc))
        · exact ih _ st' p (cinv_pop hinv) h

theorem ccollect_sound (g : MGraph) (a lo : Nat) (hi : Option Nat) (fuel : Nat) :
    ∀ (k : Nat) (st : St) (acc out : List (List Nat)), CInv g a hi st →
      (∀ p ∈ acc, IsSimpleCycleIn g a lo hi p) →
      collect g.succ a (lo + 1) (maxLenOf g.nodes.length hi) fuel k st acc = some out →
      ∀ p ∈ out, IsSimpleCycleIn g a lo hi p := by
  intro k
  induction k with
  | zero => intro st acc out _ _ h; simp [collect] at h
  | succ k ih =>
    intro st acc out hinv hacc h
    simp only [collect] at h
    split at h
    · simp at h
    · simp only [Option.some.injEq] at h
      subst h
      intro p hp
      exact hacc p (List.mem_reverse.mp hp)
    · rename_i p st' hn
      have := cnext_sound g a lo hi fuel st st' p hinv hn
      apply ih st' (p :: acc) out this.2 _ h
      intro q hq
      cases List.mem_cons.mp hq with
      | inl e => exact e ▸ this.1
      | inr e => exact hacc q e

/-- **soundness** for `from = to`: everything the iterator yields is a simple cycle through `a` within the bounds -/
theorem allSimplePaths_cycle_sound (g : MGraph) (a lo : Nat) (hi : Option Nat) (fuel : Nat)
    (out : List (List Nat)) (h : allSimplePaths g.succ g.nodes.length a a lo hi fuel = some out) :
    ∀ p ∈ out, IsSimpleCycleIn g a lo hi p := by
  unfold allSimplePaths at h
  apply ccollect_sound g a lo hi fuel fuel _ [] out _ (by simp) h
  refine ⟨by simp, trivial, Or.inr (by simp), ⟨fun c hc => MGraph.mem_succ.mp hc, trivial⟩, ?_⟩
  simp only [List.length_cons, List.length_nil]
  omega

/-! ### completeness, for an abstract specification -/

/-- what the completeness argument needs to know about the specified lists `P` -/
structure CSpec (succ : Nat → List Nat) (to lo maxLen : Nat) (P : List Nat → Prop) : Prop where
  /-- a specified list that starts with `… , to` (after at least one node) is exactly that -/
  top_to : ∀ p r, P p → r ≠ [] → (to :: r).reverse <+: p → p = (to :: r).reverse
  /-- a specified list that starts with `… , c` for `c ≠ to` goes on to a successor of `c` -/
  top_extend : ∀ p r c, P p → c ≠ to → (c :: r).reverse <+: p → ∃ c' ∈ succ c, (c' :: c :: r).reverse <+: p
  /-- at full depth a specified list can only end right here -/
  top_full : ∀ p r c, P p → r ≠ [] → maxLen ≤ r.length → (c :: r).reverse <+: p → c = to ∧ p = (to :: r).reverse
  /-- a specified list does not revisit a node (other than `to`) -/
  visited : ∀ p r c, P p → c ≠ to → c ∈ r → ¬ (c :: r).reverse <+: p
  lower : ∀ p, P p → lo + 2 ≤ p.length

theorem next_complete_gen (succ : Nat → List Nat) (to lo maxLen : Nat) (P : List Nat → Prop)
    (hP : CSpec succ to lo maxLen P) :
    ∀ (f : Nat) (st st' : St) (r : Option (List Nat)),
      next succ to (lo + 1) maxLen f st = some (r, st') →
      (∀ p, P p → Pend p st.rvis st.stack → r = some p ∨ Pend p st'.rvis st'.stack) ∧
      (r = none → st'.stack = []) := by
  intro f
  induction f with
  | zero => intro st st' r h; simp [next] at h
  | succ f ih =>
    intro st st' r h
    obtain ⟨rvis, stack⟩ := st
    unfold next at h
    simp only at h
    split at h
    · -- empty stack: exhausted
      simp only [Option.some.injEq, Prod.mk.injEq] at h
      obtain ⟨hr, hs⟩ := h
      subst hr; subst hs
      exact ⟨fun p _ hpend => by simp [Pend] at hpend, fun _ => rfl⟩
    · -- a finished level
      rename_i _ rest
      have := ih _ st' r h
      refine ⟨fun p hp hpend => this.1 p hp ?_, this.2⟩
      cases rvis with
      | nil => simp [Pend] at hpend
      | cons v t =>
        simp only [Pend] at hpend
        rcases hpend with ⟨c, hc, _⟩ | hdeep
        · cases hc
        · exact hdeep
    · rename_i _ child cs rest
      cases rvis with
      | nil =>
        -- nothing is pending with an empty visited list
        have hnp : ∀ p, ¬ Pend p [] ((child :: cs) :: rest) := fun p => by simp [Pend]
        split at h
        · split at h
          · split at h
            · simp only [Option.some.injEq, Prod.mk.injEq] at h
              obtain ⟨hr, hs⟩ := h
              subst hr; subst hs
              exact ⟨fun p _ hpend => absurd hpend (hnp p), fun h0 => by simp at h0⟩
            · have := ih _ st' r h
              exact ⟨fun p _ hpend => absurd hpend (hnp p), this.2⟩
          · split at h
            · have := ih _ st' r h
              exact ⟨fun p _ hpend => absurd hpend (hnp p), this.2⟩
            · have := ih _ st' r h
              exact ⟨fun p _ hpend => absurd hpend (hnp p), this.2⟩
        · split at h
          · simp only [Option.some.injEq, Prod.mk.injEq] at h
            obtain ⟨hr, hs⟩ := h
            subst hr; subst hs
            exact ⟨fun p _ hpend => absurd hpend (hnp p), fun h0 => by simp at h0⟩
          · have := ih _ st' r h
            exact ⟨fun p _ hpend => absurd hpend (hnp p), this.2⟩
      | cons v t =>
        have hvt : v :: t ≠ [] := by simp
        split at h
        · rename_i hlt
          split at h
          · rename_i hct
            have hct' : child = to := by simpa using hct
            subst hct'
            split at h
            · -- yield
              simp only [Option.some.injEq, Prod.mk.injEq] at h
              obtain ⟨hr, hs⟩ := h
              subst hr; subst hs
              refine ⟨fun p hp hpend => ?_, fun h0 => by simp at h0⟩
              simp only [Pend] at hpend ⊢
              rcases hpend with ⟨c, hc, hpre⟩ | hdeep
              · cases List.mem_cons.mp hc with
                | inl e => subst e; exact Or.inl (congrArg some (hP.top_to p _ hp hvt hpre).symm)
                | inr e => exact Or.inr (Or.inl ⟨c, e, hpre⟩)
              · exact Or.inr (Or.inr hdeep)
            · -- too short
              rename_i hmin
              have := ih _ st' r h
              refine ⟨fun p hp hpend => this.1 p hp ?_, this.2⟩
              simp only [Pend] at hpend ⊢
              rcases hpend with ⟨c, hc, hpre⟩ | hdeep
              · cases List.mem_cons.mp hc with
                | inl e =>
                  subst e
                  have hpe := hP.top_to p _ hp hvt hpre
                  have hlen := hP.lower p hp
                  rw [hpe] at hlen
                  simp at hlen hmin
                  omega
                | inr e => exact Or.inl ⟨c, e, hpre⟩
              · exact Or.inr hdeep
          · rename_i hct
            have hne : child ≠ to := by simpa using hct
            split at h
            · -- descend
              have := ih _ st' r h
              refine ⟨fun p hp hpend => this.1 p hp ?_, this.2⟩
              simp only [Pend] at hpend ⊢
              rcases hpend with ⟨c, hc, hpre⟩ | hdeep
              · cases List.mem_cons.mp hc with
                | inl e =>
                  subst e
                  obtain ⟨c', hc', hpre'⟩ := hP.top_extend p _ _ hp hne hpre
                  exact Or.inl ⟨c', hc', hpre'⟩
                | inr e => exact Or.inr (Or.inl ⟨c, e, hpre⟩)
              · exact Or.inr (Or.inr hdeep)
            · -- already visited
              rename_i hvis
              have hvis' : child ∈ v :: t := Classical.byContradiction fun hn => hvis (by simpa using hn)
              have := ih _ st' r h
              refine ⟨fun p hp hpend => this.1 p hp ?_, this.2⟩
              simp only [Pend] at hpend ⊢
              rcases hpend with ⟨c, hc, hpre⟩ | hdeep
              · cases List.mem_cons.mp hc with
                | inl e =>
                  subst e
                  exact absurd hpre (hP.visited p _ _ hp hne hvis')
                | inr e => exact Or.inl ⟨c, e, hpre⟩
              · exact Or.inr hdeep
        · rename_i hge
          have hfull : maxLen ≤ (v :: t).length := by omega
          split at h
          · -- yield at full depth
            simp only [Option.some.injEq, Prod.mk.injEq] at h
            obtain ⟨hr, hs⟩ := h
            subst hr; subst hs
            refine ⟨fun p hp hpend => ?_, fun h0 => by simp at h0⟩
            simp only [Pend] at hpend ⊢
            rcases hpend with ⟨c, hc, hpre⟩ | hdeep
            · exact Or.inl (congrArg some (hP.top_full p _ _ hp hvt hfull hpre).2.symm)
            · exact Or.inr (Or.inr hdeep)
          · rename_i hnf
            have := ih _ st' r h
            refine ⟨fun p hp hpend => this.1 p hp ?_, this.2⟩
            simp only [Pend] at hpend
            rcases hpend with ⟨c, hc, hpre⟩ | hdeep
            · exfalso
              obtain ⟨hcto, hpe⟩ := hP.top_full p _ _ hp hvt hfull hpre
              subst hcto
              apply hnf
              have hfound : (child == c || cs.contains c) = true := by
                cases List.mem_cons.mp hc with
                | inl e => simp [e]
                | inr e => simp [e]
              have hlen := hP.lower p hp
              rw [hpe] at hlen
              simp only [List.length_reverse, List.length_cons] at hlen
              simp only [hfound, Bool.true_and, decide_eq_true_eq, List.length_cons]
              omega
            · exact hdeep

theorem collect_complete_gen (succ : Nat → List Nat) (to lo maxLen : Nat) (P : List Nat → Prop)
    (hP : CSpec succ to lo maxLen P) (fuel : Nat) :
    ∀ (k : Nat) (st : St) (acc out : List (List Nat)),
      (∀ p, P p → p ∈ acc ∨ Pend p st.rvis st.stack) →
      collect succ to (lo + 1) maxLen fuel k st acc = some out →
      ∀ p, P p → p ∈ out := by
  intro k
  induction k with
  | zero => intro st acc out _ h; simp [collect] at h
  | succ k ih =>
    intro st acc out hinv h
    simp only [collect] at h
    split at h
    · simp at h
    · rename_i st' hn
      simp only [Option.some.injEq] at h
      subst h
      have hc := next_complete_gen succ to lo maxLen P hP fuel st st' none hn
      have hempty := hc.2 rfl
      intro p hp
      cases hinv p hp with
      | inl e => exact List.mem_reverse.mpr e
      | inr e =>
        cases hc.1 p hp e with
        | inl e' => simp at e'
        | inr e' => rw [hempty] at e'; simp [Pend] at e'
    · rename_i q st' hn
      have hc := next_complete_gen succ to lo maxLen P hP fuel st st' (some q) hn
      apply ih st' (q :: acc) out _ h
      intro p hp
      cases hinv p hp with
      | inl e => exact Or.inl (List.mem_cons_of_mem _ e)
      | inr e =>
        cases hc.1 p hp e with
        | inl e' =>
          simp only [Option.some.injEq] at e'
          exact Or.inl (e' ▸ List.mem_cons_self)
        | inr e' => exact Or.inr e'

/-! ### the cycle specification satisfies `CSpec` -/

/-- a prefix of `a, mid…, a` that ends in `c ≠ a` is a prefix of `a, mid…` -/
theorem cyc_prefix_proper {a c : Nat} {mid r : List Nat} (hne : c ≠ a)
    (hpre : (c :: r).reverse <+: a :: (mid ++ [a])) : (c :: r).reverse <+: a :: mid := by
  have e : a :: (mid ++ [a]) = (a :: mid) ++ [a] := by simp
  rw [e, List.prefix_concat_iff] at hpre
  cases hpre with
  | inr h => exact h
  | inl h =>
    exfalso
    have := congrArg List.reverse h
    simp only [List.reverse_reverse, List.reverse_append, List.reverse_cons, List.reverse_nil,
      List.nil_append, List.singleton_append] at this
    exact hne (List.cons.inj this).1

theorem cyc_top_to {a : Nat} {mid r : List Nat} (hnd : (a :: mid).Nodup) (hr : r ≠ [])
    (hpre : (a :: r).reverse <+: a :: (mid ++ [a])) : a :: (mid ++ [a]) = (a :: r).reverse := by
  have e : a :: (mid ++ [a]) = (a :: mid) ++ [a] := by simp
  rw [e, List.prefix_concat_iff] at hpre
  cases hpre with
  | inl h => rw [e]; exact h.symm
  | inr h =>
    exfalso
    have hnd' : ((a :: r).reverse).Nodup := List.Nodup.sublist h.sublist hnd
    rw [(List.reverse_perm _).nodup_iff] at hnd'
    apply (List.nodup_cons.mp hnd').1
    -- the first node of `r.reverse` is `a`
    rw [List.reverse_cons] at h
    cases hrr : r.reverse with
    | nil => exact absurd (List.reverse_eq_nil_iff.mp hrr) hr
    | cons x s =>
      rw [hrr] at h
      obtain ⟨s', hs'⟩ := h
      have hx : x = a := (List.cons.inj hs').1
      have : x ∈ r.reverse := by rw [hrr]; exact List.mem_cons_self
      exact hx ▸ List.mem_reverse.mp this

theorem cspec_cycle (g : MGraph) (a lo : Nat) (hi : Option Nat) (ha : a ∈ g.nodes) :
    CSpec g.succ a lo (maxLenOf g.nodes.length hi) (IsSimpleCycleIn g a lo hi) := by
  refine ⟨?_, ?_, ?_, ?_, ?_⟩
  · rintro p r ⟨mid, rfl, hnd, -⟩ hr hpre
    exact cyc_top_to hnd hr hpre
  · rintro p r c ⟨mid, rfl, hnd, hw, -⟩ hne hpre
    have hpre' := cyc_prefix_proper hne hpre
    obtain ⟨s, hs⟩ := hpre'
    -- the whole list is `(c :: r).reverse ++ (s ++ [a])`
    have hp : a :: (mid ++ [a]) = r.reverse ++ c :: (s ++ [a]) := by
      have : a :: (mid ++ [a]) = (a :: mid) ++ [a] := by simp
      rw [this, ← hs]; simp
    cases s with
    | nil =>
      refine ⟨a, ?_, ⟨[], by rw [hp]; simp⟩⟩
      rw [hp] at hw
      exact MGraph.mem_succ.mpr (isWalk_adj_of_append g _ _ _ _ hw)
    | cons x s' =>
      refine ⟨x, ?_, ⟨s' ++ [a], by rw [hp]; simp⟩⟩
      rw [hp] at hw
      exact MGraph.mem_succ.mpr (isWalk_adj_of_append g _ _ _ _ hw)
  · rintro p r c ⟨mid, rfl, hnd, hw, hlo, hh, hn⟩ hr hfull hpre
    have hrpos : 0 < r.length := List.length_pos_iff.mpr hr
    have hlen : (a :: (mid ++ [a])).length ≤ (c :: r).reverse.length := by
      simp only [List.length_cons, List.length_append, List.length_nil, List.length_reverse]
      cases hi with
      | some h =>
        have := hh h rfl
        simp only [maxLenOf] at hfull
        omega
      | none =>
        have := hn rfl
        have hpos : 0 < g.nodes.length := List.length_pos_of_mem ha
        simp only [maxLenOf] at hfull
        omega
    have heq : (c :: r).reverse = a :: (mid ++ [a]) := hpre.eq_of_length_le hlen
    have hc : c = a := by
      have := congrArg List.reverse heq
      simp only [List.reverse_reverse, List.reverse_append, List.reverse_cons, List.reverse_nil,
        List.nil_append, List.cons_append] at this
      exact (List.cons.inj this).1
    subst hc
    exact ⟨rfl, heq.symm⟩
  · rintro p r c ⟨mid, rfl, hnd, -⟩ hne hmem hpre
    have hpre' := cyc_prefix_proper hne hpre
    have hnd' : ((c :: r).reverse).Nodup := List.Nodup.sublist hpre'.sublist hnd
    rw [(List.reverse_perm _).nodup_iff] at hnd'
    exact (List.nodup_cons.mp hnd').1 hmem
  · rintro p ⟨mid, rfl, -, -, hlo, -⟩
    simp only [List.length_cons, List.length_append, List.length_nil]
    omega

/-- **completeness** for `from = to`: every simple cycle through `a` within the bounds is yielded -/
theorem allSimplePaths_cycle_complete (g : MGraph) (a lo : Nat) (hi : Option Nat) (fuel : Nat)
    (out : List (List Nat)) (ha : a ∈ g.nodes)
    (h : allSimplePaths g.succ g.nodes.length a a lo hi fuel = some out) :
    ∀ p, IsSimpleCycleIn g a lo hi p → p ∈ out := by
  unfold allSimplePaths at h
  apply collect_complete_gen g.succ a lo _ _ (cspec_cycle g a lo hi ha) fuel fuel _ [] out _ h
  rintro p ⟨mid, rfl, hnd, hw, -⟩
  right
  cases mid with
  | nil => exact Or.inl ⟨a, MGraph.mem_succ.mpr hw.1, by simp⟩
  | cons m ms => exact Or.inl ⟨m, MGraph.mem_succ.mpr hw.1, ⟨ms ++ [a], by simp⟩⟩

/-- **what the iterator yields for `from = to = a`**: run to exhaustion, exactly the simple cycles through
`a` within the bounds (`IsSimpleCycleIn`), each exactly once on a simple graph -/
theorem allSimplePaths_cycle_exact (g : MGraph) (a lo : Nat) (hi : Option Nat) (fuel : Nat) (out : List (List Nat))
    (hd : g.directed = true) (hg : EndpointsOk g) (ha : a ∈ g.nodes)
    (h : allSimplePaths g.succ g.nodes.length a a lo hi fuel = some out) :
    (∀ p, p ∈ out ↔ IsSimpleCycleIn g a lo hi p) ∧ (simpleB g = true → out.Nodup) := by
  have _ := hg  -- not needed: the bound for `hi = none` is stated against `g.nodes.length` directly
  refine ⟨fun p => ⟨allSimplePaths_cycle_sound g a lo hi fuel out h p,
    allSimplePaths_cycle_complete g a lo hi fuel out ha h p⟩, ?_⟩
  intro hsimple
  unfold allSimplePaths at h
  apply collect_nodup g.succ (succ_nodup_of_simple g hd hsimple) a (lo + 1) _ fuel fuel _ [] out _ (by simp)
    (by simp) h
  exact ⟨succ_nodup_of_simple g hd hsimple a, by simp, trivial⟩

end PetgraphModel.C20.Paths
