import PetgraphModel.Proofs.C20W4SteinerConn
import PetgraphModel.Proofs.C20Steiner
/-
C20, wave 4 — the mirror model of `steiner_tree`, part 3: the assembled specification of an `ok`
answer (every hash order), in the vocabulary of the judge (`SteinerOk`'s clauses over
`resultEdges g E`), the run-time checks of the hypotheses, and the edges' place on shortest paths.
-/
namespace PetgraphModel.C20.Steiner
open PetgraphModel PetgraphModel.MGraph PetgraphModel.C20 PetgraphModel.C11M PetgraphModel.MstModel
open PetgraphModel.C11W3 PetgraphModel.DistProofs

/-- with unique edge ids, the judge's `resultEdges g E` recovers a sub-list of the edges from its ids -/
theorem resultEdges_of_sublist : ∀ {all es : List Edge}, es.Sublist all → (all.map (·.id)).Nodup →
    all.filter (fun e => (es.map (·.id)).contains e.id) = es := by
  intro all es h
  induction h with
  | slnil => intro _; rfl
  | cons e hsub ih =>
    rename_i l₁ l₂
    intro hnd
    simp only [List.map_cons, List.nodup_cons] at hnd
    have hnot : (l₁.map (·.id)).contains e.id = false := by
      simp only [List.contains_eq_mem, decide_eq_false_iff_not, List.mem_map, not_exists, not_and]
      intro x hx hid
      exact hnd.1 (List.mem_map.mpr ⟨x, hsub.subset hx, hid⟩)
    rw [List.filter_cons, hnot]
    exact ih hnd.2
  | cons_cons e hsub ih =>
    rename_i l₁ l₂
    intro hnd
    simp only [List.map_cons, List.nodup_cons] at hnd
    rw [List.filter_cons]
    have h1 : ((e :: l₁).map (·.id)).contains e.id = true := by simp
    rw [h1]
    simp only [if_true]
    congr 1
    have hc : l₂.filter (fun x => ((e :: l₁).map (·.id)).contains x.id) =
        l₂.filter (fun x => (l₁.map (·.id)).contains x.id) := by
      apply List.filter_congr
      intro x hx
      have hne : x.id ≠ e.id := fun hid => hnd.1 (List.mem_map.mpr ⟨x, hx, hid⟩)
      simp [hne]
    rw [hc]; exact ih hnd.2

/-- **what an `ok` answer of the mirror model satisfies, whatever the pop order** (`pops` only has to
hold an entry for every pair of distinct terminals, between terminals), on a well-formed graph whose
costs fit the cost type: inside the graph, every terminal, connected, only terminals as leaves -/
theorem steinerFrom_spec (B : Meas) (v : View) (hwf : v.g.WellFormed) (Wm : Int) (hWm : 0 ≤ Wm)
    (hW : ∀ e ∈ v.g.edges, -Wm ≤ e.w ∧ e.w ≤ Wm) (hfit : LinFit B v.g Wm)
    {terms : List Nat} (hterms : ∀ t ∈ terms, t ∈ v.g.nodes) {pops : List Item}
    (hall : ∀ a ∈ terms, ∀ b ∈ terms, a ≠ b → ILink pops a b)
    (hends : ∀ it ∈ pops, it.a ∈ terms ∧ it.b ∈ terms)
    {N E : List Nat} (h : steinerFrom B v terms pops = .ok N E) :
    N.Sublist v.g.nodes ∧ (∀ t ∈ terms, t ∈ N) ∧
    ∃ es : List Edge, es.Sublist v.g.edges ∧ E = es.map (·.id) ∧ (∀ e ∈ es, e.src ∈ N ∧ e.tgt ∈ N) ∧
      Connected (withEdges N es) ∧ (∀ x ∈ N, x ∉ terms → single (nbrs es x) = false) := by
  obtain ⟨fw, se, removed, hfw, hse, hrem, hN, hE⟩ := steinerFrom_ok h
  have hin := steinerFrom_inside h
  refine ⟨hin.1, fun t ht => steinerFrom_terminals h t ht (hterms t ht), answerEdges v.g se terms removed,
    answerEdges_sublist _ _ _ _, hE, ?_, ?_, ?_⟩
  · intro e he
    obtain ⟨_, _, h3, h4, h5, h6⟩ := mem_answerEdges he
    rw [hN]
    simp only [List.mem_filter]
    exact ⟨⟨h3, by simpa using h5⟩, ⟨h4, by simpa using h6⟩⟩
  · have hbase := base_connected hwf (prevOk_of_floyd B v hwf Wm hWm hW hfit fw hfw) hterms hall hends hse
    have := prune_connected hbase hrem
    rw [hN]; exact this
  · intro x hx hxt
    rw [hN] at hx
    simp only [List.mem_filter] at hx
    have hxr : x ∉ removed := by simpa using hx.2
    have hlast := (prune_induct (nodes := keptNodes v.g se terms) (es := baseEdges v.g se terms) (terms := terms)
      (fun _ => True) (fun _ _ _ => trivial) _ [] removed trivial hrem).2
    unfold answerEdges
    rw [nbrs_dropNodes hxr]
    cases hs : single ((nbrs (baseEdges v.g se terms) x).filter fun y => !removed.contains y) with
    | false => rfl
    | true =>
      have : x ∈ leafRound (keptNodes v.g se terms) (baseEdges v.g se terms) terms removed :=
        mem_leafRound.mpr ⟨hx.1, hxt, hxr, hs⟩
      rw [hlast] at this
      cases this

/-- the pops of a real run (any hash order) satisfy the two hypotheses on `pops` -/
theorem pops_of_oracle {v : View} {terms : List Nat} {c : List Item} (hc : closure v terms = some c)
    (o : Oracle) (ho : o.Valid) :
    (∀ a ∈ terms, ∀ b ∈ terms, a ≠ b → ILink (popOrder (o.hashOrder c)) a b) ∧
    (∀ it ∈ popOrder (o.hashOrder c), it.a ∈ terms ∧ it.b ∈ terms) := by
  obtain ⟨c1, c2⟩ := closure_spec hc
  have hperm : (popOrder (o.hashOrder c)).Perm c := (popOrder_perm _).trans (ho c)
  refine ⟨?_, fun it hit => c2 it (hperm.mem_iff.mp hit)⟩
  intro a ha b hb hab
  obtain ⟨it, hit, h1⟩ := c1 a ha b hb hab
  exact ⟨it, hperm.mem_iff.mpr hit, h1⟩

/-- **`steiner_tree`, every hash order**: an answer of the mirror model lies inside the graph,
contains every terminal, is connected, and only terminals are leaves -/
theorem steiner_spec (B : Meas) (v : View) (hwf : v.g.WellFormed) (Wm : Int) (hWm : 0 ≤ Wm)
    (hW : ∀ e ∈ v.g.edges, -Wm ≤ e.w ∧ e.w ≤ Wm) (hfit : LinFit B v.g Wm)
    {terms : List Nat} (hterms : ∀ t ∈ terms, t ∈ v.g.nodes) (o : Oracle) (ho : o.Valid)
    {N E : List Nat} (h : steiner B v terms o = .ok N E) :
    N.Sublist v.g.nodes ∧ (∀ t ∈ terms, t ∈ N) ∧
    ∃ es : List Edge, es.Sublist v.g.edges ∧ E = es.map (·.id) ∧ (∀ e ∈ es, e.src ∈ N ∧ e.tgt ∈ N) ∧
      Connected (withEdges N es) ∧ (∀ x ∈ N, x ∉ terms → single (nbrs es x) = false) := by
  unfold steiner at h
  split at h
  · cases h
  · rename_i c hc
    obtain ⟨p1, p2⟩ := pops_of_oracle hc o ho
    exact steinerFrom_spec B v hwf Wm hWm hW hfit hterms p1 p2 h

/-- the same in the judge's vocabulary (`SteinerOk`'s clauses `nodesOk`, `edgesOk`, `inside`,
`terminals`, `connected` over `resultEdges g E`), for a graph with unique edge ids -/
theorem steiner_spec_judge (B : Meas) (v : View) (hwf : v.g.WellFormed) (hid : (v.g.edges.map (·.id)).Nodup)
    (Wm : Int) (hWm : 0 ≤ Wm)
    (hW : ∀ e ∈ v.g.edges, -Wm ≤ e.w ∧ e.w ≤ Wm) (hfit : LinFit B v.g Wm)
    {terms : List Nat} (hterms : ∀ t ∈ terms, t ∈ v.g.nodes) (o : Oracle) (ho : o.Valid)
    {N E : List Nat} (h : steiner B v terms o = .ok N E) :
    (N.Nodup ∧ ∀ x ∈ N, x ∈ v.g.nodes) ∧
    (E.Nodup ∧ ∀ i ∈ E, ∃ e ∈ v.g.edges, e.id = i) ∧
    (∀ e ∈ v.g.edges, e.id ∈ E → e.src ∈ N ∧ e.tgt ∈ N) ∧
    (∀ t ∈ terms, t ∈ N) ∧
    (∀ x ∈ N, ∀ y ∈ N, Reach (withEdges N (resultEdges v.g E)) x y) := by
  obtain ⟨h1, h2, es, h3, h4, h5, h6, _⟩ := steiner_spec B v hwf Wm hWm hW hfit hterms o ho h
  have hres : resultEdges v.g E = es := by
    unfold resultEdges; rw [h4]; exact resultEdges_of_sublist h3 hid
  have hEnd : E.Nodup := by rw [h4]; exact (h3.map _).nodup hid
  refine ⟨⟨h1.nodup hwf.1, fun x hx => h1.subset hx⟩, ⟨hEnd, ?_⟩, ?_, h2, ?_⟩
  · intro i hi
    rw [h4] at hi
    obtain ⟨e, he, rfl⟩ := List.mem_map.mp hi
    exact ⟨e, h3.subset he, rfl⟩
  · intro e he hidE
    have : e ∈ resultEdges v.g E := by
      simp only [resultEdges, List.mem_filter, List.contains_eq_mem, decide_eq_true_eq]
      exact ⟨he, hidE⟩
    rw [hres] at this
    exact h5 e this
  · rw [hres]; exact h6

/-! ### run-time checks of the hypotheses -/

theorem scopeB_sound {v : View} {terms : List Nat} (h : scopeB v terms = true) :
    v.g.WellFormed ∧ (∀ e ∈ v.g.edges, -costBound ≤ e.w ∧ e.w ≤ costBound) ∧ LinFit Meas.i64 v.g costBound ∧
      ∀ t ∈ terms, t ∈ v.g.nodes := by
  simp only [scopeB, Bool.and_eq_true, List.all_eq_true, decide_eq_true_eq, List.contains_eq_mem] at h
  obtain ⟨⟨⟨⟨h1, h2⟩, h3⟩, h4⟩, h5⟩ := h
  exact ⟨C11MP.wfB_sound v.g h1, h2, ⟨h3, h4⟩, h5⟩

theorem popsOkB_sound {terms : List Nat} {pops : List Item} (h : popsOkB terms pops = true) :
    (∀ a ∈ terms, ∀ b ∈ terms, a ≠ b → ILink pops a b) ∧ (∀ it ∈ pops, it.a ∈ terms ∧ it.b ∈ terms) := by
  simp only [popsOkB, Bool.and_eq_true, List.all_eq_true, Bool.or_eq_true, beq_iff_eq, List.any_eq_true,
    List.contains_eq_mem, decide_eq_true_eq] at h
  refine ⟨?_, h.2⟩
  intro a ha b hb hab
  rcases h.1 a ha b hb with h1 | ⟨it, hit, h1⟩
  · exact absurd h1 hab
  · exact ⟨it, hit, h1⟩

end PetgraphModel.C20.Steiner
