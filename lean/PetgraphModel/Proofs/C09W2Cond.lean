import PetgraphModel.Proofs.C09Cond
/-
`condensation(g, true)` (mirror model, `make_acyclic`): the bookkeeping of `update_edge` on the quotient
(one edge per joined pair of components, carrying the weight of such an edge) and acyclicity of the
quotient from the order clause of `kosaraju_spec`.  Core Lean only.
-/
namespace PetgraphModel.C09P
open PetgraphModel PetgraphModel.MGraph PetgraphModel.C09J PetgraphModel.C09M PetgraphModel.Trav

/-! ### components of related nodes -/

theorem compOf_sc {g : MGraph} {sccs : List (List Nat)} (hs : SccSpec g sccs) {x y : Nat}
    (hx : x ∈ g.nodes) (h : SC g x y) : compOf sccs y = compOf sccs x := by
  obtain ⟨hlt, hmem⟩ := compOf_lt hs hx
  have hy : y ∈ sccs[compOf sccs x] := (hs.classes _ (List.getElem_mem hlt) x hmem y).mpr h
  exact compOf_of_mem hs hlt hy

theorem compOf_reach_le {g : MGraph} {sccs : List (List Nat)} (hs : SccSpec g sccs) {x y : Nat}
    (hx : x ∈ g.nodes) (hy : y ∈ g.nodes) (h : Reach g x y) : compOf sccs y ≤ compOf sccs x := by
  obtain ⟨hltx, hmx⟩ := compOf_lt hs hx
  obtain ⟨hlty, hmy⟩ := compOf_lt hs hy
  apply Classical.byContradiction
  intro hc
  have hlt : compOf sccs x < compOf sccs y := by omega
  exact (List.pairwise_iff_getElem.mp hs.order) _ _ hltx hlty hlt x hmx y hmy h

theorem adj_of_edge {g : MGraph} {e : Edge} (he : e ∈ g.edges) : g.Adj e.src e.tgt :=
  ⟨e, he, Or.inl ⟨rfl, rfl⟩⟩

theorem adj_of_edge_undirected {g : MGraph} (hd : g.directed = false) {e : Edge} (he : e ∈ g.edges) :
    g.Adj e.tgt e.src :=
  ⟨e, he, Or.inr ⟨hd, rfl, rfl⟩⟩

theorem edge?_mem {v : View} {k : Nat} {e : Edge} (h : v.edge? k = some e) : e ∈ v.g.edges := by
  unfold View.edge? at h
  exact List.mem_of_find?_eq_some h

/-! ### the edge loop as a fold over the edges -/

def condStepE (d : Bool) (comp : Nat → Nat) (es : List (Nat × Nat × Int)) (e : Edge) : List (Nat × Nat × Int) :=
  if comp e.src != comp e.tgt then updateEdge d es (comp e.src) (comp e.tgt) e.w else es

theorem condEdge_fold_acyclic (v : View) (comp : Nat → Nat) : ∀ (l : List Nat) (es : List (Nat × Nat × Int)),
    l.foldl (condEdgeStep v comp true) es = (l.filterMap v.edge?).foldl (condStepE v.g.directed comp) es := by
  intro l
  induction l with
  | nil => intro es; rfl
  | cons k l ih =>
    intro es
    rw [List.foldl_cons, ih]
    unfold condEdgeStep
    cases hek : v.edge? k with
    | none => simp [hek]
    | some e => simp [hek, condStepE]

theorem condStepE_same_fold (d : Bool) (comp : Nat → Nat) : ∀ (L : List Edge) (es : List (Nat × Nat × Int)),
    (∀ e ∈ L, comp e.src = comp e.tgt) → L.foldl (condStepE d comp) es = es := by
  intro L
  induction L with
  | nil => intro es _; rfl
  | cons e L ih =>
    intro es h
    rw [List.foldl_cons]
    have he : comp e.src = comp e.tgt := h e (List.mem_cons_self ..)
    have : condStepE d comp es e = es := by simp [condStepE, he]
    rw [this]
    exact ih es fun e' he' => h e' (List.mem_cons_of_mem _ he')

/-! ### `update_edge` on a directed quotient -/

/-- the bookkeeping invariant of the `make_acyclic` edge loop (directed graph), `proc` = the edges seen -/
structure QInv (comp : Nat → Nat) (proc : List Edge) (es : List (Nat × Nat × Int)) : Prop where
  noLoop : ∀ e' ∈ es, e'.1 ≠ e'.2.1
  simple : (es.map fun e => (e.1, e.2.1)).Nodup
  sound : ∀ e' ∈ es, ∃ e ∈ proc, (comp e.src, comp e.tgt, e.w) = e'
  complete : ∀ e ∈ proc, comp e.src ≠ comp e.tgt → ∃ e' ∈ es, e'.1 = comp e.src ∧ e'.2.1 = comp e.tgt

theorem updateEdge_directed (es : List (Nat × Nat × Int)) (a b : Nat) (w : Int) :
    updateEdge true es a b w =
      if es.any (fun e => e.1 == a && e.2.1 == b) then
        es.map fun e => if (e.1 == a && e.2.1 == b) then (e.1, e.2.1, w) else e
      else es ++ [(a, b, w)] := by
  simp only [updateEdge, Bool.not_true, Bool.false_and, Bool.or_false]

theorem QInv.step {comp : Nat → Nat} {proc : List Edge} {es : List (Nat × Nat × Int)}
    (q : QInv comp proc es) (e : Edge) : QInv comp (proc ++ [e]) (condStepE true comp es e) := by
  unfold condStepE
  by_cases hne : comp e.src = comp e.tgt
  · have : (comp e.src != comp e.tgt) = false := by simp [hne]
    rw [this]
    simp only [Bool.false_eq_true, if_false]
    refine ⟨q.noLoop, q.simple, ?_, ?_⟩
    · intro e' he'
      obtain ⟨e0, h0, h1⟩ := q.sound e' he'
      exact ⟨e0, List.mem_append_left _ h0, h1⟩
    · intro e0 h0 hn0
      cases List.mem_append.mp h0 with
      | inl h => exact q.complete e0 h hn0
      | inr h =>
        have : e0 = e := by simpa using h
        subst this
        exact absurd hne hn0
  · have : (comp e.src != comp e.tgt) = true := by simp [hne]
    rw [this]
    simp only [if_true]
    rw [updateEdge_directed]
    by_cases hany : es.any (fun e' => e'.1 == comp e.src && e'.2.1 == comp e.tgt) = true
    · rw [if_pos hany]
      have hpairs : ((es.map fun e' => if (e'.1 == comp e.src && e'.2.1 == comp e.tgt) then (e'.1, e'.2.1, e.w) else e').map
          fun e => (e.1, e.2.1)) = es.map fun e => (e.1, e.2.1) := by
        rw [List.map_map]
        apply List.map_congr_left
        intro e' _
        simp only [Function.comp]
        split <;> rfl
      refine ⟨?_, ?_, ?_, ?_⟩
      · intro e' he'
        obtain ⟨e1, h1, rfl⟩ := List.mem_map.mp he'
        have := q.noLoop e1 h1
        split <;> exact this
      · rw [hpairs]; exact q.simple
      · intro e' he'
        obtain ⟨e1, h1, rfl⟩ := List.mem_map.mp he'
        split
        · rename_i hhit
          have hh : e1.1 = comp e.src ∧ e1.2.1 = comp e.tgt := by simpa using hhit
          exact ⟨e, List.mem_append_right _ (List.mem_singleton_self e), by rw [hh.1, hh.2]⟩
        · obtain ⟨e0, h0, h2⟩ := q.sound e1 h1
          exact ⟨e0, List.mem_append_left _ h0, h2⟩
      · intro e0 h0 hn0
        have key : ∀ a b, (∃ e' ∈ es, e'.1 = a ∧ e'.2.1 = b) →
            ∃ e' ∈ (es.map fun e' => if (e'.1 == comp e.src && e'.2.1 == comp e.tgt) then (e'.1, e'.2.1, e.w) else e'),
              e'.1 = a ∧ e'.2.1 = b := by
          rintro a b ⟨e', he', h1, h2⟩
          refine ⟨_, List.mem_map.mpr ⟨e', he', rfl⟩, ?_⟩
          split <;> exact ⟨h1, h2⟩
        cases List.mem_append.mp h0 with
        | inl h => exact key _ _ (q.complete e0 h hn0)
        | inr h =>
          have : e0 = e := by simpa using h
          subst this
          apply key
          obtain ⟨e', he', hh⟩ := List.any_eq_true.mp hany
          exact ⟨e', he', by simpa using hh⟩
    · rw [if_neg hany]
      have hnone : ∀ e' ∈ es, ¬ (e'.1 = comp e.src ∧ e'.2.1 = comp e.tgt) := by
        intro e' he' hh
        apply hany
        exact List.any_eq_true.mpr ⟨e', he', by simpa using hh⟩
      refine ⟨?_, ?_, ?_, ?_⟩
      · intro e' he'
        cases List.mem_append.mp he' with
        | inl h => exact q.noLoop e' h
        | inr h =>
          have : e' = (comp e.src, comp e.tgt, e.w) := by simpa using h
          subst this
          exact hne
      · rw [List.map_append]
        refine List.nodup_append.mpr ⟨q.simple, by simp, ?_⟩
        intro p hp p' hp' hpp
        subst hpp
        obtain ⟨e', he', rfl⟩ := List.mem_map.mp hp
        have : (e'.1, e'.2.1) = (comp e.src, comp e.tgt) := by simpa using hp'
        exact hnone e' he' ⟨congrArg Prod.fst this, congrArg Prod.snd this⟩
      · intro e' he'
        cases List.mem_append.mp he' with
        | inl h =>
          obtain ⟨e0, h0, h2⟩ := q.sound e' h
          exact ⟨e0, List.mem_append_left _ h0, h2⟩
        | inr h =>
          have : e' = (comp e.src, comp e.tgt, e.w) := by simpa using h
          subst this
          exact ⟨e, List.mem_append_right _ (List.mem_singleton_self e), rfl⟩
      · intro e0 h0 hn0
        cases List.mem_append.mp h0 with
        | inl h =>
          obtain ⟨e', he', hh⟩ := q.complete e0 h hn0
          exact ⟨e', List.mem_append_left _ he', hh⟩
        | inr h =>
          have : e0 = e := by simpa using h
          subst this
          exact ⟨_, List.mem_append_right _ (List.mem_singleton_self _), rfl, rfl⟩

theorem QInv.fold {comp : Nat → Nat} : ∀ (L proc : List Edge) (es : List (Nat × Nat × Int)),
    QInv comp proc es → QInv comp (proc ++ L) (L.foldl (condStepE true comp) es) := by
  intro L
  induction L with
  | nil => intro proc es q; simpa using q
  | cons e L ih =>
    intro proc es q
    rw [List.foldl_cons]
    have := ih (proc ++ [e]) _ (q.step e)
    simpa using this

/-! ### the quotient is acyclic when every edge goes down -/

theorem condGraph_adj {d : Bool} {k : Nat} {es : List (Nat × Nat × Int)} {a b : Nat}
    (h : (condGraph d k es).Adj a b) : ∃ e' ∈ es, (e'.1 = a ∧ e'.2.1 = b) ∨ (d = false ∧ e'.1 = b ∧ e'.2.1 = a) := by
  obtain ⟨e, he, hc⟩ := h
  unfold condGraph at he
  obtain ⟨p, hp, rfl⟩ := List.mem_map.mp he
  obtain ⟨e', i⟩ := p
  have he' : e' ∈ es := (List.mem_zipIdx hp).2.2 ▸ List.getElem_mem _
  exact ⟨e', he', hc⟩

theorem condGraph_down {k : Nat} {es : List (Nat × Nat × Int)} (hdown : ∀ e' ∈ es, e'.2.1 < e'.1) {a b : Nat}
    (h : Reach1 (condGraph true k es) a b) : b < a := by
  induction h with
  | single hadj =>
    obtain ⟨e', he', hc⟩ := condGraph_adj hadj
    rcases hc with ⟨h1, h2⟩ | ⟨h0, _⟩
    · have := hdown e' he'; omega
    · cases h0
  | step _ hadj ih =>
    obtain ⟨e', he', hc⟩ := condGraph_adj hadj
    rcases hc with ⟨h1, h2⟩ | ⟨h0, _⟩
    · have := hdown e' he'; omega
    · cases h0

/-- **`condensation(g, true)`** (mirror model, on top of `kosaraju_spec`; `eo` enumerates the edges): one
node per class of mutual reachability, no self-loop, no parallel edge, no cycle, an edge between two
components exactly when an original edge joins them, carrying the weight of such an edge. -/
theorem condensation_acyclic_spec (v : View) (hv : ViewOk v) (hp : ∀ a b, b ∈ v.pred a ↔ v.g.Adj b a)
    (hwf : v.g.WellFormed) (eo : List Nat) (heo : (eo.filterMap v.edge?).Perm v.g.edges) (c : Cond)
    (h : condensation v eo true = some c) : CondAcyclicSpec v.g c.nodes c.edges := by
  unfold condensation at h
  cases hk : kosaraju v with
  | none => rw [hk] at h; cases h
  | some sccs =>
    rw [hk] at h
    cases h
    have hs := kosaraju_spec v hv hp hwf sccs hk
    have hnodes : ((List.range sccs.length).map fun ci => v.g.nodes.filter fun x => compOf sccs x == ci) =
        (List.range sccs.length).map (condNode v sccs) := rfl
    show CondAcyclicSpec v.g ((List.range sccs.length).map fun ci => v.g.nodes.filter fun x => compOf sccs x == ci)
      (eo.foldl (condEdgeStep v (compOf sccs) true) [])
    rw [hnodes, condEdge_fold_acyclic]
    have hmemL : ∀ e, e ∈ eo.filterMap v.edge? ↔ e ∈ v.g.edges := fun e => heo.mem_iff
    have hci : ∀ e ∈ v.g.edges,
        compIdx ((List.range sccs.length).map (condNode v sccs)) e.src = compOf sccs e.src ∧
        compIdx ((List.range sccs.length).map (condNode v sccs)) e.tgt = compOf sccs e.tgt :=
      fun e he => ⟨compIdx_condNodes hs (hwf.2 e he).1, compIdx_condNodes hs (hwf.2 e he).2⟩
    cases hd : v.g.directed with
    | false =>
      -- an undirected edge joins mutually reachable nodes: nothing is ever added
      have hsame : ∀ e ∈ v.g.edges, compOf sccs e.src = compOf sccs e.tgt := by
        intro e he
        have h1 := adj_of_edge he
        have h2 := adj_of_edge_undirected hd he
        exact (compOf_sc hs (hwf.2 e he).2 ⟨reach_of_adj h2, reach_of_adj h1⟩)
      rw [condStepE_same_fold false (compOf sccs) _ [] (fun e he => hsame e ((hmemL e).mp he))]
      refine ⟨condNodes_part hwf hs, by simp, by simp, ?_, ?_, by simp⟩
      · rw [hd]
        rintro ⟨x, hx⟩
        obtain ⟨b, hadj, _⟩ := reach1_head hx
        obtain ⟨e', he', _⟩ := condGraph_adj hadj
        cases he'
      · intro e he hne
        rw [(hci e he).1, (hci e he).2] at hne
        exact absurd (hsame e he) hne
    | true =>
      have q : QInv (compOf sccs) ([] ++ eo.filterMap v.edge?)
          ((eo.filterMap v.edge?).foldl (condStepE true (compOf sccs)) []) :=
        QInv.fold _ [] [] ⟨by simp, by simp, by simp, by simp⟩
      rw [List.nil_append] at q
      have hdown : ∀ e' ∈ (eo.filterMap v.edge?).foldl (condStepE true (compOf sccs)) [], e'.2.1 < e'.1 := by
        intro e' he'
        obtain ⟨e, he, hee⟩ := q.sound e' he'
        have heg := (hmemL e).mp he
        have hle := compOf_reach_le hs (hwf.2 e heg).1 (hwf.2 e heg).2 (reach_of_adj (adj_of_edge heg))
        have hne := q.noLoop e' he'
        rw [← hee] at hne ⊢
        simp only at hne ⊢
        omega
      have hpair : ∀ e' : Nat × Nat × Int, pairOf true e' = (e'.1, e'.2.1) := by
        intro e'; simp [pairOf, normE]
      have hnorm : ∀ e' : Nat × Nat × Int, normE true e' = e' := by
        intro e'; simp [normE]
      refine ⟨condNodes_part hwf hs, q.noLoop, ?_, ?_, ?_, ?_⟩ <;> rw [hd]
      · have : pairOf true = fun e' : Nat × Nat × Int => (e'.1, e'.2.1) := funext hpair
        rw [this]; exact q.simple
      · rintro ⟨x, hx⟩
        have := condGraph_down hdown hx
        omega
      · intro e he hne
        rw [(hci e he).1, (hci e he).2] at hne
        obtain ⟨e', he', h1, h2⟩ := q.complete e ((hmemL e).mpr he) hne
        refine ⟨e', he', ?_⟩
        rw [hpair, hpair]
        simp only [mapE]
        rw [(hci e he).1, (hci e he).2, h1, h2]
      · intro e' he'
        obtain ⟨e, he, hee⟩ := q.sound e' he'
        have heg := (hmemL e).mp he
        refine ⟨e, heg, ?_⟩
        rw [hnorm, hnorm]
        simp only [mapE]
        rw [(hci e heg).1, (hci e heg).2]
        exact hee

end PetgraphModel.C09P
