import PetgraphModel.Model.C20W4DsaturBin
/-
C20 (wave 4) — the binary-heap mirror of `Model/C20W4DsaturBin.lean` (`alloc::collections::BinaryHeap`
with the hole technique, ordered by `MaxScored`'s comparison `DsaturHeap.keyLe`):

* contents: `push` adds exactly the pushed entry, `pop` removes exactly the returned one
  (`push_perm`, `pop_perm`);
* order: `IsHeap` (no entry has a larger score than its parent) is kept by `push` and `pop`, and `pop`
  returns an entry of MAXIMAL score (`push_heap`, `pop_heap`).

Port of `Proofs/C12Heap.lean` (same functions over `MinScored` items); the lexicographic order on
`(saturation, degree)` is unfolded into linear arithmetic (`Lx`) so that `omega` does the order
reasoning.
-/
namespace PetgraphModel.C20.DsaturBin
open PetgraphModel PetgraphModel.C20
open PetgraphModel.C20.DsaturHeap (Entry keyLe)

theorem getD_eq_get {l : List Entry} {i : Nat} (h : i < l.length) : l.getD i default = l[i] := by
  simp [List.getD_eq_getElem?_getD, List.getElem?_eq_getElem h]

/-- moving `l[j]` into position `i` and a new element into `j` is the same multiset as putting the
new element into `i` directly -/
theorem swap_perm {l : List Entry} {i j : Nat} (hi : i < l.length) (hj : j < l.length) (hij : i ≠ j)
    (x : Entry) : ((l.set i l[j]).set j x).Perm (l.set i x) := by
  rw [List.perm_iff_count]
  intro b
  have hj' : j < (l.set i l[j]).length := by simpa using hj
  rw [List.count_set hj', List.count_set hi, List.count_set hi]
  have hget : (l.set i l[j])[j] = l[j] := by
    rw [List.getElem_set]; simp [hij]
  rw [hget]
  have hci : (if l[i] == b then 1 else 0) ≤ l.count b := by
    split
    · rename_i h
      have : l[i] = b := by simpa using h
      rw [← this]
      exact List.count_pos_iff.mpr (List.getElem_mem hi)
    · omega
  split <;> split <;> split <;> omega

theorem siftUp_length (elt : Entry) : ∀ (f : Nat) (d : Heap) (pos : Nat), (siftUp elt f d pos).length = d.length
  | 0, d, pos => by simp [siftUp]
  | f+1, d, pos => by
    simp only [siftUp]
    split
    · simp
    · split
      · simp
      · rw [siftUp_length]; simp

theorem siftUp_perm (elt : Entry) : ∀ (f : Nat) (d : Heap) (pos : Nat), pos < d.length →
    (siftUp elt f d pos).Perm (d.set pos elt)
  | 0, d, pos, _ => by simp [siftUp]
  | f+1, d, pos, hpos => by
    simp only [siftUp]
    split
    · exact List.Perm.refl _
    · rename_i hne
      split
      · exact List.Perm.refl _
      · have hpar : (pos - 1) / 2 < d.length := by omega
        have hne' : pos ≠ (pos - 1) / 2 := by omega
        refine (siftUp_perm elt f _ _ (by simpa using hpar)).trans ?_
        rw [getD_eq_get hpar]
        exact swap_perm hpos hpar hne' elt

theorem push_perm (d : Heap) (x : Entry) : (push d x).Perm (x :: d) := by
  unfold push
  refine (siftUp_perm x _ _ _ (by simp)).trans ?_
  have : (d ++ [x]).set d.length x = d ++ [x] := by
    rw [List.set_append_right _ _ (Nat.le_refl _)]
    simp
  rw [this]
  exact List.perm_append_singleton x d

theorem push_length (d : Heap) (x : Entry) : (push d x).length = d.length + 1 := by
  have := (push_perm d x).length_eq
  simpa using this

theorem siftDown_spec : ∀ (f : Nat) (d : Heap) (pos : Nat) (d' : Heap) (pos' : Nat),
    siftDown f d pos = (d', pos') → pos < d.length →
    pos' < d'.length ∧ d'.length = d.length ∧ ∀ elt, (d'.set pos' elt).Perm (d.set pos elt)
  | 0, d, pos, d', pos', h, hpos => by
    simp only [siftDown, Prod.mk.injEq] at h
    obtain ⟨rfl, rfl⟩ := h
    exact ⟨hpos, rfl, fun _ => List.Perm.refl _⟩
  | f+1, d, pos, d', pos', h, hpos => by
    simp only [siftDown] at h
    split at h
    · rename_i hc
      -- the chosen child
      generalize hcdef : (if keyLe (d.getD (2 * pos + 1) default) (d.getD (2 * pos + 1 + 1) default) = true
        then 2 * pos + 1 + 1 else 2 * pos + 1) = c at h
      have hcl : c < d.length := by rw [← hcdef]; split <;> omega
      have hcp : pos ≠ c := by rw [← hcdef]; split <;> omega
      obtain ⟨h1, h2, h3⟩ := siftDown_spec f _ c d' pos' h (by simpa using hcl)
      refine ⟨h1, by simpa using h2, fun elt => (h3 elt).trans ?_⟩
      rw [getD_eq_get hcl]
      exact swap_perm hpos hcl hcp elt
    · split at h
      · rename_i hc1 hc2
        simp only [Prod.mk.injEq] at h
        obtain ⟨rfl, rfl⟩ := h
        have hcl : 2 * pos + 1 < d.length := by omega
        refine ⟨by simpa using hcl, by simp, fun elt => ?_⟩
        rw [getD_eq_get hcl]
        exact swap_perm hpos hcl (by omega) elt
      · simp only [Prod.mk.injEq] at h
        obtain ⟨rfl, rfl⟩ := h
        exact ⟨hpos, rfl, fun _ => List.Perm.refl _⟩

theorem pop_concat (init : Heap) (last : Entry) :
    pop (init ++ [last]) =
      match init with
      | [] => some (last, [])
      | top :: _ =>
        let r := siftDown (init.length + 1) init 0
        some (top, siftUp last (init.length + 1) r.1 r.2) := by
  unfold pop
  simp only [List.getLast?_append, List.getLast?_singleton, Option.some_or, List.dropLast_concat]
  cases init <;> rfl

theorem pop_none {d : Heap} : pop d = none ↔ d = [] := by
  constructor
  · intro h
    cases hl : d.getLast? with
    | none => simpa using hl
    | some last =>
      obtain ⟨init, rfl⟩ := List.getLast?_eq_some_iff.mp hl
      rw [pop_concat] at h
      cases init <;> simp at h
  · rintro rfl; rfl

theorem pop_perm {d d' : Heap} {x : Entry} (h : pop d = some (x, d')) : d.Perm (x :: d') := by
  cases hl : d.getLast? with
  | none =>
    have : d = [] := by simpa using hl
    subst this; simp [pop] at h
  | some last =>
    obtain ⟨init, rfl⟩ := List.getLast?_eq_some_iff.mp hl
    rw [pop_concat] at h
    cases init with
    | nil =>
      simp only [Option.some.injEq, Prod.mk.injEq] at h
      obtain ⟨rfl, rfl⟩ := h
      exact List.Perm.refl _
    | cons top tl =>
      simp only [Option.some.injEq, Prod.mk.injEq] at h
      obtain ⟨rfl, rfl⟩ := h
      have hpos0 : 0 < (top :: tl).length := by simp
      obtain ⟨h1, _, h3⟩ := siftDown_spec _ _ _ _ _ rfl hpos0
      have hp := (siftUp_perm last ((top :: tl).length + 1) _ _ h1).trans (h3 last)
      simp only [List.set_cons_zero] at hp
      -- top :: tl ++ [last]  ~  top :: (last :: tl)
      refine List.Perm.trans ?_ ((hp.symm).cons top)
      simp only [List.cons_append]
      exact (List.perm_append_singleton last tl).cons top

theorem foldl_push_perm {α : Type} (mk : α → Entry) : ∀ (l : List α) (h : Heap),
    (l.foldl (fun h e => push h (mk e)) h).Perm (l.reverse.map mk ++ h)
  | [], h => by simp
  | e :: l, h => by
    simp only [List.foldl_cons, List.reverse_cons, List.map_append, List.map_cons, List.map_nil,
      List.append_assoc, List.cons_append, List.nil_append]
    exact (foldl_push_perm mk l (push h (mk e))).trans ((push_perm h (mk e)).append_left _)

/-! ### heap order: `pop` returns an entry of maximal score -/

/-- the order of `MaxScored` as a proposition in linear arithmetic -/
def Lx (a b : Entry) : Prop := a.1 < b.1 ∨ (a.1 = b.1 ∧ a.2.1 ≤ b.2.1)

theorem keyLe_iff_Lx (a b : Entry) : keyLe a b = true ↔ Lx a b := by
  simp [keyLe, Lx]

theorem Lx_refl (a : Entry) : Lx a a := Or.inr ⟨rfl, Nat.le_refl _⟩

/-- order reasoning about `Lx` (reflexive, transitive, total) by `omega` -/
local macro "lx" : tactic => `(tactic| first | exact Lx_refl _ | (simp only [Lx] at *; omega))

/-- the entry at a position (total) -/
def K (d : Heap) (i : Nat) : Entry := d.getD i default

/-- parent position -/
def par (i : Nat) : Nat := (i - 1) / 2

theorem K_set {d : Heap} {p i : Nat} {x : Entry} (hp : p < d.length) :
    K (d.set p x) i = if i = p then x else K d i := by
  unfold K
  simp only [List.getD_eq_getElem?_getD, List.getElem?_set]
  by_cases h : p = i
  · subst h; simp [hp]
  · have : ¬ i = p := fun h' => h h'.symm
    simp [h, this]

/-- max-heap on the scores: no entry has a larger score than its parent -/
def IsHeap (d : Heap) : Prop := ∀ i, 0 < i → i < d.length → Lx (K d i) (K d (par i))

/-- all heap relations that do not involve the hole at `pos` -/
def Away (d : Heap) (pos : Nat) : Prop :=
  ∀ i, 0 < i → i < d.length → i ≠ pos → par i ≠ pos → Lx (K d i) (K d (par i))

/-- the hole's children are at most the hole's parent -/
def Skip (d : Heap) (pos : Nat) : Prop :=
  0 < pos → ∀ i, 0 < i → i < d.length → par i = pos → Lx (K d i) (K d (par pos))

theorem heap_fill {d : Heap} {pos : Nat} {elt : Entry} (hpos : pos < d.length) (ha : Away d pos)
    (hch : ∀ i, 0 < i → i < d.length → par i = pos → Lx (K d i) elt)
    (hpar : 0 < pos → Lx elt (K d (par pos))) : IsHeap (d.set pos elt) := by
  intro i hi hil
  have hil' : i < d.length := by simpa using hil
  rw [K_set hpos, K_set hpos]
  by_cases h1 : i = pos
  · subst h1
    have : par i ≠ i := by unfold par; omega
    simp only [this, if_false, if_true]
    exact hpar hi
  · by_cases h2 : par i = pos
    · simp only [h1, h2, if_true, if_false]
      exact hch i hi hil' h2
    · simp only [h1, h2, if_false]
      exact ha i hi hil' h1 h2

theorem siftUp_heap (elt : Entry) : ∀ (f : Nat) (d : Heap) (pos : Nat), pos < d.length → pos ≤ f →
    Away d pos → Skip d pos → (∀ i, 0 < i → i < d.length → par i = pos → Lx (K d i) elt) →
    IsHeap (siftUp elt f d pos)
  | 0, d, pos, hpos, hf, ha, _, hch => by
    simp only [siftUp]
    exact heap_fill hpos ha hch (fun h => by omega)
  | f+1, d, pos, hpos, hf, ha, hs, hch => by
    simp only [siftUp]
    split
    · rename_i h0
      exact heap_fill hpos ha hch (fun h => by omega)
    · rename_i hne
      have hp0 : 0 < pos := by omega
      split
      · rename_i hr
        refine heap_fill hpos ha hch (fun _ => ?_)
        exact (keyLe_iff_Lx _ _).mp hr
      · rename_i hr
        have hlt : ¬ Lx elt (K d (par pos)) := fun h => hr ((keyLe_iff_Lx _ _).mpr h)
        have hq : par pos < d.length := by unfold par; omega
        have hqp : par pos < pos := by unfold par; omega
        have hWd1 : ∀ i, K (d.set pos (d.getD ((pos - 1) / 2) default)) i =
            if i = pos then K d (par pos) else K d i := by
          intro i; rw [K_set hpos]; rfl
        apply siftUp_heap elt f _ (par pos) (by simpa using hq) (by unfold par; omega)
        · -- Away d1 (par pos)
          intro i hi hil hiq hpq
          have hil' : i < d.length := by simpa using hil
          rw [hWd1, hWd1]
          by_cases h1 : i = pos
          · exact absurd (h1 ▸ rfl) hpq
          · by_cases h2 : par i = pos
            · simp only [h1, h2, if_true, if_false]
              exact hs hp0 i hi hil' h2
            · simp only [h1, h2, if_false]
              exact ha i hi hil' h1 h2
        · -- Skip d1 (par pos)
          intro hq0 i hi hil hpi
          have hil' : i < d.length := by simpa using hil
          rw [hWd1, hWd1]
          have hppne : par (par pos) ≠ pos := by unfold par; omega
          have hqne : par pos ≠ pos := by omega
          have hgp : Lx (K d (par pos)) (K d (par (par pos))) := ha (par pos) hq0 hq hqne hppne
          simp only [hppne, if_false]
          by_cases h1 : i = pos
          · simp only [h1, if_true]; exact hgp
          · simp only [h1, if_false]
            have : Lx (K d i) (K d (par pos)) := by
              have := ha i hi hil' h1 (by omega)
              rw [hpi] at this; exact this
            lx
        · -- children of the new hole are at most elt
          intro i hi hil hpi
          have hil' : i < d.length := by simpa using hil
          rw [hWd1]
          by_cases h1 : i = pos
          · simp only [h1, if_true]; lx
          · simp only [h1, if_false]
            have := ha i hi hil' h1 (by omega)
            rw [hpi] at this; lx

theorem isHeap_nil : IsHeap [] := fun i _ h => by simp at h

theorem K_append_left {d : Heap} {x : Entry} {i : Nat} (h : i < d.length) : K (d ++ [x]) i = K d i := by
  unfold K
  simp [List.getD_eq_getElem?_getD, List.getElem?_append_left h]

theorem push_heap {d : Heap} (h : IsHeap d) (x : Entry) : IsHeap (push d x) := by
  unfold push
  apply siftUp_heap x _ _ _ (by simp) (by omega)
  · intro i hi hil hne _
    have hil' : i < d.length := by simp at hil; omega
    have hpl : par i < d.length := by unfold par; omega
    rw [K_append_left hil', K_append_left hpl]
    exact h i hi hil'
  · intro _ i hi hil hpi
    simp at hil; unfold par at hpi; omega
  · intro i hi hil hpi
    simp at hil; unfold par at hpi; omega

theorem siftDown_heap : ∀ (f : Nat) (d : Heap) (pos : Nat) (d' : Heap) (pos' : Nat),
    siftDown f d pos = (d', pos') → pos < d.length → d.length ≤ pos + f → Away d pos → Skip d pos →
    Away d' pos' ∧ Skip d' pos' ∧ d'.length ≤ 2 * pos' + 1
  | 0, d, pos, d', pos', _, hpos, hf, _, _ => by omega
  | f+1, d, pos, d', pos', h, hpos, hf, ha, hs => by
    simp only [siftDown] at h
    split at h
    · rename_i hc
      generalize hcdef : (if keyLe (d.getD (2 * pos + 1) default) (d.getD (2 * pos + 1 + 1) default) = true
        then 2 * pos + 1 + 1 else 2 * pos + 1) = c at h
      have hcl : c < d.length := by rw [← hcdef]; split <;> omega
      have hcpar : par c = pos := by rw [← hcdef]; unfold par; split <;> omega
      have hc0 : 0 < c := by rw [← hcdef]; split <;> omega
      have hcgt : pos < c := by rw [← hcdef]; split <;> omega
      -- c is the greater child
      have hmin : ∀ i, 0 < i → i < d.length → par i = pos → Lx (K d i) (K d c) := by
        intro i hi hil hpi
        have hi2 : i = 2 * pos + 1 ∨ i = 2 * pos + 1 + 1 := by unfold par at hpi; omega
        by_cases hr : keyLe (d.getD (2 * pos + 1) default) (d.getD (2 * pos + 1 + 1) default) = true
        · have hc' : c = 2 * pos + 1 + 1 := by rw [← hcdef, if_pos hr]
          have hle : Lx (K d (2 * pos + 1)) (K d (2 * pos + 1 + 1)) := (keyLe_iff_Lx _ _).mp hr
          rcases hi2 with rfl | rfl <;> rw [hc'] <;> lx
        · have hc' : c = 2 * pos + 1 := by rw [← hcdef, if_neg hr]
          have hle : ¬ Lx (K d (2 * pos + 1)) (K d (2 * pos + 1 + 1)) := fun h => hr ((keyLe_iff_Lx _ _).mpr h)
          rcases hi2 with rfl | rfl <;> rw [hc'] <;> lx
      have hWd1 : ∀ i, K (d.set pos (d.getD c default)) i = if i = pos then K d c else K d i := by
        intro i; rw [K_set hpos]; rfl
      apply siftDown_heap f _ c d' pos' h (by simpa using hcl) (by simp; omega)
      · intro i hi hil hic hpc
        have hil' : i < d.length := by simpa using hil
        rw [hWd1, hWd1]
        by_cases h1 : i = pos
        · subst h1
          have hpp : par i ≠ i := by unfold par; omega
          simp only [hpp, if_false, if_true]
          exact hs hi c hc0 hcl hcpar
        · by_cases h2 : par i = pos
          · simp only [h1, h2, if_true, if_false]
            exact hmin i hi hil' h2
          · simp only [h1, h2, if_false]
            exact ha i hi hil' h1 h2
      · intro _ i hi hil hpi
        have hil' : i < d.length := by simpa using hil
        rw [hWd1, hWd1]
        have hip : i ≠ pos := by unfold par at hpi hcpar; omega
        simp only [hcpar, hip, if_true, if_false]
        have := ha i hi hil' hip (by omega)
        rw [hpi] at this; exact this
    · split at h
      · rename_i hc1 hc2
        simp only [Prod.mk.injEq] at h
        obtain ⟨rfl, rfl⟩ := h
        have hcl : 2 * pos + 1 < d.length := by omega
        have hWd1 : ∀ i, K (d.set pos (d.getD (2 * pos + 1) default)) i =
            if i = pos then K d (2 * pos + 1) else K d i := by
          intro i; rw [K_set hpos]; rfl
        have hcpar : par (2 * pos + 1) = pos := by unfold par; omega
        refine ⟨?_, ?_, by simp; omega⟩
        · intro i hi hil hic hpc
          have hil' : i < d.length := by simpa using hil
          rw [hWd1, hWd1]
          by_cases h1 : i = pos
          · subst h1
            have hpp : par i ≠ i := by unfold par; omega
            simp only [hpp, if_false, if_true]
            exact hs hi (2 * i + 1) (by omega) hcl hcpar
          · by_cases h2 : par i = pos
            · exfalso; unfold par at h2; omega
            · simp only [h1, h2, if_false]
              exact ha i hi hil' h1 h2
        · intro _ i hi hil hpi
          simp at hil; unfold par at hpi; omega
      · simp only [Prod.mk.injEq] at h
        obtain ⟨rfl, rfl⟩ := h
        exact ⟨ha, hs, by omega⟩

/-- the root is a maximum -/
theorem heap_root_max {d : Heap} (h : IsHeap d) : ∀ (n i : Nat), i ≤ n → i < d.length → Lx (K d i) (K d 0)
  | 0, i, hi, _ => by have : i = 0 := by omega
                      subst this; lx
  | n+1, i, hi, hil => by
    by_cases h0 : i = 0
    · subst h0; lx
    · have h1 := h i (by omega) hil
      have h2 := heap_root_max h n (par i) (by unfold par; omega) (by unfold par; omega)
      lx

theorem K_mem {d : Heap} {x : Entry} (hx : x ∈ d) : ∃ i, i < d.length ∧ K d i = x := by
  obtain ⟨i, hi, rfl⟩ := List.getElem_of_mem hx
  exact ⟨i, hi, by simp [K, List.getD_eq_getElem?_getD, List.getElem?_eq_getElem hi]⟩

/-- `pop` returns an entry of maximal score and leaves a heap -/
theorem pop_heap {d d' : Heap} {x : Entry} (hd : IsHeap d) (h : pop d = some (x, d')) :
    IsHeap d' ∧ ∀ y ∈ d, keyLe y x = true := by
  cases hl : d.getLast? with
  | none =>
    have : d = [] := by simpa using hl
    subst this; simp [pop] at h
  | some last =>
    obtain ⟨init, rfl⟩ := List.getLast?_eq_some_iff.mp hl
    rw [pop_concat] at h
    cases init with
    | nil =>
      simp only [Option.some.injEq, Prod.mk.injEq] at h
      obtain ⟨rfl, rfl⟩ := h
      refine ⟨isHeap_nil, fun y hy => ?_⟩
      simp at hy; subst hy
      rw [keyLe_iff_Lx]; lx
    | cons top tl =>
      simp only [Option.some.injEq, Prod.mk.injEq] at h
      obtain ⟨rfl, rfl⟩ := h
      constructor
      · have hpos0 : 0 < (top :: tl).length := by simp
        have hWi : ∀ i, i < (top :: tl).length → K (top :: tl) i = K (top :: tl ++ [last]) i := by
          intro i hi; exact (K_append_left (x := last) hi).symm
        have haway : Away (top :: tl) 0 := by
          intro i hi hil _ _
          have hpl : par i < (top :: tl).length := by unfold par; omega
          rw [hWi i hil, hWi _ hpl]
          exact hd i hi (by simp at hil ⊢; omega)
        have hskip : Skip (top :: tl) 0 := fun h0 => by omega
        obtain ⟨ha', hs', hleaf⟩ :=
          siftDown_heap ((top :: tl).length + 1) (top :: tl) 0 _ _ rfl hpos0 (by omega) haway hskip
        obtain ⟨hp', hlen', _⟩ := siftDown_spec ((top :: tl).length + 1) (top :: tl) 0 _ _ rfl hpos0
        apply siftUp_heap last _ _ _ hp' (by omega) ha' hs'
        intro i hi hil hpi
        unfold par at hpi; omega
      · intro y hy
        obtain ⟨i, hi, hw⟩ := K_mem hy
        have := heap_root_max hd i i (Nat.le_refl _) hi
        have h0 : K (top :: tl ++ [last]) 0 = top := by simp [K]
        rw [keyLe_iff_Lx, ← hw, ← h0]
        exact this

theorem foldl_push_heap {α : Type} (mk : α → Entry) : ∀ (l : List α) (h : Heap), IsHeap h →
    IsHeap (l.foldl (fun h e => push h (mk e)) h)
  | [], _, hh => hh
  | e :: l, _, hh => foldl_push_heap mk l _ (push_heap hh (mk e))

end PetgraphModel.C20.DsaturBin
