import PetgraphModel.Proofs.C20W2FasA
/-
C20 (wave 2) — `good_node_sequence` is TOTAL: every endpoint of every edge gets a position.

Part B: removing the head of a bucket really removes it (bucket consistency), the number of flagged
nodes is the fuel measure of the drains and of the main loop, the loop only stops when every bucket
is empty — i.e. when no node is flagged any more — and every unflagged node has been written to the
sequence.  `build` creates one node per endpoint, all flagged and bucketed.
-/
namespace PetgraphModel.C20.Fas

/-! ### the measure: number of flagged nodes -/

def flagged (s : FState) : Nat := ((List.range s.nodes.length).filter fun j => (node s j).inList).length

theorem flagged_le (s : FState) : flagged s ≤ s.nodes.length := by
  unfold flagged
  have := List.length_filter_le (fun j => (node s j).inList) (List.range s.nodes.length)
  simpa using this

theorem filter_length_drop_one (p p' : Nat → Bool) (x : Nat) : ∀ (l : List Nat), l.Nodup → x ∈ l →
    p x = true → p' x = false → (∀ y, y ≠ x → p' y = p y) →
    (l.filter p').length + 1 = (l.filter p).length := by
  intro l
  induction l with
  | nil => intro _ hx; cases hx
  | cons a t ih =>
    intro hnd hx hpx hpx' hsame
    have hnd' := List.nodup_cons.mp hnd
    by_cases hax : a = x
    · subst hax
      have heq : t.filter p' = t.filter p := by
        apply List.filter_congr
        intro y hy
        exact hsame y (fun e => hnd'.1 (e ▸ hy))
      simp [hpx, hpx', heq]
    · have hxt : x ∈ t := by
        cases List.mem_cons.mp hx with
        | inl e => exact absurd e.symm hax
        | inr e => exact e
      have := ih hnd'.2 hxt hpx hpx' hsame
      simp only [List.filter_cons, hsame a hax]
      split
      · simp only [List.length_cons]; omega
      · exact this

theorem filter_length_zero_of (p : Nat → Bool) (l : List Nat) (h : ∀ y ∈ l, p y = false) :
    (l.filter p).length = 0 := by
  rw [List.length_eq_zero_iff, List.filter_eq_nil_iff]
  intro y hy
  simp [h y hy]

/-! ### taking a node out for good -/

/-- what taking `ix` out does: buckets stay consistent, `ix` loses its flag, nothing else changes -/
structure Took (s : FState) (ix : Nat) (s' : FState) : Prop where
  inv : Inv s'
  len : s'.nodes.length = s.nodes.length
  gix : ∀ j, (node s' j).gix = (node s j).gix
  off : (node s' ix).inList = false
  others : ∀ j, j ≠ ix → (node s' j).inList = (node s j).inList
  count : flagged s' + 1 = flagged s

theorem take_spec (s : FState) (ix : Nat) (hinv : Inv s) (hix : (node s ix).inList = true) :
    Took s ix (update (remove s ix) ix) := by
  have hlt := lt_of_inList hix
  have h1 := inv_remove s ix hinv hix
  have h2 := update_spec (remove s ix) ix h1
  have hoff : (node (update (remove s ix) ix) ix).inList = false := by
    rw [h2.2.inl, node_remove, if_pos ⟨rfl, hlt⟩]
  have hothers : ∀ j, j ≠ ix → (node (update (remove s ix) ix) j).inList = (node s j).inList := by
    intro j hj
    rw [h2.2.inl, node_remove, if_neg (fun h => hj h.1)]
  have hlen : (update (remove s ix) ix).nodes.length = s.nodes.length := by
    rw [h2.2.len]; simp
  refine ⟨h2.1, hlen, ?_, hoff, hothers, ?_⟩
  · intro j
    rw [h2.2.gix, node_remove]
    split
    · rename_i h; rw [h.1]
    · rfl
  · unfold flagged
    rw [hlen]
    exact filter_length_drop_one _ _ ix _ List.nodup_range (List.mem_range.mpr hlt) hix hoff hothers

/-! ### progress of a phase -/

/-- from `(s, acc)` to `(s', acc')`: same nodes, the sequence only grows, every node that lost its
flag has been written, the measure does not grow -/
structure Prog (s : FState) (acc : List Nat) (s' : FState) (acc' : List Nat) : Prop where
  len : s'.nodes.length = s.nodes.length
  gix : ∀ j, (node s' j).gix = (node s j).gix
  sub : ∀ x ∈ acc, x ∈ acc'
  out : ∀ j, (node s j).inList = true → (node s' j).inList = true ∨ (node s j).gix ∈ acc'
  dec : flagged s' ≤ flagged s

theorem Prog.refl (s : FState) (acc : List Nat) : Prog s acc s acc :=
  ⟨rfl, fun _ => rfl, fun _ h => h, fun _ h => Or.inl h, Nat.le_refl _⟩

theorem Prog.trans {s s' s'' : FState} {a a' a'' : List Nat} (h1 : Prog s a s' a') (h2 : Prog s' a' s'' a'') :
    Prog s a s'' a'' := by
  refine ⟨h2.len.trans h1.len, fun j => (h2.gix j).trans (h1.gix j), fun x hx => h2.sub x (h1.sub x hx), ?_,
    Nat.le_trans h2.dec h1.dec⟩
  intro j hj
  cases h1.out j hj with
  | inl e =>
    cases h2.out j e with
    | inl e' => exact Or.inl e'
    | inr e' => exact Or.inr (h1.gix j ▸ e')
  | inr e => exact Or.inr (h2.sub _ e)

/-- taking `ix` out and writing its id anywhere into the sequence is progress -/
theorem prog_take {s s' : FState} {ix : Nat} {acc acc' : List Nat} (h : Took s ix s')
    (hsub : ∀ x ∈ acc, x ∈ acc') (hmem : (node s' ix).gix ∈ acc') : Prog s acc s' acc' := by
  refine ⟨h.len, h.gix, hsub, ?_, by have := h.count; omega⟩
  intro j hj
  by_cases hji : j = ix
  · subst hji
    exact Or.inr (h.gix j ▸ hmem)
  · exact Or.inl ((h.others j hji).trans hj)

/-! ### the drains -/

theorem drainSinks_spec : ∀ (f : Nat) (s : FState) (s2 : List Nat) (m : Bool) (s1 : List Nat), Inv s → flagged s < f →
    Inv (drainSinks f s s2 m).1 ∧ (drainSinks f s s2 m).1.sinks = [] ∧
    Prog s (s1 ++ s2) (drainSinks f s s2 m).1 (s1 ++ (drainSinks f s s2 m).2.1) ∧
    ((drainSinks f s s2 m).2.2 = true → m = true ∨ flagged (drainSinks f s s2 m).1 < flagged s) := by
  intro f
  induction f with
  | zero => intro s s2 m s1 _ h; omega
  | succ f ih =>
    intro s s2 m s1 hinv hk
    unfold drainSinks
    split
    · rename_i hnil
      exact ⟨hinv, hnil, Prog.refl _ _, fun h => Or.inl h⟩
    · rename_i ix rest hcons
      dsimp only
      have hmem : ix ∈ getB s .sink := by simp [getB, hcons]
      have hix := (hinv.mem .sink ix hmem).1
      have ht := take_spec s ix hinv hix
      have hk' : flagged (update (remove s ix) ix) < f := by have := ht.count; omega
      have := ih (update (remove s ix) ix) ((node (update (remove s ix) ix) ix).gix :: s2) true s1 ht.inv hk'
      refine ⟨this.1, this.2.1, ?_, fun _ => Or.inr ?_⟩
      · refine Prog.trans (prog_take ht ?_ ?_) this.2.2.1
        · intro x hx
          cases List.mem_append.mp hx with
          | inl e => exact List.mem_append_left _ e
          | inr e => exact List.mem_append_right _ (List.mem_cons_of_mem _ e)
        · exact List.mem_append_right _ List.mem_cons_self
      · have h1 := this.2.2.1.dec
        have h2 := ht.count
        omega

theorem drainSources_spec : ∀ (f : Nat) (s : FState) (s1 : List Nat) (m : Bool) (s2 : List Nat), Inv s → flagged s < f →
    Inv (drainSources f s s1 m).1 ∧ (drainSources f s s1 m).1.sources = [] ∧
    Prog s (s1 ++ s2) (drainSources f s s1 m).1 ((drainSources f s s1 m).2.1 ++ s2) ∧
    ((drainSources f s s1 m).2.2 = true → m = true ∨ flagged (drainSources f s s1 m).1 < flagged s) ∧
    ((drainSources f s s1 m).2.2 = false → m = false ∧ (drainSources f s s1 m).1 = s) := by
  intro f
  induction f with
  | zero => intro s s1 m s2 _ h; omega
  | succ f ih =>
    intro s s1 m s2 hinv hk
    unfold drainSources
    split
    · rename_i hnil
      exact ⟨hinv, hnil, Prog.refl _ _, fun h => Or.inl h, fun h => ⟨h, rfl⟩⟩
    · rename_i ix rest hcons
      dsimp only
      have hmem : ix ∈ getB s .source := by simp [getB, hcons]
      have hix := (hinv.mem .source ix hmem).1
      have ht := take_spec s ix hinv hix
      have hk' : flagged (update (remove s ix) ix) < f := by have := ht.count; omega
      have := ih (update (remove s ix) ix) (s1 ++ [(node (update (remove s ix) ix) ix).gix]) true s2 ht.inv hk'
      refine ⟨this.1, this.2.1, ?_, fun _ => Or.inr ?_, fun h => absurd (this.2.2.2.2 h).1 (by simp)⟩
      · refine Prog.trans (prog_take ht ?_ ?_) this.2.2.1
        · intro x hx
          cases List.mem_append.mp hx with
          | inl e => exact List.mem_append_left _ (List.mem_append_left _ e)
          | inr e => exact List.mem_append_right _ e
        · exact List.mem_append_left _ (List.mem_append_right _ List.mem_cons_self)
      · have h1 := this.2.2.1.dec
        have h2 := ht.count
        omega

/-! ### the bidirectional pick -/

theorem mem_getD_of_mem {v : List (List Nat)} {l : List Nat} (h : l ∈ v) : ∃ i, v.getD i [] = l := by
  obtain ⟨i, hi, he⟩ := List.mem_iff_getElem.mp h
  exact ⟨i, by simp [List.getD_eq_getElem?_getD, hi, he]⟩

theorem pick_some {s : FState} {ix : Nat} (h : pickBidirectional s = some ix) : ∃ b, ix ∈ getB s b := by
  unfold pickBidirectional at h
  split at h
  · rename_i ix' rest hf
    simp only [Option.some.injEq] at h
    subst h
    have hm := List.mem_of_find?_eq_some hf
    cases List.mem_append.mp hm with
    | inl e =>
      obtain ⟨i, hi⟩ := mem_getD_of_mem (List.mem_reverse.mp e)
      exact ⟨.pve i, by show ix' ∈ s.pve.getD i []; rw [hi]; simp⟩
    | inr e =>
      obtain ⟨i, hi⟩ := mem_getD_of_mem e
      exact ⟨.nve i, by show ix' ∈ s.nve.getD i []; rw [hi]; simp⟩
  · simp at h

theorem getD_nil_of_all {v : List (List Nat)} (h : ∀ l ∈ v, l = []) (i : Nat) : v.getD i [] = [] := by
  rw [List.getD_eq_getElem?_getD]
  cases hv : v[i]? with
  | none => rfl
  | some l => exact h l (List.mem_of_getElem? hv)

theorem pick_none {s : FState} (h : pickBidirectional s = none) : ∀ i, getB s (.pve i) = [] ∧ getB s (.nve i) = [] := by
  unfold pickBidirectional at h
  have hall : ∀ l ∈ s.pve.reverse ++ s.nve, l = [] := by
    split at h
    · simp at h
    · rename_i hno
      cases hf : (s.pve.reverse ++ s.nve).find? (fun l => !l.isEmpty) with
      | none =>
        intro l hl
        have := List.find?_eq_none.mp hf l hl
        simpa using this
      | some l =>
        have hp := List.find?_some hf
        cases l with
        | nil => simp at hp
        | cons x t => exact absurd hf (hno x t)
  intro i
  constructor
  · exact getD_nil_of_all (fun l hl => hall l (List.mem_append_left _ (List.mem_reverse.mpr hl))) i
  · exact getD_nil_of_all (fun l hl => hall l (List.mem_append_right _ hl)) i

/-! ### the main loop -/

theorem mainLoop_spec : ∀ (f : Nat) (s : FState) (s1 s2 : List Nat), Inv s → flagged s < f →
    ∀ j, (node s j).inList = true ∨ (node s j).gix ∈ s1 ++ s2 → j < s.nodes.length →
      (node s j).gix ∈ mainLoop f s s1 s2 := by
  intro f
  induction f with
  | zero => intro s s1 s2 _ h; omega
  | succ f ih =>
    intro s s1 s2 hinv hk j hj hjl
    unfold mainLoop
    simp only
    have hn : flagged s < s.nodes.length + 1 := by have := flagged_le s; omega
    have ha := drainSinks_spec (s.nodes.length + 1) s s2 false s1 hinv hn
    generalize drainSinks (s.nodes.length + 1) s s2 false = ra at ha
    obtain ⟨sa, s2a, m1⟩ := ra
    simp only at ha ⊢
    obtain ⟨hinva, hsinks, hproga, hm1⟩ := ha
    have hnb : flagged sa < s.nodes.length + 1 := by have := hproga.dec; omega
    have hb := drainSources_spec (s.nodes.length + 1) sa s1 false s2a hinva hnb
    generalize drainSources (s.nodes.length + 1) sa s1 false = rb at hb
    obtain ⟨sb, s1b, m2⟩ := rb
    simp only at hb ⊢
    obtain ⟨hinvb, hsources, hprogb, hm2, hm2f⟩ := hb
    have hprog : Prog s (s1 ++ s2) sb (s1b ++ s2a) := hproga.trans hprogb
    -- where `j` stands after the drains
    have hjb : (node sb j).inList = true ∨ (node sb j).gix ∈ s1b ++ s2a := by
      cases hj with
      | inl e =>
        cases hprog.out j e with
        | inl e' => exact Or.inl e'
        | inr e' => exact Or.inr (hprog.gix j ▸ e')
      | inr e => exact Or.inr (hprog.gix j ▸ hprog.sub _ e)
    have hjlb : j < sb.nodes.length := by rw [hprog.len]; exact hjl
    rw [← hprog.gix j]
    split
    · -- a bidirectional node is taken
      rename_i ix hpick
      obtain ⟨b, hb⟩ := pick_some hpick
      have hix := (hinvb.mem b ix hb).1
      have ht := take_spec sb ix hinvb hix
      have hk' : flagged (update (remove sb ix) ix) < f := by
        have := ht.count; have := hprog.dec; omega
      have hp : Prog sb (s1b ++ s2a) (update (remove sb ix) ix)
          ((s1b ++ [(node (update (remove sb ix) ix) ix).gix]) ++ s2a) := by
        apply prog_take ht
        · intro x hx
          cases List.mem_append.mp hx with
          | inl e => exact List.mem_append_left _ (List.mem_append_left _ e)
          | inr e => exact List.mem_append_right _ e
        · exact List.mem_append_left _ (List.mem_append_right _ List.mem_cons_self)
      rw [← hp.gix j]
      apply ih _ _ _ ht.inv hk' j _ (by rw [hp.len]; exact hjlb)
      cases hjb with
      | inl e =>
        cases hp.out j e with
        | inl e' => exact Or.inl e'
        | inr e' => exact Or.inr (hp.gix j ▸ e')
      | inr e => exact Or.inr (hp.gix j ▸ hp.sub _ e)
    · rename_i hpick
      split
      · -- a drain made progress: go round again
        rename_i hm
        have hk' : flagged sb < f := by
          have h1 := hproga.dec
          have h2 := hprogb.dec
          simp only [Bool.or_eq_true] at hm
          cases hm with
          | inl e => cases hm1 e with
            | inl e' => cases e'
            | inr e' => omega
          | inr e => cases hm2 e with
            | inl e' => cases e'
            | inr e' => omega
        exact ih sb s1b s2a hinvb hk' j hjb hjlb
      · -- nothing left: every bucket is empty, so no node is flagged
        rename_i hm
        have hsame : sb = sa := by
          cases hm2v : m2 with
          | true => simp [hm2v] at hm
          | false => exact (hm2f hm2v).2
        cases hjb with
        | inr e => exact e
        | inl e =>
          exfalso
          have hmem := hinvb.has j e
          have hempty : ∀ b, getB sb b = [] := by
            intro b
            cases b with
            | sink => rw [hsame]; exact hsinks
            | source => exact hsources
            | pve i => exact (pick_none hpick i).1
            | nve i => exact (pick_none hpick i).2
          rw [hempty] at hmem
          cases hmem

/-! ### `build` -/

/-- one edge of the first loop of `build` -/
def bstep (s : FState) (e : Nat × Nat) : FState :=
  modNode (modNode (entry (entry s e.1).1 e.2).1 (entry s e.1).2
      fun n => { n with outE := n.outE ++ [(entry (entry s e.1).1 e.2).2] })
    (entry (entry s e.1).1 e.2).2 fun n => { n with inE := n.inE ++ [(entry s e.1).2] }

def mapNodes (s : FState) (f : FNode → FNode) : FState := { s with nodes := s.nodes.map f }

theorem build_eq (edges : List (Nat × Nat)) :
    build edges =
      (List.range (mapNodes (edges.foldl bstep {}) fun n => { n with outDeg := n.outE.length, inDeg := n.inE.length }).nodes.length).foldl
        pushFront (mapNodes (edges.foldl bstep {}) fun n => { n with outDeg := n.outE.length, inDeg := n.inE.length }) := rfl

/-- no bucket holds anything and no node is flagged -/
structure Fresh (s : FState) : Prop where
  sinks : s.sinks = []
  sources : s.sources = []
  pve : s.pve = []
  nve : s.nve = []
  flags : ∀ j, (node s j).inList = false

/-- some node stands for the graph node `g` -/
def HasG (s : FState) (g : Nat) : Prop := ∃ j, j < s.nodes.length ∧ (node s j).gix = g

theorem fresh_modNode {s : FState} (ix : Nat) (f : FNode → FNode) (hf : ∀ n, (f n).inList = n.inList)
    (h : Fresh s) : Fresh (modNode s ix f) := by
  refine ⟨h.sinks, h.sources, h.pve, h.nve, fun j => ?_⟩
  rw [node_modNode]
  split
  · rw [hf]; exact h.flags ix
  · exact h.flags j

theorem hasG_modNode {s : FState} (ix : Nat) (f : FNode → FNode) (hf : ∀ n, (f n).gix = n.gix) {g : Nat}
    (h : HasG s g) : HasG (modNode s ix f) g := by
  obtain ⟨j, hj, hg⟩ := h
  refine ⟨j, by simpa using hj, ?_⟩
  rw [node_modNode]
  split
  · rename_i hc; rw [hf, ← hc.1]; exact hg
  · exact hg

theorem node_of_lt (s : FState) (j : Nat) (h : j < s.nodes.length) : node s j = s.nodes[j] := by
  simp [node, List.getD_eq_getElem?_getD, h]

theorem entry_spec (s : FState) (g : Nat) (hf : Fresh s) :
    Fresh (entry s g).1 ∧ ((entry s g).2 < (entry s g).1.nodes.length ∧ (node (entry s g).1 (entry s g).2).gix = g) ∧
    ∀ x, HasG s x → HasG (entry s g).1 x := by
  unfold entry
  split
  · rename_i i hi
    obtain ⟨hlt, hp, _⟩ := List.findIdx?_eq_some_iff_getElem.mp hi
    refine ⟨hf, ⟨hlt, ?_⟩, fun x hx => hx⟩
    rw [node_of_lt s i hlt]
    simpa using hp
  · have hnode : ∀ j, node { s with nodes := s.nodes ++ [{ gix := g }] } j =
        if j < s.nodes.length then node s j else if j = s.nodes.length then { gix := g } else default := by
      intro j
      simp only [node, List.getD_eq_getElem?_getD]
      by_cases h1 : j < s.nodes.length
      · rw [List.getElem?_append_left h1, if_pos h1]
      · rw [List.getElem?_append_right (by omega), if_neg h1]
        by_cases h2 : j = s.nodes.length
        · subst h2; simp
        · rw [if_neg h2]
          have : j - s.nodes.length ≠ 0 := by omega
          cases hk : j - s.nodes.length with
          | zero => exact absurd hk this
          | succ k => simp
    refine ⟨⟨hf.sinks, hf.sources, hf.pve, hf.nve, fun j => ?_⟩, ⟨by simp, ?_⟩, ?_⟩
    · rw [hnode]
      split
      · exact hf.flags j
      · split <;> rfl
    · rw [hnode]
      simp
    · intro x ⟨j, hj, hg⟩
      refine ⟨j, by simp; omega, ?_⟩
      rw [hnode, if_pos hj]
      exact hg

theorem bstep_spec (s : FState) (e : Nat × Nat) (hf : Fresh s) :
    Fresh (bstep s e) ∧ HasG (bstep s e) e.1 ∧ HasG (bstep s e) e.2 ∧ ∀ x, HasG s x → HasG (bstep s e) x := by
  have h1 := entry_spec s e.1 hf
  have h2 := entry_spec (entry s e.1).1 e.2 h1.1
  unfold bstep
  refine ⟨fresh_modNode _ _ (fun _ => rfl) (fresh_modNode _ _ (fun _ => rfl) h2.1), ?_, ?_, ?_⟩
  · refine hasG_modNode _ _ ?_ (hasG_modNode _ _ ?_ (h2.2.2 _ ⟨_, h1.2.1⟩)) <;> intro n <;> rfl
  · refine hasG_modNode _ _ ?_ (hasG_modNode _ _ ?_ ⟨_, h2.2.1⟩) <;> intro n <;> rfl
  · intro x hx
    refine hasG_modNode _ _ ?_ (hasG_modNode _ _ ?_ (h2.2.2 _ (h1.2.2 _ hx))) <;> intro n <;> rfl

theorem foldl_bstep_spec : ∀ (l : List (Nat × Nat)) (s : FState), Fresh s →
    Fresh (l.foldl bstep s) ∧ (∀ x, HasG s x → HasG (l.foldl bstep s) x) ∧
    ∀ e ∈ l, HasG (l.foldl bstep s) e.1 ∧ HasG (l.foldl bstep s) e.2 := by
  intro l
  induction l with
  | nil => intro s h; exact ⟨h, fun _ hx => hx, fun e he => by cases he⟩
  | cons a t ih =>
    intro s h
    simp only [List.foldl_cons]
    have h1 := bstep_spec s a h
    have h2 := ih (bstep s a) h1.1
    refine ⟨h2.1, fun x hx => h2.2.1 x (h1.2.2.2 x hx), ?_⟩
    intro e he
    cases List.mem_cons.mp he with
    | inl e' => subst e'; exact ⟨h2.2.1 _ h1.2.1, h2.2.1 _ h1.2.2.1⟩
    | inr e' => exact h2.2.2 e e'

theorem node_mapNodes (s : FState) (f : FNode → FNode) (j : Nat) :
    node (mapNodes s f) j = if j < s.nodes.length then f (node s j) else default := by
  simp only [node, mapNodes, List.getD_eq_getElem?_getD, List.getElem?_map]
  by_cases h : j < s.nodes.length
  · simp [h]
  · simp [h]

theorem inv_of_fresh {s : FState} (h : Fresh s) : Inv s := by
  have hempty : ∀ b, getB s b = [] := by
    intro b
    cases b with
    | sink => exact h.sinks
    | source => exact h.sources
    | pve i => simp [getB, h.pve]
    | nve i => simp [getB, h.nve]
  refine ⟨fun b ix hix => ?_, fun ix hix => ?_, fun b => ?_⟩
  · rw [hempty] at hix; cases hix
  · rw [h.flags] at hix; cases hix
  · rw [hempty]; exact List.nodup_nil

/-- the second loop of `build`: after the first `m` nodes, exactly they are flagged and bucketed -/
theorem foldl_pushFront_spec (s : FState) (hf : Fresh s) : ∀ m, m ≤ s.nodes.length →
    Inv ((List.range m).foldl pushFront s) ∧ ((List.range m).foldl pushFront s).nodes.length = s.nodes.length ∧
    (∀ j, (node ((List.range m).foldl pushFront s) j).gix = (node s j).gix) ∧
    ∀ j, (node ((List.range m).foldl pushFront s) j).inList = decide (j < m) := by
  intro m
  induction m with
  | zero =>
    intro _
    exact ⟨inv_of_fresh hf, rfl, fun _ => rfl, fun j => by simpa using hf.flags j⟩
  | succ m ih =>
    intro hm
    obtain ⟨h1, h2, h3, h4⟩ := ih (by omega)
    rw [List.range_succ, List.foldl_append]
    simp only [List.foldl_cons, List.foldl_nil]
    have hlt : m < ((List.range m).foldl pushFront s).nodes.length := by rw [h2]; omega
    refine ⟨inv_pushFront _ m h1 hlt (by rw [h4]; simp), by simp [h2], fun j => ?_, fun j => ?_⟩
    · rw [node_pushFront]
      split
      · rename_i hc; rw [hc.1]; exact h3 m
      · exact h3 j
    · rw [node_pushFront]
      split
      · rename_i hc; simp [hc.1]
      · rename_i hc
        rw [h4]
        have : j ≠ m := fun e => hc ⟨e, hlt⟩
        by_cases hjm : j < m
        · simp [hjm, show j < m + 1 by omega]
        · simp [hjm, show ¬ j < m + 1 by omega]

/-- **every endpoint gets a position in `good_node_sequence`** -/
theorem goodSequence_total (edges : List (Nat × Nat)) :
    ∀ e ∈ edges, e.1 ∈ goodSequence edges ∧ e.2 ∈ goodSequence edges := by
  have h0 : Fresh ({} : FState) := ⟨rfl, rfl, rfl, rfl, fun j => by simp [node, default_inList]⟩
  have hfold := foldl_bstep_spec edges {} h0
  -- the degree pass
  have hfresh : Fresh (mapNodes (edges.foldl bstep {}) fun n => { n with outDeg := n.outE.length, inDeg := n.inE.length }) := by
    refine ⟨hfold.1.sinks, hfold.1.sources, hfold.1.pve, hfold.1.nve, fun j => ?_⟩
    rw [node_mapNodes]
    split
    · exact hfold.1.flags j
    · rfl
  have hpush := foldl_pushFront_spec _ hfresh _ (Nat.le_refl _)
  rw [← build_eq] at hpush
  obtain ⟨hinv, hlen, hgix, hflag⟩ := hpush
  -- every graph node of the first loop is a flagged node of `build edges`
  have key : ∀ g, HasG (edges.foldl bstep {}) g → g ∈ goodSequence edges := by
    intro g ⟨j, hj, hg⟩
    have hjl : j < (build edges).nodes.length := by rw [hlen]; simpa [mapNodes] using hj
    have hgj : (node (build edges) j).gix = g := by
      rw [hgix, node_mapNodes, if_pos hj]
      exact hg
    have hfl : (node (build edges) j).inList = true := by
      rw [hflag]
      simpa [mapNodes] using hj
    unfold goodSequence
    simp only
    rw [← hgj]
    exact mainLoop_spec _ (build edges) [] [] hinv (by have := flagged_le (build edges); omega) j (Or.inl hfl) hjl
  intro e he
  exact ⟨key _ (hfold.2.2 e he).1, key _ (hfold.2.2 e he).2⟩

end PetgraphModel.C20.Fas
