import PetgraphModel.Proofs.C17W4Preserved
/-
C17 wave 4 — per node, what the iterators of two graphs with the same order-independent observables return: the same
edges / neighbours up to order (the order itself is NOT preserved by a round trip: witnesses in `Theorems/C17.lean`).
-/
namespace PetgraphModel.SerdeProofs
open PetgraphModel PetgraphModel.Serde

theorem nodup_bounded_length : ∀ (n : Nat) (l : List Nat), l.Nodup → (∀ e, e ∈ l → e < n) → l.length ≤ n := by
  intro n
  induction n with
  | zero =>
    intro l _ h
    cases l with
    | nil => simp
    | cons x t => exact absurd (h x (List.mem_cons_self ..)) (by omega)
  | succ n ih =>
    intro l hn h
    have h1 := ih (l.erase n) (hn.erase n) (by
      intro e he
      have hm := (List.Nodup.mem_erase_iff hn).1 he
      have := h e hm.2
      omega)
    have := List.length_erase_le (a := n) (l := l)
    by_cases hm : n ∈ l
    · rw [List.length_erase_of_mem hm] at h1; omega
    · rw [List.erase_of_not_mem hm] at h1; omega

theorem exactList_perm {α} {slots slots' : List α} {P P' : α → Prop} {l l' : List Nat}
    (h : ExactList slots P l) (h' : ExactList slots' P' l')
    (heq : ∀ e : Nat, (∃ s, slots[e]? = some s ∧ P s) ↔ (∃ s, slots'[e]? = some s ∧ P' s)) : l.Perm l' :=
  (List.perm_ext_iff_of_nodup h.1 h'.1).2 (fun e => (h.2 e).trans ((heq e).trans (h'.2 e).symm))

theorem exactList_length {α} {slots : List α} {P : α → Prop} {l : List Nat} (h : ExactList slots P l) :
    l.length ≤ slots.length :=
  nodup_bounded_length _ l h.1 (fun e he => by
    obtain ⟨s, hs, _⟩ := (h.2 e).1 he
    exact (List.getElem?_eq_some_iff.1 hs).1)

theorem exactList_allLive {edges : List EdgeSlot} {Q : EdgeSlot → Prop} {l : List Nat}
    (h : ExactList edges (fun s => s.w.isSome = true ∧ Q s) l) : AllLive edges l := by
  intro e x he hx
  obtain ⟨s, hs, hp, _⟩ := (h.2 e).1 he
  rw [hx] at hs; cases hs
  exact hp

/-- a live edge slot of one graph is the same live edge (endpoints, weight) in a graph with the same live edges -/
theorem liveEdge_transfer {g g' : Raw} (hE : liveEdges g' = liveEdges g) {e : Nat} {s : EdgeSlot}
    (hs : g.edges[e]? = some s) (hw : s.w.isSome = true) :
    ∃ s', g'.edges[e]? = some s' ∧ s'.w = s.w ∧ s'.src = s.src ∧ s'.tgt = s.tgt := by
  obtain ⟨w, hw'⟩ := Option.isSome_iff_exists.1 hw
  have := (mem_liveEdges g e s.src s.tgt w).2 ⟨s, hs, hw', rfl, rfl⟩
  rw [← hE] at this
  obtain ⟨s', h1, h2, h3, h4⟩ := (mem_liveEdges g' e s.src s.tgt w).1 this
  exact ⟨s', h1, by rw [h2, hw'], h3, h4⟩

theorem incident_pred_transfer {g g' : Raw} (hE : liveEdges g' = liveEdges g) (Q : Nat → Nat → Prop) (e : Nat) :
    (∃ s, g.edges[e]? = some s ∧ (s.w.isSome = true ∧ Q s.src s.tgt)) ↔
    (∃ s, g'.edges[e]? = some s ∧ (s.w.isSome = true ∧ Q s.src s.tgt)) := by
  constructor
  · rintro ⟨s, hs, hw, hq⟩
    obtain ⟨s', h1, h2, h3, h4⟩ := liveEdge_transfer hE hs hw
    exact ⟨s', h1, by rw [h2]; exact hw, by rw [h3, h4]; exact hq⟩
  · rintro ⟨s, hs, hw, hq⟩
    obtain ⟨s', h1, h2, h3, h4⟩ := liveEdge_transfer hE.symm hs hw
    exact ⟨s', h1, by rw [h2]; exact hw, by rw [h3, h4]; exact hq⟩

theorem srcTgt_transfer {g g' : Raw} (hE : liveEdges g' = liveEdges g) {l : List Nat} (hl : AllLive g.edges l)
    (hlt : ∀ e, e ∈ l → e < g.edges.length) :
    ∀ e, e ∈ l → srcOf g'.edges e = srcOf g.edges e ∧ tgtOf g'.edges e = tgtOf g.edges e := by
  intro e he
  have hlt' := hlt e he
  have hs : g.edges[e]? = some (g.edges[e]) := List.getElem?_eq_getElem hlt'
  obtain ⟨s', h1, _, h3, h4⟩ := liveEdge_transfer hE hs (hl e _ he hs)
  simp only [srcOf, tgtOf, h1, hs, h3, h4, and_self]

/-- **same observables ⇒ same incident edges per node, up to order**: for two consistent graphs with the same live
nodes and live edges (e.g. a graph and its round trip), the `Edges` iterator of every live node in both directions and
its `neighbors_undirected` return, in both graphs, lists that are permutations of each other. -/
theorem sameObs_iterators_perm (g g' : Raw) (hI : RawInv g) (hI' : RawInv g') (hEND : g'.END = g.END)
    (hd : g'.directed = g.directed) (O : SameObs g g') (i : Nat) (nd : NodeSlot)
    (hi : g.nodes[i]? = some nd) (hl : nd.w.isSome = true) :
    ∃ o n u o' n' u', g.edgesDirected i true = .ok o ∧ g.edgesDirected i false = .ok n ∧
      g.neighborsUndirected i = .ok u ∧ g'.edgesDirected i true = .ok o' ∧ g'.edgesDirected i false = .ok n' ∧
      g'.neighborsUndirected i = .ok u' ∧ o'.Perm o ∧ n'.Perm n ∧ u'.Perm u := by
  -- the node is live in `g'` too
  obtain ⟨w, hw⟩ := Option.isSome_iff_exists.1 hl
  have hmem : (i, w) ∈ liveNodes g' := by rw [O.nodes]; exact (mem_liveNodes g i w).2 ⟨nd, hi, hw⟩
  obtain ⟨nd', hi', hw'⟩ := (mem_liveNodes g' i w).1 hmem
  have hl' : nd'.w.isSome = true := by rw [hw']; rfl
  obtain ⟨l0, c0, x0⟩ := hI.out i nd hi hl
  obtain ⟨l1, c1, x1⟩ := hI.inn i nd hi hl
  obtain ⟨l0', c0', x0'⟩ := hI'.out i nd' hi' hl'
  obtain ⟨l1', c1', x1'⟩ := hI'.inn i nd' hi' hl'
  have p0 : l0'.Perm l0 := exactList_perm x0' x0 (fun e => (incident_pred_transfer O.edges (fun s _ => s = i) e).symm)
  have p1 : l1'.Perm l1 := exactList_perm x1' x1 (fun e => (incident_pred_transfer O.edges (fun _ t => t = i) e).symm)
  have a0 := exactList_allLive x0
  have a1 := exactList_allLive x1
  have a0' := exactList_allLive x0'
  have a1' := exactList_allLive x1'
  have n0 := exactList_length x0
  have n1 := exactList_length x1
  have n0' := exactList_length x0'
  have n1' := exactList_length x1'
  have t0 := srcTgt_transfer O.edges a0 c0.lt
  have t1 := srcTgt_transfer O.edges a1 c1.lt
  have hlen := hI.lenE
  have hlen' := hI'.lenE
  -- maps over the two edge arrays agree on live lists
  have mapT : ∀ (swap : Bool) (l l' : List Nat), l'.Perm l →
      (∀ e, e ∈ l → srcOf g'.edges e = srcOf g.edges e ∧ tgtOf g'.edges e = tgtOf g.edges e) →
      (l'.map (tripleOf g'.edges swap)).Perm (l.map (tripleOf g.edges swap)) := by
    intro swap l l' hp ht
    have : l'.map (tripleOf g'.edges swap) = l'.map (tripleOf g.edges swap) := by
      apply List.map_congr_left
      intro e he
      obtain ⟨h1, h2⟩ := ht e (hp.mem_iff.1 he)
      simp only [tripleOf, h1, h2]
    rw [this]
    exact hp.map _
  have filtT : ∀ (p : Nat → Bool) (l l' : List Nat), l'.Perm l →
      (∀ e, e ∈ l → srcOf g'.edges e = srcOf g.edges e ∧ tgtOf g'.edges e = tgtOf g.edges e) →
      (l'.filter (fun e => p (srcOf g'.edges e))).Perm (l.filter (fun e => p (srcOf g.edges e))) := by
    intro p l l' hp ht
    have : l'.filter (fun e => p (srcOf g'.edges e)) = l'.filter (fun e => p (srcOf g.edges e)) := by
      apply List.filter_congr
      intro e he
      rw [(ht e (hp.mem_iff.1 he)).1]
    rw [this]
    exact hp.filter _
  have o_out := fun swap => edgesOut_chain g.edges g.END swap hlen c0 a0 (g.edges.length + 1) (by omega)
  have o_out' := fun swap => edgesOut_chain g'.edges g'.END swap hlen' c0' a0' (g'.edges.length + 1) (by omega)
  have o_in := fun swap skip => edgesIn_chain g.edges g.END swap skip hlen c1 a1 (g.edges.length + 1) (by omega)
  have o_in' := fun swap skip => edgesIn_chain g'.edges g'.END swap skip hlen' c1' a1' (g'.edges.length + 1) (by omega)
  have b_out := nbrsOut_chain g.edges g.END hlen c0 a0 (g.edges.length + 1) (by omega)
  have b_out' := nbrsOut_chain g'.edges g'.END hlen' c0' a0' (g'.edges.length + 1) (by omega)
  have b_in := nbrsIn_chain g.edges g.END i hlen c1 a1 (g.edges.length + 1) (by omega)
  have b_in' := nbrsIn_chain g'.edges g'.END i hlen' c1' a1' (g'.edges.length + 1) (by omega)
  -- the filtered incoming lists
  have fin : ∀ (skip : Option Nat),
      (l1'.filter (fun e => !(skip == some (srcOf g'.edges e)))).Perm (l1.filter (fun e => !(skip == some (srcOf g.edges e)))) :=
    fun skip => filtT (fun x => !(skip == some x)) l1 l1' p1 t1
  have fin2 : (l1'.filter (fun e => !(srcOf g'.edges e == i))).Perm (l1.filter (fun e => !(srcOf g.edges e == i))) :=
    filtT (fun x => !(x == i)) l1 l1' p1 t1
  have tsub : ∀ (skip : Option Nat) e, e ∈ l1.filter (fun e => !(skip == some (srcOf g.edges e))) →
      srcOf g'.edges e = srcOf g.edges e ∧ tgtOf g'.edges e = tgtOf g.edges e :=
    fun skip e he => t1 e (List.mem_filter.1 he).1
  have uOut : (l0'.map (tgtOf g'.edges)).Perm (l0.map (tgtOf g.edges)) := by
    have : l0'.map (tgtOf g'.edges) = l0'.map (tgtOf g.edges) :=
      List.map_congr_left (fun e he => (t0 e (p0.mem_iff.1 he)).2)
    rw [this]; exact p0.map _
  have uIn : ((l1'.filter (fun e => !(srcOf g'.edges e == i))).map (srcOf g'.edges)).Perm
      ((l1.filter (fun e => !(srcOf g.edges e == i))).map (srcOf g.edges)) := by
    have : (l1'.filter (fun e => !(srcOf g'.edges e == i))).map (srcOf g'.edges) =
        (l1'.filter (fun e => !(srcOf g'.edges e == i))).map (srcOf g.edges) :=
      List.map_congr_left (fun e he => (t1 e (p1.mem_iff.1 (List.mem_filter.1 he).1)).1)
    rw [this]; exact fin2.map _
  have hnb : g.neighborsUndirected i = .ok (l0.map (tgtOf g.edges) ++
      (l1.filter (fun e => !(srcOf g.edges e == i))).map (srcOf g.edges)) := by
    unfold Raw.neighborsUndirected
    simp only [hi, hl, if_true, b_out, b_in]
  have hnb' : g'.neighborsUndirected i = .ok (l0'.map (tgtOf g'.edges) ++
      (l1'.filter (fun e => !(srcOf g'.edges e == i))).map (srcOf g'.edges)) := by
    unfold Raw.neighborsUndirected
    simp only [hi', hl', if_true, b_out', b_in']
  cases hdir : g.directed with
  | true =>
    have hdir' : g'.directed = true := by rw [hd, hdir]
    refine ⟨_, _, _, _, _, _, ?_, ?_, hnb, ?_, ?_, hnb', mapT false l0 l0' p0 t0,
      mapT false _ _ (fin none) (tsub none), uOut.append uIn⟩
    · unfold Raw.edgesDirected; simp only [hi, hl, if_true, hdir]; exact o_out false
    · unfold Raw.edgesDirected; simp only [hi, hl, if_true, hdir, Bool.false_eq_true, if_false]; exact o_in false none
    · unfold Raw.edgesDirected; simp only [hi', hl', if_true, hdir']; exact o_out' false
    · unfold Raw.edgesDirected; simp only [hi', hl', if_true, hdir', Bool.false_eq_true, if_false]; exact o_in' false none
  | false =>
    have hdir' : g'.directed = false := by rw [hd, hdir]
    refine ⟨_, _, _, _, _, _, ?_, ?_, hnb, ?_, ?_, hnb',
      (mapT (!true) l0 l0' p0 t0).append (mapT true _ _ (fin (some i)) (tsub (some i))),
      (mapT (!false) l0 l0' p0 t0).append (mapT false _ _ (fin (some i)) (tsub (some i))), uOut.append uIn⟩
    · unfold Raw.edgesDirected; simp only [hi, hl, if_true, hdir, Bool.false_eq_true, if_false, o_out, o_in]
    · unfold Raw.edgesDirected; simp only [hi, hl, if_true, hdir, Bool.false_eq_true, if_false, o_out, o_in]
    · unfold Raw.edgesDirected; simp only [hi', hl', if_true, hdir', Bool.false_eq_true, if_false, o_out', o_in']
    · unfold Raw.edgesDirected; simp only [hi', hl', if_true, hdir', Bool.false_eq_true, if_false, o_out', o_in']

end PetgraphModel.SerdeProofs
