import PetgraphModel.Proofs.C14W2Topo
/-
C14 (wave 4): `range`, insertions with an absent endpoint, and "a rejected insertion changes
nothing" without any hypothesis on the state.

* `range_spec`        under `OMInv`: `range(lo, hi)` lists, without repetition, exactly the live nodes
                      whose position lies within the bounds, by increasing position, as a sublist of
                      `nodes_iter`;  `range_none_iff`: it panics exactly on inverted bounds of a
                      non-empty map (std's `BTreeMap::range`);
* `range_topological` under `Inv2`: every edge between two listed nodes goes forward in the list;
* `range_eq_rangeSpec` the specification function of the driver's judge (`Dag.rangeSpec`) applied to
                      the model's own `nodes_iter` / `get_position` IS the model's `range`;
* `reject_unchanged_any` any returning non-accepted `try_add_edge` leaves order map and both scratch
                      sets equal — in ANY state, for ANY indices (no invariant, no liveness);
* `absent_never_accepted`, `absent_target_panics`, `absent_source_shape`.
-/
namespace PetgraphModel.AcyW4
open PetgraphModel PetgraphModel.MGraph PetgraphModel.Oracle PetgraphModel.Dag PetgraphModel.Acy
open PetgraphModel.AcyProofs PetgraphModel.AcyPK PetgraphModel.AcyNP PetgraphModel.AcyTS PetgraphModel.AcyW2

/-! ### `range` -/

theorem range_none_iff (om : OrderMap) (lo hi : Bnd) :
    om.range lo hi = none ↔ rangePanics lo hi = true ∧ om.p2n ≠ [] := by
  unfold OrderMap.range
  by_cases h1 : rangePanics lo hi = true <;> by_cases h2 : om.p2n = [] <;> simp [h1, h2]

theorem range_some_eq {om : OrderMap} {lo hi : Bnd} {l : List Nat} (h : om.range lo hi = some l) :
    l = (om.p2n.filter fun e => lo.loOk e.1 && hi.hiOk e.1).map (·.2) := by
  unfold OrderMap.range at h
  split at h
  · cases h
  · cases h; rfl

theorem range_unbounded (om : OrderMap) : om.range .unb .unb = some om.nodesIter := by
  have hf : ∀ (m : PMap), m.filter (fun _ => true) = m := by
    intro m; induction m with
    | nil => rfl
    | cons e t ih => simp [List.filter, ih]
  simp [OrderMap.range, rangePanics, Bnd.loOk, Bnd.hiOk, OrderMap.nodesIter, pmVals, hf]

theorem sorted_filter {m : PMap} (hs : Sorted m) (p : Nat × Nat → Bool) : Sorted (m.filter p) :=
  List.Pairwise.sublist List.filter_sublist hs

theorem sorted_vals_nodup_of_inj {m : PMap} (hs : Sorted m)
    (hinj : ∀ p q n, (p, n) ∈ m → (q, n) ∈ m → p = q) : (m.map (·.2)).Nodup := by
  induction m with
  | nil => exact List.nodup_nil
  | cons e t ih =>
    unfold Sorted at hs
    rw [List.pairwise_cons] at hs
    simp only [List.map_cons, List.nodup_cons]
    refine ⟨?_, ih hs.2 fun p q n h1 h2 => hinj p q n (List.mem_cons_of_mem _ h1) (List.mem_cons_of_mem _ h2)⟩
    intro hmem
    obtain ⟨e', he', heq⟩ := List.mem_map.mp hmem
    have h1 : (e'.1, e.2) ∈ e :: t := by
      rw [← heq]; exact List.mem_cons_of_mem _ he'
    have h2 : (e.1, e.2) ∈ e :: t := List.mem_cons_self ..
    have := hinj _ _ _ h1 h2
    have hlt := hs.1 e' he'
    omega

/-- **`range` lists exactly the live nodes whose position is within the bounds**, each once, by
increasing position, as a sublist of `nodes_iter`. -/
theorem range_spec {L : List Nat} {om : OrderMap} (h : OMInv L om) {lo hi : Bnd} {l : List Nat}
    (hr : om.range lo hi = some l) :
    l.Nodup ∧
    (∀ x, x ∈ l ↔ x ∈ L ∧ ∃ p, om.getPos x = .ok p ∧ lo.loOk p = true ∧ hi.hiOk p = true) ∧
    l.Sublist om.nodesIter ∧
    l.Pairwise (fun x y => ∀ px py, om.getPos x = .ok px → om.getPos y = .ok py → px < py) := by
  have hl := range_some_eq hr
  subst hl
  have hsf : Sorted (om.p2n.filter fun e => lo.loOk e.1 && hi.hiOk e.1) := sorted_filter h.sorted _
  have hmemf : ∀ e, e ∈ (om.p2n.filter fun e => lo.loOk e.1 && hi.hiOk e.1) → e ∈ om.p2n :=
    fun e he => (List.mem_filter.mp he).1
  refine ⟨?_, ?_, ?_, ?_⟩
  · apply sorted_vals_nodup_of_inj hsf
    intro p q n h1 h2
    have a1 := (h.p2n_live p n (hmemf _ h1)).2
    have a2 := (h.p2n_live q n (hmemf _ h2)).2
    rw [a1] at a2; cases a2; rfl
  · intro x
    simp only [List.mem_map, List.mem_filter, Bool.and_eq_true]
    constructor
    · rintro ⟨⟨p, n⟩, ⟨hm, hb⟩, rfl⟩
      obtain ⟨hn, hp⟩ := h.p2n_live p n hm
      exact ⟨hn, p, getPos_of_n2p hp, hb.1, hb.2⟩
    · rintro ⟨hx, p, hp, h1, h2⟩
      obtain ⟨q, hq, hm⟩ := h.live_p2n x hx
      have : q = p := by
        have := getPos_ok hp
        rw [hq] at this; cases this; rfl
      subst this
      exact ⟨(q, x), ⟨hm, h1, h2⟩, rfl⟩
  · exact List.Sublist.map _ List.filter_sublist
  · rw [List.pairwise_map]
    refine List.Pairwise.imp_of_mem ?_ hsf
    intro e1 e2 he1 he2 hlt px py hpx hpy
    have a1 := (h.p2n_live e1.1 e1.2 (hmemf _ he1)).2
    have a2 := (h.p2n_live e2.1 e2.2 (hmemf _ he2)).2
    rw [getPos_ok hpx] at a1
    rw [getPos_ok hpy] at a2
    cases a1; cases a2
    exact hlt

theorem pairwise_idxOf {R : Nat → Nat → Prop} : ∀ {l : List Nat}, l.Pairwise R → ∀ {a b : Nat},
    a ∈ l → b ∈ l → a ≠ b → l.idxOf a < l.idxOf b ∨ R b a := by
  intro l
  induction l with
  | nil => intro _ a b ha; cases ha
  | cons x t ih =>
    intro hp a b ha hb hab
    rw [List.pairwise_cons] at hp
    by_cases hxa : x = a
    · subst hxa
      left
      have hxb : (x == b) = false := beq_false_of_ne hab
      simp [List.idxOf_cons, hxb]
    · by_cases hxb : x = b
      · subst hxb
        right
        rcases List.mem_cons.mp ha with h | h
        · exact absurd h.symm hxa
        · exact hp.1 a h
      · have ha' : a ∈ t := by
          rcases List.mem_cons.mp ha with h | h
          · exact absurd h.symm hxa
          · exact h
        have hb' : b ∈ t := by
          rcases List.mem_cons.mp hb with h | h
          · exact absurd h.symm hxb
          · exact h
        rcases ih hp.2 ha' hb' hab with h | h
        · left
          have e1 : (x == a) = false := beq_false_of_ne hxa
          have e2 : (x == b) = false := beq_false_of_ne hxb
          simp only [List.idxOf_cons, e1, e2, cond_false]
          omega
        · right; exact h

/-- **`range` is topologically ordered**: on a valid order, every edge between two nodes listed by
`range(lo, hi)` goes from an earlier to a later place of that list. -/
theorem range_topological {v : View} {s : AState} (h : Inv2 v s) {lo hi : Bnd} {l : List Nat}
    (hr : s.om.range lo hi = some l) :
    ∀ a b, b ∈ v.succ a → a ∈ l → b ∈ l → l.idxOf a < l.idxOf b := by
  intro a b hab ha hb
  obtain ⟨_, hmem, _, hpw⟩ := range_spec h.1.1 hr
  obtain ⟨_, pa, hpa, _⟩ := (hmem a).mp ha
  obtain ⟨_, pb, hpb, _⟩ := (hmem b).mp hb
  have hlt : pa < pb := h.2.1 a b hab pa pb hpa hpb
  have hne : a ≠ b := by
    intro he; subst he
    rw [hpa] at hpb; cases hpb; omega
  rcases pairwise_idxOf hpw ha hb hne with h1 | h1
  · exact h1
  · have := h1 pb pa hpb hpa; omega

/-- the driver's specification function for `range` (`Dag.rangeSpec`), fed with the model's own
`nodes_iter` and any table of `get_position` answers that is right on the live nodes, IS the model's
`range` — so the exact comparison and the spec-level judgement of a `range` line coincide. -/
theorem range_eq_rangeSpec {L : List Nat} {om : OrderMap} (h : OMInv L om) {lo hi : Bnd} {l : List Nat}
    (pos : List (Nat × Nat)) (hpos : ∀ n ∈ L, ∀ p, om.getPos n = .ok p → pos.lookup n = some p)
    (hr : om.range lo hi = some l) : l = rangeSpec om.nodesIter pos lo.loOk hi.hiOk := by
  rw [range_some_eq hr]
  unfold rangeSpec OrderMap.nodesIter pmVals
  rw [List.filter_map]
  congr 1
  apply List.filter_congr
  intro e he
  obtain ⟨hn, hp⟩ := h.p2n_live e.1 e.2 he
  simp only [Function.comp, hpos e.2 hn e.1 (getPos_of_n2p hp)]

/-! ### a rejected insertion changes nothing — in any state -/

/-- `causal_cones`, whenever it returns: order map untouched, scratch sets clear before and after,
capacity only grows (no hypothesis on the state or the indices) -/
theorem causalCones_unchanged {v : View} {s s' : AState} {minN maxN : Nat} {c : Cones}
    (h : causalCones v s minN maxN = .ok (s', c)) :
    s'.om = s.om ∧ Clear s ∧ Clear s' ∧ s.cap ≤ s'.cap := by
  unfold causalCones at h
  split at h
  · cases h
  rename_i hclr
  have hclear : Clear s := by
    have : (!(s.disc.isEmpty && s.fin.isEmpty)) = false := by simpa using hclr
    exact isEmpty_and this
  split at h
  · cases h
  split at h
  · cases h
  simp only at h
  have hcap : s.cap ≤ (if s.cap < v.nb then v.nb else s.cap) := by split <;> omega
  generalize (if s.cap < v.nb then v.nb else s.cap) = cap at h hcap
  split at h
  · cases h
  · split at h
    · cases h
    rename_i hc1
    cases h
    exact ⟨rfl, hclear, isEmpty_and (by simpa using hc1), hcap⟩
  · split at h
    · cases h
    · cases h
    · split at h
      · cases h
      rename_i hc2
      cases h
      exact ⟨rfl, hclear, isEmpty_and (by simpa using hc2), hcap⟩

/-- **reject ⇒ unchanged, unconditionally**: whenever `try_add_edge` / `try_update_edge` returns
anything but "accepted" — `Err(SelfLoop)` or `Err(Cycle(_))` — the order map and both scratch bit
sets are exactly what they were; only the capacity of the scratch sets may have grown.  No invariant,
no liveness of `a`, `b`, no well-formedness of the view is assumed. -/
theorem reject_unchanged_any {v : View} {s s' : AState} {a b : Nat} {r : EdgeRes}
    (h : tryAddEdge v s a b = .ok (s', r)) (hrej : r ≠ .accepted) :
    s'.om = s.om ∧ s'.disc = s.disc ∧ s'.fin = s.fin ∧ s.cap ≤ s'.cap := by
  unfold tryAddEdge at h
  split at h
  · cases h; exact ⟨rfl, rfl, rfl, Nat.le_refl _⟩
  split at h
  · cases h
  · rename_i s1 hu
    cases h
    unfold updateOrdering at hu
    split at hu
    · cases hu
    split at hu
    · cases hu
    split at hu
    · cases hu
    split at hu
    · cases hu
    · rename_i s2 hcc
      cases hu
      obtain ⟨h1, h2, h3, h4⟩ := causalCones_unchanged hcc
      exact ⟨h1, by rw [h3.1, h2.1], by rw [h3.2, h2.2], h4⟩
    · simp only at hu
      split at hu
      · cases hu
      split at hu <;> cases hu
  · split at h
    · cases h; exact absurd rfl hrej
    · cases h

/-! ### insertions with an absent endpoint -/

/-- an insertion naming an absent endpoint is never accepted: the model either reports the panic of
the inner `add_edge` / `update_edge` (or an earlier one) or rejects — and then nothing changed -/
theorem absent_never_accepted {v : View} {s s' : AState} {a b : Nat} {r : EdgeRes}
    (habs : a ∉ v.g.nodes ∨ b ∉ v.g.nodes) (h : tryAddEdge v s a b = .ok (s', r)) :
    r ≠ .accepted ∧ s'.om = s.om ∧ s'.disc = s.disc ∧ s'.fin = s.fin ∧ s.cap ≤ s'.cap := by
  have hrej : r ≠ .accepted := by
    intro hacc
    subst hacc
    have h0 := h
    unfold tryAddEdge at h
    split at h
    · cases h
    split at h
    · cases h
    · cases h
    · split at h
      · rename_i hl
        simp only [Bool.and_eq_true] at hl
        rcases habs with ha | hb
        · exact ha ((live_iff v a).mp hl.1)
        · exact hb ((live_iff v b).mp hl.2)
      · cases h
  exact ⟨hrej, reject_unchanged_any h hrej⟩

/-- the shape of a returning call with an absent endpoint: `Err(SelfLoop)` (then `a = b`) or
`Err(Cycle(b))` -/
theorem absent_source_shape {v : View} {s s' : AState} {a b : Nat} {r : EdgeRes}
    (habs : a ∉ v.g.nodes ∨ b ∉ v.g.nodes) (h : tryAddEdge v s a b = .ok (s', r)) :
    (r = .selfLoop ∧ a = b ∧ s' = s) ∨ (r = .cycle b ∧ a ≠ b) := by
  have hrej := (absent_never_accepted habs h).1
  unfold tryAddEdge at h
  split at h
  · rename_i hab; cases h; exact Or.inl ⟨rfl, hab, rfl⟩
  rename_i hab
  split at h
  · cases h
  · cases h; exact Or.inr ⟨rfl, hab⟩
  · split at h
    · cases h; exact absurd rfl hrej
    · cases h

/-- the search from a node without neighbours never reports a cycle -/
theorem dfsV_leaf_no_cycle (v : View) (om : OrderMap) (cap : Nat) (dir : Dir) (minP maxP f u : Nat) (s : DS)
    (hleaf : nbrs dir v u = []) : (dfsV v om cap dir minP maxP f u s).2 ≠ .cycle := by
  cases f with
  | zero => simp [dfsV]
  | succ f =>
    simp only [dfsV]
    split
    · simp
    split
    · simp
    split
    · simp
    rw [hleaf]
    cases f with
    | zero => simp [dfsN]
    | succ f => simp [dfsN]

/-- **an absent TARGET always panics** (as documented): with `b` not live and `a ≠ b`, the model's
`try_add_edge(a, b)` never returns — it ends in one of the mirrored panics (`get_position` out of
bounds, a bit-set bound check, a `debug_assert!`, or the inner `add_edge`).  Needs only that an
absent index has no successors in the view. -/
theorem absent_target_panics {v : View} (s : AState) {a b : Nat} (hb : b ∉ v.g.nodes) (hab : a ≠ b)
    (hdead : v.succ b = []) : ∃ e, tryAddEdge v s a b = .error e := by
  cases hres : tryAddEdge v s a b with
  | error e => exact ⟨e, rfl⟩
  | ok sr =>
    exfalso
    obtain ⟨s', r⟩ := sr
    rcases absent_source_shape (Or.inr hb) hres with ⟨_, h, _⟩ | ⟨hr, _⟩
    · exact hab h
    · subst hr
      unfold tryAddEdge at hres
      simp only [hab, ↓reduceIte] at hres
      split at hres
      · cases hres
      · rename_i s1 hu
        -- `update_ordering` answered `Err(Cycle)`: only through a cycle found by the future cone of `b`
        unfold updateOrdering at hu
        split at hu
        · cases hu
        split at hu
        · cases hu
        split at hu
        · cases hu
        split at hu
        · cases hu
        · rename_i s2 hcc
          unfold causalCones at hcc
          split at hcc
          · cases hcc
          split at hcc
          · cases hcc
          split at hcc
          · cases hcc
          simp only at hcc
          split at hcc
          · cases hcc
          · rename_i d1 heq
            have hnc := fun mn mx => dfsV_leaf_no_cycle v s.om (if s.cap < v.nb then v.nb else s.cap) .fut mn mx
              (dfsFuel v) b {} (by simpa [nbrs] using hdead)
            exact hnc _ _ (congrArg Prod.snd heq)
          · split at hcc
            · cases hcc
            · cases hcc
            · split at hcc <;> cases hcc
        · simp only at hu
          split at hu
          · cases hu
          split at hu <;> cases hu
      · split at hres <;> cases hres

end PetgraphModel.AcyW4
