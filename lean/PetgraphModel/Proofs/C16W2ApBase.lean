import PetgraphModel.Proofs.C16W2ApInv
/-
C16, second wave — articulation points, Part I (c): the invariant is preserved by a `base` step.
-/
namespace PetgraphModel.C16P.W2Ap
open PetgraphModel MGraph C16M

theorem finished_base {c : Nat} {P R : List Nat} {rest : List (Nat × FS)} {st : AP} {x : Nat}
    (hc : c ∉ st.visited) (h : Finished ((c, .run P R) :: rest) (stBase st c) x) :
    x ≠ c ∧ Finished ((c, .pend) :: rest) st x := by
  have hxc : x ≠ c := by
    intro hxc; subst hxc
    have := h.2 _ (List.mem_cons_self ..)
    cases this
  refine ⟨hxc, ?_, ?_⟩
  · have := h.1
    simp only [vis_stBase, List.mem_cons] at this
    rcases this with h' | h'
    · exact (hxc h').elim
    · exact h'
  · intro s hs
    cases List.mem_cons.mp hs with
    | inl h' => cases h'; exact (hxc rfl).elim
    | inr h' => exact h.2 s (List.mem_cons_of_mem _ h')

theorem folded_base {c : Nat} {P R : List Nat} {rest : List (Nat × FS)} {st : AP} {x : Nat}
    (h : Folded ((c, .run P R) :: rest) (stBase st c) x) :
    x ≠ c ∧ Folded ((c, .pend) :: rest) st x := by
  have hxc : x ≠ c := by
    intro hxc; subst hxc
    exact h.2 _ (List.mem_cons_self ..)
  refine ⟨hxc, ?_, ?_⟩
  · have := h.1
    simp only [vis_stBase, List.mem_cons] at this
    rcases this with h' | h'
    · exact (hxc h').elim
    · exact h'
  · intro s hs
    cases List.mem_cons.mp hs with
    | inl h' => cases h'; exact (hxc rfl).elim
    | inr h' => exact h.2 s (List.mem_cons_of_mem _ h')

theorem core_base (v : View) (hi : IndexOk v) (c : Nat) (rest : List (Nat × FS)) (st : AP)
    (C : Core v ((c, .pend) :: rest) st) :
    Core v ((c, .run [] (nbr v c).reverse) :: rest) (stBase st c) := by
  have hcv : Valid v c := C.gvalid c _ (List.mem_cons_self ..)
  obtain ⟨hnb, hdl, hll, hpl⟩ := C.lt_nb hi hcv
  have hcu : c ∉ st.visited := C.pend_unvis c (List.mem_cons_self ..)
  have hdO : ∀ j, dO (stBase st c) j = if j = c then some st.time else dO st j := fun j => dO_stBase st c j hdl
  have hdN : ∀ j, dN (stBase st c) j = if j = c then st.time else dN st j := fun j => dN_stBase st c j hdl
  have hrun : ∀ u s, (u, s) ∈ rest → ∃ P R, s = .run P R := chain_tail_run st rest _ C.chain
  have hcr : ∀ s, (c, s) ∉ rest := C.head_notin
  have hdNv : ∀ j, j ∈ st.visited → dN (stBase st c) j = dN st j := by
    intro j hj; rw [hdN]; rw [if_neg]; intro h; subst h; exact hcu hj
  have hanc : ∀ u x, Anc st u x → Anc (stBase st c) u x := fun u x h => anc_mono (st := st) (st' := stBase st c) (fun _ _ h => h) h
  refine
    { tab := ⟨C.tab.nb, by simp [stBase, C.tab.low], by simp [stBase, C.tab.disc], C.tab.parent, ?_⟩
      gvalid := ?_, gnodup := by simpa using C.gnodup, disc_vis := ?_, disc_lt := ?_, disc_inj := ?_,
      par_vis := ?_, par_lt := ?_, par_unvis := ?_, chain := chain_head_state _ _ _ _ _ (chain_congr st (stBase st c) _ (fun _ _ _ => rfl) C.chain),
      pend_unvis := ?_, nonpend_vis := ?_, run_split := ?_, proc_vis := ?_, done_vis := ?_,
      desc := ?_, done_desc := ?_ }
  · intro i hi'
    cases List.mem_cons.mp hi' with
    | inl h => exact h ▸ hcv
    | inr h => exact C.tab.visited i h
  · intro u s hm
    cases List.mem_cons.mp hm with
    | inl h => cases h; exact hcv
    | inr h => exact C.gvalid u s (List.mem_cons_of_mem _ h)
  · intro i
    rw [vis_stBase, hdO, List.mem_cons]
    by_cases hic : i = c
    · simp [hic]
    · simp [hic, C.disc_vis i]
  · intro i d
    rw [hdO, time_stBase]
    split
    · intro h; cases h; omega
    · intro h; have := C.disc_lt i d h; omega
  · intro i j d
    rw [hdO, hdO]
    split <;> split
    · intro _ _; subst_vars; rfl
    · intro h1 h2; cases h1; have := C.disc_lt j _ h2; omega
    · intro h1 h2; cases h2; have := C.disc_lt i _ h1; omega
    · exact C.disc_inj i j d
  · intro i p hp
    have := C.par_vis i p hp
    exact ⟨List.mem_cons_of_mem _ this.1, this.2⟩
  · intro i p hp hiv
    have hpv := (C.par_vis i p hp).1
    rw [hdNv p hpv, hdN]
    split
    · exact C.dN_lt hpv
    · rename_i hic
      cases List.mem_cons.mp hiv with
      | inl h => exact (hic h).elim
      | inr h => exact C.par_lt i p hp h
  · intro i p hp hiv
    simp only [vis_stBase, List.mem_cons, not_or] at hiv
    obtain ⟨r', hr'⟩ := C.par_unvis i p hp hiv.2
    cases hr'
    exact (hiv.1 rfl).elim
  · intro u hm
    cases List.mem_cons.mp hm with
    | inl h => cases h
    | inr h => obtain ⟨P, R, h'⟩ := hrun u _ h; cases h'
  · intro u s hm hs
    cases List.mem_cons.mp hm with
    | inl h => cases h; exact List.mem_cons_self ..
    | inr h => exact List.mem_cons_of_mem _ (C.nonpend_vis u s (List.mem_cons_of_mem _ h) hs)
  · intro u P R hm
    cases List.mem_cons.mp hm with
    | inl h => cases h; rfl
    | inr h => exact C.run_split u P R (List.mem_cons_of_mem _ h)
  · intro u P R w hm hw
    cases List.mem_cons.mp hm with
    | inl h => cases h; cases hw
    | inr h =>
      rcases C.proc_vis u P R w (List.mem_cons_of_mem _ h) hw with h' | h'
      · exact Or.inl (List.mem_cons_of_mem _ h')
      · cases List.mem_cons.mp h' with
        | inl h'' => cases h''; exact Or.inl (List.mem_cons_self ..)
        | inr h'' => obtain ⟨P', R', h3⟩ := hrun w _ h''; cases h3
  · intro x w hf hw
    obtain ⟨_, hf'⟩ := finished_base hcu hf
    exact List.mem_cons_of_mem _ (C.done_vis x w hf' hw)
  · intro x u s hx hm hu hle
    apply hanc
    by_cases hxc : x = c
    · subst hxc
      cases List.mem_cons.mp hm with
      | inl h => cases h; exact Anc.refl _
      | inr h => exact chain_anc st rest x .pend C.chain u s (List.mem_cons_of_mem _ h)
    · have hxv : x ∈ st.visited := by
        cases List.mem_cons.mp hx with
        | inl h => exact (hxc h).elim
        | inr h => exact h
      cases List.mem_cons.mp hm with
      | inl h =>
        cases h
        rw [hdN, hdN, if_pos rfl, if_neg hxc] at hle
        have := C.dN_lt hxv
        omega
      | inr h =>
        have huc : u ≠ c := fun h' => hcr s (h' ▸ h)
        have huv : u ∈ st.visited := by
          cases List.mem_cons.mp hu with
          | inl h' => exact (huc h').elim
          | inr h' => exact h'
        rw [hdNv u huv, hdNv x hxv] at hle
        exact C.desc x u s hxv (List.mem_cons_of_mem _ h) huv hle
  · intro x w hf hw hlt
    obtain ⟨hxc, hf'⟩ := finished_base hcu hf
    have hwv := C.done_vis x w hf' hw
    rw [hdNv x hf'.1, hdNv w hwv] at hlt
    exact hanc _ _ (C.done_desc x w hf' hw hlt)

theorem folded_base_mk {c : Nat} {P R : List Nat} {rest : List (Nat × FS)} {st : AP} {x : Nat}
    (h : Folded ((c, .pend) :: rest) st x) : Folded ((c, .run P R) :: rest) (stBase st c) x := by
  refine ⟨List.mem_cons_of_mem _ h.1, ?_⟩
  intro s hs
  cases List.mem_cons.mp hs with
  | inl h' => cases h'; exact h.2 _ (List.mem_cons_self ..)
  | inr h' => exact h.2 s (List.mem_cons_of_mem _ h')

theorem low_base (v : View) (hi : IndexOk v) (c : Nat) (rest : List (Nat × FS)) (st : AP)
    (C : Core v ((c, .pend) :: rest) st) (L : LowInv v ((c, .pend) :: rest) st) :
    LowInv v ((c, .run [] (nbr v c).reverse) :: rest) (stBase st c) := by
  have hcv : Valid v c := C.gvalid c _ (List.mem_cons_self ..)
  obtain ⟨hnb, hdl, hll, hpl⟩ := C.lt_nb hi hcv
  have hcu : c ∉ st.visited := C.pend_unvis c (List.mem_cons_self ..)
  have hlO : ∀ j, lO (stBase st c) j = if j = c then some st.time else lO st j := fun j => lO_stBase st c j hll
  have hdN : ∀ j, dN (stBase st c) j = if j = c then st.time else dN st j := fun j => dN_stBase st c j hdl
  have hlN : ∀ j, lN (stBase st c) j = if j = c then st.time else lN st j := fun j => lN_stBase st c j hll
  have hcr : ∀ s, (c, s) ∉ rest := C.head_notin
  have hne : ∀ j, j ∈ st.visited → j ≠ c := fun j hj h => hcu (h ▸ hj)
  have hdNv : ∀ j, j ∈ st.visited → dN (stBase st c) j = dN st j := by
    intro j hj; rw [hdN, if_neg (hne j hj)]
  have hlNv : ∀ j, j ∈ st.visited → lN (stBase st c) j = lN st j := by
    intro j hj; rw [hlN, if_neg (hne j hj)]
  refine { low_le := ?_, proc_low := ?_, done_low := ?_, low_fold := ?_, low_att := ?_ }
  · intro i hiv
    cases List.mem_cons.mp hiv with
    | inl h => subst h; exact ⟨st.time, by rw [hlO, if_pos rfl], by rw [hdN, if_pos rfl]; exact Nat.le_refl _⟩
    | inr h =>
      obtain ⟨l, h1, h2⟩ := L.low_le i h
      exact ⟨l, by rw [hlO, if_neg (hne i h)]; exact h1, by rw [hdNv i h]; exact h2⟩
  · intro u P R w hm hw hwv hwp
    cases List.mem_cons.mp hm with
    | inl h => cases h; cases hw
    | inr h =>
      have huv : u ∈ st.visited := C.nonpend_vis u _ (List.mem_cons_of_mem _ h) (by intro h'; cases h')
      rw [hlNv u huv]
      cases List.mem_cons.mp hwv with
      | inl h' =>
        subst h'
        rw [hdN, if_pos rfl]
        have := (L.lO_some huv).2
        have := C.dN_lt huv
        omega
      | inr h' =>
        rw [hdNv w h']
        exact L.proc_low u P R w (List.mem_cons_of_mem _ h) hw h' hwp
  · intro x w hf hw hwp
    obtain ⟨hxc, hf'⟩ := finished_base hcu hf
    have hwv := C.done_vis x w hf' hw
    rw [hlNv x hf'.1, hdNv w hwv]
    exact L.done_low x w hf' hw hwp
  · intro c' u hp hf
    obtain ⟨_, hf'⟩ := folded_base hf
    have huv := (C.par_vis c' u hp).1
    rw [hlNv u huv, hlNv c' hf'.1]
    exact L.low_fold c' u hp hf'
  · intro x hxv
    cases List.mem_cons.mp hxv with
    | inl h => subst h; left; rw [hlN, hdN, if_pos rfl, if_pos rfl]
    | inr h =>
      rw [hlNv x h, hdNv x h]
      rcases L.low_att x h with h1 | ⟨w, hw, hwv, h1⟩ | ⟨c', hc', hf, h1⟩
      · exact Or.inl h1
      · exact Or.inr (Or.inl ⟨w, hw, List.mem_cons_of_mem _ hwv, by rw [hdNv w hwv]; exact h1⟩)
      · exact Or.inr (Or.inr ⟨c', hc', folded_base_mk hf, by rw [hlNv c' hf.1]; exact h1⟩)

theorem aps_base (v : View) (hi : IndexOk v) (c : Nat) (rest : List (Nat × FS)) (st : AP)
    (C : Core v ((c, .pend) :: rest) st) (A : ApsInv ((c, .pend) :: rest) st) :
    ApsInv ((c, .run [] (nbr v c).reverse) :: rest) (stBase st c) := by
  have hcv : Valid v c := C.gvalid c _ (List.mem_cons_self ..)
  obtain ⟨hnb, hdl, hll, hpl⟩ := C.lt_nb hi hcv
  have hcu : c ∉ st.visited := C.pend_unvis c (List.mem_cons_self ..)
  have hdN : ∀ j, dN (stBase st c) j = if j = c then st.time else dN st j := fun j => dN_stBase st c j hdl
  have hlN : ∀ j, lN (stBase st c) j = if j = c then st.time else lN st j := fun j => lN_stBase st c j hll
  have hne : ∀ j, j ∈ st.visited → j ≠ c := fun j hj h => hcu (h ▸ hj)
  have hdNv : ∀ j, j ∈ st.visited → dN (stBase st c) j = dN st j := by
    intro j hj; rw [hdN, if_neg (hne j hj)]
  have hlNv : ∀ j, j ∈ st.visited → lN (stBase st c) j = lN st j := by
    intro j hj; rw [hlN, if_neg (hne j hj)]
  refine { aps_vis := ?_, aps_sound := ?_, aps_nonroot := ?_, aps_root := ?_ }
  · intro i hia
    exact List.mem_cons_of_mem _ (A.aps_vis i hia)
  · intro i hia
    rcases A.aps_sound i hia with ⟨q, c', h1, h2, h3, h4⟩ | h
    · left
      refine ⟨q, c', h1, h2, folded_base_mk h3, ?_⟩
      rw [hdNv i (A.aps_vis i hia), hlNv c' h3.1]; exact h4
    · exact Or.inr h
  · intro u q c' h1 h2 hf hle
    obtain ⟨_, hf'⟩ := folded_base hf
    have huv := (C.par_vis c' u h2).1
    rw [hdNv u huv, hlNv c' hf'.1] at hle
    exact A.aps_nonroot u q c' h1 h2 hf' hle
  · intro r c1 c2 h0 hf hne' h1 h2
    obtain ⟨_, hf'⟩ := finished_base hcu hf
    exact A.aps_root r c1 c2 h0 hf' hne' h1 h2

theorem inv_base (v : View) (hi : IndexOk v) (c : Nat) (rest : List (Nat × FS)) (st : AP)
    (I : Inv v ((c, .pend) :: rest) st) :
    Inv v ((c, .run [] (nbr v c).reverse) :: rest) (stBase st c) :=
  ⟨core_base v hi c rest st I.core, low_base v hi c rest st I.core I.low, aps_base v hi c rest st I.core I.aps⟩

end PetgraphModel.C16P.W2Ap
