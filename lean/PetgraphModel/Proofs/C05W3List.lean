import PetgraphModel.Proofs.AdjList
/-
C05, wave 3 — `adj::List` whole-graph iteration (`edge_count`, `edge_indices`, `edge_references`,
`IntoEdges::edges`, `node_indices`) against the insertion log `ML`, and the index-type wrap of `add_node*`
(finding D31, repaired by commit 8cab180: `add_node*` at the capacity is the documented panic).
-/
set_option linter.style.nameCheck false
namespace PetgraphModel.AdjProofs
open PetgraphModel.AdjM PetgraphModel.AppendSpec

/-- the `EdgeReference` the log prescribes for an edge: `(source, successor_index, target, weight)` -/
def refOf (e : MEdge) : ERef := (e.src, e.id.2, e.tgt, e.w)

/-! ### the rows of a represented state, as one list -/

theorem LAbs.suc_eq {s : State} {g : ML} (h : LAbs s g) : s.suc = (List.range g.n).map (rowOf g) := by
  apply List.ext_getElem?
  intro a
  by_cases ha : a < g.n
  · rw [h.rows a ha, List.getElem?_map, List.getElem?_range ha]; rfl
  · rw [List.getElem?_eq_none (by rw [← h.n]; omega), List.getElem?_eq_none (by simp; omega)]

/-! ### the two row-by-row loops over `(range' i k).map f` -/

theorem edgeRefsLoop_map (m : Nat) (f : Nat → Row) (k i : Nat) :
    edgeRefsLoop m i ((List.range' i k).map f) =
      (List.range' i k).flatMap fun a => rowRefs (mkIx m a) 0 (f a) := by
  induction k generalizing i with
  | zero => rfl
  | succ k ih =>
    simp only [List.range'_succ, List.map_cons, edgeRefsLoop, List.flatMap_cons]
    rw [ih]

theorem edgeIndicesLoop_map (m : Nat) (f : Nat → Row) (k i : Nat) :
    edgeIndicesLoop m i ((List.range' i k).map f) =
      (List.range' i k).flatMap fun a => rowIndices (mkIx m a) (f a) := by
  induction k generalizing i with
  | zero => rfl
  | succ k ih =>
    simp only [List.range'_succ, List.map_cons, edgeIndicesLoop, List.flatMap_cons]
    rw [ih]

theorem flatMap_congr_mem {α β : Type} (l : List α) (f1 f2 : α → List β) (h : ∀ a ∈ l, f1 a = f2 a) :
    l.flatMap f1 = l.flatMap f2 := by
  induction l with
  | nil => rfl
  | cons x xs ih =>
    simp only [List.flatMap_cons]
    rw [h x (List.mem_cons_self ..), ih (fun a ha => h a (List.mem_cons_of_mem _ ha))]

/-! ### one row -/

theorem rowRefs_map (src : Nat) (L : List MEdge) (i : Nat)
    (hid : ∀ j (hj : j < L.length), L[j].id.2 = i + j) :
    rowRefs src i (L.map fun e => (e.tgt, e.w)) = L.map fun e => (src, e.id.2, e.tgt, e.w) := by
  induction L generalizing i with
  | nil => rfl
  | cons x xs ih =>
    simp only [List.map_cons, rowRefs]
    have h0 := hid 0 (by simp)
    simp only [List.getElem_cons_zero, Nat.add_zero] at h0
    rw [ih (i + 1) (fun j hj => by
      have := hid (j + 1) (by simp; omega)
      simp only [List.getElem_cons_succ] at this
      omega), h0]

theorem LAbs.rowRefs_rowOf {s : State} {g : ML} (h : LAbs s g) (a : Nat) :
    rowRefs a 0 (rowOf g a) = (g.outOf a).map refOf := by
  unfold rowOf
  rw [rowRefs_map a (g.outOf a) 0 (fun j hj => by rw [h.id_at a j hj]; simp)]
  apply List.map_congr_left
  intro e he
  simp only [refOf, ((mem_outOf g a e).mp he).2]

theorem LAbs.rowIndices_rowOf {s : State} {g : ML} (h : LAbs s g) (a : Nat) :
    rowIndices a (rowOf g a) = (g.outOf a).map (·.id) := by
  unfold rowIndices
  rw [rowOf_length, h.ids a]

/-! ### the log, grouped by source, is a permutation of the log -/

theorem grouped_perm (n : Nat) (L : List MEdge) (h : ∀ e ∈ L, e.src < n) :
    ((List.range n).flatMap fun a => L.filter fun e => e.src == a).Perm L := by
  induction n generalizing L with
  | zero =>
    cases L with
    | nil => exact List.Perm.refl _
    | cons e es => exact absurd (h e (List.mem_cons_self ..)) (Nat.not_lt_zero _)
  | succ n ih =>
    rw [List.range_succ, List.flatMap_append]
    simp only [List.flatMap_cons, List.flatMap_nil, List.append_nil]
    let L' := L.filter fun e => !(e.src == n)
    have hL' : ∀ e ∈ L', e.src < n := by
      intro e he
      have h1 := List.mem_filter.mp he
      have h2 := h e h1.1
      have h3 : e.src ≠ n := by simpa using h1.2
      omega
    have hsame : ((List.range n).flatMap fun a => L.filter fun e => e.src == a) =
        ((List.range n).flatMap fun a => L'.filter fun e => e.src == a) := by
      apply flatMap_congr_mem
      intro a ha
      have han : a < n := List.mem_range.mp ha
      show _ = (L.filter _).filter _
      rw [List.filter_filter]
      apply List.filter_congr
      intro e _
      by_cases hea : e.src = a
      · simp [hea]
        omega
      · simp [hea]
    rw [hsame]
    have h1 := (ih L' hL').append_right (L.filter fun e => e.src == n)
    refine h1.trans ?_
    have h2 := List.filter_append_perm (fun e : MEdge => !(e.src == n)) L
    have h3 : (L.filter fun e => !(!(e.src == n))) = L.filter fun e => e.src == n := by
      apply List.filter_congr; intro e _; simp
    rw [h3] at h2
    exact h2

theorem LAbs.grouped_perm {s : State} {g : ML} (h : LAbs s g) :
    ((List.range g.n).flatMap g.outOf).Perm g.edges :=
  AdjProofs.grouped_perm g.n g.edges h.src

theorem sum_map_length_flatMap {α β : Type} (l : List α) (f : α → List β) :
    (l.flatMap f).length = (l.map fun a => (f a).length).sum := by
  induction l with
  | nil => rfl
  | cons x xs ih => simp only [List.flatMap_cons, List.length_append, List.map_cons, List.sum_cons, ih]

/-- `edge_count()` (the sum of the row lengths) is the length of the insertion log -/
theorem LAbs.edgeCount {s : State} {g : ML} (h : LAbs s g) : s.edgeCount = g.edges.length := by
  rw [← h.grouped_perm.length_eq, sum_map_length_flatMap]
  unfold State.edgeCount
  rw [h.suc_eq, List.map_map]
  congr 1
  apply List.map_congr_left
  intro a _
  simp [rowOf_length]

/-! ### whole-graph iteration -/

/-- `edge_references()`, `edge_indices()`, `node_indices()` without any capacity assumption: the row index is
passed through `Ix::new` -/
theorem LAbs.iteration_raw {s : State} {g : ML} (h : LAbs s g) :
    edgeReferences s = ((List.range g.n).flatMap fun a =>
      (g.outOf a).map fun e => (mkIx s.modulus a, e.id.2, e.tgt, e.w)) ∧
    edgeIndices s = ((List.range g.n).flatMap fun a =>
      (g.outOf a).map fun e => (mkIx s.modulus a, e.id.2)) ∧
    nodeIndices s = (List.range g.n).map (mkIx s.modulus) := by
  refine ⟨?_, ?_, ?_⟩
  · unfold edgeReferences
    rw [h.suc_eq, List.range_eq_range', edgeRefsLoop_map]
    apply flatMap_congr_mem
    intro a _
    unfold rowOf
    rw [rowRefs_map _ (g.outOf a) 0 (fun j hj => by rw [h.id_at a j hj]; simp)]
  · unfold edgeIndices
    rw [h.suc_eq, List.range_eq_range', edgeIndicesLoop_map]
    apply flatMap_congr_mem
    intro a _
    unfold rowIndices
    rw [rowOf_length]
    apply List.ext_getElem (by simp)
    intro j h1 h2
    have hj : j < (g.outOf a).length := by simpa using h1
    simp [h.id_at a j hj]
  · unfold nodeIndices; rw [← h.n]

/-- within the capacity of the index type: `edge_references()` is the log grouped by source (sources ascending,
insertion order within a source), `edge_indices()` the corresponding indices, `node_indices()` is `0..n`. -/
theorem LAbs.iteration {s : State} {g : ML} (h : LAbs s g) (hcap : s.modulus = 0 ∨ g.n ≤ s.modulus) :
    edgeReferences s = ((List.range g.n).flatMap fun a => (g.outOf a).map refOf) ∧
    edgeIndices s = ((List.range g.n).flatMap fun a => (g.outOf a).map (·.id)) ∧
    nodeIndices s = List.range g.n := by
  have hmk : ∀ a ∈ List.range g.n, mkIx s.modulus a = a := by
    intro a ha
    have han : a < g.n := List.mem_range.mp ha
    exact mkIx_of_fits _ _ (by omega)
  obtain ⟨h1, h2, h3⟩ := h.iteration_raw
  refine ⟨?_, ?_, ?_⟩
  · rw [h1]
    apply flatMap_congr_mem
    intro a ha
    rw [hmk a ha, ← h.rowRefs_rowOf a]
    unfold rowOf
    rw [rowRefs_map a (g.outOf a) 0 (fun j hj => by rw [h.id_at a j hj]; simp)]
  · rw [h2]
    apply flatMap_congr_mem
    intro a ha
    rw [hmk a ha]
    apply List.ext_getElem (by simp)
    intro j h1 h2
    have hj : j < (g.outOf a).length := by simpa using h1
    simp [h.id_at a j hj]
  · rw [h3]
    conv => rhs; rw [← List.map_id (List.range g.n)]
    apply List.map_congr_left
    intro a ha
    simp [hmk a ha]

/-- `IntoEdges::edges(a)` (no capacity assumption needed: the source of the references is `a` itself) -/
theorem LAbs.edgesOf {s : State} {g : ML} (h : LAbs s g) (a : Nat) :
    edgesOf s a = if a < g.n then some ((g.outOf a).map refOf) else none := by
  unfold AdjM.edgesOf
  by_cases ha : a < g.n
  · simp only [h.rows a ha, ha, if_true, Option.map_some, h.rowRefs_rowOf a]
  · have : s.suc[a]? = none := by apply List.getElem?_eq_none; rw [← h.n]; omega
    simp [this, ha]

/-! ### capacity along a history -/

/-- every call leaves the type parameter alone and changes the node count as `nAfterC` says -/
theorem step_shape (s : State) (op : Op) :
    (step s op).1.modulus = s.modulus ∧ (step s op).1.suc.length = nAfterC s.modulus s.suc.length op := by
  cases op with
  | addNode =>
    by_cases h : s.modulus = 0 ∨ s.suc.length < s.modulus
    · simp [step, AdjM.addNode, nextNodeIndex_fit s h, nAfterC, h]
    · simp [step, AdjM.addNode, nextNodeIndex_full s h, nAfterC, h]
  | addNodeFromEdges es =>
    by_cases h : s.modulus = 0 ∨ s.suc.length < s.modulus
    · simp [step, AdjM.addNodeFromEdges, nextNodeIndex_fit s h, nAfterC, h]
    · simp [step, AdjM.addNodeFromEdges, nextNodeIndex_full s h, nAfterC, h]
  | clear => exact ⟨rfl, rfl⟩
  | addEdge a b w =>
    simp only [step, AdjM.addEdge, nAfterC]
    split
    · rename_i h; split at h
      · cases h
      · split at h
        · cases h
        · injection h with h; injection h with h1 _; subst h1; simp
    · exact ⟨rfl, rfl⟩
  | updateEdge a b w =>
    simp only [step, AdjM.updateEdge, nAfterC]
    split
    · rename_i h; split at h
      · cases h
      · split at h
        · cases h
        · split at h
          · injection h with h; injection h with h1 _; subst h1; simp
          · injection h with h; injection h with h1 _; subst h1; simp
    · exact ⟨rfl, rfl⟩
  | setEdgeWeight e w =>
    simp only [step, AdjM.setEdgeWeight, nAfterC]
    split
    · rename_i h; split at h
      · cases h
      · split at h
        · cases h
        · injection h with h1; subst h1; simp
    · exact ⟨rfl, rfl⟩

theorem run_modulus (s : State) (ops : List Op) : (run s ops).1.modulus = s.modulus := by
  induction ops generalizing s with
  | nil => rfl
  | cons op ops ih =>
    show (run (step s op).1 ops).1.modulus = _
    rw [ih, (step_shape s op).1]

/-- no call takes the node count beyond the capacity of the index type -/
theorem nAfterC_cap (m n : Nat) (op : Op) (hc : m = 0 ∨ n ≤ m) : m = 0 ∨ nAfterC m n op ≤ m := by
  cases op with
  | addNode => simp only [nAfterC]; split <;> omega
  | addNodeFromEdges es => simp only [nAfterC]; split <;> omega
  | clear => simp only [nAfterC]; omega
  | addEdge a b w => exact hc
  | updateEdge a b w => exact hc
  | setEdgeWeight e w => exact hc

/-- **every** history that starts within the capacity of the index type ends within it (`add_node*` panic
rather than exceed it) -/
theorem run_cap (m : Nat) (ops : List Op) (g : ML) (hc : m = 0 ∨ g.n ≤ m) :
    m = 0 ∨ (specRun m g ops).1.n ≤ m := by
  induction ops generalizing g with
  | nil => exact hc
  | cons op ops ih =>
    show m = 0 ∨ (specRun m (specStep m g op).1 ops).1.n ≤ m
    apply ih
    rw [specStep_n]
    exact nAfterC_cap m g.n op hc

/-- **whole-graph iteration after every history** -/
theorem run_iteration (m : Nat) (ops : List Op) :
    let s := (run (AdjM.new m) ops).1
    let g := (specRun m {} ops).1
    s.edgeCount = g.edges.length ∧
    edgeReferences s = ((List.range g.n).flatMap fun a => (g.outOf a).map refOf) ∧
    edgeIndices s = ((List.range g.n).flatMap fun a => (g.outOf a).map (·.id)) ∧
    nodeIndices s = List.range g.n ∧
    (∀ a, AdjM.edgesOf s a = if a < g.n then some ((g.outOf a).map refOf) else none) ∧
    ((List.range g.n).flatMap g.outOf).Perm g.edges := by
  intro s g
  have habs : LAbs s g := (run_refines (new_abs m) ops).1
  have hcap : s.modulus = 0 ∨ g.n ≤ s.modulus := by
    have : s.modulus = m := run_modulus (AdjM.new m) ops
    rw [this]
    exact run_cap m ops {} (Or.inr (Nat.zero_le _))
  obtain ⟨h1, h2, h3⟩ := habs.iteration hcap
  exact ⟨habs.edgeCount, h1, h2, h3, habs.edgesOf, habs.grouped_perm⟩

/-! ### `add_node*` at the capacity of the index type (finding D31, repaired) -/

/-- **`add_node` / `add_node_with_capacity` / `Build::add_node` / `add_node_from_edges` and the capacity of the
index type, in every state.**  At the capacity (`modulus ≠ 0`, `modulus ≤ node_count`; `u8`: 256 nodes) each of
them panics — `none` — and the list is unchanged; below it the call succeeds, appends the row and returns the
FRESH index `node_count`, which fits the index type (`Ix::new` does not change it). -/
theorem addNode_capacity (s : State) (es : Row) :
    (¬ (s.modulus = 0 ∨ s.nodeCount < s.modulus) →
      AdjM.addNode s = none ∧ AdjM.addNodeFromEdges s es = none ∧
      step s .addNode = (s, .panic) ∧ step s (.addNodeFromEdges es) = (s, .panic)) ∧
    (s.modulus = 0 ∨ s.nodeCount < s.modulus →
      AdjM.addNode s = some ({ s with suc := s.suc ++ [[]] }, s.nodeCount) ∧
      AdjM.addNodeFromEdges s es = some ({ s with suc := s.suc ++ [es] }, s.nodeCount) ∧
      step s .addNode = ({ s with suc := s.suc ++ [[]] }, .ix s.nodeCount) ∧
      step s (.addNodeFromEdges es) = ({ s with suc := s.suc ++ [es] }, .ix s.nodeCount) ∧
      mkIx s.modulus s.nodeCount = s.nodeCount) := by
  unfold State.nodeCount
  refine ⟨fun h => ?_, fun h => ?_⟩
  · simp [step, AdjM.addNode, AdjM.addNodeFromEdges, nextNodeIndex_full s h]
  · simp [step, AdjM.addNode, AdjM.addNodeFromEdges, nextNodeIndex_fit s h, mkIx_of_fits _ _ h]

/-- the node index an answer carries, if it is one -/
def outIx : Out → Option Nat
  | .ix i => some i
  | _ => none

/-- a returned node index is the node count at the time of the call and fits the index type -/
theorem step_ix (s : State) (op : Op) (i : Nat) (h : outIx (step s op).2 = some i) :
    (s.modulus = 0 ∨ i < s.modulus) ∧ i = s.suc.length := by
  cases op with
  | addNode =>
    by_cases hf : s.modulus = 0 ∨ s.suc.length < s.modulus
    · simp only [step, AdjM.addNode, nextNodeIndex_fit s hf, mkIx_of_fits _ _ hf, outIx, Option.some.injEq] at h
      subst h; exact ⟨hf, rfl⟩
    · simp [step, AdjM.addNode, nextNodeIndex_full s hf, outIx] at h
  | addNodeFromEdges es =>
    by_cases hf : s.modulus = 0 ∨ s.suc.length < s.modulus
    · simp only [step, AdjM.addNodeFromEdges, nextNodeIndex_fit s hf, mkIx_of_fits _ _ hf, outIx,
        Option.some.injEq] at h
      subst h; exact ⟨hf, rfl⟩
    · simp [step, AdjM.addNodeFromEdges, nextNodeIndex_full s hf, outIx] at h
  | clear => simp [step, outIx] at h
  | addEdge a b w => simp only [step] at h; split at h <;> simp [outIx] at h
  | updateEdge a b w => simp only [step] at h; split at h <;> simp [outIx] at h
  | setEdgeWeight e w => simp only [step] at h; split at h <;> simp [outIx] at h

/-- **no wrap in any history**: along every history from a state whose node count is within the capacity of
the index type, the node count never exceeds the capacity and every node index an `add_node*` call returns fits
the index type (`< modulus`; it is the node count at the time of the call). -/
theorem run_no_wrap (s : State) (hc : s.modulus = 0 ∨ s.suc.length ≤ s.modulus) (ops : List Op) :
    (s.modulus = 0 ∨ (run s ops).1.nodeCount ≤ s.modulus) ∧
    ∀ i, some i ∈ (run s ops).2.map outIx → s.modulus = 0 ∨ i < s.modulus := by
  induction ops generalizing s with
  | nil => exact ⟨hc, by intro i hi; simp [run] at hi⟩
  | cons op ops ih =>
    obtain ⟨hm, hl⟩ := step_shape s op
    have hc1 : (step s op).1.modulus = 0 ∨ (step s op).1.suc.length ≤ (step s op).1.modulus := by
      rw [hm, hl]; exact nAfterC_cap _ _ op hc
    obtain ⟨ih1, ih2⟩ := ih (step s op).1 hc1
    rw [hm] at ih1 ih2
    refine ⟨by simpa [run] using ih1, ?_⟩
    intro i hi
    simp only [run, List.map_cons, List.mem_cons] at hi
    rcases hi with hi | hi
    · exact (step_ix s op i hi.symm).1
    · exact ih2 i hi

end PetgraphModel.AdjProofs
