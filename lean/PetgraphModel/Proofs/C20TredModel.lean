import PetgraphModel.Proofs.C20Base
import PetgraphModel.Proofs.C20Tred
import PetgraphModel.Model.C20
/-
C20 — correctness of the mirrored Habib–Morvan–Rampon marking algorithm
(`dag_transitive_reduction_closure`) on toposorted adjacency rows: the closure rows are exactly the
nodes reachable by ≥ 1 edge, the reduction rows exactly the covering pairs.
-/
namespace PetgraphModel.C20.Tred
open PetgraphModel PetgraphModel.MGraph

/-- reachability by ≥ 1 edge in the graph whose neighbour lists are `nb` -/
inductive R (nb : Nat → List Nat) : Nat → Nat → Prop
  | edge {a x : Nat} : x ∈ nb a → R nb a x
  | cons {a x y : Nat} : x ∈ nb a → R nb x y → R nb a y

theorem R_trans {nb : Nat → List Nat} {a b c : Nat} (h1 : R nb a b) (h2 : R nb b c) : R nb a c := by
  induction h1 with
  | edge hx => exact R.cons hx h2
  | cons hx _ ih => exact R.cons hx (ih h2)

theorem R_lt {nb : Nat → List Nat} (hts : ∀ j x, x ∈ nb j → j < x) {a b : Nat} (h : R nb a b) : a < b := by
  induction h with
  | edge hx => exact hts _ _ hx
  | cons hx _ ih => exact Nat.lt_trans (hts _ _ hx) ih

theorem R_head {nb : Nat → List Nat} {a y : Nat} : R nb a y ↔ ∃ x ∈ nb a, y = x ∨ R nb x y := by
  constructor
  · intro h
    cases h with
    | edge hx => exact ⟨y, hx, Or.inl rfl⟩
    | cons hx hr => exact ⟨_, hx, Or.inr hr⟩
  · rintro ⟨x, hx, h | h⟩
    · exact h ▸ R.edge hx
    · exact R.cons hx h

/-! ### the inner merge loop -/

theorem mergeRow_spec (l : List Nat) : ∀ (tc mark : List Nat),
    (∀ y, y ∈ (mergeRow l tc mark).1 ↔ y ∈ tc ∨ (y ∈ l ∧ y ∉ mark)) ∧
    (∀ y, y ∈ (mergeRow l tc mark).2 ↔ y ∈ mark ∨ y ∈ l) := by
  induction l with
  | nil => intro tc mark; simp [mergeRow]
  | cons a t ih =>
    intro tc mark
    unfold mergeRow
    simp only [List.foldl_cons]
    by_cases hc : mark.contains a = true
    · simp only [hc, if_true]
      have := ih tc mark
      unfold mergeRow at this
      have ha : a ∈ mark := by simpa using hc
      refine ⟨fun y => ?_, fun y => ?_⟩
      · rw [this.1 y]
        constructor
        · rintro (h | ⟨h1, h2⟩)
          · exact Or.inl h
          · exact Or.inr ⟨List.mem_cons_of_mem _ h1, h2⟩
        · rintro (h | ⟨h1, h2⟩)
          · exact Or.inl h
          · cases List.mem_cons.mp h1 with
            | inl e => exact absurd (e ▸ ha) h2
            | inr e => exact Or.inr ⟨e, h2⟩
      · rw [this.2 y]
        constructor
        · rintro (h | h)
          · exact Or.inl h
          · exact Or.inr (List.mem_cons_of_mem _ h)
        · rintro (h | h)
          · exact Or.inl h
          · cases List.mem_cons.mp h with
            | inl e => exact Or.inl (e ▸ ha)
            | inr e => exact Or.inr e
    · have hc' : mark.contains a = false := by simpa using hc
      simp only [hc', Bool.false_eq_true, if_false]
      have := ih (tc ++ [a]) (a :: mark)
      unfold mergeRow at this
      have ha : a ∉ mark := by simpa using hc'
      refine ⟨fun y => ?_, fun y => ?_⟩
      · rw [this.1 y]
        simp only [List.mem_append, List.mem_cons, List.not_mem_nil, or_false, not_or]
        constructor
        · rintro ((h | h) | ⟨h1, h2, h3⟩)
          · exact Or.inl h
          · exact Or.inr ⟨Or.inl h, h ▸ ha⟩
          · exact Or.inr ⟨Or.inr h1, h3⟩
        · rintro (h | ⟨h1 | h1, h2⟩)
          · exact Or.inl (Or.inl h)
          · exact Or.inl (Or.inr h1)
          · by_cases hya : y = a
            · exact Or.inl (Or.inr hya)
            · exact Or.inr ⟨h1, hya, h2⟩
      · rw [this.2 y]
        simp only [List.mem_cons]
        constructor
        · rintro ((h | h) | h)
          · exact Or.inr (Or.inl h)
          · exact Or.inl h
          · exact Or.inr (Or.inr h)
        · rintro (h | h | h)
          · exact Or.inl (Or.inr h)
          · exact Or.inl (Or.inl h)
          · exact Or.inr h

/-! ### the loop over the neighbours of one node -/

/-- invariant after the prefix `P` of the (ascending) neighbour list has been processed -/
structure RowInv (nb : Nat → List Nat) (P : List Nat) (st : List Nat × List Nat × List Nat) : Prop where
  mark : ∀ y, y ∈ st.2.2 ↔ ∃ x ∈ P, R nb x y
  clos : ∀ y, y ∈ st.2.1 ↔ ∃ x ∈ P, y = x ∨ R nb x y
  red : ∀ x, x ∈ st.1 ↔ x ∈ P ∧ ¬ ∃ x' ∈ P, R nb x' x

theorem rowStep_inv (nb : Nat → List Nat) (hts : ∀ j x, x ∈ nb j → j < x) (clos : Nat → List Nat)
    (P : List Nat) (st : List Nat × List Nat × List Nat) (x : Nat)
    (hclos : ∀ y, y ∈ clos x ↔ R nb x y) (hP : ∀ z ∈ P, z ≤ x) (hinv : RowInv nb P st) :
    RowInv nb (P ++ [x]) (rowStep clos st x) := by
  have hxx : ¬ R nb x x := fun h => Nat.lt_irrefl _ (R_lt hts h)
  have hxz : ∀ z ∈ P, ¬ R nb x z := fun z hz h => by have := R_lt hts h; have := hP z hz; omega
  unfold rowStep
  by_cases hm : st.2.2.contains x = true
  · simp only [hm, if_true]
    have hxm : x ∈ st.2.2 := by simpa using hm
    obtain ⟨x0, hx0, hr0⟩ := (hinv.mark x).mp hxm
    refine ⟨fun y => ?_, fun y => ?_, fun z => ?_⟩
    · rw [hinv.mark y]
      constructor
      · rintro ⟨w, hw, hr⟩; exact ⟨w, List.mem_append_left _ hw, hr⟩
      · rintro ⟨w, hw, hr⟩
        cases List.mem_append.mp hw with
        | inl e => exact ⟨w, e, hr⟩
        | inr e =>
          have : w = x := by simpa using e
          exact ⟨x0, hx0, R_trans hr0 (this ▸ hr)⟩
    · rw [hinv.clos y]
      constructor
      · rintro ⟨w, hw, hr⟩; exact ⟨w, List.mem_append_left _ hw, hr⟩
      · rintro ⟨w, hw, hr⟩
        cases List.mem_append.mp hw with
        | inl e => exact ⟨w, e, hr⟩
        | inr e =>
          have hwx : w = x := by simpa using e
          subst hwx
          cases hr with
          | inl e' => exact ⟨x0, hx0, Or.inr (e' ▸ hr0)⟩
          | inr e' => exact ⟨x0, hx0, Or.inr (R_trans hr0 e')⟩
    · rw [hinv.red z]
      constructor
      · rintro ⟨hz, hno⟩
        refine ⟨List.mem_append_left _ hz, ?_⟩
        rintro ⟨w, hw, hr⟩
        cases List.mem_append.mp hw with
        | inl e => exact hno ⟨w, e, hr⟩
        | inr e =>
          have : w = x := by simpa using e
          exact hxz z hz (this ▸ hr)
      · rintro ⟨hz, hno⟩
        cases List.mem_append.mp hz with
        | inl e => exact ⟨e, fun ⟨w, hw, hr⟩ => hno ⟨w, List.mem_append_left _ hw, hr⟩⟩
        | inr e =>
          have : z = x := by simpa using e
          exact absurd ⟨x0, List.mem_append_left _ hx0, this ▸ hr0⟩ hno
  · have hm' : st.2.2.contains x = false := by simpa using hm
    simp only [hm', Bool.false_eq_true, if_false]
    have hxm : x ∉ st.2.2 := by simpa using hm'
    have hnoP : ¬ ∃ x' ∈ P, R nb x' x := fun h => hxm ((hinv.mark x).mpr h)
    have hmr := mergeRow_spec (clos x) (st.2.1 ++ [x]) st.2.2
    refine ⟨fun y => ?_, fun y => ?_, fun z => ?_⟩
    · rw [hmr.2 y, hinv.mark y, hclos y]
      constructor
      · rintro (⟨w, hw, hr⟩ | h)
        · exact ⟨w, List.mem_append_left _ hw, hr⟩
        · exact ⟨x, by simp, h⟩
      · rintro ⟨w, hw, hr⟩
        cases List.mem_append.mp hw with
        | inl e => exact Or.inl ⟨w, e, hr⟩
        | inr e =>
          have : w = x := by simpa using e
          exact Or.inr (this ▸ hr)
    · rw [hmr.1 y]
      simp only [List.mem_append, List.mem_singleton]
      rw [hinv.clos y, hclos y]
      constructor
      · rintro ((⟨w, hw, hr⟩ | h) | ⟨h1, _⟩)
        · exact ⟨w, Or.inl hw, hr⟩
        · exact ⟨x, Or.inr rfl, Or.inl h⟩
        · exact ⟨x, Or.inr rfl, Or.inr h1⟩
      · rintro ⟨w, hw | hw, hr⟩
        · exact Or.inl (Or.inl ⟨w, hw, hr⟩)
        · subst hw
          cases hr with
          | inl e => exact Or.inl (Or.inr e)
          | inr e =>
            by_cases hym : y ∈ st.2.2
            · obtain ⟨w', hw', hr'⟩ := (hinv.mark y).mp hym
              exact Or.inl (Or.inl ⟨w', hw', Or.inr hr'⟩)
            · exact Or.inr ⟨e, hym⟩
    · simp only [List.mem_append, List.mem_singleton]
      rw [hinv.red z]
      constructor
      · rintro (⟨hz, hno⟩ | h)
        · refine ⟨Or.inl hz, ?_⟩
          rintro ⟨w, hw | hw, hr⟩
          · exact hno ⟨w, hw, hr⟩
          · exact hxz z hz (hw ▸ hr)
        · subst h
          refine ⟨Or.inr rfl, ?_⟩
          rintro ⟨w, hw | hw, hr⟩
          · exact hnoP ⟨w, hw, hr⟩
          · exact hxx (hw ▸ hr)
      · rintro ⟨hz | hz, hno⟩
        · exact Or.inl ⟨hz, fun ⟨w, hw, hr⟩ => hno ⟨w, Or.inl hw, hr⟩⟩
        · exact Or.inr hz

/-- `l` is ascending (as checked by `ascending`): every element of a prefix is ≤ the next one -/
theorem ascending_prefix : ∀ (P : List Nat) (x : Nat) (S : List Nat), ascending (P ++ x :: S) = true →
    ∀ z ∈ P, z ≤ x := by
  intro P
  induction P with
  | nil => intro x S _ z hz; cases hz
  | cons a t ih =>
    intro x S h z hz
    cases t with
    | nil =>
      simp only [List.cons_append, List.nil_append, ascending, Bool.and_eq_true, decide_eq_true_eq] at h
      have : z = a := by simpa using hz
      omega
    | cons b t' =>
      simp only [List.cons_append, ascending, Bool.and_eq_true, decide_eq_true_eq] at h
      have hrec := ih x S (by simpa using h.2)
      cases List.mem_cons.mp hz with
      | inl e => have := hrec b (by simp); omega
      | inr e => exact hrec z e

theorem foldl_rowStep_inv (nb : Nat → List Nat) (hts : ∀ j x, x ∈ nb j → j < x) (clos : Nat → List Nat) :
    ∀ (S P : List Nat) (st : List Nat × List Nat × List Nat), ascending (P ++ S) = true →
      (∀ x ∈ S, ∀ y, y ∈ clos x ↔ R nb x y) → RowInv nb P st →
      RowInv nb (P ++ S) (S.foldl (rowStep clos) st) := by
  intro S
  induction S with
  | nil => intro P st _ _ h; simpa using h
  | cons x t ih =>
    intro P st hasc hclos hinv
    simp only [List.foldl_cons]
    have hstep := rowStep_inv nb hts clos P st x (hclos x (by simp)) (ascending_prefix P x t hasc) hinv
    have := ih (P ++ [x]) _ (by simpa using hasc) (fun z hz => hclos z (by simp [hz])) hstep
    simpa using this

/-- the two rows computed for a node whose neighbour list is `row` -/
theorem rowFor_spec (nb : Nat → List Nat) (hts : ∀ j x, x ∈ nb j → j < x) (clos : Nat → List Nat)
    (i : Nat) (hasc : ascending (nb i) = true) (hclos : ∀ x ∈ nb i, ∀ y, y ∈ clos x ↔ R nb x y) :
    (∀ y, y ∈ (rowFor clos (nb i)).2 ↔ R nb i y) ∧
    (∀ x, x ∈ (rowFor clos (nb i)).1 ↔ x ∈ nb i ∧ ¬ ∃ w, R nb i w ∧ R nb w x) := by
  have hinv0 : RowInv nb [] ([], [], []) := ⟨by simp, by simp, by simp⟩
  have hinv := foldl_rowStep_inv nb hts clos (nb i) [] _ (by simpa using hasc) hclos hinv0
  simp only [List.nil_append] at hinv
  unfold rowFor
  refine ⟨fun y => ?_, fun x => ?_⟩
  · rw [hinv.clos y, R_head]
  · rw [hinv.red x]
    constructor
    · rintro ⟨hx, hno⟩
      refine ⟨hx, ?_⟩
      rintro ⟨w, hiw, hwx⟩
      obtain ⟨x', hx', h⟩ := R_head.mp hiw
      cases h with
      | inl e => exact hno ⟨x', hx', e ▸ hwx⟩
      | inr e => exact hno ⟨x', hx', R_trans e hwx⟩
    · rintro ⟨hx, hno⟩
      exact ⟨hx, fun ⟨x', hx', hr⟩ => hno ⟨x', R.edge hx', hr⟩⟩

/-! ### all nodes, last to first -/

theorem rcFrom_spec (nb : Nat → List Nat) (hts : ∀ j x, x ∈ nb j → j < x) (hasc : ∀ j, ascending (nb j) = true)
    (n : Nat) (hout : ∀ j, n ≤ j → nb j = []) :
    ∀ (rest : List (List Nat)) (i : Nat), i + rest.length = n → (∀ k, k < rest.length → rest.getD k [] = nb (i + k)) →
      (rcFrom i rest).1.length = rest.length ∧ (rcFrom i rest).2.length = rest.length ∧
      ∀ k, k < rest.length →
        (∀ y, y ∈ (rcFrom i rest).2.getD k [] ↔ R nb (i + k) y) ∧
        (∀ x, x ∈ (rcFrom i rest).1.getD k [] ↔ x ∈ nb (i + k) ∧ ¬ ∃ w, R nb (i + k) w ∧ R nb w x) := by
  intro rest
  induction rest with
  | nil => intro i _ _; simp [rcFrom]
  | cons row t ih =>
    intro i hlen hrows
    have hrow : row = nb i := by simpa using hrows 0 (by simp)
    have ih' := ih (i + 1) (by simp at hlen; omega) (fun k hk => by
      have := hrows (k + 1) (by simp; omega)
      simp only [List.getD_cons_succ] at this
      rw [this]; congr 1; omega)
    simp only [rcFrom]
    -- closure rows of the larger nodes are exact
    have hclos : ∀ x ∈ nb i, ∀ y,
        y ∈ (if i < x then (rcFrom (i + 1) t).2.getD (x - (i + 1)) [] else []) ↔ R nb x y := by
      intro x hx y
      have hix : i < x := hts i x hx
      simp only [hix, if_true]
      by_cases hxn : x < n
      · have hk : x - (i + 1) < t.length := by simp at hlen; omega
        have := (ih'.2.2 (x - (i + 1)) hk).1 y
        rw [this]
        have : i + 1 + (x - (i + 1)) = x := by omega
        rw [this]
      · have hnb : nb x = [] := hout x (by omega)
        have hge : (rcFrom (i + 1) t).2.length ≤ x - (i + 1) := by rw [ih'.2.1]; simp at hlen; omega
        have : (rcFrom (i + 1) t).2.getD (x - (i + 1)) [] = [] := by
          simp [List.getD, List.getElem?_eq_none hge]
        rw [this]
        constructor
        · intro h; cases h
        · intro h
          obtain ⟨x', hx', _⟩ := R_head.mp h
          rw [hnb] at hx'; cases hx'
    have hrf := rowFor_spec nb hts _ i (hasc i) hclos
    subst hrow
    refine ⟨by simp [ih'.1], by simp [ih'.2.1], ?_⟩
    intro k hk
    cases k with
    | zero => simpa using hrf
    | succ k =>
      have := ih'.2.2 k (by simp at hk; omega)
      simp only [List.getD_cons_succ]
      have e : i + (k + 1) = i + 1 + k := by omega
      rw [e]
      exact this

/-- **correctness of the mirrored `dag_transitive_reduction_closure`** on toposorted rows (every edge
goes to a larger index, neighbour lists ascending): closure row `i` = the nodes reachable from `i` by
≥ 1 edge, reduction row `i` = the neighbours `x` of `i` with no node strictly between `i` and `x` -/
theorem reductionClosure_spec (rows : List (List Nat))
    (hts : ∀ i x, x ∈ rows.getD i [] → i < x) (hasc : ∀ i, ascending (rows.getD i []) = true) :
    ∀ i, i < rows.length →
      (∀ y, y ∈ (reductionClosure rows).2.getD i [] ↔ R (fun j => rows.getD j []) i y) ∧
      (∀ x, x ∈ (reductionClosure rows).1.getD i [] ↔
        x ∈ rows.getD i [] ∧ ¬ ∃ w, R (fun j => rows.getD j []) i w ∧ R (fun j => rows.getD j []) w x) := by
  intro i hi
  have := rcFrom_spec (fun j => rows.getD j []) hts hasc rows.length
    (fun j hj => by simp [List.getD, List.getElem?_eq_none hj]) rows 0 (by simp) (fun k _ => by simp)
  have := this.2.2 i hi
  simpa [reductionClosure] using this

/-! ### in terms of the abstract graph -/

/-- the directed graph described by adjacency rows: an edge `i → x` for every `x` in row `i` -/
def rowsGraph (rows : List (List Nat)) : MGraph :=
  ⟨true, List.range rows.length,
    (List.range rows.length).flatMap fun i => (rows.getD i []).map fun x => ⟨0, i, x, 1⟩⟩

theorem rowsGraph_adj (rows : List (List Nat)) (i x : Nat) :
    (rowsGraph rows).Adj i x ↔ x ∈ rows.getD i [] := by
  unfold MGraph.Adj rowsGraph
  simp only [List.mem_flatMap, List.mem_range, List.mem_map]
  constructor
  · rintro ⟨e, ⟨j, _, y, hy, rfl⟩, h⟩
    rcases h with ⟨h1, h2⟩ | ⟨h0, _, _⟩
    · simp only at h1 h2
      subst h1; subst h2; exact hy
    · simp at h0
  · intro hx
    have hi : i < rows.length := by
      apply Classical.byContradiction
      intro hge
      have : rows.getD i [] = [] := by simp [List.getD, List.getElem?_eq_none (Nat.le_of_not_lt hge)]
      rw [this] at hx; cases hx
    exact ⟨⟨0, i, x, 1⟩, ⟨i, hi, x, hx, rfl⟩, Or.inl ⟨rfl, rfl⟩⟩

theorem R_iff_reach1 (rows : List (List Nat)) (a b : Nat) :
    R (fun j => rows.getD j []) a b ↔ Reach1 (rowsGraph rows) a b := by
  constructor
  · intro h
    induction h with
    | edge hx => exact Reach1.single ((rowsGraph_adj rows _ _).mpr hx)
    | cons hx _ ih => exact reach1_of_adj_reach ((rowsGraph_adj rows _ _).mpr hx) (reach1_to_reach ih)
  · intro h
    induction h with
    | single hadj => exact R.edge ((rowsGraph_adj rows _ _).mp hadj)
    | step _ hadj ih => exact R_trans ih (R.edge ((rowsGraph_adj rows _ _).mp hadj))

/-- `reductionClosure_spec` stated against `MGraph`: closure rows = `Reach1`, reduction rows = `Covers` -/
theorem reductionClosure_correct (rows : List (List Nat))
    (hts : ∀ i x, x ∈ rows.getD i [] → i < x) (hasc : ∀ i, ascending (rows.getD i []) = true)
    (i : Nat) (hi : i < rows.length) :
    (∀ y, y ∈ (reductionClosure rows).2.getD i [] ↔ Reach1 (rowsGraph rows) i y) ∧
    (∀ x, x ∈ (reductionClosure rows).1.getD i [] ↔ Covers (rowsGraph rows) i x) := by
  have := reductionClosure_spec rows hts hasc i hi
  refine ⟨fun y => by rw [this.1 y, R_iff_reach1], fun x => ?_⟩
  rw [this.2 x]
  unfold Covers
  constructor
  · rintro ⟨hx, hno⟩
    refine ⟨(R_iff_reach1 rows i x).mp (R.edge hx), ?_⟩
    rintro ⟨w, h1, h2⟩
    exact hno ⟨w, (R_iff_reach1 rows _ _).mpr h1, (R_iff_reach1 rows _ _).mpr h2⟩
  · rintro ⟨hr, hno⟩
    have hno' : ¬ ∃ w, R (fun j => rows.getD j []) i w ∧ R (fun j => rows.getD j []) w x :=
      fun ⟨w, h1, h2⟩ => hno ⟨w, (R_iff_reach1 rows _ _).mp h1, (R_iff_reach1 rows _ _).mp h2⟩
    obtain ⟨x', hx', h⟩ := R_head.mp ((R_iff_reach1 rows i x).mpr hr)
    cases h with
    | inl e => exact ⟨e ▸ hx', hno'⟩
    | inr e => exact absurd ⟨x', R.edge hx', e⟩ hno'

end PetgraphModel.C20.Tred
