import PetgraphModel.Proofs.C15W2JoinB
/-
C15 wave 2 — `find_join`, phase C (the `first_inner` entries of the outer vertices whose first inner
vertex became outer are redirected to the join), and the three phases put together on the arrays.
-/
namespace PetgraphModel.C15W2
open PetgraphModel PetgraphModel.C15 PetgraphModel.C15M PetgraphModel.C15P

theorem forIn_two_yield {α β : Type} (step : α → β → ForInStep β) (x y : α) (init b1 b2 : β)
    (h1 : step x init = .yield b1) (h2 : step y b1 = .yield b2) :
    (forIn (m := Id) [x, y] init (fun e st => pure (step e st))).run = b2 := by
  rw [List.forIn_cons]
  simp only [h1, pure_bind]
  rw [List.forIn_cons]
  simp only [h2, pure_bind, List.forIn_nil]
  rfl

section
variable (v : View) (lab : List Label) (join : Nat) (sB : GS)

structure FInv (i : Nat) (s : GS) : Prop where
  mate : s.mate = sB.mate
  label : s.label = sB.label
  fault : s.fault = false
  fiLen : s.fi.length = v.nb + 1
  fi : ∀ j, fiI s.fi j = if (j < i ∧ j ≠ v.nb ∧ (labI lab j).isOuter = true ∧
    (labI lab (fiI sB.fi j)).isOuter = true) then join else fiI sB.fi j

variable {v lab join sB}

theorem fixStep_spec (hlabLen : lab.length = v.nb + 1)
    (hbound : ∀ i, i ≠ v.nb → (labI lab i).isOuter = true → fiI sB.fi i ≤ v.nb)
    (i : Nat) (s : GS) (hi : i < v.nb + 1) (hI : FInv v lab join sB i s) :
    stepPost (FInv v lab join sB (i + 1)) (fun _ => False) (fixStep v lab join i s) := by
  have hsame : ∀ j, ¬ j = i → (j < i + 1 ↔ j < i) := by intro j hj; omega
  have hkeep : (¬ (i ≠ v.nb ∧ (labI lab i).isOuter = true ∧ (labI lab (fiI sB.fi i)).isOuter = true)) →
      FInv v lab join sB (i + 1) s := by
    intro hc
    refine ⟨hI.mate, hI.label, hI.fault, hI.fiLen, ?_⟩
    intro j
    rw [hI.fi j]
    by_cases hj : j = i
    · subst hj
      rw [if_neg (by omega), if_neg (fun h => hc ⟨h.2.1, h.2.2.1, h.2.2.2⟩)]
    · simp only [hsame j hj]
  unfold fixStep
  by_cases h1 : (i != v.nb) = true
  · rw [if_pos h1]
    have h1' : i ≠ v.nb := by simpa using h1
    have hg : lab.getD i Label.none = labI lab i := by
      unfold labI; rw [List.getD_eq_getElem?_getD]
    rw [hg]
    by_cases h2 : (labI lab i).isOuter = true
    · rw [if_pos h2]
      have hfi : fiI s.fi i = fiI sB.fi i := by rw [hI.fi i, if_neg (by omega)]
      rw [getFi_eq s i (by rw [hI.fiLen]; exact hi), hfi]
      simp only [flt_false]
      have hb := hbound i h1' h2
      have hl : lab[fiI sB.fi i]? = some (labI lab (fiI sB.fi i)) := by
        unfold labI
        rw [List.getElem?_eq_getElem (by rw [hlabLen]; omega)]; rfl
      rw [hl]
      simp only []
      by_cases h3 : (labI lab (fiI sB.fi i)).isOuter = true
      · rw [if_pos h3, setFi_eq _ _ _ (by rw [hI.fiLen]; exact hi)]
        refine ⟨hI.mate, hI.label, hI.fault, by simp [hI.fiLen], ?_⟩
        intro j
        show fiI (s.fi.set i join) j = _
        rw [fiI_set _ _ _ _ (by rw [hI.fiLen]; exact hi), hI.fi j]
        by_cases hj : i = j
        · subst hj
          rw [if_pos rfl, if_pos ⟨by omega, h1', h2, h3⟩]
        · have hj' : ¬ j = i := fun e => hj e.symm
          rw [if_neg hj]
          simp only [hsame j hj']
      · rw [if_neg h3]
        exact hkeep (fun h => h3 h.2.2)
    · rw [if_neg h2]
      exact hkeep (fun h => h2 h.2.1)
  · rw [if_neg h1]
    exact hkeep (fun h => by simp [h.1] at h1)

/-- **phase C of `find_join`** -/
theorem fixLoop_spec (hlabLen : lab.length = v.nb + 1) (hfiLen : sB.fi.length = v.nb + 1)
    (hfault : sB.fault = false)
    (hbound : ∀ i, i ≠ v.nb → (labI lab i).isOuter = true → fiI sB.fi i ≤ v.nb) :
    FInv v lab join sB (v.nb + 1)
      (forIn (m := Id) [:lab.length] sB (fun idx s => pure (fixStep v lab join idx s))).run := by
  rw [hlabLen]
  have := forIn_range_pure (FInv v lab join sB) (fun _ => False) (v.nb + 1)
    (fun idx s => fixStep v lab join idx s) sB
    ⟨rfl, rfl, hfault, hfiLen, fun j => by simp⟩
    (fun i s hi hI => fixStep_spec hlabLen hbound i s hi hI)
  rcases this with h | h
  · exact absurd h id
  · exact h

end

end PetgraphModel.C15W2
