import PetgraphModel.Oracle.C16
/-
C16 — soundness and completeness of the spec-level checkers of `Oracle/C16.lean` against the
definitions of `Spec/C16.lean`.  Everything reduces to `Oracle.reachFrom_spec`.
-/
namespace PetgraphModel.C16P
open PetgraphModel MGraph Oracle C16S C16O

/-! ### reachability and walks -/

theorem reach_trans {g : MGraph} {a b c : Nat} (h1 : Reach g a b) (h2 : Reach g b c) : Reach g a c := by
  induction h2 with
  | refl => exact h1
  | step _ hadj ih => exact Reach.step ih hadj

theorem walk_head {g : MGraph} {a b : Nat} {p : List Nat} (h : Walk g a b p) : b ∈ p := by
  cases h <;> simp

theorem walk_start_mem {g : MGraph} {a b : Nat} {p : List Nat} (h : Walk g a b p) : a ∈ p := by
  induction h with
  | start => simp
  | step _ _ ih => exact List.mem_cons_of_mem _ ih

theorem walk_reach {g : MGraph} {a b : Nat} {p : List Nat} (h : Walk g a b p) : Reach g a b := by
  induction h with
  | start => exact Reach.refl _
  | step _ hadj ih => exact Reach.step ih hadj

/-- every vertex of a walk from `a` is reachable from `a` -/
theorem walk_mem_reach {g : MGraph} {a b : Nat} {p : List Nat} (h : Walk g a b p) :
    ∀ x, x ∈ p → Reach g a x := by
  induction h with
  | start => intro x hx; simp at hx; subst hx; exact Reach.refl _
  | step hw hadj ih =>
    intro x hx
    cases List.mem_cons.mp hx with
    | inl h => subst h; exact Reach.step (walk_reach hw) hadj
    | inr h => exact ih x h

theorem reach_walk {g : MGraph} {a b : Nat} (h : Reach g a b) : ∃ p, Walk g a b p := by
  induction h with
  | refl => exact ⟨[a], Walk.start⟩
  | step _ hadj ih => obtain ⟨p, hp⟩ := ih; exact ⟨_ :: p, Walk.step hp hadj⟩

theorem adj_removeNode {g : MGraph} {x a b : Nat} :
    (g.removeNode x).Adj a b ↔ g.Adj a b ∧ a ≠ x ∧ b ≠ x := by
  unfold MGraph.Adj MGraph.removeNode
  simp only [List.mem_filter, decide_eq_true_eq]
  constructor
  · rintro ⟨e, ⟨he, hs, ht⟩, h⟩
    rcases h with ⟨h1, h2⟩ | ⟨h0, h1, h2⟩
    · exact ⟨⟨e, he, Or.inl ⟨h1, h2⟩⟩, h1 ▸ hs, h2 ▸ ht⟩
    · exact ⟨⟨e, he, Or.inr ⟨h0, h1, h2⟩⟩, h2 ▸ ht, h1 ▸ hs⟩
  · rintro ⟨⟨e, he, h⟩, ha, hb⟩
    rcases h with ⟨h1, h2⟩ | ⟨h0, h1, h2⟩
    · exact ⟨e, ⟨he, h1 ▸ ha, h2 ▸ hb⟩, Or.inl ⟨h1, h2⟩⟩
    · exact ⟨e, ⟨he, h1 ▸ hb, h2 ▸ ha⟩, Or.inr ⟨h0, h1, h2⟩⟩

/-- a walk in `g − x` is a walk in `g` avoiding `x` -/
theorem reach_removeNode_walk {g : MGraph} {x r b : Nat} (h : Reach (g.removeNode x) r b) (hb : b ≠ x) :
    ∃ p, Walk g r b p ∧ x ∉ p := by
  induction h with
  | refl => exact ⟨[r], Walk.start, by simpa using Ne.symm hb⟩
  | step _ hadj ih =>
    obtain ⟨hadj', hb', hc'⟩ := adj_removeNode.mp hadj
    obtain ⟨p, hp, hx⟩ := ih hb'
    refine ⟨_ :: p, Walk.step hp hadj', ?_⟩
    simp only [List.mem_cons, not_or]
    exact ⟨Ne.symm hc', hx⟩

theorem walk_avoid_reach_removeNode {g : MGraph} {x r b : Nat} {p : List Nat} (h : Walk g r b p)
    (hx : x ∉ p) : Reach (g.removeNode x) r b := by
  induction h with
  | start => exact Reach.refl _
  | step hw hadj ih =>
    simp only [List.mem_cons, not_or] at hx
    have hb := walk_head hw
    refine Reach.step (ih hx.2) (adj_removeNode.mpr ⟨hadj, ?_, Ne.symm hx.1⟩)
    intro hbx; exact hx.2 (hbx ▸ hb)

theorem dominates_self (g : MGraph) (r b : Nat) : Dominates g r b b := fun _ hp => walk_head hp

/-- **The path definition, made decidable**: for `a ≠ b`, `a` dominates `b` iff `b` is not
reachable from the root once `a` is removed. -/
theorem dominates_iff_removeNode {g : MGraph} {r a b : Nat} (hab : a ≠ b) :
    Dominates g r a b ↔ ¬ Reach (g.removeNode a) r b := by
  constructor
  · intro hd hr
    obtain ⟨p, hp, hx⟩ := reach_removeNode_walk hr (Ne.symm hab)
    exact hx (hd p hp)
  · intro hn p hp
    apply Classical.byContradiction
    intro hx
    exact hn (walk_avoid_reach_removeNode hp hx)

/-- a dominator of a reachable node is itself reachable -/
theorem dominates_reach {g : MGraph} {r a b : Nat} (hr : Reach g r b) (hd : Dominates g r a b) :
    Reach g r a := by
  obtain ⟨p, hp⟩ := reach_walk hr
  exact walk_mem_reach hp a (hd p hp)

/-! ### small list lemmas -/

theorem nodupB_iff (l : List Nat) : nodupB l = true ↔ l.Nodup := by
  induction l with
  | nil => simp [nodupB]
  | cons x xs ih => simp [nodupB, ih]

theorem setEq_iff (a b : List Nat) : setEq a b = true ↔ ∀ x, x ∈ a ↔ x ∈ b := by
  unfold setEq
  simp only [Bool.and_eq_true, List.all_eq_true, List.contains_iff_mem]
  constructor
  · rintro ⟨h1, h2⟩ x; exact ⟨h1 x, h2 x⟩
  · intro h; exact ⟨fun x hx => (h x).mp hx, fun x hx => (h x).mpr hx⟩

theorem mapOpt_lookup {β : Type} (h : Nat → Option β) :
    ∀ (l : List Nat) (av : List (Nat × β)),
      mapOpt (fun a => (h a).map fun S => (a, S)) l = some av →
      ∀ a, av.lookup a = if a ∈ l then h a else none := by
  intro l
  induction l with
  | nil => intro av hav a; simp [mapOpt] at hav; subst hav; simp
  | cons x xs ih =>
    intro av hav a
    simp only [mapOpt] at hav
    cases hx : h x with
    | none => simp [hx] at hav
    | some S =>
      cases hxs : mapOpt (fun a => (h a).map fun S => (a, S)) xs with
      | none => simp [hx, hxs] at hav
      | some ys =>
        simp [hx, hxs] at hav
        subst hav
        by_cases hax : a = x
        · subst hax; simp [List.lookup, hx]
        · have : (a == x) = false := by simpa using hax
          simp [List.lookup, this, ih ys hxs a, hax]

theorem mapOpt_mem {α β : Type} (f : α → Option β) :
    ∀ (l : List α) (ys : List β), mapOpt f l = some ys →
      ∀ y, y ∈ ys ↔ ∃ x ∈ l, f x = some y := by
  intro l
  induction l with
  | nil => intro ys h y; simp [mapOpt] at h; subst h; simp
  | cons x xs ih =>
    intro ys h y
    simp only [mapOpt] at h
    cases hx : f x with
    | none => simp [hx] at h
    | some z =>
      cases hxs : mapOpt f xs with
      | none => simp [hx, hxs] at h
      | some zs =>
        simp [hx, hxs] at h
        subst h
        simp only [List.mem_cons, ih zs hxs y]
        constructor
        · rintro (h | ⟨w, hw, hfw⟩)
          · exact ⟨x, Or.inl rfl, h ▸ hx⟩
          · exact ⟨w, Or.inr hw, hfw⟩
        · rintro ⟨w, hw | hw, hfw⟩
          · subst hw; rw [hx] at hfw; exact Or.inl (Option.some.inj hfw).symm
          · exact Or.inr ⟨w, hw, hfw⟩

theorem mapOpt_all_some {α β : Type} (f : α → Option β) :
    ∀ (l : List α) (ys : List β), mapOpt f l = some ys → ∀ x ∈ l, ∃ y, f x = some y := by
  intro l
  induction l with
  | nil => intro _ _ x hx; cases hx
  | cons x xs ih =>
    intro ys h w hw
    simp only [mapOpt] at h
    cases hx : f x with
    | none => simp [hx] at h
    | some z =>
      cases hxs : mapOpt f xs with
      | none => simp [hx, hxs] at h
      | some zs =>
        cases List.mem_cons.mp hw with
        | inl h' => subst h'; exact ⟨z, hx⟩
        | inr h' => exact ih zs hxs w h'

/-! ### the dominator table -/

structure TableOk (g : MGraph) (r : Nat) (T : DomTable) : Prop where
  root : T.root = r
  reach : ∀ x, x ∈ T.R ↔ Reach g r x
  avoidIn : ∀ a, a ∈ T.R → ∃ S, T.avoid.lookup a = some S ∧ ∀ x, x ∈ S ↔ Reach (g.removeNode a) r x
  avoidOut : ∀ a, a ∉ T.R → T.avoid.lookup a = none

theorem domTable_ok {g : MGraph} {r : Nat} {T : DomTable} (h : domTable g r = some T) : TableOk g r T := by
  unfold domTable at h
  cases hR : reachFrom g r with
  | none => simp [hR] at h
  | some R =>
    simp only [hR] at h
    cases hav : mapOpt (fun a => (reachFrom (g.removeNode a) r).map fun S => (a, S)) R with
    | none => simp [hav] at h
    | some av =>
      simp only [hav, Option.some.injEq] at h
      subst h
      have hl := mapOpt_lookup (fun a => reachFrom (g.removeNode a) r) R av hav
      have hm := mapOpt_mem (fun a => (reachFrom (g.removeNode a) r).map fun S => (a, S)) R av hav
      refine ⟨rfl, (reachFrom_spec g r R hR).2, ?_, ?_⟩
      · intro a ha
        obtain ⟨y, hy⟩ := mapOpt_all_some _ R av hav a ha
        cases hS : reachFrom (g.removeNode a) r with
        | none => simp [hS] at hy
        | some S =>
          refine ⟨S, ?_, (reachFrom_spec _ r S hS).2⟩
          rw [hl a]; simp [ha, hS]
      · intro a ha
        rw [hl a]; simp [ha]

/-- `T.dom a b` decides "`b` is reachable from the root and `a` dominates `b`" -/
theorem dom_iff {g : MGraph} {r : Nat} {T : DomTable} (hT : TableOk g r T) (a b : Nat) :
    T.dom a b = true ↔ Reach g r b ∧ Dominates g r a b := by
  unfold DomTable.dom
  simp only [Bool.and_eq_true, List.contains_iff_mem, hT.reach b, Bool.or_eq_true, beq_iff_eq]
  constructor
  · rintro ⟨hb, h⟩
    refine ⟨hb, ?_⟩
    rcases h with h | h
    · subst h; exact dominates_self g r a
    · by_cases hab : a = b
      · subst hab; exact dominates_self g r a
      · by_cases haR : a ∈ T.R
        · obtain ⟨S, hS, hSm⟩ := hT.avoidIn a haR
          rw [hS] at h
          simp only [Bool.not_eq_true', ← Bool.not_eq_true, List.contains_iff_mem] at h
          exact (dominates_iff_removeNode hab).mpr (fun hr => h ((hSm b).mpr hr))
        · rw [hT.avoidOut a haR] at h; cases h
  · rintro ⟨hb, hd⟩
    refine ⟨hb, ?_⟩
    by_cases hab : a = b
    · exact Or.inl hab
    · right
      have haR : a ∈ T.R := (hT.reach a).mpr (dominates_reach hb hd)
      obtain ⟨S, hS, hSm⟩ := hT.avoidIn a haR
      rw [hS]
      simp only [Bool.not_eq_true', ← Bool.not_eq_true, List.contains_iff_mem]
      exact fun hm => (dominates_iff_removeNode hab).mp hd ((hSm b).mp hm)

/-- `T.idom a b` decides "`a` is the immediate dominator of `b`" -/
theorem idom_iff {g : MGraph} {r : Nat} {T : DomTable} (hT : TableOk g r T) (a b : Nat) :
    T.idom a b = true ↔ IsIdom g r a b := by
  unfold DomTable.idom IsIdom StrictlyDominates
  simp only [Bool.and_eq_true, bne_iff_ne, ne_eq, List.all_eq_true, Bool.or_eq_true, beq_iff_eq,
    Bool.not_eq_true', dom_iff hT]
  constructor
  · rintro ⟨⟨hab, hb, hd⟩, hall⟩
    refine ⟨hb, ⟨hab, hd⟩, ?_⟩
    rintro c ⟨hcb, hcd⟩
    have hcR : c ∈ T.R := (hT.reach c).mpr (dominates_reach hb hcd)
    rcases hall c hcR with (h | h) | h
    · exact (hcb h).elim
    · have : T.dom c b = true := (dom_iff hT c b).mpr ⟨hb, hcd⟩
      rw [this] at h; cases h
    · exact h.2
  · rintro ⟨hb, ⟨hab, hd⟩, hall⟩
    refine ⟨⟨hab, hb, hd⟩, ?_⟩
    intro c _
    by_cases hcb : c = b
    · exact Or.inl (Or.inl hcb)
    · cases hdc : T.dom c b with
      | false => exact Or.inl (Or.inr rfl)
      | true =>
        right
        have := (dom_iff hT c b).mp hdc
        exact ⟨dominates_reach hb hd, hall c ⟨hcb, this.2⟩⟩

/-! ### soundness of the per-clause checkers -/

theorem checkDominators_some {g : MGraph} {r : Nat} {T : DomTable} (hT : TableOk g r T) (b : Nat)
    (o : List Nat) (h : T.checkDominators b (some o) = true) :
    Reach g r b ∧ o.Nodup ∧ ∀ a, a ∈ o ↔ Dominates g r a b := by
  unfold DomTable.checkDominators at h
  simp only [Bool.and_eq_true, List.contains_iff_mem, nodupB_iff, setEq_iff] at h
  obtain ⟨⟨hb, hn⟩, hs⟩ := h
  have hb' := (hT.reach b).mp hb
  refine ⟨hb', hn, fun a => ?_⟩
  rw [hs a]
  unfold DomTable.domsOf
  simp only [List.mem_filter, dom_iff hT, hT.reach]
  exact ⟨fun h => h.2.2, fun h => ⟨dominates_reach hb' h, hb', h⟩⟩

theorem checkDominators_none {g : MGraph} {r : Nat} {T : DomTable} (hT : TableOk g r T) (b : Nat)
    (h : T.checkDominators b none = true) : ¬ Reach g r b := by
  unfold DomTable.checkDominators at h
  simp only [Bool.not_eq_true', ← Bool.not_eq_true, List.contains_iff_mem] at h
  exact fun hr => h ((hT.reach b).mpr hr)

theorem checkStrict_some {g : MGraph} {r : Nat} {T : DomTable} (hT : TableOk g r T) (b : Nat)
    (o : List Nat) (h : T.checkStrict b (some o) = true) :
    Reach g r b ∧ o.Nodup ∧ ∀ a, a ∈ o ↔ StrictlyDominates g r a b := by
  unfold DomTable.checkStrict at h
  simp only [Bool.and_eq_true, List.contains_iff_mem, nodupB_iff, setEq_iff] at h
  obtain ⟨⟨hb, hn⟩, hs⟩ := h
  have hb' := (hT.reach b).mp hb
  refine ⟨hb', hn, fun a => ?_⟩
  rw [hs a]
  unfold DomTable.strictOf StrictlyDominates
  simp only [List.mem_filter, Bool.and_eq_true, bne_iff_ne, ne_eq, dom_iff hT, hT.reach]
  exact ⟨fun h => ⟨h.2.1, h.2.2.2⟩, fun h => ⟨dominates_reach hb' h.2, h.1, hb', h.2⟩⟩

theorem checkStrict_none {g : MGraph} {r : Nat} {T : DomTable} (hT : TableOk g r T) (b : Nat)
    (h : T.checkStrict b none = true) : ¬ Reach g r b := by
  unfold DomTable.checkStrict at h
  simp only [Bool.not_eq_true', ← Bool.not_eq_true, List.contains_iff_mem] at h
  exact fun hr => h ((hT.reach b).mpr hr)

theorem checkIdom_some {g : MGraph} {r : Nat} {T : DomTable} (hT : TableOk g r T) (b a : Nat)
    (h : T.checkIdom b (some a) = true) : IsIdom g r a b :=
  (idom_iff hT a b).mp h

theorem checkIdom_none {g : MGraph} {r : Nat} {T : DomTable} (hT : TableOk g r T) (b : Nat)
    (h : T.checkIdom b none = true) : b = r ∨ ¬ Reach g r b := by
  unfold DomTable.checkIdom at h
  simp only [Bool.or_eq_true, beq_iff_eq, Bool.not_eq_true', ← Bool.not_eq_true, List.contains_iff_mem, hT.root] at h
  rcases h with h | h
  · exact Or.inl h
  · exact Or.inr fun hr => h ((hT.reach b).mpr hr)

theorem checkIdb_sound {g : MGraph} {r : Nat} {T : DomTable} (hT : TableOk g r T) (a : Nat)
    (o : List Nat) (h : T.checkIdb a o = true) : o.Nodup ∧ ∀ m, m ∈ o ↔ IsIdom g r a m := by
  unfold DomTable.checkIdb at h
  simp only [Bool.and_eq_true, nodupB_iff, setEq_iff] at h
  refine ⟨h.1, fun m => ?_⟩
  rw [h.2 m]
  unfold DomTable.idbOf
  simp only [List.mem_filter, idom_iff hT, hT.reach]
  exact ⟨fun h => h.2, fun h => ⟨h.1, h⟩⟩

/-! ### connected components and cut vertices -/

theorem compLoop_spec (g : MGraph) :
    ∀ (rest seen earlier : List Nat) (c : Nat),
      (∀ z, z ∈ seen ↔ ∃ y ∈ earlier, Reach g y z) →
      compLoop g seen rest = some c → c = countClasses g earlier rest := by
  intro rest
  induction rest with
  | nil => intro seen earlier c _ h; simp [compLoop] at h; simp [countClasses, h]
  | cons x rest ih =>
    intro seen earlier c hinv h
    simp only [compLoop] at h
    simp only [countClasses]
    by_cases hx : x ∈ seen
    · have hex : ∃ y ∈ earlier, Reach g y x := (hinv x).mp hx
      simp only [List.contains_iff_mem, hx, if_true] at h
      rw [if_pos hex, Nat.zero_add]
      apply ih seen (x :: earlier) c _ h
      intro z
      rw [hinv z]
      constructor
      · rintro ⟨y, hy, hr⟩; exact ⟨y, List.mem_cons_of_mem _ hy, hr⟩
      · rintro ⟨y, hy, hr⟩
        cases List.mem_cons.mp hy with
        | inl h' =>
          subst h'
          obtain ⟨w, hw, hwr⟩ := hex
          exact ⟨w, hw, reach_trans hwr hr⟩
        | inr h' => exact ⟨y, h', hr⟩
    · have hex : ¬ ∃ y ∈ earlier, Reach g y x := fun he => hx ((hinv x).mpr he)
      simp only [List.contains_iff_mem, hx, if_false] at h
      rw [if_neg hex]
      cases hr : reachFrom g x with
      | none => simp [hr] at h
      | some R =>
        simp only [hr] at h
        cases hc : compLoop g (R ++ seen) rest with
        | none => simp [hc] at h
        | some c' =>
          simp [hc] at h
          have := ih (R ++ seen) (x :: earlier) c' (by
            intro z
            rw [List.mem_append, (reachFrom_spec g x R hr).2 z, hinv z]
            constructor
            · rintro (h' | ⟨y, hy, hyr⟩)
              · exact ⟨x, List.mem_cons_self .., h'⟩
              · exact ⟨y, List.mem_cons_of_mem _ hy, hyr⟩
            · rintro ⟨y, hy, hyr⟩
              cases List.mem_cons.mp hy with
              | inl h' => subst h'; exact Or.inl hyr
              | inr h' => exact Or.inr ⟨y, h', hyr⟩) hc
          omega

/-- `compCount` computes the number of connected components -/
theorem compCount_spec (g : MGraph) (c : Nat) (h : compCount g = some c) : c = numComponents g :=
  compLoop_spec g g.nodes [] [] c (by intro z; simp) h

theorem cutB_spec (g : MGraph) (x : Nat) (b : Bool) (h : cutB g x = some b) :
    b = true ↔ numComponents (g.removeNode x) > numComponents g := by
  unfold cutB at h
  cases h1 : compCount g with
  | none => simp [h1] at h
  | some c =>
    cases h2 : compCount (g.removeNode x) with
    | none => simp [h1, h2] at h
    | some c' =>
      simp [h1, h2] at h
      rw [← compCount_spec g c h1, ← compCount_spec _ c' h2, ← h]
      simp

theorem cutSet_spec (g : MGraph) (l : List Nat) (h : cutSet g = some l) :
    ∀ x, x ∈ l ↔ CutVertex g x := by
  unfold cutSet at h
  cases hm : mapOpt (fun x => (cutB g x).map fun b => (x, b)) g.nodes with
  | none => simp [hm] at h
  | some ys =>
    simp [hm] at h
    subst h
    intro x
    have hmem := mapOpt_mem _ g.nodes ys hm
    simp only [List.mem_map, List.mem_filter]
    unfold CutVertex
    constructor
    · rintro ⟨⟨y, b⟩, ⟨hy, hb⟩, rfl⟩
      obtain ⟨w, hw, hfw⟩ := (hmem (y, b)).mp hy
      cases hc : cutB g w with
      | none => simp [hc] at hfw
      | some b' =>
        simp [hc] at hfw
        obtain ⟨rfl, rfl⟩ := hfw
        exact ⟨hw, (cutB_spec g w b' hc).mp hb⟩
    · rintro ⟨hx, hgt⟩
      obtain ⟨y, hy⟩ := mapOpt_all_some _ g.nodes ys hm x hx
      cases hc : cutB g x with
      | none => simp [hc] at hy
      | some b =>
        simp [hc] at hy
        refine ⟨(x, b), ⟨(hmem (x, b)).mpr ⟨x, hx, by simp [hc]⟩, ?_⟩, rfl⟩
        exact (cutB_spec g x b hc).mpr hgt

theorem checkAP_sound (g : MGraph) (o : List Nat) (h : checkAP g o = true) :
    o.Nodup ∧ ∀ x, x ∈ o ↔ CutVertex g x := by
  unfold checkAP at h
  cases hc : cutSet g with
  | none => simp [hc] at h
  | some l =>
    simp only [hc, Bool.and_eq_true, nodupB_iff, setEq_iff] at h
    exact ⟨h.1, fun x => (h.2 x).trans (cutSet_spec g l hc x)⟩

/-! ### facts about the specification itself: dominance is antisymmetric, the immediate dominator is unique -/

/-- a vertex of a walk other than its end point is reached by a strictly shorter walk -/
theorem walk_shorter {g : MGraph} {r b : Nat} {p : List Nat} (h : Walk g r b p) :
    ∀ x, x ∈ p → x ≠ b → ∃ q, Walk g r x q ∧ q.length < p.length := by
  induction h with
  | start => intro x hx hne; simp at hx; exact (hne hx).elim
  | @step b' c p' hw _ ih =>
    intro x hx hne
    have hx' : x ∈ p' := by
      cases List.mem_cons.mp hx with
      | inl h => exact (hne h).elim
      | inr h => exact h
    by_cases hxb : x = b'
    · subst hxb; exact ⟨p', hw, by simp⟩
    · obtain ⟨q, hq, hlen⟩ := ih x hx' hxb
      exact ⟨q, hq, by simp; omega⟩

theorem dominates_antisymm_aux {g : MGraph} {r a c : Nat} (hac : a ≠ c)
    (h1 : Dominates g r a c) (h2 : Dominates g r c a) :
    ∀ n, ∀ p, p.length < n → ¬ Walk g r a p ∧ ¬ Walk g r c p := by
  intro n
  induction n with
  | zero => intro p h; cases h
  | succ n ih =>
    intro p hlen
    constructor
    · intro hw
      obtain ⟨q, hq, hql⟩ := walk_shorter hw c (h2 p hw) (Ne.symm hac)
      exact (ih q (by omega)).2 hq
    · intro hw
      obtain ⟨q, hq, hql⟩ := walk_shorter hw a (h1 p hw) hac
      exact (ih q (by omega)).1 hq

/-- dominance is antisymmetric on nodes reachable from the root -/
theorem dominates_antisymm {g : MGraph} {r a c : Nat} (hr : Reach g r a)
    (h1 : Dominates g r a c) (h2 : Dominates g r c a) : a = c := by
  apply Classical.byContradiction
  intro hac
  obtain ⟨p, hp⟩ := reach_walk hr
  exact (dominates_antisymm_aux hac h1 h2 (p.length + 1) p (by omega)).1 hp

/-- the immediate dominator is unique -/
theorem isIdom_unique {g : MGraph} {r a a' b : Nat} (h : IsIdom g r a b) (h' : IsIdom g r a' b) : a = a' :=
  dominates_antisymm (dominates_reach h.1 h.2.1.2) (h'.2.2 a h.2.1) (h.2.2 a' h'.2.1)

/-- the module documentation's wording: no node lies strictly between the immediate dominator and
the node -/
theorem isIdom_nothing_between {g : MGraph} {r a b : Nat} (h : IsIdom g r a b) :
    ¬ ∃ c, StrictlyDominates g r a c ∧ StrictlyDominates g r c b := by
  rintro ⟨c, hac, hcb⟩
  exact hac.1 (dominates_antisymm (dominates_reach h.1 h.2.1.2) hac.2 (h.2.2 c hcb))

/-- the root has no strict dominator, hence no immediate dominator -/
theorem root_no_idom {g : MGraph} {r a : Nat} : ¬ IsIdom g r a r := by
  intro h
  have := h.2.1.2 [r] Walk.start
  simp at this
  exact h.2.1.1 this

/-! ### completeness of the checkers (no false alarm), given that the oracle did not run out of fuel -/

theorem checkDominators_complete {g : MGraph} {r : Nat} {T : DomTable} (hT : TableOk g r T) (b : Nat)
    (o : List Nat) (hb : Reach g r b) (hn : o.Nodup) (ho : ∀ a, a ∈ o ↔ Dominates g r a b) :
    T.checkDominators b (some o) = true := by
  unfold DomTable.checkDominators
  simp only [Bool.and_eq_true, List.contains_iff_mem, nodupB_iff, setEq_iff]
  refine ⟨⟨(hT.reach b).mpr hb, hn⟩, fun a => ?_⟩
  rw [ho a]
  unfold DomTable.domsOf
  simp only [List.mem_filter, dom_iff hT, hT.reach]
  exact ⟨fun h => ⟨dominates_reach hb h, hb, h⟩, fun h => h.2.2⟩

theorem checkIdom_complete {g : MGraph} {r : Nat} {T : DomTable} (hT : TableOk g r T) (b a : Nat)
    (h : IsIdom g r a b) : T.checkIdom b (some a) = true :=
  (idom_iff hT a b).mpr h

theorem checkAP_complete (g : MGraph) (o l : List Nat) (hl : cutSet g = some l) (hn : o.Nodup)
    (ho : ∀ x, x ∈ o ↔ CutVertex g x) : checkAP g o = true := by
  unfold checkAP
  simp only [hl, Bool.and_eq_true, nodupB_iff, setEq_iff]
  exact ⟨hn, fun x => (ho x).trans (cutSet_spec g l hl x).symm⟩

end PetgraphModel.C16P
