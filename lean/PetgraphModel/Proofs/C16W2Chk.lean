import PetgraphModel.Proofs.C16Chk
import PetgraphModel.Proofs.C16W2Base
/-
C16, second wave — the Cooper–Harvey–Kennedy iteration (`Model/C16Dom.lean`: `sweep`, `fixLoop`)
terminates within the model's fuel without a fault, and its fixed point is *complete*: every true
dominator of a node lies on the node's chain in the computed table.

Everything here is at the level of post-order indices.  What is used about the post-order numbering
is only: every non-root index `k` has a predecessor `p ∈ pv[k]` with `k < p` (`hH`).

The invariant `SInv doms c` of the state in the middle of a sweep (`c` = the indices `≥ c` have
already been processed in the current sweep):
* `up`   : `doms[i] = d → i < d < len` (the table is a forest growing towards the root `len-1`);
* `upcl` : the defined entries are upward closed; `defd`: everything `≥ c` is defined;
* `J`    : every common ancestor of the defined predecessors of `k` is an ancestor of `doms[k]`
           (so re-evaluating `k` can only move `doms[k]` up: the measure `Σ doms[i]` increases);
* `E`    : `doms[k]` is an ancestor of every predecessor `p > k`, unless `k` has not yet been
           re-processed in this sweep and `doms[k] ≥ c`.
The completeness invariant `Compl`: for every defined `b`, every index whose node dominates
`post[b]` is an ancestor of `b` in the table.
-/
namespace PetgraphModel.C16P.W2Chk
open PetgraphModel MGraph C16S C16M C16P

/-- the shape of the table: a forest growing towards the root `len - 1` -/
structure Up (len : Nat) (doms : List (Option Nat)) : Prop where
  hlen : doms.length = len
  pos : 0 < len
  root : doms.getD (len - 1) none = some (len - 1)
  up : ∀ i d, i < len - 1 → doms.getD i none = some d → i < d ∧ d < len

theorem getD_none_of_le {doms : List (Option Nat)} {i : Nat} (h : doms.length ≤ i) :
    doms.getD i none = none := by
  rw [List.getD_eq_getElem?_getD, List.getElem?_eq_none h]; rfl

theorem Up.step_le {len : Nat} {doms : List (Option Nat)} (h : Up len doms) {i d : Nat}
    (hd : doms.getD i none = some d) : i ≤ d ∧ d < len ∧ i < len := by
  by_cases h1 : i < len - 1
  · have := h.up i d h1 hd; omega
  · by_cases h2 : i = len - 1
    · subst h2
      rw [h.root] at hd
      cases hd
      have := h.pos
      omega
    · have : doms.length ≤ i := by have := h.hlen; omega
      rw [getD_none_of_le this] at hd
      cases hd

theorem Up.anc_le {len : Nat} {doms : List (Option Nat)} (h : Up len doms) {a x : Nat}
    (ha : Anc doms a x) : a ≤ x := by
  induction ha with
  | refl => exact Nat.le_refl _
  | step hd _ ih => have := (h.step_le hd).1; omega

theorem Up.anc_lt {len : Nat} {doms : List (Option Nat)} (h : Up len doms) {a x : Nat}
    (ha : Anc doms a x) (hl : a < len) : x < len := by
  induction ha with
  | refl => exact hl
  | step hd _ ih => exact ih (h.step_le hd).2.1

/-- two ancestors of one node are comparable -/
theorem Up.anc_linear {len : Nat} {doms : List (Option Nat)} (h : Up len doms) {a x y : Nat}
    (hx : Anc doms a x) (hy : Anc doms a y) (hxy : x ≤ y) : Anc doms x y := by
  induction hx with
  | refl => exact hy
  | @step i d x hd hrest ih =>
    cases hy with
    | refl =>
      have h1 := (h.step_le hd).1
      have h2 := h.anc_le hrest
      have : x = y := by omega
      subst this
      exact Anc.refl _
    | step hd' hrest' =>
      rw [hd] at hd'
      cases hd'
      exact ih hrest' hxy

def Def (doms : List (Option Nat)) (i : Nat) : Prop := (doms.getD i none).isSome = true

theorem def_iff {doms : List (Option Nat)} {i : Nat} : Def doms i ↔ ∃ d, doms.getD i none = some d := by
  unfold Def
  cases doms.getD i none <;> simp

/-- `x` is a common ancestor of the defined members of `P` -/
def CA (doms : List (Option Nat)) (P : List Nat) (x : Nat) : Prop :=
  ∀ p ∈ P, Def doms p → Anc doms p x

/-! ### `intersect` computes the least common ancestor -/

theorem intersect_spec {len : Nat} {doms : List (Option Nat)} (h : Up len doms)
    (hcl : ∀ i j, Def doms i → i ≤ j → j < len → Def doms j) :
    ∀ (f a b : Nat), a < len → b < len → Def doms a → Def doms b → len ≤ f + min a b →
      ∃ x, intersect doms f a b = some x ∧ Anc doms a x ∧ Anc doms b x ∧
        ∀ y, Anc doms a y → Anc doms b y → Anc doms x y := by
  intro f
  induction f with
  | zero => intro a b ha hb _ _ hf; omega
  | succ f ih =>
    intro a b ha hb hda hdb hf
    simp only [intersect]
    by_cases hab : a < b
    · rw [if_pos hab]
      obtain ⟨d, hd⟩ := def_iff.mp hda
      rw [hd]
      simp only
      have hup := h.up a d (by omega) hd
      have hdd : Def doms d := hcl a d hda (by omega) hup.2
      obtain ⟨x, hx, h1, h2, h3⟩ := ih d b hup.2 hb hdd hdb (by omega)
      refine ⟨x, hx, Anc.step hd h1, h2, fun y hya hyb => ?_⟩
      cases hya with
      | refl => have := h.anc_le hyb; omega
      | step hd' hr => rw [hd] at hd'; cases hd'; exact h3 y hr hyb
    · rw [if_neg hab]
      by_cases hba : b < a
      · rw [if_pos hba]
        obtain ⟨d, hd⟩ := def_iff.mp hdb
        rw [hd]
        simp only
        have hup := h.up b d (by omega) hd
        have hdd : Def doms d := hcl b d hdb (by omega) hup.2
        obtain ⟨x, hx, h1, h2, h3⟩ := ih a d ha hup.2 hda hdd (by omega)
        refine ⟨x, hx, h1, Anc.step hd h2, fun y hya hyb => ?_⟩
        cases hyb with
        | refl => have := h.anc_le hya; omega
        | step hd' hr => rw [hd] at hd'; cases hd'; exact h3 y hya hr
      · rw [if_neg hba]
        have : a = b := by omega
        subst this
        exact ⟨a, rfl, Anc.refl _, Anc.refl _, fun y hya _ => hya⟩

theorem foldIntersect_spec {len : Nat} {doms : List (Option Nat)} (h : Up len doms)
    (hcl : ∀ i j, Def doms i → i ≤ j → j < len → Def doms j) (f : Nat) (hf : len ≤ f) :
    ∀ (qs : List Nat) (acc : Nat), acc < len → Def doms acc → (∀ q ∈ qs, q < len ∧ Def doms q) →
      ∃ x, foldIntersect doms f acc qs = some x ∧ Anc doms acc x ∧ (∀ q ∈ qs, Anc doms q x) ∧
        ∀ y, Anc doms acc y → (∀ q ∈ qs, Anc doms q y) → Anc doms x y := by
  intro qs
  induction qs with
  | nil =>
    intro acc _ _ _
    exact ⟨acc, rfl, Anc.refl _, by simp, fun y hy _ => hy⟩
  | cons q qs ih =>
    intro acc hacc hdacc hqs
    have hq := hqs q (List.mem_cons_self ..)
    obtain ⟨a, ha, h1, h2, h3⟩ := intersect_spec h hcl f acc q hacc hq.1 hdacc hq.2 (by omega)
    have hal : a < len := h.anc_lt h1 hacc
    have hda : Def doms a := hcl acc a hdacc (h.anc_le h1) hal
    obtain ⟨x, hx, g1, g2, g3⟩ := ih a hal hda (fun q' hq' => hqs q' (List.mem_cons_of_mem _ hq'))
    refine ⟨x, by simp only [foldIntersect, ha, hx], anc_trans h1 g1, ?_, ?_⟩
    · intro q' hq'
      cases List.mem_cons.mp hq' with
      | inl e => subst e; exact anc_trans h2 g1
      | inr e => exact g2 q' e
    · intro y hy hys
      exact g3 y (h3 y hy (hys q (List.mem_cons_self ..)))
        (fun q' hq' => hys q' (List.mem_cons_of_mem _ hq'))

/-- the block computing `new_idom_idx`: with at least one defined predecessor it returns the least
common ancestor of the defined predecessors -/
theorem newIdom_spec {len : Nat} {doms : List (Option Nat)} (h : Up len doms)
    (hcl : ∀ i j, Def doms i → i ≤ j → j < len → Def doms j) (f : Nat) (hf : len ≤ f)
    (P : List Nat) (hP : ∀ p ∈ P, p < len) (p0 : Nat) (hp0 : p0 ∈ P) (hd0 : Def doms p0) :
    ∃ n, newIdom doms f P = .val n ∧ CA doms P n ∧ (∀ y, CA doms P y → Anc doms n y) ∧
      p0 ≤ n ∧ n < len := by
  unfold newIdom
  have hmem : p0 ∈ P.filter fun p => (doms.getD p none).isSome := List.mem_filter.mpr ⟨hp0, hd0⟩
  split
  · rename_i hnil; rw [hnil] at hmem; cases hmem
  · rename_i q rest hcons
    have hall : ∀ p, p ∈ q :: rest → p ∈ P ∧ Def doms p := by
      intro p hp
      rw [← hcons] at hp
      exact List.mem_filter.mp hp
    have hq := hall q (List.mem_cons_self ..)
    obtain ⟨x, hx, h1, h2, h3⟩ := foldIntersect_spec h hcl f hf rest q (hP q hq.1) hq.2
      (fun p hp => ⟨hP p (hall p (List.mem_cons_of_mem _ hp)).1, (hall p (List.mem_cons_of_mem _ hp)).2⟩)
    rw [hx]
    have hca : CA doms P x := by
      intro p hp hdp
      have : p ∈ q :: rest := by rw [← hcons]; exact List.mem_filter.mpr ⟨hp, hdp⟩
      cases List.mem_cons.mp this with
      | inl e => subst e; exact h1
      | inr e => exact h2 p e
    refine ⟨x, rfl, hca, ?_, h.anc_le (hca p0 hp0 hd0), h.anc_lt (hca p0 hp0 hd0) (hP p0 hp0)⟩
    intro y hy
    exact h3 y (hy q hq.1 hq.2) (fun p hp => hy p (hall p (List.mem_cons_of_mem _ hp)).1
      (hall p (List.mem_cons_of_mem _ hp)).2)

/-! ### the invariant of the sweep -/

structure SInv (pv : List (List Nat)) (len : Nat) (doms : List (Option Nat)) (c : Nat) : Prop where
  up : Up len doms
  defd : ∀ i, c ≤ i → i < len → Def doms i
  upcl : ∀ i j, Def doms i → i ≤ j → j < len → Def doms j
  J : ∀ k w, k < len - 1 → doms.getD k none = some w → ∀ x, CA doms (pv.getD k []) x → Anc doms w x
  E : ∀ k w p, k < len - 1 → doms.getD k none = some w → p ∈ pv.getD k [] → k < p →
        Anc doms p w ∨ (k < c ∧ c ≤ w)

theorem getD_set {doms : List (Option Nat)} {idx : Nat} (h : idx < doms.length) (v : Option Nat) (i : Nat) :
    (doms.set idx v).getD i none = if i = idx then v else doms.getD i none := by
  rw [List.getD_eq_getElem?_getD, List.getD_eq_getElem?_getD, List.getElem?_set]
  by_cases hi : idx = i
  · subst hi; simp [h]
  · have : ¬ i = idx := fun e => hi e.symm
    simp [hi, this]

section step
variable {pv : List (List Nat)} {len : Nat} {doms : List (Option Nat)} {idx n : Nat}

/-- chains that start above `idx` do not see the update of `idx` -/
theorem anc_above (h : Up len doms) (hidx : idx < len) {a x : Nat} (ha : idx < a) :
    Anc doms a x ↔ Anc (doms.set idx (some n)) a x := by
  have hl : idx < doms.length := by rw [h.hlen]; exact hidx
  constructor
  · intro hx
    induction hx with
    | refl => exact Anc.refl _
    | @step i d x hd _ ih =>
      have := (h.step_le hd).1
      refine Anc.step ?_ (ih (by omega))
      rw [getD_set hl, if_neg (by omega)]; exact hd
  · intro hx
    induction hx with
    | refl => exact Anc.refl _
    | @step i d x hd _ ih =>
      rw [getD_set hl, if_neg (by omega)] at hd
      have := (h.step_le hd).1
      exact Anc.step hd (ih (by omega))

/-- new chains are sub-chains of the old ones -/
theorem anc_new_old (h : Up len doms) (hidx : idx < len)
    (hcl : ∀ i j, Def doms i → i ≤ j → j < len → Def doms j)
    (hn : idx < n) (hw : ∀ w, doms.getD idx none = some w → Anc doms w n) {p x : Nat}
    (hx : Anc (doms.set idx (some n)) p x) (hp : Def doms p) : Anc doms p x := by
  have hl : idx < doms.length := by rw [h.hlen]; exact hidx
  induction hx with
  | refl => exact Anc.refl _
  | @step i d x hd hrest ih =>
    rw [getD_set hl] at hd
    by_cases hi : i = idx
    · subst hi
      rw [if_pos rfl] at hd
      cases hd
      obtain ⟨w, hw'⟩ := def_iff.mp hp
      exact Anc.step hw' (anc_trans (hw w hw') ((anc_above h hidx hn).mpr hrest))
    · rw [if_neg hi] at hd
      have hs := h.step_le hd
      exact Anc.step hd (ih (hcl i d hp hs.1 hs.2.1))

/-- the part of a chain below `idx` is unchanged -/
theorem anc_old_new_low (h : Up len doms) (hidx : idx < len - 1) {p x : Nat}
    (hx : Anc doms p x) (hxi : x ≤ idx) : Anc (doms.set idx (some n)) p x := by
  have hl : idx < doms.length := by rw [h.hlen]; omega
  induction hx with
  | refl => exact Anc.refl _
  | @step i d x hd hrest ih =>
    have h2 := h.anc_le hrest
    by_cases hi : i = idx
    · subst hi
      have := h.up i d hidx hd; omega
    · refine Anc.step ?_ (ih hxi)
      rw [getD_set hl, if_neg hi]; exact hd

theorem up_set (h : Up len doms) (hidx : idx < len - 1) (hn : idx < n) (hnl : n < len) :
    Up len (doms.set idx (some n)) := by
  have hl : idx < doms.length := by rw [h.hlen]; omega
  refine ⟨by rw [List.length_set]; exact h.hlen, h.pos, ?_, ?_⟩
  · rw [getD_set hl, if_neg (by omega)]; exact h.root
  · intro i d hi hd
    rw [getD_set hl] at hd
    by_cases hii : i = idx
    · subst hii; rw [if_pos rfl] at hd; cases hd; exact ⟨hn, hnl⟩
    · rw [if_neg hii] at hd; exact h.up i d hi hd

theorem def_set (h : Up len doms) (hidx : idx < len) (i : Nat) :
    Def (doms.set idx (some n)) i ↔ (i = idx ∨ Def doms i) := by
  have hl : idx < doms.length := by rw [h.hlen]; exact hidx
  unfold Def
  rw [getD_set hl]
  by_cases hi : i = idx
  · simp [hi]
  · simp [hi]

/-- **one step of the sweep keeps the invariant** (`n` = the least common ancestor of the defined
predecessors of `idx`) -/
theorem sinv_step (hP : ∀ k, k < len → ∀ p ∈ pv.getD k [], p < len)
    (hH : ∀ k, k < len - 1 → ∃ p ∈ pv.getD k [], k < p)
    (inv : SInv pv len doms (idx + 1)) (hidx : idx < len - 1)
    (hca : CA doms (pv.getD idx []) n) (hleast : ∀ y, CA doms (pv.getD idx []) y → Anc doms n y)
    (hn : idx < n) (hnl : n < len) :
    SInv pv len (doms.set idx (some n)) idx := by
  have hU := inv.up
  have hidx' : idx < len := by omega
  have hl : idx < doms.length := by rw [hU.hlen]; exact hidx'
  have hw : ∀ w, doms.getD idx none = some w → Anc doms w n := fun w hw => inv.J idx w hidx hw n hca
  have hU' : Up len (doms.set idx (some n)) := up_set hU hidx hn hnl
  have hcaold : ∀ k x, CA (doms.set idx (some n)) (pv.getD k []) x → CA doms (pv.getD k []) x := by
    intro k x hx p hp hdp
    exact anc_new_old hU hidx' inv.upcl hn hw (hx p hp ((def_set hU hidx' p).mpr (Or.inr hdp))) hdp
  refine ⟨hU', ?_, ?_, ?_, ?_⟩
  · intro i hi hil
    rw [def_set hU hidx']
    by_cases hii : i = idx
    · exact Or.inl hii
    · exact Or.inr (inv.defd i (by omega) hil)
  · intro i j hdi hij hjl
    rw [def_set hU hidx'] at hdi ⊢
    by_cases hjj : j = idx
    · exact Or.inl hjj
    · right
      rcases hdi with hdi | hdi
      · exact inv.defd j (by omega) hjl
      · exact inv.upcl i j hdi hij hjl
  · -- J
    intro k w hk hkw x hx
    have hxold := hcaold k x hx
    rw [getD_set hl] at hkw
    by_cases hki : k = idx
    · subst hki
      rw [if_pos rfl] at hkw
      cases hkw
      exact (anc_above hU hidx' hn).mp (hleast x hxold)
    · rw [if_neg hki] at hkw
      have hold := inv.J k w hk hkw x hxold
      by_cases hwi : idx < w
      · exact (anc_above hU hidx' hwi).mp hold
      · obtain ⟨p0, hp0, hkp0⟩ := hH k hk
        have hkw' := hU.up k w hk hkw
        have hp0l : p0 < len := hP k (by omega) p0 hp0
        have hdk : Def doms k := def_iff.mpr ⟨w, hkw⟩
        have hdp0 : Def doms p0 := inv.upcl k p0 hdk (by omega) hp0l
        rcases inv.E k w p0 hk hkw hp0 hkp0 with he | he
        · have h1 : Anc (doms.set idx (some n)) p0 w := anc_old_new_low hU hidx he (by omega)
          have h2 : Anc (doms.set idx (some n)) p0 x := hx p0 hp0 ((def_set hU hidx' p0).mpr (Or.inr hdp0))
          exact hU'.anc_linear h1 h2 (hU.anc_le hold)
        · omega
  · -- E
    intro k w p hk hkw hp hkp
    have hpl : p < len := hP k (by omega) p hp
    rw [getD_set hl] at hkw
    by_cases hki : k = idx
    · subst hki
      rw [if_pos rfl] at hkw
      cases hkw
      left
      have hdp : Def doms p := inv.defd p (by omega) hpl
      exact (anc_above hU hidx' hkp).mp (hca p hp hdp)
    · rw [if_neg hki] at hkw
      rcases inv.E k w p hk hkw hp hkp with he | he
      · by_cases hwi : w ≤ idx
        · exact Or.inl (anc_old_new_low hU hidx he hwi)
        · by_cases hkidx : k < idx
          · exact Or.inr ⟨hkidx, by omega⟩
          · exact Or.inl ((anc_above hU hidx' (by omega)).mp he)
      · exact Or.inr ⟨by omega, by omega⟩

end step

/-! ### completeness: true dominators stay on the chains -/

/-- every index whose node dominates the node of a defined index `b` is an ancestor of `b` -/
def Compl (g : MGraph) (root : Nat) (post : List Nat) (len : Nat) (doms : List (Option Nat)) : Prop :=
  ∀ b x, b < len → x < len → Def doms b →
    Dominates g root (post.getD x 0) (post.getD b 0) → Anc doms b x

theorem dominates_pred {g : MGraph} {r a p y : Nat} (h : Dominates g r a y) (hay : a ≠ y)
    (hadj : g.Adj p y) : Dominates g r a p := by
  intro w hw
  have := h (y :: w) (Walk.step hw hadj)
  cases List.mem_cons.mp this with
  | inl e => exact (hay e).elim
  | inr e => exact e

theorem getD_inj {post : List Nat} (hn : post.Nodup) {i j : Nat} (hi : i < post.length)
    (hj : j < post.length) (he : post.getD i 0 = post.getD j 0) : i = j := by
  rw [getD_eq_getElem' post i 0 hi, getD_eq_getElem' post j 0 hj] at he
  exact nodup_getElem_inj hn hi hj he

section compl
variable {g : MGraph} {root : Nat} {post : List Nat} {pv : List (List Nat)} {len : Nat}
  {doms : List (Option Nat)}

/-- from the node of `j` one can walk down to every index that has `j` on its chain using only
nodes of index `≤ j` -/
theorem walk_down (hH : ∀ k, k < len - 1 → ∃ p ∈ pv.getD k [], k < p)
    (hreal : ∀ k, k < len → ∀ p ∈ pv.getD k [], g.Adj (post.getD p 0) (post.getD k 0))
    {j : Nat} (inv : SInv pv len doms (j + 1)) (hj : j < len) (a : Nat)
    (ha : ∀ i, i ≤ j → a ≠ post.getD i 0) (w : List Nat) (hw : Walk g root (post.getD j 0) w)
    (haw : a ∉ w) :
    ∀ (m k : Nat), j - k ≤ m → Anc doms k j → ∃ w', Walk g root (post.getD k 0) w' ∧ a ∉ w' := by
  intro m
  induction m with
  | zero =>
    intro k hm hk
    have := inv.up.anc_le hk
    have : k = j := by omega
    subst this
    exact ⟨w, hw, haw⟩
  | succ m ih =>
    intro k hm hk
    have hkj := inv.up.anc_le hk
    by_cases hkk : k = j
    · subst hkk; exact ⟨w, hw, haw⟩
    cases hk with
    | refl => exact ⟨w, hw, haw⟩
    | @step _ wk _ hd hrest =>
      have hwkj := inv.up.anc_le hrest
      have hk1 : k < len - 1 := by omega
      obtain ⟨p0, hp0, hkp0⟩ := hH k hk1
      rcases inv.E k wk p0 hk1 hd hp0 hkp0 with he | he
      · have hp0j : Anc doms p0 j := anc_trans he hrest
        have := inv.up.anc_le hp0j
        obtain ⟨w', hw', haw'⟩ := ih p0 (by omega) hp0j
        refine ⟨post.getD k 0 :: w', Walk.step hw' (hreal k (by omega) p0 hp0), ?_⟩
        intro hmem
        cases List.mem_cons.mp hmem with
        | inl e => exact ha k hkj e
        | inr e => exact haw' e
      · omega

theorem anc_old_new_gen {idx n : Nat} (h : Up len doms) (hidx : idx < len - 1) (hn : idx < n)
    {b x : Nat} (hx : Anc doms b x) :
    (Anc doms b idx → idx < x → Anc doms n x) → Anc (doms.set idx (some n)) b x := by
  have hl : idx < doms.length := by rw [h.hlen]; omega
  induction hx with
  | refl => intro _; exact Anc.refl _
  | @step i d x hd hrest ih =>
    intro hyp
    by_cases hi : i = idx
    · subst hi
      have hup := h.up i d hidx hd
      have := h.anc_le hrest
      have hnx : Anc doms n x := hyp (Anc.refl _) (by omega)
      refine Anc.step ?_ ((anc_above h (by omega) hn).mp hnx)
      rw [getD_set hl, if_pos rfl]
    · refine Anc.step ?_ (ih (fun ha hlt => hyp (Anc.step hd ha) hlt))
      rw [getD_set hl, if_neg hi]; exact hd

theorem compl_step (hP : ∀ k, k < len → ∀ p ∈ pv.getD k [], p < len)
    (hH : ∀ k, k < len - 1 → ∃ p ∈ pv.getD k [], k < p)
    (hreal : ∀ k, k < len → ∀ p ∈ pv.getD k [], g.Adj (post.getD p 0) (post.getD k 0))
    (hnodup : post.Nodup) (hplen : post.length = len)
    {idx n : Nat} (inv : SInv pv len doms (idx + 1)) (hidx : idx < len - 1)
    (hleast : ∀ y, CA doms (pv.getD idx []) y → Anc doms n y)
    (hn : idx < n) (hc : Compl g root post len doms) :
    Compl g root post len (doms.set idx (some n)) := by
  have hU := inv.up
  have hidx' : idx < len := by omega
  have hl : idx < doms.length := by rw [hU.hlen]; exact hidx'
  -- a dominator of the node of `idx` (other than itself) is above the new value
  have key : ∀ x, x < len → x ≠ idx → Dominates g root (post.getD x 0) (post.getD idx 0) →
      Anc doms n x := by
    intro x hx hxi hdom
    apply hleast
    intro p hp hdp
    have hpl := hP idx hidx' p hp
    apply hc p x hpl hx hdp
    refine dominates_pred hdom ?_ (hreal idx hidx' p hp)
    intro e
    exact hxi (getD_inj hnodup (by omega) (by omega) e)
  intro b x hb hx hdb hdom
  by_cases hbi : b = idx
  · subst hbi
    by_cases hxb : x = b
    · subst hxb; exact Anc.refl _
    · refine Anc.step ?_ ((anc_above hU hidx' hn).mp (key x hx hxb hdom))
      rw [getD_set hl, if_pos rfl]
  · have hdb' : Def doms b := by
      rcases (def_set hU hidx' b).mp hdb with e | e
      · exact (hbi e).elim
      · exact e
    have hold := hc b x hb hx hdb' hdom
    apply anc_old_new_gen hU hidx hn hold
    intro hbidx hix
    apply Classical.byContradiction
    intro hnot
    have hnd : ¬ Dominates g root (post.getD x 0) (post.getD idx 0) :=
      fun hd => hnot (key x hx (by omega) hd)
    unfold Dominates at hnd
    obtain ⟨w, hw⟩ := Classical.not_forall.mp hnd
    have hw1 : Walk g root (post.getD idx 0) w := Classical.byContradiction fun h => hw (fun h' => (h h').elim)
    have hw2 : post.getD x 0 ∉ w := fun h => hw (fun _ => h)
    obtain ⟨w', hw', haw'⟩ := walk_down hH hreal inv hidx' (post.getD x 0)
      (fun i hi e => by have := getD_inj hnodup (by omega) (by omega) e; omega) w hw1 hw2
      (idx - b) b (Nat.le_refl _) hbidx
    exact haw' (hdom w' hw')

end compl

/-! ### the measure -/

def wt : Option Nat → Nat
  | none => 0
  | some d => d + 1

def mu (doms : List (Option Nat)) : Nat := (doms.map wt).sum

theorem sum_set : ∀ (l : List Nat) (i v : Nat) (h : i < l.length), (l.set i v).sum + l[i] = l.sum + v := by
  intro l
  induction l with
  | nil => intro i v h; cases h
  | cons a l ih =>
    intro i v h
    cases i with
    | zero => simp; omega
    | succ i =>
      have := ih i v (by simpa using h)
      simp only [List.set_cons_succ, List.sum_cons, List.getElem_cons_succ]
      omega

theorem mu_set (doms : List (Option Nat)) (idx : Nat) (h : idx < doms.length) (v : Option Nat) :
    mu (doms.set idx v) + wt (doms.getD idx none) = mu doms + wt v := by
  unfold mu
  rw [List.map_set]
  have := sum_set (doms.map wt) idx (wt v) (by simpa using h)
  rw [getD_eq_getElem' doms idx none h]
  simpa using this

theorem sum_le_of_forall : ∀ (l : List Nat) (B : Nat), (∀ x ∈ l, x ≤ B) → l.sum ≤ l.length * B := by
  intro l
  induction l with
  | nil => intro B _; simp
  | cons a l ih =>
    intro B h
    have h1 := h a (List.mem_cons_self ..)
    have h2 := ih B (fun x hx => h x (List.mem_cons_of_mem _ hx))
    simp only [List.sum_cons, List.length_cons, Nat.add_mul, Nat.one_mul]
    omega

theorem mu_le {len : Nat} {doms : List (Option Nat)} (h : Up len doms) : mu doms ≤ len * len := by
  unfold mu
  have := sum_le_of_forall (doms.map wt) len (by
    intro x hx
    obtain ⟨o, ho, rfl⟩ := List.mem_map.mp hx
    obtain ⟨i, hi, rfl⟩ := List.mem_iff_getElem.mp ho
    cases hd : doms[i] with
    | none => simp [wt]
    | some d =>
      have : doms.getD i none = some d := by rw [getD_eq_getElem' doms i none hi, hd]
      have := (h.step_le this).2.1
      simp only [wt]; omega)
  simpa [h.hlen] using this

theorem set_getD_self (l : List (Option Nat)) (i : Nat) (v : Option Nat) (h : l.getD i none = v) :
    l.set i v = l := by
  apply List.ext_getElem?
  intro j
  rw [List.getElem?_set]
  split
  · rename_i hij
    subst hij
    split
    · rename_i hl
      rw [← h, getD_eq_getElem' l i none hl, List.getElem?_eq_getElem hl]
    · rename_i hl
      rw [List.getElem?_eq_none (by omega)]
  · rfl

/-! ### the sweep and the `while changed` loop succeed -/

section loop
variable {g : MGraph} {root : Nat} {post : List Nat} {pv : List (List Nat)} {len : Nat}

theorem sweep_ok (hP : ∀ k, k < len → ∀ p ∈ pv.getD k [], p < len)
    (hH : ∀ k, k < len - 1 → ∃ p ∈ pv.getD k [], k < p)
    (hreal : ∀ k, k < len → ∀ p ∈ pv.getD k [], g.Adj (post.getD p 0) (post.getD k 0))
    (hnodup : post.Nodup) (hplen : post.length = len) :
    ∀ (c : Nat) (doms : List (Option Nat)) (ch : Bool), c ≤ len - 1 → SInv pv len doms c →
      Compl g root post len doms →
      ∃ doms' ch', sweep pv (len + 2) len (List.range c).reverse doms ch = .ok (doms', ch') ∧
        SInv pv len doms' 0 ∧ Compl g root post len doms' ∧ mu doms ≤ mu doms' ∧
        (ch' = true → ch = true ∨ mu doms < mu doms') := by
  intro c
  induction c with
  | zero =>
    intro doms ch _ inv hc
    exact ⟨doms, ch, by simp [sweep], inv, hc, Nat.le_refl _, fun h => Or.inl h⟩
  | succ c ih =>
    intro doms ch hcl inv hc
    have hU := inv.up
    have hcl' : c < len - 1 := by omega
    have hl : c < doms.length := by rw [hU.hlen]; omega
    obtain ⟨p0, hp0, hcp0⟩ := hH c hcl'
    have hp0l := hP c (by omega) p0 hp0
    obtain ⟨n, hnew, hca, hleast, hp0n, hnl⟩ := newIdom_spec hU inv.upcl (len + 2) (by omega)
      (pv.getD c []) (hP c (by omega)) p0 hp0 (inv.defd p0 (by omega) hp0l)
    have hcn : c < n := by omega
    have inv' := sinv_step hP hH inv hcl' hca hleast hcn hnl
    have hc' := compl_step hP hH hreal hnodup hplen inv hcl' hleast hcn hc
    rw [List.range_succ, List.reverse_append, List.reverse_singleton, List.singleton_append]
    simp only [sweep, hnew, hnl, not_true_eq_false, if_false]
    by_cases hchg : (some n != doms.getD c none) = true
    · rw [if_pos hchg]
      obtain ⟨d', ch', hs, i1, i2, i3, _⟩ := ih (doms.set c (some n)) true (by omega) inv' hc'
      have hmu := mu_set doms c hl (some n)
      have hlt : mu doms < mu (doms.set c (some n)) := by
        cases hd : doms.getD c none with
        | none => rw [hd] at hmu; simp only [wt] at hmu; omega
        | some w =>
          rw [hd] at hmu hchg
          have hwn : w ≤ n := hU.anc_le (inv.J c w hcl' hd n hca)
          have : w ≠ n := by
            intro e; subst e; simp at hchg
          simp only [wt] at hmu; omega
      exact ⟨d', ch', hs, i1, i2, by omega, fun _ => Or.inr (by omega)⟩
    · rw [if_neg hchg]
      have heq : doms.getD c none = some n := by
        simp only [bne_iff_ne, ne_eq, Decidable.not_not] at hchg
        exact hchg.symm
      have hset : doms.set c (some n) = doms := set_getD_self doms c (some n) heq
      rw [hset] at inv' hc'
      exact ih doms ch (by omega) inv' hc'

theorem sinv_weaken {doms : List (Option Nat)} (inv : SInv pv len doms 0) (c : Nat) : SInv pv len doms c :=
  ⟨inv.up, fun i _ hi => inv.defd i (Nat.zero_le _) hi, inv.upcl, inv.J, fun k w p hk hkw hp hkp => by
    rcases inv.E k w p hk hkw hp hkp with h | h
    · exact Or.inl h
    · omega⟩

theorem fixLoop_ok (hP : ∀ k, k < len → ∀ p ∈ pv.getD k [], p < len)
    (hH : ∀ k, k < len - 1 → ∃ p ∈ pv.getD k [], k < p)
    (hreal : ∀ k, k < len → ∀ p ∈ pv.getD k [], g.Adj (post.getD p 0) (post.getD k 0))
    (hnodup : post.Nodup) (hplen : post.length = len) :
    ∀ (k : Nat) (doms : List (Option Nat)), SInv pv len doms (len - 1) → Compl g root post len doms →
      len * len < mu doms + k →
      ∃ d, fixLoop pv (len + 2) len (List.range (len - 1)).reverse k doms = .ok (some d) ∧
        SInv pv len d 0 ∧ Compl g root post len d := by
  intro k
  induction k with
  | zero => intro doms inv _ h; have := mu_le inv.up; omega
  | succ k ih =>
    intro doms inv hc hk
    obtain ⟨d', ch', hs, i1, i2, i3, i4⟩ :=
      sweep_ok hP hH hreal hnodup hplen (len - 1) doms false (Nat.le_refl _) inv hc
    simp only [fixLoop, hs]
    cases ch' with
    | true =>
      simp only
      have : mu doms < mu d' := by
        rcases i4 rfl with h | h
        · cases h
        · exact h
      exact ih d' (sinv_weaken i1 _) i2 (by omega)
    | false => exact ⟨d', rfl, i1, i2⟩

end loop

end PetgraphModel.C16P.W2Chk
