import PetgraphModel.Model.C09Space
import PetgraphModel.Proofs.C09W3Total
import PetgraphModel.Proofs.C09W2TjBase
/-
C09 (wave 4, goal 1): a reused `DfsSpace` gives the same answers.

`Model/C09Space.lean` runs `has_path_connecting` / `toposort` on an explicit workspace (any stack, any
visit map: a `FixedBitSet` of any length and content, or a `HashSet`).  Here: the workspace runs
SIMULATE the list models of `Model/C09Algo.lean` step by step (`Rep`: the visit map represents the
list of discovered nodes), so their answers equal `hasPath` / `toposort` — whatever the workspace was.

Hypotheses: `IxInj` / `IxLt` (`to_index` injective on the nodes and below `node_bound`, needed for a
`FixedBitSet` only) and `Closed` (neighbours of nodes are nodes).
-/
namespace PetgraphModel.C09P
open PetgraphModel PetgraphModel.MGraph PetgraphModel.C09M PetgraphModel.Trav

/-- `to_index` is below `node_bound` on the nodes -/
def IxLt (v : View) : Prop := ∀ a ∈ v.g.nodes, v.toIndex a < v.nb
/- `IxInj v` (`to_index` is injective on the nodes) is defined in `Proofs/C09W2TjBase.lean`. -/

/-- what a workspace of this kind needs from the graph type: nothing for a `HashSet`, the `NodeIndexable`
contract for a `FixedBitSet` -/
def MapOk (v : View) : VMap → Prop
  | .bits _ => IxLt v ∧ IxInj v
  | .set _ => True

/-- the visit map `m` represents the discovered list `disc` (on the nodes) -/
def Rep (v : View) : VMap → List Nat → Prop
  | .bits b, disc => (IxLt v ∧ IxInj v) ∧
      ∀ x ∈ v.g.nodes, v.toIndex x < b.length ∧ b.getD (v.toIndex x) false = disc.contains x
  | .set s, disc => ∀ x, s.contains x = disc.contains x

theorem contains_cons_of_contains {d : List Nat} {x : Nat} (hc : d.contains x = true) (y : Nat) :
    (x :: d).contains y = d.contains y := by
  rw [List.contains_cons]
  by_cases hyx : y = x
  · subst hyx; rw [hc]; simp
  · have : (y == x) = false := by simpa using hyx
    rw [this]; rfl

theorem rev_toIndex (v : View) (x : Nat) : (rev v).toIndex x = v.toIndex x := rfl

theorem rep_rev (v : View) (m : VMap) (disc : List Nat) : Rep (rev v) m disc ↔ Rep v m disc := by
  cases m <;> exact Iff.rfl

theorem rep_isVisited {v : View} {m : VMap} {disc : List Nat} (h : Rep v m disc) {x : Nat}
    (hx : x ∈ v.g.nodes) : m.isVisited v x = disc.contains x := by
  cases m with
  | bits b => exact (h.2 x hx).2
  | set s => exact h x

theorem rep_congr {v : View} {m : VMap} {d d' : List Nat} (hd : ∀ y, d.contains y = d'.contains y)
    (h : Rep v m d) : Rep v m d' := by
  cases m with
  | bits b => exact ⟨h.1, fun x hx => ⟨(h.2 x hx).1, (hd x) ▸ (h.2 x hx).2⟩⟩
  | set s => exact fun x => (h x).trans (hd x)

theorem rep_reset {v : View} (m : VMap) (hm : MapOk v m) : Rep v (m.reset v) [] := by
  cases m with
  | bits b =>
    refine ⟨hm, fun x hx => ?_⟩
    have := hm.1 x hx
    simp only [List.length_replicate, List.contains_nil]
    refine ⟨by omega, ?_⟩
    rw [List.getD_eq_getElem?_getD, List.getElem?_replicate]
    split <;> rfl
  | set s => intro x; rfl

theorem mapOk_of_rep {v : View} {m : VMap} {d : List Nat} (h : Rep v m d) : MapOk v m := by
  cases m with
  | bits b => exact h.1
  | set s => trivial

theorem mapOk_reset {v : View} {m : VMap} (h : MapOk v m) : MapOk v (m.reset v) := by
  cases m <;> exact h

/-- `visit` on a represented map: never panics on a node, reports "new" exactly when the list model
does, and the new map represents the extended list -/
theorem rep_visit {v : View} {m : VMap} {disc : List Nat} (h : Rep v m disc) {x : Nat} (hx : x ∈ v.g.nodes) :
    ∃ m', m.visit v x = some (!disc.contains x, m') ∧ Rep v m' (x :: disc) := by
  cases m with
  | bits b =>
    obtain ⟨hlt, hval⟩ := h.2 x hx
    refine ⟨.bits (b.set (v.toIndex x) true), ?_, h.1, fun y hy => ?_⟩
    · simp only [VMap.visit, if_pos hlt, hval]
    · obtain ⟨hlty, hvaly⟩ := h.2 y hy
      refine ⟨by simpa using hlty, ?_⟩
      rw [List.getD_eq_getElem?_getD, List.getElem?_set]
      by_cases hxy : v.toIndex x = v.toIndex y
      · have : x = y := h.1.2 x hx y hy hxy
        subst this
        simp [hlt]
      · rw [if_neg hxy, ← List.getD_eq_getElem?_getD, hvaly]
        have hne : ¬ y = x := fun e => hxy (e ▸ rfl)
        simp [hne]
  | set s =>
    refine ⟨.set (if s.contains x then s else x :: s), ?_, fun y => ?_⟩
    · simp only [VMap.visit, h x]
    · have hs := h x
      by_cases hc : s.contains x = true
      · rw [if_pos hc]
        rw [h y, contains_cons_of_contains (hs ▸ hc)]
      · rw [if_neg hc]
        simp only [List.contains_cons, h y]

/-! ### `Dfs::next` -/

theorem filter_rep {v : View} {m : VMap} {disc : List Nat} (h : Rep v m disc) (l : List Nat)
    (hl : ∀ y ∈ l, y ∈ v.g.nodes) :
    (l.filter fun y => !m.isVisited v y) = l.filter fun y => !disc.contains y := by
  apply List.filter_congr
  intro y hy
  rw [rep_isVisited h (hl y hy)]

/-- the workspace walker simulates the list walker -/
theorem dfsNextS_sim (v : View) (hcl : Closed v) : ∀ (f : Nat) (s : Space) (d : Dfs),
    s.stack = d.stack → Rep v s.map d.disc → (∀ x ∈ d.stack, x ∈ v.g.nodes) →
    match dfsNext v f d with
    | none => dfsNextS v f s = .fuel
    | some (o, d') => ∃ s', dfsNextS v f s = .ret (o, s') ∧ s'.stack = d'.stack ∧ Rep v s'.map d'.disc ∧
        (∀ x ∈ d'.stack, x ∈ v.g.nodes) := by
  intro f
  induction f with
  | zero => intro s d _ _ _; simp [dfsNext, dfsNextS]
  | succ f ih =>
    intro s d hst hrep hn
    unfold dfsNext dfsNextS
    rw [hst]
    cases hds : d.stack with
    | nil => exact ⟨s, rfl, by rw [hst, hds], hrep, by rw [hds]; intro x hx; cases hx⟩
    | cons x st =>
      have hxn : x ∈ v.g.nodes := hn x (by rw [hds]; exact List.mem_cons_self ..)
      have hstn : ∀ y ∈ st, y ∈ v.g.nodes := fun y hy => hn y (by rw [hds]; exact List.mem_cons_of_mem _ hy)
      obtain ⟨m', hvis, hrep'⟩ := rep_visit hrep hxn
      simp only [hvis]
      by_cases hx : x ∈ d.disc
      · have hc : d.disc.contains x = true := by simpa using hx
        simp only [hc, Bool.not_true, if_pos hx]
        have hrep2 : Rep v m' d.disc := rep_congr (contains_cons_of_contains hc) hrep'
        exact ih { stack := st, map := m' } { d with stack := st } rfl hrep2 hstn
      · have hc : d.disc.contains x = false := by simpa using hx
        simp only [hc, Bool.not_false, if_neg hx]
        refine ⟨_, rfl, ?_, hrep', ?_⟩
        · simp only
          rw [filter_rep hrep' _ (hcl x hxn)]
        · intro y hy
          simp only [List.mem_append, List.mem_reverse, List.mem_filter] at hy
          rcases hy with ⟨hy, _⟩ | hy
          · exact hcl x hxn y hy
          · exact hstn y hy

/-! ### has_path_connecting -/

theorem hasPathLoopS_sim (v : View) (hcl : Closed v) (f to : Nat) : ∀ (k : Nat) (s : Space) (d : Dfs),
    s.stack = d.stack → Rep v s.map d.disc → (∀ x ∈ d.stack, x ∈ v.g.nodes) →
    (hasPathLoopS v f to k s).map (·.1) = WR.ofOption (hasPathLoop v f to k d) ∧
    ∀ r s', hasPathLoopS v f to k s = .ret (r, s') → MapOk v s'.map := by
  intro k
  induction k with
  | zero => intro s d _ _ _; exact ⟨rfl, fun r s' h => by simp [hasPathLoopS] at h⟩
  | succ k ih =>
    intro s d hst hrep hn
    have hsim := dfsNextS_sim v hcl f s d hst hrep hn
    unfold hasPathLoopS hasPathLoop
    cases hd : dfsNext v f d with
    | none =>
      rw [hd] at hsim
      simp only [hsim]
      exact ⟨rfl, fun r s' h => by cases h⟩
    | some p =>
      obtain ⟨o, d'⟩ := p
      rw [hd] at hsim
      obtain ⟨s1, h1, h2, h3, h4⟩ := hsim
      simp only [h1]
      cases o with
      | none => exact ⟨rfl, fun r s' h => by cases h; exact mapOk_of_rep h3⟩
      | some x =>
        simp only
        by_cases hx : x = to
        · simp only [if_pos hx]
          exact ⟨rfl, fun r s' h => by cases h; exact mapOk_of_rep h3⟩
        · simp only [if_neg hx]
          exact ih s1 d' h2 h3 h4

/-- **`has_path_connecting` through ANY workspace = the workspace-free model**, fuel included; and the
workspace it leaves behind is again usable -/
theorem hasPathS_eq (v : View) (hcl : Closed v) (ws : Space) (hm : MapOk v ws.map) (a b : Nat)
    (ha : a ∈ v.g.nodes) :
    (hasPathS v ws a b).map (·.1) = WR.ofOption (hasPath v a b) ∧
    ∀ r ws', hasPathS v ws a b = .ret (r, ws') → MapOk v ws'.map := by
  unfold hasPathS hasPath
  exact hasPathLoopS_sim v hcl (fuel v) b (fuel v + 4) (ws.resetTo v [a]) (({} : Dfs).moveTo a) rfl
    (rep_reset ws.map hm) (by intro x hx; simp [Dfs.moveTo] at hx; exact hx ▸ ha)

/-! ### toposort -/

/-- the workspace state of the first pass corresponds to the list state -/
structure TSRel (v : View) (s : TSS) (t : TS) : Prop where
  stack : s.sp.stack = t.stack
  rep : Rep v s.sp.map t.disc
  fin : s.fin = t.fin
  out : s.out = t.out

def exceptFst : Except (Nat × Space) TSS → Except Nat Unit
  | .error (x, _) => .error x
  | .ok _ => .ok ()

theorem topoWhileS_sim (v : View) (hcl : Closed v) : ∀ (f : Nat) (s : TSS) (t : TS),
    TSRel v s t → (∀ x ∈ t.stack, x ∈ v.g.nodes) →
    match topoWhile v f t with
    | none => topoWhileS v f s = .fuel
    | some (.error x) => ∃ sp, topoWhileS v f s = .ret (.error (x, sp)) ∧ MapOk v sp.map
    | some (.ok t') => ∃ s', topoWhileS v f s = .ret (.ok s') ∧ TSRel v s' t' := by
  intro f
  induction f with
  | zero => intro s t _ _; simp [topoWhile, topoWhileS]
  | succ f ih =>
    intro s t hrel hn
    unfold topoWhile topoWhileS
    rw [hrel.stack]
    cases hts : t.stack with
    | nil => exact ⟨s, rfl, hrel⟩
    | cons x st =>
      have hxn : x ∈ v.g.nodes := hn x (by rw [hts]; exact List.mem_cons_self ..)
      have hstn : ∀ y ∈ st, y ∈ v.g.nodes := fun y hy => hn y (by rw [hts]; exact List.mem_cons_of_mem _ hy)
      obtain ⟨m', hvis, hrep'⟩ := rep_visit hrel.rep hxn
      simp only [hvis]
      cases hc : t.disc.contains x with
      | false =>
        simp only [Bool.not_false, if_true]
        by_cases hself : (v.succ x).contains x = true
        · simp only [hself, if_true]
          exact ⟨_, rfl, mapOk_of_rep hrep'⟩
        · simp only [hself, if_false, Bool.false_eq_true]
          refine ih _ _ ⟨?_, hrep', hrel.fin, hrel.out⟩ ?_
          · simp only
            rw [filter_rep hrep' _ (hcl x hxn)]
          · intro y hy
            simp only [List.mem_append, List.mem_reverse, List.mem_filter, List.mem_cons] at hy
            rcases hy with ⟨hy, _⟩ | hy | hy
            · exact hcl x hxn y hy
            · exact hy ▸ hxn
            · exact hstn y hy
      | true =>
        have hrep2 : Rep v m' t.disc := rep_congr (contains_cons_of_contains hc) hrep'
        simp only [Bool.not_true, Bool.false_eq_true, if_false, hrel.fin, hrel.out]
        by_cases hfin : t.fin.contains x = true
        · simp only [hfin, Bool.not_true, Bool.false_eq_true, if_false]
          exact ih _ _ ⟨rfl, hrep2, rfl, rfl⟩ hstn
        · simp only [hfin, Bool.not_false, if_true]
          exact ih _ _ ⟨rfl, hrep2, rfl, rfl⟩ hstn

/-- the loop ends only with an empty stack -/
theorem topoWhile_ok_stack (v : View) : ∀ (f : Nat) (t t' : TS), topoWhile v f t = some (.ok t') → t'.stack = [] := by
  intro f
  induction f with
  | zero => intro t t' h; simp [topoWhile] at h
  | succ f ih =>
    intro t t' h
    unfold topoWhile at h
    split at h
    · rename_i hs
      simp at h; subst h; exact hs
    · split at h
      · split at h
        · simp at h
        · exact ih _ _ h
      · split at h
        · exact ih _ _ h
        · exact ih _ _ h

theorem topoFirstS_sim (v : View) (hcl : Closed v) (f : Nat) : ∀ (l : List Nat) (s : TSS) (t : TS),
    TSRel v s t → (∀ x ∈ l, x ∈ v.g.nodes) → (∀ x ∈ t.stack, x ∈ v.g.nodes) →
    match topoFirst v f l t with
    | none => topoFirstS v f l s = .fuel
    | some (.error x) => ∃ sp, topoFirstS v f l s = .ret (.error (x, sp)) ∧ MapOk v sp.map
    | some (.ok t') => ∃ s', topoFirstS v f l s = .ret (.ok s') ∧ TSRel v s' t' := by
  intro l
  induction l with
  | nil => intro s t hrel _ _; exact ⟨s, rfl, hrel⟩
  | cons i rest ih =>
    intro s t hrel hl hn
    have hin : i ∈ v.g.nodes := hl i (List.mem_cons_self ..)
    have hrest : ∀ x ∈ rest, x ∈ v.g.nodes := fun x hx => hl x (List.mem_cons_of_mem _ hx)
    unfold topoFirst topoFirstS
    rw [rep_isVisited hrel.rep hin]
    by_cases hc : t.disc.contains i = true
    · simp only [hc, if_true]
      exact ih s t hrel hrest hn
    · simp only [hc, if_false, Bool.false_eq_true]
      have hw := topoWhileS_sim v hcl f { s with sp := { s.sp with stack := i :: s.sp.stack } }
        { t with stack := i :: t.stack } ⟨by simp [hrel.stack], hrel.rep, hrel.fin, hrel.out⟩
        (by intro x hx; simp only [List.mem_cons] at hx; rcases hx with hx | hx
            · exact hx ▸ hin
            · exact hn x hx)
      cases hw' : topoWhile v f { t with stack := i :: t.stack } with
      | none => rw [hw'] at hw; simp only [hw]
      | some r =>
        rw [hw'] at hw
        cases r with
        | error x =>
          obtain ⟨sp, h1, h2⟩ := hw
          simp only [h1]
          exact ⟨sp, rfl, h2⟩
        | ok t' =>
          obtain ⟨s', h1, h2⟩ := hw
          simp only [h1]
          have hn' : ∀ x ∈ t'.stack, x ∈ v.g.nodes := by
            rw [topoWhile_ok_stack v f _ t' hw']; intro x hx; cases hx
          exact ih s' t' h2 hrest hn'

theorem closed_rev_nodes (v : View) (hclr : Closed (rev v)) : ∀ u, u ∈ v.g.nodes → ∀ w, w ∈ (rev v).succ u → w ∈ v.g.nodes :=
  fun u hu w hw => hclr u hu w hw

theorem topoSecondS_sim (v : View) (hclr : Closed (rev v)) (f : Nat) : ∀ (l : List Nat) (s : Space) (d : Dfs),
    Rep v s.map d.disc → (∀ x ∈ l, x ∈ v.g.nodes) →
    match topoSecond v f l d with
    | none => topoSecondS v f l s = .fuel
    | some o => ∃ s', topoSecondS v f l s = .ret (o, s') ∧ MapOk v s'.map := by
  intro l
  induction l with
  | nil => intro s d hrep _; exact ⟨s, rfl, mapOk_of_rep hrep⟩
  | cons i rest ih =>
    intro s d hrep hl
    have hin : i ∈ v.g.nodes := hl i (List.mem_cons_self ..)
    have hrest : ∀ x ∈ rest, x ∈ v.g.nodes := fun x hx => hl x (List.mem_cons_of_mem _ hx)
    unfold topoSecond topoSecondS
    have h1 := dfsNextS_sim (rev v) hclr f { s with stack := [i] } (d.moveTo i) rfl
      ((rep_rev v _ _).mpr hrep) (by intro x hx; simp [Dfs.moveTo] at hx; exact hx ▸ hin)
    cases hd1 : dfsNext (rev v) f (d.moveTo i) with
    | none => rw [hd1] at h1; simp only [h1]
    | some p =>
      obtain ⟨o1, d1⟩ := p
      rw [hd1] at h1
      obtain ⟨s1, e1, hs1, hr1, hn1⟩ := h1
      simp only [e1]
      cases o1 with
      | none => exact ih s1 d1 ((rep_rev v _ _).mp hr1) hrest
      | some x =>
        simp only
        have h2 := dfsNextS_sim (rev v) hclr f s1 d1 hs1 hr1 hn1
        cases hd2 : dfsNext (rev v) f d1 with
        | none => rw [hd2] at h2; simp only [h2]
        | some p2 =>
          obtain ⟨o2, d2⟩ := p2
          rw [hd2] at h2
          obtain ⟨s2, e2, _, hr2, _⟩ := h2
          simp only [e2]
          cases o2 with
          | none => exact ih s2 d2 ((rep_rev v _ _).mp hr2) hrest
          | some j => exact ⟨s2, rfl, mapOk_of_rep ((rep_rev v _ _).mp hr2)⟩

/-- the nodes the first pass emits are nodes -/
theorem topoFirst_out_nodes (v : View) (hcl : Closed v) (f : Nat) (t' : TS)
    (h : topoFirst v f v.g.nodes {} = some (.ok t')) : ∀ x ∈ t'.out, x ∈ v.g.nodes := by
  -- every emitted node was on the stack, and the stack holds nodes only
  have key : ∀ (f : Nat) (t t' : TS), (∀ x ∈ t.stack, x ∈ v.g.nodes) → (∀ x ∈ t.out, x ∈ v.g.nodes) →
      topoWhile v f t = some (.ok t') → ∀ x ∈ t'.out, x ∈ v.g.nodes := by
    intro f
    induction f with
    | zero => intro t t' _ _ h; simp [topoWhile] at h
    | succ f ih =>
      intro t t' hst hout h
      unfold topoWhile at h
      split at h
      · simp at h; subst h; exact hout
      · rename_i x st hs
        have hxn : x ∈ v.g.nodes := hst x (by rw [hs]; exact List.mem_cons_self ..)
        have hstn : ∀ y ∈ st, y ∈ v.g.nodes := fun y hy => hst y (by rw [hs]; exact List.mem_cons_of_mem _ hy)
        split at h
        · split at h
          · simp at h
          · refine ih _ t' ?_ ?_ h
            · intro y hy
              simp only [List.mem_append, List.mem_reverse, List.mem_filter, List.mem_cons] at hy
              rcases hy with ⟨hy, _⟩ | hy | hy
              · exact hcl x hxn y hy
              · exact hy ▸ hxn
              · exact hstn y hy
            · exact hout
        · split at h
          · refine ih _ t' ?_ ?_ h
            · exact hstn
            · intro y hy
              rcases List.mem_append.mp hy with hy | hy
              · exact hout y hy
              · simp at hy; exact hy ▸ hxn
          · refine ih _ t' ?_ ?_ h
            · exact hstn
            · exact hout
  have key2 : ∀ (l : List Nat) (t t' : TS), (∀ x ∈ l, x ∈ v.g.nodes) → t.stack = [] →
      (∀ x ∈ t.out, x ∈ v.g.nodes) → topoFirst v f l t = some (.ok t') → ∀ x ∈ t'.out, x ∈ v.g.nodes := by
    intro l
    induction l with
    | nil => intro t t' _ _ hout h; simp [topoFirst] at h; subst h; exact hout
    | cons i rest ih =>
      intro t t' hl hs hout h
      have hrest : ∀ x ∈ rest, x ∈ v.g.nodes := fun x hx => hl x (List.mem_cons_of_mem _ hx)
      unfold topoFirst at h
      split at h
      · exact ih t t' hrest hs hout h
      · split at h
        · cases h
        · cases h
        · rename_i s1 hw
          exact ih s1 t' hrest (topoWhile_ok_stack v f _ s1 hw)
            (key f { t with stack := i :: t.stack } s1
              (by intro x hx; simp only [hs, List.mem_cons, List.not_mem_nil, or_false] at hx; exact hx ▸ hl i (List.mem_cons_self ..))
              hout hw) h
  exact key2 v.g.nodes {} t' (fun _ h => h) rfl (by intro x hx; cases hx) h

/-- **`toposort` through ANY workspace = the workspace-free model**, fuel included; and the workspace
it leaves behind (also after an early `Err(Cycle)` with a non-empty stack) is again usable -/
theorem toposortS_eq (v : View) (hcl : Closed v) (hclr : Closed (rev v)) (ws : Space) (hm : MapOk v ws.map) :
    (toposortS v ws).map (·.1) = WR.ofOption (toposort v) ∧
    ∀ r ws', toposortS v ws = .ret (r, ws') → MapOk v ws'.map := by
  simp only [toposortS, toposort]
  have h1 := topoFirstS_sim v hcl (2 * fuel v) v.g.nodes { sp := ws.resetTo v [] } {}
    ⟨rfl, rep_reset ws.map hm, rfl, rfl⟩ (fun _ h => h) (by intro x hx; cases hx)
  cases hf : topoFirst v (2 * fuel v) v.g.nodes {} with
  | none =>
    rw [hf] at h1
    simp only [h1]
    exact ⟨rfl, fun r ws' h => by cases h⟩
  | some r =>
    rw [hf] at h1
    cases r with
    | error x =>
      obtain ⟨sp, e1, hsp⟩ := h1
      simp only [e1]
      exact ⟨rfl, fun r ws' h => by cases h; exact hsp⟩
    | ok t' =>
      obtain ⟨s', e1, hrel⟩ := h1
      simp only [e1, hrel.out]
      have h2 := topoSecondS_sim v hclr (2 * fuel v) t'.out.reverse (s'.sp.resetTo v []) {}
        (rep_reset _ (mapOk_of_rep hrel.rep))
        (fun x hx => topoFirst_out_nodes v hcl _ t' hf x (List.mem_reverse.mp hx))
      cases hs : topoSecond v (2 * fuel v) t'.out.reverse {} with
      | none =>
        rw [hs] at h2
        simp only [h2]
        exact ⟨rfl, fun r ws' h => by cases h⟩
      | some o =>
        rw [hs] at h2
        obtain ⟨s2, e2, hm2⟩ := h2
        simp only [e2]
        cases o with
        | none => exact ⟨rfl, fun r ws' h => by cases h; exact hm2⟩
        | some j => exact ⟨rfl, fun r ws' h => by cases h; exact hm2⟩

/-! ### any sequence of calls through one workspace -/

/-- every call is made with a start node that is a node -/
def OpsOk (v : View) (ops : List SpaceOp) : Prop :=
  ∀ op ∈ ops, match op with | .hasPath a _ => a ∈ v.g.nodes | .toposort => True

theorem wr_map_ret {α β : Type} {f : α → β} {w : WR α} {b : β} (h : w.map f = .ret b) : ∃ a, w = .ret a ∧ f a = b := by
  cases w with
  | fuel => cases h
  | panic => cases h
  | ret a => exact ⟨a, rfl, by simpa [WR.map] using h⟩

theorem wr_map_fuel {α β : Type} {f : α → β} {w : WR α} (h : w.map f = .fuel) : w = .fuel := by
  cases w with
  | fuel => rfl
  | panic => cases h
  | ret a => cases h

/-- **a reused `DfsSpace` gives the same answers**: whatever the workspace holds at the start, every
call of a sequence of `has_path_connecting` / `toposort` calls through it answers exactly what the same
call answers without a workspace; in particular nothing panics. -/
theorem runSpace_eq (v : View) (hcl : Closed v) (hclr : Closed (rev v)) : ∀ (ops : List SpaceOp) (ws : Space),
    MapOk v ws.map → OpsOk v ops → (runSpace v ws ops).1 = ops.map (freshAns v) := by
  intro ops
  induction ops with
  | nil => intro ws _ _; rfl
  | cons op ops ih =>
    intro ws hm hops
    have hrest : OpsOk v ops := fun o ho => hops o (List.mem_cons_of_mem _ ho)
    have hop := hops op (List.mem_cons_self ..)
    unfold runSpace
    cases op with
    | hasPath a b =>
      obtain ⟨e, hm'⟩ := hasPathS_eq v hcl ws hm a b hop
      simp only [List.map_cons, freshAns]
      cases hp : hasPath v a b with
      | none =>
        rw [hp] at e
        have := wr_map_fuel e
        simp only [this]
        rw [ih ws hm hrest]
      | some r =>
        rw [hp] at e
        obtain ⟨⟨r', ws'⟩, e1, e2⟩ := wr_map_ret e
        simp only at e2
        subst e2
        simp only [e1]
        rw [ih ws' (hm' _ _ e1) hrest]
    | toposort =>
      obtain ⟨e, hm'⟩ := toposortS_eq v hcl hclr ws hm
      simp only [List.map_cons, freshAns]
      cases hp : toposort v with
      | none =>
        rw [hp] at e
        have := wr_map_fuel e
        simp only [this]
        rw [ih ws hm hrest]
      | some r =>
        rw [hp] at e
        obtain ⟨⟨r', ws'⟩, e1, e2⟩ := wr_map_ret e
        simp only at e2
        subst e2
        simp only [e1]
        rw [ih ws' (hm' _ _ e1) hrest]

end PetgraphModel.C09P
