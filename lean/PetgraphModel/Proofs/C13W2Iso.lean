import PetgraphModel.Proofs.C13W2Spec
/-
C13, wave 2 — isomorphism mode (`is_isomorphic[_matching]`): with `n0 = n1` a valid complete mapping is a
bijection, its inverse is a valid complete mapping of the exchanged instance, so the frontier sets have EQUAL
cardinalities along it and the edge counts agree: the `!=` rejections and the `==` pruning lose nothing.
-/
namespace PetgraphModel.C13.Vf2
open PetgraphModel

/-- the instance with the roles of the two graphs exchanged -/
def Inst.swap (I : Inst) : Inst :=
  { g0 := I.g1, g1 := I.g0, nm := fun x y => I.nm y x, em := fun x y => I.em y x, semantic := I.semantic }

/-- the g0 node mapped to `j` -/
def invIdx (I : Inst) (mp : List (Option Nat)) (j : Nat) : Nat :=
  ((List.range I.g0.n).find? fun i => mp[i]? == some (some j)).getD 0

/-- the inverse of a complete mapping, as a vector over the nodes of g1 -/
def invVec (I : Inst) (mp : List (Option Nat)) : List (Option Nat) :=
  (List.range I.g1.n).map fun j => some (invIdx I mp j)

theorem invIdx_spec {I : Inst} {mp : List (Option Nat)} {i j : Nat} (hi : i < I.g0.n)
    (h : mp[i]? = some (some j)) : invIdx I mp j < I.g0.n ∧ mp[invIdx I mp j]? = some (some j) := by
  unfold invIdx
  cases hf : (List.range I.g0.n).find? (fun i => mp[i]? == some (some j)) with
  | none =>
    exfalso
    rw [List.find?_eq_none] at hf
    have := hf i (List.mem_range.mpr hi)
    simp [h] at this
  | some k =>
    have h1 := List.mem_range.mp (List.mem_of_find?_eq_some hf)
    have h2 := List.find?_some hf
    simp only [beq_iff_eq] at h2
    exact ⟨h1, h2⟩

theorem Final.invIdx_eq {I : Inst} {mp : List (Option Nat)} (f : Final I mp) {i j : Nat}
    (h : mp[i]? = some (some j)) : invIdx I mp j = i :=
  f.inj _ _ j (invIdx_spec (f.lt_of_get h) h).2 h

theorem invVec_get {I : Inst} {mp : List (Option Nat)} {j : Nat} (hj : j < I.g1.n) :
    (invVec I mp)[j]? = some (some (invIdx I mp j)) := by
  simp [invVec, hj]

theorem invVec_getD {I : Inst} {mp : List (Option Nat)} {j i : Nat}
    (h : ((invVec I mp)[j]?).getD none = some i) : j < I.g1.n ∧ invIdx I mp j = i := by
  by_cases hj : j < I.g1.n
  · rw [invVec_get hj] at h
    simp only [Option.getD_some, Option.some.injEq] at h
    exact ⟨hj, h⟩
  · rw [List.getElem?_eq_none (by simp [invVec]; omega)] at h
    cases h

theorem edgeEq_swap (I : Inst) (i i' j j' : Nat) : edgeEq I.swap j j' i i' = edgeEq I i i' j j' := by
  unfold edgeEq
  show (match I.g1.ew j j', I.g0.ew i i' with
    | some x, some y => I.em y x
    | _, _ => false) = _
  cases I.g0.ew i i' <;> cases I.g1.ew j j' <;> rfl

/-- the inverse of a bijective valid complete mapping is one of the exchanged instance -/
theorem Final.swap {I : Inst} {mp : List (Option Nat)} (f : Final I mp) (hn : I.g0.n = I.g1.n) :
    Final I.swap (invVec I mp) := by
  have key : ∀ j i : Nat, ((invVec I mp)[j]?).getD none = some i → mp[i]? = some (some j) := by
    intro j i h
    obtain ⟨hj, rfl⟩ := invVec_getD h
    obtain ⟨i0, hi0, h0⟩ := f.onto hn j hj
    exact (invIdx_spec hi0 h0).2
  refine ⟨by simp [invVec, Inst.swap], ?_, ?_, ⟨?_, ?_, ?_⟩⟩
  · intro j hj
    have hj : j < I.g1.n := hj
    obtain ⟨i0, hi0, h0⟩ := f.onto hn j hj
    exact ⟨_, invVec_get hj, (invIdx_spec hi0 h0).1⟩
  · intro j j' i h h'
    have a := key j i (by rw [h]; rfl)
    have b := key j' i (by rw [h']; rfl)
    rw [a] at b
    exact Option.some.inj (Option.some.inj b)
  · intro j i j' i' h h'
    exact (f.adj' (key j i h) (key j' i' h')).symm
  · intro hs j i h
    exact f.node' hs (key j i h)
  · intro hs j i j' i' h h' ha
    rw [edgeEq_swap]
    have ha : I.g1.adj j j' = true := ha
    exact f.edge' hs (key j i h) (key j' i' h') (by rw [f.adj' (key j i h) (key j' i' h')]; exact ha)

theorem ExtT.swap {I : Inst} {mp : List (Option Nat)} (f : Final I mp) {tr : List (Nat × Nat)}
    (e : ExtT mp tr) : ExtT (invVec I mp) (tr.map Prod.swap) := by
  intro q hq
  obtain ⟨p, hp, rfl⟩ := List.mem_map.mp hq
  have h := e p hp
  show (invVec I mp)[p.2]? = some (some p.1)
  have hlt : p.2 < I.g1.n := by
    have := f.get (f.lt_of_get h)
    rw [fval_of h] at this
    exact this.2
  rw [invVec_get hlt, f.invIdx_eq h]

theorem map_swap_swap (tr : List (Nat × Nat)) : (tr.map Prod.swap).map Prod.swap = tr := by
  induction tr with
  | nil => rfl
  | cons p tr ih => simp [ih]

/-- completeness of the frontier-size pruning in isomorphism mode -/
theorem ExtT.sizesOkS_iso {I : Inst} (ok0 : CGOk I.g0) (ok1 : CGOk I.g1) (hd : I.g0.directed = I.g1.directed)
    (hn : I.g0.n = I.g1.n) (tr : List (Nat × Nat)) (mp : List (Option Nat)) (f : Final I mp) (e : ExtT mp tr) :
    sizesOkS false (SG I.g0 tr) (SG I.g1 (tr.map Prod.swap)) = true := by
  have a := e.sizes ok0 ok1 hd f
  have b := (e.swap f).sizes (I := I.swap) ok1 ok0 hd.symm (f.swap hn)
  rw [map_swap_swap] at b
  have b : (SG I.g1 (tr.map Prod.swap)).outSize ≤ (SG I.g0 tr).outSize ∧
      (SG I.g1 (tr.map Prod.swap)).insSize ≤ (SG I.g0 tr).insSize := b
  unfold sizesOkS
  simp
  omega

/-- a bijection preserves the number of edges -/
theorem Final.ecount_eq {I : Inst} (ok0 : CGOk I.g0) (ok1 : CGOk I.g1) (hd : I.g0.directed = I.g1.directed)
    (e0 : ECountOk I.g0) (e1 : ECountOk I.g1) {mp : List (Option Nat)} (f : Final I mp)
    (hn : I.g0.n = I.g1.n) : I.g0.ecount = I.g1.ecount := by
  have a := f.ecount_le ok0 ok1 hd e0 e1
  have b : I.g1.ecount ≤ I.g0.ecount := (f.swap hn).ecount_le (I := I.swap) ok1 ok0 hd.symm e1 e0
  omega

/-- `is_isomorphic[_matching]` of the model answers `false` only if no valid complete mapping is a bijection -/
theorem isoModel_complete {I : Inst} (ok0 : CGOk I.g0) (ok1 : CGOk I.g1) (hd : I.g0.directed = I.g1.directed)
    (hin : I.g0.directed = true → ∀ i, (I.g0.inNb i).Nodup) (hn : 0 < I.g0.n)
    (e0 : ECountOk I.g0) (e1 : ECountOk I.g1)
    (hfuel : (isomorphisms I false bigFuel (M.init I)).isSome = true)
    (h : isoModel I = false) : ¬ ∃ mp, Final I mp ∧ I.g0.n = I.g1.n := by
  rintro ⟨mp, hf, hnn⟩
  unfold isoModel at h
  split at h
  · rename_i hc
    simp only [Bool.or_eq_true, bne_iff_ne, ne_eq] at hc
    have := hf.ecount_eq ok0 ok1 hd e0 e1 hnn
    rcases hc with hc | hc
    · exact hc hnn
    · exact hc this
  · unfold tryMatch at h
    have tinit : TInv I (M.init I) := by
      refine ⟨rfl, rfl, ?_, ?_⟩
      · intro fr hfr; simp [M.init] at hfr
      · show FrOk I [Frame.outer]
        simp [FrOk]
    have hinc : (M.init I).s0.isComplete = false := by
      show (St.new I.g0).isComplete = false
      simp only [St.isComplete, St.new, List.length_replicate, beq_eq_false_iff_ne, ne_eq]
      omega
    cases hiso : isomorphisms I false bigFuel (M.init I) with
    | none => rw [hiso] at hfuel; cases hfuel
    | some pr =>
      obtain ⟨m', r⟩ := pr
      rw [hiso] at h
      cases r with
      | some x => cases h
      | none =>
        have post := isomorphisms_pending ok0 ok1 hd hin hn (ExtT.sizesOkS_iso ok0 ok1 hd hnn)
          (init_inv I) tinit hinc hiso
        have hst := post.done rfl
        have hp : Pending I mp (M.init I).stack := by
          show Pending I mp [Frame.outer]
          simp only [Pending, trailOf_nil, List.length_nil]
          exact Or.inl ⟨fun p hp => (by cases hp), hn⟩
        have := ((post.pend mp hf).1).mpr hp
        rw [hst] at this
        rcases this with h' | h'
        · exact h'
        · cases h'

/-- an onto embedding needs as many pattern nodes as target nodes -/
theorem node_count_eq_of_onto {I : Inst} {mp : List (Option Nat)} (hf : Final I mp) {f : Nat → Nat}
    (honto : ∀ b, b < I.g1.n → ∃ a, a < I.g0.n ∧ f a = b) : I.g0.n = I.g1.n := by
  have h1 := hf.node_count_le
  have hsub : List.range I.g1.n ⊆ (List.range I.g0.n).map f := by
    intro b hb
    obtain ⟨a, ha, rfl⟩ := honto b (List.mem_range.mp hb)
    exact List.mem_map.mpr ⟨a, List.mem_range.mpr ha, rfl⟩
  have := (List.subperm_of_subset List.nodup_range hsub).length_le
  simp only [List.length_range, List.length_map] at this
  omega

end PetgraphModel.C13.Vf2
