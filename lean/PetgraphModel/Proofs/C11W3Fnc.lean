import PetgraphModel.Proofs.C11Models
/-
C11, wave 3 — `find_negative_cycle` (repaired code: the detected relaxation `pred[j] := i` is carried
out before the predecessor walk): the returned sequence is a closed walk along arcs of the graph
with negative total cost.

* `PInv`: a ghost weight `wt x` (the cost of the arc that last relaxed `x`) makes every predecessor
  entry a *good* arc (`d[pred x] + wt x ≤ d[x]`), and EVERY cycle of the predecessor graph has
  negative cost (the arc that closed it was strictly improving; `cyc_update`).
* the walk of `fncLoop` cannot run into a node without predecessor: that node would be the source,
  still at distance `0`, and the chain `s ⇝ i → j` would be a walk of at most `|V| − 1` arcs that
  costs less than `d[j]` — impossible after `|V| − 1` passes (`passK_lower`).
* hence the walk closes a cycle of the predecessor graph; reversed it is a closed walk of the graph.
-/
namespace PetgraphModel.C11W3
open PetgraphModel PetgraphModel.MGraph PetgraphModel.Oracle PetgraphModel.DistProofs PetgraphModel.C11P
open PetgraphModel.C11M PetgraphModel.C11MP

/-! ### spec level: closed walks over the consecutive nodes of a sequence -/

/-- consecutive nodes of the list are joined by arcs, and its last node is joined to `v0` -/
inductive ClosedFrom (g : MGraph) (v0 : Nat) : List Nat → Int → Prop
  | last {a : Nat} {w : Int} : (a, v0, w) ∈ g.arcs → ClosedFrom g v0 [a] w
  | cons {a b : Nat} {l : List Nat} {w c : Int} : (a, b, w) ∈ g.arcs → ClosedFrom g v0 (b :: l) c →
      ClosedFrom g v0 (a :: b :: l) (w + c)

/-- `ClosedWalkCost g [v0, …, vk-1] c`: there are arcs `v0 → v1 → … → vk-1 → v0` of total cost `c`
(a single node needs a self-loop) -/
inductive ClosedWalkCost (g : MGraph) : List Nat → Int → Prop
  | mk {v0 : Nat} {rest : List Nat} {c : Int} : ClosedFrom g v0 (v0 :: rest) c → ClosedWalkCost g (v0 :: rest) c

theorem ClosedFrom.walk {g : MGraph} {v0 : Nat} {l : List Nat} {c : Int} (h : ClosedFrom g v0 l c) :
    ∀ a t, l = a :: t → WalkCost g a v0 c := by
  induction h with
  | last harc => intro a t e; cases e; exact walk_single harc
  | cons harc _ ih => intro a t e; cases e; exact walk_trans (walk_single harc) (ih _ _ rfl)

/-- a closed walk in this sense is a closed walk of the graph through its first node -/
theorem ClosedWalkCost.walk {g : MGraph} {seq : List Nat} {c : Int} (h : ClosedWalkCost g seq c) :
    ∃ v0 rest, seq = v0 :: rest ∧ WalkCost g v0 v0 c := by
  cases h with
  | mk h' => exact ⟨_, _, rfl, h'.walk _ _ rfl⟩

/-- reading of the accumulator of `checkNegClosedWalk` -/
theorem fold_closed (g : MGraph) (v0 : Nat) : ∀ (rest : List Nat) (a : Nat) (t0 t : Int),
    ((a :: rest).zip (rest ++ [v0])).foldl (stepF g) (some t0) = some t →
      ClosedFrom g v0 (a :: rest) (t - t0) := by
  intro rest
  induction rest with
  | nil =>
    intro a t0 t h
    simp only [List.nil_append, List.zip_cons_cons, List.zip_nil_right, List.foldl_cons,
      List.foldl_nil, stepF] at h
    cases hm : minArc g a v0 with
    | none => simp [hm] at h
    | some w =>
      simp only [hm, Option.some.injEq] at h
      have e : t - t0 = w := by omega
      rw [e]; exact ClosedFrom.last (minArc_mem hm)
  | cons b rest ih =>
    intro a t0 t h
    simp only [List.cons_append, List.zip_cons_cons, List.foldl_cons] at h
    cases hm : minArc g a b with
    | none =>
      have : stepF g (some t0) (a, b) = none := by simp [stepF, hm]
      rw [this, foldl_stepF_none] at h; cases h
    | some w =>
      have : stepF g (some t0) (a, b) = some (t0 + w) := by simp [stepF, hm]
      rw [this] at h
      have h1 := ih b (t0 + w) t h
      have e : t - t0 = w + (t - (t0 + w)) := by omega
      rw [e]; exact ClosedFrom.cons (minArc_mem hm) h1

/-- **reading of the checker**: an accepted sequence is a closed walk of negative cost over its
consecutive nodes -/
theorem checkNegClosedWalk_reading (g : MGraph) (seq : List Nat) (h : checkNegClosedWalk g seq = true) :
    ∃ c, c < 0 ∧ ClosedWalkCost g seq c := by
  cases seq with
  | nil => simp [checkNegClosedWalk] at h
  | cons v0 rest =>
    simp only [checkNegClosedWalk, List.drop_succ_cons, List.drop_zero] at h
    split at h
    · rename_i t ht
      have hw := fold_closed g v0 rest v0 0 t ht
      refine ⟨t, by simpa using h, ?_⟩
      have e : t - 0 = t := by omega
      rw [e] at hw
      exact ClosedWalkCost.mk hw
    · cases h

theorem foldl_min_le (w : Int) : ∀ (l : List Int) (acc : Option Int),
    (w ∈ l ∨ ∃ m, acc = some m ∧ m ≤ w) →
    ∃ m, l.foldl (fun acc w => match acc with | none => some w | some m => some (min m w)) acc = some m ∧ m ≤ w := by
  intro l
  induction l with
  | nil =>
    intro acc h
    rcases h with h | ⟨m, hm, hle⟩
    · cases h
    · exact ⟨m, by simpa using hm, hle⟩
  | cons x l ih =>
    intro acc h
    rw [List.foldl_cons]
    apply ih
    rcases h with h | ⟨m, hm, hle⟩
    · rcases List.mem_cons.mp h with rfl | h
      · right
        cases acc with
        | none => exact ⟨w, rfl, Int.le_refl _⟩
        | some m => exact ⟨min m w, rfl, Int.min_le_right _ _⟩
      · exact Or.inl h
    · right
      subst hm
      exact ⟨min m x, rfl, Int.le_trans (Int.min_le_left _ _) hle⟩

theorem minArc_le {g : MGraph} {u v : Nat} {w : Int} (h : (u, v, w) ∈ g.arcs) :
    ∃ m, minArc g u v = some m ∧ m ≤ w := by
  unfold minArc
  apply foldl_min_le
  left
  simp only [List.mem_filterMap]
  exact ⟨(u, v, w), h, by simp⟩

/-- the checker is complete: it accepts every closed walk of negative cost -/
theorem fold_closed_complete (g : MGraph) (v0 : Nat) {l : List Nat} {c : Int} (h : ClosedFrom g v0 l c) :
    ∀ a rest, l = a :: rest → ∀ t0 : Int,
      ∃ t, ((a :: rest).zip (rest ++ [v0])).foldl (stepF g) (some t0) = some t ∧ t ≤ t0 + c := by
  induction h with
  | last harc =>
    intro a rest e t0
    cases e
    obtain ⟨m, hm, hle⟩ := minArc_le harc
    refine ⟨t0 + m, ?_, by omega⟩
    simp [stepF, hm]
  | cons harc h2 ih =>
    rename_i a' b l' w c'
    intro a rest e t0
    cases e
    obtain ⟨m, hm, hle⟩ := minArc_le harc
    obtain ⟨t, ht, htle⟩ := ih b l' rfl (t0 + m)
    refine ⟨t, ?_, by omega⟩
    simp only [List.cons_append, List.zip_cons_cons, List.foldl_cons]
    have : stepF g (some t0) (a', b) = some (t0 + m) := by simp [stepF, hm]
    rw [this]; exact ht

theorem checkNegClosedWalk_complete (g : MGraph) (seq : List Nat) (c : Int) (hc : c < 0)
    (h : ClosedWalkCost g seq c) : checkNegClosedWalk g seq = true := by
  cases h with
  | mk h' =>
    rename_i v0 rest
    obtain ⟨t, ht, hle⟩ := fold_closed_complete g v0 h' v0 rest rfl 0
    simp only [checkNegClosedWalk, List.drop_succ_cons, List.drop_zero]
    split
    · rename_i t' ht'
      have e : some t' = some t := ht'.symm.trans ht
      cases e
      simp; omega
    · rename_i hn
      have e : (none : Option Int) = some t := hn.symm.trans ht
      cases e

/-! ### chains of the predecessor table, costed by a ghost weight per node -/

/-- `PC p wt j x c`: the predecessor entries lead from `x` back up to `j`
(`pred x = u`, `pred u = …`, `… = j`); `c` = sum of `wt` over the nodes below `j` on the way -/
inductive PC (p : Tab Nat Nat) (wt : Nat → Int) (j : Nat) : Nat → Int → Prop
  | root : PC p wt j j 0
  | step {u x : Nat} {c : Int} : PC p wt j u c → tget p x = some u → PC p wt j x (c + wt x)

theorem PC.trans {p : Tab Nat Nat} {wt : Nat → Int} {a m x : Nat} {c1 c2 : Int}
    (h1 : PC p wt a m c1) (h2 : PC p wt m x c2) : PC p wt a x (c1 + c2) := by
  induction h2 with
  | root => simpa using h1
  | step _ hp ih =>
    rw [← Int.add_assoc]
    exact PC.step ih hp

/-- the predecessor entries are good arcs w.r.t. the ghost weights -/
def PArc (g : MGraph) (d : Tab Nat Int) (p : Tab Nat Nat) (wt : Nat → Int) : Prop :=
  ∀ x u, tget p x = some u →
    ∃ a b, tget d u = some a ∧ tget d x = some b ∧ (u, x, wt x) ∈ g.arcs ∧ a + wt x ≤ b

/-- every cycle of the predecessor graph has negative cost -/
def PCyc (p : Tab Nat Nat) (wt : Nat → Int) : Prop :=
  ∀ x u c, PC p wt x u c → tget p x = some u → c + wt x < 0

structure PInv (g : MGraph) (s : Nat) (d : Tab Nat Int) (p : Tab Nat Nat) (wt : Nat → Int) : Prop where
  arc : PArc g d p wt
  cyc : PCyc p wt
  src0 : tget p s = none → tget d s = some 0

/-- telescoping the good arcs -/
theorem PC.tele {g : MGraph} {d : Tab Nat Int} {p : Tab Nat Nat} {wt : Nat → Int} (ha : PArc g d p wt)
    {j x : Nat} {c : Int} (h : PC p wt j x c) :
    (x = j ∧ c = 0) ∨ ∃ a b, tget d j = some a ∧ tget d x = some b ∧ c ≤ b - a := by
  induction h with
  | root => exact Or.inl ⟨rfl, rfl⟩
  | step hprev hp ih =>
    rename_i u x c
    obtain ⟨a', b', hu, hx, _, hle⟩ := ha x u hp
    right
    rcases ih with ⟨huj, hc0⟩ | ⟨a, b, hj, hub, hcle⟩
    · subst huj; exact ⟨a', b', hu, hx, by omega⟩
    · rw [hu] at hub; cases hub
      exact ⟨a, b', hj, hx, by omega⟩

/-- a chain that avoids the entry of `j` lives in every table that agrees off `j` -/
theorem pc_of_erase {p p' : Tab Nat Nat} {wt wt' : Nat → Int} {j : Nat}
    (hp : ∀ y, y ≠ j → tget p' y = tget p y) (hw : ∀ y, y ≠ j → wt' y = wt y)
    {a x : Nat} {c : Int} (h : PC (terase p j) wt a x c) : PC p' wt' a x c := by
  induction h with
  | root => exact PC.root
  | step hprev hpx ih =>
    rename_i u x c
    rw [tget_terase] at hpx
    split at hpx
    · cases hpx
    · rename_i hxj
      rw [← hw x hxj]
      exact PC.step ih (by rw [hp x hxj]; exact hpx)

/-- **one relaxation keeps "every predecessor cycle is negative"** (only the tables of `pred` and of
the ghost weights change here; the distance table is the one *before* the relaxation) -/
theorem cyc_update {g : MGraph} {d : Tab Nat Int} {p : Tab Nat Nat} {wt : Nat → Int}
    (ha : PArc g d p wt) (hc : PCyc p wt) {i j : Nat} {w xi : Int}
    (hxi : tget d i = some xi) (hlt : ∀ y, tget d j = some y → xi + w < y) :
    PCyc (tset p j i) (fun x => if x = j then w else wt x) := by
  have hpn : ∀ y, y ≠ j → tget (tset p j i) y = tget p y := fun y hy => by rw [tget_tset, if_neg hy]
  have hwn : ∀ y, y ≠ j → (fun x => if x = j then w else wt x) y = wt y := fun y hy => by simp [hy]
  have hpj : tget (tset p j i) j = some i := by rw [tget_tset, if_pos rfl]
  -- a chain `j ⇝ i` of the old table closes a negative cycle with the new arc
  have key0 : ∀ c', PC (terase p j) wt j i c' → c' + w < 0 := by
    intro c' h
    have hold : PC p wt j i c' := pc_of_erase (fun _ _ => rfl) (fun _ _ => rfl) h
    rcases hold.tele ha with ⟨hij, hc0⟩ | ⟨a, b, hj, hi, hle⟩
    · subst hij
      have := hlt xi hxi
      omega
    · rw [hxi] at hi; cases hi
      have := hlt a hj
      omega
  -- chains from `j` in the new table
  have hV : ∀ x c, PC (tset p j i) (fun x => if x = j then w else wt x) j x c →
      PC (terase p j) wt j x c ∨ ∃ c2, PC (terase p j) wt j x c2 ∧ c < c2 := by
    intro x c h
    induction h with
    | root => exact Or.inl PC.root
    | step hprev hpx ih =>
      rename_i u x c
      by_cases hxj : x = j
      · subst hxj
        rw [hpj] at hpx; cases hpx
        simp only [if_true]
        right
        refine ⟨0, PC.root, ?_⟩
        rcases ih with h1 | ⟨c2, h1, hlt2⟩
        · have := key0 _ h1; omega
        · have := key0 _ h1; omega
      · have hpx' : tget (terase p j) x = some u := by
          rw [tget_terase, if_neg hxj, ← hpn x hxj]; exact hpx
        simp only [if_neg hxj]
        rcases ih with h1 | ⟨c2, h1, hlt2⟩
        · exact Or.inl (PC.step h1 hpx')
        · exact Or.inr ⟨c2 + wt x, PC.step h1 hpx', by omega⟩
  -- chains from anywhere in the new table
  have hU : ∀ a x c, PC (tset p j i) (fun x => if x = j then w else wt x) a x c →
      PC (terase p j) wt a x c ∨
      ∃ c1 c2, PC (tset p j i) (fun x => if x = j then w else wt x) a j c1 ∧ PC (terase p j) wt j x c2 ∧ c = c1 + c2 := by
    intro a x c h
    induction h with
    | root => exact Or.inl PC.root
    | step hprev hpx ih =>
      rename_i u x c
      by_cases hxj : x = j
      · right
        subst hxj
        exact ⟨_, 0, PC.step hprev hpx, PC.root, by omega⟩
      · have hpx' : tget (terase p j) x = some u := by
          rw [tget_terase, if_neg hxj, ← hpn x hxj]; exact hpx
        simp only [if_neg hxj]
        rcases ih with h1 | ⟨c1, c2, h1, h2, hc⟩
        · exact Or.inl (PC.step h1 hpx')
        · exact Or.inr ⟨c1, c2 + wt x, h1, PC.step h2 hpx', by omega⟩
  intro x u c hpc hpx
  by_cases hxj : x = j
  · subst hxj
    rw [hpj] at hpx; cases hpx
    simp only [if_true]
    rcases hV _ _ hpc with h1 | ⟨c2, h1, hlt2⟩
    · exact key0 _ h1
    · have := key0 _ h1; omega
  · simp only [if_neg hxj]
    have hpx' : tget p x = some u := by rw [← hpn x hxj]; exact hpx
    rcases hU _ _ _ hpc with h1 | ⟨c1, c2, h1, h2, hc12⟩
    · exact hc x u c (pc_of_erase (fun _ _ => rfl) (fun _ _ => rfl) h1) hpx'
    · -- the cycle passes through `j`: rotate it
      cases h1 with
      | root => exact absurd rfl hxj
      | step h1' hpj' =>
        rename_i u' c1'
        rw [hpj] at hpj'; cases hpj'
        simp only [if_true] at hc12
        have hnew : PC (tset p j i) (fun x => if x = j then w else wt x) j u c2 := pc_of_erase hpn hwn h2
        have hstep := PC.step (wt := fun x => if x = j then w else wt x) hnew hpx
        simp only [if_neg hxj] at hstep
        have hall := hstep.trans h1'
        rcases hV _ _ hall with h3 | ⟨c3, h3, hlt3⟩
        · have := key0 _ h3; omega
        · have := key0 _ h3; omega

/-- one successful relaxation of the arc `i → j` of cost `w` -/
theorem pinv_update {g : MGraph} {s : Nat} {d : Tab Nat Int} {p : Tab Nat Nat} {wt : Nat → Int}
    (h : PInv g s d p wt) {i j : Nat} {w xi : Int} (hxi : tget d i = some xi) (harc : (i, j, w) ∈ g.arcs)
    (hlt : ∀ y, tget d j = some y → xi + w < y) :
    PInv g s (tset d j (xi + w)) (tset p j i) (fun x => if x = j then w else wt x) := by
  refine ⟨?_, cyc_update h.arc h.cyc hxi hlt, ?_⟩
  · intro x u hx
    rw [tget_tset] at hx
    by_cases hxj : x = j
    · rw [if_pos hxj] at hx
      have hui : u = i := by simpa using hx.symm
      rw [hui, hxj]
      simp only [if_true]
      refine ⟨if i = j then xi + w else xi, xi + w, ?_, by rw [tget_tset, if_pos rfl], harc, ?_⟩
      · rw [tget_tset]
        split
        · rfl
        · exact hxi
      · split
        · rename_i hij
          have := hlt xi (hij ▸ hxi)
          omega
        · omega
    · rw [if_neg hxj] at hx
      simp only [if_neg hxj]
      obtain ⟨a, b, hu, hb, hmem, hle⟩ := h.arc x u hx
      by_cases huj : u = j
      · refine ⟨xi + w, b, by rw [tget_tset, if_pos huj], by rw [tget_tset, if_neg hxj]; exact hb, hmem, ?_⟩
        have := hlt a (huj ▸ hu)
        omega
      · exact ⟨a, b, by rw [tget_tset, if_neg huj]; exact hu, by rw [tget_tset, if_neg hxj]; exact hb, hmem, hle⟩
  · intro hs
    rw [tget_tset] at hs ⊢
    split at hs
    · cases hs
    · rename_i hsj
      rw [if_neg hsj]
      exact h.src0 hs

/-! threading the ghost invariant through `bellman_ford_initialize_relax` -/

def PInvE (g : MGraph) (s : Nat) (st : BF) : Prop := ∃ wt, PInv g s st.d st.p wt

theorem bfEdge_pinv {g : MGraph} {s : Nat} (v : View) (i : Nat) (te : Nat × Nat) (st : BF)
    (harc : (i, te.1, v.weight te.2) ∈ g.arcs) (h : PInvE g s st) : PInvE g s (bfEdge v i st te) := by
  unfold bfEdge
  split
  · exact h
  · rename_i x hx
    split
    · rename_i hlt
      obtain ⟨wt, hP⟩ := h
      exact ⟨_, pinv_update hP hx harc (fltLt_some hlt)⟩
    · exact h

theorem bfEdges_pinv {g : MGraph} {s : Nat} (v : View) (i : Nat) :
    ∀ (l : List (Nat × Nat)) (st : BF), (∀ te ∈ l, (i, te.1, v.weight te.2) ∈ g.arcs) →
      PInvE g s st → PInvE g s (l.foldl (bfEdge v i) st) := by
  intro l
  induction l with
  | nil => intro st _ h; exact h
  | cons te l ih =>
    intro st hl h
    simp only [List.foldl_cons]
    exact ih _ (fun t ht => hl t (List.mem_cons_of_mem _ ht))
      (bfEdge_pinv v i te st (hl te (List.mem_cons_self ..)) h)

theorem bfPass_pinv {s : Nat} (v : View) (hv : ViewArcs v) (st : BF) (h : PInvE v.g s st) :
    PInvE v.g s (bfPass v st) := by
  unfold bfPass
  apply foldl_inv (PInvE v.g s) _ _ v.g.nodes st h
  intro st a hst
  exact bfEdges_pinv v a _ st (hv.sound a) hst

theorem bfRounds_pinv {s : Nat} (v : View) (hv : ViewArcs v) :
    ∀ (k : Nat) (st : BF), PInvE v.g s st → PInvE v.g s (bfRounds v k st) := by
  intro k
  induction k with
  | zero => intro st h; exact h
  | succ k ih =>
    intro st h
    have h' : PInvE v.g s (bfPass v { st with upd := false }) := bfPass_pinv v hv _ h
    simp only [bfRounds]
    split
    · exact ih _ h'
    · exact h'

theorem bfRelax_pinv (v : View) (hv : ViewArcs v) (s : Nat) : PInvE v.g s (bfRelax v s) := by
  apply bfRounds_pinv v hv
  refine ⟨fun _ => 0, ?_, ?_, ?_⟩
  · intro x u hx; simp [bfInit, tget] at hx
  · intro x u c _ hx; simp [bfInit, tget] at hx
  · intro _; simp [bfInit, tget]

/-! ### the predecessor walk of `find_negative_cycle` -/

/-- consecutive nodes `a, b` of the list: `a` is the predecessor entry of `b` -/
def PredPath (p : Tab Nat Nat) : List Nat → Prop
  | a :: b :: l => tget p b = some a ∧ PredPath p (b :: l)
  | _ => True

theorem predPath_prefix (p : Tab Nat Nat) : ∀ (l1 l2 : List Nat), PredPath p (l1 ++ l2) → PredPath p l1 := by
  intro l1
  induction l1 with
  | nil => intro _ _; trivial
  | cons a l1 ih =>
    intro l2 h
    cases l1 with
    | nil => trivial
    | cons b l1 =>
      simp only [List.cons_append, PredPath] at h ⊢
      exact ⟨h.1, ih l2 h.2⟩

theorem predPath_snoc (p : Tab Nat Nat) (y : Nat) : ∀ (l : List Nat), PredPath p l →
    (∀ a, l.getLast? = some a → tget p y = some a) → PredPath p (l ++ [y]) := by
  intro l
  induction l with
  | nil => intro _ _; trivial
  | cons a l ih =>
    intro h hl
    cases l with
    | nil =>
      simp only [List.cons_append, List.nil_append, PredPath]
      exact ⟨hl a rfl, trivial⟩
    | cons b l =>
      simp only [List.cons_append, PredPath] at h ⊢
      refine ⟨h.1, ih h.2 ?_⟩
      intro x hx
      apply hl x
      simpa [List.getLast?_cons_cons] using hx

theorem exists_first (x : Nat) : ∀ (l : List Nat), x ∈ l → ∃ l1 l2, l = l1 ++ x :: l2 ∧ x ∉ l1 := by
  intro l
  induction l with
  | nil => intro h; cases h
  | cons a l ih =>
    intro h
    by_cases hax : a = x
    · exact ⟨[], l, by simp [hax], by simp⟩
    · have hx : x ∈ l := by
        rcases List.mem_cons.mp h with h1 | h1
        · exact absurd h1.symm hax
        · exact h1
      obtain ⟨l1, l2, hl, hn⟩ := ih hx
      refine ⟨a :: l1, l2, by simp [hl], ?_⟩
      intro hin
      rcases List.mem_cons.mp hin with h1 | h1
      · exact hax h1.symm
      · exact hn h1

theorem idxOf_append_self (x : Nat) : ∀ (l1 l2 : List Nat), x ∉ l1 → (l1 ++ x :: l2).idxOf x = l1.length := by
  intro l1
  induction l1 with
  | nil => intro l2 _; simp
  | cons a l1 ih =>
    intro l2 hx
    have hax : a ≠ x := fun h => hx (h ▸ List.mem_cons_self ..)
    have hx' : x ∉ l1 := fun h => hx (List.mem_cons_of_mem _ h)
    rw [List.cons_append, List.idxOf_cons]
    have : (a == x) = false := by simpa using hax
    simp [this, ih l2 hx']

/-- **the predecessor walk ends in a cycle of the predecessor table**, provided it cannot run into a
node without entry (`hND`): the reversed result `v0 :: rest` satisfies `pred v0 = last`, … i.e.
`v0 :: rest ++ [v0]` is a path of the predecessor table -/
theorem fncLoop_spec {g : MGraph} (p : Tab Nat Nat) (start : Nat)
    (hp : ∀ x q, tget p x = some q → q ∈ g.nodes)
    (hND : ∀ path : List Nat, PredPath p (path.reverse ++ [start]) → (path.reverse ++ [start]).Nodup →
      (∀ x ∈ path, x ∈ g.nodes) → ∀ hd tl, path.reverse ++ [start] = hd :: tl → tget p hd ≠ none) :
    ∀ (f node : Nat) (vis path : List Nat) (R : List Nat),
      (∃ tl, path.reverse ++ [start] = node :: tl) → PredPath p (path.reverse ++ [start]) →
      (path.reverse ++ [start]).Nodup → (∀ x, x ∈ vis ↔ x ∈ path) → (∀ x ∈ path, x ∈ g.nodes) →
      fncLoop p start f node vis path = some R →
      ∃ v0 rest, R.reverse = v0 :: rest ∧ PredPath p (v0 :: rest ++ [v0]) := by
  intro f
  induction f with
  | zero => intro node vis path R _ _ _ _ _ h; simp [fncLoop] at h
  | succ f ih =>
    intro node vis path R hhd hpp hnd hvis hsub h
    obtain ⟨tl, htl⟩ := hhd
    have hsome : tget p node ≠ none := hND path hpp hnd hsub node tl htl
    obtain ⟨anc, hanc⟩ : ∃ anc, tget p node = some anc := by
      cases hq : tget p node with
      | none => exact absurd hq hsome
      | some q => exact ⟨q, rfl⟩
    simp only [fncLoop, hanc, Option.getD_some] at h
    split at h
    · -- the start is reached
      rename_i heq
      have heq : anc = start := by simpa using heq
      cases h
      refine ⟨start, path.reverse, by simp [heq], ?_⟩
      rw [List.cons_append, htl]
      exact ⟨heq ▸ hanc, htl ▸ hpp⟩
    · rename_i hne
      have hne : anc ≠ start := by simpa using hne
      split at h
      · -- a node of the path is reached again
        rename_i hc
        have hc : anc ∈ path := (hvis anc).1 (by simpa using hc)
        cases h
        obtain ⟨l1, l2, hl, hnl1⟩ := exists_first anc path hc
        have hdrop : path.drop (path.idxOf anc) = anc :: l2 := by
          rw [hl, idxOf_append_self anc l1 l2 hnl1]
          simp
        rw [hdrop]
        -- the reversed result is a prefix of the chain
        have hrev : path.reverse ++ [start] = (l2.reverse ++ [anc]) ++ (l1.reverse ++ [start]) := by
          rw [hl]; simp
        have hpre : PredPath p (l2.reverse ++ [anc]) := predPath_prefix p _ _ (hrev ▸ hpp)
        have hhead : ∃ rest, l2.reverse ++ [anc] = node :: rest := by
          rw [htl] at hrev
          cases hl2 : l2.reverse ++ [anc] with
          | nil => simp at hl2
          | cons a r =>
            rw [hl2] at hrev
            simp only [List.cons_append, List.cons.injEq] at hrev
            exact ⟨r, by rw [hrev.1]⟩
        obtain ⟨rest, hrest⟩ := hhead
        refine ⟨node, rest, by simp [← hrest], ?_⟩
        have := predPath_snoc p node (l2.reverse ++ [anc]) hpre (by
          intro a ha
          have : a = anc := by simpa using ha.symm
          rw [this]; exact hanc)
        rw [hrest] at this
        exact this
      · rename_i hc
        have hc : anc ∉ path := fun hin => hc (by simpa using (hvis anc).2 hin)
        apply ih anc (anc :: vis) (path ++ [anc]) R _ _ _ _ _ h
        · exact ⟨path.reverse ++ [start], by simp⟩
        · have e : (path ++ [anc]).reverse ++ [start] = anc :: (path.reverse ++ [start]) := by simp
          rw [e, htl]
          exact ⟨hanc, htl ▸ hpp⟩
        · have e : (path ++ [anc]).reverse ++ [start] = anc :: (path.reverse ++ [start]) := by simp
          rw [e]
          refine List.nodup_cons.mpr ⟨?_, hnd⟩
          intro hin
          rcases List.mem_append.mp hin with h1 | h1
          · exact hc (List.mem_reverse.mp h1)
          · exact hne (by simpa using h1)
        · intro x
          rw [List.mem_cons, hvis x, List.mem_append, List.mem_singleton]
          exact Or.comm
        · intro x hx
          rcases List.mem_append.mp hx with h1 | h1
          · exact hsub x h1
          · have : x = anc := by simpa using h1
            rw [this]; exact hp node anc hanc

/-- a chain of the predecessor table is a walk of the graph whose cost telescopes -/
theorem predPath_walk {g : MGraph} {d : Tab Nat Int} {p : Tab Nat Nat} {wt : Nat → Int} (ha : PArc g d p wt) :
    ∀ (l : List Nat) (a z : Nat), PredPath p (a :: l) → (a :: l).getLast? = some z →
      ∃ c, WalkN g a z c l.length ∧
        ((a = z ∧ c = 0) ∨ ∃ da dz, tget d a = some da ∧ tget d z = some dz ∧ c ≤ dz - da) := by
  intro l
  induction l with
  | nil =>
    intro a z _ hz
    have : a = z := by simpa using hz
    subst this
    exact ⟨0, WalkN.nil a, Or.inl ⟨rfl, rfl⟩⟩
  | cons b l ih =>
    intro a z h hz
    simp only [PredPath] at h
    have hz' : (b :: l).getLast? = some z := by simpa [List.getLast?_cons_cons] using hz
    obtain ⟨c', hw', ht⟩ := ih b z h.2 hz'
    obtain ⟨da, db, hda, hdb, harc, hle⟩ := ha b a h.1
    refine ⟨wt b + c', WalkN.cons harc hw', Or.inr ?_⟩
    rcases ht with ⟨hbz, hc0⟩ | ⟨db', dz, hdb', hdz, hcle⟩
    · subst hbz; exact ⟨da, db, hda, hdb, by omega⟩
    · rw [hdb] at hdb'; cases hdb'
      exact ⟨da, dz, hda, hdz, by omega⟩

/-- a closed path of the predecessor table, read backwards, is a closed walk of the graph; its cost is
that of a predecessor cycle -/
theorem closed_of_predPath {g : MGraph} {p : Tab Nat Nat} {wt : Nat → Int}
    (harc : ∀ x u, tget p x = some u → (u, x, wt x) ∈ g.arcs) (v0 : Nat) :
    ∀ (l : List Nat) (a : Nat), PredPath p (a :: l ++ [v0]) →
      ∃ c u, ClosedFrom g v0 (a :: l) (c + wt v0) ∧ PC p wt a u c ∧ tget p v0 = some u := by
  intro l
  induction l with
  | nil =>
    intro a h
    simp only [List.cons_append, List.nil_append, PredPath] at h
    refine ⟨0, a, ?_, PC.root, h.1⟩
    have := ClosedFrom.last (harc v0 a h.1)
    simpa using this
  | cons b l ih =>
    intro a h
    simp only [List.cons_append, PredPath] at h
    obtain ⟨c', u, hcl, hpc, hpu⟩ := ih b h.2
    have hstep : PC p wt a b (0 + wt b) := PC.step PC.root h.1
    refine ⟨0 + wt b + c', u, ?_, hstep.trans hpc, hpu⟩
    have := ClosedFrom.cons (harc b a h.1) hcl
    have e : 0 + wt b + c' + wt v0 = wt b + (c' + wt v0) := by omega
    rw [e]; exact this

/-- **`find_negative_cycle = Some(seq)`: `seq` is a closed walk of negative cost** (repaired code) -/
theorem findNegativeCycle_closed (v : View) (hv : ViewArcs v) (hwf : v.g.WellFormed) (s : Nat)
    (seq : List Nat) (h : findNegativeCycle v s = .some seq) :
    ∃ c, c < 0 ∧ ClosedWalkCost v.g seq c := by
  unfold findNegativeCycle at h
  simp only at h
  have inv := bfRelax_inv v hv s
  obtain ⟨wt, hP⟩ := bfRelax_pinv v hv s
  cases hr : relaxables v (bfRelax v s).d with
  | nil => rw [hr] at h; cases h
  | cons e rl =>
    obtain ⟨i, j⟩ := e
    rw [hr] at h
    simp only at h
    -- the relaxable arc
    have hm : (i, j) ∈ relaxables v (bfRelax v s).d := by rw [hr]; exact List.mem_cons_self ..
    unfold relaxables at hm
    obtain ⟨a, hain, hm⟩ := List.mem_flatMap.mp hm
    obtain ⟨te, hte, hm⟩ := List.mem_filterMap.mp hm
    split at hm
    · rename_i hflt
      simp only [Option.some.injEq, Prod.mk.injEq] at hm
      obtain ⟨hai, htj⟩ := hm
      subst hai
      have harc : (a, j, v.weight te.2) ∈ v.g.arcs := htj ▸ hv.sound a te hte
      have hjn : j ∈ v.g.nodes := (arc_nodes hwf harc).2
      rw [htj] at hflt
      cases hxi : tget (bfRelax v s).d a with
      | none => simp [fltLt, hxi] at hflt
      | some xi =>
        rw [hxi] at hflt
        have hlt := fltLt_some hflt
        -- all `|V| − 1` passes were executed
        have hst : bfRelax v s = passK v (v.g.nodes.length - 1) (bfInit s) := by
          rcases bfRounds_cases v (v.g.nodes.length - 1) (bfInit s) with h1 | h1
          · unfold bfRelax at hr; rw [h1] at hr; cases hr
          · exact h1
        -- the tables the walk runs on
        have hp : ∀ x q, tget (bfRelax v s).p x = some q → q ∈ v.g.nodes := by
          intro x q hq
          obtain ⟨_, _, w, _, _, harc', _⟩ := inv.predArc x q hq
          exact (arc_nodes hwf harc').1
        have hp' : ∀ x q, tget (tset (bfRelax v s).p j a) x = some q → q ∈ v.g.nodes := by
          intro x q hq
          rw [tget_tset] at hq
          split at hq
          · simp only [Option.some.injEq] at hq; exact hq ▸ hain
          · exact hp x q hq
        have hcyc' := cyc_update hP.arc hP.cyc hxi hlt
        have harc' : ∀ x u, tget (tset (bfRelax v s).p j a) x = some u →
            (u, x, (fun x => if x = j then v.weight te.2 else wt x) x) ∈ v.g.arcs := by
          intro x u hx
          rw [tget_tset] at hx
          by_cases hxj : x = j
          · rw [if_pos hxj] at hx
            have : u = a := by simpa using hx.symm
            simp only [if_pos hxj]
            rw [this, hxj]; exact harc
          · rw [if_neg hxj] at hx
            simp only [if_neg hxj]
            obtain ⟨_, _, _, _, hmem, _⟩ := hP.arc x u hx
            exact hmem
        -- the walk cannot run into a node without predecessor
        have hND : ∀ path : List Nat, PredPath (tset (bfRelax v s).p j a) (path.reverse ++ [j]) →
            (path.reverse ++ [j]).Nodup → (∀ x ∈ path, x ∈ v.g.nodes) →
            ∀ hd tl, path.reverse ++ [j] = hd :: tl → tget (tset (bfRelax v s).p j a) hd ≠ none := by
          intro path hpp hnd hsub hd tl htl hnone
          -- `hd ≠ j`, so the chain is `L ++ [j]` with `L` non-empty
          have hhdj : hd ≠ j := by
            intro e; rw [e, tget_tset, if_pos rfl] at hnone; cases hnone
          cases hL : path.reverse with
          | nil =>
            rw [hL] at htl
            simp only [List.nil_append, List.cons.injEq] at htl
            exact hhdj htl.1.symm
          | cons x L =>
            rw [hL] at htl hpp hnd
            simp only [List.cons_append, List.cons.injEq] at htl
            obtain ⟨hxhd, _⟩ := htl
            subst hxhd
            -- the entries along `x :: L` are old ones
            have hjL : j ∉ x :: L := by
              intro hin
              exact (List.nodup_append.mp hnd).2.2 j hin j (by simp) rfl
            have hold : ∀ (l : List Nat), j ∉ l → PredPath (tset (bfRelax v s).p j a) l →
                PredPath (bfRelax v s).p l := by
              intro l
              induction l with
              | nil => intro _ _; trivial
              | cons y l ihl =>
                intro hj hq
                cases l with
                | nil => trivial
                | cons z l =>
                  simp only [PredPath] at hq ⊢
                  have hzj : z ≠ j := fun e => hj (e ▸ List.mem_cons_of_mem _ (List.mem_cons_self ..))
                  refine ⟨by rw [← hq.1, tget_tset, if_neg hzj], ihl (fun hin => hj (List.mem_cons_of_mem _ hin)) hq.2⟩
            have hppL : PredPath (bfRelax v s).p (x :: L) :=
              hold _ hjL (predPath_prefix _ (x :: L) [j] hpp)
            -- the last node of `x :: L` is the predecessor entry of `j`, i.e. `a`
            obtain ⟨z, hz⟩ : ∃ z, (x :: L).getLast? = some z := ⟨(x :: L).getLast (by simp), List.getLast?_eq_some_getLast _⟩
            have hza : z = a := by
              have hsplit : x :: L = (x :: L).dropLast ++ [z] := by
                have := List.dropLast_concat_getLast (l := x :: L) (by simp)
                rw [List.getLast?_eq_some_getLast (by simp)] at hz
                cases hz
                exact this.symm
              have hq : PredPath (tset (bfRelax v s).p j a) ((x :: L).dropLast ++ ([z] ++ [j])) := by
                rw [← List.append_assoc, ← hsplit]; exact hpp
              -- the pair `(z, j)` at the end of the chain
              have : ∀ (l : List Nat), PredPath (tset (bfRelax v s).p j a) (l ++ ([z] ++ [j])) →
                  tget (tset (bfRelax v s).p j a) j = some z := by
                intro l
                induction l with
                | nil => intro hq; simp only [List.nil_append, List.cons_append, PredPath] at hq; exact hq.1
                | cons y l ihl =>
                  intro hq
                  cases l with
                  | nil => simp only [List.cons_append, List.nil_append, PredPath] at hq; exact hq.2.1
                  | cons y' l => simp only [List.cons_append, PredPath] at hq; exact ihl hq.2
              have := this _ hq
              rw [tget_tset, if_pos rfl] at this
              simpa using this.symm
            subst hza
            obtain ⟨c, hwalk, htele⟩ := predPath_walk hP.arc L x z hppL hz
            -- `x` is labelled and has no predecessor: it is the source, still at distance `0`
            have hxnone : tget (bfRelax v s).p x = none := by
              rw [tget_tset, if_neg hhdj] at hnone; exact hnone
            have hxlab : ∃ dx, tget (bfRelax v s).d x = some dx := by
              rcases htele with ⟨hxz, _⟩ | ⟨dx, _, hdx, _, _⟩
              · exact ⟨xi, hxz ▸ hxi⟩
              · exact ⟨dx, hdx⟩
            obtain ⟨dx, hdx⟩ := hxlab
            have hxs : x = s := by
              rcases inv.predSome x dx hdx with h1 | ⟨q, hq⟩
              · exact h1
              · rw [hxnone] at hq; cases hq
            subst hxs
            have hd0 := hP.src0 hxnone
            rw [hdx] at hd0; cases hd0
            have hcle : c ≤ xi := by
              rcases htele with ⟨hxz, hc0⟩ | ⟨dx', dz, hdx', hdz, hle⟩
              · subst hxz; rw [hdx] at hxi; cases hxi; omega
              · rw [hdx] at hdx'; cases hdx'
                rw [hxi] at hdz; cases hdz
                omega
            -- the walk `s ⇝ a → j` has at most `|V| − 1` arcs
            have hwj : WalkN v.g x j (c + v.weight te.2) (L.length + 1) := WalkN.snoc hwalk harc
            have hlen : L.length + 1 + 1 ≤ v.g.nodes.length := by
              have hsubn : (x :: L ++ [j]) ⊆ v.g.nodes := by
                intro y hy
                rcases List.mem_append.mp hy with h1 | h1
                · apply hsub y
                  rw [← List.mem_reverse, hL]; exact h1
                · have : y = j := by simpa using h1
                  rw [this]; exact hjn
              have := List.Nodup.length_le_of_subset hnd hsubn
              simpa using this
            obtain ⟨y, hy, hyle⟩ := passK_lower v hv x (bfInit x) (bfInit_inv v.g x).src
              (v.g.nodes.length - 1) j _ (L.length + 1) (by omega) hwj
            rw [← hst] at hy
            have := hlt y hy
            omega
        -- run the walk
        split at h
        · cases h
        · rename_i path hpath
          split at h
          · cases h
          · cases h
            obtain ⟨v0, rest, hrev, hclosed⟩ := fncLoop_spec (g := v.g) (tset (bfRelax v s).p j a) j hp' hND
              (v.g.nodes.length + 2) j [] [] path ⟨[], by simp⟩ (by simp [PredPath]) (by simp) (by simp) (by simp) hpath
            obtain ⟨c, u, hcl, hpc, hpu⟩ := closed_of_predPath harc' v0 rest v0 hclosed
            refine ⟨_, hcyc' v0 u c hpc hpu, ?_⟩
            rw [hrev]
            exact ClosedWalkCost.mk hcl
    · simp at hm

/-- … and therefore accepted by the checker of the judge -/
theorem findNegativeCycle_check (v : View) (hv : ViewArcs v) (hwf : v.g.WellFormed) (s : Nat)
    (seq : List Nat) (h : findNegativeCycle v s = .some seq) :
    checkNegClosedWalk v.g seq = true := by
  obtain ⟨c, hc, hw⟩ := findNegativeCycle_closed v hv hwf s seq h
  exact checkNegClosedWalk_complete v.g seq c hc hw

end PetgraphModel.C11W3
