import PetgraphModel.Proofs.AcyclicPK
/-
No panic, and the model's fuel suffices: under the invariant (with a valid order) `try_add_edge` /
`try_update_edge` / `is_valid_edge` on live nodes always return — none of the asserts,
`debug_assert!`s, `unreachable!`s or bit-set bound checks of the real code can fire, and the
fuel-bounded recursion of the model never runs dry.
-/
namespace PetgraphModel.AcyNP
open PetgraphModel PetgraphModel.MGraph PetgraphModel.Oracle PetgraphModel.Dag PetgraphModel.Acy
open PetgraphModel.AcyProofs PetgraphModel.AcyPK

/-! ### the fuel measure: one unit per undiscovered node plus one per entry of its neighbour list -/

def needL (deg : Nat → Nat) (D : List Nat) : List Nat → Nat
  | [] => 0
  | x :: xs => (if D.contains x then 0 else 1 + deg x) + needL deg D xs

theorem needL_mono (deg : Nat → Nat) {D D' : List Nat} (h : ∀ x, x ∈ D → x ∈ D') :
    ∀ L, needL deg D' L ≤ needL deg D L := by
  intro L
  induction L with
  | nil => exact Nat.le_refl _
  | cons x xs ih =>
    simp only [needL]
    by_cases hx : D.contains x = true
    · have : D'.contains x = true := by
        simp only [List.contains_iff_mem] at hx ⊢
        exact h x hx
      simp only [hx, this, ↓reduceIte]
      omega
    · simp only [hx]
      split <;> simp <;> omega

theorem needL_drop (deg : Nat → Nat) {D : List Nat} {u : Nat} (hu : u ∉ D) :
    ∀ L, u ∈ L → needL deg (u :: D) L + 1 + deg u ≤ needL deg D L := by
  intro L
  induction L with
  | nil => intro h; cases h
  | cons x xs ih =>
    intro hmem
    simp only [needL]
    have hmono := needL_mono deg (D := D) (D' := u :: D) (fun x hx => List.mem_cons_of_mem _ hx) xs
    by_cases hxu : x = u
    · subst hxu
      have h1 : (x :: D).contains x = true := by simp
      have h2 : D.contains x = false := by simpa using hu
      simp only [h1, h2, ↓reduceIte]
      simp
      omega
    · have hm' : u ∈ xs := by
        rcases List.mem_cons.mp hmem with h | h
        · exact absurd h.symm hxu
        · exact h
      have := ih hm'
      have hc : (u :: D).contains x = D.contains x := by
        simp [List.contains_cons, hxu]
      rw [hc]
      omega

def NoPanic (r : DRes) : Prop := ∀ e, r ≠ .panic e

/-- the cone search neither panics nor runs out of fuel -/
theorem np_dfs (v : View) (hv : ViewOk v) (hc : Closed v) (om : OrderMap) (hinv : OMInv v.g.nodes om)
    (cap : Nat) (hcap : ∀ x, x ∈ v.g.nodes → x < cap) (dir : Dir) (minP maxP : Nat) (st : Nat)
    (hsafe : ∀ x, RD dir v.g st x → x ∈ v.g.nodes → ∀ p, om.getPos x = .ok p →
      ∀ e, validOrder dir minP maxP p ≠ .panic e) :
    ∀ f,
      (∀ u s, u ∈ v.g.nodes → RD dir v.g st u →
        needL (fun x => (nbrs dir v x).length) s.disc v.g.nodes + 1 ≤ f →
        NoPanic (dfsV v om cap dir minP maxP f u s).2) ∧
      (∀ u ws s, u ∈ v.g.nodes → RD dir v.g st u → (∀ w, w ∈ ws → w ∈ nbrs dir v u) →
        ws.length + needL (fun x => (nbrs dir v x).length) s.disc v.g.nodes + 1 ≤ f →
        NoPanic (dfsN v om cap dir minP maxP f u ws s).2) := by
  intro f
  induction f with
  | zero =>
    constructor
    · intro u s _ _ hf; omega
    · intro u ws s _ _ _ hf; omega
  | succ f ih =>
    obtain ⟨ihV, ihN⟩ := ih
    constructor
    · intro u s hu hru hf
      simp only [dfsV]
      have hucap : ¬ u ≥ cap := by have := hcap u hu; omega
      simp only [hucap, ↓reduceIte]
      split
      · intro e h; cases h
      rename_i hnd
      have hnd' : u ∉ s.disc := by simpa using hnd
      obtain ⟨p, hp, _⟩ := hinv.getPos hu
      simp only [hp]
      have hdrop := needL_drop (fun x => (nbrs dir v x).length) hnd' v.g.nodes hu
      have hN := ihN u (nbrs dir v u) { disc := u :: s.disc, fin := s.fin, res := pmInsert s.res p u } hu hru
        (fun w hw => hw) (by simp only; omega)
      cases hr : dfsN v om cap dir minP maxP f u (nbrs dir v u)
          { disc := u :: s.disc, fin := s.fin, res := pmInsert s.res p u } with
      | mk s2 r2 =>
        rw [hr] at hN
        cases r2 with
        | ok => simp only; intro e h; cases h
        | cycle => simp only; intro e h; cases h
        | panic e' => exact absurd rfl (hN e')
    · intro u ws s hu hru hws hf
      cases ws with
      | nil => simp only [dfsN]; intro e h; cases h
      | cons w ws =>
        have hw : w ∈ nbrs dir v u := hws w (List.mem_cons_self ..)
        have hws' : ∀ x, x ∈ ws → x ∈ nbrs dir v u := fun x hx => hws x (List.mem_cons_of_mem _ hx)
        have hwl : w ∈ v.g.nodes := closed_nbrs hc dir hu hw
        have hrw : RD dir v.g st w := by
          cases dir with
          | fut => exact Reach.step hru ((hv.1 u w).mp hw)
          | past => exact reach_trans (Reach.step (Reach.refl _) ((hv.2 u w).mp hw)) hru
        simp only [List.length_cons] at hf
        simp only [dfsN]
        split
        · exact ihN u ws s hu hru hws' (by omega)
        obtain ⟨p, hp, _⟩ := hinv.getPos hwl
        simp only [hp]
        have hsf := hsafe w hrw hwl p hp
        cases hvo : validOrder dir minP maxP p with
        | go =>
          simp only
          have hV := ihV w s hwl hrw (by omega)
          cases hr : dfsV v om cap dir minP maxP f w s with
          | mk s1 r1 =>
            rw [hr] at hV
            cases r1 with
            | ok =>
              simp only
              have hst := ((dfs_complete v om cap dir minP maxP f).1 w s s1 .ok hr).1
              have := needL_mono (fun x => (nbrs dir v x).length) hst.discMono v.g.nodes
              exact ihN u ws s1 hu hru hws' (by omega)
            | cycle => simp only; intro e h; cases h
            | panic e' => exact absurd rfl (hV e')
        | prune => simp only; exact ihN u ws s hu hru hws' (by omega)
        | cycle => simp only; intro e h; cases h
        | panic e' => exact absurd hvo (hsf e')

/-- the past search never reports a cycle -/
theorem past_no_cycle (v : View) (om : OrderMap) (cap : Nat) (minP maxP : Nat) :
    ∀ f,
      (∀ u s, (dfsV v om cap .past minP maxP f u s).2 ≠ .cycle) ∧
      (∀ u ws s, (dfsN v om cap .past minP maxP f u ws s).2 ≠ .cycle) := by
  intro f
  induction f with
  | zero =>
    constructor
    · intro u s; simp only [dfsV]; intro h; cases h
    · intro u ws s; simp only [dfsN]; intro h; cases h
  | succ f ih =>
    obtain ⟨ihV, ihN⟩ := ih
    constructor
    · intro u s
      simp only [dfsV]
      split
      · intro h; cases h
      split
      · intro h; cases h
      split
      · intro h; cases h
      rename_i p hp
      cases hr : dfsN v om cap .past minP maxP f u (nbrs .past v u)
          { disc := u :: s.disc, fin := s.fin, res := pmInsert s.res p u } with
      | mk s2 r2 =>
        have := ihN u (nbrs .past v u) { disc := u :: s.disc, fin := s.fin, res := pmInsert s.res p u }
        rw [hr] at this
        cases r2 with
        | ok => simp only; intro h; cases h
        | cycle => exact absurd rfl this
        | panic e => simp only; intro h; cases h
    · intro u ws s
      cases ws with
      | nil => simp only [dfsN]; intro h; cases h
      | cons w ws =>
        simp only [dfsN]
        split
        · exact ihN u ws s
        split
        · intro h; cases h
        rename_i p hp
        cases hvo : validOrder .past minP maxP p with
        | go =>
          simp only
          cases hr : dfsV v om cap .past minP maxP f w s with
          | mk s1 r1 =>
            have := ihV w s
            rw [hr] at this
            cases r1 with
            | ok => simp only; exact ihN u ws s1
            | cycle => exact absurd rfl this
            | panic e => simp only; intro h; cases h
        | prune => simp only; exact ihN u ws s
        | cycle =>
          exfalso
          unfold validOrder at hvo
          simp only at hvo
          split at hvo
          · cases hvo
          split at hvo
          · cases hvo
          split at hvo <;> cases hvo
        | panic e => simp only; intro h; cases h

/-! ### the remaining checks of `causal_cones` / `update_ordering` -/

theorem cleanup_nil {l : List Nat} {fwd bwd : PMap} (h : ∀ x, x ∈ l → x ∈ pmVals fwd ∨ x ∈ pmVals bwd) :
    cleanup l fwd bwd = [] := by
  unfold cleanup
  apply List.filter_eq_nil_iff.mpr
  intro x hx
  rcases h x hx with h' | h'
  · simp
    intro hh; exact absurd h' hh
  · simp
    intro _; exact h'

theorem length_insKeys_add {K : List Nat} : ∀ {m : PMap}, Sorted m → K.Nodup → (∀ k, k ∈ K → k ∉ pmKeys m) →
    (insKeys m K).length = m.length + K.length := by
  induction K with
  | nil => intro m _ _ _; simp [insKeys]
  | cons k r ih =>
    intro m hs hn hd
    have hn' := List.nodup_cons.mp hn
    have hk : k ∉ pmKeys m := hd k (List.mem_cons_self ..)
    have hlen := length_pmInsert (k := k) (x := 0) hs
    simp only [hk, ↓reduceIte] at hlen
    have := ih (sorted_pmInsert (k := k) (x := 0) hs) hn'.2 (by
      intro k' hk' hm
      rcases (mem_keys_pmInsert hs).mp hm with h | h
      · subst h; exact hn'.1 hk'
      · exact hd k' (List.mem_cons_of_mem _ hk') h)
    simp only [insKeys, List.foldl_cons, List.length_cons] at this ⊢
    omega

theorem assign_total {l : List (Nat × Nat)} : ∀ {om : OrderMap}, (∀ e, e ∈ l → e.2 < om.n2p.length) →
    ∃ om', assign om l = .ok om' := by
  induction l with
  | nil => intro om _; exact ⟨om, rfl⟩
  | cons e r ih =>
    intro om h
    obtain ⟨p, n⟩ := e
    have hn : n < om.n2p.length := h (p, n) (List.mem_cons_self ..)
    simp only [assign, OrderMap.setPos, hn, ↓reduceIte]
    apply ih
    intro e he
    simp only [List.length_set]
    exact h e (List.mem_cons_of_mem _ he)

/-- the hypotheses under which nothing can go wrong -/
structure Safe (v : View) (s : AState) : Prop where
  inv2 : Inv2 v s
  /-- `to_index` of a live node is below `node_bound` -/
  index : ∀ x, x ∈ v.g.nodes → x < v.nb
  /-- the neighbour lists are no longer than the edge list allows (each edge is listed once per direction) -/
  fuel : ∀ dir, needL (fun x => (nbrs dir v x).length) [] v.g.nodes + 1 ≤ dfsFuel v

theorem live_lt_len {L : List Nat} {om : OrderMap} (h : OMInv L om) {x : Nat} (hx : x ∈ L) : x < om.n2p.length := by
  obtain ⟨p, hp, _⟩ := h.live_p2n x hx
  rcases Nat.lt_or_ge x om.n2p.length with h' | h'
  · exact h'
  · rw [List.getElem?_eq_none h'] at hp; cases hp

theorem validOrder_fut_nopanic {minP maxP p : Nat} (h : minP ≤ p) : ∀ e, validOrder .fut minP maxP p ≠ .panic e := by
  intro e
  unfold validOrder
  simp only
  have : ¬ p < minP := by omega
  simp only [this, ↓reduceIte]
  split
  · intro h; cases h
  split <;> intro h <;> cases h

theorem validOrder_past_nopanic {minP maxP p : Nat} (h1 : p ≤ maxP) (h2 : p ≠ minP) :
    ∀ e, validOrder .past minP maxP p ≠ .panic e := by
  intro e
  unfold validOrder
  simp only
  have : ¬ p > maxP := by omega
  simp only [this, ↓reduceIte, h2]
  split <;> intro h <;> cases h

/-- `causal_cones(b, a)` returns (normally or with `Err(Cycle)`) -/
theorem causalCones_total {v : View} {s : AState} (hs : Safe v s) {a b pa pb : Nat}
    (ha : a ∈ v.g.nodes) (hb : b ∈ v.g.nodes) (hab : a ≠ b)
    (hpa : s.om.getPos a = .ok pa) (hpb : s.om.getPos b = .ok pb) (hlt : pb < pa) :
    ∃ r, causalCones v s b a = .ok r := by
  obtain ⟨⟨⟨hom, hclr, hcl⟩, hov, hv, hsrc⟩, hidx, hfuel⟩ := hs
  unfold causalCones
  have hc0 : (!(s.disc.isEmpty && s.fin.isEmpty)) = false := by simp [hclr.1, hclr.2]
  simp only [hc0, Bool.false_eq_true, ↓reduceIte, hpa, hpb]
  generalize hcapdef : (if s.cap < v.nb then v.nb else s.cap) = cap
  have hcap : ∀ x, x ∈ v.g.nodes → x < cap := by
    intro x hx
    have := hidx x hx
    subst hcapdef
    split <;> omega
  -- the future search
  have hsafeF : ∀ x, RD .fut v.g b x → x ∈ v.g.nodes → ∀ p, s.om.getPos x = .ok p →
      ∀ e, validOrder .fut pb pa p ≠ .panic e := by
    intro x hrx hxl p hp
    apply validOrder_fut_nopanic
    rcases (reach_pos hv hcl hom hov hb hrx).2 with h | h
    · subst h; rw [hpb] at hp; cases hp; exact Nat.le_refl _
    · exact Nat.le_of_lt (h pb p hpb hp)
  have hnp1 := (np_dfs v hv hcl s.om hom cap hcap .fut pb pa b hsafeF (dfsFuel v)).1 b {} hb (Reach.refl _)
    (hfuel .fut)
  cases hr1 : dfsV v s.om cap .fut pb pa (dfsFuel v) b {} with
  | mk d1 r1 =>
    rw [hr1] at hnp1
    have hk1 := (dfs_cone v hcl s.om cap .fut pb pa (dfsFuel v)).1 b {} d1 r1 hb (coneOk_nil _ _) hr1
    have hres1 := (dfs_res v hcl s.om hom cap .fut pb pa (dfsFuel v)).1 b {} d1 r1 hb (coneOk_nil _ _) hr1
    have hfd1 : ∀ z, z ∈ d1.fin → z ∈ d1.disc :=
      (dfs_fin_disc v s.om cap .fut pb pa (dfsFuel v)).1 b {} d1 r1 (by intro z hz; cases hz) hr1
    have hdv1 : ∀ x, x ∈ d1.disc → x ∈ pmVals d1.res := by
      intro x hx
      rcases hres1.all hnp1 x hx with h | ⟨p, hp⟩
      · cases h
      · exact mem_pmVals.mpr ⟨p, hp⟩
    cases r1 with
    | panic e => exact absurd rfl (hnp1 e)
    | cycle =>
      simp only
      have h1 : cleanup d1.disc d1.res [] = [] := cleanup_nil (fun x hx => Or.inl (hdv1 x hx))
      have h2 : cleanup d1.fin d1.res [] = [] := cleanup_nil (fun x hx => Or.inl (hdv1 x (hfd1 x hx)))
      simp [h1, h2]
    | ok =>
      simp only
      have hnopath : ¬ Reach v.g b a := fut_ok_no_path hv hcl hom hov ha hb hab hpa hr1
      have hsafeP : ∀ x, RD .past v.g a x → x ∈ v.g.nodes → ∀ p, s.om.getPos x = .ok p →
          ∀ e, validOrder .past pb pa p ≠ .panic e := by
        intro x hrx hxl p hp
        apply validOrder_past_nopanic
        · rcases (reach_pos hv hcl hom hov hxl hrx).2 with h | h
          · subst h; rw [hpa] at hp; cases hp; exact Nat.le_refl _
          · exact Nat.le_of_lt (h p pa hp hpa)
        · intro he
          subst he
          have : x = b := by
            apply Classical.byContradiction
            intro hne
            have := hom.pos_inj hxl hb hne
            rw [hp, hpb] at this
            exact this rfl
          subst this
          exact hnopath hrx
      have hneed : needL (fun x => (nbrs .past v x).length) d1.disc v.g.nodes + 1 ≤ dfsFuel v := by
        have := needL_mono (fun x => (nbrs .past v x).length) (D := []) (D' := d1.disc)
          (by intro x hx; cases hx) v.g.nodes
        have := hfuel .past
        omega
      have hnp2 := (np_dfs v hv hcl s.om hom cap hcap .past pb pa a hsafeP (dfsFuel v)).1 a
        { disc := d1.disc, fin := d1.fin, res := [] } ha (Reach.refl _) hneed
      have hnc2 := (past_no_cycle v s.om cap pb pa (dfsFuel v)).1 a { disc := d1.disc, fin := d1.fin, res := [] }
      cases hr2 : dfsV v s.om cap .past pb pa (dfsFuel v) a { disc := d1.disc, fin := d1.fin, res := [] } with
      | mk d2 r2 =>
        rw [hr2] at hnp2 hnc2
        have hres2 := (dfs_res v hcl s.om hom cap .past pb pa (dfsFuel v)).1 a _ d2 r2 ha (coneOk_nil _ _) hr2
        have hfd2 : ∀ z, z ∈ d2.fin → z ∈ d2.disc :=
          (dfs_fin_disc v s.om cap .past pb pa (dfsFuel v)).1 a { disc := d1.disc, fin := d1.fin, res := [] } d2 r2 hfd1 hr2
        have hdv2 : ∀ x, x ∈ d2.disc → x ∈ pmVals d1.res ∨ x ∈ pmVals d2.res := by
          intro x hx
          rcases hres2.all hnp2 x hx with h | ⟨p, hp⟩
          · exact Or.inl (hdv1 x h)
          · exact Or.inr (mem_pmVals.mpr ⟨p, hp⟩)
        cases r2 with
        | panic e => exact absurd rfl (hnp2 e)
        | cycle => exact absurd rfl hnc2
        | ok =>
          simp only
          have h1 : cleanup d2.disc d1.res d2.res = [] := cleanup_nil hdv2
          have h2 : cleanup d2.fin d1.res d2.res = [] := cleanup_nil (fun x hx => hdv2 x (hfd2 x hx))
          simp [h1, h2]

/-- `update_ordering(a, b)` returns -/
theorem updateOrdering_total {v : View} {s : AState} (hs : Safe v s) {a b : Nat}
    (ha : a ∈ v.g.nodes) (hb : b ∈ v.g.nodes) (hab : a ≠ b) : ∃ r, updateOrdering v s a b = .ok r := by
  have hs' := hs
  obtain ⟨⟨⟨hom, hclr, hcl⟩, hov, hv, hsrc⟩, hidx, hfuel⟩ := hs'
  obtain ⟨pa, hpa, _⟩ := hom.getPos ha
  obtain ⟨pb, hpb, _⟩ := hom.getPos hb
  unfold updateOrdering
  simp only [hpa, hpb]
  by_cases hge : pb ≥ pa
  · simp [hge]
  · simp only [hge, ↓reduceIte]
    have hlt : pb < pa := by omega
    obtain ⟨⟨s1, c⟩, hcc⟩ := causalCones_total hs ha hb hab hpa hpb hlt
    simp only [hcc]
    cases c with
    | none => exact ⟨_, rfl⟩
    | some bc =>
      obtain ⟨bf, ap⟩ := bc
      simp only
      obtain ⟨hom1, _, _, _, _⟩ := causalCones_spec hcl hb ha hcc
      obtain ⟨minP, maxP, cap, hmin, hmax, hcase⟩ := causalCones_inv hcc
      rw [hpb] at hmin; cases hmin
      rw [hpa] at hmax; cases hmax
      rcases hcase with ⟨hnone, _⟩ | ⟨d1, d2, hd1, hd2, hsome⟩
      · cases hnone
      · cases hsome
        have c : Cones2 v s.om a b pa pb cap d1 d2 := ⟨hv, hcl, hom, hov, ha, hb, hab, hpa, hpb, hlt, hd1, hd2⟩
        -- the `debug_assert_eq!` on the number of distinct positions
        have hlen : (allPositions d1.res d2.res).length = d1.res.length + d2.res.length := by
          show (pmKeys (insKeys [] (pmKeys d1.res ++ pmKeys d2.res))).length = _
          have hnodup : (pmKeys d1.res ++ pmKeys d2.res).Nodup := by
            refine List.nodup_append.mpr ⟨sorted_keys_nodup c.coneF.sorted, sorted_keys_nodup c.coneP.sorted, ?_⟩
            intro k hk1 k' hk2 hkk
            subst hkk
            obtain ⟨x, hx⟩ := mem_pmKeys.mp hk1
            obtain ⟨y, hy⟩ := mem_pmKeys.mp hk2
            have hxy : x = y := inj_of_inv hom (c.coneF.sub k x hx).1 (c.coneP.sub k y hy).1
              (c.coneF.sub k x hx).2 (c.coneP.sub k y hy).2
            subst hxy
            exact ((c.memP k x).mp hy).1.2 ((c.memF k x).mp hx).1
          have := length_insKeys_add (m := []) sorted_nil hnodup (by intro k _ hk; simp [pmKeys] at hk)
          simp only [pmKeys, List.length_map, List.length_append, List.length_nil] at this ⊢
          omega
        have hne : ¬ (allPositions d1.res d2.res).length ≠ d1.res.length + d2.res.length := by
          intro h; exact h hlen
        simp only [hne, ↓reduceIte]
        have hall : ∀ e, e ∈ (allPositions d1.res d2.res).zip (pmVals d2.res ++ pmVals d1.res) →
            e.2 < s1.om.n2p.length := by
          intro e he
          have h2 : e.2 ∈ pmVals d2.res ++ pmVals d1.res := (List.of_mem_zip (a := e.1) (b := e.2) he).2
          rw [hom1]
          rcases List.mem_append.mp h2 with h | h
          · obtain ⟨p, hp⟩ := mem_pmVals.mp h
            exact live_lt_len hom (c.coneP.sub p _ hp).1
          · obtain ⟨p, hp⟩ := mem_pmVals.mp h
            exact live_lt_len hom (c.coneF.sub p _ hp).1
        obtain ⟨om', hom'⟩ := assign_total hall
        simp only [hom']
        exact ⟨_, rfl⟩

/-- **no panic**: `try_add_edge` / `try_update_edge` on live nodes always return -/
theorem tryAddEdge_total {v : View} {s : AState} (hs : Safe v s) {a b : Nat}
    (ha : a ∈ v.g.nodes) (hb : b ∈ v.g.nodes) : ∃ r, tryAddEdge v s a b = .ok r := by
  unfold tryAddEdge
  by_cases hab : a = b
  · simp [hab]
  · simp only [hab, ↓reduceIte]
    obtain ⟨⟨s1, okb⟩, hu⟩ := updateOrdering_total hs ha hb hab
    simp only [hu]
    cases okb with
    | false => exact ⟨_, rfl⟩
    | true =>
      have hla : live v a = true := (live_iff v a).mpr ha
      have hlb : live v b = true := (live_iff v b).mpr hb
      simp [hla, hlb]

/-- **no panic**: `is_valid_edge` on live nodes always returns -/
theorem isValidEdge_total {v : View} {s : AState} (hs : Safe v s) {a b : Nat}
    (ha : a ∈ v.g.nodes) (hb : b ∈ v.g.nodes) : ∃ r, isValidEdge v s a b = .ok r := by
  have hs' := hs
  obtain ⟨⟨⟨hom, hclr, hcl⟩, hov, hv, hsrc⟩, hidx, hfuel⟩ := hs'
  obtain ⟨pa, hpa, _⟩ := hom.getPos ha
  obtain ⟨pb, hpb, _⟩ := hom.getPos hb
  unfold isValidEdge
  by_cases hab : a = b
  · simp [hab]
  · simp only [hab, ↓reduceIte, hpa, hpb]
    by_cases hlt : pa < pb
    · simp [hlt]
    · simp only [hlt, ↓reduceIte]
      have hne : pa ≠ pb := by
        intro he
        have := hom.pos_inj ha hb hab
        rw [hpa, hpb, he] at this
        exact this rfl
      obtain ⟨⟨s1, c⟩, hcc⟩ := causalCones_total hs ha hb hab hpa hpb (by omega)
      simp only [hcc]
      exact ⟨_, rfl⟩

/-- `add_node` returns when the new index is below the new `node_bound` -/
theorem addNode_total {v' : View} {s : AState} {i : Nat} (hi : i < v'.nb) : ∃ s', Acy.addNode v' s i = .ok s' := by
  unfold Acy.addNode OrderMap.addNode
  simp only
  have : i < (if i ≥ s.om.n2p.length then resize0 s.om.n2p v'.nb else s.om.n2p).length := by
    split
    · rw [resize0_length]; exact hi
    · omega
  simp only [this, ↓reduceIte]
  exact ⟨_, rfl⟩

/-- `remove_node` returns (for both behaviours of the inner graph) -/
theorem removeNode_total {v v' : View} {s : AState} {n : Nat} (hom : OMInv v.g.nodes s.om)
    (hc : n ∈ v.g.nodes → RemoveContract v v' n) : ∃ r, Acy.removeNode v v' s n = .ok r := by
  by_cases hn : n ∈ v.g.nodes
  · unfold Acy.removeNode
    have hl : live v n = true := (live_iff v n).mpr hn
    simp only [hl, Bool.not_true, Bool.false_eq_true, ↓reduceIte]
    have hlen := live_lt_len hom hn
    obtain ⟨p, hp, _⟩ := hom.live_p2n n hn
    simp only [OrderMap.removeNode, hp]
    rcases hc hn with ⟨hdead, _⟩ | ⟨halive, hlast, hne, _⟩
    · have : live v' n = false := by
        cases hb : live v' n with
        | false => rfl
        | true => exact absurd ((live_iff v' n).mp hb) hdead
      simp only [this, Bool.false_eq_true, ↓reduceIte]
      exact ⟨_, rfl⟩
    · have : live v' n = true := (live_iff v' n).mpr halive
      simp only [this, ↓reduceIte]
      obtain ⟨q, hq, _⟩ := hom.live_p2n _ hlast
      have hq' : (s.om.n2p.set n 0)[v.nb - 1]? = some q := by
        rw [List.getElem?_set_ne (Ne.symm hne)]; exact hq
      simp only [OrderMap.getPos, hq', OrderMap.setPos, List.length_set, hlen, ↓reduceIte]
      exact ⟨_, rfl⟩
  · exact ⟨_, removeNode_absent v v' s n hn⟩

/-- **no panic** (any call): under the invariant with a valid order, every call whose arguments the
contract admits returns -/
theorem stepCall_total {v : View} {s : AState} (hs : Safe v s) {c : Call} (hok : c.InnerOk v)
    (hnb : ∀ i v', c = .addNode i v' → i < v'.nb) : ∃ r, stepCall v s c = .ok r := by
  cases c with
  | addNode i v' =>
    obtain ⟨s', h⟩ := addNode_total (s := s) (hnb i v' rfl)
    simp only [stepCall, h]
    exact ⟨_, rfl⟩
  | edge a b v' =>
    obtain ⟨ha, hb, _, _⟩ := hok
    obtain ⟨⟨s', r⟩, h⟩ := tryAddEdge_total hs ha hb
    simp only [stepCall, h]
    cases r <;> exact ⟨_, rfl⟩
  | removeNode n v' =>
    obtain ⟨⟨s', r⟩, h⟩ := removeNode_total (s := s) hs.inv2.1.1 hok.1
    simp only [stepCall, h]
    cases r <;> exact ⟨_, rfl⟩
  | removeEdge v' => exact ⟨_, rfl⟩
  | isValid a b =>
    obtain ⟨ha, hb⟩ := hok
    obtain ⟨⟨s', r⟩, h⟩ := isValidEdge_total hs ha hb
    simp only [stepCall, h]
    exact ⟨_, rfl⟩

end PetgraphModel.AcyNP
