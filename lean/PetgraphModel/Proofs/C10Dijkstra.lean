import PetgraphModel.Model.C10ShortestPaths
import PetgraphModel.Oracle.Dist
import PetgraphModel.Proofs.Dist
import PetgraphModel.Proofs.C10Judge
/-
Correctness of the dijkstra mirror model (`SP.dijLoop`) for EVERY heap discipline `pop` that returns
some entry of minimal score (`IsMinPop`), every view whose `edges(a)` rows describe the arcs of the
abstract graph (`ViewArcs`), and non-negative weights (`NonNeg`).
-/
namespace PetgraphModel.C10P
open PetgraphModel PetgraphModel.MGraph PetgraphModel.SP

/-! ### hypotheses -/

/-- `pop` returns an entry of minimal score and leaves exactly the other entries (as a multiset) -/
structure IsMinPop (pop : Pop) : Prop where
  none_iff : ∀ h, pop h = none ↔ h = []
  perm : ∀ h e h', pop h = some (e, h') → h.Perm (e :: h')
  min : ∀ h e h', pop h = some (e, h') → ∀ x ∈ h, e.1 ≤ x.1

theorem IsMinPop.mem {pop : Pop} (hp : IsMinPop pop) (h : Heap) (e : Int × Nat) (h' : Heap)
    (hpop : pop h = some (e, h')) : ∀ x, x ∈ h ↔ x = e ∨ x ∈ h' := by
  intro x
  rw [(hp.perm h e h' hpop).mem_iff, List.mem_cons]

theorem IsMinPop.len {pop : Pop} (hp : IsMinPop pop) (h : Heap) (e : Int × Nat) (h' : Heap)
    (hpop : pop h = some (e, h')) : h'.length + 1 = h.length := by
  rw [(hp.perm h e h' hpop).length_eq, List.length_cons]

/-- the view's `edges(a)` rows are exactly the arcs of the abstract graph out of `a`, with weights -/
def ViewArcs (v : View) : Prop :=
  ∀ a b w, (∃ e, (b, e) ∈ v.outOf a ∧ v.weight e = w) ↔ (a, b, w) ∈ v.g.arcs

def NonNeg (g : MGraph) : Prop := ∀ a b w, (a, b, w) ∈ g.arcs → 0 ≤ w

/-! ### association lists -/

theorem amGet_amSet {β : Type} (m : List (Nat × β)) (k k' : Nat) (x : β) :
    amGet (amSet m k x) k' = if k' = k then some x else amGet m k' := by
  induction m with
  | nil =>
    simp only [amSet, amGet, List.lookup]
    by_cases h : k' = k
    · simp [h]
    · have : (k' == k) = false := by simpa using h
      simp [h, this]
  | cons p r ih =>
    obtain ⟨a, b⟩ := p
    simp only [amSet]
    by_cases hak : a = k
    · subst hak
      simp only [if_true, amGet, List.lookup]
      by_cases h : k' = a
      · simp [h]
      · have : (k' == a) = false := by simpa using h
        simp [h, this]
    · simp only [hak, if_false, amGet, List.lookup]
      by_cases h : k' = a
      · subst h
        have : ¬ k' = k := hak
        simp [this]
      · have h' : (k' == a) = false := by simpa using h
        simp only [h']
        exact ih

/-! ### walks -/

theorem walk_nonneg {g : MGraph} (hw : NonNeg g) {a b : Nat} {c : Int} (h : WalkCost g a b c) : 0 ≤ c := by
  induction h with
  | nil => exact Int.le_refl 0
  | snoc _ harc ih => have := hw _ _ _ harc; omega

/-! ### the invariant -/

/-- the part of the invariant that also holds while the edges of the current node are being relaxed -/
structure Core (g : MGraph) (s : Nat) (vis : List Nat) (D : Nat → Option Int) (heap : Heap) : Prop where
  src : ∃ y, D s = some y ∧ y ≤ 0
  real : ∀ x y, D x = some y → WalkCost g s x y
  closed : ∀ u, u ∈ vis → ∀ x, D u = some x → ∀ b w, (u, b, w) ∈ g.arcs → ∃ y, D b = some y ∧ y ≤ x + w
  visScored : ∀ u, u ∈ vis → ∃ x, D u = some x
  visLe : ∀ u, u ∈ vis → ∀ x, D u = some x → ∀ e, e ∈ heap → x ≤ e.1
  heapScored : ∀ e, e ∈ heap → ∃ y, D e.2 = some y ∧ y ≤ e.1

/-- the loop invariant of `dijLoop` -/
structure Inv (g : MGraph) (s : Nat) (st : DState) : Prop where
  core : Core g s st.visited (amGet st.scores) st.heap
  pending : ∀ b, b ∉ st.visited → ∀ y, amGet st.scores b = some y → (y, b) ∈ st.heap

/-- the invariant while node `u` (popped with score `c`) is being expanded -/
structure Mid (g : MGraph) (s u : Nat) (c : Int) (st : DState) : Prop where
  core : Core g s st.visited (amGet st.scores) st.heap
  pending : ∀ b, b ∉ st.visited → b ≠ u → ∀ y, amGet st.scores b = some y → (y, b) ∈ st.heap
  uScore : amGet st.scores u = some c
  uFresh : u ∉ st.visited
  uMin : ∀ e, e ∈ st.heap → c ≤ e.1
  visLeC : ∀ u', u' ∈ st.visited → ∀ x, amGet st.scores u' = some x → x ≤ c

/-- the state after `scores[next] := ns; heap.push((ns, next))` -/
def upd (st : DState) (next : Nat) (ns : Int) : DState :=
  { st with scores := amSet st.scores next ns, heap := st.heap ++ [(ns, next)] }

theorem upd_mono (st : DState) (next : Nat) (ns : Int)
    (hlow : ∀ old, amGet st.scores next = some old → ns ≤ old) :
    ∀ b y, amGet st.scores b = some y → ∃ y', amGet (upd st next ns).scores b = some y' ∧ y' ≤ y := by
  intro b y hb
  simp only [upd, amGet_amSet]
  by_cases h : b = next
  · subst h; simp; exact hlow y hb
  · simp [h, hb]

theorem mid_upd {g : MGraph} (hw : NonNeg g) {s u : Nat} {c : Int} {st : DState} (M : Mid g s u c st)
    {next : Nat} {w : Int} (harc : (u, next, w) ∈ g.arcs) (hnv : next ∉ st.visited)
    (hlow : ∀ old, amGet st.scores next = some old → c + w < old) (hnu : next ≠ u) :
    Mid g s u c (upd st next (c + w)) := by
  have hw0 : 0 ≤ w := hw _ _ _ harc
  have hmono := upd_mono st next (c + w) (fun old h => Int.le_of_lt (hlow old h))
  have hget : ∀ b, amGet (upd st next (c + w)).scores b = if b = next then some (c + w) else amGet st.scores b := by
    intro b; simp [upd, amGet_amSet]
  have hheap : ∀ e, e ∈ (upd st next (c + w)).heap ↔ e ∈ st.heap ∨ e = (c + w, next) := by
    intro e; simp [upd]
  have hvis : (upd st next (c + w)).visited = st.visited := rfl
  refine ⟨⟨?_, ?_, ?_, ?_, ?_, ?_⟩, ?_, ?_, ?_, ?_, ?_⟩
  · obtain ⟨y, hy, hy0⟩ := M.core.src
    obtain ⟨y', hy', hle⟩ := hmono s y hy
    exact ⟨y', hy', by omega⟩
  · intro x y hx
    rw [hget] at hx
    by_cases h : x = next
    · simp [h] at hx
      subst h; subst hx
      have := WalkCost.snoc (M.core.real u c M.uScore) harc
      exact this
    · simp [h] at hx
      exact M.core.real x y hx
  · intro u' hu' x hx b w' harc'
    rw [hvis] at hu'
    have hne : u' ≠ next := fun e => hnv (e ▸ hu')
    rw [hget] at hx
    simp [hne] at hx
    obtain ⟨y, hy, hle⟩ := M.core.closed u' hu' x hx b w' harc'
    obtain ⟨y', hy', hle'⟩ := hmono b y hy
    exact ⟨y', hy', by omega⟩
  · intro u' hu'
    rw [hvis] at hu'
    obtain ⟨x, hx⟩ := M.core.visScored u' hu'
    obtain ⟨y', hy', _⟩ := hmono u' x hx
    exact ⟨y', hy'⟩
  · intro u' hu' x hx e he
    rw [hvis] at hu'
    have hne : u' ≠ next := fun e => hnv (e ▸ hu')
    rw [hget] at hx
    simp [hne] at hx
    rcases (hheap e).mp he with h | h
    · exact M.core.visLe u' hu' x hx e h
    · subst h
      have := M.visLeC u' hu' x hx
      simp; omega
  · intro e he
    rcases (hheap e).mp he with h | h
    · obtain ⟨y, hy, hle⟩ := M.core.heapScored e h
      obtain ⟨y', hy', hle'⟩ := hmono e.2 y hy
      exact ⟨y', hy', by omega⟩
    · subst h
      exact ⟨c + w, by simp [hget], Int.le_refl _⟩
  · intro b hb hbu y hy
    rw [hvis] at hb
    rw [hget] at hy
    apply (hheap _).mpr
    by_cases h : b = next
    · simp [h] at hy
      right; rw [h, ← hy]
    · simp [h] at hy
      left; exact M.pending b hb hbu y hy
  · rw [hget]; simp [Ne.symm hnu]; exact M.uScore
  · exact M.uFresh
  · intro e he
    rcases (hheap e).mp he with h | h
    · exact M.uMin e h
    · subst h; simp; omega
  · intro u' hu' x hx
    rw [hvis] at hu'
    have hne : u' ≠ next := fun e => hnv (e ▸ hu')
    rw [hget] at hx
    simp [hne] at hx
    exact M.visLeC u' hu' x hx

/-- the edge loop: keeps `Mid`, never raises a score, and afterwards every processed edge is relaxed -/
theorem relax_spec {g : MGraph} (hw : NonNeg g) (v : View) {s u : Nat} {c : Int} :
    ∀ (rows : List (Nat × Nat)) (st : DState), Mid g s u c st →
      (∀ be, be ∈ rows → (u, be.1, v.weight be.2) ∈ g.arcs) →
      Mid g s u c (dijRelax v c rows st) ∧
      (dijRelax v c rows st).visited = st.visited ∧
      (∀ b y, amGet st.scores b = some y → ∃ y', amGet (dijRelax v c rows st).scores b = some y' ∧ y' ≤ y) ∧
      (∀ be, be ∈ rows → ∃ y, amGet (dijRelax v c rows st).scores be.1 = some y ∧ y ≤ c + v.weight be.2) := by
  intro rows
  induction rows with
  | nil =>
    intro st M _
    exact ⟨M, rfl, fun b y h => ⟨y, h, Int.le_refl _⟩, fun be h => by cases h⟩
  | cons hd rest ih =>
    intro st M harcs
    obtain ⟨next, eid⟩ := hd
    have harc : (u, next, v.weight eid) ∈ g.arcs := harcs (next, eid) (List.mem_cons_self ..)
    have hw0 : 0 ≤ v.weight eid := hw _ _ _ harc
    have harcs' : ∀ be, be ∈ rest → (u, be.1, v.weight be.2) ∈ g.arcs :=
      fun be h => harcs be (List.mem_cons_of_mem _ h)
    -- the state after the head entry, with what it guarantees for the head entry
    have key : ∃ st1, dijRelax v c ((next, eid) :: rest) st = dijRelax v c rest st1 ∧ Mid g s u c st1 ∧
        st1.visited = st.visited ∧
        (∀ b y, amGet st.scores b = some y → ∃ y', amGet st1.scores b = some y' ∧ y' ≤ y) ∧
        (∃ y, amGet st1.scores next = some y ∧ y ≤ c + v.weight eid) := by
      by_cases hvis : st.visited.contains next = true
      · have hmem : next ∈ st.visited := by simpa using hvis
        refine ⟨st, by simp [dijRelax, hmem], M, rfl, fun b y h => ⟨y, h, Int.le_refl _⟩, ?_⟩
        obtain ⟨x, hx⟩ := M.core.visScored next hmem
        exact ⟨x, hx, by have := M.visLeC next hmem x hx; omega⟩
      · have hnv : next ∉ st.visited := by simpa using hvis
        have hvis' : st.visited.contains next = false := by simpa using hvis
        cases hold : amGet st.scores next with
        | none =>
          have hnu : next ≠ u := by
            intro e; rw [e, M.uScore] at hold; cases hold
          have M1 := mid_upd hw M harc hnv (fun old h => by rw [hold] at h; cases h) hnu
          refine ⟨upd st next (c + v.weight eid), by simp [dijRelax, hnv, hold, upd], M1, rfl,
            upd_mono st next _ (fun old h => by rw [hold] at h; cases h), ?_⟩
          exact ⟨c + v.weight eid, by simp [upd, amGet_amSet], Int.le_refl _⟩
        | some old =>
          by_cases hlt : c + v.weight eid < old
          · have hnu : next ≠ u := by
              intro e; rw [e, M.uScore] at hold; cases hold; omega
            have hl : ∀ old', amGet st.scores next = some old' → c + v.weight eid < old' := by
              intro old' h; rw [hold] at h; cases h; exact hlt
            have M1 := mid_upd hw M harc hnv hl hnu
            refine ⟨upd st next (c + v.weight eid), by simp [dijRelax, hnv, hold, hlt, upd], M1, rfl,
              upd_mono st next _ (fun old' h => Int.le_of_lt (hl old' h)), ?_⟩
            exact ⟨c + v.weight eid, by simp [upd, amGet_amSet], Int.le_refl _⟩
          · refine ⟨st, by simp [dijRelax, hnv, hold, hlt], M, rfl, fun b y h => ⟨y, h, Int.le_refl _⟩, ?_⟩
            exact ⟨old, hold, by omega⟩
    obtain ⟨st1, heq, M1, hv1, hmono1, hhead⟩ := key
    obtain ⟨M2, hv2, hmono2, hrows⟩ := ih st1 M1 harcs'
    rw [heq]
    refine ⟨M2, hv2.trans hv1, ?_, ?_⟩
    · intro b y hb
      obtain ⟨y1, h1, l1⟩ := hmono1 b y hb
      obtain ⟨y2, h2, l2⟩ := hmono2 b y1 h1
      exact ⟨y2, h2, by omega⟩
    · intro be hbe
      cases List.mem_cons.mp hbe with
      | inl h =>
        subst h
        obtain ⟨y, hy, hle⟩ := hhead
        obtain ⟨y2, h2, l2⟩ := hmono2 next y hy
        show ∃ y, amGet _ next = some y ∧ y ≤ c + v.weight eid
        exact ⟨y2, h2, by omega⟩
      | inr h => exact hrows be h


/-! ### the main loop -/

/-- how `dijLoop` can end: the heap ran empty, or the goal was popped from the heap of a state that
satisfies the invariant -/
inductive Exit (pop : Pop) (g : MGraph) (s : Nat) (goal : Option Nat) (st' : DState) : Prop
  | drained : Inv g s st' → st'.heap = [] → (∀ t, goal = some t → t ∉ st'.visited) → Exit pop g s goal st'
  | atGoal (st0 : DState) (t : Nat) (c : Int) (h' : Heap) : goal = some t → Inv g s st0 →
      pop st0.heap = some ((c, t), h') → t ∉ st0.visited → st'.scores = st0.scores → Exit pop g s goal st'

theorem core_pop {g : MGraph} {s : Nat} {vis : List Nat} {D : Nat → Option Int} {h h' : Heap}
    (C : Core g s vis D h) (hsub : ∀ x, x ∈ h' → x ∈ h) : Core g s vis D h' :=
  ⟨C.src, C.real, C.closed, C.visScored, fun u hu x hx e he => C.visLe u hu x hx e (hsub e he),
    fun e he => C.heapScored e (hsub e he)⟩

/-- a node popped while unvisited carries its current score -/
theorem popped_score {pop : Pop} (hp : IsMinPop pop) {g : MGraph} {s : Nat} {st : DState} (I : Inv g s st)
    {c : Int} {node : Nat} {h' : Heap} (hpop : pop st.heap = some ((c, node), h')) (hnv : node ∉ st.visited) :
    amGet st.scores node = some c := by
  have hin : (c, node) ∈ st.heap := (hp.mem _ _ _ hpop (c, node)).mpr (Or.inl rfl)
  obtain ⟨y, hy, hle⟩ := I.core.heapScored (c, node) hin
  have hin' := I.pending node hnv y hy
  have := hp.min _ _ _ hpop (y, node) hin'
  simp at this hle
  have : y = c := by omega
  rw [hy, this]

theorem loop_spec {pop : Pop} (hp : IsMinPop pop) {v : View} (hv : ViewArcs v) (hw : NonNeg v.g)
    (s : Nat) (goal : Option Nat) :
    ∀ (fuel : Nat) (st st' : DState), Inv v.g s st → (∀ t, goal = some t → t ∉ st.visited) →
      dijLoop pop v goal fuel st = some st' → Exit pop v.g s goal st' := by
  intro fuel
  induction fuel with
  | zero => intro st st' _ _ h; simp [dijLoop] at h
  | succ f ih =>
    intro st st' I hgoal h
    simp only [dijLoop] at h
    cases hpop : pop st.heap with
    | none =>
      rw [hpop] at h
      simp at h
      subst h
      exact Exit.drained I ((hp.none_iff _).mp hpop) hgoal
    | some eh =>
      obtain ⟨⟨c, node⟩, h'⟩ := eh
      rw [hpop] at h
      simp only at h
      have hmem := hp.mem _ _ _ hpop
      have hsub : ∀ x, x ∈ h' → x ∈ st.heap := fun x hx => (hmem x).mpr (Or.inr hx)
      by_cases hvis : node ∈ st.visited
      · -- stale entry
        have hc : st.visited.contains node = true := by simpa using hvis
        simp only [hc, if_true] at h
        refine ih { st with heap := h' } st' ⟨core_pop I.core hsub, ?_⟩ hgoal h
        intro b hb y hy
        rcases (hmem _).mp (I.pending b hb y hy) with e | e
        · cases e; exact absurd hvis hb
        · exact e
      · have hc : st.visited.contains node = false := by simpa using hvis
        simp only [hc] at h
        by_cases hg : goal = some node
        · have : (goal == some node) = true := by simp [hg]
          simp only [this, if_true] at h
          simp at h
          exact Exit.atGoal st node c h' hg I hpop hvis (by rw [← h])
        · have : (goal == some node) = false := by simpa using hg
          simp only [this] at h
          simp at h
          -- expansion of `node`
          have hsc := popped_score hp I hpop hvis
          have M : Mid v.g s node c { st with heap := h' } := by
            refine ⟨core_pop I.core hsub, ?_, hsc, hvis, ?_, ?_⟩
            · intro b hb hbn y hy
              rcases (hmem _).mp (I.pending b hb y hy) with e | e
              · cases e; exact absurd rfl hbn
              · exact e
            · intro e he
              exact hp.min _ _ _ hpop e (hsub e he)
            · intro u' hu' x hx
              exact I.core.visLe u' hu' x hx (c, node) ((hmem _).mpr (Or.inl rfl))
          have harcs : ∀ be, be ∈ v.outOf node → (node, be.1, v.weight be.2) ∈ v.g.arcs :=
            fun be hbe => (hv node be.1 (v.weight be.2)).mp ⟨be.2, hbe, rfl⟩
          have R := relax_spec hw v (v.outOf node) _ M harcs
          generalize dijRelax v c (v.outOf node) { st with heap := h' } = st2 at R h
          obtain ⟨M2, hv2, _, hrows⟩ := R
          refine ih { st2 with visited := node :: st2.visited } st'
            ⟨⟨M2.core.src, M2.core.real, ?_, ?_, ?_, M2.core.heapScored⟩, ?_⟩ ?_ h
          · intro u' hu' x hx b w harc
            rcases List.mem_cons.mp hu' with e | e
            · subst e
              have hx' : x = c := by
                have := M2.uScore; simp only at hx; rw [hx] at this; cases this; rfl
              subst hx'
              obtain ⟨eid, hmemrow, hwe⟩ := (hv u' b w).mpr harc
              obtain ⟨y, hy, hle⟩ := hrows (b, eid) hmemrow
              exact ⟨y, hy, by simp only at hle; rw [hwe] at hle; exact hle⟩
            · exact M2.core.closed u' e x hx b w harc
          · intro u' hu'
            rcases List.mem_cons.mp hu' with e | e
            · subst e; exact ⟨c, M2.uScore⟩
            · exact M2.core.visScored u' e
          · intro u' hu' x hx e he
            rcases List.mem_cons.mp hu' with e' | e'
            · subst e'
              have hx' : x = c := by
                have := M2.uScore; simp only at hx; rw [hx] at this; cases this; rfl
              subst hx'
              exact M2.uMin e he
            · exact M2.core.visLe u' e' x hx e he
          · intro b hb y hy
            have hb' : b ≠ node ∧ b ∉ st2.visited := by
              simp at hb; exact hb
            exact M2.pending b hb'.2 hb'.1 y hy
          · intro t ht
            simp only [List.mem_cons, not_or]
            refine ⟨fun e => hg (by rw [ht, e]), ?_⟩
            rw [hv2]
            exact hgoal t ht

/-- with every heap entry at least `c`: each walk either is matched by a score or costs at least `c` -/
theorem lower_bound {g : MGraph} (hw : NonNeg g) {s : Nat} {st : DState} (I : Inv g s st) (c : Int)
    (hc : ∀ e, e ∈ st.heap → c ≤ e.1) :
    ∀ x c', WalkCost g s x c' → (∃ y, amGet st.scores x = some y ∧ y ≤ c') ∨ c ≤ c' := by
  intro x c' hwalk
  induction hwalk with
  | nil => exact Or.inl I.core.src
  | snoc hwk harc ih =>
    rename_i b x c1 w
    have hw0 := hw _ _ _ harc
    rcases ih with ⟨y, hy, hle⟩ | hge
    · by_cases hb : b ∈ st.visited
      · obtain ⟨y', hy', hle'⟩ := I.core.closed b hb y hy x w harc
        exact Or.inl ⟨y', hy', by omega⟩
      · have := hc _ (I.pending b hb y hy)
        simp at this
        exact Or.inr (by omega)
    · exact Or.inr (by omega)

theorem inv_init (g : MGraph) (s : Nat) : Inv g s (dijInit s) := by
  have hget : ∀ x y, amGet (dijInit s).scores x = some y → x = s ∧ y = 0 := by
    intro x y h
    simp only [dijInit, amGet, List.lookup] at h
    split at h
    · rename_i heq; cases h; exact ⟨by simpa using heq, rfl⟩
    · cases h
  have hs : amGet (dijInit s).scores s = some 0 := by simp [dijInit, amGet, List.lookup]
  refine ⟨⟨⟨0, hs, Int.le_refl _⟩, ?_, ?_, ?_, ?_, ?_⟩, ?_⟩
  · intro x y h
    obtain ⟨h1, h2⟩ := hget x y h
    subst h1; subst h2
    exact WalkCost.nil _
  · intro u hu; simp [dijInit] at hu
  · intro u hu; simp [dijInit] at hu
  · intro u hu; simp [dijInit] at hu
  · intro e he
    simp [dijInit] at he
    subst he
    exact ⟨0, hs, Int.le_refl _⟩
  · intro b _ y h
    obtain ⟨h1, h2⟩ := hget b y h
    subst h1; subst h2
    simp [dijInit]

/-- the clauses of the property, for a returned score map `D` -/
structure DijSpec (g : MGraph) (s : Nat) (goal : Option Nat) (D : Nat → Option Int) : Prop where
  /-- every entry is the cost of a real walk (an upper bound of the distance) -/
  real : ∀ x y, D x = some y → WalkCost g s x y
  /-- without goal: exactly the true distances of exactly the reachable nodes -/
  all : goal = none → (∀ x y, D x = some y ↔ IsShortest g s x y) ∧ (∀ x, D x = none ↔ ¬ Reach g s x)
  /-- with goal: its entry is exact, absent iff unreachable; nodes strictly closer are exact -/
  goalExact : ∀ t, goal = some t → (∀ y, D t = some y ↔ IsShortest g s t y) ∧ (D t = none ↔ ¬ Reach g s t)
  closer : ∀ t, goal = some t → ∀ x y, IsShortest g s x y → (∀ yt, IsShortest g s t yt → y < yt) → D x = some y

theorem exact_of_drained {g : MGraph} (hw : NonNeg g) {s : Nat} {st : DState} (I : Inv g s st)
    (hh : st.heap = []) :
    (∀ x y, amGet st.scores x = some y ↔ IsShortest g s x y) ∧
    (∀ x, amGet st.scores x = none ↔ ¬ Reach g s x) := by
  have lb : ∀ x c', WalkCost g s x c' → ∃ y, amGet st.scores x = some y ∧ y ≤ c' := by
    intro x c' hwk
    rcases lower_bound hw I (c' + 1) (by intro e he; rw [hh] at he; cases he) x c' hwk with h | h
    · exact h
    · omega
  have h1 : ∀ x y, amGet st.scores x = some y ↔ IsShortest g s x y := by
    intro x y
    constructor
    · intro h
      refine ⟨I.core.real x y h, ?_⟩
      intro c' hwk
      obtain ⟨y', hy', hle⟩ := lb x c' hwk
      rw [h] at hy'; cases hy'; exact hle
    · intro hs
      obtain ⟨y', hy', hle⟩ := lb x y hs.1
      have := hs.2 y' (I.core.real x y' hy')
      have : y' = y := by omega
      rw [hy', this]
  refine ⟨h1, ?_⟩
  intro x
  rw [← DistProofs.walk_iff_reach]
  constructor
  · intro hn ⟨c', hwk⟩
    obtain ⟨y, hy, _⟩ := lb x c' hwk
    rw [hn] at hy; cases hy
  · intro hn
    cases hx : amGet st.scores x with
    | none => rfl
    | some y => exact absurd ⟨y, I.core.real x y hx⟩ hn

theorem spec_of_exit {pop : Pop} (hp : IsMinPop pop) {g : MGraph} (hw : NonNeg g) {s : Nat}
    {goal : Option Nat} {st' : DState} (E : Exit pop g s goal st') :
    DijSpec g s goal (amGet st'.scores) := by
  cases E with
  | drained I hh hgoal =>
    obtain ⟨h1, h2⟩ := exact_of_drained hw I hh
    refine ⟨I.core.real, fun _ => ⟨h1, h2⟩, ?_, ?_⟩
    · intro t _
      exact ⟨h1 t, h2 t⟩
    · intro t _ x y hs _
      exact (h1 x y).mpr hs
  | atGoal st0 t c h' hg I hpop hnv hsc =>
    rw [hsc]
    have hct := popped_score hp I hpop hnv
    have lb := lower_bound hw I c (fun e he => hp.min _ _ _ hpop e he)
    have hshort : IsShortest g s t c := by
      refine ⟨I.core.real t c hct, ?_⟩
      intro c' hwk
      rcases lb t c' hwk with ⟨y, hy, hle⟩ | h
      · rw [hct] at hy; cases hy; exact hle
      · exact h
    refine ⟨I.core.real, fun h => (by rw [hg] at h; cases h), ?_, ?_⟩
    · intro t' ht'
      rw [hg] at ht'; cases ht'
      refine ⟨?_, ?_⟩
      · intro y
        constructor
        · intro h; rw [hct] at h; cases h; exact hshort
        · intro hs
          have : y = c := Int.le_antisymm (hs.2 c hshort.1) (hshort.2 y hs.1)
          rw [hct, this]
      · rw [hct]
        constructor
        · intro h; cases h
        · intro hn
          exact absurd ((DistProofs.walk_iff_reach g s t).mp ⟨c, hshort.1⟩) hn
    · intro t' ht' x y hs hlt
      rw [hg] at ht'; cases ht'
      have hyc := hlt c hshort
      rcases lb x y hs.1 with ⟨y', hy', hle⟩ | h
      · have := hs.2 y' (I.core.real x y' hy')
        have : y' = y := by omega
        rw [hy', this]
      · omega

/-- **dijkstra mirror model, every heap discipline**: whatever `dijLoop` returns satisfies the
clauses of the property. -/
theorem dijkstra_correct {pop : Pop} (hp : IsMinPop pop) {v : View} (hv : ViewArcs v) (hw : NonNeg v.g)
    (s : Nat) (goal : Option Nat) (m : List (Nat × Int)) (h : dijkstra pop v s goal = some m) :
    DijSpec v.g s goal (amGet m) := by
  unfold dijkstra at h
  cases hl : dijLoop pop v goal (dijFuel v) (dijInit s) with
  | none => rw [hl] at h; cases h
  | some st' =>
    rw [hl] at h
    simp at h
    subst h
    exact spec_of_exit hp hw (loop_spec hp hv hw s goal _ _ _ (inv_init _ _) (by intro t _; simp [dijInit]) hl)


/-! ### the executable heap discipline is a min-pop -/

theorem minKey_le (l : Heap) : ∀ m, minKey m l ≤ m ∧ ∀ y, y ∈ l → minKey m l ≤ y.1 := by
  induction l with
  | nil => intro m; exact ⟨Int.le_refl _, fun y h => by cases h⟩
  | cons x r ih =>
    intro m
    simp only [minKey]
    by_cases hlt : x.1 < m
    · simp only [hlt, if_true]
      obtain ⟨h1, h2⟩ := ih x.1
      refine ⟨by omega, ?_⟩
      intro y hy
      cases List.mem_cons.mp hy with
      | inl e => subst e; exact h1
      | inr e => exact h2 y e
    · simp only [hlt, if_false]
      obtain ⟨h1, h2⟩ := ih m
      refine ⟨h1, ?_⟩
      intro y hy
      cases List.mem_cons.mp hy with
      | inl e => subst e; omega
      | inr e => exact h2 y e

theorem minKey_attained (l : Heap) : ∀ m, minKey m l = m ∨ ∃ y, y ∈ l ∧ y.1 = minKey m l := by
  induction l with
  | nil => intro m; exact Or.inl rfl
  | cons x r ih =>
    intro m
    simp only [minKey]
    rcases ih (if x.1 < m then x.1 else m) with h | ⟨y, hy, he⟩
    · split at h
      · exact Or.inr ⟨x, List.mem_cons_self .., by rw [if_pos (by assumption)]; exact h.symm⟩
      · rename_i hlt; rw [if_neg hlt]; exact Or.inl h
    · exact Or.inr ⟨y, List.mem_cons_of_mem _ hy, he⟩

theorem takeFirst_perm (m : Int) : ∀ (l : Heap) (e : Int × Nat) (r : Heap), takeFirst m l = some (e, r) →
    l.Perm (e :: r) := by
  intro l
  induction l with
  | nil => intro e r h; simp [takeFirst] at h
  | cons y ys ih =>
    intro e r h
    simp only [takeFirst] at h
    split at h
    · simp at h
      obtain ⟨h1, h2⟩ := h
      subst h1; subst h2
      exact List.Perm.refl _
    · cases ht : takeFirst m ys with
      | none => rw [ht] at h; simp at h
      | some er =>
        obtain ⟨e', r'⟩ := er
        rw [ht] at h
        simp at h
        obtain ⟨h1, h2⟩ := h
        subst h1; subst h2
        exact ((ih e' r' ht).cons y).trans (List.Perm.swap e' y r')

theorem takeFirst_some (m : Int) : ∀ (l : Heap) (e : Int × Nat) (r : Heap), takeFirst m l = some (e, r) →
    e.1 = m ∧ (∀ x, x ∈ l ↔ x = e ∨ x ∈ r) ∧ r.length + 1 = l.length := by
  intro l
  induction l with
  | nil => intro e r h; simp [takeFirst] at h
  | cons y ys ih =>
    intro e r h
    simp only [takeFirst] at h
    split at h
    · rename_i hy
      simp at h
      obtain ⟨h1, h2⟩ := h
      subst h1; subst h2
      exact ⟨hy, fun x => by simp, rfl⟩
    · cases ht : takeFirst m ys with
      | none => rw [ht] at h; simp at h
      | some er =>
        obtain ⟨e', r'⟩ := er
        rw [ht] at h
        simp at h
        obtain ⟨h1, h2⟩ := h
        subst h1; subst h2
        obtain ⟨a1, a2, a3⟩ := ih e' r' ht
        refine ⟨a1, ?_, by simp [a3]⟩
        intro x
        simp only [List.mem_cons, a2 x]
        constructor
        · rintro (h | h | h)
          · exact Or.inr (Or.inl h)
          · exact Or.inl h
          · exact Or.inr (Or.inr h)
        · rintro (h | h | h)
          · exact Or.inr (Or.inl h)
          · exact Or.inl h
          · exact Or.inr (Or.inr h)

theorem takeFirst_none (m : Int) : ∀ (l : Heap), takeFirst m l = none → ∀ y, y ∈ l → y.1 ≠ m := by
  intro l
  induction l with
  | nil => intro _ y hy; cases hy
  | cons x xs ih =>
    intro h y hy
    simp only [takeFirst] at h
    split at h
    · cases h
    · rename_i hx
      cases ht : takeFirst m xs with
      | some er => rw [ht] at h; simp at h
      | none =>
        cases List.mem_cons.mp hy with
        | inl e => subst e; exact hx
        | inr e => exact ih ht y e

theorem popMin_isMinPop : IsMinPop popMin := by
  have key : ∀ x rest e h', popMin (x :: rest) = some (e, h') →
      e.1 = minKey x.1 rest ∧ (∀ y, y ∈ x :: rest ↔ y = e ∨ y ∈ h') ∧ h'.length + 1 = (x :: rest).length :=
    fun x rest e h' h => takeFirst_some _ _ e h' h
  refine ⟨?_, ?_, ?_⟩
  · intro h
    cases h with
    | nil => simp [popMin]
    | cons x rest =>
      simp only [popMin]
      constructor
      · intro hn
        have hne := takeFirst_none _ _ hn
        rcases minKey_attained rest x.1 with h | ⟨y, hy, he⟩
        · exact absurd h.symm (hne x (List.mem_cons_self ..))
        · exact absurd he (hne y (List.mem_cons_of_mem _ hy))
      · intro h; cases h
  · intro h e h' hp
    cases h with
    | nil => simp [popMin] at hp
    | cons x rest => exact takeFirst_perm _ _ e h' hp
  · intro h e h' hp
    cases h with
    | nil => simp [popMin] at hp
    | cons x rest =>
      obtain ⟨h1, _, _⟩ := key x rest e h' hp
      intro y hy
      rw [h1]
      obtain ⟨a, b⟩ := minKey_le rest x.1
      cases List.mem_cons.mp hy with
      | inl e' => subst e'; exact a
      | inr e' => exact b y e'

/-! ### fuel -/

/-- `edges(a)` entries of the rows whose node is not yet visited -/
def rowsLeft (out : List (Nat × List (Nat × Nat))) (vis : List Nat) : Nat :=
  ((out.filter fun r => !vis.contains r.1).map fun r => r.2.length).sum

theorem rowsLeft_mono (out : List (Nat × List (Nat × Nat))) (vis : List Nat) (u : Nat) :
    rowsLeft out (u :: vis) ≤ rowsLeft out vis := by
  induction out with
  | nil => simp [rowsLeft]
  | cons r rest ih =>
    simp only [rowsLeft, List.filter_cons] at ih ⊢
    by_cases h1 : r.1 ∈ vis
    · have a : (u :: vis).contains r.1 = true := by simp [h1]
      have b : vis.contains r.1 = true := by simpa using h1
      simp only [a, b, Bool.not_true]
      exact ih
    · have b : vis.contains r.1 = false := by simpa using h1
      by_cases h2 : r.1 = u
      · have a : (u :: vis).contains r.1 = true := by simp [h2]
        simp only [a, b, Bool.not_true, Bool.not_false, if_true, List.map_cons, List.sum_cons]
        simp only [Bool.false_eq_true, if_false]
        omega
      · have a : (u :: vis).contains r.1 = false := by simp [h1, h2]
        simp only [a, b, Bool.not_false, if_true, List.map_cons, List.sum_cons]
        omega

theorem rowsLeft_visit (out : List (Nat × List (Nat × Nat))) (vis : List Nat) (u : Nat) (hu : u ∉ vis) :
    rowsLeft out (u :: vis) + ((out.lookup u).getD []).length ≤ rowsLeft out vis := by
  induction out with
  | nil => simp [rowsLeft]
  | cons r rest ih =>
    obtain ⟨a, row⟩ := r
    by_cases h2 : a = u
    · subst h2
      have hm := rowsLeft_mono rest vis a
      have c1 : (a :: vis).contains a = true := by simp
      have c2 : vis.contains a = false := by simpa using hu
      simp only [rowsLeft, List.filter_cons, c1, c2, Bool.not_true, Bool.not_false, if_true,
        List.map_cons, List.sum_cons, List.lookup, beq_self_eq_true, Option.getD_some] at hm ⊢
      simp only [Bool.false_eq_true, if_false]
      omega
    · have hl : (List.lookup u ((a, row) :: rest)) = List.lookup u rest := by
        have : (u == a) = false := by simpa using (Ne.symm h2)
        simp [List.lookup, this]
      rw [hl]
      simp only [rowsLeft, List.filter_cons] at ih ⊢
      by_cases h1 : a ∈ vis
      · have c1 : (u :: vis).contains a = true := by simp [h1]
        have c2 : vis.contains a = true := by simpa using h1
        simp only [c1, c2, Bool.not_true]
        exact ih
      · have c1 : (u :: vis).contains a = false := by simp [h1, h2]
        have c2 : vis.contains a = false := by simpa using h1
        simp only [c1, c2, Bool.not_false, if_true, List.map_cons, List.sum_cons]
        omega

theorem relax_len (v : View) (c : Int) : ∀ (rows : List (Nat × Nat)) (st : DState),
    (dijRelax v c rows st).heap.length ≤ st.heap.length + rows.length ∧
    (dijRelax v c rows st).visited = st.visited := by
  intro rows
  induction rows with
  | nil => intro st; simp [dijRelax]
  | cons hd rest ih =>
    intro st
    obtain ⟨next, eid⟩ := hd
    simp only [dijRelax]
    split
    · obtain ⟨a, b⟩ := ih st
      exact ⟨by simp only [List.length_cons]; omega, b⟩
    · split
      · split
        · obtain ⟨a, b⟩ := ih { st with scores := amSet st.scores next (c + v.weight eid), heap := st.heap ++ [(c + v.weight eid, next)] }
          refine ⟨?_, b⟩
          simp only [List.length_append, List.length_cons, List.length_nil] at a ⊢
          omega
        · obtain ⟨a, b⟩ := ih st
          exact ⟨by simp only [List.length_cons]; omega, b⟩
      · obtain ⟨a, b⟩ := ih { st with scores := amSet st.scores next (c + v.weight eid), heap := st.heap ++ [(c + v.weight eid, next)] }
        refine ⟨?_, b⟩
        simp only [List.length_append, List.length_cons, List.length_nil] at a ⊢
        omega

theorem loop_terminates {pop : Pop} (hp : IsMinPop pop) (v : View) (goal : Option Nat) :
    ∀ (fuel : Nat) (st : DState), st.heap.length + rowsLeft v.out st.visited < fuel →
      ∃ st', dijLoop pop v goal fuel st = some st' := by
  intro fuel
  induction fuel with
  | zero => intro st h; omega
  | succ f ih =>
    intro st hμ
    simp only [dijLoop]
    cases hpop : pop st.heap with
    | none => exact ⟨st, rfl⟩
    | some eh =>
      obtain ⟨⟨c, node⟩, h'⟩ := eh
      have hlen := hp.len _ _ _ hpop
      simp only
      by_cases hvis : node ∈ st.visited
      · have hc : st.visited.contains node = true := by simpa using hvis
        simp only [hc, if_true]
        exact ih { st with heap := h' } (by simp only; omega)
      · have hc : st.visited.contains node = false := by simpa using hvis
        simp only [hc]
        by_cases hg : (goal == some node) = true
        · simp only [hg, if_true]; exact ⟨_, rfl⟩
        · simp only [hg]
          obtain ⟨a, b⟩ := relax_len v c (v.outOf node) { st with heap := h' }
          apply ih
          have hvv : rowsLeft v.out (node :: st.visited) + (v.outOf node).length ≤ rowsLeft v.out st.visited :=
            rowsLeft_visit v.out st.visited node hvis
          simp only [b]
          simp only at a
          omega

/-- the fuel the model uses always suffices -/
theorem dijkstra_terminates {pop : Pop} (hp : IsMinPop pop) (v : View) (s : Nat) (goal : Option Nat) :
    ∃ m, dijkstra pop v s goal = some m := by
  have : (dijInit s).heap.length + rowsLeft v.out (dijInit s).visited < dijFuel v := by
    have hf : v.out.filter (fun _ => true) = v.out := List.filter_eq_self.mpr (by simp)
    simp [dijInit, rowsLeft, dijFuel, outTotal, hf]
    omega
  obtain ⟨st', h⟩ := loop_terminates hp v goal _ _ this
  exact ⟨st'.scores, by simp [dijkstra, h]⟩


/-! ### the driver's per-case view check establishes the hypotheses -/

theorem viewOkB_sound (v : View) (h : C10.viewOkB v = true) : ViewArcs v ∧ NonNeg v.g := by
  unfold C10.viewOkB at h
  simp only [Bool.and_eq_true, List.all_eq_true] at h
  obtain ⟨⟨⟨hnn, hrows⟩, hends⟩, hkeys⟩ := h
  refine ⟨?_, ?_⟩
  · intro a b w
    constructor
    · rintro ⟨e, hmem, hwe⟩
      have hrow : ∃ row, v.out.lookup a = some row := by
        cases hl : v.out.lookup a with
        | none => simp [View.outOf, hl] at hmem
        | some row => exact ⟨row, rfl⟩
      obtain ⟨row, hl⟩ := hrow
      have ha : a ∈ v.g.nodes := by
        have := hkeys (a, row) (mem_of_lookup _ _ _ hl)
        simpa using this
      have := (hrows a ha).1.2 (b, e) hmem
      simp only [hwe] at this
      have hc : (a, b, w) ∈ v.g.arcs.filter (fun x => x.1 == a) := by
        simpa using this
      exact (List.mem_filter.mp hc).1
    · intro harc
      have ha : a ∈ v.g.nodes := by
        have := hends (a, b, w) harc
        simp at this
        exact this.1
      have hin : (a, b, w) ∈ v.g.arcs.filter (fun x => x.1 == a) := by
        simp [List.mem_filter, harc]
      have := (hrows a ha).2 (a, b, w) hin
      simp only [List.any_eq_true, Bool.and_eq_true] at this
      obtain ⟨te, hte, h1, h2⟩ := this
      refine ⟨te.2, ?_, by simpa using h2⟩
      have : te.1 = b := by simpa using h1
      rw [← this]
      exact hte
  · intro a b w harc
    have := hnn (a, b, w) harc
    simpa using this

end PetgraphModel.C10P
