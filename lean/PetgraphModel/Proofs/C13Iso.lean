import PetgraphModel.Oracle.C13Iso
import Mathlib.Data.List.Nodup
import Mathlib.Data.List.Perm.Subperm
/-
Lemmas behind the C13 theorems: the enumerator of injections is complete and duplicate-free, the executable
oracle decides the definition, the judges are sound, counting lemmas for the early size rejections, and
relabeling invariance of the definition.
-/
namespace PetgraphModel.C13
open PetgraphModel

/-! ### the enumerator -/

theorem mem_injections {k : Nat} {cod l : List Nat} (h : cod.Nodup) :
    l ∈ injections k cod ↔ l.length = k ∧ l.Nodup ∧ ∀ x ∈ l, x ∈ cod := by
  induction k generalizing cod l with
  | zero =>
    simp only [injections, List.mem_singleton]
    constructor
    · rintro rfl; simp
    · rintro ⟨h0, _, _⟩; exact List.length_eq_zero_iff.mp h0
  | succ k ih =>
    simp only [injections, List.mem_flatMap, List.mem_map]
    constructor
    · rintro ⟨x, hx, t, ht, rfl⟩
      have := (ih (h.erase x)).mp ht
      obtain ⟨h1, h2, h3⟩ := this
      refine ⟨by simp [h1], ?_, ?_⟩
      · refine List.nodup_cons.mpr ⟨?_, h2⟩
        intro hxt
        have := h3 x hxt
        exact ((List.Nodup.mem_erase_iff h).mp this).1 rfl
      · intro y hy
        rcases List.mem_cons.mp hy with rfl | hy
        · exact hx
        · exact ((List.Nodup.mem_erase_iff h).mp (h3 y hy)).2
    · rintro ⟨h1, h2, h3⟩
      cases l with
      | nil => simp at h1
      | cons x t =>
        have hnd := List.nodup_cons.mp h2
        refine ⟨x, h3 x (by simp), t, ?_, rfl⟩
        refine (ih (h.erase x)).mpr ⟨by simpa using h1, hnd.2, ?_⟩
        intro y hy
        refine (List.Nodup.mem_erase_iff h).mpr ⟨?_, h3 y (by simp [hy])⟩
        rintro rfl
        exact hnd.1 hy

theorem nodup_injections {k : Nat} {cod : List Nat} (h : cod.Nodup) : (injections k cod).Nodup := by
  induction k generalizing cod with
  | zero => simp [injections]
  | succ k ih =>
    simp only [injections]
    refine List.nodup_flatMap.mpr ⟨?_, ?_⟩
    · intro x _
      exact (ih (h.erase x)).map (fun a b hab => by simpa using hab)
    · refine List.Pairwise.imp ?_ h
      intro x y hxy
      simp only [Function.onFun]
      intro l h1 h2
      simp only [List.mem_map] at h1 h2
      obtain ⟨t, _, rfl⟩ := h1
      obtain ⟨t', _, h'⟩ := h2
      exact hxy (by simpa using (List.cons.inj h').1.symm)

/-! ### vectors and functions -/

theorem mapOf_cons (a : Nat) (dom : List Nat) (x : Nat) (l : List Nat) (b : Nat) :
    mapOf (a :: dom) (x :: l) b = if b = a then x else mapOf dom l b := by
  unfold mapOf
  simp only [List.zip_cons_cons, List.lookup_cons]
  by_cases h : b = a
  · simp [h]
  · have : (b == a) = false := by simpa using h
    simp [this, h]

theorem map_mapOf {dom l : List Nat} (hd : dom.Nodup) (hl : l.length = dom.length) :
    dom.map (mapOf dom l) = l := by
  induction dom generalizing l with
  | nil => cases l <;> simp_all
  | cons a dom ih =>
    cases l with
    | nil => simp at hl
    | cons x l =>
      have hnd := List.nodup_cons.mp hd
      have hih := ih hnd.2 (l := l) (by simpa using hl)
      have hc : dom.map (mapOf (a :: dom) (x :: l)) = dom.map (mapOf dom l) := by
        apply List.map_congr_left
        intro b hb
        have : b ≠ a := by rintro rfl; exact hnd.1 hb
        simp [mapOf_cons, this]
      rw [List.map_cons, hc, hih, mapOf_cons]
      simp

theorem mapOf_map (dom : List Nat) (f : Nat → Nat) {a : Nat} (ha : a ∈ dom) :
    mapOf dom (dom.map f) a = f a := by
  induction dom with
  | nil => simp at ha
  | cons b dom ih =>
    simp only [List.map_cons, mapOf_cons]
    by_cases h : a = b
    · simp [h]
    · simp only [h, if_false]
      exact ih ((List.mem_cons.mp ha).resolve_left h)

/-! ### the oracle decides the definition -/

theorem embedsB_iff (P : Problem) (f : Nat → Nat) : embedsB P f = true ↔
    (∀ a ∈ P.g0.nodes, ∀ b ∈ P.g0.nodes, (P.g0.Adj a b ↔ P.g1.Adj (f a) (f b))) ∧
    (∀ a ∈ P.g0.nodes, P.nm (P.nw0 a) (P.nw1 (f a)) = true) ∧
    (∀ e0 ∈ P.g0.edges, ∀ e1 ∈ P.g1.edges, Connects P.g1 e1 (f e0.src) (f e0.tgt) → P.em e0.w e1.w = true) := by
  simp only [embedsB, Bool.and_eq_true, List.all_eq_true, adjB, beq_iff_eq, decide_eq_decide,
    Bool.or_eq_true, Bool.not_eq_true', decide_eq_false_iff_not, and_assoc]
  constructor
  · rintro ⟨h1, h2, h3⟩
    refine ⟨h1, h2, ?_⟩
    intro e0 he0 e1 he1 hc
    rcases h3 e0 he0 e1 he1 with h | h
    · exact absurd hc h
    · exact h
  · rintro ⟨h1, h2, h3⟩
    refine ⟨h1, h2, ?_⟩
    intro e0 he0 e1 he1
    by_cases hc : Connects P.g1 e1 (f e0.src) (f e0.tgt)
    · exact Or.inr (h3 e0 he0 e1 he1 hc)
    · exact Or.inl hc

/-- `Embeds` depends on `f` only through its values on the nodes of `g0` -/
theorem Embeds.congr {P : Problem} (wf0 : P.g0.WellFormed) {f f' : Nat → Nat}
    (h : ∀ a ∈ P.g0.nodes, f a = f' a) (e : Embeds P f) : Embeds P f' := by
  refine ⟨?_, ?_, ?_, ?_, ?_⟩
  · intro a ha; rw [← h a ha]; exact e.mapsTo a ha
  · intro a ha b hb; rw [← h a ha, ← h b hb]; exact e.inj a ha b hb
  · intro a ha b hb; rw [← h a ha, ← h b hb]; exact e.adj a ha b hb
  · intro a ha; rw [← h a ha]; exact e.nodeOk a ha
  · intro e0 he0 e1 he1
    rw [← h _ (wf0.2 e0 he0).1, ← h _ (wf0.2 e0 he0).2]
    exact e.edgeOk e0 he0 e1 he1

theorem mem_subIsoAll (P : Problem) (h0 : P.g0.nodes.Nodup) (h1 : P.g1.nodes.Nodup) (l : List Nat) :
    l ∈ subIsoAll P ↔ l.length = P.g0.nodes.length ∧ Embeds P (mapOf P.g0.nodes l) := by
  unfold subIsoAll
  rw [List.mem_filter, mem_injections h1, embedsB_iff]
  constructor
  · rintro ⟨⟨hl, hnd, hsub⟩, ha, hn, he⟩
    refine ⟨hl, ?_, ?_, ha, hn, he⟩
    · intro a ha'
      obtain ⟨i, hi, rfl⟩ := List.getElem_of_mem ha'
      have : mapOf P.g0.nodes l P.g0.nodes[i] = (P.g0.nodes.map (mapOf P.g0.nodes l))[i]'(by simpa using hi) := by simp
      rw [this]
      simp only [map_mapOf h0 hl]
      exact hsub _ (List.getElem_mem _)
    · intro a ha' b hb' hab
      obtain ⟨i, hi, rfl⟩ := List.getElem_of_mem ha'
      obtain ⟨j, hj, rfl⟩ := List.getElem_of_mem hb'
      have e1 : mapOf P.g0.nodes l P.g0.nodes[i] = l[i]'(by omega) := by
        have : mapOf P.g0.nodes l P.g0.nodes[i] = (P.g0.nodes.map (mapOf P.g0.nodes l))[i]'(by simpa using hi) := by simp
        rw [this]; simp only [map_mapOf h0 hl]
      have e2 : mapOf P.g0.nodes l P.g0.nodes[j] = l[j]'(by omega) := by
        have : mapOf P.g0.nodes l P.g0.nodes[j] = (P.g0.nodes.map (mapOf P.g0.nodes l))[j]'(by simpa using hj) := by simp
        rw [this]; simp only [map_mapOf h0 hl]
      rw [e1, e2] at hab
      have : i = j := (List.Nodup.getElem_inj_iff hnd).mp hab
      subst this; rfl
  · rintro ⟨hl, e⟩
    have hmap := map_mapOf h0 hl
    refine ⟨⟨hl, ?_, ?_⟩, e.adj, e.nodeOk, e.edgeOk⟩
    · rw [← hmap]
      exact List.Nodup.map_on (fun a ha b hb hab => e.inj a ha b hb hab) h0
    · intro x hx
      rw [← hmap] at hx
      obtain ⟨a, ha, rfl⟩ := List.mem_map.mp hx
      exact e.mapsTo a ha

theorem nodup_subIsoAll (P : Problem) (h1 : P.g1.nodes.Nodup) : (subIsoAll P).Nodup :=
  (nodup_injections h1).filter _

/-- completeness in terms of functions: the vector of every embedding is listed -/
theorem subIsoAll_complete (P : Problem) (wf0 : P.g0.WellFormed) (h1 : P.g1.nodes.Nodup)
    {f : Nat → Nat} (e : Embeds P f) : P.g0.nodes.map f ∈ subIsoAll P := by
  refine (mem_subIsoAll P wf0.1 h1 _).mpr ⟨by simp, ?_⟩
  exact Embeds.congr wf0 (fun a ha => (mapOf_map _ f ha).symm) e

theorem subIsoB_iff (P : Problem) (wf0 : P.g0.WellFormed) (h1 : P.g1.nodes.Nodup) :
    subIsoB P = true ↔ SubIso P := by
  unfold subIsoB
  constructor
  · intro h
    cases hs : subIsoAll P with
    | nil => simp [hs] at h
    | cons l t =>
      have : l ∈ subIsoAll P := by simp [hs]
      exact ⟨_, ((mem_subIsoAll P wf0.1 h1 l).mp this).2⟩
  · rintro ⟨f, e⟩
    have := subIsoAll_complete P wf0 h1 e
    cases hs : subIsoAll P with
    | nil => simp [hs] at this
    | cons l t => simp

/-! ### counting -/

theorem Embeds.image_nodup {P : Problem} (h0 : P.g0.nodes.Nodup) {f : Nat → Nat} (e : Embeds P f) :
    (P.g0.nodes.map f).Nodup :=
  List.Nodup.map_on (fun a ha b hb hab => e.inj a ha b hb hab) h0

theorem Embeds.image_subset {P : Problem} {f : Nat → Nat} (e : Embeds P f) :
    P.g0.nodes.map f ⊆ P.g1.nodes := by
  intro x hx
  obtain ⟨a, ha, rfl⟩ := List.mem_map.mp hx
  exact e.mapsTo a ha

/-- `node_count` comparison of the subgraph wrappers is a necessary condition -/
theorem SubIso.node_count_le {P : Problem} (h0 : P.g0.nodes.Nodup) (h : SubIso P) :
    P.g0.nodes.length ≤ P.g1.nodes.length := by
  obtain ⟨f, e⟩ := h
  have := (List.subperm_of_subset (e.image_nodup h0) e.image_subset).length_le
  simpa using this

/-- an embedding between node sets of equal size is onto -/
theorem Embeds.onto_of_length_eq {P : Problem} (h0 : P.g0.nodes.Nodup)
    (hlen : P.g0.nodes.length = P.g1.nodes.length) {f : Nat → Nat} (e : Embeds P f) :
    ∀ b ∈ P.g1.nodes, ∃ a ∈ P.g0.nodes, f a = b := by
  intro b hb
  have sp := List.subperm_of_subset (e.image_nodup h0) e.image_subset
  have pm := sp.perm_of_length_le (by simp [hlen])
  have := pm.symm.subset hb
  obtain ⟨a, ha, rfl⟩ := List.mem_map.mp this
  exact ⟨a, ha, rfl⟩

theorem Iso.node_count_eq {P : Problem} (h0 : P.g0.nodes.Nodup) (h1 : P.g1.nodes.Nodup) (h : Iso P) :
    P.g0.nodes.length = P.g1.nodes.length := by
  obtain ⟨f, e, onto⟩ := h
  apply Nat.le_antisymm (SubIso.node_count_le h0 ⟨f, e⟩)
  have : P.g1.nodes ⊆ P.g0.nodes.map f := by
    intro b hb
    obtain ⟨a, ha, rfl⟩ := onto b hb
    exact List.mem_map.mpr ⟨a, ha, rfl⟩
  simpa using (List.subperm_of_subset h1 this).length_le

theorem isoB_iff (P : Problem) (wf0 : P.g0.WellFormed) (h1 : P.g1.nodes.Nodup) :
    isoB P = true ↔ Iso P := by
  unfold isoB
  rw [Bool.and_eq_true, beq_iff_eq, subIsoB_iff P wf0 h1]
  constructor
  · rintro ⟨hlen, f, e⟩
    exact ⟨f, e, e.onto_of_length_eq wf0.1 hlen⟩
  · intro h
    refine ⟨h.node_count_eq wf0.1 h1, ?_⟩
    obtain ⟨f, e, _⟩ := h
    exact ⟨f, e⟩

/-- pigeonhole for relations: if every element of `l` has a partner in `r` and two different positions of
`l` never share a partner, then `l` is not longer than `r` -/
theorem length_le_of_rel {α β : Type} [DecidableEq β] (R : α → β → Prop) :
    ∀ (l : List α) (r : List β), (∀ x ∈ l, ∃ y ∈ r, R x y) →
      l.Pairwise (fun x x' => ∀ y, R x y → ¬ R x' y) → l.length ≤ r.length := by
  intro l
  induction l with
  | nil => intros; simp
  | cons x l ih =>
    intro r hex hpw
    obtain ⟨y, hy, hxy⟩ := hex x (by simp)
    have hpw' := List.pairwise_cons.mp hpw
    have := ih (r.erase y) (by
      intro x' hx'
      obtain ⟨y', hy', hx'y'⟩ := hex x' (by simp [hx'])
      refine ⟨y', ?_, hx'y'⟩
      have : y' ≠ y := by rintro rfl; exact hpw'.1 x' hx' _ hxy hx'y'
      exact (List.mem_erase_of_ne this).mpr hy') hpw'.2
    have hlen := List.length_erase_of_mem hy
    have hpos : 0 < r.length := List.length_pos_of_mem hy
    simp only [List.length_cons]
    omega

theorem Connects.symm_undirected {g : MGraph} (hd : g.directed = false) {e : Edge} {a b : Nat}
    (h : Connects g e a b) : Connects g e b a := by
  rcases h with ⟨h1, h2⟩ | ⟨_, h1, h2⟩
  · exact Or.inr ⟨hd, h1, h2⟩
  · exact Or.inl ⟨h1, h2⟩

theorem adj_iff_connects (g : MGraph) (a b : Nat) : g.Adj a b ↔ ∃ e ∈ g.edges, Connects g e a b := Iff.rfl

/-- `edge_count` comparison of the subgraph wrappers is a necessary condition (simple pattern) -/
theorem SubIso.edge_count_le {P : Problem} (wf0 : P.g0.WellFormed) (s0 : Simple P.g0)
    (hd : P.g0.directed = P.g1.directed) (h : SubIso P) :
    P.g0.edges.length ≤ P.g1.edges.length := by
  obtain ⟨f, e⟩ := h
  apply length_le_of_rel (fun e0 e1 => Connects P.g1 e1 (f e0.src) (f e0.tgt))
  · intro e0 he0
    have ha : P.g0.Adj e0.src e0.tgt := ⟨e0, he0, Or.inl ⟨rfl, rfl⟩⟩
    exact (e.adj _ (wf0.2 e0 he0).1 _ (wf0.2 e0 he0).2).mp ha
  · refine List.Pairwise.imp_of_mem ?_ s0
    intro e0 e0' he0 he0' hns y hy hy'
    apply hns
    have m0 := wf0.2 e0 he0
    have m0' := wf0.2 e0' he0'
    rcases hy with ⟨a1, a2⟩ | ⟨d1, a1, a2⟩ <;> rcases hy' with ⟨b1, b2⟩ | ⟨d2, b1, b2⟩
    · exact Or.inl ⟨e.inj _ m0'.1 _ m0.1 (b1.symm.trans a1), e.inj _ m0'.2 _ m0.2 (b2.symm.trans a2)⟩
    · exact Or.inr ⟨by rw [hd]; exact d2, e.inj _ m0'.1 _ m0.2 (b2.symm.trans a2), e.inj _ m0'.2 _ m0.1 (b1.symm.trans a1)⟩
    · exact Or.inr ⟨by rw [hd]; exact d1, e.inj _ m0'.1 _ m0.2 (b1.symm.trans a1), e.inj _ m0'.2 _ m0.1 (b2.symm.trans a2)⟩
    · exact Or.inl ⟨e.inj _ m0'.1 _ m0.1 (b2.symm.trans a2), e.inj _ m0'.2 _ m0.2 (b1.symm.trans a1)⟩

/-- `edge_count` equality of the isomorphism wrappers is a necessary condition (simple graphs) -/
theorem Iso.edge_count_eq {P : Problem} (wf0 : P.g0.WellFormed) (wf1 : P.g1.WellFormed)
    (s0 : Simple P.g0) (s1 : Simple P.g1) (hd : P.g0.directed = P.g1.directed) (h : Iso P) :
    P.g0.edges.length = P.g1.edges.length := by
  obtain ⟨f, e, onto⟩ := h
  apply Nat.le_antisymm (SubIso.edge_count_le wf0 s0 hd ⟨f, e⟩)
  apply length_le_of_rel (fun e1 e0 => Connects P.g1 e1 (f e0.src) (f e0.tgt))
  · intro e1 he1
    obtain ⟨a, ha, hfa⟩ := onto _ (wf1.2 e1 he1).1
    obtain ⟨b, hb, hfb⟩ := onto _ (wf1.2 e1 he1).2
    have h1 : P.g1.Adj (f a) (f b) := ⟨e1, he1, Or.inl ⟨hfa.symm, hfb.symm⟩⟩
    obtain ⟨e0, he0, hc⟩ := (e.adj a ha b hb).mpr h1
    refine ⟨e0, he0, ?_⟩
    rcases hc with ⟨c1, c2⟩ | ⟨d, c1, c2⟩
    · exact Or.inl ⟨by rw [c1, hfa], by rw [c2, hfb]⟩
    · exact Or.inr ⟨by rw [← hd]; exact d, by rw [c2, hfa], by rw [c1, hfb]⟩
  · refine List.Pairwise.imp ?_ s1
    intro e1 e1' hns y hy hy'
    apply hns
    rcases hy with ⟨a1, a2⟩ | ⟨d1, a1, a2⟩
    · rw [a1, a2]; exact hy'
    · rw [a1, a2]; exact Connects.symm_undirected d1 hy'

/-! ### judges -/

theorem sameMultisetB_perm {l r : List (List Nat)} (hr : r.Nodup) (h : sameMultisetB l r = true) :
    l.Perm r := by
  simp only [sameMultisetB, Bool.and_eq_true, beq_iff_eq, List.all_eq_true, List.contains_iff_mem] at h
  obtain ⟨⟨hlen, hrl⟩, _⟩ := h
  have sp : r.Subperm l := List.subperm_of_subset hr (fun x hx => hrl x hx)
  exact (sp.perm_of_length_le (by omega)).symm

/-- what the property says about the vectors yielded by `subgraph_isomorphisms_iter` (`none` = `None`) -/
def IterSpec (P : Problem) : Option (List (List Nat)) → Prop
  | none => ¬ SubIso P
  | some L =>
    L.Nodup ∧
    (∀ l ∈ L, l.length = P.g0.nodes.length ∧ Embeds P (mapOf P.g0.nodes l)) ∧
    (∀ f, Embeds P f → P.g0.nodes.map f ∈ L)

theorem judgeIter_sound (P : Problem) (wf0 : P.g0.WellFormed) (h1 : P.g1.nodes.Nodup)
    (ans : Option (List (List Nat))) (h : judgeIter P ans = true) : IterSpec P ans := by
  cases ans with
  | none =>
    simp only [judgeIter] at h
    intro hs
    have := (subIsoB_iff P wf0 h1).mpr hs
    simp [subIsoB, h] at this
  | some L =>
    simp only [judgeIter] at h
    have pm := sameMultisetB_perm (nodup_subIsoAll P h1) h
    refine ⟨pm.symm.nodup_iff.mp (nodup_subIsoAll P h1), ?_, ?_⟩
    · intro l hl
      exact (mem_subIsoAll P wf0.1 h1 l).mp (pm.subset hl)
    · intro f e
      exact pm.symm.subset (subIsoAll_complete P wf0 h1 e)

/-! ### relabeling -/

theorem mem_relabel_nodes {σ : Nat → Nat} {g : MGraph} {x : Nat} :
    x ∈ (relabel σ g).nodes ↔ ∃ a ∈ g.nodes, σ a = x := by
  simp [relabel]

theorem connects_relabel {σ : Nat → Nat} {g : MGraph} (inj : ∀ a ∈ g.nodes, ∀ b ∈ g.nodes, σ a = σ b → a = b)
    {e : Edge} (hs : e.src ∈ g.nodes) (ht : e.tgt ∈ g.nodes) {a b : Nat} (ha : a ∈ g.nodes) (hb : b ∈ g.nodes) :
    Connects (relabel σ g) { e with src := σ e.src, tgt := σ e.tgt } (σ a) (σ b) ↔ Connects g e a b := by
  simp only [Connects, relabel]
  constructor
  · rintro (⟨h1, h2⟩ | ⟨d, h1, h2⟩)
    · exact Or.inl ⟨inj _ hs _ ha h1, inj _ ht _ hb h2⟩
    · exact Or.inr ⟨d, inj _ hs _ hb h1, inj _ ht _ ha h2⟩
  · rintro (⟨h1, h2⟩ | ⟨d, h1, h2⟩)
    · exact Or.inl ⟨by rw [h1], by rw [h2]⟩
    · exact Or.inr ⟨d, by rw [h1], by rw [h2]⟩

theorem adj_relabel {σ : Nat → Nat} {g : MGraph} (wf : g.WellFormed)
    (inj : ∀ a ∈ g.nodes, ∀ b ∈ g.nodes, σ a = σ b → a = b) {a b : Nat} (ha : a ∈ g.nodes) (hb : b ∈ g.nodes) :
    (relabel σ g).Adj (σ a) (σ b) ↔ g.Adj a b := by
  constructor
  · rintro ⟨e', he', hc⟩
    simp only [relabel, List.mem_map] at he'
    obtain ⟨e, he, rfl⟩ := he'
    exact ⟨e, he, (connects_relabel inj (wf.2 e he).1 (wf.2 e he).2 ha hb).mp hc⟩
  · rintro ⟨e, he, hc⟩
    refine ⟨{ e with src := σ e.src, tgt := σ e.tgt }, ?_, (connects_relabel inj (wf.2 e he).1 (wf.2 e he).2 ha hb).mpr hc⟩
    simp only [relabel, List.mem_map]
    exact ⟨e, he, rfl⟩

theorem inj_of_leftInv {σ τ : Nat → Nat} {nodes : List Nat} (h : ∀ a ∈ nodes, τ (σ a) = a) :
    ∀ a ∈ nodes, ∀ b ∈ nodes, σ a = σ b → a = b := by
  intro a ha b hb hab
  rw [← h a ha, ← h b hb, hab]

/-- an embedding of `P` gives the corresponding embedding of the relabeled problem -/
theorem Embeds.relabel {P : Problem} {σ0 τ0 σ1 τ1 : Nat → Nat}
    (wf0 : P.g0.WellFormed) (wf1 : P.g1.WellFormed)
    (h0 : ∀ a ∈ P.g0.nodes, τ0 (σ0 a) = a) (h1 : ∀ b ∈ P.g1.nodes, τ1 (σ1 b) = b)
    {f : Nat → Nat} (e : Embeds P f) :
    Embeds (P.relabel σ0 τ0 σ1 τ1) (fun a' => σ1 (f (τ0 a'))) := by
  have i0 := inj_of_leftInv h0
  have i1 := inj_of_leftInv h1
  refine ⟨?_, ?_, ?_, ?_, ?_⟩
  · intro a' ha'
    obtain ⟨a, ha, rfl⟩ := mem_relabel_nodes.mp ha'
    exact mem_relabel_nodes.mpr ⟨f a, e.mapsTo a ha, by simp [h0 a ha]⟩
  · intro a' ha' b' hb' hab
    obtain ⟨a, ha, rfl⟩ := mem_relabel_nodes.mp ha'
    obtain ⟨b, hb, rfl⟩ := mem_relabel_nodes.mp hb'
    simp only [h0 a ha, h0 b hb] at hab
    rw [e.inj a ha b hb (i1 _ (e.mapsTo a ha) _ (e.mapsTo b hb) hab)]
  · intro a' ha' b' hb'
    obtain ⟨a, ha, rfl⟩ := mem_relabel_nodes.mp ha'
    obtain ⟨b, hb, rfl⟩ := mem_relabel_nodes.mp hb'
    simp only [h0 a ha, h0 b hb]
    show (C13.relabel σ0 P.g0).Adj (σ0 a) (σ0 b) ↔ (C13.relabel σ1 P.g1).Adj (σ1 (f a)) (σ1 (f b))
    rw [adj_relabel wf0 i0 ha hb, adj_relabel wf1 i1 (e.mapsTo a ha) (e.mapsTo b hb)]
    exact e.adj a ha b hb
  · intro a' ha'
    obtain ⟨a, ha, rfl⟩ := mem_relabel_nodes.mp ha'
    show P.nm (P.nw0 (τ0 (σ0 a))) (P.nw1 (τ1 (σ1 (f (τ0 (σ0 a)))))) = true
    rw [h0 a ha, h1 _ (e.mapsTo a ha)]
    exact e.nodeOk a ha
  · intro e0' he0' e1' he1' hc
    simp only [Problem.relabel, C13.relabel, List.mem_map] at he0' he1'
    obtain ⟨e0, he0, rfl⟩ := he0'
    obtain ⟨e1, he1, rfl⟩ := he1'
    have m0 := wf0.2 e0 he0
    have m1 := wf1.2 e1 he1
    simp only [h0 _ m0.1, h0 _ m0.2] at hc
    have := (connects_relabel i1 m1.1 m1.2 (e.mapsTo _ m0.1) (e.mapsTo _ m0.2)).mp hc
    exact e.edgeOk e0 he0 e1 he1 this

/-- … and conversely -/
theorem Embeds.unrelabel {P : Problem} {σ0 τ0 σ1 τ1 : Nat → Nat}
    (wf0 : P.g0.WellFormed) (wf1 : P.g1.WellFormed)
    (h0 : ∀ a ∈ P.g0.nodes, τ0 (σ0 a) = a) (h1 : ∀ b ∈ P.g1.nodes, τ1 (σ1 b) = b)
    {f' : Nat → Nat} (e : Embeds (P.relabel σ0 τ0 σ1 τ1) f') :
    Embeds P (fun a => τ1 (f' (σ0 a))) := by
  have i0 := inj_of_leftInv h0
  have i1 := inj_of_leftInv h1
  have mem0 : ∀ a ∈ P.g0.nodes, σ0 a ∈ (P.relabel σ0 τ0 σ1 τ1).g0.nodes :=
    fun a ha => mem_relabel_nodes.mpr ⟨a, ha, rfl⟩
  -- the key fact: f' (σ0 a) = σ1 (f a), with f a a node of g1
  have key : ∀ a ∈ P.g0.nodes, τ1 (f' (σ0 a)) ∈ P.g1.nodes ∧ σ1 (τ1 (f' (σ0 a))) = f' (σ0 a) := by
    intro a ha
    obtain ⟨b, hb, hfb⟩ := mem_relabel_nodes.mp (e.mapsTo _ (mem0 a ha))
    rw [← hfb, h1 b hb]; exact ⟨hb, rfl⟩
  refine ⟨fun a ha => (key a ha).1, ?_, ?_, ?_, ?_⟩
  · intro a ha b hb hab
    have : f' (σ0 a) = f' (σ0 b) := by rw [← (key a ha).2, ← (key b hb).2, hab]
    exact i0 a ha b hb (e.inj _ (mem0 a ha) _ (mem0 b hb) this)
  · intro a ha b hb
    have := e.adj _ (mem0 a ha) _ (mem0 b hb)
    rw [← (key a ha).2, ← (key b hb).2] at this
    have l := adj_relabel wf0 i0 ha hb
    have r := adj_relabel wf1 i1 (key a ha).1 (key b hb).1
    exact l.symm.trans (this.trans r)
  · intro a ha
    have := e.nodeOk _ (mem0 a ha)
    simp only [Problem.relabel] at this
    rw [h0 a ha] at this
    exact this
  · intro e0 he0 e1 he1 hc
    have m0 := wf0.2 e0 he0
    have m1 := wf1.2 e1 he1
    have hc' := (connects_relabel (σ := σ1) i1 m1.1 m1.2 (key _ m0.1).1 (key _ m0.2).1).mpr hc
    rw [(key _ m0.1).2, (key _ m0.2).2] at hc'
    exact e.edgeOk { e0 with src := σ0 e0.src, tgt := σ0 e0.tgt }
      (by simp only [Problem.relabel, C13.relabel, List.mem_map]; exact ⟨e0, he0, rfl⟩)
      { e1 with src := σ1 e1.src, tgt := σ1 e1.tgt }
      (by simp only [Problem.relabel, C13.relabel, List.mem_map]; exact ⟨e1, he1, rfl⟩) hc'

theorem subIso_relabel {P : Problem} {σ0 τ0 σ1 τ1 : Nat → Nat}
    (wf0 : P.g0.WellFormed) (wf1 : P.g1.WellFormed)
    (h0 : ∀ a ∈ P.g0.nodes, τ0 (σ0 a) = a) (h1 : ∀ b ∈ P.g1.nodes, τ1 (σ1 b) = b) :
    SubIso (P.relabel σ0 τ0 σ1 τ1) ↔ SubIso P :=
  ⟨fun ⟨_, e⟩ => ⟨_, e.unrelabel wf0 wf1 h0 h1⟩, fun ⟨_, e⟩ => ⟨_, e.relabel wf0 wf1 h0 h1⟩⟩

theorem iso_relabel {P : Problem} {σ0 τ0 σ1 τ1 : Nat → Nat}
    (wf0 : P.g0.WellFormed) (wf1 : P.g1.WellFormed)
    (h0 : ∀ a ∈ P.g0.nodes, τ0 (σ0 a) = a) (h1 : ∀ b ∈ P.g1.nodes, τ1 (σ1 b) = b) :
    Iso (P.relabel σ0 τ0 σ1 τ1) ↔ Iso P := by
  constructor
  · rintro ⟨f', e, onto⟩
    refine ⟨_, e.unrelabel wf0 wf1 h0 h1, ?_⟩
    intro b hb
    obtain ⟨a', ha', hfa'⟩ := onto (σ1 b) (mem_relabel_nodes.mpr ⟨b, hb, rfl⟩)
    obtain ⟨a, ha, rfl⟩ := mem_relabel_nodes.mp ha'
    exact ⟨a, ha, by simp only [hfa', h1 b hb]⟩
  · rintro ⟨f, e, onto⟩
    refine ⟨_, e.relabel wf0 wf1 h0 h1, ?_⟩
    intro b' hb'
    obtain ⟨b, hb, rfl⟩ := mem_relabel_nodes.mp hb'
    obtain ⟨a, ha, rfl⟩ := onto b hb
    exact ⟨σ0 a, mem_relabel_nodes.mpr ⟨a, ha, rfl⟩, by simp only [h0 a ha]⟩

end PetgraphModel.C13
