import PetgraphModel.Model.Matrix
import PetgraphModel.Spec.MatrixSimpleGraph
import Mathlib.Tactic.Ring
import Mathlib.Tactic.Linarith
/-
Helper definitions and lemmas for the C04 theorems (`Theorems/C04.lean`): arithmetic of the position
formulas, the growth rule, the in-place relocation of `extend_flat_square_matrix`.
-/
namespace PetgraphModel.MatrixProofs
open PetgraphModel.Matrix

/-! ### arithmetic of the position formulas -/

def tri (n : Nat) : Nat := n * (n + 1) / 2

theorem tri_succ (n : Nat) : tri (n + 1) = tri n + n + 1 := by
  unfold tri
  have h : (n + 1) * (n + 1 + 1) = n * (n + 1) + (n + 1) * 2 := by ring
  rw [h, Nat.add_mul_div_right _ _ (by decide : 0 < 2)]
  omega

theorem tri_mono {a b : Nat} (h : a ≤ b) : tri a ≤ tri b := by
  induction h with
  | refl => exact Nat.le_refl _
  | step _ ih => rw [tri_succ]; omega

theorem tri_lt_of_lt {a b : Nat} (h : a < b) : tri a + a + 1 ≤ tri b := by
  have := tri_mono (Nat.succ_le_of_lt h)
  rw [tri_succ] at this; exact this

theorem triPos_eq (r c : Nat) : triPos r c = if r > c then tri r + c else tri c + r := by
  unfold triPos tri
  split <;> rfl

theorem triPos_comm (r c : Nat) : triPos r c = triPos c r := by
  rw [triPos_eq, triPos_eq]
  by_cases h1 : r > c
  · have h2 : ¬ c > r := by omega
    simp [h1, h2]
  · by_cases h2 : c > r
    · simp [h1, h2]
    · have : r = c := by omega
      subst this; rfl

theorem triPos_lt {r c n : Nat} (hr : r < n) (hc : c < n) : triPos r c < tri n := by
  rw [triPos_eq]
  split
  · have := tri_lt_of_lt hr; omega
  · have := tri_lt_of_lt hc; omega

theorem triPos_diag (n : Nat) : triPos n n + 1 = tri (n + 1) := by
  rw [triPos_eq, tri_succ]; simp

/-- on `c ≤ r`, `c' ≤ r'` the triangular position determines the pair -/
theorem triPos_inj_le {r c r' c' : Nat} (h : c ≤ r) (h' : c' ≤ r')
    (e : triPos r c = triPos r' c') : r = r' ∧ c = c' := by
  have e1 : triPos r c = tri r + c := by
    rw [triPos_eq]; split
    · rfl
    · have : r = c := by omega
      subst this; rfl
  have e2 : triPos r' c' = tri r' + c' := by
    rw [triPos_eq]; split
    · rfl
    · have : r' = c' := by omega
      subst this; rfl
  rw [e1, e2] at e
  rcases Nat.lt_trichotomy r r' with hlt | heq | hgt
  · have := tri_lt_of_lt hlt; omega
  · subst heq; omega
  · have := tri_lt_of_lt hgt; omega

theorem triPos_inj {r c r' c' : Nat} (e : triPos r c = triPos r' c') :
    (r = r' ∧ c = c') ∨ (r = c' ∧ c = r') := by
  by_cases h : c ≤ r <;> by_cases h' : c' ≤ r'
  · exact Or.inl (triPos_inj_le h h' e)
  · rw [triPos_comm r' c'] at e
    have := triPos_inj_le h (by omega : r' ≤ c') e
    omega
  · rw [triPos_comm r c] at e
    have := triPos_inj_le (by omega : r ≤ c) h' e
    omega
  · rw [triPos_comm r c, triPos_comm r' c'] at e
    have := triPos_inj_le (by omega : r ≤ c) (by omega : r' ≤ c') e
    omega

theorem flatPos_lt {r c w : Nat} (hr : r < w) (hc : c < w) : flatPos r c w < w * w := by
  unfold flatPos
  have : (r + 1) * w ≤ w * w := Nat.mul_le_mul_right w hr
  rw [Nat.succ_mul] at this; omega

theorem flatPos_inj {r c r' c' w : Nat} (hc : c < w) (hc' : c' < w)
    (e : flatPos r c w = flatPos r' c' w) : r = r' ∧ c = c' := by
  unfold flatPos at e
  have hw : 0 < w := by omega
  have h1 : (r * w + c) / w = r := by
    rw [Nat.mul_comm, Nat.mul_add_div hw, Nat.div_eq_of_lt hc]; rfl
  have h2 : (r' * w + c') / w = r' := by
    rw [Nat.mul_comm, Nat.mul_add_div hw, Nat.div_eq_of_lt hc']; rfl
  have hr : r = r' := by rw [← h1, ← h2, e]
  subst hr
  exact ⟨rfl, by omega⟩

/-! ### growth rule -/

theorem le_nextPow2Aux (n : Nat) : ∀ (f p : Nat), n ≤ p * 2 ^ f → n ≤ nextPow2Aux n f p := by
  intro f
  induction f with
  | zero => intro p h; simpa [nextPow2Aux] using h
  | succ f ih =>
    intro p h
    unfold nextPow2Aux
    split
    · assumption
    · apply ih
      rw [Nat.pow_succ] at h
      calc n ≤ p * (2 ^ f * 2) := h
        _ = 2 * p * 2 ^ f := by ring

theorem le_nextPow2 (n : Nat) : n ≤ nextPow2 n := by
  unfold nextPow2
  apply le_nextPow2Aux
  have := Nat.lt_two_pow_self (n := n)
  omega

theorem isPow2_nextPow2Aux (n : Nat) : ∀ (f p : Nat), (∃ k, p = 2 ^ k) → ∃ k, nextPow2Aux n f p = 2 ^ k := by
  intro f
  induction f with
  | zero => intro p h; simpa [nextPow2Aux] using h
  | succ f ih =>
    intro p ⟨k, hk⟩
    unfold nextPow2Aux
    split
    · exact ⟨k, hk⟩
    · exact ih _ ⟨k + 1, by rw [hk, Nat.pow_succ]; ring⟩

theorem isPow2_nextPow2 (n : Nat) : ∃ k, nextPow2 n = 2 ^ k :=
  isPow2_nextPow2Aux n n 1 ⟨0, rfl⟩

theorem le_growCap (n : Nat) : n ≤ growCap n ∧ minCapacity ≤ growCap n := by
  unfold growCap
  have := le_nextPow2 n
  omega


/-! ### the relocation loop of `extend_flat_square_matrix` -/

variable {α : Type}

theorem swapAt_spec (a : Array α) (i j : Nat) (hi : i < a.size) (hj : j < a.size) :
    ∃ a', swapAt a i j = .ok a' ∧ a'.size = a.size ∧
      ∀ p, a'[p]? = if p = j then a[i]? else if p = i then a[j]? else a[p]? := by
  unfold swapAt
  rw [Array.getElem?_eq_getElem hi, Array.getElem?_eq_getElem hj]
  refine ⟨_, rfl, by simp, ?_⟩
  intro p
  simp only [Array.getElem?_setIfInBounds, Array.size_setIfInBounds]
  by_cases h1 : p = j
  · subst h1; simp [hj]
  · by_cases h2 : p = i
    · subst h2
      have : ¬ j = p := fun h => h1 h.symm
      simp [this, hi, h1]
    · have h1' : ¬ j = p := fun h => h1 h.symm
      have h2' : ¬ i = p := fun h => h2 h.symm
      simp [h1, h2, h1', h2']

theorem swapDesc_spec (d : α) (pos npos : Nat) (hlt : pos < npos) :
    ∀ (t : Nat) (a : Array α), npos + t ≤ a.size →
      (∀ p, npos ≤ p → p < npos + t → pos + t ≤ p → a[p]? = some d) →
      ∃ g, swapDesc pos npos t a = .ok g ∧ g.size = a.size ∧
        (∀ j, j < t → g[npos + j]? = a[pos + j]?) ∧
        (∀ p, (∀ j, j < t → p ≠ npos + j) → (∀ j, j < t → p ≠ pos + j) → g[p]? = a[p]?) ∧
        (∀ j, j < t → (∀ j', j' < t → pos + j ≠ npos + j') → g[pos + j]? = some d) := by
  intro t
  induction t with
  | zero => intro a _ _; exact ⟨a, rfl, rfl, by simp, by simp, by simp⟩
  | succ t ih =>
    intro a hsz hdef
    obtain ⟨a1, e1, s1, g1⟩ := swapAt_spec a (pos + t) (npos + t) (by omega) (by omega)
    have hdef1 : ∀ p, npos ≤ p → p < npos + t → pos + t ≤ p → a1[p]? = some d := by
      intro p h1 h2 h3
      rw [g1 p]
      have hp2 : p ≠ npos + t := by omega
      by_cases hp : p = pos + t
      · subst hp
        have hne : pos + t ≠ npos + t := by omega
        rw [if_neg hne, if_pos rfl]
        apply hdef <;> omega
      · rw [if_neg hp2, if_neg hp]
        apply hdef <;> omega
    obtain ⟨g, eg, sg, ih1, ih2, ih3⟩ := ih a1 (by omega) hdef1
    refine ⟨g, ?_, by omega, ?_, ?_, ?_⟩
    · simp only [swapDesc, e1]; exact eg
    · intro j hj
      by_cases hjt : j = t
      · subst hjt
        rw [ih2 (npos + j) (by intro j' hj'; omega) (by intro j' hj'; omega), g1]
        simp
      · have hj' : j < t := by omega
        rw [ih1 j hj', g1]
        have : pos + j ≠ npos + t := by omega
        have : pos + j ≠ pos + t := by omega
        simp [*]
    · intro p hp1 hp2
      rw [ih2 p (fun j hj => hp1 j (by omega)) (fun j hj => hp2 j (by omega)), g1]
      have := hp1 t (by omega)
      have := hp2 t (by omega)
      simp [*]
    · intro j hj hne
      by_cases hjt : j = t
      · subst hjt
        rw [ih2 (pos + j) (fun j' hj' => hne j' (by omega)) (by intro j' hj'; omega), g1]
        have h0 := hne j (by omega)
        simp only [h0, if_false, if_true]
        apply hdef <;> omega
      · exact ih3 j (by omega) (fun j' hj'' => hne j' (by omega))

theorem swapAsc_spec (pos npos : Nat) :
    ∀ (k i : Nat) (a : Array α), pos + i + k ≤ npos → npos + i + k ≤ a.size →
      ∃ g, swapAsc pos npos k i a = .ok g ∧ g.size = a.size ∧
        ∀ p, g[p]? = if npos + i ≤ p ∧ p < npos + i + k then a[p - npos + pos]?
                     else if pos + i ≤ p ∧ p < pos + i + k then a[p - pos + npos]? else a[p]? := by
  intro k
  induction k with
  | zero =>
    intro i a _ _
    refine ⟨a, rfl, rfl, ?_⟩
    intro p
    have c1 : ¬ (npos + i ≤ p ∧ p < npos + i + 0) := by omega
    have c2 : ¬ (pos + i ≤ p ∧ p < pos + i + 0) := by omega
    rw [if_neg c1, if_neg c2]
  | succ k ih =>
    intro i a h1 h2
    obtain ⟨a1, e1, s1, g1⟩ := swapAt_spec a (pos + i) (npos + i) (by omega) (by omega)
    obtain ⟨g, eg, sg, hg⟩ := ih (i + 1) a1 (by omega) (by omega)
    refine ⟨g, ?_, by omega, ?_⟩
    · simp only [swapAsc, e1]; exact eg
    · intro p
      rw [hg p]
      by_cases c1 : npos + (i + 1) ≤ p ∧ p < npos + (i + 1) + k
      · have c1' : npos + i ≤ p ∧ p < npos + i + (k + 1) := by omega
        rw [if_pos c1, if_pos c1', g1]
        have : p - npos + pos ≠ npos + i := by omega
        have : p - npos + pos ≠ pos + i := by omega
        simp [*]
      · rw [if_neg c1]
        by_cases c2 : pos + (i + 1) ≤ p ∧ p < pos + (i + 1) + k
        · have c1' : ¬ (npos + i ≤ p ∧ p < npos + i + (k + 1)) := by omega
          have c2' : pos + i ≤ p ∧ p < pos + i + (k + 1) := by omega
          rw [if_pos c2, if_neg c1', if_pos c2', g1]
          have : p - pos + npos ≠ npos + i := by omega
          have : p - pos + npos ≠ pos + i := by omega
          simp [*]
        · rw [if_neg c2, g1]
          by_cases c3 : p = npos + i
          · have c1' : npos + i ≤ p ∧ p < npos + i + (k + 1) := by omega
            rw [if_pos c3, if_pos c1']
            congr 1; omega
          · rw [if_neg c3]
            by_cases c4 : p = pos + i
            · have c1' : ¬ (npos + i ≤ p ∧ p < npos + i + (k + 1)) := by omega
              have c2' : pos + i ≤ p ∧ p < pos + i + (k + 1) := by omega
              rw [if_pos c4, if_neg c1', if_pos c2']
              congr 1; omega
            · have c1' : ¬ (npos + i ≤ p ∧ p < npos + i + (k + 1)) := by omega
              have c2' : ¬ (pos + i ≤ p ∧ p < pos + i + (k + 1)) := by omega
              rw [if_neg c4, if_neg c1', if_neg c2']


theorem row_arith {old new c : Nat} (hon : old < new) (hc : c < old) :
    c * old + old ≤ old * old ∧ c * new + old < new * new ∧ c * old + c ≤ c * new ∧ old * old < new * new
    ∧ c * old ≤ c * new := by
  have h1 : (c + 1) * old ≤ old * old := Nat.mul_le_mul_right old hc
  have h2 : (c + 1) * new ≤ old * new := Nat.mul_le_mul_right new hc
  have h3 : old * new ≤ new * new := Nat.mul_le_mul_right new (Nat.le_of_lt hon)
  have h4 : c * (old + 1) ≤ c * new := Nat.mul_le_mul_left c hon
  have h5 : old * old ≤ old * new := Nat.mul_le_mul_left old (Nat.le_of_lt hon)
  have h6 : (old + 1) * new ≤ new * new := Nat.mul_le_mul_right new hon
  rw [Nat.succ_mul] at h1 h2 h6
  rw [Nat.mul_add, Nat.mul_one] at h4
  refine ⟨h1, by omega, h4, by omega, by omega⟩

/-- one row of the relocation, whichever branch is taken -/
theorem moveRow_spec (d : α) (old new c : Nat) (hon : old < new) (hc1 : 1 ≤ c) (hc : c < old)
    (a : Array α) (hsz : a.size = new * new)
    (hdef : ∀ p, c * new ≤ p → p < c * new + old → c * old + old ≤ p → a[p]? = some d) :
    ∃ g, moveRow old new c a = .ok g ∧ g.size = a.size ∧
      (∀ j, j < old → g[c * new + j]? = a[c * old + j]?) ∧
      (∀ p, (∀ j, j < old → p ≠ c * new + j) → (∀ j, j < old → p ≠ c * old + j) → g[p]? = a[p]?) ∧
      (∀ j, j < old → (∀ j', j' < old → c * old + j ≠ c * new + j') → g[c * old + j]? = some d) := by
  obtain ⟨n1, n2, n3, n4, n5⟩ := row_arith hon hc
  unfold moveRow
  simp only
  by_cases hb : c * old + old ≤ c * new
  · -- block swap
    rw [if_pos hb, if_pos (by omega : c * old + old < a.size ∧ c * new + old < a.size)]
    unfold swapBlock
    rw [if_pos (by omega : c * old + old ≤ c * new ∧ c * new + old ≤ a.size)]
    obtain ⟨g, eg, sg, hg⟩ := swapAsc_spec (c * old) (c * new) old 0 a (by omega) (by omega)
    refine ⟨g, eg, sg, ?_, ?_, ?_⟩
    · intro j hj
      rw [hg, if_pos (by omega)]
      congr 1; omega
    · intro p hp1 hp2
      rw [hg]
      have c1 : ¬ (c * new + 0 ≤ p ∧ p < c * new + 0 + old) := by
        intro ⟨h1, h2⟩
        exact hp1 (p - c * new) (by omega) (by omega)
      have c2 : ¬ (c * old + 0 ≤ p ∧ p < c * old + 0 + old) := by
        intro ⟨h1, h2⟩
        exact hp2 (p - c * old) (by omega) (by omega)
      rw [if_neg c1, if_neg c2]
    · intro j hj _
      rw [hg, if_neg (by omega), if_pos (by omega)]
      have : c * old + j - c * old + c * new = c * new + j := by omega
      rw [this]
      apply hdef <;> omega
  · rw [if_neg hb]
    exact swapDesc_spec d (c * old) (c * new) (by omega) old a (by omega) hdef

/-- state of the matrix when rows `k … old-1` have been moved to the new layout: `v` is the matrix
before the loop (already resized) -/
structure RelocInv (d : α) (old new k : Nat) (v f : Array α) : Prop where
  size : f.size = new * new
  low : ∀ p, p < k * old → f[p]? = v[p]?
  moved : ∀ r j, k ≤ r → r < old → j < old → f[r * new + j]? = v[r * old + j]?
  rest : ∀ p, k * old ≤ p → p < new * new →
    (∀ r j, k ≤ r → r < old → j < old → p ≠ r * new + j) → f[p]? = some d

theorem relocRows_spec (d : α) (old new : Nat) (hon : old < new) (v : Array α) :
    ∀ (k : Nat) (f : Array α), k ≤ old → (old = 0 ∨ 1 ≤ k) → RelocInv d old new k v f →
      ∃ g, relocRows old new k f = .ok g ∧ RelocInv d old new (min k 1) v g := by
  intro k
  induction k with
  | zero => intro f _ _ h; exact ⟨f, rfl, by simpa using h⟩
  | succ k ih =>
    intro f hk hk1 inv
    unfold relocRows
    by_cases hk0 : k = 0
    · subst hk0; rw [if_pos rfl]; exact ⟨f, rfl, by simpa using inv⟩
    · rw [if_neg hk0]
      have hc : k < old := by omega
      obtain ⟨n1, n2, n3, n4, n5⟩ := row_arith hon hc
      have hk1' : (k + 1) * old = k * old + old := Nat.succ_mul k old
      have hk1n : (k + 1) * new = k * new + new := Nat.succ_mul k new
      -- rows above `k` start beyond row `k`'s target block
      have above : ∀ r, k + 1 ≤ r → k * new + new ≤ r * new := by
        intro r hr
        have := Nat.mul_le_mul_right new hr
        omega
      have hdef : ∀ p, k * new ≤ p → p < k * new + old → k * old + old ≤ p → f[p]? = some d := by
        intro p h1 h2 h3
        apply inv.rest p (by omega) (by omega)
        intro r j hr _ hj
        have := above r hr
        omega
      obtain ⟨g, eg, sg, m1, m2, m3⟩ := moveRow_spec d old new k hon (by omega) hc f inv.size hdef
      have inv' : RelocInv d old new k v g := by
        refine ⟨by rw [sg, inv.size], ?_, ?_, ?_⟩
        · intro p hp
          rw [m2 p (by intro j hj; omega) (by intro j hj; omega)]
          exact inv.low p (by omega)
        · intro r j hr hro hj
          by_cases hrk : r = k
          · subst hrk
            rw [m1 j hj]
            exact inv.low _ (by omega)
          · have hr' : k + 1 ≤ r := by omega
            have := above r hr'
            have hro' : (r + 1) * old ≤ old * old := Nat.mul_le_mul_right old hro
            have hr2 : (k + 1) * old ≤ r * old := Nat.mul_le_mul_right old hr'
            have hr3 : r * old ≤ r * new := Nat.mul_le_mul_left r (Nat.le_of_lt hon)
            rw [m2 _ (by intro j' hj'; omega) (by intro j' hj'; omega)]
            exact inv.moved r j hr' hro hj
        · intro p hp1 hp2 hne
          by_cases hsrc : p < k * old + old
          · -- a source cell of row `k` that is not a target
            have := m3 (p - k * old) (by omega) (by
              intro j' hj' he
              exact hne k j' (Nat.le_refl _) hc hj' (by omega))
            rw [show k * old + (p - k * old) = p by omega] at this
            exact this
          · rw [m2 p (by intro j hj he; exact hne k j (Nat.le_refl _) hc hj he) (by intro j hj; omega)]
            apply inv.rest p (by omega) hp2
            intro r j hr hro hj
            exact hne r j (by omega) hro hj
      obtain ⟨g', eg', inv''⟩ := ih g (by omega) (by omega) inv'
      refine ⟨g', ?_, ?_⟩
      · rw [eg]; exact eg'
      · have : min (k + 1) 1 = min k 1 := by omega
        rw [this]; exact inv''


theorem size_resizeWith (a : Array α) (n : Nat) (d : α) : (resizeWith a n d).size = n := by
  unfold resizeWith
  split
  · simp; omega
  · simp; omega

theorem getElem?_resizeWith_grow (a : Array α) (n : Nat) (d : α) (h : a.size ≤ n) (p : Nat) :
    (resizeWith a n d)[p]? = if p < a.size then a[p]? else if p < n then some d else none := by
  unfold resizeWith
  rw [if_pos h, Array.getElem?_append]
  split
  · rfl
  · rw [Array.getElem?_replicate]
    split <;> split <;> first | rfl | omega

theorem getElem?_resizeWith_shrink (a : Array α) (n : Nat) (d : α) (h : n ≤ a.size) (p : Nat) :
    (resizeWith a n d)[p]? = if p < n then a[p]? else none := by
  unfold resizeWith
  by_cases h' : a.size ≤ n
  · have : a.size = n := by omega
    subst this
    rw [if_pos h']; simp
  · rw [if_neg h']
    simp only [Array.getElem?_extract]
    by_cases hp : p < n
    · simp [hp]
    · simp [hp]

theorem div_mod_of_form {r j w : Nat} (hj : j < w) : (r * w + j) / w = r ∧ (r * w + j) % w = j := by
  have hw : 0 < w := by omega
  constructor
  · rw [Nat.mul_comm, Nat.mul_add_div hw, Nat.div_eq_of_lt hj]; rfl
  · rw [Nat.mul_comm, Nat.mul_add_mod, Nat.mod_eq_of_lt hj]

/-- **Growing never loses, moves or invents a cell** (directed layout), for every pair of
capacities `old < new`: the relocation loop succeeds (no index out of range, no violated SAFETY
precondition, no failing `debug_assert!`), cell `(i, j)` of the old layout is cell `(i, j)` of the new
one, every other cell of the new matrix is the null element. -/
theorem relocate_spec (d : α) (a : Array α) (old new : Nat) (hon : old < new)
    (hsz : a.size = old * old) :
    ∃ g, relocRows old new old (resizeWith a (new * new) d) = .ok g ∧ g.size = new * new ∧
      (∀ i j, i < old → j < old → g[i * new + j]? = a[i * old + j]?) ∧
      (∀ p, p < new * new → (p / new ≥ old ∨ p % new ≥ old) → g[p]? = some d) := by
  have hoo : old * old ≤ new * new := Nat.mul_le_mul (Nat.le_of_lt hon) (Nat.le_of_lt hon)
  let v := resizeWith a (new * new) d
  have hv : ∀ p, v[p]? = if p < a.size then a[p]? else if p < new * new then some d else none :=
    getElem?_resizeWith_grow a (new * new) d (by omega)
  have inv0 : RelocInv d old new old v v := by
    refine ⟨size_resizeWith _ _ _, fun _ _ => rfl, ?_, ?_⟩
    · intro r j h1 h2; omega
    · intro p h1 h2 _
      rw [hv, if_neg (by omega), if_pos h2]
  obtain ⟨g, eg, inv⟩ := relocRows_spec d old new hon v old v (Nat.le_refl _) (by omega) inv0
  refine ⟨g, eg, inv.size, ?_, ?_⟩
  · intro i j hi hj
    have hlt : i * old + j < a.size := by
      have : (i + 1) * old ≤ old * old := Nat.mul_le_mul_right old hi
      rw [Nat.succ_mul] at this; omega
    have hmin : min old 1 = 1 := by omega
    rw [hmin] at inv
    by_cases hi0 : i = 0
    · subst hi0
      simp only [Nat.zero_mul, Nat.zero_add]
      rw [inv.low j (by omega), hv, if_pos (by simpa using hlt)]
    · rw [inv.moved i j (by omega) hi hj, hv, if_pos hlt]
  · intro p hp hout
    have hnew : 0 < new := by omega
    have hform : ∀ r j, min old 1 ≤ r → r < old → j < old → p ≠ r * new + j := by
      intro r j _ hr hj he
      have := div_mod_of_form (r := r) (j := j) (w := new) (by omega)
      rw [← he] at this
      omega
    apply inv.rest p ?_ hp hform
    by_cases ho : old = 0
    · subst ho; simp
    · have hmin : min old 1 = 1 := by omega
      rw [hmin, Nat.one_mul]
      rcases hout with h | h
      · have : new * (p / new) ≤ p := Nat.mul_div_le p new
        have : new * 1 ≤ new * (p / new) := Nat.mul_le_mul_left new (by omega)
        omega
      · have := Nat.mod_le p new
        omega

theorem extendFlat_spec (d : α) (a : Array α) (old want : Nat) (exact : Bool) (h : old < want)
    (hsz : a.size = old * old) :
    let new := if exact then want else growCap want
    ∃ g, extendFlat d a old want exact = .ok (g, new) ∧ old < new ∧ want ≤ new ∧ g.size = new * new ∧
      (∀ i j, i < old → j < old → g[i * new + j]? = a[i * old + j]?) ∧
      (∀ p, p < new * new → (p / new ≥ old ∨ p % new ≥ old) → g[p]? = some d) := by
  intro new
  have hwn : want ≤ new := by
    show want ≤ if exact then want else growCap want
    split
    · exact Nat.le_refl _
    · exact (le_growCap want).1
  obtain ⟨g, eg, r⟩ := relocate_spec d a old new (by omega) hsz
  refine ⟨g, ?_, by omega, hwn, r⟩
  unfold extendFlat
  show (match relocRows old new old (resizeWith a (new * new) d) with
    | .ok a' => Except.ok (a', new) | .error e => .error e) = _
  rw [eg]

end PetgraphModel.MatrixProofs
