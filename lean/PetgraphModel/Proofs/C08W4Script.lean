import PetgraphModel.Proofs.C08W4PostOrder
import PetgraphModel.Proofs.C08W3Driver
import PetgraphModel.Proofs.ReachTotal
/-
C08 (wave 4): soundness of the run-time judges of the `walk dfs` / `walk post` scripts
(`C08.judgeDfs`, `C08.judgePostScript`).

The driver decodes the answer along the script into *segments* (`C08.decodeScript`: one segment per
`move_to`, with the nodes emitted earlier since the last reset as `base`) and judges every segment with
`judgeSegDfs` / `judgeSegPost`.  Here: an accepted segment satisfies, as propositions over the abstract
graph, exactly what `C08_dfs_moveTo`, `C08_postorder_moveTo` and `C08_postorder_moveTo_order` prove of
the models — nothing emitted twice, only nodes reachable from the start through nodes not emitted
before, all of them once the walker returned `None`, and (DfsPostOrder, no segment abandoned) every node
after each successor that cannot reach it back.
-/
namespace PetgraphModel.TravProofs
open PetgraphModel PetgraphModel.Trav PetgraphModel.MGraph PetgraphModel.C08 PetgraphModel.Oracle

/-! ### `removeNodes` and avoiding reachability -/

theorem adj_removeNodes {g : MGraph} {D : List Nat} {a b : Nat} :
    (removeNodes g D).Adj a b ↔ g.Adj a b ∧ a ∉ D ∧ b ∉ D := by
  unfold MGraph.Adj removeNodes
  simp only [List.mem_filter, Bool.and_eq_true, Bool.not_eq_true', List.contains_eq_mem, decide_eq_false_iff_not]
  constructor
  · rintro ⟨e, ⟨he, h1, h2⟩, h⟩
    rcases h with ⟨rfl, rfl⟩ | ⟨hd, rfl, rfl⟩
    · exact ⟨⟨e, he, Or.inl ⟨rfl, rfl⟩⟩, h1, h2⟩
    · exact ⟨⟨e, he, Or.inr ⟨hd, rfl, rfl⟩⟩, h2, h1⟩
  · rintro ⟨⟨e, he, h⟩, ha, hb⟩
    rcases h with ⟨rfl, rfl⟩ | ⟨hd, rfl, rfl⟩
    · exact ⟨e, ⟨he, ha, hb⟩, Or.inl ⟨rfl, rfl⟩⟩
    · exact ⟨e, ⟨he, hb, ha⟩, Or.inr ⟨hd, rfl, rfl⟩⟩

theorem reach_removeNodes {g : MGraph} {D : List Nat} {s x : Nat} (hs : s ∉ D) :
    Reach (removeNodes g D) s x ↔ ReachAvoid g D s x := by
  constructor
  · intro h
    induction h with
    | refl => exact ReachAvoid.refl hs
    | step _ hadj ih =>
      obtain ⟨h1, _, h3⟩ := adj_removeNodes.mp hadj
      exact ReachAvoid.step ih h1 h3
  · intro h
    induction h with
    | refl _ => exact Reach.refl _
    | step hab hadj hc ih => exact Reach.step ih (adj_removeNodes.mpr ⟨hadj, hab.not_mem, hc⟩)

theorem reachAvoid_start_not_mem {g : MGraph} {D : List Nat} {s x : Nat} (h : ReachAvoid g D s x) : s ∉ D := by
  induction h with
  | refl h => exact h
  | step _ _ _ ih => exact ih

theorem ReachAvoid.reach {g : MGraph} {D : List Nat} {s x : Nat} (h : ReachAvoid g D s x) : Reach g s x := by
  induction h with
  | refl _ => exact Reach.refl _
  | step _ hadj _ ih => exact Reach.step ih hadj

/-- the set a segment may emit, as computed by the driver -/
theorem segAllowed_spec (g : MGraph) (sg : Seg) (s : Nat) :
    ∃ al, segAllowed g sg s = some al ∧ ∀ x, x ∈ al ↔ ReachAvoid g sg.base s x := by
  unfold segAllowed
  by_cases hs : s ∈ sg.base
  · refine ⟨[], by simp [hs], fun x => ⟨(fun h => by cases h), fun h => absurd hs (reachAvoid_start_not_mem h)⟩⟩
  · obtain ⟨al, hal⟩ := reachFrom_total (removeNodes g sg.base) s
    refine ⟨al, by simp [hs, hal], fun x => ?_⟩
    rw [(reachFrom_spec _ _ _ hal).2 x, reach_removeNodes hs]

/-! ### the segment judges -/

theorem firstDup_none {seen : List Nat} : ∀ {l : List Nat}, firstDup seen l = none →
    l.Nodup ∧ ∀ x, x ∈ l → x ∉ seen := by
  intro l
  induction l with
  | nil => intro _; exact ⟨List.nodup_nil, fun x hx => by cases hx⟩
  | cons a l ih =>
    intro h
    simp only [firstDup] at h
    split at h
    · cases h
    rename_i hc
    simp only [Bool.or_eq_true, List.contains_eq_mem, decide_eq_true_eq, not_or] at hc
    obtain ⟨h1, h2⟩ := ih h
    refine ⟨List.nodup_cons.mpr ⟨hc.2, h1⟩, ?_⟩
    intro x hx
    rcases List.mem_cons.mp hx with rfl | hx
    · exact hc.1
    · exact h2 x hx

/-- what the property demands of the nodes one segment emits -/
structure SegSetOk (g : MGraph) (sg : Seg) (s : Nat) : Prop where
  nodup : sg.out.Nodup
  fresh : ∀ x, x ∈ sg.out → x ∉ sg.base
  sound : ∀ x, x ∈ sg.out → ReachAvoid g sg.base s x
  complete : sg.exhausted = true → ∀ x, ReachAvoid g sg.base s x → x ∈ sg.out

theorem judgeSegSet_sound (g : MGraph) (sg : Seg) (h : judgeSegSet g sg = none) :
    (sg.start = none → sg.out = []) ∧ ∀ s, sg.start = some s → SegSetOk g sg s := by
  unfold judgeSegSet at h
  split at h
  · rename_i hst
    refine ⟨fun _ => ?_, fun s hs => by rw [hst] at hs; cases hs⟩
    split at h
    · rename_i he; simpa using he
    · cases h
  · rename_i s hst
    refine ⟨(fun hn => by rw [hst] at hn; cases hn), ?_⟩
    intro s' hs'
    rw [hst] at hs'
    simp only [Option.some.injEq] at hs'
    subst hs'
    split at h
    · cases h
    rename_i hdup
    obtain ⟨hnd, hfresh⟩ := firstDup_none hdup
    obtain ⟨al, hal, hmem⟩ := segAllowed_spec g sg s
    rw [hal] at h
    simp only at h
    split at h
    · cases h
    rename_i hfind
    have hall : ∀ x, x ∈ sg.out → x ∈ al := by
      intro x hx
      have := List.find?_eq_none.mp hfind x hx
      simpa using this
    refine ⟨hnd, hfresh, fun x hx => (hmem x).mp (hall x hx), ?_⟩
    intro hex x hx
    split at h
    · cases h
    rename_i hss
    simp only [hex, Bool.true_and, Bool.not_eq_true', Bool.not_eq_false] at hss
    exact ((sameSet_perm hss).mem_iff).mpr ((hmem x).mpr hx)

/-- the order clause of the property on one `DfsPostOrder` segment -/
def SegOrderOk (g : MGraph) (sg : Seg) : Prop :=
  ∀ x, x ∈ sg.out → ∀ y, g.Adj x y → ¬ Reach g y x →
    y ∈ sg.base ∨ (y ∈ sg.out ∧ sg.out.idxOf y < sg.out.idxOf x)

theorem postOrderBad_none (g : MGraph) (sg : Seg) (h : postOrderBad g sg = none) : SegOrderOk g sg := by
  intro x hx y hxy hback
  have h1 := List.find?_eq_none.mp h x hx
  simp only [List.any_eq_true, not_exists, not_and, Bool.and_eq_true, Bool.not_eq_true', beq_iff_eq] at h1
  have h2 := h1 y (MGraph.mem_succ.mpr hxy)
  obtain ⟨r, hr⟩ := reachB_total g y x
  have hrf : r = false := by
    cases r with
    | false => rfl
    | true => exact absurd ((reachB_spec g y x true hr).mp rfl) hback
  subst hrf
  have h3 := h2 hr
  have h4 : ¬ y ∈ sg.base → y ∈ sg.out ∧ List.idxOf y sg.out < List.idxOf x sg.out := by simpa using h3
  by_cases hb : y ∈ sg.base
  · exact Or.inl hb
  · exact Or.inr (h4 hb)

theorem judgeSegPost_sound (g : MGraph) (sg : Seg) (h : judgeSegPost g sg = none) :
    (sg.dirty = true → sg.out.Nodup ∧ ∀ x, x ∈ sg.out → x ∉ sg.base) ∧
    (sg.dirty = false → (sg.start = none → sg.out = []) ∧
      ∀ s, sg.start = some s → SegSetOk g sg s ∧ (sg.exhausted = true → SegOrderOk g sg)) := by
  unfold judgeSegPost at h
  split at h
  · rename_i hd
    refine ⟨fun _ => ?_, (fun hf => by rw [hd] at hf; cases hf)⟩
    exact firstDup_none (by simpa using h)
  · rename_i hd
    refine ⟨fun ht => absurd ht hd, fun _ => ?_⟩
    split at h
    · cases h
    rename_i hset
    obtain ⟨h1, h2⟩ := judgeSegSet_sound g sg hset
    refine ⟨h1, fun s hs => ⟨h2 s hs, fun hex => ?_⟩⟩
    rw [if_pos hex] at h
    exact postOrderBad_none g sg (by simpa using h)

/-! ### whole scripts -/

theorem judgeDfs_sound (g : MGraph) (cmds : List Cmd) (toks : List (Option Nat)) (h : judgeDfs g cmds toks = none) :
    ∃ segs, decodeScript cmds toks = .ok segs ∧ ∀ sg, sg ∈ segs →
      (sg.start = none → sg.out = []) ∧ ∀ s, sg.start = some s → SegSetOk g sg s := by
  unfold judgeDfs at h
  split at h
  · cases h
  · rename_i segs hdec
    refine ⟨segs, hdec, fun sg hsg => ?_⟩
    exact judgeSegSet_sound g sg (List.findSome?_eq_none_iff.mp h sg hsg)

theorem judgePostScript_sound (g : MGraph) (cmds : List Cmd) (toks : List (Option Nat))
    (h : judgePostScript g cmds toks = none) :
    ∃ segs, decodeScript cmds toks = .ok segs ∧ ∀ sg, sg ∈ segs →
      (sg.dirty = true → sg.out.Nodup ∧ ∀ x, x ∈ sg.out → x ∉ sg.base) ∧
      (sg.dirty = false → (sg.start = none → sg.out = []) ∧
        ∀ s, sg.start = some s → SegSetOk g sg s ∧ (sg.exhausted = true → SegOrderOk g sg)) := by
  unfold judgePostScript at h
  split at h
  · cases h
  · rename_i segs hdec
    refine ⟨segs, hdec, fun sg hsg => ?_⟩
    exact judgeSegPost_sound g sg (List.findSome?_eq_none_iff.mp h sg hsg)


/-! ### what the decoding into segments does (protocol level) -/

/-- how a segment follows its predecessor: after `reset` everything is forgotten; after `move_to` the
base is everything emitted since the last reset, and the segment is `dirty` when an earlier one was
left before the walker returned `None` -/
def SegNext (a b : Seg) : Prop :=
  (b.start = none ∧ b.base = [] ∧ b.dirty = false) ∨
  (b.start.isSome ∧ b.base = a.out.reverse ++ a.base ∧
    b.dirty = (a.dirty || (a.start.isSome && !a.exhausted)))

def SegChain : Seg → List Seg → Prop
  | _, [] => True
  | a, b :: t => SegNext a b ∧ SegChain b t

theorem decodeTake_spec : ∀ (k : Nat) (cur : Seg) (toks : List (Option Nat)) (cur' : Seg) (r : List (Option Nat)),
    decodeTake k cur toks = .ok (cur', r) →
      cur'.base = cur.base ∧ cur'.start = cur.start ∧ cur'.dirty = cur.dirty ∧
      cur'.out ++ r.filterMap id = cur.out ++ toks.filterMap id := by
  intro k
  induction k with
  | zero =>
    intro cur toks cur' r h
    simp only [decodeTake, Except.ok.injEq, Prod.mk.injEq] at h
    obtain ⟨rfl, rfl⟩ := h
    exact ⟨rfl, rfl, rfl, rfl⟩
  | succ k ih =>
    intro cur toks cur' r h
    cases toks with
    | nil => simp [decodeTake] at h
    | cons t toks =>
      cases t with
      | none =>
        simp only [decodeTake, Except.ok.injEq, Prod.mk.injEq] at h
        obtain ⟨rfl, rfl⟩ := h
        exact ⟨rfl, rfl, rfl, by simp⟩
      | some n =>
        simp only [decodeTake] at h
        split at h
        · cases h
        · obtain ⟨h1, h2, h3, h4⟩ := ih _ _ _ _ h
          exact ⟨h1, h2, h3, by rw [h4]; simp⟩

theorem decodeCmds_spec : ∀ (cs : List Cmd) (done : List Seg) (cur : Seg) (toks : List (Option Nat))
    (segs : List Seg), decodeCmds cs done cur toks = .ok segs →
      ∃ cur' tail, segs = done.reverse ++ cur' :: tail ∧
        cur'.base = cur.base ∧ cur'.start = cur.start ∧ cur'.dirty = cur.dirty ∧ SegChain cur' tail ∧
        cur'.out ++ (tail.map Seg.out).flatten = cur.out ++ toks.filterMap id := by
  intro cs
  induction cs with
  | nil =>
    intro done cur toks segs h
    simp only [decodeCmds] at h
    split at h
    · rename_i he
      simp only [Except.ok.injEq] at h
      subst h
      have : toks = [] := by simpa using he
      subst this
      exact ⟨cur, [], by simp, rfl, rfl, rfl, trivial, by simp⟩
    · cases h
  | cons c cs ih =>
    intro done cur toks segs h
    cases c with
    | reset =>
      simp only [decodeCmds] at h
      obtain ⟨c', tail, h1, h2, h3, h4, h5, h6⟩ := ih _ _ _ _ h
      refine ⟨cur, c' :: tail, by rw [h1]; simp, rfl, rfl, rfl, ⟨Or.inl ⟨h3, h2, h4⟩, h5⟩, ?_⟩
      simp only [List.map_cons, List.flatten_cons, h6]
      simp
    | new s =>
      simp only [decodeCmds] at h
      obtain ⟨c', tail, h1, h2, h3, h4, h5, h6⟩ := ih _ _ _ _ h
      refine ⟨cur, c' :: tail, by rw [h1]; simp, rfl, rfl, rfl, ⟨Or.inr ⟨by rw [h3]; rfl, h2, h4⟩, h5⟩, ?_⟩
      simp only [List.map_cons, List.flatten_cons, h6]
      simp
    | take k =>
      simp only [decodeCmds] at h
      split at h
      · cases h
      · rename_i cur1 r hdt
        obtain ⟨d1, d2, d3, d4⟩ := decodeTake_spec _ _ _ _ _ hdt
        obtain ⟨c', tail, h1, h2, h3, h4, h5, h6⟩ := ih _ _ _ _ h
        exact ⟨c', tail, h1, h2.trans d1, h3.trans d2, h4.trans d3, h5, by rw [h6, d4]⟩
    | all =>
      simp only [decodeCmds] at h
      split at h
      · cases h
      · rename_i cur1 r hdt
        obtain ⟨d1, d2, d3, d4⟩ := decodeTake_spec _ _ _ _ _ hdt
        obtain ⟨c', tail, h1, h2, h3, h4, h5, h6⟩ := ih _ _ _ _ h
        exact ⟨c', tail, h1, h2.trans d1, h3.trans d2, h4.trans d3, h5, by rw [h6, d4]⟩

/-- **Decoding loses nothing.**  The segments of an answer, in order, carry exactly the nodes of the
answer, in order; the first segment belongs to the walker as created (no start node, nothing emitted
before) and every other one follows its predecessor as `SegNext` says. -/
theorem decodeScript_spec (cmds : List Cmd) (toks : List (Option Nat)) (segs : List Seg)
    (h : decodeScript cmds toks = .ok segs) :
    ∃ first tail, segs = first :: tail ∧ first.base = [] ∧ first.start = none ∧ first.dirty = false ∧
      SegChain first tail ∧ (segs.map Seg.out).flatten = toks.filterMap id := by
  obtain ⟨c', tail, h1, h2, h3, h4, h5, h6⟩ := decodeCmds_spec cmds [] {} toks segs h
  refine ⟨c', tail, by simpa using h1, h2, h3, h4, h5, ?_⟩
  rw [h1]
  simpa using h6

end PetgraphModel.TravProofs
