import PetgraphModel.Proofs.C10W4KspGoal
/-
The k-walk oracle `kWalksF` reaches its fixed point within `kspFuel v k + 1` iterations (wave 4).

The mirror model itself is the proof device: its no-goal run terminates within `kspFuel v k` pops
(`ksp_terminates`), and at the drained exit the truncated walk counts of EVERY length are dominated
by those of length `kspFuel v k` (`counts_stationary`).  Hence the table `tab` of the dynamic
programme is stationary from that index on, and `kIter`, which stops at the first fixed point, returns
a table whenever its fuel exceeds it.
-/
namespace PetgraphModel.C10P
open PetgraphModel PetgraphModel.MGraph PetgraphModel.SP PetgraphModel.C10

/-- `kIter` finds a fixed point if there is one within its fuel -/
theorem kIter_total (g : MGraph) (s k : Nat) : ∀ (fuel n j : Nat), j < fuel →
    tab g s k (kDom g s) (n + j + 1) = tab g s k (kDom g s) (n + j) →
    ∃ T, kIter g s k (kDom g s) fuel (tab g s k (kDom g s) n) = some T := by
  intro fuel
  induction fuel with
  | zero => intro n j hj; omega
  | succ f ih =>
    intro n j hj hfix
    simp only [kIter, kStep_tab]
    split
    · exact ⟨_, rfl⟩
    · rename_i hne
      cases j with
      | zero =>
        exfalso
        apply hne
        simp only [Nat.add_zero] at hfix
        rw [hfix]; simp
      | succ j =>
        apply ih (n + 1) j (by omega)
        rw [show n + 1 + j + 1 = n + (j + 1) + 1 by omega, show n + 1 + j = n + (j + 1) by omega]
        exact hfix

/-- the table of the dynamic programme is stationary from `kspFuel v k` on -/
theorem tab_stationary {pop : Pop} (hp : IsMinPop pop) {v : View} (hvm : ViewArcsM v) (hw : NonNeg v.g) (s k : Nat)
    (hk : 1 ≤ k) (hix : IxOk v s) (hinj : IxInj v s) :
    tab v.g s k (kDom v.g s) (kspFuel v k + 1) = tab v.g s k (kDom v.g s) (kspFuel v k) := by
  unfold tab
  apply List.map_congr_left
  intro x _
  congr 1
  apply asc_ext _ _ (asc_kSmallest _ _) (asc_kSmallest _ _)
  intro c
  show cnt c (kSmallest k _) = cnt c (kSmallest k _)
  rw [cnt_kSmallest, cnt_kSmallest]
  have h1 := counts_stationary hp hvm hw s k hk hix hinj (kspFuel v k + 1) x c
  have h2 := cnt_wcosts_mono v.g s x c (Nat.le_add_right (kspFuel v k) 1)
  omega

/-- **the oracle is total on every checked view**: with fuel above `kspFuel v k` it returns a table -/
theorem kWalksF_total {v : View} (hvm : ViewArcsM v) (hw : NonNeg v.g) (s k : Nat)
    (hk : 1 ≤ k) (hix : IxOk v s) (hinj : IxInj v s) (fuel : Nat) (hf : kspFuel v k + 1 ≤ fuel) :
    ∃ T, kWalksF fuel v.g s k = some T := by
  unfold kWalksF
  simp only
  rw [kInit_tab]
  have := kIter_total v.g s k fuel 0 (kspFuel v k) (by omega)
    (by simpa using tab_stationary popMin_isMinPop hvm hw s k hk hix hinj)
  exact this

end PetgraphModel.C10P
