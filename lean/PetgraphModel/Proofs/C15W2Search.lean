import PetgraphModel.Proofs.C15W2Scan
/-
C15 wave 2 — one search (`gabowSearch`) and the whole of `maximum_matching`: the `mate` array stays a
valid matching, no fault is reached.
-/
namespace PetgraphModel.C15W2
open PetgraphModel PetgraphModel.C15 PetgraphModel.C15M PetgraphModel.C15P

/-- the state between two searches -/
structure BInv (v : View) (s : GS) (n : Nat) : Prop where
  fault : s.fault = false
  mate : MateInv v s.mate n
  label : s.label = List.replicate (v.nb + 1) Label.none
  fiLen : s.fi.length = v.nb + 1

theorem labI_replicate (n i : Nat) : labI (List.replicate n Label.none) i = Label.none := by
  unfold labI
  rw [List.getElem?_replicate]
  split <;> rfl

section
variable {c : Ctx}

/-- running or finished -/
def SearchInv (c : Ctx) (n0 : Nat) (st : SSt) : Prop :=
  (st.2.2.2.2 = false ∧ st.2.1 = n0 ∧ (∃ P ord, SInv c st.1 P ord) ∧
    (∀ q ∈ st.2.2.1, q ∈ c.v.g.nodes → outerAt c st.1 q = true)) ∨ ScanDone c n0 st

theorem outerStep_spec (hv : VHyp c.v c.mode) (n0 : Nat) (hm : MateInv c.v c.m0 n0) (st : SSt)
    (hI : SearchInv c n0 st) : SearchInv c n0 (stepVal (outerStep c.v c.mode c.sv st)) := by
  unfold outerStep
  rcases hI with ⟨hdone, hn, hS, hq⟩ | hD
  · obtain ⟨P, ord, I⟩ := hS
    rw [if_neg (by rw [hdone, I.fault]; simp)]
    obtain ⟨s, n, queue, visited, done⟩ := st
    simp only [] at hdone hn hq I ⊢
    cases queue with
    | nil => exact Or.inl ⟨hdone, hn, ⟨P, ord, I⟩, hq⟩
    | cons x q =>
      simp only [stepVal]
      have := forIn_list_pure2 (ScanOpen c n0 x) (ScanDone c n0)
        (fun e st => scanStep c.v c.mode c.sv x e st) (c.v.outOf x) ((s, n, q, visited, done) : SSt)
        ⟨hdone, hn, ⟨P, ord, I⟩, fun q' hq' => hq q' (List.mem_cons_of_mem _ hq'),
          fun hxn => hq x (List.mem_cons_self ..) hxn⟩
        (fun e he b hb => scanStep_spec hv n0 hm x e he b hb)
      rcases this with h | h
      · exact Or.inr h
      · exact Or.inl ⟨h.1, h.2.1, h.2.2.1, h.2.2.2.1⟩
  · rw [if_pos (by rw [hD.1]; simp)]
    exact Or.inr hD

end

/-- the context of the search from `startIdx` -/
def searchCtx (v : View) (mode : Nat) (s : GS) (startIdx : Nat) : Ctx :=
  { v := v, mode := mode, m0 := s.mate, sv := fromIndex v startIdx }

theorem search_init (v : View) (mode : Nat) (hv : VHyp v mode) (s : GS) (n : Nat) (hB : BInv v s n)
    (startIdx : Nat) (hst : startIdx < v.nb) (hfree : getM s.mate startIdx = none) :
    ∃ P ord, SInv (searchCtx v mode s startIdx) ((s.setLabel startIdx Label.start).setFi startIdx v.nb) P ord ∧
      (fromIndex v startIdx ∈ v.g.nodes →
        outerAt (searchCtx v mode s startIdx) ((s.setLabel startIdx Label.start).setFi startIdx v.nb)
          (fromIndex v startIdx) = true) := by
  have hlabLen : s.label.length = v.nb + 1 := by rw [hB.label]; simp
  rw [setLabel_eq _ _ _ (by rw [hlabLen]; omega), setFi_eq _ _ _ (by simp [hB.fiLen]; omega)]
  have hlab : ∀ i, labI (s.label.set startIdx Label.start) i = if startIdx = i then Label.start else Label.none := by
    intro i
    rw [labI_set _ _ _ _ (by rw [hlabLen]; omega), hB.label, labI_replicate]
  have hout : ∀ x, outerAt (searchCtx v mode s startIdx)
      ({ s with label := s.label.set startIdx Label.start, fi := s.fi.set startIdx v.nb } : GS) x =
      decide (startIdx = v.toIndex x) := by
    intro x
    show (labI (s.label.set startIdx Label.start) (v.toIndex x)).isOuter = _
    rw [hlab]
    by_cases h : startIdx = v.toIndex x <;> simp [h, Label.isOuter]
  have hfi : fiI (s.fi.set startIdx v.nb) startIdx = v.nb := by
    rw [fiI_set _ _ _ _ (by rw [hB.fiLen]; omega)]; simp
  by_cases hnode : ∃ a ∈ v.g.nodes, v.toIndex a = startIdx
  · -- the start index belongs to a node
    obtain ⟨a, ha, hia⟩ := hnode
    have hsv : fromIndex v startIdx = a := by rw [← hia]; exact hv.ix.from_to a ha
    refine ⟨fun _ => [], [a], ⟨rfl, hB.fault, by show (s.label.set _ _).length = v.nb + 1; simp [hlabLen],
      by show (s.fi.set _ _).length = v.nb + 1; simp [hB.fiLen], ?_, ?_, ?_, ?_⟩, ?_⟩
    · refine ⟨by show ([a] : List Nat).Nodup; simp, ?_, ?_, ?_⟩
      · intro x
        show x ∈ [a] ↔ x ∈ v.g.nodes ∧ outerAt (searchCtx v mode s startIdx) _ x = true
        rw [hout x]
        simp only [List.mem_singleton, decide_eq_true_eq]
        constructor
        · intro e; subst e; exact ⟨ha, hia.symm⟩
        · rintro ⟨hx, e⟩; exact hv.ix.inj x hx a ha (e.symm.trans hia.symm)
      · intro _
        show outerAt (searchCtx v mode s startIdx) _ (fromIndex v startIdx) = true ∧
          getM s.mate (v.toIndex (fromIndex v startIdx)) = none
        rw [hout, hsv, hia]
        exact ⟨by simp, hfree⟩
      · intro x hx hox
        have hox' : outerAt (searchCtx v mode s startIdx) _ x = true := hox
        rw [hout x] at hox'
        have hxa : x = a := hv.ix.inj x hx a ha ((of_decide_eq_true hox').symm.trans hia.symm)
        subst hxa
        have hLx : labI (s.label.set startIdx Label.start) (v.toIndex x) = Label.start := by
          rw [hlab, if_pos hia.symm]
        refine ⟨by show fromIndex v startIdx ∈ _; rw [hsv]; exact ha, by show fromIndex v startIdx = x; exact hsv,
          trivial, ?_, ?_, ?_, ?_, ?_, ?_, ?_, ?_, ?_⟩
        · show ([] ++ [fromIndex v startIdx]).Nodup; simp
        · intro y hy; cases hy
        · intro p u h; cases h
        · intro pre p u rest h
          have : ([] : PL) = pre ++ (p, u) :: rest := h
          simp at this
        · show fiI (s.fi.set startIdx v.nb) (v.toIndex x) = v.nb
          rw [hia]; exact hfi
        · intro pre p u rest h
          have : ([] : PL) = pre ++ (p, u) :: rest := h
          simp at this
        · intro _; exact hsv.symm
        · intro y h
          have : labI (s.label.set startIdx Label.start) (v.toIndex x) = Label.vertex y := h
          rw [hLx] at this; cases this
        · intro k s' t h
          have : labI (s.label.set startIdx Label.start) (v.toIndex x) = Label.edge k s' t := h
          rw [hLx] at this; cases this
    · show (labI (s.label.set startIdx Label.start) v.nb).isOuter = false
      rw [hlab, if_neg (by omega)]; rfl
    · intro i hi
      have hi' : (labI (s.label.set startIdx Label.start) i).isOuter = true := hi
      rw [hlab] at hi'
      by_cases e : startIdx = i
      · subst e; show fiI (s.fi.set startIdx v.nb) startIdx ≤ v.nb; rw [hfi]; exact Nat.le_refl _
      · rw [if_neg e] at hi'; cases hi'
    · intro i k' hi
      have hi' : labI (s.label.set startIdx Label.start) i = Label.flag k' := hi
      rw [hlab] at hi'
      split at hi' <;> cases hi'
    · intro _
      rw [hout, hsv, hia]; simp
  · -- a vacant index
    have hvac : ∀ a ∈ v.g.nodes, v.toIndex a ≠ startIdx := fun a ha e => hnode ⟨a, ha, e⟩
    have hsvn : fromIndex v startIdx ∉ v.g.nodes := hv.vac startIdx hst hvac
    refine ⟨fun _ => [], [], ⟨rfl, hB.fault, by show (s.label.set _ _).length = v.nb + 1; simp [hlabLen],
      by show (s.fi.set _ _).length = v.nb + 1; simp [hB.fiLen], ?_, ?_, ?_, ?_⟩,
      fun h => absurd h hsvn⟩
    · refine ⟨by show ([] : List Nat).Nodup; simp, ?_, fun h => absurd h hsvn, ?_⟩
      · intro x
        show x ∈ [] ↔ x ∈ v.g.nodes ∧ outerAt (searchCtx v mode s startIdx) _ x = true
        rw [hout x]
        simp only [List.not_mem_nil, decide_eq_true_eq, false_iff, not_and]
        intro hx e
        exact hvac x hx e.symm
      · intro x hx hox
        exfalso
        have hox' : outerAt (searchCtx v mode s startIdx) _ x = true := hox
        rw [hout x] at hox'
        exact hvac x hx (of_decide_eq_true hox').symm
    · show (labI (s.label.set startIdx Label.start) v.nb).isOuter = false
      rw [hlab, if_neg (by omega)]; rfl
    · intro i hi
      have hi' : (labI (s.label.set startIdx Label.start) i).isOuter = true := hi
      rw [hlab] at hi'
      by_cases e : startIdx = i
      · subst e; show fiI (s.fi.set startIdx v.nb) startIdx ≤ v.nb; rw [hfi]; exact Nat.le_refl _
      · rw [if_neg e] at hi'; cases hi'
    · intro i k' hi
      have hi' : labI (s.label.set startIdx Label.start) i = Label.flag k' := hi
      rw [hlab] at hi'
      split at hi' <;> cases hi'

end PetgraphModel.C15W2
