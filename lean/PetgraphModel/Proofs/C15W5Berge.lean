import PetgraphModel.Proofs.C15W5BergeWalk
/-
C15 wave 5 — **Berge's theorem** for matchings given as lists of node pairs, and the corollaries
the maximality proof of `maximum_matching` consumes.

* `augment_exists` (T1, in `C15W5BergeAug`): flipping an augmenting path;
* `augPath_of_larger` (T2, in `C15W5BergeWalk`): a larger matching yields an augmenting path;
* `berge` (T3), `max_of_noExt` (T4), `noAugFrom_iff_noExt` (T5), `noAugFrom_persist` (T6) below.
Core Lean only.
-/
namespace PetgraphModel.C15W5
open PetgraphModel PetgraphModel.C15

/-- T3 **Berge's theorem** -/
theorem berge (g : MGraph) (M : List (Nat × Nat)) (hM : IsMatching g M) :
    IsMaximumMatching g M ↔ ∀ p, ¬ AugPath g M p := by
  constructor
  · intro hmax p hp
    obtain ⟨N, hN, hlen, -⟩ := augment_exists g M p hM hp
    have := hmax.2 N hN
    omega
  · intro h
    refine ⟨hM, fun M' hM' => ?_⟩
    apply Classical.byContradiction
    intro hlt
    obtain ⟨p, hp⟩ := augPath_of_larger g M M' hM hM' (by omega)
    exact h p hp

/-- T4 what the algorithm proof consumes -/
theorem max_of_noExt (g : MGraph) (M : List (Nat × Nat)) (hM : IsMatching g M)
    (h : ∀ u, ¬ Covered M u → NoExt g M u) : IsMaximumMatching g M := by
  rw [berge g M hM]
  intro p hp
  match p, hp with
  | [], hp => exact absurd hp.two (by simp)
  | u :: r, hp =>
    obtain ⟨N, hN, -, hcov, hhead, -⟩ := augment_exists g M (u :: r) hM hp
    exact h u (hp.headFree u rfl) ⟨N, hN, hcov, hhead u rfl⟩

/-- T5: for a free node the two notions agree -/
theorem noAugFrom_iff_noExt (g : MGraph) (M : List (Nat × Nat)) (hM : IsMatching g M) (u : Nat)
    (hu : ¬ Covered M u) : NoAugFrom g M u ↔ NoExt g M u := by
  constructor
  · rintro h ⟨N, hN, hcov, hNu⟩
    obtain ⟨p, hp, hhead⟩ := aug_from_of_cover g M N u hM hN hcov hNu hu
    exact h p hp hhead
  · intro h p hp hhead
    obtain ⟨N, hN, -, hcov, hhead', -⟩ := augment_exists g M p hM hp
    exact h ⟨N, hN, hcov, hhead' u hhead⟩

/-- `NoExt` is monotone in the set of covered nodes -/
theorem noExt_mono (g : MGraph) (M M' : List (Nat × Nat))
    (hcov : ∀ a, Covered M a → Covered M' a) (u : Nat) (h : NoExt g M u) : NoExt g M' u := by
  rintro ⟨N, hN, hc, hNu⟩
  exact h ⟨N, hN, fun a ha => hc a (hcov a ha), hNu⟩

/-- T6 **failed roots stay failed**: if no `M`-augmenting path starts at `u` and `M'` covers
everything `M` covers (in particular `M'` = `M` flipped along any augmenting path), no
`M'`-augmenting path starts at `u` -/
theorem noAugFrom_persist (g : MGraph) (M M' : List (Nat × Nat)) (hM : IsMatching g M)
    (hM' : IsMatching g M') (hcov : ∀ a, Covered M a → Covered M' a) (u : Nat)
    (hu : NoAugFrom g M u) : NoAugFrom g M' u := by
  intro p hp hhead
  have hfree' : ¬ Covered M' u := hp.headFree u hhead
  have hfree : ¬ Covered M u := fun h => hfree' (hcov u h)
  have h1 : NoExt g M u := (noAugFrom_iff_noExt g M hM u hfree).1 hu
  have h2 : NoExt g M' u := noExt_mono g M M' hcov u h1
  exact (noAugFrom_iff_noExt g M' hM' u hfree').2 h2 p hp hhead

/-! ### non-vacuity -/

section examples

/-- the path `0 — 1 — 2 — 3` -/
def exPath : MGraph :=
  { directed := false, nodes := [0, 1, 2, 3],
    edges := [⟨0, 0, 1, 1⟩, ⟨1, 2, 1, 1⟩, ⟨2, 2, 3, 1⟩] }

theorem exPath_joined {a b : Nat} : Joined exPath a b ↔
    (a = 0 ∧ b = 1) ∨ (a = 1 ∧ b = 0) ∨ (a = 1 ∧ b = 2) ∨ (a = 2 ∧ b = 1) ∨ (a = 2 ∧ b = 3) ∨
      (a = 3 ∧ b = 2) := by
  simp only [Joined, JoinedIn, exPath, List.mem_cons, List.not_mem_nil, or_false, exists_eq_or_imp,
    exists_eq_left]
  omega

theorem exM_matching : IsMatching exPath [(1, 2)] := by
  refine ⟨?_, by simp⟩
  intro p hp
  simp only [List.mem_cons, List.not_mem_nil, or_false] at hp
  subst hp
  exact exPath_joined.2 (by simp)

theorem exM_covered {a : Nat} : Covered [(1, 2)] a ↔ a = 1 ∨ a = 2 := by
  simp only [Covered, InM, List.mem_cons, List.not_mem_nil, or_false, Prod.mk.injEq]
  constructor
  · rintro ⟨b, h | h⟩ <;> omega
  · rintro (h | h)
    · exact ⟨2, Or.inl ⟨h, rfl⟩⟩
    · exact ⟨1, Or.inr ⟨rfl, h⟩⟩

/-- `[0, 1, 2, 3]` is an augmenting path for the matching `[(1, 2)]` of the path `0 — 1 — 2 — 3` -/
theorem exAug : AugPath exPath [(1, 2)] [0, 1, 2, 3] := by
  refine ⟨by decide, ?_, by decide, ?_, ?_⟩
  · simp only [AltFrom, exPath_joined, InM]
    simp
  · intro a ha
    simp only [List.head?_cons, Option.some.injEq] at ha
    subst ha
    rw [exM_covered]; omega
  · intro a ha
    simp only [List.getLast?_cons_cons, List.getLast?_singleton, Option.some.injEq] at ha
    subst ha
    rw [exM_covered]; omega

example : AugPath exPath [(1, 2)] [0, 1, 2, 3] := exAug

/-- hence `[(1, 2)]` is not maximum (T3), it can be extended to a matching with two pairs covering
`0` and `3` (T1), and an augmenting path starts at `0`, so `0` is extendable (T5) -/
example : ¬ IsMaximumMatching exPath [(1, 2)] := fun h =>
  (berge exPath _ exM_matching).1 h _ exAug

example : ∃ N, IsMatching exPath N ∧ N.length = 2 ∧ Covered N 0 ∧ Covered N 3 := by
  obtain ⟨N, hN, hlen, -, hh, hl⟩ := augment_exists exPath _ _ exM_matching exAug
  exact ⟨N, hN, hlen, hh 0 rfl, hl 3 rfl⟩

example : ¬ NoExt exPath [(1, 2)] 0 := fun h =>
  (noAugFrom_iff_noExt exPath _ exM_matching 0 (by rw [exM_covered]; omega)).2 h _ exAug rfl

/-- the perfect matching `[(0, 1), (2, 3)]` is maximum, by Berge's theorem: an augmenting path would
start at a free node joined to another node -/
example : IsMaximumMatching exPath [(0, 1), (2, 3)] := by
  have hM : IsMatching exPath [(0, 1), (2, 3)] := by
    refine ⟨?_, by simp [Disjoint2]⟩
    intro p hp
    simp only [List.mem_cons, List.not_mem_nil, or_false] at hp
    rcases hp with rfl | rfl <;> exact exPath_joined.2 (by simp)
  rw [berge _ _ hM]
  intro p hp
  match p, hp with
  | [], hp => exact absurd hp.two (by simp)
  | [_], hp => exact absurd hp.two (by simp)
  | a :: b :: r, hp =>
    have hj : Joined exPath a b := hp.alt.1
    have hfree := hp.headFree a rfl
    apply hfree
    have ha : a = 0 ∨ a = 1 ∨ a = 2 ∨ a = 3 := by
      have := exPath_joined.1 hj
      omega
    rcases ha with rfl | rfl | rfl | rfl
    · exact ⟨1, Or.inl (by simp)⟩
    · exact ⟨0, Or.inr (by simp)⟩
    · exact ⟨3, Or.inl (by simp)⟩
    · exact ⟨2, Or.inr (by simp)⟩

/-- the path `0 — 1 — 2` -/
def exPath3 : MGraph :=
  { directed := false, nodes := [0, 1, 2], edges := [⟨0, 0, 1, 1⟩, ⟨1, 1, 2, 1⟩] }

theorem exPath3_joined {a b : Nat} : Joined exPath3 a b ↔
    (a = 0 ∧ b = 1) ∨ (a = 1 ∧ b = 0) ∨ (a = 1 ∧ b = 2) ∨ (a = 2 ∧ b = 1) := by
  simp only [Joined, JoinedIn, exPath3, List.mem_cons, List.not_mem_nil, or_false,
    exists_eq_or_imp, exists_eq_left]
  omega

/-- on the path `0 — 1 — 2` with `M = [(0, 1)]` the free node `2` cannot be matched additionally
(`0` and `2` would both need `1`), so no augmenting path starts at `2` (T5), also not after
replacing `M` by any matching covering `0` and `1` (T6) -/
theorem ex3_noExt : NoExt exPath3 [(0, 1)] 2 := by
  rintro ⟨N, hN, hcov, ⟨c, hc⟩⟩
  obtain ⟨b, hb⟩ := hcov 0 ⟨1, Or.inl (by simp)⟩
  have hb1 : b = 1 := by
    have := exPath3_joined.1 (m_joined hN hb)
    omega
  have hc1 : c = 1 := by
    have := exPath3_joined.1 (m_joined hN hc)
    omega
  subst hb1 hc1
  have := m_unique' hN hb hc
  omega

theorem ex3_matching : IsMatching exPath3 [(0, 1)] := by
  refine ⟨?_, by simp⟩
  intro p hp
  simp only [List.mem_cons, List.not_mem_nil, or_false] at hp
  subst hp
  exact exPath3_joined.2 (by simp)

theorem ex3_free : ¬ Covered [(0, 1)] 2 := by
  rintro ⟨b, hb⟩
  simp [InM] at hb

example : NoAugFrom exPath3 [(0, 1)] 2 :=
  (noAugFrom_iff_noExt _ _ ex3_matching 2 ex3_free).2 ex3_noExt

example (M' : List (Nat × Nat)) (hM' : IsMatching exPath3 M') (h0 : Covered M' 0)
    (h1 : Covered M' 1) : NoAugFrom exPath3 M' 2 := by
  refine noAugFrom_persist _ [(0, 1)] M' ex3_matching hM' ?_ 2
    ((noAugFrom_iff_noExt _ _ ex3_matching 2 ex3_free).2 ex3_noExt)
  rintro a ⟨b, hb⟩
  simp only [InM, List.mem_cons, List.not_mem_nil, or_false, Prod.mk.injEq] at hb
  rcases hb with ⟨rfl, -⟩ | ⟨-, rfl⟩
  · exact h0
  · exact h1

example : IsMaximumMatching exPath3 [(0, 1)] := by
  refine max_of_noExt _ _ ex3_matching ?_
  intro u hu
  rintro ⟨N, hN, hcov, ⟨c, hc⟩⟩
  -- `u` is free, so `u ≠ 0, 1`; it is covered by `N`, so joined to something: `u = 2`
  have hu2 : u = 2 := by
    have hj := exPath3_joined.1 (m_joined hN hc)
    have h0 : u ≠ 0 := by
      rintro rfl; exact hu ⟨1, Or.inl (by simp)⟩
    have h1 : u ≠ 1 := by
      rintro rfl; exact hu ⟨0, Or.inr (by simp)⟩
    omega
  subst hu2
  exact ex3_noExt ⟨N, hN, hcov, ⟨c, hc⟩⟩

end examples

end PetgraphModel.C15W5

open PetgraphModel.C15W5 in
#print axioms augment_exists
open PetgraphModel.C15W5 in
#print axioms augPath_of_larger
open PetgraphModel.C15W5 in
#print axioms berge
open PetgraphModel.C15W5 in
#print axioms max_of_noExt
open PetgraphModel.C15W5 in
#print axioms noAugFrom_iff_noExt
open PetgraphModel.C15W5 in
#print axioms noAugFrom_persist
