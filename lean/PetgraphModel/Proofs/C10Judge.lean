import PetgraphModel.Oracle.C10Judge
import PetgraphModel.Proofs.Dist
/-
Soundness of the C10 judges for dijkstra and astar: `ok… = true` ⇒ the clauses of the property
statement, for all graphs and all answers.  Everything reduces to the shared certificate theorems
`DistProofs.checkDist_exact` / `checkDist_unreachable` / `walk_iff_reach`.
-/
namespace PetgraphModel.C10P
open PetgraphModel PetgraphModel.MGraph PetgraphModel.Oracle PetgraphModel.C10

/-! ### lists -/

theorem eraseDups_length_le_aux {α} [BEq α] [LawfulBEq α] :
    ∀ (n : Nat) (l : List α), l.length ≤ n → l.eraseDups.length ≤ l.length := by
  intro n
  induction n with
  | zero => intro l h; cases l with
    | nil => simp
    | cons => simp at h
  | succ n ih =>
    intro l h
    cases l with
    | nil => simp
    | cons a as =>
      rw [List.eraseDups_cons]
      simp only [List.length_cons] at h ⊢
      have h1 := List.length_filter_le (fun b => !b == a) as
      have := ih (as.filter fun b => !b == a) (by omega)
      omega

theorem eraseDups_length_le {α} [BEq α] [LawfulBEq α] (l : List α) : l.eraseDups.length ≤ l.length :=
  eraseDups_length_le_aux l.length l (Nat.le_refl _)

theorem nodup_of_eraseDups_length_aux {α} [BEq α] [LawfulBEq α] :
    ∀ (n : Nat) (l : List α), l.length ≤ n → l.eraseDups.length = l.length → l.Nodup := by
  intro n
  induction n with
  | zero => intro l h _; cases l with
    | nil => exact List.nodup_nil
    | cons => simp at h
  | succ n ih =>
    intro l h hl
    cases l with
    | nil => exact List.nodup_nil
    | cons a as =>
      rw [List.eraseDups_cons] at hl
      simp only [List.length_cons] at h hl
      have h1 := List.length_filter_le (fun b => !b == a) as
      have h2 := eraseDups_length_le (as.filter fun b => !b == a)
      have hf : (as.filter fun b => !b == a).length = as.length := by omega
      have hall : ∀ x ∈ as, (!x == a) = true := List.length_filter_eq_length_iff.mp hf
      have hfe : as.filter (fun b => !b == a) = as := List.filter_eq_self.mpr hall
      rw [hfe] at hl
      have hnd : as.Nodup := ih as (by omega) (by omega)
      refine List.nodup_cons.mpr ⟨?_, hnd⟩
      intro hmem
      have := hall a hmem
      simp at this

theorem nodup_of_eraseDups_length {α} [BEq α] [LawfulBEq α] (l : List α)
    (h : l.eraseDups.length = l.length) : l.Nodup :=
  nodup_of_eraseDups_length_aux l.length l (Nat.le_refl _) h

theorem lookup_of_mem_nodup {β} : ∀ (m : List (Nat × β)) (v : Nat) (y : β),
    (m.map (·.1)).Nodup → (v, y) ∈ m → m.lookup v = some y := by
  intro m
  induction m with
  | nil => intro v y _ h; cases h
  | cons p r ih =>
    intro v y hnd hmem
    obtain ⟨k, x⟩ := p
    simp only [List.map_cons, List.nodup_cons] at hnd
    cases List.mem_cons.mp hmem with
    | inl h =>
      cases h
      simp [List.lookup]
    | inr h =>
      have hne : v ≠ k := by
        intro e
        subst e
        exact hnd.1 (List.mem_map.mpr ⟨(v, y), h, rfl⟩)
      have : (v == k) = false := by simpa using hne
      simp only [List.lookup, this]
      exact ih v y hnd.2 h

theorem mem_of_lookup {β} : ∀ (m : List (Nat × β)) (v : Nat) (y : β), m.lookup v = some y → (v, y) ∈ m := by
  intro m
  induction m with
  | nil => intro v y h; simp [List.lookup] at h
  | cons p r ih =>
    intro v y h
    obtain ⟨k, x⟩ := p
    simp only [List.lookup] at h
    split at h
    · rename_i heq
      have : v = k := by simpa using heq
      cases h
      subst this
      exact List.mem_cons_self ..
    · exact List.mem_cons_of_mem _ (ih v y h)

theorem keysNodup_spec (m : List (Nat × Int)) (h : keysNodup m = true) : (m.map (·.1)).Nodup := by
  unfold keysNodup at h
  have : ((m.map (·.1)).eraseDups).length = (m.map (·.1)).length := by simpa using h
  exact nodup_of_eraseDups_length _ this

/-! ### shortest walks -/

theorem isShortest_unique {g : MGraph} {s v : Nat} {y y' : Int}
    (h : IsShortest g s v y) (h' : IsShortest g s v y') : y = y' :=
  Int.le_antisymm (h.2 _ h'.1) (h'.2 _ h.1)

theorem walk_cons {g : MGraph} {a b x : Nat} {w c : Int} (ha : (a, b, w) ∈ g.arcs)
    (hw : WalkCost g b x c) : WalkCost g a x (w + c) := by
  induction hw with
  | nil =>
    have := WalkCost.snoc (WalkCost.nil (g := g) a) ha
    simpa using this
  | snoc _ harc ih =>
    have := WalkCost.snoc ih harc
    rw [Int.add_assoc] at this
    exact this

/-- a node sequence following arcs, with the sum of the arc costs -/
inductive PathCost (g : MGraph) : List Nat → Int → Prop
  | single (a : Nat) : PathCost g [a] 0
  | cons {a b : Nat} {rest : List Nat} {w c : Int} :
      (a, b, w) ∈ g.arcs → PathCost g (b :: rest) c → PathCost g (a :: b :: rest) (w + c)

theorem PathCost.walk {g : MGraph} {p : List Nat} {c : Int} (h : PathCost g p c) :
    ∀ a t, p.head? = some a → p.getLast? = some t → WalkCost g a t c := by
  induction h with
  | single x =>
    intro a t ha ht
    simp at ha ht
    subst ha; subst ht
    exact WalkCost.nil _
  | cons harc _ ih =>
    intro a t ha ht
    simp at ha
    subst ha
    rename_i b rest w c _
    have : (b :: rest).getLast? = some t := by
      simpa [List.getLast?_cons_cons] using ht
    exact walk_cons harc (ih b t rfl this)

theorem foldl_min_mem : ∀ (l : List Int) (acc : Option Int) (w : Int),
    l.foldl (fun acc w => match acc with | none => some w | some m => some (min m w)) acc = some w →
    acc = some w ∨ w ∈ l := by
  intro l
  induction l with
  | nil => intro acc w h; exact Or.inl h
  | cons x r ih =>
    intro acc w h
    simp only [List.foldl_cons] at h
    cases ih _ _ h with
    | inr h' => exact Or.inr (List.mem_cons_of_mem _ h')
    | inl h' =>
      cases acc with
      | none => simp at h'; exact Or.inr (h' ▸ List.mem_cons_self ..)
      | some m =>
        simp at h'
        by_cases hm : m ≤ x
        · left; rw [← h']; simp [Int.min_eq_left hm]
        · right; rw [← h']
          have : min m x = x := Int.min_eq_right (by omega)
          rw [this]; exact List.mem_cons_self ..

theorem minArc_mem {g : MGraph} {u v : Nat} {w : Int} (h : minArc g u v = some w) : (u, v, w) ∈ g.arcs := by
  unfold minArc at h
  cases foldl_min_mem _ _ _ h with
  | inl h' => cases h'
  | inr h' =>
    obtain ⟨⟨a, b, w'⟩, hmem, hf⟩ := List.mem_filterMap.mp h'
    simp only at hf
    split at hf
    · rename_i hab
      cases hf
      rw [← hab.1, ← hab.2]
      exact hmem
    · cases hf

theorem pathCost_sound {g : MGraph} : ∀ (p : List Nat) (c : Int), pathCost g p = some c → PathCost g p c := by
  intro p
  induction p with
  | nil => intro c h; simp [pathCost] at h
  | cons a r ih =>
    intro c h
    cases r with
    | nil => simp [pathCost] at h; subst h; exact PathCost.single a
    | cons b rest =>
      simp only [pathCost] at h
      split at h
      · rename_i w c' hw hc
        cases h
        exact PathCost.cons (minArc_mem hw) (ih c' hc)
      · cases h

/-! ### certified reference -/

theorem certDist_ok {g : MGraph} {s : Nat} {d : List (Nat × Int)} (h : certDist g s = some d) :
    checkDist g s d = true := by
  unfold certDist at h
  simp only at h
  split at h
  · rename_i hc; cases h; exact hc
  · cases h

/-- what an accepted certificate says, in one place -/
structure Exact (g : MGraph) (s : Nat) (d : List (Nat × Int)) : Prop where
  exact : ∀ v y, labelOf d v = some y → IsShortest g s v y
  none_iff : ∀ v, labelOf d v = none ↔ ¬ Reach g s v
  mem_iff : ∀ v y, (v, y) ∈ d ↔ IsShortest g s v y

theorem checkDist_keysNodup {g : MGraph} {s : Nat} {d : List (Nat × Int)} (h : checkDist g s d = true) :
    (d.map (·.1)).Nodup := by
  unfold checkDist at h
  simp only [Bool.and_eq_true] at h
  exact keysNodup_spec d h.1.1.2

theorem exact_of_check {g : MGraph} {s : Nat} {d : List (Nat × Int)} (h : checkDist g s d = true) :
    Exact g s d := by
  have hex := DistProofs.checkDist_exact g s d h
  have hun := DistProofs.checkDist_unreachable g s d h
  have hnd := checkDist_keysNodup h
  refine ⟨hex, ?_, ?_⟩
  · intro v
    rw [hun v, DistProofs.walk_iff_reach]
  · intro v y
    constructor
    · intro hm
      exact hex v y (lookup_of_mem_nodup d v y hnd hm)
    · intro hs
      cases hl : labelOf d v with
      | none =>
        exact absurd ⟨y, hs.1⟩ ((hun v).mp hl)
      | some y' =>
        have := isShortest_unique (hex v y' hl) hs
        subst this
        exact mem_of_lookup d v y' hl

theorem Exact.reach_iff {g : MGraph} {s : Nat} {d : List (Nat × Int)} (e : Exact g s d) (v : Nat) :
    (∃ y, IsShortest g s v y) ↔ Reach g s v := by
  constructor
  · rintro ⟨y, hy⟩
    exact (DistProofs.walk_iff_reach g s v).mp ⟨y, hy.1⟩
  · intro hr
    cases hl : labelOf d v with
    | none => exact absurd hr ((e.none_iff v).mp hl)
    | some y => exact ⟨y, e.exact v y hl⟩

/-! ### dijkstra -/

theorem dijAll_sound (g : MGraph) (s : Nat) (m : List (Nat × Int)) (h : okDijAll g s m = true) :
    (m.map (·.1)).Nodup ∧ (∀ v y, (v, y) ∈ m ↔ IsShortest g s v y) ∧
    (∀ v, (∃ y, (v, y) ∈ m) ↔ Reach g s v) := by
  have e := exact_of_check (g := g) (s := s) (d := m) h
  refine ⟨checkDist_keysNodup h, e.mem_iff, ?_⟩
  intro v
  rw [← e.reach_iff v]
  constructor
  · rintro ⟨y, hy⟩; exact ⟨y, (e.mem_iff v y).mp hy⟩
  · rintro ⟨y, hy⟩; exact ⟨y, (e.mem_iff v y).mpr hy⟩

theorem dijGoal_sound (g : MGraph) (s t : Nat) (m : List (Nat × Int)) (h : okDijGoal g s t m = true) :
    (m.map (·.1)).Nodup ∧
    (∀ y, (t, y) ∈ m ↔ IsShortest g s t y) ∧
    ((∀ y, (t, y) ∉ m) ↔ ¬ Reach g s t) ∧
    (∀ v c, (v, c) ∈ m → ∃ y, IsShortest g s v y ∧ y ≤ c) ∧
    (∀ v y, IsShortest g s v y → (∀ yt, IsShortest g s t yt → y < yt) → (v, y) ∈ m) := by
  unfold okDijGoal at h
  split at h
  · cases h
  · rename_i d hd
    have e := exact_of_check (certDist_ok hd)
    simp only [Bool.and_eq_true, List.all_eq_true] at h
    obtain ⟨⟨⟨hnd, hgoal⟩, hub⟩, hcl⟩ := h
    have hnd := keysNodup_spec m hnd
    have hgoal : labelOf m t = labelOf d t := by simpa using hgoal
    have hmem : ∀ v y, (v, y) ∈ m ↔ labelOf m v = some y := fun v y =>
      ⟨lookup_of_mem_nodup m v y hnd, mem_of_lookup m v y⟩
    have hg1 : ∀ y, (t, y) ∈ m ↔ IsShortest g s t y := by
      intro y
      rw [hmem, hgoal]
      constructor
      · exact e.exact t y
      · intro hs
        exact (hmem t y).mp (by
          rw [hmem, hgoal]
          exact lookup_of_mem_nodup d t y (checkDist_keysNodup (certDist_ok hd)) ((e.mem_iff t y).mpr hs)) |> fun h => by
            rw [← hgoal]; exact h
    refine ⟨hnd, hg1, ?_, ?_, ?_⟩
    · rw [← e.reach_iff t]
      constructor
      · intro hno ⟨y, hy⟩; exact hno y ((hg1 y).mpr hy)
      · intro hno y hy; exact hno ⟨y, (hg1 y).mp hy⟩
    · intro v c hvc
      have := hub (v, c) hvc
      simp only at this
      split at this
      · rename_i y hy
        exact ⟨y, e.exact v y hy, by simpa using this⟩
      · cases this
    · intro v y hs hlt
      have hvd : (v, y) ∈ d := (e.mem_iff v y).mpr hs
      have := hcl (v, y) hvd
      simp only at this
      rw [hmem]
      split at this
      · rename_i yt hyt
        have hlt' := hlt yt (e.exact t yt hyt)
        simp [hlt'] at this
        exact this
      · simpa using this

/-! ### astar -/

theorem astar_none_sound (g : MGraph) (s : Nat) (goals : List Nat) (h : okAstar g s goals none = true) :
    ∀ t ∈ goals, ¬ Reach g s t := by
  unfold okAstar at h
  split at h
  · cases h
  · rename_i d hd
    have e := exact_of_check (certDist_ok hd)
    simp only [List.all_eq_true] at h
    intro t ht
    have := h t ht
    apply (e.none_iff t).mp
    cases hl : labelOf d t with
    | none => rfl
    | some y => simp [hl] at this

theorem astar_some_sound (g : MGraph) (s : Nat) (goals : List Nat) (c : Int) (p : List Nat)
    (h : okAstar g s goals (some (c, p)) = true) :
    p.head? = some s ∧ PathCost g p c ∧
    (∃ t, p.getLast? = some t ∧ t ∈ goals ∧ WalkCost g s t c) ∧
    (∀ t' ∈ goals, ∀ c', WalkCost g s t' c' → c ≤ c') := by
  unfold okAstar at h
  split at h
  · cases h
  · rename_i d hd
    have e := exact_of_check (certDist_ok hd)
    simp only [Bool.and_eq_true, List.all_eq_true] at h
    obtain ⟨⟨⟨hhead, hlast⟩, hcost⟩, hmin⟩ := h
    have hhead : p.head? = some s := by simpa using hhead
    have hpc : PathCost g p c := pathCost_sound p c (by simpa using hcost)
    refine ⟨hhead, hpc, ?_, ?_⟩
    · split at hlast
      · rename_i t ht
        refine ⟨t, ht, by simpa using hlast, hpc.walk s t hhead ht⟩
      · cases hlast
    · intro t' ht' c' hw
      have := hmin t' ht'
      split at this
      · rename_i hl
        exact absurd ((DistProofs.walk_iff_reach g s t').mp ⟨c', hw⟩) ((e.none_iff t').mp hl)
      · rename_i y hl
        have hy : c ≤ y := by simpa using this
        exact Int.le_trans hy ((e.exact t' y hl).2 c' hw)

end PetgraphModel.C10P
