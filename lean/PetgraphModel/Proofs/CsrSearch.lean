import PetgraphModel.Model.Csr
namespace PetgraphModel.CsrProofs
open PetgraphModel.CsrM

/-- index of the first element that is not `< b` -/
def lb (b : Nat) : List Nat → Nat
  | [] => 0
  | x :: xs => if x < b then lb b xs + 1 else 0

theorem lb_le (b : Nat) (xs : List Nat) : lb b xs ≤ xs.length := by
  induction xs with
  | nil => simp [lb]
  | cons x xs ih => simp only [lb]; split <;> simp <;> omega

theorem linearPos_eq (b : Nat) (xs : List Nat) (i : Nat) :
    linearPos b xs i = if xs[lb b xs]? = some b then .found (i + lb b xs) else .absent (i + lb b xs) := by
  induction xs generalizing i with
  | nil => simp [linearPos, lb]
  | cons x xs ih =>
    unfold linearPos
    by_cases h1 : x = b
    · subst h1; simp [lb]
    · by_cases h2 : x > b
      · have : ¬ x < b := by omega
        simp [h1, h2, lb, this]
      · have h3 : x < b := by omega
        simp only [h1, h2, if_false]
        rw [ih]
        simp only [lb, h3, if_true, List.getElem?_cons_succ]
        split <;> simp <;> omega

/-- characterisation of `lb` : the unique `m` with everything before `m` below `b` and `xs[m]` not below -/
theorem lb_unique (b : Nat) (xs : List Nat) (m : Nat) (hm : m ≤ xs.length)
    (hlt : ∀ j (h : j < xs.length), j < m → xs[j] < b)
    (hge : ∀ (h : m < xs.length), ¬ xs[m] < b) : lb b xs = m := by
  induction xs generalizing m with
  | nil => simp at hm; simp [lb, hm]
  | cons x xs ih =>
    cases m with
    | zero =>
      have := hge (by simp)
      simp at this
      simp [lb]; omega
    | succ m =>
      have h0 := hlt 0 (by simp) (by omega)
      simp at h0
      simp only [lb, h0, if_true]
      congr 1
      apply ih
      · simpa using hm
      · intro j hj hjm
        have := hlt (j+1) (by simpa using hj) (by omega)
        simpa using this
      · intro h
        have := hge (by simpa using h)
        simpa using this

def Asc (xs : List Nat) : Prop := xs.Pairwise (· < ·)

theorem Asc.get_lt {xs : List Nat} (h : Asc xs) {i j : Nat} (hi : i < xs.length) (hj : j < xs.length) (hij : i < j) :
    xs[i] < xs[j] := (List.pairwise_iff_getElem.mp h) i j hi hj hij

theorem Asc.get_le {xs : List Nat} (h : Asc xs) {i j : Nat} (hi : i < xs.length) (hj : j < xs.length) (hij : i ≤ j) :
    xs[i] ≤ xs[j] := by
  rcases Nat.lt_or_eq_of_le hij with h1 | h1
  · exact Nat.le_of_lt (h.get_lt hi hj h1)
  · subst h1; exact Nat.le_refl _

/-- the loop invariant of the binary search gives the contract of `binary_search` -/
theorem binaryPos_spec (xs : List Nat) (b : Nat) (hs : Asc xs) (f lo hi : Nat)
    (hf : hi - lo < f) (hlh : lo ≤ hi) (hhi : hi ≤ xs.length)
    (hlo : ∀ j (h : j < xs.length), j < lo → xs[j] < b)
    (hup : ∀ j (h : j < xs.length), hi ≤ j → b < xs[j]) :
    binaryPos xs b f lo hi = if xs[lb b xs]? = some b then .found (lb b xs) else .absent (lb b xs) := by
  induction f generalizing lo hi with
  | zero => omega
  | succ f ih =>
    unfold binaryPos
    by_cases hlt : lo < hi
    · simp only [hlt, if_true]
      have hmid : lo + (hi - lo) / 2 < hi := by omega
      have hmid2 : lo ≤ lo + (hi - lo) / 2 := by omega
      generalize lo + (hi - lo) / 2 = mid at hmid hmid2
      have hml : mid < xs.length := by omega
      simp only [List.getElem?_eq_getElem hml]
      by_cases h1 : xs[mid] = b
      · have : lb b xs = mid := by
          apply lb_unique _ _ _ (by omega)
          · intro j hj hjm; rw [← h1]; exact hs.get_lt hj hml hjm
          · intro _; omega
        simp [h1, this, List.getElem?_eq_getElem hml]
      · by_cases h2 : xs[mid] < b
        · simp only [h1, h2, if_false, if_true]
          apply ih (mid+1) hi (by omega) (by omega) hhi
          · intro j hj hjm
            have := hs.get_le hj hml (by omega)
            omega
          · exact hup
        · simp only [h1, h2, if_false]
          apply ih lo mid (by omega) (by omega) (by omega) hlo
          intro j hj hjm
          have := hs.get_le hml hj hjm
          omega
    · have : lo = hi := by omega
      subst this
      have hl : lb b xs = lo := by
        apply lb_unique _ _ _ hhi hlo
        intro h; have := hup lo h (Nat.le_refl _); omega
      simp only [hlt, if_false, hl]
      split
      · rename_i h
        exfalso
        by_cases hl2 : lo < xs.length
        · rw [List.getElem?_eq_getElem hl2] at h
          have := hup lo hl2 (Nat.le_refl _)
          simp at h; omega
        · simp [List.getElem?_eq_none (by omega : xs.length ≤ lo)] at h
      · rfl

/-- both branches of `find_edge_pos` agree on every strictly ascending slice, whatever the cut-off -/
theorem searchPos_eq_linear (c : Nat) (xs : List Nat) (b : Nat) (hs : Asc xs) :
    searchPos c xs b = linearPos b xs 0 := by
  unfold searchPos
  split
  · rfl
  · rw [binaryPos_spec xs b hs _ 0 xs.length (by omega) (by omega) (Nat.le_refl _) (by intro j _ h; omega)
      (by intro j h h2; omega), linearPos_eq]
    simp

end PetgraphModel.CsrProofs
