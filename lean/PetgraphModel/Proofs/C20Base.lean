import PetgraphModel.Oracle.C20Judge
/-
C20 — helper lemmas: enumerator soundness/completeness, `Reach1` decompositions, the `reach1B`
oracle, symmetry/transitivity of `Reach`.
-/
namespace PetgraphModel.C20
open PetgraphModel PetgraphModel.MGraph PetgraphModel.Oracle

/-! ### the clause combinator -/

theorem firstFail_none {l : List Clause} (h : firstFail l = none) : ∀ c ∈ l, c.ok () = true := by
  induction l with
  | nil => intro c hc; cases hc
  | cons c t ih =>
    unfold firstFail at h
    split at h
    · rename_i hc
      intro c' hc'
      cases List.mem_cons.mp hc' with
      | inl e => exact e ▸ hc
      | inr e => exact ih h c' e
    · simp at h

/-- a clause of an accepted list holds -/
theorem clause_holds {l : List Clause} (h : firstFail l = none) {p : Prop} [Decidable p] {why : Unit → String}
    (hm : clause p why ∈ l) : p := by
  have := firstFail_none h _ hm
  simpa [clause] using this

/-- membership of the `n`-th literal element -/
syntax "mem_lit" : tactic
macro_rules
  | `(tactic| mem_lit) => `(tactic| first | exact List.mem_cons_self | (apply List.mem_cons_of_mem; mem_lit))

/-! ### enumerators -/

theorem mem_subsets {α : Type} {s l : List α} : s ∈ subsets l ↔ s.Sublist l := by
  induction l generalizing s with
  | nil => simp [subsets]
  | cons x xs ih =>
    simp only [subsets, List.mem_append, List.mem_map, ih, List.sublist_cons_iff]
    constructor
    · rintro (h | ⟨t, ht, rfl⟩)
      · exact Or.inl h
      · exact Or.inr ⟨t, rfl, ht⟩
    · rintro (h | ⟨t, rfl, ht⟩)
      · exact Or.inl h
      · exact Or.inr ⟨t, ht, rfl⟩

/-- completeness of `seqs`: every duplicate-free sequence over the pool is enumerated -/
theorem mem_seqs_of_nodup : ∀ (f : Nat) (pool s : List Nat), s.Nodup → (∀ x ∈ s, x ∈ pool) →
    pool.length ≤ f → s ∈ seqs f pool := by
  intro f
  induction f with
  | zero =>
    intro pool s _ hs hl
    have : pool = [] := List.eq_nil_of_length_eq_zero (by omega)
    subst this
    cases s with
    | nil => simp [seqs]
    | cons x t => exact absurd (hs x (by simp)) (by simp)
  | succ f ih =>
    intro pool s hn hs hl
    cases s with
    | nil => simp [seqs]
    | cons x t =>
      have hx : x ∈ pool := hs x (by simp)
      have hn' := List.nodup_cons.mp hn
      simp only [seqs, List.mem_cons, List.mem_flatMap, List.mem_map]
      refine Or.inr ⟨x, hx, t, ?_, rfl⟩
      apply ih _ _ hn'.2
      · intro y hy
        have hyx : y ≠ x := fun h => hn'.1 (h ▸ hy)
        exact (List.mem_erase_of_ne hyx).mpr (hs y (by simp [hy]))
      · have := List.length_erase_of_mem hx
        omega

/-! ### reachability -/

theorem reach_trans {g : MGraph} {a b c : Nat} (h1 : Reach g a b) (h2 : Reach g b c) : Reach g a c := by
  induction h2 with
  | refl => exact h1
  | step _ hadj ih => exact Reach.step ih hadj

theorem adj_symm_undirected {g : MGraph} (hd : g.directed = false) {a b : Nat} (h : g.Adj a b) : g.Adj b a := by
  obtain ⟨e, he, h⟩ := h
  refine ⟨e, he, ?_⟩
  rcases h with ⟨h1, h2⟩ | ⟨_, h1, h2⟩
  · exact Or.inr ⟨hd, h1, h2⟩
  · exact Or.inl ⟨h1, h2⟩

theorem reach_symm_undirected {g : MGraph} (hd : g.directed = false) {a b : Nat} (h : Reach g a b) : Reach g b a := by
  induction h with
  | refl => exact Reach.refl _
  | step _ hadj ih =>
    exact reach_trans (Reach.step (Reach.refl _) (adj_symm_undirected hd hadj)) ih

theorem reach1_head {g : MGraph} {a b : Nat} (h : Reach1 g a b) : ∃ w, g.Adj a w ∧ Reach g w b := by
  induction h with
  | single hadj => exact ⟨_, hadj, Reach.refl _⟩
  | step _ hadj ih =>
    obtain ⟨w, hw, hr⟩ := ih
    exact ⟨w, hw, Reach.step hr hadj⟩

theorem reach1_of_adj_reach {g : MGraph} {a w b : Nat} (h1 : g.Adj a w) (h2 : Reach g w b) : Reach1 g a b := by
  induction h2 with
  | refl => exact Reach1.single h1
  | step _ hadj ih => exact Reach1.step ih hadj

theorem reach1_trans {g : MGraph} {a b c : Nat} (h1 : Reach1 g a b) (h2 : Reach1 g b c) : Reach1 g a c := by
  induction h2 with
  | single hadj => exact Reach1.step h1 hadj
  | step _ hadj ih => exact Reach1.step ih hadj

theorem reach1_to_reach {g : MGraph} {a b : Nat} (h : Reach1 g a b) : Reach g a b := by
  induction h with
  | single hadj => exact Reach.step (Reach.refl _) hadj
  | step _ hadj ih => exact Reach.step ih hadj

/-- in a graph whose edges join listed nodes, both ends of a non-empty walk are listed -/
theorem adj_nodes {g : MGraph} (hg : EndpointsOk g) {a b : Nat} (h : g.Adj a b) : a ∈ g.nodes ∧ b ∈ g.nodes := by
  obtain ⟨e, he, h⟩ := h
  have := hg e he
  rcases h with ⟨h1, h2⟩ | ⟨_, h1, h2⟩
  · exact ⟨h1 ▸ this.1, h2 ▸ this.2⟩
  · exact ⟨h2 ▸ this.2, h1 ▸ this.1⟩

theorem reach1_nodes {g : MGraph} (hg : EndpointsOk g) {a b : Nat} (h : Reach1 g a b) : a ∈ g.nodes ∧ b ∈ g.nodes := by
  induction h with
  | single hadj => exact adj_nodes hg hadj
  | step _ hadj ih => exact ⟨ih.1, (adj_nodes hg hadj).2⟩

/-- the `Reach1` oracle is exact whenever it answers -/
theorem reach1B_spec {g : MGraph} {u v : Nat} {r : Bool} (h : reach1B g u v = some r) :
    r = true ↔ Reach1 g u v := by
  unfold reach1B at h
  split at h
  · rename_i hall
    simp only [Option.some.injEq] at h
    subst h
    rw [List.any_eq_true]
    constructor
    · rintro ⟨w, hw, hc⟩
      have hsome := List.all_eq_true.mp hall w hw
      cases hr : reachFrom g w with
      | none => simp [hr] at hsome
      | some l =>
        simp [hr] at hc
        exact reach1_of_adj_reach (MGraph.mem_succ.mp hw) ((reachFrom_spec g w l hr).2 v |>.mp hc)
    · intro h1
      obtain ⟨w, hw, hr⟩ := reach1_head h1
      refine ⟨w, MGraph.mem_succ.mpr hw, ?_⟩
      have hsome := List.all_eq_true.mp hall w (MGraph.mem_succ.mpr hw)
      cases hrf : reachFrom g w with
      | none => simp [hrf] at hsome
      | some l =>
        simp
        exact (reachFrom_spec g w l hrf).2 v |>.mpr hr
  · simp at h

end PetgraphModel.C20
