import PetgraphModel.Model.C18Views
import PetgraphModel.Spec.VisitSpec
import PetgraphModel.Proofs.Graph6
import PetgraphModel.Proofs.VisitTable
/-
C18 (wave 5) — the encoder over a table of `visit`-trait answers, generically:

* `graph6OfTable_spec`: for a table whose `is_adjacent` clause holds (`adjOk`, the C06 clause) and whose query nodes are
  its own `node_identifiers`, `get_graph6_representation` is the format's encoding of the abstract graph `abs t` in
  node-iteration order (panic beyond 258047 nodes);
* `Built`: what `from_graph6_string` must have built, as a statement about the table of the result;
* `graph6OfTable_built`: re-encoding such a result gives the format's string of the decoded graph.
-/
namespace PetgraphModel.G6V
open PetgraphModel PetgraphModel.Visit PetgraphModel.G6P

theorem expAdj_iff' (dir : Bool) (er : List Visit.ERef) (a b : Nat) :
    expAdj dir er a b = true ↔ ∃ e ∈ er, (e.src = a ∧ e.tgt = b) ∨ (dir = false ∧ e.src = b ∧ e.tgt = a) := by
  simp only [expAdj, List.any_eq_true]
  constructor
  · rintro ⟨e, he, h⟩
    refine ⟨e, he, ?_⟩
    cases dir <;> simp_all
  · rintro ⟨e, he, h⟩
    refine ⟨e, he, ?_⟩
    cases dir <;> simp_all

theorem getD_mem {l : List Nat} {p : Nat} (hp : p < l.length) : l.getD p 0 ∈ l := by
  rw [List.getD_eq_getElem?_getD, List.getElem?_eq_getElem hp]
  exact List.getElem_mem hp

/-- the encoder over a table: where the `is_adjacent` clause of C06 holds, the string is the format's encoding of the
abstract graph in node-iteration order; more than 258047 nodes: the documented panic. -/
theorem graph6OfTable_spec (t : Table) (ids : List Nat) (er : List Visit.ERef) (r : Rows Nat)
    (hids : t.ids = some ids) (her : t.erefs = some er) (hr : t.adj = some r) (hadj : adjOk ids t) :
    graph6OfTable t =
      if ids.length ≤ 258047 then some ((Spec.Graph6.graph6 ids.length (absAdj t)).map Char.ofNat) else none := by
  unfold graph6OfTable
  rw [hids, hr]
  simp only
  have hcongr := encode_congr ids.length (tableAdj ids r) (absAdj t) (by
    intro p q hpq hq
    have hp : p < ids.length := by omega
    have h := (hadj er her r hr).2 _ (getD_mem hp) _ (getD_mem hq)
    unfold tableAdj absAdj
    rw [hids, her]
    simp only [Option.getD_some]
    rw [Bool.eq_iff_iff, List.contains_iff_mem, h])
  rw [hcongr, encode_spec]
  rfl

/-- what `from_graph6_string` must have built, read off the table of the result: an undirected view whose
`node_identifiers` are `0, 1, …, n-1` in this order, `node_count = n`, `edge_count` = the number of decoded edges, and
whose `edge_references` are exactly the decoded pairs as unordered pairs — each referenced `mult` times (`mult = 1`;
`2` for `Csr<Undirected>`, whose `edge_references` lists every edge once per direction: open finding D7 of C06). -/
structure Built (mult : Nat) (t : Table) (n : Nat) (es : List (Nat × Nat)) : Prop where
  undirected : t.directed = false
  ids : t.ids = some (List.range n)
  nodeCount : t.nodeCount = some n
  edgeCount : t.edgeCount = some es.length
  refs : ∃ er, t.erefs = some er ∧
    (er.map fun e => (min e.src e.tgt, max e.src e.tgt)).Perm (es.flatMap fun e => List.replicate mult e)

theorem mem_flatMap_replicate {α : Type} (l : List α) (k : Nat) (hk : 0 < k) (x : α) :
    x ∈ l.flatMap (fun e => List.replicate k e) ↔ x ∈ l := by
  simp only [List.mem_flatMap, List.mem_replicate]
  constructor
  · rintro ⟨e, he, _, rfl⟩; exact he
  · intro h; exact ⟨x, h, by omega, rfl⟩

/-- the adjacency of a built graph is that of the decoded edge list -/
theorem Built.adjacency {mult : Nat} {t : Table} {n : Nat} {es : List (Nat × Nat)} (h : Built mult t n es)
    (hm : 0 < mult) (hes : ∀ e ∈ es, e.1 < e.2) (a b : Nat) :
    expAdj false (t.erefs.getD []) a b = joined es a b := by
  obtain ⟨er, her, hp⟩ := h.refs
  rw [her, Option.getD_some, Bool.eq_iff_iff, expAdj_iff', joined_iff]
  constructor
  · rintro ⟨e, he, hab⟩
    have hmem : (min e.src e.tgt, max e.src e.tgt) ∈ es := by
      rw [← mem_flatMap_replicate es mult hm]
      exact hp.subset (List.mem_map.2 ⟨e, he, rfl⟩)
    have hlt := hes _ hmem
    simp only at hlt
    refine ⟨_, hmem, ?_⟩
    simp only
    rcases hab with ⟨h1, h2⟩ | ⟨_, h1, h2⟩ <;> subst h1 <;> subst h2
    · by_cases hc : e.src ≤ e.tgt
      · left; exact ⟨Nat.min_eq_left hc, Nat.max_eq_right hc⟩
      · right; exact ⟨Nat.min_eq_right (by omega), Nat.max_eq_left (by omega)⟩
    · by_cases hc : e.src ≤ e.tgt
      · right; exact ⟨Nat.min_eq_left hc, Nat.max_eq_right hc⟩
      · left; exact ⟨Nat.min_eq_right (by omega), Nat.max_eq_left (by omega)⟩
  · rintro ⟨e, he, hab⟩
    have hmem : e ∈ er.map fun e => (min e.src e.tgt, max e.src e.tgt) :=
      hp.symm.subset ((mem_flatMap_replicate es mult hm e).2 he)
    obtain ⟨x, hx, hxe⟩ := List.mem_map.1 hmem
    refine ⟨x, hx, ?_⟩
    have hlt := hes _ he
    have h1 : min x.src x.tgt = e.1 := congrArg Prod.fst hxe
    have h2 : max x.src x.tgt = e.2 := congrArg Prod.snd hxe
    by_cases hc : x.src ≤ x.tgt
    · rw [Nat.min_eq_left hc] at h1; rw [Nat.max_eq_right hc] at h2
      rcases hab with ⟨ha, hb⟩ | ⟨ha, hb⟩
      · left; omega
      · right; exact ⟨rfl, by omega, by omega⟩
    · rw [Nat.min_eq_right (by omega)] at h1; rw [Nat.max_eq_left (by omega)] at h2
      rcases hab with ⟨ha, hb⟩ | ⟨ha, hb⟩
      · right; exact ⟨rfl, by omega, by omega⟩
      · left; omega

theorem getD_range (n p : Nat) (hp : p < n) : (List.range n).getD p 0 = p := by
  rw [List.getD_eq_getElem?_getD, List.getElem?_range hp]; rfl

/-- re-encoding what `from_graph6_string` built (any storage type whose `is_adjacent` clause holds) gives the
format's string of the decoded graph `(n, es)`. -/
theorem graph6OfTable_built {mult : Nat} (t : Table) (n : Nat) (es : List (Nat × Nat)) (r : Rows Nat)
    (h : Built mult t n es) (hm : 0 < mult) (hes : ∀ e ∈ es, e.1 < e.2) (hr : t.adj = some r)
    (hadj : adjOk (List.range n) t) (hn : n ≤ 258047) :
    graph6OfTable t = some ((Spec.Graph6.graph6 n (joined es)).map Char.ofNat) := by
  obtain ⟨er, her, _⟩ := h.refs
  rw [graph6OfTable_spec t (List.range n) er r h.ids her hr hadj, List.length_range, if_pos hn]
  have := encode_congr n (absAdj t) (joined es) (by
    intro p q hpq hq
    unfold absAdj
    rw [h.ids, h.undirected]
    simp only [Option.getD_some]
    rw [getD_range n p (by omega), getD_range n q hq]
    exact h.adjacency hm hes p q)
  rw [encode_spec, encode_spec, if_pos (show n ≤ G6.maxOrder from hn), if_pos (show n ≤ G6.maxOrder from hn)] at this
  exact this

/-- for the edge list of a graph given by an adjacency predicate, `joined` is that predicate on the pairs the
encoder reads -/
theorem joined_edges (n : Nat) (adj : Nat → Nat → Bool) (p q : Nat) (hpq : p < q) (hq : q < n) :
    joined (Spec.Graph6.edges n adj) p q = adj p q := by
  rw [Bool.eq_iff_iff, joined_iff]
  constructor
  · rintro ⟨e, he, hab⟩
    rw [show e = (e.1, e.2) from rfl, mem_edges] at he
    rcases hab with ⟨h1, h2⟩ | ⟨h1, h2⟩
    · rw [← h1, ← h2]; exact he.2.2
    · omega
  · intro h
    exact ⟨(p, q), (mem_edges n adj p q).2 ⟨hpq, hq, h⟩, Or.inl ⟨rfl, rfl⟩⟩

/-- … hence the format's string of the decoded edge list of `adj` is the format's string of `adj` -/
theorem graph6_joined_edges (n : Nat) (adj : Nat → Nat → Bool) :
    Spec.Graph6.graph6 n (joined (Spec.Graph6.edges n adj)) = Spec.Graph6.graph6 n adj := by
  unfold Spec.Graph6.graph6 Spec.Graph6.x
  congr 2
  apply List.map_congr_left
  rintro ⟨p, q⟩ hp
  rw [mem_pairs] at hp
  exact joined_edges n adj p q hp.1 hp.2

end PetgraphModel.G6V
