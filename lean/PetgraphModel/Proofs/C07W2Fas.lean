import PetgraphModel.Proofs.C07W2Base
import PetgraphModel.Oracle.C20Judge
/-
C07, wave 2 — feedback arc sets (C20) under an injective relabeling: "removing the arcs with these
ids leaves no cycle" is carried along, because relabeling keeps the edge ids.
-/
namespace PetgraphModel.C07W2
open PetgraphModel PetgraphModel.MGraph PetgraphModel.C20

/-- the two graphs have the same edge records (ids, endpoints, weights), in any order/multiplicity -/
def SameEdgeSet (g1 g2 : MGraph) : Prop := ∀ e, e ∈ g1.edges ↔ e ∈ g2.edges

theorem sameAdj_of_edgeSet {g1 g2 : MGraph} (hd : g1.directed = g2.directed) (h : SameEdgeSet g1 g2) :
    SameAdj g1 g2 := by
  intro a b
  unfold MGraph.Adj
  rw [hd]
  constructor
  · rintro ⟨e, he, hor⟩; exact ⟨e, (h e).mp he, hor⟩
  · rintro ⟨e, he, hor⟩; exact ⟨e, (h e).mpr he, hor⟩

theorem SameEdgeSet.removeEdges {g1 g2 : MGraph} (h : SameEdgeSet g1 g2) (ids : List Nat) :
    SameEdgeSet (removeEdges g1 ids) (removeEdges g2 ids) := by
  intro e
  unfold C20.removeEdges
  simp only [List.mem_filter]
  rw [h e]

theorem removeEdges_relabel (φ : Nat → Nat) (g : MGraph) (ids : List Nat) :
    removeEdges (relabel φ g) ids = relabel φ (removeEdges g ids) := by
  unfold C20.removeEdges relabel C13.relabel
  simp only [List.filter_map]
  rfl

theorem acyclic_relabel {φ : Nat → Nat} (hφ : Inj φ) {g : MGraph} (h : ∀ x, ¬ Reach1 g x x) :
    ∀ x', ¬ Reach1 (relabel φ g) x' x' := by
  intro x' hx'
  obtain ⟨x, rfl⟩ := reach1_relabel_start φ g hx'
  exact h x ((reach1_relabel_iff g hφ).mp hx')

/-- **a feedback arc set of `g1` (as a set of edge ids) is a feedback arc set of every presentation of
the relabeled graph with the same edge records** -/
theorem fas_transport {φ : Nat → Nat} (hφ : Inj φ) {g1 g2 : MGraph} (hd : g2.directed = g1.directed)
    (hg : SameEdgeSet g2 (relabel φ g1)) (ids : List Nat) (h : ∀ x, ¬ Reach1 (removeEdges g1 ids) x x) :
    ∀ x', ¬ Reach1 (removeEdges g2 ids) x' x' := by
  have hs : SameAdj (removeEdges g2 ids) (relabel φ (removeEdges g1 ids)) := by
    rw [← removeEdges_relabel]
    exact sameAdj_of_edgeSet hd (hg.removeEdges ids)
  intro x' hx'
  exact acyclic_relabel hφ h x' ((reach1_congr hs).mp hx')

end PetgraphModel.C07W2
