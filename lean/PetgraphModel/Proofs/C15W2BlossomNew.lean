import PetgraphModel.Proofs.C15W2BlossomOld
/-
C15 wave 2 — blossom step, part 3: the path of a newly labelled vertex.
-/
namespace PetgraphModel.C15W2
open PetgraphModel PetgraphModel.C15 PetgraphModel.C15M PetgraphModel.C15P

theorem lastSnd_irrel : ∀ (l : PL) (w w' : Nat), l ≠ [] → lastSnd l w = lastSnd l w'
  | [], _, _, h => absurd rfl h
  | (_, _) :: _, _, _, _ => rfl

theorem Alt_lastSnd (μ : Nat → Option Nat) (J : Nat → Nat → Prop) :
    ∀ (l : PL) (z w : Nat), Alt μ J l z → l ≠ [] → J (lastSnd l w) z
  | [], _, _, _, h => absurd rfl h
  | [(p, q)], z, w, hA, _ => by simpa using hA.2.2.1
  | (p, q) :: b :: r, z, w, hA, _ => by
    rw [lastSnd_cons]
    exact Alt_lastSnd μ J (b :: r) z q hA.2.2.2 (by simp)

theorem nodup_verts_revswap : ∀ (l : PL), (verts l).Nodup → (verts (revswap l)).Nodup
  | [], _ => by simp
  | (p, q) :: r, h => by
    simp only [verts_cons, List.nodup_cons, List.mem_cons, not_or] at h
    rw [revswap_cons, verts_append]
    refine List.nodup_append.mpr ⟨nodup_verts_revswap r h.2.2, ?_, ?_⟩
    · simp only [verts_cons, verts_nil, List.nodup_cons, List.mem_cons, List.not_mem_nil, or_false,
        not_false_eq_true, List.nodup_nil, and_true]
      exact fun e => h.1.1 e.symm
    · intro x hx y hy e
      subst e
      have hx' := (mem_verts_revswap r x).mp hx
      simp only [verts_cons, verts_nil, List.mem_cons, List.not_mem_nil, or_false] at hy
      rcases hy with e | e
      · exact h.2.1 (e ▸ hx')
      · exact h.1.2 (e ▸ hx')

theorem suffix_snoc {α : Type} (e : α) : ∀ (m1 l pre : List α), m1 ++ l = pre ++ [e] → l ≠ [] →
    ∃ l', l = l' ++ [e]
  | [], l, pre, h, _ => ⟨pre, h⟩
  | x :: m1, l, [], h, hl => by
    simp only [List.cons_append, List.nil_append, List.cons.injEq, List.append_eq_nil_iff] at h
    exact absurd h.2.2 hl
  | x :: m1, l, y :: pre, h, hl => by
    simp only [List.cons_append, List.cons.injEq] at h
    exact suffix_snoc e m1 l pre h.2 hl

/-- the first inner vertex of a piece that contains the inner vertex `x` lies at or before `x` -/
theorem fin_prefix (c : Ctx) (A : AS) (z0 x : Nat) (hx : A.out x = false) :
    ∀ (l' l'' : PL), ∃ u, u ∈ innerNodes A (l' ++ [(z0, x)]) ∧
      A.fin c (l' ++ (z0, x) :: l'') = c.v.toIndex u
  | [], l'' => ⟨x, by simp [innerNodes, hx], by simp [AS.fin, firstInner, hx]⟩
  | (p, q) :: r, l'' => by
    by_cases hq : A.out q = true
    · obtain ⟨u, h1, h2⟩ := fin_prefix c A z0 x hx r l''
      refine ⟨u, by simp [innerNodes, hq]; simpa using h1, ?_⟩
      unfold AS.fin at h2 ⊢
      simp [firstInner, hq, h2]
    · have hq' : A.out q = false := by simpa using hq
      exact ⟨q, by simp [innerNodes, hq'], by simp [AS.fin, firstInner, hq']⟩

section
variable {c : Ctx} {A A' : AS} {a b : Nat} {preA sufA preB sufB : PL} {join : Nat} {N : Nat → Prop}

/-- an old outer vertex before the new vertex `x` on `P a` has a new vertex as first inner vertex -/
theorem BD.F_before (hA : AInv c A) (D : BD c A a b preA sufA preB sufB join)
    {x z0 : Nat} {pre post : PL} (hpre : preA = pre ++ (z0, x) :: post) (hox : A.out x = false)
    {w : Nat} (hw : w ∈ verts (pre ++ [(z0, x)])) (how : A.out w = true) :
    ∃ u ∈ innerNodes A preA, A.F w = c.v.toIndex u := by
  have hpa := hA.path a D.ha D.hoa
  obtain ⟨p, q, hm, hwe⟩ := mem_verts_iff.mp hw
  obtain ⟨m1, m2, hsplit⟩ := mem_split hm
  have hPa : A.P a = m1 ++ (p, q) :: (m2 ++ post ++ sufA) := by
    rw [D.hPa, hpre]
    have : pre ++ (z0, x) :: post = (pre ++ [(z0, x)]) ++ post := by simp
    rw [this, hsplit]; simp
  obtain ⟨f1, f2⟩ := hpa.fi m1 p q (m2 ++ post ++ sufA) hPa
  have hsub : ∀ l', l' ++ [(z0, x)] = (p, q) :: m2 ∨ (∃ m2', l' ++ [(z0, x)] = m2 ∧ m2' = l') →
      ∀ u ∈ innerNodes A (l' ++ [(z0, x)]), u ∈ innerNodes A preA := by
    intro l' hl' u hu
    obtain ⟨⟨p', hp'⟩, h2⟩ := (mem_innerNodes A _ u).mp hu
    refine (mem_innerNodes A preA u).mpr ⟨⟨p', ?_⟩, h2⟩
    rw [hpre]
    have hin : (p', u) ∈ pre ++ [(z0, x)] := by
      rw [hsplit]
      rcases hl' with e | ⟨_, e, _⟩
      · rw [e] at hp'; exact List.mem_append_right _ hp'
      · rw [e] at hp'; exact List.mem_append_right _ (List.mem_cons_of_mem _ hp')
    cases List.mem_append.mp hin with
    | inl h => exact List.mem_append_left _ h
    | inr h => simp at h; rw [h.1, h.2]; simp
  cases hwe with
  | inl e =>
    -- `w` is the outer vertex of its pair
    obtain ⟨l', hl'⟩ := suffix_snoc (z0, x) m1 ((p, q) :: m2) pre hsplit.symm (by simp)
    obtain ⟨u, hu1, hu2⟩ := fin_prefix c A z0 x hox l' (post ++ sufA)
    refine ⟨u, hsub l' (Or.inl hl'.symm) u hu1, ?_⟩
    rw [e, f1, ← hu2]
    congr 1
    have : (p, q) :: (m2 ++ post ++ sufA) = ((p, q) :: m2) ++ (post ++ sufA) := by simp
    rw [this, hl']; simp
  | inr e =>
    -- `w` is the (outer) inner-position vertex of its pair: there is something after it
    have hoq : A.out q = true := e ▸ how
    have hm2 : m2 ≠ [] := by
      intro h
      rw [h] at hsplit
      have : (p, q) = (z0, x) := by
        have := congrArg List.getLast? hsplit
        simpa using this.symm
      have : q = x := (Prod.mk.inj this).2
      rw [this, hox] at hoq; cases hoq
    obtain ⟨l', hl'⟩ := suffix_snoc (z0, x) (m1 ++ [(p, q)]) m2 pre (by rw [hsplit]; simp) hm2
    obtain ⟨u, hu1, hu2⟩ := fin_prefix c A z0 x hox l' (post ++ sufA)
    refine ⟨u, hsub l' (Or.inr ⟨l', hl'.symm, rfl⟩) u hu1, ?_⟩
    rw [e, f2 hoq, ← hu2]
    congr 1
    rw [hl']; simp

/-- the part of `P a` up to the new vertex `x` does not meet `P b` -/
theorem BD.before_disjoint (hv : VHyp c.v c.mode) (hA : AInv c A) (D : BD c A a b preA sufA preB sufB join)
    {x z0 : Nat} {pre post : PL} (hpre : preA = pre ++ (z0, x) :: post) (hox : A.out x = false)
    {w : Nat} (hw : w ∈ verts (pre ++ [(z0, x)])) : w ∉ verts (A.P b) ∧ w ≠ c.sv := by
  have hpa := hA.path a D.ha D.hoa
  have hpb := hA.path b D.hb D.hob
  have hwa : w ∈ verts (A.P a) := by
    rw [D.hPa, hpre]
    have : pre ++ (z0, x) :: post = (pre ++ [(z0, x)]) ++ post := by simp
    rw [this, verts_append, verts_append]
    exact List.mem_append_left _ (List.mem_append_left _ hw)
  refine ⟨?_, fun e => disj_of_nodup_append hpa.nodup hwa (by simp [e])⟩
  intro hwb
  cases how : A.out w with
  | false =>
    -- a non-outer vertex is a new one
    obtain ⟨p, q, hm, hwe⟩ := mem_verts_iff.mp hw
    have hmA : (p, q) ∈ preA := by
      rw [hpre]
      cases List.mem_append.mp hm with
      | inl h => exact List.mem_append_left _ h
      | inr h => simp at h; rw [h.1, h.2]; simp
    have hq : w = q := by
      cases hwe with
      | inl e =>
        exfalso
        have := hpa.fstOuter p q (by rw [D.hPa]; exact List.mem_append_left _ hmA)
        rw [← e, how] at this; cases this
      | inr e => exact e
    exact D.newA_notin hA ((mem_innerNodes A preA w).mpr ⟨⟨p, hq ▸ hmA⟩, how⟩) hwb
  | true =>
    obtain ⟨u, hu, hF⟩ := D.F_before hA hpre hox hw how
    have hun := (D.newA_node hA hu).1
    -- the first inner vertex of `w` seen from `P b`
    obtain ⟨p', q', hm', hwe'⟩ := mem_verts_iff.mp hwb
    obtain ⟨n1, n2, hsplit⟩ := mem_split hm'
    obtain ⟨f1, f2⟩ := hpb.fi n1 p' q' n2 hsplit
    have key : ∀ l, (∀ pq ∈ l, pq ∈ A.P b) → A.F w = A.fin c l → False := by
      intro l hl hFl
      rcases fin_mem c A l with h | ⟨l1, p2, u2, rest, h1, _, h3, _⟩
      · rw [hF, h] at hFl
        exact hv.idx_ne_nb hun hFl
      · have hu2b : (p2, u2) ∈ A.P b := hl _ (by rw [h1]; simp)
        have hu2v := (mem_verts_of_mem hu2b).2
        rw [hF, h3] at hFl
        have : u = u2 := hv.ix.inj u hun u2 (hpb.mem u2 hu2v) hFl
        exact D.newA_notin hA hu (this ▸ hu2v)
    cases hwe' with
    | inl e =>
      apply key ((p', q') :: n2) _ (e ▸ f1)
      intro pq hpq; rw [hsplit]; exact List.mem_append_right _ hpq
    | inr e =>
      apply key n2 _ (e ▸ f2 (e ▸ how))
      intro pq hpq; rw [hsplit]; exact List.mem_append_right _ (List.mem_cons_of_mem _ hpq)

/-- in the new state everybody up to the new vertex `x` on `P a` has the join as first inner vertex -/
theorem BS.F'_before (hA : AInv c A) (D : BD c A a b preA sufA preB sufB join)
    (S : BS c A A' N preA preB join)
    {x z0 : Nat} {pre post : PL} (hpre : preA = pre ++ (z0, x) :: post) (hox : A.out x = false)
    {w : Nat} (hw : w ∈ verts (pre ++ [(z0, x)])) (hwn : w ∈ c.v.g.nodes) (how' : A'.out w = true) :
    A'.F w = join := by
  rcases (S.out' w hwn).mp how' with how | hnw
  · obtain ⟨u, hu, hF⟩ := D.F_before hA hpre hox hw how
    exact S.Fold1 w hwn how u ((S.hN u).mpr (Or.inl hu)) hF
  · exact S.Fnew w hnw

end

end PetgraphModel.C15W2
