import PetgraphModel.Proofs.C13W2Vec
/-
C13, wave 2 — a `Vf2State` as a function of the trail of mapped pairs.

`pop_mapping ∘ push_mapping = id` (exact restoration of the generation stamps and counters), the meaning of
the frontier vectors (`out[v] ≠ 0` iff `v` is an out-neighbour of a mapped node), the counters are the
cardinalities of the frontier sets.
-/
namespace PetgraphModel.C13.Vf2
open PetgraphModel

/-! ### projections of push / pop -/

theorem pushMapping_out_eq (g : CG) (s : St) (a b : Nat) :
    (pushMapping g s a b).out = (markAll (s.gen + 1) (g.outN a) s.out s.outSize).1 := rfl
theorem pushMapping_outSize_eq (g : CG) (s : St) (a b : Nat) :
    (pushMapping g s a b).outSize = (markAll (s.gen + 1) (g.outN a) s.out s.outSize).2 := rfl
theorem pushMapping_ins_eq (g : CG) (s : St) (a b : Nat) :
    (pushMapping g s a b).ins =
      if g.directed then (markAll (s.gen + 1) (g.inNb a) s.ins s.insSize).1 else s.ins := by
  unfold pushMapping; cases g.directed <;> rfl
theorem pushMapping_insSize_eq (g : CG) (s : St) (a b : Nat) :
    (pushMapping g s a b).insSize =
      if g.directed then (markAll (s.gen + 1) (g.inNb a) s.ins s.insSize).2 else s.insSize := by
  unfold pushMapping; cases g.directed <;> rfl
theorem popMapping_out_eq (g : CG) (s : St) (a : Nat) :
    (popMapping g s a).out = (unmarkAll s.gen (g.outN a) s.out s.outSize).1 := rfl
theorem popMapping_outSize_eq (g : CG) (s : St) (a : Nat) :
    (popMapping g s a).outSize = (unmarkAll s.gen (g.outN a) s.out s.outSize).2 := rfl
theorem popMapping_ins_eq (g : CG) (s : St) (a : Nat) :
    (popMapping g s a).ins = if g.directed then (unmarkAll s.gen (g.inNb a) s.ins s.insSize).1 else s.ins := by
  unfold popMapping; cases g.directed <;> rfl
theorem popMapping_insSize_eq (g : CG) (s : St) (a : Nat) :
    (popMapping g s a).insSize =
      if g.directed then (unmarkAll s.gen (g.inNb a) s.ins s.insSize).2 else s.insSize := by
  unfold popMapping; cases g.directed <;> rfl

theorem St.ext' {s t : St} (h1 : s.mapping = t.mapping) (h2 : s.out = t.out) (h3 : s.ins = t.ins)
    (h4 : s.outSize = t.outSize) (h5 : s.insSize = t.insSize) (h6 : s.gen = t.gen) : s = t := by
  cases s; cases t; simp only [St.mk.injEq]; exact ⟨h1, h2, h3, h4, h5, h6⟩

/-- in-neighbours are in range (directed graphs) -/
theorem CGOk.inLt {g : CG} (ok : CGOk g) (hd : g.directed = true) (i j : Nat) (h : j ∈ g.inNb i) :
    i < g.n ∧ j < g.n := by
  have := ok.outLt j i ((ok.dirIn hd j i).mp h)
  exact ⟨this.2, this.1⟩

/-! ### well-formed states -/

structure StOk (g : CG) (s : St) : Prop where
  lenM : s.mapping.length = g.n
  lenO : s.out.length = g.n
  lenI : g.directed = true → s.ins.length = g.n
  szO : s.outSize = cnt s.out
  szI : s.insSize = cnt s.ins
  leO : ∀ v, stamp s.out v ≤ s.gen
  leI : ∀ v, stamp s.ins v ≤ s.gen

theorem stamp_replicate (n v : Nat) : stamp (List.replicate n 0) v = 0 := by
  unfold stamp
  rw [List.getElem?_replicate]
  split <;> rfl

theorem cnt_replicate (n : Nat) : cnt (List.replicate n 0) = 0 := by
  unfold cnt
  rw [List.countP_replicate]
  simp

theorem StOk.new (g : CG) : StOk g (St.new g) := by
  refine ⟨?_, ?_, ?_, ?_, ?_, ?_, ?_⟩
  · simp [St.new]
  · simp [St.new]
  · intro hd; simp [St.new, hd]
  · simp only [St.new]; rw [cnt_replicate]
  · simp only [St.new]; rw [cnt_replicate]
  · intro v; simp only [St.new]; rw [stamp_replicate]; exact Nat.le_refl _
  · intro v; simp only [St.new]; rw [stamp_replicate]; exact Nat.le_refl _

theorem StOk.push {g : CG} (ok : CGOk g) {s : St} (h : StOk g s) (a b : Nat) :
    StOk g (pushMapping g s a b) := by
  have hg : 0 < s.gen + 1 := Nat.succ_pos _
  refine ⟨?_, ?_, ?_, ?_, ?_, ?_, ?_⟩
  · rw [pushMapping_mapping, List.length_set]; exact h.lenM
  · rw [pushMapping_out]; exact h.lenO
  · intro hd; rw [pushMapping_ins]; exact h.lenI hd
  · rw [pushMapping_outSize_eq, pushMapping_out_eq]
    exact markAll_cnt hg _ _ _ (fun x hx => by rw [h.lenO]; exact (ok.outLt a x hx).2) h.szO
  · rw [pushMapping_insSize_eq, pushMapping_ins_eq]
    cases hd : g.directed with
    | false => simpa using h.szI
    | true =>
      simp only [if_true]
      exact markAll_cnt hg _ _ _ (fun x hx => by rw [h.lenI hd]; exact (ok.inLt hd a x hx).2) h.szI
  · intro v
    rw [pushMapping_out_eq, pushMapping_gen]
    exact markAll_le _ _ _ (fun w => Nat.le_succ_of_le (h.leO w)) v
  · intro v
    rw [pushMapping_ins_eq, pushMapping_gen]
    cases hd : g.directed with
    | false => simpa using Nat.le_succ_of_le (h.leI v)
    | true =>
      simp only [if_true]
      exact markAll_le _ _ _ (fun w => Nat.le_succ_of_le (h.leI w)) v

/-- `pop_mapping` undoes `push_mapping` exactly -/
theorem pop_push {g : CG} (ok : CGOk g) {s : St} (h : StOk g s) {a : Nat} (b : Nat)
    (ha : s.map a = none) (ha' : a < g.n) : popMapping g (pushMapping g s a b) a = s := by
  have hg : 0 < s.gen + 1 := Nat.succ_pos _
  have la : a < s.mapping.length := by rw [h.lenM]; exact ha'
  have eo := unmark_mark hg (g.outN a) s.out s.outSize
    (fun x hx => by rw [h.lenO]; exact (ok.outLt a x hx).2) h.szO (fun v => Nat.lt_succ_of_le (h.leO v))
  apply St.ext'
  · rw [popMapping_mapping, pushMapping_mapping, List.set_set]
    have := getElem_of_map_none ha la
    conv => rhs; rw [← List.set_getElem_self la]
    rw [this]
  · rw [popMapping_out_eq, pushMapping_gen, pushMapping_out_eq, pushMapping_outSize_eq, eo]
  · rw [popMapping_ins_eq, pushMapping_gen, pushMapping_ins_eq, pushMapping_insSize_eq]
    cases hd : g.directed with
    | false => simp
    | true =>
      simp only [if_true]
      rw [unmark_mark hg (g.inNb a) s.ins s.insSize
        (fun x hx => by rw [h.lenI hd]; exact (ok.inLt hd a x hx).2) h.szI (fun v => Nat.lt_succ_of_le (h.leI v))]
  · rw [popMapping_outSize_eq, pushMapping_gen, pushMapping_out_eq, pushMapping_outSize_eq, eo]
  · rw [popMapping_insSize_eq, pushMapping_gen, pushMapping_ins_eq, pushMapping_insSize_eq]
    cases hd : g.directed with
    | false => simp
    | true =>
      simp only [if_true]
      rw [unmark_mark hg (g.inNb a) s.ins s.insSize
        (fun x hx => by rw [h.lenI hd]; exact (ok.inLt hd a x hx).2) h.szI (fun v => Nat.lt_succ_of_le (h.leI v))]
  · rw [popMapping_gen, pushMapping_gen]; rfl

theorem push_out_pos {g : CG} (ok : CGOk g) {s : St} (h : StOk g s) (a b v : Nat) :
    0 < stamp (pushMapping g s a b).out v ↔ 0 < stamp s.out v ∨ v ∈ g.outN a := by
  rw [pushMapping_out_eq, markAll_stamp (Nat.succ_pos _)]
  constructor
  · intro hp
    split at hp
    · rename_i hc; exact Or.inr hc.2.1
    · exact Or.inl hp
  · rintro (hp | hv)
    · split
      · exact Nat.succ_pos _
      · exact hp
    · have hl : v < s.out.length := by rw [h.lenO]; exact (ok.outLt a v hv).2
      by_cases h0 : stamp s.out v = 0
      · simp [h0, hv, hl]
      · have : ¬ (stamp s.out v = 0 ∧ v ∈ g.outN a ∧ v < s.out.length) := fun hc => h0 hc.1
        simp only [this, if_false]
        exact Nat.pos_of_ne_zero h0

theorem push_ins_pos {g : CG} (ok : CGOk g) (hd : g.directed = true) {s : St} (h : StOk g s) (a b v : Nat) :
    0 < stamp (pushMapping g s a b).ins v ↔ 0 < stamp s.ins v ∨ v ∈ g.inNb a := by
  rw [pushMapping_ins_eq, hd]
  simp only [if_true]
  rw [markAll_stamp (Nat.succ_pos _)]
  constructor
  · intro hp
    split at hp
    · rename_i hc; exact Or.inr hc.2.1
    · exact Or.inl hp
  · rintro (hp | hv)
    · split
      · exact Nat.succ_pos _
      · exact hp
    · have hl : v < s.ins.length := by rw [h.lenI hd]; exact (ok.inLt hd a v hv).2
      by_cases h0 : stamp s.ins v = 0
      · simp [h0, hv, hl]
      · have : ¬ (stamp s.ins v = 0 ∧ v ∈ g.inNb a ∧ v < s.ins.length) := fun hc => h0 hc.1
        simp only [this, if_false]
        exact Nat.pos_of_ne_zero h0

/-! ### the state after pushing a trail of pairs (newest first) -/

def SG (g : CG) : List (Nat × Nat) → St
  | [] => St.new g
  | p :: tr => pushMapping g (SG g tr) p.1 p.2

theorem SG_ok {g : CG} (ok : CGOk g) (tr : List (Nat × Nat)) : StOk g (SG g tr) := by
  induction tr with
  | nil => exact StOk.new g
  | cons p tr ih => exact ih.push ok p.1 p.2

theorem SG_gen (g : CG) (tr : List (Nat × Nat)) : (SG g tr).gen = tr.length := by
  induction tr with
  | nil => rfl
  | cons p tr ih => simp only [SG, pushMapping_gen, ih, List.length_cons]

theorem SG_out_pos {g : CG} (ok : CGOk g) (tr : List (Nat × Nat)) (v : Nat) :
    0 < stamp (SG g tr).out v ↔ ∃ p ∈ tr, v ∈ g.outN p.1 := by
  induction tr with
  | nil => simp [SG, St.new, stamp_replicate]
  | cons p tr ih =>
    simp only [SG]
    rw [push_out_pos ok (SG_ok ok tr), ih]
    simp only [List.mem_cons, exists_eq_or_imp]
    exact Or.comm

theorem SG_ins_pos {g : CG} (ok : CGOk g) (hd : g.directed = true) (tr : List (Nat × Nat)) (v : Nat) :
    0 < stamp (SG g tr).ins v ↔ ∃ p ∈ tr, v ∈ g.inNb p.1 := by
  induction tr with
  | nil => simp [SG, St.new, stamp_replicate]
  | cons p tr ih =>
    simp only [SG]
    rw [push_ins_pos ok hd (SG_ok ok tr), ih]
    simp only [List.mem_cons, exists_eq_or_imp]
    exact Or.comm

theorem SG_map_mem (g : CG) (tr : List (Nat × Nat)) (i j : Nat) (h : (SG g tr).map i = some j) : (i, j) ∈ tr := by
  induction tr with
  | nil =>
    exfalso
    simp only [SG, St.map, St.new, List.getElem?_replicate] at h
    split at h <;> simp at h
  | cons p tr ih =>
    simp only [SG] at h
    rw [pushMapping_map] at h
    split at h
    · rename_i hc
      simp only [Option.some.injEq] at h
      rw [← hc.1, ← h]
      exact List.mem_cons_self
    · exact List.mem_cons_of_mem _ (ih h)

end PetgraphModel.C13.Vf2
