import PetgraphModel.Proofs.C15W5BergeBase
/-
C15 wave 5 — Berge's theorem, part 2 (easy direction): flipping a matching along an augmenting
path, two edges at a time.  Core Lean only.
-/
namespace PetgraphModel.C15W5
open PetgraphModel PetgraphModel.C15

theorem inM_cons {M : List (Nat × Nat)} {q : Nat × Nat} {x y : Nat} :
    InM (q :: M) x y ↔ (x = q.1 ∧ y = q.2) ∨ (x = q.2 ∧ y = q.1) ∨ InM M x y := by
  unfold InM
  simp only [List.mem_cons]
  constructor
  · rintro ((h | h) | (h | h))
    · left; rw [← h]; exact ⟨rfl, rfl⟩
    · right; right; left; exact h
    · right; left; rw [← h]; exact ⟨rfl, rfl⟩
    · right; right; right; exact h
  · rintro (⟨h1, h2⟩ | ⟨h1, h2⟩ | h | h)
    · left; left; rw [h1, h2]
    · right; left; rw [h1, h2]
    · left; right; exact h
    · right; right; exact h

theorem covered_cons {M : List (Nat × Nat)} {q : Nat × Nat} {x : Nat} :
    Covered (q :: M) x ↔ x = q.1 ∨ x = q.2 ∨ Covered M x := by
  unfold Covered
  constructor
  · rintro ⟨b, hb⟩
    rcases inM_cons.1 hb with h | h | h
    · exact Or.inl h.1
    · exact Or.inr (Or.inl h.1)
    · exact Or.inr (Or.inr ⟨b, h⟩)
  · rintro (h | h | ⟨b, h⟩)
    · exact ⟨q.2, inM_cons.2 (Or.inl ⟨h, rfl⟩)⟩
    · exact ⟨q.1, inM_cons.2 (Or.inr (Or.inl ⟨h, rfl⟩))⟩
    · exact ⟨b, inM_cons.2 (Or.inr (Or.inr h))⟩

/-- adding a pair of free joined nodes to a matching -/
theorem m_cons {g : MGraph} {M : List (Nat × Nat)} (hM : IsMatching g M) {a b : Nat}
    (hj : Joined g a b) (ha : ¬ Covered M a) (hb : ¬ Covered M b) : IsMatching g ((a, b) :: M) := by
  refine ⟨?_, List.pairwise_cons.2 ⟨?_, hM.2⟩⟩
  · intro p hp
    rcases List.mem_cons.1 hp with rfl | hp
    · exact hj
    · exact hM.1 p hp
  · intro q hq
    refine ⟨?_, ?_, ?_, ?_⟩
    · intro h; exact ha ⟨q.2, Or.inl (by rw [show a = q.1 from h]; exact hq)⟩
    · intro h; exact ha ⟨q.1, Or.inr (by rw [show a = q.2 from h]; exact hq)⟩
    · intro h; exact hb ⟨q.2, Or.inl (by rw [show b = q.1 from h]; exact hq)⟩
    · intro h; exact hb ⟨q.1, Or.inr (by rw [show b = q.2 from h]; exact hq)⟩

/-- erasing the pair `{b, c}` of a matching -/
theorem inM_erase_pair {g : MGraph} {M : List (Nat × Nat)} (hM : IsMatching g M) {e : Nat × Nat}
    (he : e ∈ M) {b c : Nat} (hbc : (e.1 = b ∧ e.2 = c) ∨ (e.1 = c ∧ e.2 = b)) {x y : Nat} :
    InM (M.erase e) x y ↔ InM M x y ∧ x ≠ b ∧ x ≠ c := by
  rw [m_inM_erase_iff hM he]
  rcases hbc with ⟨h1, h2⟩ | ⟨h1, h2⟩ <;> rw [h1, h2]
  constructor
  · rintro ⟨h, h3, h4⟩; exact ⟨h, h4, h3⟩
  · rintro ⟨h, h3, h4⟩; exact ⟨h, h4, h3⟩

theorem covered_erase_pair {g : MGraph} {M : List (Nat × Nat)} (hM : IsMatching g M)
    {e : Nat × Nat} (he : e ∈ M) {b c : Nat} (hbc : (e.1 = b ∧ e.2 = c) ∨ (e.1 = c ∧ e.2 = b))
    {x : Nat} : Covered (M.erase e) x ↔ Covered M x ∧ x ≠ b ∧ x ≠ c := by
  unfold Covered
  constructor
  · rintro ⟨y, hy⟩
    have := (inM_erase_pair hM he hbc).1 hy
    exact ⟨⟨y, this.1⟩, this.2⟩
  · rintro ⟨⟨y, hy⟩, h⟩
    exact ⟨y, (inM_erase_pair hM he hbc).2 ⟨hy, h⟩⟩

theorem augment_aux (g : MGraph) : ∀ (n : Nat) (M : List (Nat × Nat)) (p : List Nat),
    p.length ≤ n → IsMatching g M → AugPath g M p →
    ∃ N, IsMatching g N ∧ N.length = M.length + 1 ∧ (∀ a, Covered M a → Covered N a) ∧
      (∀ a, p.head? = some a → Covered N a) ∧ (∀ a, p.getLast? = some a → Covered N a) := by
  intro n
  induction n with
  | zero =>
    intro M p hn _ hp
    have := hp.two
    omega
  | succ n ih =>
    intro M p hn hM hp
    match p, hn, hp with
    | [], _, hp => exact absurd hp.two (by simp)
    | [_], _, hp => exact absurd hp.two (by simp)
    | [a, b], _, hp =>
      have halt := hp.alt
      simp only [AltFrom] at halt
      have ha : ¬ Covered M a := hp.headFree a rfl
      have hb : ¬ Covered M b := hp.lastFree b rfl
      refine ⟨(a, b) :: M, m_cons hM halt.1 ha hb, rfl, ?_, ?_, ?_⟩
      · intro x hx; exact covered_cons.2 (Or.inr (Or.inr hx))
      · intro x hx
        simp only [List.head?_cons, Option.some.injEq] at hx
        subst hx
        exact covered_cons.2 (Or.inl rfl)
      · intro x hx
        simp only [List.getLast?_cons_cons, List.getLast?_singleton, Option.some.injEq] at hx
        subst hx
        exact covered_cons.2 (Or.inr (Or.inl rfl))
    | [a, b, c], _, hp =>
      have halt := hp.alt
      simp only [AltFrom, Bool.not_false] at halt
      exact absurd (covered_of_inM' (halt.2.2.2.1.2 trivial)) (hp.lastFree c rfl)
    | a :: b :: c :: d :: r, hn, hp =>
      have halt := hp.alt
      simp only [AltFrom, Bool.not_false, Bool.not_true] at halt
      obtain ⟨hjab, -, hjbc, hbc, halt'⟩ := halt
      have hbc : InM M b c := hbc.2 trivial
      have hnd := hp.nodup
      simp only [List.nodup_cons, List.mem_cons, not_or] at hnd
      obtain ⟨⟨hab, hac, had, har⟩, ⟨hbc', hbd, hbr⟩, hnd'⟩ := hnd
      have ha : ¬ Covered M a := hp.headFree a rfl
      obtain ⟨e, he, hebc⟩ := exists_pair_of_inM hbc
      have hM0 : IsMatching g (M.erase e) := m_erase hM e
      have hI0 : ∀ {x y}, InM (M.erase e) x y ↔ InM M x y ∧ x ≠ b ∧ x ≠ c :=
        inM_erase_pair hM he hebc
      have hC0 : ∀ {x}, Covered (M.erase e) x ↔ Covered M x ∧ x ≠ b ∧ x ≠ c :=
        covered_erase_pair hM he hebc
      have hM1 : IsMatching g ((a, b) :: M.erase e) :=
        m_cons hM0 hjab (fun h => ha (hC0.1 h).1) (fun h => (hC0.1 h).2.1 rfl)
      have hmemq : ∀ x, x ∈ c :: d :: r → x ≠ a ∧ x ≠ b := by
        intro x hx
        simp only [List.mem_cons] at hx
        refine ⟨?_, ?_⟩
        · rintro rfl
          rcases hx with h | h | h
          · exact hac h
          · exact had h
          · exact har h
        · rintro rfl
          rcases hx with h | h | h
          · exact hbc' h
          · exact hbd h
          · exact hbr h
      have hp1 : AugPath g ((a, b) :: M.erase e) (c :: d :: r) := by
        refine ⟨?_, ?_, by simp, ?_, ?_⟩
        · simp only [List.nodup_cons, List.mem_cons, not_or]; exact hnd'
        · refine altFrom_transfer (fun _ _ h => h) _ _ ?_ halt'
          intro x y hx hy
          have hxab := hmemq x hx
          have hyab := hmemq y hy
          rw [inM_cons, hI0]
          constructor
          · intro h
            refine Or.inr (Or.inr ⟨h, hxab.2, ?_⟩)
            rintro rfl
            have := m_unique hM h (inM_symm hbc)
            exact hyab.2 this
          · rintro (⟨h, -⟩ | ⟨h, -⟩ | h)
            · exact absurd h hxab.1
            · exact absurd h hxab.2
            · exact h.1
        · intro x hx
          simp only [List.head?_cons, Option.some.injEq] at hx
          subst hx
          rw [covered_cons, hC0]
          rintro (h | h | h)
          · exact hac h.symm
          · exact hbc' h.symm
          · exact h.2.2 rfl
        · intro x hx
          have hx' : (a :: b :: c :: d :: r).getLast? = some x := by
            simpa only [List.getLast?_cons_cons] using hx
          have hfree := hp.lastFree x hx'
          have hxm : x ∈ c :: d :: r := List.mem_of_getLast? hx
          have hxab := hmemq x hxm
          rw [covered_cons, hC0]
          rintro (h | h | h)
          · exact hxab.1 h
          · exact hxab.2 h
          · exact hfree h.1
      obtain ⟨N, hN, hlen, hcov, hhead, hlast⟩ :=
        ih ((a, b) :: M.erase e) (c :: d :: r) (by simp at hn ⊢; omega) hM1 hp1
      refine ⟨N, hN, ?_, ?_, ?_, ?_⟩
      · rw [hlen, List.length_cons, length_erase_add_one he]
      · intro x hx
        by_cases hxb : x = b
        · subst hxb; exact hcov _ (covered_cons.2 (Or.inr (Or.inl rfl)))
        · by_cases hxc : x = c
          · subst hxc; exact hhead _ rfl
          · exact hcov _ (covered_cons.2 (Or.inr (Or.inr (hC0.2 ⟨hx, hxb, hxc⟩))))
      · intro x hx
        simp only [List.head?_cons, Option.some.injEq] at hx
        subst hx
        exact hcov _ (covered_cons.2 (Or.inl rfl))
      · intro x hx
        apply hlast
        simpa only [List.getLast?_cons_cons] using hx

/-- T1 (easy direction, constructive): flipping an augmenting path gives a matching with one more
pair that covers everything `M` covers and both ends of the path -/
theorem augment_exists (g : MGraph) (M : List (Nat × Nat)) (p : List Nat) (hM : IsMatching g M)
    (hp : AugPath g M p) :
    ∃ N, IsMatching g N ∧ N.length = M.length + 1 ∧ (∀ a, Covered M a → Covered N a) ∧
      (∀ a, p.head? = some a → Covered N a) ∧ (∀ a, p.getLast? = some a → Covered N a) :=
  augment_aux g p.length M p (Nat.le_refl _) hM hp

end PetgraphModel.C15W5
