import PetgraphModel.Model.VisitTable
import PetgraphModel.Spec.VisitSpec
/-
Helper lemmas for Theorems/C06.lean: list-level facts about the documented iterator conventions
(`expOut`, `expIn`, `expAdj`) under reversal, node filtering, edge filtering and symmetrisation, and the
plumbing for `Rows` / `whenSome`.
-/
namespace PetgraphModel.Visit

/-! ### plumbing -/

theorem whenSome_none {α : Type} (P : α → Prop) : whenSome (none : Option α) P := by
  intro x h; cases h

theorem whenSome_some {α : Type} (x : α) (P : α → Prop) : whenSome (some x) P ↔ P x :=
  ⟨fun h => h x rfl, fun h y hy => by cases hy; exact h⟩

theorem whenSome_map {α β : Type} (o : Option α) (f : α → β) (P : β → Prop) :
    whenSome (o.map f) P ↔ whenSome o (fun x => P (f x)) := by
  cases o with
  | none => simp [whenSome]
  | some x => simp [whenSome]

theorem whenSome_mono {α : Type} {o : Option α} {P Q : α → Prop} (h : whenSome o P) (hpq : ∀ x, P x → Q x) :
    whenSome o Q := fun x hx => hpq x (h x hx)

theorem lookup_mapRows {α β : Type} (f : Nat → List α → List β) (r : Rows α) (a : Nat) :
    (mapRows f r).lookup a = (r.lookup a).map (f a) := by
  induction r with
  | nil => simp [mapRows]
  | cons x r ih =>
    obtain ⟨k, l⟩ := x
    simp only [mapRows, List.map_cons, List.lookup_cons] at ih ⊢
    by_cases h : a == k
    · have : a = k := by simpa using h
      subst this; simp
    · simp [h]; exact ih

theorem keys_mapRows {α β : Type} (f : Nat → List α → List β) (r : Rows α) :
    (mapRows f r).map (·.1) = r.map (·.1) := by
  simp [mapRows, List.map_map, Function.comp_def]

theorem lookup_isSome_of_mem_keys {α : Type} (r : Rows α) (a : Nat) (h : a ∈ r.map (·.1)) :
    ∃ l, r.lookup a = some l := by
  induction r with
  | nil => simp at h
  | cons x r ih =>
    obtain ⟨k, l⟩ := x
    simp only [List.lookup_cons]
    by_cases hx : a == k
    · simp [hx]
    · simp only [hx]
      have : a ≠ k := by simpa using hx
      simp only [List.map_cons, List.mem_cons] at h
      rcases h with h | h
      · exact absurd h this
      · exact ih h

theorem rowOf_mapRows {α β : Type} (f : Nat → List α → List β) (r : Rows α) (a : Nat)
    (h : a ∈ r.map (·.1)) : rowOf (mapRows f r) a = f a (rowOf r a) := by
  obtain ⟨l, hl⟩ := lookup_isSome_of_mem_keys r a h
  simp [rowOf, lookup_mapRows, hl]

/-- rows transformed row by row still match, if the row transformer respects the prescriptions -/
theorem rowsMatch_mapRows {α β : Type} {qs : List Nat} {r : Rows α} {f : Nat → List α} {g : Nat → List α → List β}
    {f' : Nat → List β} (h : rowsMatch qs r f)
    (hg : ∀ a ∈ qs, ∀ l, l.Perm (f a) → (g a l).Perm (f' a)) : rowsMatch qs (mapRows g r) f' := by
  refine ⟨by rw [keys_mapRows]; exact h.1, fun a ha => ?_⟩
  rw [rowOf_mapRows g r a (by rw [h.1]; exact ha)]
  exact hg a ha _ (h.2 a ha)

theorem rowsMatch_congr {α : Type} {qs : List Nat} {r : Rows α} {f f' : Nat → List α}
    (h : rowsMatch qs r f) (hf : ∀ a ∈ qs, (f a).Perm (f' a)) : rowsMatch qs r f' :=
  ⟨h.1, fun a ha => (h.2 a ha).trans (hf a ha)⟩

/-! ### edge references -/

@[simp] theorem swap_src (e : ERef) : e.swap.src = e.tgt := rfl
@[simp] theorem swap_tgt (e : ERef) : e.swap.tgt = e.src := rfl
@[simp] theorem swap_id (e : ERef) : e.swap.id = e.id := rfl
@[simp] theorem swap_w (e : ERef) : e.swap.w = e.w := rfl
@[simp] theorem swap_swap (e : ERef) : e.swap.swap = e := by cases e; rfl

@[simp] theorem incident_swap (a : Nat) (e : ERef) : incident a e.swap = incident a e := by
  simp [incident, Bool.or_comm]

theorem orientIn_swap (a : Nat) (e : ERef) : (orientIn a e).swap = orientOut a e.swap := by
  unfold orientIn orientOut
  by_cases h : e.tgt = a <;> simp [h]

theorem orientOut_swap (a : Nat) (e : ERef) : (orientOut a e).swap = orientIn a e.swap := by
  unfold orientIn orientOut
  by_cases h : e.src = a <;> simp [h]

/-- reversal exchanges the two conventions -/
theorem expIn_map_swap (dir : Bool) (er : List ERef) (a : Nat) :
    (expIn dir er a).map ERef.swap = expOut dir (er.map ERef.swap) a := by
  cases dir
  · simp only [expIn, expOut, Bool.false_eq_true, if_false, List.filter_map, List.map_map]
    have : (incident a ∘ ERef.swap) = incident a := by funext e; simp
    rw [this]
    apply List.map_congr_left
    intro e _; simp [orientIn_swap]
  · simp only [expIn, expOut, if_true, List.filter_map]
    congr 1

theorem expOut_map_swap (dir : Bool) (er : List ERef) (a : Nat) :
    (expOut dir er a).map ERef.swap = expIn dir (er.map ERef.swap) a := by
  cases dir
  · simp only [expIn, expOut, Bool.false_eq_true, if_false, List.filter_map, List.map_map]
    have : (incident a ∘ ERef.swap) = incident a := by funext e; simp
    rw [this]
    apply List.map_congr_left
    intro e _; simp [orientOut_swap]
  · simp only [expIn, expOut, if_true, List.filter_map]
    congr 1

theorem expAdj_map_swap (dir : Bool) (er : List ERef) (a b : Nat) :
    expAdj dir (er.map ERef.swap) a b = expAdj dir er b a := by
  simp only [expAdj, List.any_map]
  congr 1
  funext e
  cases dir <;> simp [Bool.and_comm, Bool.or_comm]

/-- every reference of `expOut … a` has `a` as its source -/
theorem src_of_mem_expOut {dir : Bool} {er : List ERef} {a : Nat} {e : ERef} (h : e ∈ expOut dir er a) : e.src = a := by
  cases dir
  · simp only [expOut, Bool.false_eq_true, if_false, List.mem_map, List.mem_filter] at h
    obtain ⟨e0, ⟨_, hinc⟩, rfl⟩ := h
    unfold orientOut
    by_cases hs : e0.src = a
    · simp [hs]
    · simp only [hs, if_false, swap_src]
      simp only [incident, Bool.or_eq_true, beq_iff_eq] at hinc
      rcases hinc with h | h
      · exact absurd h hs
      · exact h
  · simp only [expOut, if_true, List.mem_filter, beq_iff_eq] at h
    exact h.2

theorem tgt_of_mem_expIn {dir : Bool} {er : List ERef} {a : Nat} {e : ERef} (h : e ∈ expIn dir er a) : e.tgt = a := by
  cases dir
  · simp only [expIn, Bool.false_eq_true, if_false, List.mem_map, List.mem_filter] at h
    obtain ⟨e0, ⟨_, hinc⟩, rfl⟩ := h
    unfold orientIn
    by_cases hs : e0.tgt = a
    · simp [hs]
    · simp only [hs, if_false, swap_tgt]
      simp only [incident, Bool.or_eq_true, beq_iff_eq] at hinc
      rcases hinc with h | h
      · exact h
      · exact absurd h hs
  · simp only [expIn, if_true, List.mem_filter, beq_iff_eq] at h
    exact h.2

/-! ### Reversed -/


theorem whenSome_mono2 {α β : Type} {o1 : Option α} {o2 : Option β} {P Q : α → β → Prop}
    (h : whenSome o1 fun x => whenSome o2 (P x)) (hpq : ∀ x y, P x y → Q x y) :
    whenSome o1 fun x => whenSome o2 (Q x) :=
  fun x hx y hy => hpq x y (h x hx y hy)

theorem lookup_tabulate {β : Type} (ks : List Nat) (g : Nat → β) (a : Nat) (h : a ∈ ks) :
    (ks.map fun k => (k, g k)).lookup a = some (g a) := by
  induction ks with
  | nil => simp at h
  | cons k ks ih =>
    simp only [List.map_cons, List.lookup_cons]
    by_cases hk : a == k
    · have : a = k := by simpa using hk
      subst this; simp
    · simp only [hk]
      have : a ≠ k := by simpa using hk
      simp only [List.mem_cons] at h
      rcases h with h | h
      · exact absurd h this
      · exact ih h

theorem map_tgt_map_swap (l : List ERef) : (l.map ERef.swap).map (·.tgt) = l.map (·.src) := by
  simp [List.map_map, Function.comp_def]
theorem map_src_map_swap (l : List ERef) : (l.map ERef.swap).map (·.src) = l.map (·.tgt) := by
  simp [List.map_map, Function.comp_def]

theorem reversed_consistent {qs : List Nat} {t : Table} (h : TableConsistent qs t) :
    TableConsistent qs (reversed Cfg.ideal t) := by
  refine ⟨h.ids, h.refs, h.index, h.compact, ?_, ?_, ?_, ?_, ?_, ?_, ?_, ?_, ?_⟩
  · -- erefs
    show whenSome (t.erefs.map (·.map ERef.swap)) _
    rw [whenSome_map]
    intro er her
    obtain ⟨h1, h2, h3⟩ := h.erefs er her
    refine ⟨?_, ?_, ?_⟩
    · simpa [List.map_map, Function.comp_def] using h1
    · intro n hn; simpa using h2 n hn
    · intro ids hids e he
      simp only [List.mem_map] at he
      obtain ⟨e0, he0, rfl⟩ := he
      exact ⟨(h3 ids hids e0 he0).2, (h3 ids hids e0 he0).1⟩
  · -- eix
    show whenSome (t.erefs.map (·.map ERef.swap)) _
    rw [whenSome_map]
    intro er her l hl eb heb e he
    simp only [List.mem_map] at he
    obtain ⟨e0, he0, rfl⟩ := he
    exact h.eix er her l hl eb heb e0 he0
  · -- nbrs := nbrsIn
    show whenSome (t.erefs.map (·.map ERef.swap)) fun er' => whenSome t.nbrsIn fun r =>
      rowsMatch qs r fun a => (expOut t.directed er' a).map (·.tgt)
    rw [whenSome_map]
    refine whenSome_mono2 h.nbrsIn fun er r hm => rowsMatch_congr hm fun a _ => ?_
    rw [← expIn_map_swap, map_tgt_map_swap]
  · show whenSome (t.erefs.map (·.map ERef.swap)) fun er' => whenSome t.nbrsIn fun r =>
      rowsMatch qs r fun a => (expOut t.directed er' a).map (·.tgt)
    rw [whenSome_map]
    refine whenSome_mono2 h.nbrsIn fun er r hm => rowsMatch_congr hm fun a _ => ?_
    rw [← expIn_map_swap, map_tgt_map_swap]
  · show whenSome (t.erefs.map (·.map ERef.swap)) fun er' => whenSome t.nbrsOut fun r =>
      rowsMatch qs r fun a => (expIn t.directed er' a).map (·.src)
    rw [whenSome_map]
    refine whenSome_mono2 h.nbrsOut fun er r hm => rowsMatch_congr hm fun a _ => ?_
    rw [← expOut_map_swap, map_src_map_swap]
  · show whenSome (t.erefs.map (·.map ERef.swap)) fun er' =>
      whenSome (t.edgesIn.map (mapRows fun _ l => l.map ERef.swap)) fun r => rowsMatch qs r (expOut t.directed er')
    rw [whenSome_map]
    intro er her
    rw [whenSome_map]
    intro r hr
    refine rowsMatch_mapRows (h.edgesIn er her r hr) fun a _ l hl => ?_
    rw [← expIn_map_swap]; exact hl.map _
  · show whenSome (t.erefs.map (·.map ERef.swap)) fun er' =>
      whenSome (t.edgesIn.map (mapRows fun _ l => l.map ERef.swap)) fun r => rowsMatch qs r (expOut t.directed er')
    rw [whenSome_map]
    intro er her
    rw [whenSome_map]
    intro r hr
    refine rowsMatch_mapRows (h.edgesIn er her r hr) fun a _ l hl => ?_
    rw [← expIn_map_swap]; exact hl.map _
  · show whenSome (t.erefs.map (·.map ERef.swap)) fun er' =>
      whenSome (t.edgesOut.map (mapRows fun _ l => l.map ERef.swap)) fun r => rowsMatch qs r (expIn t.directed er')
    rw [whenSome_map]
    intro er her
    rw [whenSome_map]
    intro r hr
    refine rowsMatch_mapRows (h.edgesOut er her r hr) fun a _ l hl => ?_
    rw [← expOut_map_swap]; exact hl.map _
  · -- adj (transposed)
    show whenSome (t.erefs.map (·.map ERef.swap)) fun er' =>
      whenSome (t.adj.map fun r => (r.map (·.1)).map fun a => (a, (r.map (·.1)).filter fun b => (rowOf r b).contains a)) fun r' =>
        r'.map (·.1) = qs ∧ ∀ a ∈ qs, ∀ b ∈ qs, (b ∈ rowOf r' a ↔ expAdj t.directed er' a b = true)
    rw [whenSome_map]
    intro er her
    rw [whenSome_map]
    intro r hr
    obtain ⟨hk, hadj⟩ := h.adj er her r hr
    refine ⟨by simp [List.map_map, Function.comp_def, hk], fun a ha b hb => ?_⟩
    rw [hk]
    simp only [rowOf, lookup_tabulate qs _ a ha, Option.getD_some, List.mem_filter, List.contains_iff_mem,
      expAdj_map_swap]
    rw [← hadj b hb a ha]
    simp [rowOf, hb]

/-! ### NodeFiltered -/

theorem expOut_filter_nf (p : Nat → Bool) (dir : Bool) (er : List ERef) (a : Nat) (hp : p a = true) :
    (expOut dir er a).filter (fun e => p e.tgt) = expOut dir (er.filter fun e => p e.src && p e.tgt) a := by
  cases dir
  · simp only [expOut, Bool.false_eq_true, if_false, List.filter_map, List.filter_filter]
    congr 1
    apply List.filter_congr
    intro e _
    simp only [Function.comp_def, incident, orientOut]
    by_cases hs : e.src = a
    · simp [hs, hp]
    · have hs' : (e.src == a) = false := by simpa using hs
      by_cases ht : e.tgt = a
      · simp [hs, hs', ht, hp, Bool.and_comm]
      · have ht' : (e.tgt == a) = false := by simpa using ht
        simp [hs', ht']
  · simp only [expOut, if_true, List.filter_filter]
    apply List.filter_congr
    intro e _
    by_cases hs : e.src = a
    · simp [hs, hp]
    · have hs' : (e.src == a) = false := by simpa using hs
      simp [hs']

theorem expIn_filter_nf (p : Nat → Bool) (dir : Bool) (er : List ERef) (a : Nat) (hp : p a = true) :
    (expIn dir er a).filter (fun e => p e.src) = expIn dir (er.filter fun e => p e.src && p e.tgt) a := by
  cases dir
  · simp only [expIn, Bool.false_eq_true, if_false, List.filter_map, List.filter_filter]
    congr 1
    apply List.filter_congr
    intro e _
    simp only [Function.comp_def, incident, orientIn]
    by_cases ht : e.tgt = a
    · simp [ht, hp]
    · have ht' : (e.tgt == a) = false := by simpa using ht
      by_cases hs : e.src = a
      · simp [hs, ht, ht', hp, Bool.and_comm]
      · have hs' : (e.src == a) = false := by simpa using hs
        simp [hs', ht']
  · simp only [expIn, if_true, List.filter_filter]
    apply List.filter_congr
    intro e _
    by_cases ht : e.tgt = a
    · simp [ht, hp]
    · have ht' : (e.tgt == a) = false := by simpa using ht
      simp [ht']

theorem expOut_nf_excluded (p : Nat → Bool) (dir : Bool) (er : List ERef) (a : Nat) (hp : p a = false) :
    expOut dir (er.filter fun e => p e.src && p e.tgt) a = [] := by
  cases dir
  · simp only [expOut, Bool.false_eq_true, if_false, List.map_eq_nil_iff, List.filter_filter, List.filter_eq_nil_iff]
    intro e _
    simp only [incident]
    by_cases hs : e.src = a
    · simp [hs, hp]
    · have hs' : (e.src == a) = false := by simpa using hs
      by_cases ht : e.tgt = a
      · simp [ht, hp]
      · have ht' : (e.tgt == a) = false := by simpa using ht
        simp [hs', ht']
  · simp only [expOut, if_true, List.filter_filter, List.filter_eq_nil_iff]
    intro e _
    by_cases hs : e.src = a
    · simp [hs, hp]
    · have hs' : (e.src == a) = false := by simpa using hs
      simp [hs']

theorem expIn_nf_excluded (p : Nat → Bool) (dir : Bool) (er : List ERef) (a : Nat) (hp : p a = false) :
    expIn dir (er.filter fun e => p e.src && p e.tgt) a = [] := by
  cases dir
  · simp only [expIn, Bool.false_eq_true, if_false, List.map_eq_nil_iff, List.filter_filter, List.filter_eq_nil_iff]
    intro e _
    simp only [incident]
    by_cases hs : e.src = a
    · simp [hs, hp]
    · have hs' : (e.src == a) = false := by simpa using hs
      by_cases ht : e.tgt = a
      · simp [ht, hp]
      · have ht' : (e.tgt == a) = false := by simpa using ht
        simp [hs', ht']
  · simp only [expIn, if_true, List.filter_filter, List.filter_eq_nil_iff]
    intro e _
    by_cases ht : e.tgt = a
    · simp [ht, hp]
    · have ht' : (e.tgt == a) = false := by simpa using ht
      simp [ht']


theorem nbrs_row_nf (p : Nat → Bool) (dir : Bool) (er : List ERef) (a : Nat) (l : List Nat)
    (hl : l.Perm ((expOut dir er a).map (·.tgt))) :
    (if p a = true then l.filter p else []).Perm
      ((expOut dir (er.filter fun e => p e.src && p e.tgt) a).map (·.tgt)) := by
  by_cases hp : p a = true
  · simp only [hp, if_true]
    rw [← expOut_filter_nf p dir er a hp]
    have := hl.filter p
    rwa [List.filter_map] at this
  · have hp' : p a = false := by simpa using hp
    simp [hp', expOut_nf_excluded p dir er a hp']

theorem nbrsIn_row_nf (p : Nat → Bool) (dir : Bool) (er : List ERef) (a : Nat) (l : List Nat)
    (hl : l.Perm ((expIn dir er a).map (·.src))) :
    (if p a = true then l.filter p else []).Perm
      ((expIn dir (er.filter fun e => p e.src && p e.tgt) a).map (·.src)) := by
  by_cases hp : p a = true
  · simp only [hp, if_true]
    rw [← expIn_filter_nf p dir er a hp]
    have := hl.filter p
    rwa [List.filter_map] at this
  · have hp' : p a = false := by simpa using hp
    simp [hp', expIn_nf_excluded p dir er a hp']

theorem edges_row_nf (p : Nat → Bool) (dir : Bool) (er : List ERef) (a : Nat) (l : List ERef)
    (hl : l.Perm (expOut dir er a)) :
    (if p a = true then l.filter (fun e => p e.tgt) else []).Perm
      (expOut dir (er.filter fun e => p e.src && p e.tgt) a) := by
  by_cases hp : p a = true
  · simp only [hp, if_true]
    rw [← expOut_filter_nf p dir er a hp]
    exact hl.filter _
  · have hp' : p a = false := by simpa using hp
    simp [hp', expOut_nf_excluded p dir er a hp']

theorem edgesIn_row_nf (p : Nat → Bool) (dir : Bool) (er : List ERef) (a : Nat) (l : List ERef)
    (hl : l.Perm (expIn dir er a)) :
    (if p a = true then l.filter (fun e => p e.src) else []).Perm
      (expIn dir (er.filter fun e => p e.src && p e.tgt) a) := by
  by_cases hp : p a = true
  · simp only [hp, if_true]
    rw [← expIn_filter_nf p dir er a hp]
    exact hl.filter _
  · have hp' : p a = false := by simpa using hp
    simp [hp', expIn_nf_excluded p dir er a hp']

theorem nodeFiltered_consistent {qs : List Nat} {t : Table} (m : Nat) (h : TableConsistent qs t) :
    TableConsistent qs (nodeFiltered m t) := by
  refine ⟨?_, ?_, ?_, ?_, ?_, ?_, ?_, ?_, ?_, ?_, ?_, ?_, ?_⟩
  · -- ids
    show whenSome (t.ids.map (·.filter (inMask m))) fun ids =>
      ids.Nodup ∧ (∀ a ∈ ids, a ∈ qs) ∧ whenSome (none : Option Nat) fun n => ids.length = n
    rw [whenSome_map]
    intro ids hids
    obtain ⟨h1, h2, _⟩ := h.ids ids hids
    exact ⟨List.Nodup.sublist List.filter_sublist h1, fun a ha => h2 a (List.mem_filter.mp ha).1, whenSome_none _⟩
  · -- refs
    show whenSome (t.ids.map (·.filter (inMask m))) fun ids =>
      whenSome (t.refs.map (·.filter fun r => inMask m r.1)) fun r => (r.map (·.1)).Perm ids
    rw [whenSome_map]
    intro ids hids
    rw [whenSome_map]
    intro r hr
    have := (h.refs ids hids r hr).filter (inMask m)
    rwa [List.filter_map] at this
  · -- index
    show whenSome (t.ids.map (·.filter (inMask m))) fun ids =>
      (∀ a ∈ ids, optBelow (t.toIx.lookup a) t.nodeBound) ∧ (ids.map fun a => t.toIx.lookup a).Nodup ∧
        (∀ a ∈ ids, t.fromIx.lookup a = some a)
    rw [whenSome_map]
    intro ids hids
    obtain ⟨h1, h2, h3⟩ := h.index ids hids
    exact ⟨fun a ha => h1 a (List.mem_filter.mp ha).1,
      List.Nodup.sublist (List.Sublist.map _ List.filter_sublist) h2,
      fun a ha => h3 a (List.mem_filter.mp ha).1⟩
  · -- compact
    intro hc; cases hc
  · -- erefs
    show whenSome (t.erefs.map (·.filter fun e => inMask m e.src && inMask m e.tgt)) fun er =>
      (er.map (·.id)).Nodup ∧ (whenSome (none : Option Nat) fun n => er.length = n) ∧
        whenSome (t.ids.map (·.filter (inMask m))) fun ids => ∀ e ∈ er, e.src ∈ ids ∧ e.tgt ∈ ids
    rw [whenSome_map]
    intro er her
    obtain ⟨h1, _, h3⟩ := h.erefs er her
    refine ⟨List.Nodup.sublist (List.Sublist.map _ List.filter_sublist) h1, whenSome_none _, ?_⟩
    rw [whenSome_map]
    intro ids hids e he
    obtain ⟨he1, he2⟩ := List.mem_filter.mp he
    simp only [Bool.and_eq_true] at he2
    obtain ⟨hs, ht⟩ := h3 ids hids e he1
    exact ⟨List.mem_filter.mpr ⟨hs, he2.1⟩, List.mem_filter.mpr ⟨ht, he2.2⟩⟩
  · -- eix
    show whenSome (t.erefs.map (·.filter fun e => inMask m e.src && inMask m e.tgt)) fun er =>
      whenSome t.eix fun l => whenSome t.edgeBound fun eb => ∀ e ∈ er, optRound (l.lookup e.id) e.id eb
    rw [whenSome_map]
    intro er her l hl eb heb e he
    exact h.eix er her l hl eb heb e (List.mem_filter.mp he).1
  · show whenSome (t.erefs.map (·.filter fun e => inMask m e.src && inMask m e.tgt)) fun er' =>
      whenSome (t.nbrs.map (mapRows fun a l => if inMask m a then l.filter (inMask m) else [])) fun r =>
        rowsMatch qs r fun a => (expOut t.directed er' a).map (·.tgt)
    rw [whenSome_map]; intro er her; rw [whenSome_map]; intro r hr
    exact rowsMatch_mapRows (h.nbrs er her r hr) fun a _ l hl => nbrs_row_nf (inMask m) _ er a l hl
  · show whenSome (t.erefs.map (·.filter fun e => inMask m e.src && inMask m e.tgt)) fun er' =>
      whenSome (t.nbrsOut.map (mapRows fun a l => if inMask m a then l.filter (inMask m) else [])) fun r =>
        rowsMatch qs r fun a => (expOut t.directed er' a).map (·.tgt)
    rw [whenSome_map]; intro er her; rw [whenSome_map]; intro r hr
    exact rowsMatch_mapRows (h.nbrsOut er her r hr) fun a _ l hl => nbrs_row_nf (inMask m) _ er a l hl
  · show whenSome (t.erefs.map (·.filter fun e => inMask m e.src && inMask m e.tgt)) fun er' =>
      whenSome (t.nbrsIn.map (mapRows fun a l => if inMask m a then l.filter (inMask m) else [])) fun r =>
        rowsMatch qs r fun a => (expIn t.directed er' a).map (·.src)
    rw [whenSome_map]; intro er her; rw [whenSome_map]; intro r hr
    exact rowsMatch_mapRows (h.nbrsIn er her r hr) fun a _ l hl => nbrsIn_row_nf (inMask m) _ er a l hl
  · show whenSome (t.erefs.map (·.filter fun e => inMask m e.src && inMask m e.tgt)) fun er' =>
      whenSome (t.edges.map (mapRows fun a l => if inMask m a then l.filter (fun e => inMask m e.tgt) else [])) fun r =>
        rowsMatch qs r (expOut t.directed er')
    rw [whenSome_map]; intro er her; rw [whenSome_map]; intro r hr
    exact rowsMatch_mapRows (h.edges er her r hr) fun a _ l hl => edges_row_nf (inMask m) _ er a l hl
  · show whenSome (t.erefs.map (·.filter fun e => inMask m e.src && inMask m e.tgt)) fun er' =>
      whenSome (t.edgesOut.map (mapRows fun a l => if inMask m a then l.filter (fun e => inMask m e.tgt) else [])) fun r =>
        rowsMatch qs r (expOut t.directed er')
    rw [whenSome_map]; intro er her; rw [whenSome_map]; intro r hr
    exact rowsMatch_mapRows (h.edgesOut er her r hr) fun a _ l hl => edges_row_nf (inMask m) _ er a l hl
  · show whenSome (t.erefs.map (·.filter fun e => inMask m e.src && inMask m e.tgt)) fun er' =>
      whenSome (t.edgesIn.map (mapRows fun a l => if inMask m a then l.filter (fun e => inMask m e.src) else [])) fun r =>
        rowsMatch qs r (expIn t.directed er')
    rw [whenSome_map]; intro er her; rw [whenSome_map]; intro r hr
    exact rowsMatch_mapRows (h.edgesIn er her r hr) fun a _ l hl => edgesIn_row_nf (inMask m) _ er a l hl
  · -- adj
    intro er _ r hr; cases hr

/-! ### EdgeFiltered -/

theorem orientOut_eq_or (a : Nat) (e : ERef) : orientOut a e = e ∨ orientOut a e = e.swap := by
  unfold orientOut; by_cases h : e.src = a <;> simp [h]
theorem orientIn_eq_or (a : Nat) (e : ERef) : orientIn a e = e ∨ orientIn a e = e.swap := by
  unfold orientIn; by_cases h : e.tgt = a <;> simp [h]

/-- the predicate does not depend on the orientation an undirected edge is reported in -/
def SymmetricOn (dir : Bool) (q : ERef → Bool) : Prop := dir = false → ∀ e, q e.swap = q e

theorem expOut_filter_ef (q : ERef → Bool) (dir : Bool) (er : List ERef) (a : Nat) (hq : SymmetricOn dir q) :
    (expOut dir er a).filter q = expOut dir (er.filter q) a := by
  cases dir
  · simp only [expOut, Bool.false_eq_true, if_false, List.filter_map, List.filter_filter]
    congr 1
    apply List.filter_congr
    intro e _
    simp only [Function.comp_def]
    rcases orientOut_eq_or a e with h | h <;> simp [h, hq rfl e, Bool.and_comm]
  · simp only [expOut, if_true, List.filter_filter]
    apply List.filter_congr
    intro e _; simp [Bool.and_comm]

theorem expIn_filter_ef (q : ERef → Bool) (dir : Bool) (er : List ERef) (a : Nat) (hq : SymmetricOn dir q) :
    (expIn dir er a).filter q = expIn dir (er.filter q) a := by
  cases dir
  · simp only [expIn, Bool.false_eq_true, if_false, List.filter_map, List.filter_filter]
    congr 1
    apply List.filter_congr
    intro e _
    simp only [Function.comp_def]
    rcases orientIn_eq_or a e with h | h <;> simp [h, hq rfl e, Bool.and_comm]
  · simp only [expIn, if_true, List.filter_filter]
    apply List.filter_congr
    intro e _; simp [Bool.and_comm]

theorem edges_row_ef (q : ERef → Bool) (dir : Bool) (er : List ERef) (a : Nat) (l : List ERef)
    (hq : SymmetricOn dir q) (hl : l.Perm (expOut dir er a)) : (l.filter q).Perm (expOut dir (er.filter q) a) := by
  rw [← expOut_filter_ef q dir er a hq]; exact hl.filter q

theorem edgesIn_row_ef (q : ERef → Bool) (dir : Bool) (er : List ERef) (a : Nat) (l : List ERef)
    (hq : SymmetricOn dir q) (hl : l.Perm (expIn dir er a)) : (l.filter q).Perm (expIn dir (er.filter q) a) := by
  rw [← expIn_filter_ef q dir er a hq]; exact hl.filter q

theorem nbrsOut_row_ef (q : ERef → Bool) (dir : Bool) (er : List ERef) (a : Nat) (l : List ERef)
    (hq : SymmetricOn dir q) (hl : l.Perm (expOut dir er a)) :
    ((l.filter q).map fun e => if e.src != a then e.src else e.tgt).Perm ((expOut dir (er.filter q) a).map (·.tgt)) := by
  have : ((l.filter q).map fun e => if e.src != a then e.src else e.tgt) = (l.filter q).map (·.tgt) := by
    apply List.map_congr_left
    intro e he
    have : e.src = a := src_of_mem_expOut (hl.mem_iff.mp (List.mem_filter.mp he).1)
    simp [this]
  rw [this]
  exact (edges_row_ef q dir er a l hq hl).map _

theorem nbrsIn_row_ef (q : ERef → Bool) (dir : Bool) (er : List ERef) (a : Nat) (l : List ERef)
    (hq : SymmetricOn dir q) (hl : l.Perm (expIn dir er a)) :
    ((l.filter q).map fun e => if e.src != a then e.src else e.tgt).Perm ((expIn dir (er.filter q) a).map (·.src)) := by
  have : ((l.filter q).map fun e => if e.src != a then e.src else e.tgt) = (l.filter q).map (·.src) := by
    apply List.map_congr_left
    intro e he
    have ht : e.tgt = a := tgt_of_mem_expIn (hl.mem_iff.mp (List.mem_filter.mp he).1)
    by_cases hs : e.src = a
    · simp [hs, ht]
    · simp [hs]
  rw [this]
  exact (edgesIn_row_ef q dir er a l hq hl).map _

theorem edgeFiltered_consistent {qs : List Nat} {t : Table} (q : ERef → Bool) (hq : SymmetricOn t.directed q)
    (h : TableConsistent qs t) : TableConsistent qs (edgeFiltered q t) := by
  refine ⟨h.ids, h.refs, h.index, h.compact, ?_, ?_, ?_, ?_, ?_, ?_, ?_, ?_, ?_⟩
  · -- erefs
    show whenSome (t.erefs.map (·.filter q)) fun er =>
      (er.map (·.id)).Nodup ∧ (whenSome (none : Option Nat) fun n => er.length = n) ∧
        whenSome t.ids fun ids => ∀ e ∈ er, e.src ∈ ids ∧ e.tgt ∈ ids
    rw [whenSome_map]
    intro er her
    obtain ⟨h1, _, h3⟩ := h.erefs er her
    exact ⟨List.Nodup.sublist (List.Sublist.map _ List.filter_sublist) h1, whenSome_none _,
      fun ids hids e he => h3 ids hids e (List.mem_filter.mp he).1⟩
  · -- eix
    show whenSome (t.erefs.map (·.filter q)) fun er =>
      whenSome t.eix fun l => whenSome t.edgeBound fun eb => ∀ e ∈ er, optRound (l.lookup e.id) e.id eb
    rw [whenSome_map]
    intro er her l hl eb heb e he
    exact h.eix er her l hl eb heb e (List.mem_filter.mp he).1
  · show whenSome (t.erefs.map (·.filter q)) fun er' =>
      whenSome (t.edges.map (mapRows fun _ l => (l.filter q).map (·.tgt))) fun r =>
        rowsMatch qs r fun a => (expOut t.directed er' a).map (·.tgt)
    rw [whenSome_map]; intro er her; rw [whenSome_map]; intro r hr
    exact rowsMatch_mapRows (h.edges er her r hr) fun a _ l hl => (edges_row_ef q _ er a l hq hl).map _
  · show whenSome (t.erefs.map (·.filter q)) fun er' =>
      whenSome (t.edgesOut.map (mapRows fun a l => (l.filter q).map fun e => if e.src != a then e.src else e.tgt)) fun r =>
        rowsMatch qs r fun a => (expOut t.directed er' a).map (·.tgt)
    rw [whenSome_map]; intro er her; rw [whenSome_map]; intro r hr
    exact rowsMatch_mapRows (h.edgesOut er her r hr) fun a _ l hl => nbrsOut_row_ef q _ er a l hq hl
  · show whenSome (t.erefs.map (·.filter q)) fun er' =>
      whenSome (t.edgesIn.map (mapRows fun a l => (l.filter q).map fun e => if e.src != a then e.src else e.tgt)) fun r =>
        rowsMatch qs r fun a => (expIn t.directed er' a).map (·.src)
    rw [whenSome_map]; intro er her; rw [whenSome_map]; intro r hr
    exact rowsMatch_mapRows (h.edgesIn er her r hr) fun a _ l hl => nbrsIn_row_ef q _ er a l hq hl
  · show whenSome (t.erefs.map (·.filter q)) fun er' =>
      whenSome (t.edges.map (mapRows fun _ l => l.filter q)) fun r => rowsMatch qs r (expOut t.directed er')
    rw [whenSome_map]; intro er her; rw [whenSome_map]; intro r hr
    exact rowsMatch_mapRows (h.edges er her r hr) fun a _ l hl => edges_row_ef q _ er a l hq hl
  · show whenSome (t.erefs.map (·.filter q)) fun er' =>
      whenSome (t.edgesOut.map (mapRows fun _ l => l.filter q)) fun r => rowsMatch qs r (expOut t.directed er')
    rw [whenSome_map]; intro er her; rw [whenSome_map]; intro r hr
    exact rowsMatch_mapRows (h.edgesOut er her r hr) fun a _ l hl => edges_row_ef q _ er a l hq hl
  · show whenSome (t.erefs.map (·.filter q)) fun er' =>
      whenSome (t.edgesIn.map (mapRows fun _ l => l.filter q)) fun r => rowsMatch qs r (expIn t.directed er')
    rw [whenSome_map]; intro er her; rw [whenSome_map]; intro r hr
    exact rowsMatch_mapRows (h.edgesIn er her r hr) fun a _ l hl => edgesIn_row_ef q _ er a l hq hl
  · intro er _ r hr; cases hr

/-! ### UndirectedAdaptor -/

/-- directed view, symmetrised: incoming non-loop edges turned round, then the outgoing ones, are exactly the
incident edges with `a` as source -/
theorem und_edges_perm (er : List ERef) (a : Nat) (li lo : List ERef)
    (hli : li.Perm (er.filter fun e => e.tgt == a)) (hlo : lo.Perm (er.filter fun e => e.src == a)) :
    ((li.filter fun e => e.src != e.tgt).map ERef.swap ++ lo).Perm ((er.filter (incident a)).map (orientOut a)) := by
  have hsplit := (List.filter_append_perm (fun e : ERef => e.src == a) (er.filter (incident a))).symm
  have h1 : ((er.filter (incident a)).filter fun e => e.src == a).map (orientOut a) = er.filter fun e => e.src == a := by
    rw [List.filter_filter]
    have : (er.filter fun e => e.src == a && incident a e) = er.filter fun e => e.src == a := by
      apply List.filter_congr; intro e _
      by_cases hs : e.src = a <;> simp [hs, incident]
    rw [this]
    conv => rhs; rw [← List.map_id (er.filter fun e => e.src == a)]
    apply List.map_congr_left
    intro e he
    have : e.src = a := by simpa using (List.mem_filter.mp he).2
    simp [orientOut, this]
  have h2 : ((er.filter (incident a)).filter fun e => !(e.src == a)).map (orientOut a)
      = ((er.filter fun e => e.tgt == a).filter fun e => e.src != e.tgt).map ERef.swap := by
    rw [List.filter_filter, List.filter_filter]
    have : (er.filter fun e => !(e.src == a) && incident a e) = er.filter fun e => (e.src != e.tgt) && (e.tgt == a) := by
      apply List.filter_congr; intro e _
      by_cases hs : e.src = a
      · by_cases ht : e.tgt = a
        · simp [hs, ht]
        · have ht' : (e.tgt == a) = false := by simpa using ht
          simp [hs, ht']
      · have hs' : (e.src == a) = false := by simpa using hs
        by_cases ht : e.tgt = a
        · simp [hs', ht, hs, incident]
        · have ht' : (e.tgt == a) = false := by simpa using ht
          simp [hs', ht', incident]
    rw [this]
    apply List.map_congr_left
    intro e he
    have hh := (List.mem_filter.mp he).2
    simp only [Bool.and_eq_true, bne_iff_ne, ne_eq, beq_iff_eq] at hh
    have : ¬ e.src = a := by rw [← hh.2]; exact hh.1
    simp [orientOut, this]
  have hR : ((er.filter (incident a)).map (orientOut a)).Perm
      ((er.filter fun e => e.src == a) ++ ((er.filter fun e => e.tgt == a).filter fun e => e.src != e.tgt).map ERef.swap) := by
    have := hsplit.map (orientOut a)
    rw [List.map_append, h1, h2] at this
    exact this
  refine List.Perm.trans ?_ hR.symm
  refine List.Perm.trans List.perm_append_comm ?_
  exact hlo.append ((hli.filter _).map _)

theorem und_nbrs_perm (er : List ERef) (a : Nat) (li lo : List Nat)
    (hli : li.Perm ((er.filter fun e => e.tgt == a).map (·.src))) (hlo : lo.Perm ((er.filter fun e => e.src == a).map (·.tgt))) :
    (li.filter (· != a) ++ lo).Perm (((er.filter (incident a)).map (orientOut a)).map (·.tgt)) := by
  have hE := (und_edges_perm er a _ _ (List.Perm.refl _) (List.Perm.refl _)).map (·.tgt)
  rw [List.map_append, map_tgt_map_swap] at hE
  refine List.Perm.trans ?_ hE
  refine List.Perm.append ?_ hlo
  have h1 := hli.filter (· != a)
  rw [List.filter_map] at h1
  refine h1.trans (List.Perm.of_eq ?_)
  congr 1
  apply List.filter_congr
  intro e he
  have : e.tgt = a := by simpa using (List.mem_filter.mp he).2
  simp [this]

theorem undirected_nbrs_eq {t : Table} {r : Rows Nat} (h : (undirected Cfg.ideal t).nbrs = some r) :
    ∃ i o, t.nbrsIn = some i ∧ t.nbrsOut = some o ∧
      r = mapRows (fun a l => (if t.directed then l.filter (· != a) else []) ++ rowOf o a) i := by
  simp only [undirected, Cfg.ideal] at h
  split at h
  · next i o hi ho =>
    refine ⟨i, o, hi, ho, ?_⟩
    simp only [Option.some.injEq] at h
    rw [← h]; simp [mapRows]
  · cases h

theorem undirected_edges_eq {t : Table} {r : Rows ERef} (h : (undirected Cfg.ideal t).edges = some r) :
    ∃ i o, t.edgesIn = some i ∧ t.edgesOut = some o ∧
      r = mapRows (fun a l => (if t.directed then (l.filter fun e => e.src != e.tgt).map ERef.swap else []) ++ rowOf o a) i := by
  simp only [undirected, Cfg.ideal] at h
  split at h
  · next i o hi ho =>
    refine ⟨i, o, hi, ho, ?_⟩
    simp only [Option.some.injEq] at h
    rw [← h]; simp [mapRows]
  · cases h

theorem undirected_consistent {qs : List Nat} {t : Table} (h : TableConsistent qs t) :
    TableConsistent qs (undirected Cfg.ideal t) := by
  refine ⟨?_, h.refs, h.index, h.compact, ?_, ?_, ?_, ?_, ?_, ?_, ?_, ?_, ?_⟩
  · exact h.ids
  · -- erefs
    intro er her
    obtain ⟨h1, _, h3⟩ := h.erefs er her
    exact ⟨h1, whenSome_none _, h3⟩
  · intro er _ l hl; cases hl
  · -- nbrs
    intro er her r hr
    obtain ⟨i, o, hi, ho, rfl⟩ := undirected_nbrs_eq hr
    have hI := h.nbrsIn er her i hi
    have hO := h.nbrsOut er her o ho
    refine rowsMatch_mapRows hI fun a ha l hl => ?_
    show List.Perm _ ((expOut false er a).map (·.tgt))
    cases hd : t.directed
    · simp only [Bool.false_eq_true, if_false, List.nil_append]
      have := hO.2 a ha; rwa [hd] at this
    · simp only [if_true]
      have h1 := hO.2 a ha; rw [hd] at h1
      rw [hd] at hl
      simp only [expOut, expIn, if_true, Bool.false_eq_true, if_false] at h1 hl ⊢
      exact und_nbrs_perm er a l _ hl h1
  · intro er _ r hr; cases hr
  · intro er _ r hr; cases hr
  · -- edges
    intro er her r hr
    obtain ⟨i, o, hi, ho, rfl⟩ := undirected_edges_eq hr
    have hI := h.edgesIn er her i hi
    have hO := h.edgesOut er her o ho
    refine rowsMatch_mapRows hI fun a ha l hl => ?_
    show List.Perm _ (expOut false er a)
    cases hd : t.directed
    · simp only [Bool.false_eq_true, if_false, List.nil_append]
      have := hO.2 a ha; rwa [hd] at this
    · simp only [if_true]
      have h1 := hO.2 a ha; rw [hd] at h1
      rw [hd] at hl
      simp only [expOut, expIn, if_true, Bool.false_eq_true, if_false] at h1 hl ⊢
      exact und_edges_perm er a l _ hl h1
  · intro er _ r hr; cases hr
  · intro er _ r hr; cases hr
  · intro er _ r hr; cases hr

/-! ### Frozen over the owned graph type, the judge, stacks -/

theorem frozenOwned_consistent {qs : List Nat} {t : Table} (_h : TableConsistent qs t) :
    TableConsistent qs (frozenOwned t) := by
  refine ⟨?_, ?_, ?_, ?_, ?_, ?_, ?_, ?_, ?_, ?_, ?_, ?_, ?_⟩
  · intro ids hids; cases hids
  · intro ids hids; cases hids
  · intro ids hids; cases hids
  · intro _ ids hids; cases hids
  all_goals (intro er her; cases her)

/-! ### the judge -/

theorem ite_nil_iff (P : Prop) [Decidable P] (s : String) : (if P then [] else [s]) = ([] : List String) ↔ P := by
  by_cases h : P <;> simp [h]

theorem checkTable_iff (qs : List Nat) (t : Table) : checkTable qs t = true ↔ TableConsistent qs t := by
  unfold checkTable checkTableWhy
  simp only [List.isEmpty_iff, List.append_eq_nil_iff, ite_nil_iff, and_assoc]
  constructor
  · rintro ⟨h1, h2, h3, h4, h5, h6, h7, h8, h9, h10, h11, h12, h13⟩
    exact ⟨h1, h2, h3, h4, h5, h6, h7, h8, h9, h10, h11, h12, h13⟩
  · intro h
    exact ⟨h.ids, h.refs, h.index, h.compact, h.erefs, h.eix, h.nbrs, h.nbrsOut, h.nbrsIn, h.edges, h.edgesOut,
      h.edgesIn, h.adj⟩

/-! ### stacks -/

theorem evalPred_symmetric (p : Nat) (hp : predSymmetric p = true) (e : ERef) : evalPred p e.swap = evalPred p e := by
  rcases p with _|_|_|_|_|_|_|_|_|p
  · rfl
  · rfl
  · rfl
  · rfl
  · simp [evalPred, bne_comm]
  · simp [evalPred, Int.add_comm]
  · simp [predSymmetric] at hp
  · rfl
  · simp [predSymmetric] at hp
  · rfl

/-- the direction flag a view has after one more adaptor -/
def dirAfter (op : Op) (d : Bool) : Bool := if op = .und then false else d

theorem directed_applyOp (cfg : Cfg) (op : Op) (t : Table) : (applyOp cfg op t).directed = dirAfter op t.directed := by
  cases op <;> rfl

/-- edge predicates are orientation independent wherever they are applied to an undirected view -/
def StackOk : Bool → List Op → Prop
  | _, [] => True
  | d, op :: ops =>
    (match op with
      | .ef p => d = false → predSymmetric p = true
      | _ => True) ∧ StackOk (dirAfter op d) ops

theorem applyOp_consistent {qs : List Nat} {t : Table} (op : Op)
    (hok : match op with | .ef p => t.directed = false → predSymmetric p = true | _ => True)
    (h : TableConsistent qs t) : TableConsistent qs (applyOp Cfg.ideal op t) := by
  cases op with
  | ref => exact h
  | frozen => exact h
  | frozenOwned => exact frozenOwned_consistent h
  | rev => exact reversed_consistent h
  | und => exact undirected_consistent h
  | nf m => exact nodeFiltered_consistent m h
  | ef p => exact edgeFiltered_consistent _ (fun hd e => evalPred_symmetric p (hok hd) e) h

theorem applyStack_consistent {qs : List Nat} (ops : List Op) (t : Table) (hok : StackOk t.directed ops)
    (h : TableConsistent qs t) : TableConsistent qs (applyStack Cfg.ideal ops t) := by
  induction ops generalizing t with
  | nil => exact h
  | cons op ops ih =>
    simp only [applyStack, List.foldl_cons]
    apply ih
    · rw [directed_applyOp]; exact hok.2
    · exact applyOp_consistent op hok.1 h

theorem abs_applyOp (cfg : Cfg) (op : Op) (t : Table) (hop : op ≠ .frozenOwned) :
    abs (applyOp cfg op t) = specOp op (abs t) := by
  cases op with
  | ref => rfl
  | frozen => rfl
  | frozenOwned => exact absurd rfl hop
  | rev => simp only [applyOp, reversed, abs, specOp, AGraph.reverse]; cases t.erefs <;> simp
  | und => rfl
  | nf m => simp only [applyOp, nodeFiltered, abs, specOp, AGraph.induce]; cases t.erefs <;> cases t.ids <;> simp
  | ef p => simp only [applyOp, edgeFiltered, abs, specOp, AGraph.restrict]; cases t.erefs <;> simp

theorem abs_applyStack (cfg : Cfg) (ops : List Op) (t : Table) (hops : Op.frozenOwned ∉ ops) :
    abs (applyStack cfg ops t) = specStack ops (abs t) := by
  induction ops generalizing t with
  | nil => rfl
  | cons op ops ih =>
    simp only [applyStack, specStack, List.foldl_cons]
    have h1 : op ≠ .frozenOwned := fun h => hops (by simp [h])
    have h2 : Op.frozenOwned ∉ ops := fun h => hops (by simp [h])
    rw [← abs_applyOp cfg op t h1]
    exact ih _ h2

end PetgraphModel.Visit
