import PetgraphModel.Model.C06Views
import PetgraphModel.Spec.VisitSpec
import PetgraphModel.Proofs.VisitTable
/-
C06 wave 2 — plumbing shared by the `C06_consistent_<Type>` proofs: rows built by `rowsOver`, lookups in
mapped association lists, and "same members, no duplicates ⇒ permutation".
-/
namespace PetgraphModel.Visit

theorem lookup_map_self {β : Type} (f : Nat → β) : ∀ (l : List Nat) (a : Nat), a ∈ l →
    (l.map fun q => (q, f q)).lookup a = some (f a)
  | [], a, h => by simp at h
  | x :: t, a, h => by
    simp only [List.map_cons, List.lookup_cons]
    by_cases hx : a = x
    · subst hx; simp
    · have : (a == x) = false := by simpa using hx
      simp only [this]
      exact lookup_map_self f t a (by simpa [hx] using h)

/-- lookup under an injective key function finds the entry of the element itself -/
theorem lookup_map_inj {α β : Type} (k : α → Nat) (v : α → β) : ∀ (l : List α),
    (∀ x ∈ l, ∀ y ∈ l, k x = k y → x = y) → ∀ x ∈ l, (l.map fun y => (k y, v y)).lookup (k x) = some (v x)
  | [], _, x, h => by simp at h
  | y :: t, hinj, x, h => by
    simp only [List.map_cons, List.lookup_cons]
    by_cases hx : k x = k y
    · have : x = y := hinj x h y (by simp) hx
      subst this; simp
    · have : (k x == k y) = false := by simpa using hx
      simp only [this]
      have hx' : x ∈ t := by
        rcases List.mem_cons.1 h with e | e
        · subst e; exact absurd rfl hx
        · exact e
      exact lookup_map_inj k v t (fun a ha b hb => hinj a (List.mem_cons_of_mem _ ha) b (List.mem_cons_of_mem _ hb)) x hx'

theorem rowsOver_keys {α : Type} (qs : List Nat) (f : Nat → List α) : (rowsOver qs f).map (·.1) = qs := by
  simp [rowsOver, List.map_map, Function.comp_def]

theorem rowOf_rowsOver {α : Type} (qs : List Nat) (f : Nat → List α) (a : Nat) (h : a ∈ qs) :
    rowOf (rowsOver qs f) a = f a := by
  simp [rowOf, rowsOver, lookup_map_self f qs a h]

theorem rowsMatch_rowsOver {α : Type} {qs : List Nat} {f g : Nat → List α}
    (h : ∀ a ∈ qs, (f a).Perm (g a)) : rowsMatch qs (rowsOver qs f) g :=
  ⟨rowsOver_keys qs f, fun a ha => by rw [rowOf_rowsOver qs f a ha]; exact h a ha⟩

/-- two duplicate-free lists with the same members are permutations of each other -/
theorem perm_of_nodup_mem {α : Type} {l₁ l₂ : List α} (h₁ : l₁.Nodup) (h₂ : l₂.Nodup)
    (h : ∀ x, x ∈ l₁ ↔ x ∈ l₂) : l₁.Perm l₂ :=
  (List.perm_ext_iff_of_nodup h₁ h₂).2 h

theorem nodup_map_of_inj_on {α β : Type} (f : α → β) : ∀ (l : List α), l.Nodup →
    (∀ x ∈ l, ∀ y ∈ l, f x = f y → x = y) → (l.map f).Nodup
  | [], _, _ => by simp
  | x :: t, hn, hinj => by
    simp only [List.map_cons, List.nodup_cons, List.mem_map, not_exists, not_and] at hn ⊢
    refine ⟨fun y hy e => ?_, nodup_map_of_inj_on f t hn.2 (fun a ha b hb => hinj a (List.mem_cons_of_mem _ ha) b (List.mem_cons_of_mem _ hb))⟩
    have : y = x := hinj y (List.mem_cons_of_mem _ hy) x (by simp) e
    subst this; exact hn.1 hy

theorem nodup_of_nodup_map {α β : Type} (f : α → β) (l : List α) (h : (l.map f).Nodup) : l.Nodup := by
  rw [List.Nodup, List.pairwise_map] at h
  exact List.Pairwise.imp (fun hab e => hab (by rw [e])) h

/-- a list of references whose ids are distinct is duplicate-free, and stays so after a map that keeps ids -/
theorem nodup_map_keep_id {l : List ERef} (h : (l.map (·.id)).Nodup) (f : ERef → ERef) (hf : ∀ e, (f e).id = e.id) :
    (l.map f).Nodup := by
  apply nodup_of_nodup_map (·.id)
  simpa [List.map_map, Function.comp_def, hf] using h

theorem nodup_filter_ids {l : List ERef} (h : (l.map (·.id)).Nodup) (p : ERef → Bool) :
    ((l.filter p).map (·.id)).Nodup :=
  List.Nodup.sublist (List.Sublist.map _ List.filter_sublist) h

/-- the prescribed rows are duplicate-free when the edge ids are -/
theorem expOut_nodup {dir : Bool} {er : List ERef} (h : (er.map (·.id)).Nodup) (a : Nat) : (expOut dir er a).Nodup := by
  unfold expOut
  split
  · exact nodup_of_nodup_map _ _ (nodup_filter_ids h _)
  · exact nodup_map_keep_id (nodup_filter_ids h _) _ (fun e => by unfold orientOut; split <;> simp)

theorem expIn_nodup {dir : Bool} {er : List ERef} (h : (er.map (·.id)).Nodup) (a : Nat) : (expIn dir er a).Nodup := by
  unfold expIn
  split
  · exact nodup_of_nodup_map _ _ (nodup_filter_ids h _)
  · exact nodup_map_keep_id (nodup_filter_ids h _) _ (fun e => by unfold orientIn; split <;> simp)

/-! ### the pair code (`pcode`, Model/VisitTable.lean) is injective on ALL pairs of naturals (wave 5: replaces the
bounded code `a * 100 + b`, so that no theorem about a pair-id type needs a bound on the node ids) -/

theorem sq_succ (s : Nat) : (s + 1) * (s + 1) = s * s + 2 * s + 1 := by
  simp only [Nat.add_mul, Nat.mul_add, Nat.mul_one, Nat.one_mul]; omega

theorem pcode_lo (a b : Nat) : max a b * max a b ≤ pcode a b := by
  unfold pcode
  by_cases h : a < b
  · have : max a b = b := by omega
    simp only [h, if_true, this]; omega
  · have : max a b = a := by omega
    simp only [h, if_false, this]; omega

theorem pcode_hi (a b : Nat) : pcode a b < (max a b + 1) * (max a b + 1) := by
  unfold pcode
  rw [sq_succ]
  by_cases h : a < b
  · have : max a b = b := by omega
    simp only [h, if_true, this]; omega
  · have : max a b = a := by omega
    simp only [h, if_false, this]; omega

theorem pcode_max {a b c d : Nat} (h : pcode a b = pcode c d) : max a b = max c d := by
  have key : ∀ a b c d : Nat, pcode a b = pcode c d → ¬ max a b < max c d := by
    intro a b c d h hlt
    have h1 := pcode_hi a b
    have h2 := pcode_lo c d
    have h3 : (max a b + 1) * (max a b + 1) ≤ max c d * max c d := Nat.mul_le_mul hlt hlt
    omega
  have := key a b c d h
  have := key c d a b h.symm
  omega

/-- the pair code names one pair: injective on ALL pairs of naturals -/
theorem pcode_inj {a b c d : Nat} (h : pcode a b = pcode c d) : a = c ∧ b = d := by
  have hm := pcode_max h
  unfold pcode at h
  by_cases h1 : a < b <;> by_cases h2 : c < d
  · have e1 : max a b = b := by omega
    have e2 : max c d = d := by omega
    have : b = d := by omega
    subst this
    simp only [h1, h2, if_true] at h; omega
  · have e1 : max a b = b := by omega
    have e2 : max c d = c := by omega
    have : b = c := by omega
    subst this
    simp only [h1, h2, if_true, if_false] at h; omega
  · have e1 : max a b = a := by omega
    have e2 : max c d = d := by omega
    have : a = d := by omega
    subst this
    simp only [h1, h2, if_true, if_false] at h; omega
  · have e1 : max a b = a := by omega
    have e2 : max c d = c := by omega
    have : a = c := by omega
    subst this
    simp only [h1, h2, if_false] at h; omega

theorem pairCode_false (a b : Nat) : pairCode false a b = pcode a b := by simp [pairCode]

theorem pairCode_le (sym : Bool) {a b : Nat} (h : a ≤ b) : pairCode sym a b = pcode a b := by
  unfold pairCode
  have : ¬ b < a := by omega
  simp [this]

theorem pairCode_comm (a b : Nat) : pairCode true a b = pairCode true b a := by
  unfold pairCode
  by_cases h : b < a
  · have : ¬ a < b := by omega
    simp [h, this]
  · by_cases h' : a < b
    · simp [h, h']
    · have : a = b := by omega
      subst this; simp

/-- (kept under its old name; the bounds of the old code are gone) -/
theorem code_inj {a b c d : Nat} (h : pcode a b = pcode c d) : a = c ∧ b = d := pcode_inj h

end PetgraphModel.Visit
