import PetgraphModel.Proofs.C16W2ApInv
/-
C16, second wave — articulation points, Part I (d): the invariant is preserved by a `child` step
that discovers a new node (tree edge).
-/
namespace PetgraphModel.C16P.W2Ap
open PetgraphModel MGraph C16M

section
variable {v : View} {u t : Nat} {P R : List Nat} {rest : List (Nat × FS)} {st : AP}

/-- facts shared by the three groups -/
structure NewFacts (v : View) (u t : Nat) (P R : List Nat) (rest : List (Nat × FS)) (st : AP) : Prop where
  huv : u ∈ st.visited
  htn : t ∈ nbr v u
  htv : Valid v t
  hpl : t < st.parent.length
  hpO : ∀ j, pO (stPar st t u) j = if j = t then some u else pO st j
  hnop : ∀ w, (w, FS.pend) ∉ (u, FS.run P (t :: R)) :: rest
  hpt : pO st t = none
  hGvis : ∀ x s, (x, s) ∈ (u, FS.run P (t :: R)) :: rest → x ∈ st.visited
  hpOv : ∀ j, j ∈ st.visited → pO (stPar st t u) j = pO st j
  hanc : ∀ a b, Anc st a b → Anc (stPar st t u) a b

theorem newFacts (hwf : v.g.WellFormed) (hi : IndexOk v)
    (C : Core v ((u, .run P (t :: R)) :: rest) st) (ht : t ∉ st.visited) : NewFacts v u t P R rest st := by
  have hmem : (u, FS.run P (t :: R)) ∈ (u, FS.run P (t :: R)) :: rest := List.mem_cons_self ..
  have huv : u ∈ st.visited := C.nonpend_vis u _ hmem (by intro h; cases h)
  have hsplit := C.run_split u P (t :: R) hmem
  have htn : t ∈ nbr v u := by
    rw [← List.mem_reverse, hsplit]; simp
  have htv : Valid v t := nbr_valid v hwf hi u t (C.gvalid u _ hmem) htn
  have hpl : t < st.parent.length := (C.lt_nb hi htv).2.2.2
  have hpO : ∀ j, pO (stPar st t u) j = if j = t then some u else pO st j := fun j => pO_stPar st t u j hpl
  have hnop : ∀ w, (w, FS.pend) ∉ (u, FS.run P (t :: R)) :: rest := by
    intro w hw
    cases List.mem_cons.mp hw with
    | inl h => cases h
    | inr h => exact C.pend_head rfl h
  have hpt : pO st t = none := by
    cases hp : pO st t with
    | none => rfl
    | some p =>
      obtain ⟨r', hr'⟩ := C.par_unvis t p hp ht
      cases hr'
  have hGvis : ∀ x s, (x, s) ∈ (u, FS.run P (t :: R)) :: rest → x ∈ st.visited := by
    intro x s hm
    apply C.nonpend_vis x s hm
    intro hs; subst hs; exact hnop x hm
  have hpOv : ∀ j, j ∈ st.visited → pO (stPar st t u) j = pO st j := by
    intro j hj; rw [hpO, if_neg]; intro h; subst h; exact ht hj
  have hanc : ∀ a b, Anc st a b → Anc (stPar st t u) a b := by
    intro a b h
    apply anc_mono (st := st) (st' := stPar st t u) _ h
    intro i p hp
    rw [hpO, if_neg]; exact hp
    intro h; subst h; rw [hpt] at hp; cases hp
  exact ⟨huv, htn, htv, hpl, hpO, hnop, hpt, hGvis, hpOv, hanc⟩

theorem finished_new (ht : t ∉ st.visited) {x : Nat}
    (h : Finished ((t, .pend) :: (u, .run (P ++ [t]) R) :: rest) (stPar st t u) x) :
    x ≠ u ∧ x ≠ t ∧ Finished ((u, .run P (t :: R)) :: rest) st x := by
  have hxv : x ∈ st.visited := h.1
  have hxt : x ≠ t := fun h' => ht (h' ▸ hxv)
  have hxu : x ≠ u := by
    intro hxu; subst hxu
    have := h.2 _ (List.mem_cons_of_mem _ (List.mem_cons_self ..))
    cases this
  refine ⟨hxu, hxt, hxv, ?_⟩
  intro s hs
  cases List.mem_cons.mp hs with
  | inl h' => cases h'; exact (hxu rfl).elim
  | inr h' => exact h.2 s (List.mem_cons_of_mem _ (List.mem_cons_of_mem _ h'))

theorem folded_new {x : Nat}
    (h : Folded ((t, .pend) :: (u, .run (P ++ [t]) R) :: rest) (stPar st t u) x) :
    Folded ((u, .run P (t :: R)) :: rest) st x := by
  refine ⟨h.1, ?_⟩
  intro s hs
  cases List.mem_cons.mp hs with
  | inl h' => cases h'; exact h.2 _ (List.mem_cons_of_mem _ (List.mem_cons_self ..))
  | inr h' => exact h.2 s (List.mem_cons_of_mem _ (List.mem_cons_of_mem _ h'))

theorem folded_new_mk (ht : t ∉ st.visited) {x : Nat}
    (h : Folded ((u, .run P (t :: R)) :: rest) st x) :
    Folded ((t, .pend) :: (u, .run (P ++ [t]) R) :: rest) (stPar st t u) x := by
  refine ⟨h.1, ?_⟩
  intro s hs
  cases List.mem_cons.mp hs with
  | inl h' => cases h'; exact ht h.1
  | inr h' =>
    cases List.mem_cons.mp h' with
    | inl h'' => cases h''; exact h.2 _ (List.mem_cons_self ..)
    | inr h'' => exact h.2 s (List.mem_cons_of_mem _ h'')

theorem core_new (hwf : v.g.WellFormed) (hi : IndexOk v)
    (C : Core v ((u, .run P (t :: R)) :: rest) st) (ht : t ∉ st.visited) :
    Core v ((t, .pend) :: (u, .run (P ++ [t]) R) :: rest) (stPar st t u) := by
  have F := newFacts hwf hi C ht
  have hmem : (u, FS.run P (t :: R)) ∈ (u, FS.run P (t :: R)) :: rest := List.mem_cons_self ..
  refine
    { tab := ⟨C.tab.nb, C.tab.low, C.tab.disc, by simp [stPar, C.tab.parent], C.tab.visited⟩
      gvalid := ?_, gnodup := ?_, disc_vis := C.disc_vis, disc_lt := C.disc_lt, disc_inj := C.disc_inj,
      par_vis := ?_, par_lt := ?_, par_unvis := ?_, chain := ?_,
      pend_unvis := ?_, nonpend_vis := ?_, run_split := ?_, proc_vis := ?_, done_vis := ?_,
      desc := ?_, done_desc := ?_ }
  · intro x s hm
    cases List.mem_cons.mp hm with
    | inl h => cases h; exact F.htv
    | inr h =>
      cases List.mem_cons.mp h with
      | inl h' => cases h'; exact C.gvalid u _ hmem
      | inr h' => exact C.gvalid x s (List.mem_cons_of_mem _ h')
  · have := C.gnodup
    simp only [List.map_cons, List.nodup_cons] at this ⊢
    refine ⟨?_, this⟩
    intro hm
    have : t ∈ ((u, FS.run P (t :: R)) :: rest).map (·.1) := by simpa using hm
    obtain ⟨⟨x, s⟩, hxs, hx⟩ := List.mem_map.mp this
    simp only at hx; subst hx
    exact ht (F.hGvis x s hxs)
  · intro i p hp
    rw [F.hpO] at hp
    split at hp
    · cases hp; subst_vars; exact ⟨F.huv, F.htn⟩
    · exact C.par_vis i p hp
  · intro i p hp hiv
    rw [F.hpOv i hiv] at hp
    exact C.par_lt i p hp hiv
  · intro i p hp hiv
    rw [F.hpO] at hp
    split at hp
    · subst_vars; exact ⟨_, rfl⟩
    · obtain ⟨r', hr'⟩ := C.par_unvis i p hp hiv
      cases hr'
  · refine ⟨by rw [F.hpO, if_pos rfl], ⟨_, _, rfl⟩, ?_⟩
    apply chain_head_state _ _ _ _ _ (chain_congr st _ _ _ C.chain)
    intro x s hm
    exact F.hpOv x (F.hGvis x s hm)
  · intro x hm
    cases List.mem_cons.mp hm with
    | inl h => cases h; exact ht
    | inr h =>
      cases List.mem_cons.mp h with
      | inl h' => cases h'
      | inr h' => exact (F.hnop x (List.mem_cons_of_mem _ h')).elim
  · intro x s hm hs
    cases List.mem_cons.mp hm with
    | inl h => cases h; exact (hs rfl).elim
    | inr h =>
      cases List.mem_cons.mp h with
      | inl h' => cases h'; exact F.huv
      | inr h' => exact F.hGvis x s (List.mem_cons_of_mem _ h')
  · intro x P' R' hm
    cases List.mem_cons.mp hm with
    | inl h => cases h
    | inr h =>
      cases List.mem_cons.mp h with
      | inl h' => cases h'; rw [C.run_split u P (t :: R) hmem]; simp
      | inr h' => exact C.run_split x P' R' (List.mem_cons_of_mem _ h')
  · intro x P' R' w hm hw
    have key : ∀ P0 R0, (x, FS.run P0 R0) ∈ (u, FS.run P (t :: R)) :: rest → w ∈ P0 →
        w ∈ st.visited := by
      intro P0 R0 h0 hw0
      rcases C.proc_vis x P0 R0 w h0 hw0 with h1 | h1
      · exact h1
      · exact (F.hnop w h1).elim
    cases List.mem_cons.mp hm with
    | inl h => cases h
    | inr h =>
      cases List.mem_cons.mp h with
      | inl h' =>
        cases h'
        rcases List.mem_append.mp hw with hw' | hw'
        · exact Or.inl (key P (t :: R) hmem hw')
        · simp only [List.mem_singleton] at hw'; subst hw'
          exact Or.inr (List.mem_cons_self ..)
      | inr h' => exact Or.inl (key P' R' (List.mem_cons_of_mem _ h') hw)
  · intro x w hf hw
    exact C.done_vis x w (finished_new ht hf).2.2 hw
  · intro x u' s hx hm hu' hle
    apply F.hanc
    cases List.mem_cons.mp hm with
    | inl h => cases h; exact (ht hu').elim
    | inr h =>
      cases List.mem_cons.mp h with
      | inl h' => cases h'; exact C.desc x u _ hx hmem hu' hle
      | inr h' => exact C.desc x u' s hx (List.mem_cons_of_mem _ h') hu' hle
  · intro x w hf hw hlt
    exact F.hanc _ _ (C.done_desc x w (finished_new ht hf).2.2 hw hlt)

theorem low_new (hwf : v.g.WellFormed) (hi : IndexOk v)
    (C : Core v ((u, .run P (t :: R)) :: rest) st) (L : LowInv v ((u, .run P (t :: R)) :: rest) st)
    (ht : t ∉ st.visited) :
    LowInv v ((t, .pend) :: (u, .run (P ++ [t]) R) :: rest) (stPar st t u) := by
  have F := newFacts hwf hi C ht
  have hmem : (u, FS.run P (t :: R)) ∈ (u, FS.run P (t :: R)) :: rest := List.mem_cons_self ..
  refine { low_le := L.low_le, proc_low := ?_, done_low := ?_, low_fold := ?_, low_att := ?_ }
  · intro x P' R' w hm hw hwv hwp
    cases List.mem_cons.mp hm with
    | inl h => cases h
    | inr h =>
      cases List.mem_cons.mp h with
      | inl h' =>
        cases h'
        rw [F.hpOv u F.huv] at hwp
        rcases List.mem_append.mp hw with hw' | hw'
        · exact L.proc_low u P (t :: R) w hmem hw' hwv hwp
        · simp only [List.mem_singleton] at hw'; subst hw'; exact (ht hwv).elim
      | inr h' =>
        rw [F.hpOv x (F.hGvis x _ (List.mem_cons_of_mem _ h'))] at hwp
        exact L.proc_low x P' R' w (List.mem_cons_of_mem _ h') hw hwv hwp
  · intro x w hf hw hwp
    obtain ⟨_, _, hf'⟩ := finished_new ht hf
    rw [F.hpOv x hf'.1] at hwp
    exact L.done_low x w hf' hw hwp
  · intro c u' hp hf
    have hf' := folded_new hf
    rw [F.hpOv c hf'.1] at hp
    exact L.low_fold c u' hp hf'
  · intro x hxv
    rcases L.low_att x hxv with h1 | ⟨w, hw, hwv, h1⟩ | ⟨c', hc', hf, h1⟩
    · exact Or.inl h1
    · exact Or.inr (Or.inl ⟨w, hw, hwv, h1⟩)
    · exact Or.inr (Or.inr ⟨c', by rw [F.hpOv c' hf.1]; exact hc', folded_new_mk ht hf, h1⟩)

theorem aps_new (hwf : v.g.WellFormed) (hi : IndexOk v)
    (C : Core v ((u, .run P (t :: R)) :: rest) st) (A : ApsInv ((u, .run P (t :: R)) :: rest) st)
    (ht : t ∉ st.visited) :
    ApsInv ((t, .pend) :: (u, .run (P ++ [t]) R) :: rest) (stPar st t u) := by
  have F := newFacts hwf hi C ht
  have hch : ∀ c r, pO st c = some r → pO (stPar st t u) c = some r := by
    intro c r h
    rw [F.hpO, if_neg]; exact h
    intro h'; subst h'; rw [F.hpt] at h; cases h
  refine { aps_vis := A.aps_vis, aps_sound := ?_, aps_nonroot := ?_, aps_root := ?_ }
  · intro i hia
    have hiv := A.aps_vis i hia
    rcases A.aps_sound i hia with ⟨q, c', h1, h2, h3, h4⟩ | ⟨h0, c1, c2, hne, h1, h2⟩
    · exact Or.inl ⟨q, c', hch _ _ h1, hch _ _ h2, folded_new_mk ht h3, h4⟩
    · exact Or.inr ⟨by rw [F.hpOv i hiv]; exact h0, c1, c2, hne, hch _ _ h1, hch _ _ h2⟩
  · intro u' q c' h1 h2 hf hle
    have hf' := folded_new hf
    rw [F.hpOv c' hf'.1] at h2
    rw [F.hpOv u' (C.par_vis c' u' h2).1] at h1
    exact A.aps_nonroot u' q c' h1 h2 hf' hle
  · intro r c1 c2 h0 hf hne h1 h2
    obtain ⟨hru, hrt, hf'⟩ := finished_new ht hf
    rw [F.hpOv r hf'.1] at h0
    have key : ∀ c, pO (stPar st t u) c = some r → pO st c = some r := by
      intro c hc
      rw [F.hpO] at hc
      split at hc
      · cases hc; exact (hru rfl).elim
      · exact hc
    exact A.aps_root r c1 c2 h0 hf' hne (key c1 h1) (key c2 h2)

theorem inv_new (hwf : v.g.WellFormed) (hi : IndexOk v)
    (I : Inv v ((u, .run P (t :: R)) :: rest) st) (ht : t ∉ st.visited) :
    Inv v ((t, .pend) :: (u, .run (P ++ [t]) R) :: rest) (stPar st t u) :=
  ⟨core_new hwf hi I.core ht, low_new hwf hi I.core I.low ht, aps_new hwf hi I.core I.aps ht⟩

end
end PetgraphModel.C16P.W2Ap
