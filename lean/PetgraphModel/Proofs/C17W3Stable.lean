import PetgraphModel.Proofs.SerdeDe
import PetgraphModel.Proofs.StableGraph
/-
Helper lemmas for C17, wave 3 (part 1): the `StableGraph` of the serde model (`Serde.Stable`, C17) and the
`StableGraph` of C02 (`SG.State`) are the same data structure.

`embedStable` / `unembedStable` translate between the two representations (same two arrays, same `next`
pointers, same free lists, same counts; the C02 state carries the two extra build parameters `noLimit` and
`debug`).  The serde invariant `StableInv` plus the clause "vacant edge slots carry `end()` in both endpoint
fields" (`VacEnd`; `StableInv` does not record it, `from_deserialized` establishes it) is exactly the C02
invariant `SGProofs.Inv` of the embedded state, in both directions.
-/
namespace PetgraphModel.SerdeProofs
open PetgraphModel PetgraphModel.Serde

/-! ### the embedding -/

def embN (n : NodeSlot) : SG.Node := { w := n.w, n0 := n.n0, n1 := n.n1 }
def embE (e : EdgeSlot) : SG.Edge := { w := e.w, n0 := e.n0, n1 := e.n1, a := e.src, b := e.tgt }
def unN (n : SG.Node) : NodeSlot := { w := n.w, n0 := n.n0, n1 := n.n1 }
def unE (e : SG.Edge) : EdgeSlot := { w := e.w, n0 := e.n0, n1 := e.n1, src := e.a, tgt := e.b }

/-- a `StableGraph` of the serde model as a `StableGraph` state of the C02 model (`noLimit`: the index type is
`usize`; `debug`: debug assertions are compiled in) -/
def embedStable (noLimit debug : Bool) (s : Stable) : SG.State :=
  { directed := s.g.directed, fin := s.g.END, noLimit := noLimit, debug := debug,
    nodes := s.g.nodes.map embN, edges := s.g.edges.map embE,
    nodeCount := s.nodeCount, edgeCount := s.edgeCount, freeNode := s.freeNode, freeEdge := s.freeEdge }

/-- the inverse: a C02 state as a `StableGraph` of the serde model (forgets `noLimit` and `debug`) -/
def unembedStable (t : SG.State) : Stable :=
  { g := { END := t.fin, directed := t.directed, nodes := t.nodes.map unN, edges := t.edges.map unE },
    nodeCount := t.nodeCount, edgeCount := t.edgeCount, freeNode := t.freeNode, freeEdge := t.freeEdge }

@[simp] theorem unN_embN (n : NodeSlot) : unN (embN n) = n := rfl
@[simp] theorem embN_unN (n : SG.Node) : embN (unN n) = n := rfl
@[simp] theorem unE_embE (e : EdgeSlot) : unE (embE e) = e := rfl
@[simp] theorem embE_unE (e : SG.Edge) : embE (unE e) = e := rfl

theorem unembed_embedStable (noLimit debug : Bool) (s : Stable) : unembedStable (embedStable noLimit debug s) = s := by
  obtain ⟨⟨END, d, ns, es⟩, nc, ec, fn, fe⟩ := s
  simp [unembedStable, embedStable, List.map_map, Function.comp_def]

theorem embed_unembedStable (t : SG.State) : embedStable t.noLimit t.debug (unembedStable t) = t := by
  obtain ⟨d, fin, nl, dbg, ns, es, nc, ec, fn, fe⟩ := t
  simp [unembedStable, embedStable, List.map_map, Function.comp_def]

theorem embE_next (e : EdgeSlot) (k : Nat) : (embE e).next k = e.next k := rfl
theorem unE_next (e : SG.Edge) (k : Nat) : (unE e).next k = e.next k := rfl
theorem embE_node (e : EdgeSlot) (k : Nat) : (embE e).node k = e.node k := rfl

theorem getElem?_map_some {α β} {f : α → β} {l : List α} {i : Nat} {y : β} (h : (l.map f)[i]? = some y) :
    ∃ x, l[i]? = some x ∧ y = f x := by
  rw [List.getElem?_map] at h
  cases hx : l[i]? with
  | none => simp [hx] at h
  | some x => simp [hx] at h; exact ⟨x, rfl, h.symm⟩

theorem getElem?_map_of {α β} (f : α → β) {l : List α} {i : Nat} {x : α} (h : l[i]? = some x) :
    (l.map f)[i]? = some (f x) := by
  rw [List.getElem?_map, h]; rfl

/-! ### chains -/

theorem chain_to_sg {edges : List EdgeSlot} {END k h : Nat} {l : List Nat} (hlen : edges.length ≤ END)
    (c : Chain edges END k h l) : SGProofs.Chain (SGProofs.enext (edges.map embE) k) END h l := by
  induction c with
  | nil => exact .nil
  | cons e s l hs _ ih =>
    refine .cons ?_ ?_ ih
    · have := (List.getElem?_eq_some_iff.1 hs).1; omega
    · exact SGProofs.enext_some.2 ⟨embE s, getElem?_map_of embE hs, embE_next s k⟩

theorem chain_of_sg {es : List SG.Edge} {fin k h : Nat} {l : List Nat}
    (c : SGProofs.Chain (SGProofs.enext es k) fin h l) : Chain (es.map unE) fin k h l := by
  induction c with
  | nil => exact .nil
  | @cons i j l _ h2 _ ih =>
    obtain ⟨x, hx, hn⟩ := SGProofs.enext_some.1 h2
    refine .cons i (unE x) l (getElem?_map_of unE hx) ?_
    rw [unE_next, hn]; exact ih

theorem dchain_to_sg {nodes : List NodeSlot} {END p h : Nat} {l : List Nat} (hlen : nodes.length ≤ END)
    (c : DChain nodes END p h l) :
    SGProofs.Chain (SGProofs.nfree (nodes.map embN)) END h l ∧ SGProofs.Back (nodes.map embN) p l := by
  induction c with
  | nil p => exact ⟨.nil, trivial⟩
  | cons p h s l hs hw hp _ ih =>
    refine ⟨.cons ?_ ?_ ih.1, ⟨embN s, getElem?_map_of embN hs, hp⟩, ih.2⟩
    · have := (List.getElem?_eq_some_iff.1 hs).1; omega
    · exact SGProofs.nfree_some.2 ⟨embN s, getElem?_map_of embN hs, rfl⟩

theorem dchain_of_sg {ns : List SG.Node} {fin : Nat} : ∀ {l : List Nat} {p h : Nat},
    SGProofs.Chain (SGProofs.nfree ns) fin h l → SGProofs.Back ns p l →
    (∀ i, i ∈ l → ∃ n, ns[i]? = some n ∧ n.w = none) → DChain (ns.map unN) fin p h l := by
  intro l
  induction l with
  | nil =>
    intro p h c _ _
    rw [SGProofs.Chain.nil_iff.1 c]; exact .nil p
  | cons i l ih =>
    intro p h c hb hv
    obtain ⟨rfl, _, j, h2, h3⟩ := SGProofs.Chain.cons_iff.1 c
    obtain ⟨n, hn, hnj⟩ := SGProofs.nfree_some.1 h2
    obtain ⟨⟨n', hn', hp⟩, hb'⟩ := hb
    rw [hn] at hn'; cases hn'
    obtain ⟨n'', hn'', hw⟩ := hv i List.mem_cons_self
    rw [hn] at hn''; cases hn''
    refine .cons p i (unN n) l (getElem?_map_of unN hn) hw hp ?_
    show DChain (ns.map unN) fin i n.n0 l
    rw [hnj]
    exact ih h3 hb' (fun i hi => hv i (List.mem_cons_of_mem _ hi))

/-! ### the missing clause -/

/-- vacant edge slots carry `end()` in both endpoint fields (what `remove_edge`, `add_vacant_edge` and
`from_deserialized` write; part of the C02 invariant, not recorded by `StableInv`) -/
def VacEnd (s : Stable) : Prop :=
  ∀ (e : Nat) (x : EdgeSlot), s.g.edges[e]? = some x → x.w = none → x.src = s.g.END ∧ x.tgt = s.g.END

theorem countP_map_embN (l : List NodeSlot) :
    (l.map embN).countP (fun n => n.w.isSome) = (l.filter (fun (n : NodeSlot) => n.w.isSome)).length := by
  rw [List.countP_map, List.countP_eq_length_filter]; rfl

theorem countP_map_embE (l : List EdgeSlot) :
    (l.map embE).countP (fun n => n.w.isSome) = (l.filter (fun (n : EdgeSlot) => n.w.isSome)).length := by
  rw [List.countP_map, List.countP_eq_length_filter]; rfl

theorem filter_map_unN (l : List SG.Node) :
    ((l.map unN).filter (fun (n : NodeSlot) => n.w.isSome)).length = l.countP (fun n => n.w.isSome) := by
  rw [← countP_map_embN, List.map_map]
  simp [Function.comp_def]

theorem filter_map_unE (l : List SG.Edge) :
    ((l.map unE).filter (fun (n : EdgeSlot) => n.w.isSome)).length = l.countP (fun n => n.w.isSome) := by
  rw [← countP_map_embE, List.map_map]
  simp [Function.comp_def]

/-! ### serde invariant ⇒ C02 invariant -/

theorem inv_embedStable (noLimit debug : Bool) (s : Stable) (hI : StableInv s) (hv : VacEnd s) :
    SGProofs.Inv (embedStable noLimit debug s) := by
  have hlenN := hI.lenN
  have hlenE := hI.lenE
  refine { lenN := by simpa [embedStable] using hlenN, lenE := by simpa [embedStable] using hlenE,
           vacE := ?_, endp := ?_, adj := ?_, freeE := ?_, freeN := ?_, det := ?_, cntN := ?_, cntE := ?_ }
  · intro e x hx hw
    obtain ⟨y, hy, rfl⟩ := getElem?_map_some (f := embE) hx
    exact hv e y hy hw
  · intro e x hx hw k hk
    obtain ⟨y, hy, rfl⟩ := getElem?_map_some (f := embE) hx
    obtain ⟨⟨a, ha1, ha2⟩, ⟨b, hb1, hb2⟩⟩ := hI.endpoints e y hy hw
    have hk' : k = 0 ∨ k = 1 := by omega
    rcases hk' with rfl | rfl
    · exact ⟨embN a, getElem?_map_of embN ha1, Or.inl ha2⟩
    · exact ⟨embN b, getElem?_map_of embN hb1, Or.inl hb2⟩
  · intro k hk i n hn hact
    obtain ⟨nd, hnd, rfl⟩ := getElem?_map_some (f := embN) hn
    have hlive : nd.w.isSome = true := by
      rcases hact with h | h
      · exact h
      · cases h
    have hk' : k = 0 ∨ k = 1 := by omega
    rcases hk' with rfl | rfl
    · obtain ⟨l, hc, _, hm⟩ := hI.out i nd hnd hlive
      refine ⟨l, chain_to_sg hlenE hc, fun e => ?_⟩
      rw [hm e]
      constructor
      · rintro ⟨x, hx, hw, hs⟩
        exact ⟨by simp, embE x, getElem?_map_of embE hx, hw, hs⟩
      · rintro ⟨_, x, hx, hw, hs⟩
        obtain ⟨y, hy, rfl⟩ := getElem?_map_some (f := embE) hx
        exact ⟨y, hy, hw, hs⟩
    · obtain ⟨l, hc, _, hm⟩ := hI.inn i nd hnd hlive
      refine ⟨l, chain_to_sg hlenE hc, fun e => ?_⟩
      rw [hm e]
      constructor
      · rintro ⟨x, hx, hw, hs⟩
        exact ⟨by simp, embE x, getElem?_map_of embE hx, hw, hs⟩
      · rintro ⟨_, x, hx, hw, hs⟩
        obtain ⟨y, hy, rfl⟩ := getElem?_map_some (f := embE) hx
        exact ⟨y, hy, hw, hs⟩
  · obtain ⟨l, hc, _, hm⟩ := hI.freeEdges
    refine ⟨l, chain_to_sg hlenE hc, fun e => ?_⟩
    rw [hm e]
    constructor
    · rintro ⟨x, hx, hw⟩; exact ⟨embE x, getElem?_map_of embE hx, hw⟩
    · rintro ⟨x, hx, hw⟩
      obtain ⟨y, hy, rfl⟩ := getElem?_map_some (f := embE) hx
      exact ⟨y, hy, hw⟩
  · obtain ⟨l, hc, _, hm⟩ := hI.freeNodes
    obtain ⟨h1, h2⟩ := dchain_to_sg hlenN hc
    refine ⟨l, h1, fun i => ?_, h2⟩
    rw [hm i]
    constructor
    · rintro ⟨x, hx, hw⟩; exact ⟨embN x, getElem?_map_of embN hx, hw, by simp⟩
    · rintro ⟨x, hx, hw, _⟩
      obtain ⟨y, hy, rfl⟩ := getElem?_map_some (f := embN) hx
      exact ⟨y, hy, hw⟩
  · intro i hi; cases hi
  · show s.nodeCount = (s.g.nodes.map embN).countP (fun n => n.w.isSome) + 0
    rw [countP_map_embN, hI.nodeCount]; rfl
  · show s.edgeCount = (s.g.edges.map embE).countP (fun n => n.w.isSome)
    rw [countP_map_embE, hI.edgeCount]

/-! ### C02 invariant ⇒ serde invariant -/

theorem stableInv_unembed (t : SG.State) (hI : SGProofs.Inv t) :
    StableInv (unembedStable t) ∧ VacEnd (unembedStable t) := by
  have hlenE : t.edges.length ≤ t.fin := hI.lenE
  refine ⟨{ lenN := by simpa [unembedStable] using hI.lenN, lenE := by simpa [unembedStable] using hI.lenE,
            endpoints := ?_, out := ?_, inn := ?_, freeEdges := ?_, freeNodes := ?_, nodeCount := ?_, edgeCount := ?_ }, ?_⟩
  · intro e x hx hw
    obtain ⟨y, hy, rfl⟩ := getElem?_map_some (f := unE) hx
    obtain ⟨a, ha1, ha2⟩ := hI.endp e y hy hw 0 (by omega)
    obtain ⟨b, hb1, hb2⟩ := hI.endp e y hy hw 1 (by omega)
    refine ⟨⟨unN a, getElem?_map_of unN ha1, ?_⟩, ⟨unN b, getElem?_map_of unN hb1, ?_⟩⟩
    · rcases ha2 with h | h
      · exact h
      · cases h
    · rcases hb2 with h | h
      · exact h
      · cases h
  · intro i nd hnd hlive
    obtain ⟨n, hn, rfl⟩ := getElem?_map_some (f := unN) hnd
    obtain ⟨l, hc, hm⟩ := hI.adj 0 (by omega) i n hn (Or.inl hlive)
    refine ⟨l, chain_of_sg hc, hc.nodup, fun e => ?_⟩
    rw [hm e]
    constructor
    · rintro ⟨_, x, hx, hw, hs⟩; exact ⟨unE x, getElem?_map_of unE hx, hw, hs⟩
    · rintro ⟨x, hx, hw, hs⟩
      obtain ⟨y, hy, rfl⟩ := getElem?_map_some (f := unE) hx
      exact ⟨by simp, y, hy, hw, hs⟩
  · intro i nd hnd hlive
    obtain ⟨n, hn, rfl⟩ := getElem?_map_some (f := unN) hnd
    obtain ⟨l, hc, hm⟩ := hI.adj 1 (by omega) i n hn (Or.inl hlive)
    refine ⟨l, chain_of_sg hc, hc.nodup, fun e => ?_⟩
    rw [hm e]
    constructor
    · rintro ⟨_, x, hx, hw, hs⟩; exact ⟨unE x, getElem?_map_of unE hx, hw, hs⟩
    · rintro ⟨x, hx, hw, hs⟩
      obtain ⟨y, hy, rfl⟩ := getElem?_map_some (f := unE) hx
      exact ⟨by simp, y, hy, hw, hs⟩
  · obtain ⟨l, hc, hm⟩ := hI.freeE
    refine ⟨l, chain_of_sg hc, hc.nodup, fun e => ?_⟩
    rw [hm e]
    constructor
    · rintro ⟨x, hx, hw⟩; exact ⟨unE x, getElem?_map_of unE hx, hw⟩
    · rintro ⟨x, hx, hw⟩
      obtain ⟨y, hy, rfl⟩ := getElem?_map_some (f := unE) hx
      exact ⟨y, hy, hw⟩
  · obtain ⟨l, hc, hm, hb⟩ := hI.freeN
    refine ⟨l, dchain_of_sg hc hb (fun i hi => ?_), hc.nodup, fun i => ?_⟩
    · obtain ⟨n, hn, hw, _⟩ := (hm i).1 hi
      exact ⟨n, hn, hw⟩
    · rw [hm i]
      constructor
      · rintro ⟨x, hx, hw, _⟩; exact ⟨unN x, getElem?_map_of unN hx, hw⟩
      · rintro ⟨x, hx, hw⟩
        obtain ⟨y, hy, rfl⟩ := getElem?_map_some (f := unN) hx
        exact ⟨y, hy, hw, by simp⟩
  · show t.nodeCount = ((t.nodes.map unN).filter (fun (n : NodeSlot) => n.w.isSome)).length
    rw [filter_map_unN, hI.cntN]; rfl
  · show t.edgeCount = ((t.edges.map unE).filter (fun (n : EdgeSlot) => n.w.isSome)).length
    rw [filter_map_unE, hI.cntE]
  · intro e x hx hw
    obtain ⟨y, hy, rfl⟩ := getElem?_map_some (f := unE) hx
    exact hI.vacE e y hy hw

/-! ### loaded graphs satisfy the missing clause -/

theorem fromDeserializedStable_vacEnd {END : Nat} {directed : Bool} {w : Wire} {s : Stable}
    (h : fromDeserializedStable END directed w = .ok s) : VacEnd s := by
  obtain ⟨D, _, _, _, hS⟩ := fromDeserializedStable_de h
  intro e x hx hw
  have h1 : (s.g.edges.map skel)[e]? = some (skel x) := getElem?_map_of skel hx
  rw [hS, List.map_map] at h1
  obtain ⟨y, _, hy⟩ := getElem?_map_some h1
  rw [D.hEND]
  cases y with
  | none =>
    simp only [Function.comp, skel, wireEdge, Prod.mk.injEq] at hy
    exact ⟨hy.2.1, hy.2.2⟩
  | some t =>
    obtain ⟨a, b, c⟩ := t
    simp only [Function.comp, skel, wireEdge, Prod.mk.injEq] at hy
    rw [hw] at hy
    exact absurd hy.1 (by simp)

theorem deStable_vacEnd {END : Nat} {directed : Bool} {order : List Field} {w : Wire} {s : Stable}
    (h : deStable END directed order w = .ok s) : VacEnd s := by
  unfold deStable at h
  split at h
  · simp at h
  · exact fromDeserializedStable_vacEnd h

/-- every loaded `StableGraph`, embedded into the C02 model, satisfies the C02 invariant -/
theorem deStable_inv_c02 {END : Nat} {directed : Bool} {order : List Field} {w : Wire} {s : Stable}
    (noLimit debug : Bool) (h : deStable END directed order w = .ok s) :
    SGProofs.Inv (embedStable noLimit debug s) :=
  inv_embedStable noLimit debug s (deStable_de h).inv (deStable_vacEnd h)

/-! ### bounds agree -/

theorem boundOf_map_unN (l : List SG.Node) :
    boundOf (fun (n : NodeSlot) => n.w.isSome) (l.map unN) = SG.boundOf (l.map (·.w)) := by
  induction l with
  | nil => rfl
  | cons x xs ih => simp only [List.map_cons, boundOf, SG.boundOf, ih]; rfl

theorem boundOf_map_unE (l : List SG.Edge) :
    boundOf (fun (n : EdgeSlot) => n.w.isSome) (l.map unE) = SG.boundOf (l.map (·.w)) := by
  induction l with
  | nil => rfl
  | cons x xs ih => simp only [List.map_cons, boundOf, SG.boundOf, ih]; rfl

theorem nodeBound_unembed (t : SG.State) : (unembedStable t).nodeBound = SG.nodeBound t := boundOf_map_unN t.nodes
theorem edgeBound_unembed (t : SG.State) : (unembedStable t).edgeBound = SG.edgeBound t := boundOf_map_unE t.edges

theorem boundOf_map_embN (l : List NodeSlot) :
    SG.boundOf ((l.map embN).map (·.w)) = boundOf (fun (n : NodeSlot) => n.w.isSome) l := by
  induction l with
  | nil => rfl
  | cons x xs ih => simp only [List.map_cons, boundOf, SG.boundOf, ih]; rfl

theorem boundOf_map_embE (l : List EdgeSlot) :
    SG.boundOf ((l.map embE).map (·.w)) = boundOf (fun (n : EdgeSlot) => n.w.isSome) l := by
  induction l with
  | nil => rfl
  | cons x xs ih => simp only [List.map_cons, boundOf, SG.boundOf, ih]; rfl

theorem nodeBound_embed (nl dbg : Bool) (s : Stable) : SG.nodeBound (embedStable nl dbg s) = s.nodeBound :=
  boundOf_map_embN s.g.nodes
theorem edgeBound_embed (nl dbg : Bool) (s : Stable) : SG.edgeBound (embedStable nl dbg s) = s.edgeBound :=
  boundOf_map_embE s.g.edges

/-! ### the clause is needed -/

/-- a serde-model state satisfying `StableInv` whose embedding violates the C02 invariant: one vacant edge slot,
correctly on the free list, whose endpoint fields are not `end()` -/
def badVac : Stable :=
  { g := { END := 3, directed := true, nodes := [], edges := [{ w := none, n0 := 3, n1 := 3, src := 0, tgt := 0 }] },
    nodeCount := 0, edgeCount := 0, freeNode := 3, freeEdge := 0 }

theorem badVac_inv : StableInv badVac := by
  refine { lenN := by decide, lenE := by decide, endpoints := ?_, out := ?_, inn := ?_, freeEdges := ?_,
           freeNodes := ?_, nodeCount := rfl, edgeCount := rfl }
  · intro e s hs hw
    have : e < 1 := (List.getElem?_eq_some_iff.1 hs).1
    have he : e = 0 := by omega
    subst he
    simp [badVac] at hs; subst hs; simp at hw
  · intro i nd hi; simp [badVac] at hi
  · intro i nd hi; simp [badVac] at hi
  · refine ⟨[0], .cons 0 _ [] rfl .nil, by simp, fun e => ?_⟩
    constructor
    · intro he; simp at he; subst he; exact ⟨_, rfl, rfl⟩
    · rintro ⟨x, hx, _⟩
      have : e < 1 := (List.getElem?_eq_some_iff.1 hx).1
      simp; omega
  · refine ⟨[], .nil _, by simp, fun e => ?_⟩
    simp [badVac]

theorem badVac_not_c02 (noLimit debug : Bool) : ¬ SGProofs.Inv (embedStable noLimit debug badVac) := by
  intro h
  have := h.vacE 0 (embE { w := none, n0 := 3, n1 := 3, src := 0, tgt := 0 }) rfl rfl
  simp [embE, embedStable, badVac] at this

end PetgraphModel.SerdeProofs
