import PetgraphModel.Proofs.MatrixGraph
/-
C04 wave 5, goal 4 — a zero written through `edge_weight_mut` / `IndexMut` of a `NotZero` graph.

`NotZero(0)` IS the null element (`is_null` = `is_zero`), and `edge_weight_mut` hands out a plain `&mut E`
into the cell: writing `0` erases the edge, but `nb_edges` is not told.  This is outside the documented
use of `NotZero` ("a sentinel value (such as 0) to mark the absence of an edge") and outside the
property's quantifier (`Valid` excludes it); here is what the model — which follows the code — does.
-/
namespace PetgraphModel.MatrixProofs
open PetgraphModel.Matrix PetgraphModel.MatrixSpec

theorem rawCell_zero : rawCell true 0 = none := rfl

theorem edgeRefs_nbEdges (s : State) (n : Nat) : edgeRefs { s with nbEdges := n } = edgeRefs s := rfl

theorem getEdgeWeight_nbEdges (s : State) (n : Nat) (x y : Nat) :
    getEdgeWeight { s with nbEdges := n } x y = getEdgeWeight s x y := rfl

/-- **zero through `edge_weight_mut` of a `NotZero` graph**: the call succeeds; afterwards every edge
observer describes `g.removeEdge a b` (the edge is gone, nothing else changed), the representation
invariant still holds, but `edge_count()` still counts the erased edge — it is one more than the number
of edges `edge_references()` yields — so the state describes NO simple graph any more. -/
theorem zero_through_mut {s : State} {g : G} (h : Inv s) (r : R s g) (hnz : s.nz = true) {a b : Nat} {v : Int}
    (he : g.weight a b = some v) :
    ∃ s', setEdgeWeight s a b 0 = (s', .unit) ∧ Inv s' ∧
      (∀ x y, getEdgeWeight s' x y = (g.removeEdge a b).weight x y) ∧
      s'.nodes = s.nodes ∧ s'.cap = s.cap ∧
      s'.nbEdges = g.edgeCount ∧ (g.removeEdge a b).edgeCount + 1 = g.edgeCount ∧
      (edgeRefs s').length + 1 = s'.nbEdges ∧ (∀ g', ¬ R s' g') := by
  have hw : getEdgeWeight s a b = some v := by rw [← r.edges]; exact he
  have hm : max a b < s.cap := by
    rw [getEdgeWeight_def] at hw
    by_cases hm : max a b ≥ s.cap
    · rw [if_pos hm] at hw; cases hw
    · omega
  obtain ⟨c, hcell, hcw⟩ := cell_in_bounds h hm
  rw [hw] at hcw
  obtain ⟨hi2, r2, hpos⟩ := R_clearCell h r hm
  rw [hw] at hi2 r2 hpos
  simp only [Option.isSome_some, if_true] at hi2 r2
  have hpos' : 0 < s.nbEdges := hpos rfl
  -- the state the call leaves behind
  refine ⟨{ s with adj := s.adj.setIfInBounds (linPos s.dir a b s.cap) none }, ?_, ?_, ?_, rfl, rfl, ?_, ?_, ?_, ?_⟩
  · unfold setEdgeWeight edgeWeight edgePos
    rw [if_neg (by omega)]
    simp only [hcell, ← hcw, hnz, rawCell_zero]
  · exact ⟨hi2.ids, hi2.size, fun hz x y => hi2.nzOk hz x y, hi2.ubIx⟩
  · intro x y
    rw [r2.edges]; rfl
  · exact r.count.symm
  · have := r2.count
    rw [this]
    show s.nbEdges - 1 + 1 = g.edgeCount
    rw [r.count]; omega
  · have h2 := edgeRefs_length r2
    have hE : edgeRefs { s with adj := s.adj.setIfInBounds (linPos s.dir a b s.cap) none } =
        edgeRefs { s with adj := s.adj.setIfInBounds (linPos s.dir a b s.cap) none, nbEdges := s.nbEdges - 1 } := rfl
    rw [hE, h2]
    show s.nbEdges - 1 + 1 = s.nbEdges
    omega
  · intro g' r'
    have h1 := edgeRefs_length r'
    have h2 := edgeRefs_length r2
    have hE : edgeRefs { s with adj := s.adj.setIfInBounds (linPos s.dir a b s.cap) none } =
        edgeRefs { s with adj := s.adj.setIfInBounds (linPos s.dir a b s.cap) none, nbEdges := s.nbEdges - 1 } := rfl
    rw [hE, h2] at h1
    change s.nbEdges - 1 = s.nbEdges at h1
    omega

end PetgraphModel.MatrixProofs
