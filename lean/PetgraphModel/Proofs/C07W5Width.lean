import PetgraphModel.Theorems.C01
/-
C07, wave 5, goal 4 — the width of the index type.

No ALGORITHM model has an index width: every model is a function of a `View`, whose node ids, `to_index` values and
`node_bound` are natural numbers; a width `w` constrains a view only through "the indices fit" (`node_bound ≤ 2^w − 1`).
The width IS a parameter of the STORAGE model of `Graph` (`G.State.endv = Ix::max()`, used as the `end` marker of the
adjacency lists and as the capacity limit of `add_node` / `add_edge`).  This file shows that there it is irrelevant as
long as the indices fit: the same construction history (`add_node` / `add_edge` calls — what the encoders of the harness
perform) run with two different widths, neither of which is exhausted, answers every call identically and ends in states
with the same node weights and the same `(source, target, weight)` at every edge index.  Proof: both runs refine
(`C01_all_histories`, for every width) the run of the plain-multigraph specification, which is a function of the history
alone when its capacity is not reached.
-/
namespace PetgraphModel.C07W5
open PetgraphModel PetgraphModel.G PetgraphModel.GProofs

/-- a construction call: `add_node` / `add_edge` -/
def isBuild : Op → Bool
  | .addNode _ => true
  | .addEdge _ _ _ => true
  | _ => false

/-- the specification's run of a construction history when no capacity limit is hit -/
def build (sp : CGS.Spec) : List Op → CGS.Spec × List Out
  | [] => (sp, [])
  | .addNode w :: ops =>
    let r := build { sp with nodes := sp.nodes ++ [w] } ops
    (r.1, .nat sp.nodes.length :: r.2)
  | .addEdge a b w :: ops =>
    if a < sp.nodes.length && b < sp.nodes.length then
      let r := build { sp with edges := sp.edges ++ [⟨a, b, w, sp.clock⟩], clock := sp.clock + 1 } ops
      (r.1, .nat sp.edges.length :: r.2)
    else
      let r := build sp ops
      (r.1, .panic :: r.2)
  | _ :: ops => build sp ops

/-- below its capacity the specification relation is this function -/
theorem specRun2_build : ∀ (ops : List Op) (sp sp' : CGS.Spec) (os : List Out),
    (∀ op ∈ ops, isBuild op = true) → sp.nodes.length + ops.length ≤ sp.cap → sp.edges.length + ops.length ≤ sp.cap →
    SpecRun2 sp ops os sp' → sp' = (build sp ops).1 ∧ os = (build sp ops).2
  | [], sp, sp', os, _, _, _, h => by cases h; exact ⟨rfl, rfl⟩
  | op :: ops, sp, sp', os, hb, hn, he, h => by
    cases h with
    | cons hacc hrun =>
      rename_i sp1 o os'
      have hbo := hb op (List.mem_cons_self ..)
      have hbr : ∀ x ∈ ops, isBuild x = true := fun x hx => hb x (List.mem_cons_of_mem _ hx)
      simp only [List.length_cons] at hn he
      cases op with
      | addNode w =>
        have hnf : CGS.full sp sp.nodes.length = false := by simp [CGS.full]; omega
        have hacc' : o = .nat sp.nodes.length ∧ sp1 = { sp with nodes := sp.nodes ++ [w] } := by
          simpa [SpecAccepts2, SpecAccepts, CGS.addNode, hnf] using hacc
        obtain ⟨rfl, rfl⟩ := hacc'
        obtain ⟨e1, e2⟩ := specRun2_build ops _ sp' os' hbr (by simp; omega) (by simp; omega) hrun
        exact ⟨by simp only [build]; exact e1, by simp only [build]; rw [e2]⟩
      | addEdge a b w =>
        have hnf : CGS.full sp sp.edges.length = false := by simp [CGS.full]; omega
        by_cases hab : (a < sp.nodes.length && b < sp.nodes.length) = true
        · have hacc' : o = .nat sp.edges.length ∧
              sp1 = { sp with edges := sp.edges ++ [⟨a, b, w, sp.clock⟩], clock := sp.clock + 1 } := by
            simpa [SpecAccepts2, SpecAccepts, AddEdgeAcc, CGS.addEdge, hnf, hab] using hacc
          obtain ⟨rfl, rfl⟩ := hacc'
          obtain ⟨e1, e2⟩ := specRun2_build ops _ sp' os' hbr (by simp; omega) (by simp; omega) hrun
          exact ⟨by simp only [build, hab, if_true]; exact e1, by simp only [build, hab, if_true]; rw [e2]⟩
        · have hab' : (a < sp.nodes.length && b < sp.nodes.length) = false := by simpa using hab
          have hacc' : sp1 = sp ∧ o = .panic := by
            simpa [SpecAccepts2, SpecAccepts, AddEdgeAcc, CGS.addEdge, hnf, hab'] using hacc
          obtain ⟨rfl, rfl⟩ := hacc'
          obtain ⟨e1, e2⟩ := specRun2_build ops _ sp' os' hbr (by omega) (by omega) hrun
          exact ⟨by simp only [build, hab', Bool.false_eq_true, ↓reduceIte]; exact e1,
            by simp only [build, hab', Bool.false_eq_true, ↓reduceIte]; rw [e2]⟩
      | _ => simp [isBuild] at hbo

/-- `build` never looks at the capacity -/
theorem build_cap (c : Nat) : ∀ (ops : List Op) (sp : CGS.Spec),
    (build { sp with cap := c } ops).1.nodes = (build sp ops).1.nodes ∧
    (build { sp with cap := c } ops).1.edges = (build sp ops).1.edges ∧
    (build { sp with cap := c } ops).2 = (build sp ops).2
  | [], sp => ⟨rfl, rfl, rfl⟩
  | op :: ops, sp => by
    cases op with
    | addNode w =>
      have ih := build_cap c ops { sp with nodes := sp.nodes ++ [w] }
      simp only [build]
      exact ⟨ih.1, ih.2.1, by rw [ih.2.2]⟩
    | addEdge a b w =>
      simp only [build]
      by_cases hab : (a < sp.nodes.length && b < sp.nodes.length) = true
      · have ih := build_cap c ops { sp with edges := sp.edges ++ [⟨a, b, w, sp.clock⟩], clock := sp.clock + 1 }
        simp only [hab, if_true]
        exact ⟨ih.1, ih.2.1, by rw [ih.2.2]⟩
      · have ih := build_cap c ops sp
        have hab' : (a < sp.nodes.length && b < sp.nodes.length) = false := by simpa using hab
        simp only [hab', Bool.false_eq_true, ↓reduceIte]
        exact ⟨ih.1, ih.2.1, by rw [ih.2.2]⟩
    | _ => simpa only [build] using build_cap c ops sp

/-- **the width of the index type is irrelevant as long as the indices fit**: one construction history, two widths -/
theorem width_irrelevant (endv1 endv2 : Nat) (directed : Bool) (ops : List Op)
    (hb : ∀ op ∈ ops, isBuild op = true) (h1 : ops.length ≤ endv1) (h2 : ops.length ≤ endv2) :
    let r1 := run (G.empty endv1 directed) ops
    let r2 := run (G.empty endv2 directed) ops
    r1.2 = r2.2 ∧ r1.1.nodes.map (·.weight) = r2.1.nodes.map (·.weight) ∧
    r1.1.edges.map (fun e => (e.src, e.tgt, e.weight)) = r2.1.edges.map (fun e => (e.src, e.tgt, e.weight)) := by
  intro r1 r2
  obtain ⟨_, sp1, run1, n1, e1⟩ := C01T.C01_all_histories endv1 directed ops
  obtain ⟨_, sp2, run2, n2, e2⟩ := C01T.C01_all_histories endv2 directed ops
  obtain ⟨a1, b1⟩ := specRun2_build ops _ sp1 _ hb (by simpa [CGS.empty] using h1) (by simpa [CGS.empty] using h1) run1
  obtain ⟨a2, b2⟩ := specRun2_build ops _ sp2 _ hb (by simpa [CGS.empty] using h2) (by simpa [CGS.empty] using h2) run2
  have hc := build_cap endv2 ops (CGS.empty endv1 directed)
  have hE : ({ CGS.empty endv1 directed with cap := endv2 } : CGS.Spec) = CGS.empty endv2 directed := rfl
  rw [hE] at hc
  refine ⟨?_, ?_, ?_⟩
  · show (run (G.empty endv1 directed) ops).2 = (run (G.empty endv2 directed) ops).2
    rw [b1, b2, hc.2.2]
  · show (run (G.empty endv1 directed) ops).1.nodes.map (·.weight) = (run (G.empty endv2 directed) ops).1.nodes.map (·.weight)
    rw [← n1, ← n2, a1, a2, hc.1]
  · show (run (G.empty endv1 directed) ops).1.edges.map _ = (run (G.empty endv2 directed) ops).1.edges.map _
    rw [← e1, ← e2, a1, a2, hc.2.1]

end PetgraphModel.C07W5
