import PetgraphModel.Proofs.C20Base
/-
C20 — soundness of the simple-path judge: completeness of the definitional enumeration.
-/
namespace PetgraphModel.C20
open PetgraphModel PetgraphModel.MGraph PetgraphModel.Oracle

theorem isWalk_mem_nodes {g : MGraph} (hg : EndpointsOk g) :
    ∀ (p : List Nat), IsWalk g p → 2 ≤ p.length → ∀ x ∈ p, x ∈ g.nodes := by
  intro p
  induction p with
  | nil => intro _ hl; simp at hl
  | cons a t ih =>
    intro hw hl x hx
    cases t with
    | nil => simp at hl
    | cons b t' =>
      have hadj : g.Adj a b := hw.1
      have hn := adj_nodes hg hadj
      cases List.mem_cons.mp hx with
      | inl e => exact e ▸ hn.1
      | inr hx' =>
        cases t' with
        | nil =>
          have : x = b := by simpa using hx'
          exact this ▸ hn.2
        | cons c t'' => exact ih hw.2 (by simp) x hx'

/-- every simple path within the bounds is enumerated by the definitional oracle -/
theorem simplePaths_complete (g : MGraph) (hg : EndpointsOk g) (a b lo : Nat) (hi : Option Nat)
    (p : List Nat) (hp : IsSimplePathIn g a b lo hi p) : p ∈ simplePaths g a b lo hi := by
  obtain ⟨hnd, hhead, hlast, hwalk, hlo, hhi⟩ := hp
  -- shape of p
  cases p with
  | nil => simp at hhead
  | cons a' t =>
    have ha : a' = a := by simpa using hhead
    subst ha
    have htne : t ≠ [] := by
      intro h; subst h; simp at hlo
    have ht : t.dropLast ++ [t.getLast htne] = t := List.dropLast_concat_getLast htne
    have hb : t.getLast htne = b := by
      rw [List.getLast?_cons, List.getLast?_eq_some_getLast htne] at hlast
      simpa using hlast
    rw [hb] at ht
    -- the interior
    have hnd' := List.nodup_cons.mp hnd
    have hmidnd : t.dropLast.Nodup := List.Nodup.sublist (List.dropLast_sublist t) hnd'.2
    have hbnot : b ∉ t.dropLast := by
      have : (t.dropLast ++ [b]).Nodup := by rw [ht]; exact hnd'.2
      intro hmem
      have := (List.nodup_append.mp this).2.2 b hmem b (by simp)
      exact this rfl
    have hpool : ∀ x ∈ t.dropLast, x ∈ (g.nodes.erase a').erase b := by
      intro x hx
      have hxt : x ∈ t := List.dropLast_subset t hx
      have hxn : x ∈ g.nodes := isWalk_mem_nodes hg (a' :: t) hwalk (by omega) x (by simp [hxt])
      have hxa : x ≠ a' := fun e => hnd'.1 (e ▸ hxt)
      have hxb : x ≠ b := fun e => hbnot (e ▸ hx)
      exact (List.mem_erase_of_ne hxb).mpr ((List.mem_erase_of_ne hxa).mpr hxn)
    have hlen : ((g.nodes.erase a').erase b).length ≤ g.nodes.length :=
      Nat.le_trans List.length_erase_le List.length_erase_le
    have hmid := mem_seqs_of_nodup g.nodes.length _ _ hmidnd hpool hlen
    unfold simplePaths
    rw [List.mem_filter]
    refine ⟨List.mem_map.mpr ⟨t.dropLast, hmid, by rw [ht]⟩, ?_⟩
    simp only [decide_eq_true_eq]
    exact ⟨hnd, hhead, hlast, hwalk, hlo, hhi⟩

theorem judgePaths_sound (g : MGraph) (a b lo : Nat) (hi : Option Nat) (out : List (List Nat))
    (h : judgePaths g a b lo hi out = none) :
    (∀ p, p ∈ out ↔ IsSimplePathIn g a b lo hi p) ∧ (simpleB g = true → out.Nodup) := by
  unfold judgePaths at h
  have c0 : g.directed = true ∧ EndpointsOk g ∧ g.nodes.Nodup ∧ a ≠ b := clause_holds h (by mem_lit)
  have c1 : ∀ p ∈ out, IsSimplePathIn g a b lo hi p := clause_holds h (by mem_lit)
  have c2 : ∀ p ∈ simplePaths g a b lo hi, p ∈ out := clause_holds h (by mem_lit)
  have c3 : simpleB g = true → out.Nodup := clause_holds h (by mem_lit)
  exact ⟨fun p => ⟨c1 p, fun hp => c2 p (simplePaths_complete g c0.2.1 a b lo hi p hp)⟩, c3⟩

end PetgraphModel.C20
