import PetgraphModel.Proofs.CsrReaders
/-
C05, wave 3 — `Csr`: the node readers (`node_identifiers`, `node_references`, `IntoNeighbors::neighbors`)
against the abstract simple graph, the capacity of the index type along a history, and `add_node` at that
capacity (finding D31, repaired by commit 8cab180: the documented panic, structure unchanged, no wrapped index).
-/
set_option linter.style.nameCheck false
namespace PetgraphModel.CsrProofs
open PetgraphModel.CsrM PetgraphModel.AppendSpec

theorem SG.addEdge_n (g : SG) (a b : Nat) (w : Int) : (g.addEdge a b w).1.n = g.n := by
  unfold SG.addEdge
  split
  · split <;> rfl
  · rfl

/-- node count of the abstract graph after a call -/
theorem specStep_n (m : Nat) (g : SG) (op : Op) : (specStep m g op).1.n = nodesAfterC m g.n op := by
  cases op with
  | addNode w =>
    by_cases h : m = 0 ∨ g.n < m
    · have h' : m = 0 ∨ g.nodes.length < m := h
      simp [specStep, SG.addNodeCap_fit m g w h, SG.addNode, SG.n, nodesAfterC, h']
    · simp [specStep, SG.addNodeCap_full m g w h, nodesAfterC, h]
  | clearEdges => rfl
  | tryAddEdge a b w => exact SG.addEdge_n g a b w
  | addEdge a b w =>
    have := SG.addEdge_n g a b w
    simp only [specStep, nodesAfterC]
    split <;> (rename_i h; rw [h] at this; exact this)
  | setWeight a w =>
    simp only [specStep, SG.setWeight, nodesAfterC]
    split
    · rename_i h; split at h
      · injection h with h; subst h; simp [SG.n]
      · cases h
    · rfl

/-- no call takes the node count beyond the capacity of the index type -/
theorem nodesAfterC_cap (m n : Nat) (op : Op) (hc : m = 0 ∨ n ≤ m) : m = 0 ∨ nodesAfterC m n op ≤ m := by
  cases op with
  | addNode w => simp only [nodesAfterC]; split <;> omega
  | clearEdges => exact hc
  | tryAddEdge a b w => exact hc
  | addEdge a b w => exact hc
  | setWeight a w => exact hc

/-- **every** history that starts within the capacity of the index type ends within it (`add_node` panics
rather than exceed it) -/
theorem run_cap (m : Nat) (ops : List Op) (g : SG) (hc : m = 0 ∨ g.n ≤ m) :
    m = 0 ∨ (specRun m g ops).1.n ≤ m := by
  induction ops generalizing g with
  | nil => exact hc
  | cons op ops ih =>
    show m = 0 ∨ (specRun m (specStep m g op).1 ops).1.n ≤ m
    apply ih
    rw [specStep_n]
    exact nodesAfterC_cap m g.n op hc

/-- `node_identifiers()` / `node_references()` without any capacity assumption: the position is passed
through `Ix::new` -/
theorem node_readers_raw {s : State} {R : List Row} {g : SG} (good : Good s R) (abs : Abs s R g) :
    nodeIdentifiers s = (List.range g.n).map (mkIx s.modulus) ∧
    nodeReferences s = ((List.range g.n).map (mkIx s.modulus)).zip g.nodes := by
  have hn := Abs.n good abs
  refine ⟨by rw [nodeIdentifiers, good.rep.nodeCount, hn], ?_⟩
  unfold nodeReferences
  rw [← abs.nodes]
  show _ = ((List.range g.nodes.length).map _).zip _
  apply List.ext_getElem (by simp)
  intro j h1 h2
  simp

/-- within the capacity of the index type `node_identifiers()` is `0, 1, …, n-1` and `node_references()`
pairs each index with its weight -/
theorem node_readers {s : State} {R : List Row} {g : SG} (good : Good s R) (abs : Abs s R g)
    (hcap : s.modulus = 0 ∨ g.n ≤ s.modulus) :
    nodeIdentifiers s = List.range g.n ∧ nodeReferences s = (List.range g.n).zip g.nodes := by
  have hmk : (List.range g.n).map (mkIx s.modulus) = List.range g.n := by
    conv => rhs; rw [← List.map_id (List.range g.n)]
    apply List.map_congr_left
    intro a ha
    have han : a < g.n := List.mem_range.mp ha
    unfold mkIx
    rcases hcap with h | h
    · simp [h]
    · have : ¬ s.modulus = 0 := by omega
      simp [this, Nat.mod_eq_of_lt (by omega : a < s.modulus)]
  obtain ⟨h1, h2⟩ := node_readers_raw good abs
  rw [hmk] at h1 h2
  exact ⟨h1, h2⟩

/-- **the node readers after every history** (plus `IntoNeighbors::neighbors`, which is `neighbors_slice`) -/
theorem run_node_readers (d : Bool) (m c : Nat) (dbg : Bool) (n : Nat) (ops : List Op)
    (hn : m = 0 ∨ n ≤ m) :
    let s := (run (withNodes d m c dbg n) ops).1
    let g := (specRun m { directed := d, nodes := List.replicate n 0, edges := [] } ops).1
    nodeIdentifiers s = List.range g.n ∧ nodeReferences s = (List.range g.n).zip g.nodes ∧
    s.nodeCount = g.n ∧
    ∀ a, a < g.n → neighborsSlice s a = some ((g.succ a).map (·.1)) := by
  intro s g
  have abs0 : Abs (withNodes d m c dbg n) (List.replicate n []) { directed := d, nodes := List.replicate n 0, edges := [] } := by
    refine ⟨rfl, rfl, ?_, ?_⟩
    · intro a b; rw [look_replicate_nil]; rfl
    · unfold State.edgeCountQ withNodes SG.edgeCount; cases d <;> rfl
  obtain ⟨R, good, abs, _, sp⟩ := run_refines (good_withNodes d m c dbg n) abs0 ops
  have hcap : s.modulus = 0 ∨ g.n ≤ s.modulus := by
    have : s.modulus = m := sp.2.1
    rw [this]
    exact run_cap m ops _ (by simpa [SG.n] using hn)
  obtain ⟨h1, h2⟩ := node_readers good abs hcap
  exact ⟨h1, h2, (readers good abs 0).2.2.2, fun a ha => ((readers good abs a).1 ha).1⟩

/-- the node index an answer carries, if it is one (`Out` has no decidable equality) -/
def outIx : Out → Option Nat
  | .ix i => some i
  | _ => none

/-- `panic` as a boolean test (`Out` has no decidable equality) -/
def outPanic : Out → Bool
  | .panic => true
  | _ => false

/-! ### `add_node` at the capacity of the index type (finding D31, repaired) -/

/-- **`add_node` and the capacity of the index type, in every valid state.**  At the capacity (`modulus ≠ 0`,
`modulus ≤ node_count`; `u8`: 256 nodes) `add_node` panics — `none` — and the state is unchanged; below it the
call succeeds, returns the FRESH index `node_count` (which fits the index type, so `Ix::new` does not change it)
and the graph has one node more. -/
theorem addNode_capacity {s : State} {R : List Row} (good : Good s R) (w : Int) :
    (¬ (s.modulus = 0 ∨ s.nodeCount < s.modulus) →
      CsrM.addNode s w = none ∧ step s (.addNode w) = (s, .panic)) ∧
    (s.modulus = 0 ∨ s.nodeCount < s.modulus →
      ∃ s', CsrM.addNode s w = some (s', s.nodeCount) ∧ step s (.addNode w) = (s', .ix s.nodeCount) ∧
        Good s' (R ++ [[]]) ∧ s'.nodeCount = s.nodeCount + 1 ∧ s'.nodeWeights = s.nodeWeights ++ [w] ∧
        mkIx s.modulus s.nodeCount = s.nodeCount) := by
  rw [good.rep.nodeCount]
  refine ⟨fun h => ?_, fun h => ?_⟩
  · have e := good.addNode_full w h
    exact ⟨e, by simp [step, e]⟩
  · obtain ⟨s', e, good', _, hnw, _⟩ := good.addNode w h
    refine ⟨s', e, by simp [step, e], good', ?_, hnw, mkIx_of_fits h⟩
    rw [good'.rep.nodeCount]; simp

/-- **no wrap in any history**: along every history from a valid state whose node count is within the capacity
of the index type, every node index that `add_node` returns fits the index type (`< modulus`), equals the node
count at the time of the call (it is fresh), and the node count never exceeds the capacity. -/
theorem run_no_wrap {s : State} {R : List Row} (good : Good s R) (hc : s.modulus = 0 ∨ R.length ≤ s.modulus)
    (ops : List Op) :
    (s.modulus = 0 ∨ (run s ops).1.nodeCount ≤ s.modulus) ∧
    ∀ i, some i ∈ (run s ops).2.map outIx → (s.modulus = 0 ∨ i < s.modulus) ∧ R.length ≤ i := by
  induction ops generalizing s R with
  | nil => exact ⟨by show _ ∨ s.nodeCount ≤ _; rw [good.rep.nodeCount]; exact hc, by intro i hi; simp [run] at hi⟩
  | cons op ops ih =>
    obtain ⟨R1, good1, sp1, hl1, hout⟩ : ∃ R1, Good (step s op).1 R1 ∧ SameParams (step s op).1 s ∧
        R1.length = nodesAfterC s.modulus R.length op ∧
        ∀ i, outIx (step s op).2 = some i → (s.modulus = 0 ∨ i < s.modulus) ∧ i = R.length := by
      cases op with
      | addNode w =>
        by_cases hfit : s.modulus = 0 ∨ R.length < s.modulus
        · obtain ⟨s', e, good', sp, _⟩ := good.addNode w hfit
          refine ⟨R ++ [[]], by simpa [step, e] using good', by simpa [step, e] using sp,
            by simp [nodesAfterC, hfit], ?_⟩
          intro i hi
          simp only [step, e, outIx, Option.some.injEq] at hi
          subst hi; exact ⟨hfit, rfl⟩
        · have e := good.addNode_full w hfit
          refine ⟨R, by simpa [step, e] using good, by simpa [step, e] using SameParams.refl s,
            by simp [nodesAfterC, hfit], ?_⟩
          intro i hi; simp [step, e, outIx] at hi
      | clearEdges =>
        exact ⟨_, good.clearEdges, ⟨rfl, rfl, rfl, rfl⟩, by simp [nodesAfterC], by intro i hi; simp [step, outIx] at hi⟩
      | setWeight a w =>
        by_cases ha : a < R.length
        · obtain ⟨s', e, good', sp, _⟩ := good.setWeight a w ha
          exact ⟨R, by simpa [step, e] using good', by simpa [step, e] using sp, rfl,
            by intro i hi; simp [step, e, outIx] at hi⟩
        · have e := good.setWeight_oob a w ha
          exact ⟨R, by simpa [step, e] using good, by simpa [step, e] using SameParams.refl s, rfl,
            by intro i hi; simp [step, e, outIx] at hi⟩
      | tryAddEdge a b w =>
        by_cases hr : a < R.length ∧ b < R.length
        · by_cases hp : look R a b = none
          · obtain ⟨s', R', e, good', sp, _, hl, _⟩ := good.tryAddEdge_absent a b w hr.1 hr.2 hp
            exact ⟨R', by simpa [step, e] using good', by simpa [step, e] using sp, hl,
              by intro i hi; simp [step, e, outIx] at hi⟩
          · have e := good.tryAddEdge_present a b w hr.1 hr.2 hp
            exact ⟨R, by simpa [step, e] using good, by simpa [step, e] using SameParams.refl s, rfl,
              by intro i hi; simp [step, e, outIx] at hi⟩
        · have e := good.tryAddEdge_oob a b w hr
          exact ⟨R, by simpa [step, e] using good, by simpa [step, e] using SameParams.refl s, rfl,
            by intro i hi; simp [step, e, outIx] at hi⟩
      | addEdge a b w =>
        by_cases hr : a < R.length ∧ b < R.length
        · by_cases hp : look R a b = none
          · obtain ⟨s', R', e, good', sp, _, hl, _⟩ := good.tryAddEdge_absent a b w hr.1 hr.2 hp
            exact ⟨R', by simpa [step, CsrM.addEdge, e] using good', by simpa [step, CsrM.addEdge, e] using sp, hl,
              by intro i hi; simp [step, CsrM.addEdge, e, outIx] at hi⟩
          · have e := good.tryAddEdge_present a b w hr.1 hr.2 hp
            exact ⟨R, by simpa [step, CsrM.addEdge, e] using good,
              by simpa [step, CsrM.addEdge, e] using SameParams.refl s, rfl,
              by intro i hi; simp [step, CsrM.addEdge, e, outIx] at hi⟩
        · have e := good.tryAddEdge_oob a b w hr
          exact ⟨R, by simpa [step, CsrM.addEdge, e] using good,
            by simpa [step, CsrM.addEdge, e] using SameParams.refl s, rfl,
            by intro i hi; simp [step, CsrM.addEdge, e, outIx] at hi⟩
    have hm : (step s op).1.modulus = s.modulus := sp1.2.1
    have hc1 : (step s op).1.modulus = 0 ∨ R1.length ≤ (step s op).1.modulus := by
      rw [hm, hl1]; exact nodesAfterC_cap _ _ op hc
    have hge : R.length ≤ R1.length := by
      rw [hl1]; cases op <;> simp only [nodesAfterC] <;> (try split) <;> omega
    obtain ⟨ih1, ih2⟩ := ih good1 hc1
    rw [hm] at ih1 ih2
    refine ⟨by simpa [run] using ih1, ?_⟩
    intro i hi
    simp only [run, List.map_cons, List.mem_cons] at hi
    rcases hi with hi | hi
    · obtain ⟨h1, h2⟩ := hout i hi.symm
      exact ⟨h1, by omega⟩
    · obtain ⟨h1, h2⟩ := ih2 i hi
      exact ⟨h1, by omega⟩

end PetgraphModel.CsrProofs
