import PetgraphModel.Proofs.CsrReaders
/-
C05, wave 3 — `Csr`: the node readers (`node_identifiers`, `node_references`, `IntoNeighbors::neighbors`)
against the abstract simple graph, the capacity of the index type along a history, and the index-type wrap of
`add_node` (finding D31).
-/
set_option linter.style.nameCheck false
namespace PetgraphModel.CsrProofs
open PetgraphModel.CsrM PetgraphModel.AppendSpec

theorem SG.addEdge_n (g : SG) (a b : Nat) (w : Int) : (g.addEdge a b w).1.n = g.n := by
  unfold SG.addEdge
  split
  · split <;> rfl
  · rfl

/-- node count of the abstract graph after a call -/
theorem specStep_n (g : SG) (op : Op) : (specStep g op).1.n = nodesAfter g.n op := by
  cases op with
  | addNode w => simp [specStep, SG.addNode, SG.n, nodesAfter]
  | clearEdges => rfl
  | tryAddEdge a b w => exact SG.addEdge_n g a b w
  | addEdge a b w =>
    have := SG.addEdge_n g a b w
    simp only [specStep, nodesAfter]
    split <;> (rename_i h; rw [h] at this; exact this)
  | setWeight a w =>
    simp only [specStep, SG.setWeight, nodesAfter]
    split
    · rename_i h; split at h
      · injection h with h; subst h; simp [SG.n]
      · cases h
    · rfl

/-- a history within the capacity of the index type ends within it -/
theorem fits_cap (m : Nat) (ops : List Op) (g : SG) (hf : Fits m g.n ops) (hc : m = 0 ∨ g.n ≤ m) :
    m = 0 ∨ (specRun g ops).1.n ≤ m := by
  induction ops generalizing g with
  | nil => exact hc
  | cons op ops ih =>
    show m = 0 ∨ (specRun (specStep g op).1 ops).1.n ≤ m
    apply ih
    · rw [specStep_n]; exact hf.2
    · rw [specStep_n]
      cases op with
      | addNode w => have := hf.1 w rfl; simp only [nodesAfter]; omega
      | clearEdges => exact hc
      | tryAddEdge a b w => exact hc
      | addEdge a b w => exact hc
      | setWeight a w => exact hc

/-- `node_identifiers()` / `node_references()` without any capacity assumption: the position is passed
through `Ix::new` -/
theorem node_readers_raw {s : State} {R : List Row} {g : SG} (good : Good s R) (abs : Abs s R g) :
    nodeIdentifiers s = (List.range g.n).map (mkIx s.modulus) ∧
    nodeReferences s = ((List.range g.n).map (mkIx s.modulus)).zip g.nodes := by
  have hn := Abs.n good abs
  refine ⟨by rw [nodeIdentifiers, good.rep.nodeCount, hn], ?_⟩
  unfold nodeReferences
  rw [← abs.nodes]
  show _ = ((List.range g.nodes.length).map _).zip _
  apply List.ext_getElem (by simp)
  intro j h1 h2
  simp

/-- within the capacity of the index type `node_identifiers()` is `0, 1, …, n-1` and `node_references()`
pairs each index with its weight -/
theorem node_readers {s : State} {R : List Row} {g : SG} (good : Good s R) (abs : Abs s R g)
    (hcap : s.modulus = 0 ∨ g.n ≤ s.modulus) :
    nodeIdentifiers s = List.range g.n ∧ nodeReferences s = (List.range g.n).zip g.nodes := by
  have hmk : (List.range g.n).map (mkIx s.modulus) = List.range g.n := by
    conv => rhs; rw [← List.map_id (List.range g.n)]
    apply List.map_congr_left
    intro a ha
    have han : a < g.n := List.mem_range.mp ha
    unfold mkIx
    rcases hcap with h | h
    · simp [h]
    · have : ¬ s.modulus = 0 := by omega
      simp [this, Nat.mod_eq_of_lt (by omega : a < s.modulus)]
  obtain ⟨h1, h2⟩ := node_readers_raw good abs
  rw [hmk] at h1 h2
  exact ⟨h1, h2⟩

/-- **the node readers after every history** (plus `IntoNeighbors::neighbors`, which is `neighbors_slice`) -/
theorem run_node_readers (d : Bool) (m c : Nat) (dbg : Bool) (n : Nat) (ops : List Op) (hf : Fits m n ops)
    (hn : m = 0 ∨ n ≤ m) :
    let s := (run (withNodes d m c dbg n) ops).1
    let g := (specRun { directed := d, nodes := List.replicate n 0, edges := [] } ops).1
    nodeIdentifiers s = List.range g.n ∧ nodeReferences s = (List.range g.n).zip g.nodes ∧
    s.nodeCount = g.n ∧
    ∀ a, a < g.n → neighborsSlice s a = some ((g.succ a).map (·.1)) := by
  intro s g
  have abs0 : Abs (withNodes d m c dbg n) (List.replicate n []) { directed := d, nodes := List.replicate n 0, edges := [] } := by
    refine ⟨rfl, rfl, ?_, ?_⟩
    · intro a b; rw [look_replicate_nil]; rfl
    · unfold State.edgeCountQ withNodes SG.edgeCount; cases d <;> rfl
  have hf' : Fits (withNodes d m c dbg n).modulus (List.replicate n ([] : Row)).length ops := by
    simpa [withNodes] using hf
  obtain ⟨R, good, abs, _, sp⟩ := run_refines (good_withNodes d m c dbg n) abs0 ops hf'
  have hcap : s.modulus = 0 ∨ g.n ≤ s.modulus := by
    have : s.modulus = m := sp.2.1
    rw [this]
    exact fits_cap m ops _ (by simpa [SG.n] using hf) (by simpa [SG.n] using hn)
  obtain ⟨h1, h2⟩ := node_readers good abs hcap
  exact ⟨h1, h2, (readers good abs 0).2.2.2.2, fun a ha => ((readers good abs a).1 ha).1⟩

/-- the node index an answer carries, if it is one (`Out` has no decidable equality) -/
def outIx : Out → Option Nat
  | .ix i => some i
  | _ => none

/-! ### finding D31: `add_node` wraps at the capacity of the index type -/

/-- in general: at or beyond the capacity (`modulus ≤ node_count`, `modulus ≠ 0`) `add_node` returns
`node_count % modulus` — the index of a node that already exists — while the specification answers the fresh
index `node_count`; the representation invariant itself survives (the new row is there, only the returned
index — and every later `Ix::new(i)` for `i ≥ modulus` — is wrong). -/
theorem addNode_wraps {s : State} {R : List Row} {g : SG} (good : Good s R) (abs : Abs s R g)
    (hm : s.modulus ≠ 0) (hc : s.modulus ≤ g.n) (w : Int) :
    (step s (.addNode w)).2 = .ix (g.n % s.modulus) ∧ g.n % s.modulus < g.n ∧
    (specStep g (.addNode w)).2 = .ix g.n ∧
    (step s (.addNode w)).2 ≠ (specStep g (.addNode w)).2 ∧
    Good (step s (.addNode w)).1 (R ++ [[]]) := by
  have hn := Abs.n good abs
  have hlt : g.n % s.modulus < g.n :=
    Nat.lt_of_lt_of_le (Nat.mod_lt _ (Nat.pos_of_ne_zero hm)) hc
  obtain ⟨s', e, good', _⟩ := good.addNode w
  have hmk : mkIx s.modulus R.length = g.n % s.modulus := by simp [mkIx, hm, hn]
  refine ⟨by simp [step, e, hmk], hlt, rfl, ?_, by simpa [step, e] using good'⟩
  simp only [step, e, hmk, specStep, SG.addNode]
  intro h; injection h with h; omega

end PetgraphModel.CsrProofs
