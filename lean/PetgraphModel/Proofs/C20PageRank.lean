import PetgraphModel.Model.C20
/-
C20 — the rational PageRank model: ranks are non-negative and sum to 1 whenever the normalising
sum is non-zero; relabelling the nodes commutes with the computation.
-/
namespace PetgraphModel.C20.PR
open PetgraphModel

theorem sum_map_div {α : Type} (l : List α) (f : α → Rat) (s : Rat) :
    (l.map fun v => f v / s).sum = (l.map f).sum / s := by
  induction l with
  | nil => simp [Rat.div_def]
  | cons a t ih => simp only [List.map_cons, List.sum_cons, ih]; grind

theorem sum_nonneg (l : List Rat) (h : ∀ x ∈ l, 0 ≤ x) : 0 ≤ l.sum := by
  induction l with
  | nil => simp
  | cons a t ih =>
    simp only [List.sum_cons]
    exact Rat.add_nonneg (h a (by simp)) (ih (fun x hx => h x (by simp [hx])))

theorem div_nonneg_of_pos {a s : Rat} (ha : 0 ≤ a) (hs : 0 < s) : 0 ≤ a / s := by
  rw [Rat.div_def]
  exact Rat.mul_nonneg ha (Rat.le_of_lt (Rat.inv_pos.mpr hs))

theorem div_nonneg' {a s : Rat} (ha : 0 ≤ a) (hs : 0 ≤ s) : 0 ≤ a / s := by
  by_cases h0 : s = 0
  · subst h0; simp [Rat.div_def]
  · exact div_nonneg_of_pos ha (by grind)

/-- all ranks of an association list are non-negative -/
def NonNeg (r : List (Nat × Rat)) : Prop := ∀ p ∈ r, 0 ≤ p.2

theorem rk_nonneg {r : List (Nat × Rat)} (h : NonNeg r) (w : Nat) : 0 ≤ rk r w := by
  unfold rk
  cases hl : r.lookup w with
  | none => simp
  | some x =>
    simp only [Option.getD_some]
    have : (w, x) ∈ r := by
      induction r with
      | nil => simp at hl
      | cons p t ih =>
        obtain ⟨k, y⟩ := p
        simp only [List.lookup_cons] at hl
        split at hl
        · rename_i heq
          simp only [Option.some.injEq] at hl
          have : w = k := by simpa using heq
          subst this; subst hl; simp
        · exact List.mem_cons_of_mem _ (ih (fun p hp => h p (List.mem_cons_of_mem _ hp)) hl)
    exact h _ this

theorem contrib_nonneg (g : MGraph) {d : Rat} (h0 : 0 ≤ d) (h1 : d ≤ 1) {r : List (Nat × Rat)} (hr : NonNeg r)
    (v w : Nat) : 0 ≤ contrib g d r v w := by
  unfold contrib
  have hrk := rk_nonneg hr w
  have h1d : (0 : Rat) ≤ 1 - d := by grind
  split
  · exact div_nonneg' (Rat.mul_nonneg h0 hrk) Rat.natCast_nonneg
  · split
    · exact div_nonneg' (Rat.mul_nonneg h0 hrk) Rat.natCast_nonneg
    · exact div_nonneg' (Rat.mul_nonneg h1d hrk) Rat.natCast_nonneg

theorem pi_nonneg (g : MGraph) {d : Rat} (h0 : 0 ≤ d) (h1 : d ≤ 1) {r : List (Nat × Rat)} (hr : NonNeg r)
    (v : Nat) : 0 ≤ pi g d r v := by
  unfold pi
  apply sum_nonneg
  intro x hx
  obtain ⟨w, _, rfl⟩ := List.mem_map.mp hx
  exact contrib_nonneg g h0 h1 hr v w

/-- one iteration: the new ranks sum to 1 -/
theorem step_sum (g : MGraph) (d : Rat) (r r' : List (Nat × Rat)) (h : step g d r = some r') :
    (r'.map (·.2)).sum = 1 := by
  unfold step at h
  simp only at h
  split at h
  · simp at h
  · rename_i hs
    simp only [Option.some.injEq] at h
    subst h
    simp only [List.map_map, Function.comp_def]
    rw [sum_map_div]
    grind

/-- one iteration keeps the ranks non-negative -/
theorem step_nonneg (g : MGraph) {d : Rat} (h0 : 0 ≤ d) (h1 : d ≤ 1) (r r' : List (Nat × Rat)) (hr : NonNeg r)
    (h : step g d r = some r') : NonNeg r' := by
  unfold step at h
  simp only at h
  split at h
  · simp at h
  · rename_i hs
    simp only [Option.some.injEq] at h
    subst h
    intro p hp
    obtain ⟨v, _, rfl⟩ := List.mem_map.mp hp
    have hsum : 0 ≤ (g.nodes.map (pi g d r)).sum := by
      apply sum_nonneg
      intro x hx
      obtain ⟨w, _, rfl⟩ := List.mem_map.mp hx
      exact pi_nonneg g h0 h1 hr w
    exact div_nonneg' (pi_nonneg g h0 h1 hr v) hsum

theorem init_nonneg (g : MGraph) : NonNeg (init g) := by
  intro p hp
  obtain ⟨v, _, rfl⟩ := List.mem_map.mp hp
  exact div_nonneg' (by decide) Rat.natCast_nonneg

theorem sum_replicate (n : Nat) (c : Rat) : (List.replicate n c).sum = (n : Rat) * c := by
  induction n with
  | zero => simp
  | succ n ih => simp only [List.replicate_succ, List.sum_cons, ih]; grind

theorem init_sum (g : MGraph) (hne : g.nodes ≠ []) : ((init g).map (·.2)).sum = 1 := by
  unfold init
  simp only [List.map_map, Function.comp_def]
  have : (g.nodes.map fun _ => (1 : Rat) / (g.nodes.length : Rat)) = List.replicate g.nodes.length (1 / (g.nodes.length : Rat)) := by
    simp [List.map_const']
  rw [this, sum_replicate]
  have hpos : (g.nodes.length : Rat) ≠ 0 := by
    have : g.nodes.length ≠ 0 := by
      intro h; exact hne (List.eq_nil_of_length_eq_zero h)
    exact_mod_cast this
  grind

theorem step_keys (g : MGraph) (d : Rat) (r r' : List (Nat × Rat)) (h : step g d r = some r') :
    r'.map (·.1) = g.nodes := by
  unfold step at h
  simp only at h
  split at h
  · simp at h
  · simp only [Option.some.injEq] at h
    subst h
    simp [List.map_map, Function.comp_def]

theorem iter_spec (g : MGraph) {d : Rat} (h0 : 0 ≤ d) (h1 : d ≤ 1) :
    ∀ (k : Nat) (r r' : List (Nat × Rat)), NonNeg r → (r.map (·.2)).sum = 1 → r.map (·.1) = g.nodes →
      iter g d k r = some r' → NonNeg r' ∧ (r'.map (·.2)).sum = 1 ∧ r'.map (·.1) = g.nodes := by
  intro k
  induction k with
  | zero => intro r r' hn hs hk h; simp [iter] at h; subst h; exact ⟨hn, hs, hk⟩
  | succ k ih =>
    intro r r' hn hs _ h
    simp only [iter] at h
    split at h
    · simp at h
    · rename_i r1 hstep
      exact ih r1 r' (step_nonneg g h0 h1 r r1 hn hstep) (step_sum g d r r1 hstep) (step_keys g d r r1 hstep) h

/-- `page_rank` over the rationals: one non-negative rank per node, summing to 1 -/
theorem pageRank_spec (g : MGraph) (hne : g.nodes ≠ []) {d : Rat} (h0 : 0 ≤ d) (h1 : d ≤ 1) (k : Nat)
    (r : List (Nat × Rat)) (h : pageRank g d k = some r) :
    r.map (·.1) = g.nodes ∧ NonNeg r ∧ (r.map (·.2)).sum = 1 := by
  have := iter_spec g h0 h1 k (init g) r (init_nonneg g) (init_sum g hne)
    (by simp [init, List.map_map, Function.comp_def]) h
  exact ⟨this.2.2, this.1, this.2.1⟩

/-! ### the normalising sum is positive for a positive damping factor -/

theorem div_pos' {a s : Rat} (ha : 0 < a) (hs : 0 < s) : 0 < a / s := by
  rw [Rat.div_def]; exact Rat.mul_pos ha (Rat.inv_pos.mpr hs)

theorem sum_pos_of_mem (l : List Rat) (h : ∀ x ∈ l, 0 ≤ x) {y : Rat} (hy : y ∈ l) (hp : 0 < y) : 0 < l.sum := by
  induction l with
  | nil => cases hy
  | cons a t ih =>
    simp only [List.sum_cons]
    have ha : 0 ≤ a := h a (by simp)
    have ht : 0 ≤ t.sum := sum_nonneg t (fun x hx => h x (by simp [hx]))
    cases List.mem_cons.mp hy with
    | inl e => subst e; grind
    | inr e =>
      have := ih (fun x hx => h x (by simp [hx])) e
      grind

/-- with duplicate-free keys the ranks listed are the ranks looked up -/
theorem map_rk_keys : ∀ (r : List (Nat × Rat)), (r.map (·.1)).Nodup → (r.map (·.1)).map (rk r) = r.map (·.2) := by
  intro r
  induction r with
  | nil => intro _; rfl
  | cons p t ih =>
    intro hn
    obtain ⟨k, y⟩ := p
    simp only [List.map_cons] at hn ⊢
    have hn' := List.nodup_cons.mp hn
    congr 1
    · simp [rk]
    · rw [← ih hn'.2]
      apply List.map_congr_left
      intro w hw
      have hwk : w ≠ k := fun e => hn'.1 (e ▸ hw)
      have : (w == k) = false := by simpa using hwk
      simp [rk, List.lookup_cons, this]

theorem exists_pos_of_sum_pos (l : List Rat) (h : ∀ x ∈ l, 0 ≤ x) (hs : 0 < l.sum) : ∃ x ∈ l, 0 < x := by
  induction l with
  | nil => simp at hs
  | cons a t ih =>
    simp only [List.sum_cons] at hs
    have ha : 0 ≤ a := h a (by simp)
    by_cases hpos : 0 < a
    · exact ⟨a, by simp, hpos⟩
    · have ha0 : a = 0 := by grind
      have : 0 < t.sum := by grind
      obtain ⟨x, hx, hxp⟩ := ih (fun x hx => h x (by simp [hx])) this
      exact ⟨x, by simp [hx], hxp⟩

theorem rk_of_mem : ∀ (r : List (Nat × Rat)), (r.map (·.1)).Nodup → ∀ w x, (w, x) ∈ r → rk r w = x := by
  intro r
  induction r with
  | nil => intro _ w x h; cases h
  | cons p t ih =>
    intro hn w x hm
    obtain ⟨k, y⟩ := p
    simp only [List.map_cons] at hn
    have hn' := List.nodup_cons.mp hn
    cases List.mem_cons.mp hm with
    | inl e =>
      simp only [Prod.mk.injEq] at e
      obtain ⟨e1, e2⟩ := e
      subst e1; subst e2
      simp [rk]
    | inr e =>
      have hwk : w ≠ k := fun e' => hn'.1 (e' ▸ List.mem_map.mpr ⟨(w, x), e, rfl⟩)
      have hb : (w == k) = false := by simpa using hwk
      have := ih hn'.2 w x e
      simpa [rk, List.lookup_cons, hb] using this

theorem exists_pos_rank (g : MGraph) (r : List (Nat × Rat)) (hk : r.map (·.1) = g.nodes) (hnd : g.nodes.Nodup)
    (hnn : NonNeg r) (hs : (r.map (·.2)).sum = 1) : ∃ w ∈ g.nodes, 0 < rk r w := by
  have hpos : (0 : Rat) < (r.map (·.2)).sum := by rw [hs]; decide
  obtain ⟨x, hx, hxp⟩ := exists_pos_of_sum_pos (r.map (·.2))
    (fun x hx => by obtain ⟨p, hp, rfl⟩ := List.mem_map.mp hx; exact hnn p hp) hpos
  obtain ⟨p, hp, rfl⟩ := List.mem_map.mp hx
  refine ⟨p.1, hk ▸ List.mem_map.mpr ⟨p, hp, rfl⟩, ?_⟩
  rw [rk_of_mem r (hk ▸ hnd) p.1 p.2 hp]
  exact hxp

theorem outDeg_pos_edge (g : MGraph) (w : Nat) (h : outDeg g w ≠ 0) : ∃ e ∈ g.edges, e.src = w := by
  unfold outDeg at h
  cases hf : g.edges.filter fun e => e.src == w with
  | nil => simp [hf] at h
  | cons e t =>
    have : e ∈ g.edges.filter fun e => e.src == w := by rw [hf]; simp
    have := List.mem_filter.mp this
    exact ⟨e, this.1, by simpa using this.2⟩

/-- one iteration is defined (normalising sum non-zero) whenever the damping factor is positive -/
theorem step_defined (g : MGraph) (hne : g.nodes ≠ []) (hnd : g.nodes.Nodup)
    (hg : ∀ e ∈ g.edges, e.src ∈ g.nodes ∧ e.tgt ∈ g.nodes) {d : Rat} (h0 : 0 < d) (h1 : d ≤ 1)
    (r : List (Nat × Rat)) (hk : r.map (·.1) = g.nodes) (hnn : NonNeg r) (hs : (r.map (·.2)).sum = 1) :
    (step g d r).isSome := by
  obtain ⟨w, hw, hwp⟩ := exists_pos_rank g r hk hnd hnn hs
  have hd0 : (0 : Rat) ≤ d := Rat.le_of_lt h0
  have hn : (0 : Rat) < (g.nodes.length : Rat) := by
    have : 0 < g.nodes.length := List.length_pos_iff.mpr hne
    exact_mod_cast this
  -- a row `v` that receives a positive amount from column `w`
  have hv : ∃ v ∈ g.nodes, 0 < contrib g d r v w := by
    by_cases hod : outDeg g w = 0
    · cases hnodes : g.nodes with
      | nil => exact absurd hnodes hne
      | cons v t =>
        refine ⟨v, by simp, ?_⟩
        have hno : hasEdge g w v = false := by
          cases hh : hasEdge g w v with
          | false => rfl
          | true =>
            unfold hasEdge at hh
            obtain ⟨e, he, hev⟩ := List.any_eq_true.mp hh
            simp only [Bool.and_eq_true, beq_iff_eq] at hev
            unfold outDeg at hod
            have : e ∈ g.edges.filter fun e => e.src == w := List.mem_filter.mpr ⟨he, by simp [hev.1]⟩
            rw [List.eq_nil_of_length_eq_zero hod] at this
            cases this
        unfold contrib
        simp only [hno, hod, if_true, Bool.false_eq_true, if_false]
        exact div_pos' (Rat.mul_pos h0 hwp) hn
    · obtain ⟨e, he, hsrc⟩ := outDeg_pos_edge g w hod
      refine ⟨e.tgt, (hg e he).2, ?_⟩
      have hyes : hasEdge g w e.tgt = true := by
        unfold hasEdge
        exact List.any_eq_true.mpr ⟨e, he, by simp [hsrc]⟩
      unfold contrib
      simp only [hyes, if_true]
      have : (0 : Rat) < (outDeg g w : Rat) := by
        have : 0 < outDeg g w := Nat.pos_of_ne_zero hod
        exact_mod_cast this
      exact div_pos' (Rat.mul_pos h0 hwp) this
  obtain ⟨v, hvn, hvp⟩ := hv
  have hpiv : 0 < pi g d r v := by
    unfold pi
    exact sum_pos_of_mem _ (fun x hx => by
      obtain ⟨w', _, rfl⟩ := List.mem_map.mp hx
      exact contrib_nonneg g hd0 h1 hnn v w') (List.mem_map.mpr ⟨w, hw, rfl⟩) hvp
  have hsum : 0 < (g.nodes.map (pi g d r)).sum :=
    sum_pos_of_mem _ (fun x hx => by
      obtain ⟨v', _, rfl⟩ := List.mem_map.mp hx
      exact pi_nonneg g hd0 h1 hnn v') (List.mem_map.mpr ⟨v, hvn, rfl⟩) hpiv
  unfold step
  simp only
  split
  · rename_i hz; rw [hz] at hsum; exact absurd hsum Rat.lt_irrefl
  · rfl

/-- **no NaN for a positive damping factor**: on a well-formed non-empty graph the rational model is
defined for every number of iterations -/
theorem pageRank_defined (g : MGraph) (hne : g.nodes ≠ []) (hnd : g.nodes.Nodup)
    (hg : ∀ e ∈ g.edges, e.src ∈ g.nodes ∧ e.tgt ∈ g.nodes) {d : Rat} (h0 : 0 < d) (h1 : d ≤ 1) (k : Nat) :
    (pageRank g d k).isSome := by
  have hd0 : (0 : Rat) ≤ d := Rat.le_of_lt h0
  have key : ∀ (k : Nat) (r : List (Nat × Rat)), r.map (·.1) = g.nodes → NonNeg r → (r.map (·.2)).sum = 1 →
      (iter g d k r).isSome := by
    intro k
    induction k with
    | zero => intro r _ _ _; simp [iter]
    | succ k ih =>
      intro r hk hnn hs
      have hsome := step_defined g hne hnd hg h0 h1 r hk hnn hs
      cases hst : step g d r with
      | none => simp [hst] at hsome
      | some r1 =>
        simp only [iter, hst]
        exact ih r1 (step_keys g d r r1 hst) (step_nonneg g hd0 h1 r r1 hnn hst) (step_sum g d r r1 hst)
  exact key k (init g) (by simp [init, List.map_map, Function.comp_def]) (init_nonneg g) (init_sum g hne)

/-! ### equivariance under relabelling -/

/-- the graph with every node `x` renamed to `f x` -/
def relabel (f : Nat → Nat) (g : MGraph) : MGraph :=
  { g with nodes := g.nodes.map f, edges := g.edges.map fun e => { e with src := f e.src, tgt := f e.tgt } }

def relabelRanks (f : Nat → Nat) (r : List (Nat × Rat)) : List (Nat × Rat) := r.map fun p => (f p.1, p.2)

variable {f : Nat → Nat} (hf : ∀ x y, f x = f y → x = y)
include hf

theorem rk_relabel (r : List (Nat × Rat)) (w : Nat) : rk (relabelRanks f r) (f w) = rk r w := by
  unfold rk relabelRanks
  induction r with
  | nil => simp
  | cons p t ih =>
    obtain ⟨k, y⟩ := p
    simp only [List.map_cons, List.lookup_cons]
    by_cases hk : w = k
    · subst hk; simp
    · have : f w ≠ f k := fun e => hk (hf _ _ e)
      have h1 : (f w == f k) = false := by simpa using this
      have h2 : (w == k) = false := by simpa using hk
      rw [h1, h2]; exact ih

theorem hasEdge_relabel (g : MGraph) (w v : Nat) : hasEdge (relabel f g) (f w) (f v) = hasEdge g w v := by
  unfold hasEdge relabel
  simp only [List.any_map, Function.comp_def]
  congr 1
  funext e
  rw [Bool.eq_iff_iff]
  simp only [Bool.and_eq_true, beq_iff_eq]
  constructor
  · rintro ⟨h1, h2⟩; exact ⟨hf _ _ h1, hf _ _ h2⟩
  · rintro ⟨h1, h2⟩; exact ⟨by rw [h1], by rw [h2]⟩

theorem outDeg_relabel (g : MGraph) (w : Nat) : outDeg (relabel f g) (f w) = outDeg g w := by
  unfold outDeg relabel
  simp only [List.filter_map, List.length_map, Function.comp_def]
  congr 2
  funext e
  rw [Bool.eq_iff_iff]
  simp only [beq_iff_eq]
  exact ⟨fun h => hf _ _ h, fun h => by rw [h]⟩

theorem contrib_relabel (g : MGraph) (d : Rat) (r : List (Nat × Rat)) (v w : Nat) :
    contrib (relabel f g) d (relabelRanks f r) (f v) (f w) = contrib g d r v w := by
  unfold contrib
  rw [hasEdge_relabel hf, outDeg_relabel hf, rk_relabel hf]
  simp [relabel]

theorem pi_relabel (g : MGraph) (d : Rat) (r : List (Nat × Rat)) (v : Nat) :
    pi (relabel f g) d (relabelRanks f r) (f v) = pi g d r v := by
  unfold pi
  have : (relabel f g).nodes = g.nodes.map f := rfl
  rw [this, List.map_map]
  congr 1
  apply List.map_congr_left
  intro w _
  exact contrib_relabel hf g d r v w

theorem step_relabel (g : MGraph) (d : Rat) (r : List (Nat × Rat)) :
    step (relabel f g) d (relabelRanks f r) = (step g d r).map (relabelRanks f) := by
  unfold step
  have hn : (relabel f g).nodes = g.nodes.map f := rfl
  have hsum : ((relabel f g).nodes.map (pi (relabel f g) d (relabelRanks f r))).sum = (g.nodes.map (pi g d r)).sum := by
    rw [hn, List.map_map]
    congr 1
    apply List.map_congr_left
    intro v _
    exact pi_relabel hf g d r v
  simp only [hsum]
  split
  · simp
  · simp only [Option.map_some, Option.some.injEq, hn, relabelRanks, List.map_map]
    apply List.map_congr_left
    intro v _
    simp only [Function.comp_def]
    have := pi_relabel hf g d r v
    unfold relabelRanks at this
    rw [this]

omit hf in
theorem iter_relabel (hf : ∀ x y, f x = f y → x = y) (g : MGraph) (d : Rat) :
    ∀ (k : Nat) (r : List (Nat × Rat)),
      iter (relabel f g) d k (relabelRanks f r) = (iter g d k r).map (relabelRanks f) := by
  intro k
  induction k with
  | zero => intro r; simp [iter]
  | succ k ih =>
    intro r
    simp only [iter, step_relabel hf]
    cases hs : step g d r with
    | none => simp
    | some r1 => simp [ih]

/-- relabelling the nodes by an injective renaming commutes with `page_rank` -/
theorem pageRank_relabel (g : MGraph) (d : Rat) (k : Nat) :
    pageRank (relabel f g) d k = (pageRank g d k).map (relabelRanks f) := by
  unfold pageRank
  have : init (relabel f g) = relabelRanks f (init g) := by
    simp [init, relabel, relabelRanks, List.map_map, Function.comp_def]
  rw [this]
  exact iter_relabel hf g d k (init g)

end PetgraphModel.C20.PR
