import PetgraphModel.Spec.SerdeText
/-
C17 wave 4 — the JSON text model: `parseWire (printWire w) = some w` for every wire value.
-/
namespace PetgraphModel.SerdeText
open PetgraphModel.Serde

/-! ### digits -/

theorem digit_facts : ∀ d : Fin 10, (digitChar d.val).isDigit = true ∧ digitVal (digitChar d.val) = d.val ∧
    digitChar d.val ≠ '-' ∧ digitChar d.val ≠ ']' := by decide

theorem digitChar_isDigit {d : Nat} (h : d < 10) : (digitChar d).isDigit = true := (digit_facts ⟨d, h⟩).1
theorem digitVal_digitChar {d : Nat} (h : d < 10) : digitVal (digitChar d) = d := (digit_facts ⟨d, h⟩).2.1

/-- the digits by well-founded recursion: the specification of `natChars` -/
def natCharsWF (n : Nat) : List Char :=
  if n < 10 then [digitChar n] else natCharsWF (n / 10) ++ [digitChar (n % 10)]
decreasing_by omega

theorem natCharsF_eq_wf : ∀ (n f : Nat), n ≤ f → natCharsF f n = natCharsWF n := by
  intro n
  induction n using Nat.strongRecOn with
  | _ n ih =>
    intro f hf
    unfold natCharsWF
    cases f with
    | zero =>
      have : n = 0 := by omega
      subst this
      rfl
    | succ f =>
      unfold natCharsF
      by_cases h : n < 10
      · rw [if_pos h, if_pos h]
      · rw [if_neg h, if_neg h, ih (n / 10) (by omega) f (by omega)]

theorem natChars_eq_wf (n : Nat) : natChars n = natCharsWF n := natCharsF_eq_wf n n (Nat.le_refl n)

theorem natChars_unfold (n : Nat) :
    natChars n = if n < 10 then [digitChar n] else natChars (n / 10) ++ [digitChar (n % 10)] := by
  rw [natChars_eq_wf, natChars_eq_wf]
  conv => lhs; unfold natCharsWF

theorem natChars_digits (n : Nat) : ∀ c, c ∈ natChars n → c.isDigit = true := by
  induction n using Nat.strongRecOn with
  | _ n ih =>
    intro c hc
    rw [natChars_unfold] at hc
    by_cases h : n < 10
    · rw [if_pos h] at hc
      simp only [List.mem_singleton] at hc
      subst hc
      exact digitChar_isDigit h
    · rw [if_neg h] at hc
      rcases List.mem_append.1 hc with h1 | h1
      · exact ih (n / 10) (by omega) c h1
      · simp only [List.mem_singleton] at h1
        subst h1
        exact digitChar_isDigit (by omega)

theorem natChars_ne_nil (n : Nat) : natChars n ≠ [] := by
  rw [natChars_unfold]
  split <;> simp

def stepDigit (a : Nat) (c : Char) : Nat := a * 10 + digitVal c

theorem foldl_natChars (n : Nat) : (natChars n).foldl stepDigit 0 = n := by
  induction n using Nat.strongRecOn with
  | _ n ih =>
    rw [natChars_unfold]
    by_cases h : n < 10
    · rw [if_pos h]
      simp [stepDigit, digitVal_digitChar h]
    · rw [if_neg h, List.foldl_append, ih (n / 10) (by omega)]
      simp only [List.foldl_cons, List.foldl_nil, stepDigit, digitVal_digitChar (show n % 10 < 10 by omega)]
      omega

/-- the rest of the input does not go on with a digit -/
def NonDigitHead (rest : List Char) : Prop := ∀ c t, rest = c :: t → c.isDigit = false

theorem readDigits_stop (acc : Nat) (rest : List Char) (h : NonDigitHead rest) : readDigits acc rest = (acc, rest) := by
  cases rest with
  | nil => rfl
  | cons c t => simp [readDigits, h c t rfl]

theorem readDigits_append (ds : List Char) (hd : ∀ c, c ∈ ds → c.isDigit = true) (rest : List Char) :
    ∀ acc, readDigits acc (ds ++ rest) = readDigits (ds.foldl stepDigit acc) rest := by
  induction ds with
  | nil => intro acc; rfl
  | cons c cs ih =>
    intro acc
    simp only [List.cons_append, readDigits, hd c (List.mem_cons_self ..), if_true, List.foldl_cons]
    exact ih (fun c' hc' => hd c' (List.mem_cons_of_mem _ hc')) _

theorem readNat_natChars (n : Nat) (rest : List Char) (h : NonDigitHead rest) :
    readNat (natChars n ++ rest) = some (n, rest) := by
  have hd := natChars_digits n
  have hr := readDigits_append (natChars n) hd rest 0
  rw [foldl_natChars, readDigits_stop _ _ h] at hr
  cases hc : natChars n with
  | nil => exact absurd hc (natChars_ne_nil n)
  | cons c cs =>
    have hcd : c.isDigit = true := hd c (by rw [hc]; exact List.mem_cons_self ..)
    rw [hc] at hr
    simp only [List.cons_append, readNat, hcd, if_true]
    simp only [List.cons_append] at hr
    rw [hr]

theorem natChars_head_ne (n : Nat) : ∃ c t, natChars n = c :: t ∧ c ≠ '-' ∧ c ≠ ']' ∧ c.isDigit = true := by
  cases hc : natChars n with
  | nil => exact absurd hc (natChars_ne_nil n)
  | cons c cs =>
    have hcd : c.isDigit = true := natChars_digits n c (by rw [hc]; exact List.mem_cons_self ..)
    refine ⟨c, cs, rfl, ?_, ?_, hcd⟩
    · intro h; subst h; revert hcd; decide
    · intro h; subst h; revert hcd; decide

theorem readInt_intChars (x : Int) (rest : List Char) (h : NonDigitHead rest) :
    readInt (intChars x ++ rest) = some (x, rest) := by
  cases x with
  | ofNat n =>
    obtain ⟨c, t, hc, hm, _, _⟩ := natChars_head_ne n
    have := readNat_natChars n rest h
    simp only [intChars]
    rw [hc] at this ⊢
    simp only [List.cons_append, readInt, hm, if_false]
    simp only [List.cons_append] at this
    rw [this]
    rfl
  | negSucc n =>
    have := readNat_natChars (n + 1) rest h
    simp only [intChars, List.cons_append, readInt, if_true, this]
    congr 2

theorem intChars_head (x : Int) : ∃ c t, intChars x = c :: t ∧ c ≠ ']' := by
  cases x with
  | ofNat n => obtain ⟨c, t, hc, _, h2, _⟩ := natChars_head_ne n; exact ⟨c, t, hc, h2⟩
  | negSucc n => exact ⟨'-', _, rfl, by decide⟩

/-! ### fixed text and arrays -/

theorem expect_append (p rest : List Char) : expect p (p ++ rest) = some rest := by
  induction p with
  | nil => cases rest <;> rfl
  | cons c cs ih => simp [expect, ih]

/-- what may follow an array item -/
def Follow (rest : List Char) : Prop := ∃ t, rest = ',' :: t ∨ rest = ']' :: t

theorem Follow.nonDigit {rest : List Char} (h : Follow rest) : NonDigitHead rest := by
  obtain ⟨t, rfl | rfl⟩ := h <;> intro c t' hc <;> cases hc <;> decide

theorem readMore_print {α} (item : Parser α) (pr : α → List Char)
    (hitem : ∀ a rest, Follow rest → item (pr a ++ rest) = some (a, rest)) (rest : List Char) :
    ∀ (l : List α) (x : α) (fuel : Nat), l.length < fuel →
      readMore item fuel (match l with
        | [] => ']' :: rest
        | y :: ys => ',' :: (commaSep ((y :: ys).map pr) ++ ']' :: rest)) = some (l, rest) := by
  intro l
  induction l with
  | nil =>
    intro _ fuel hf
    obtain ⟨f, rfl⟩ : ∃ f, fuel = f + 1 := ⟨fuel - 1, by simp at hf; omega⟩
    simp [readMore]
  | cons y ys ih =>
    intro x fuel hf
    obtain ⟨f, rfl⟩ : ∃ f, fuel = f + 1 := ⟨fuel - 1, by omega⟩
    have hf' : ys.length < f := by simp at hf; omega
    cases ys with
    | nil =>
      have h1 := hitem y (']' :: rest) ⟨rest, Or.inr rfl⟩
      have h2 := ih x f hf'
      simp only [List.map_cons, List.map_nil, commaSep, readMore, ↓reduceIte, Char.reduceEq]
      rw [h1]
      simp only at h2 ⊢
      rw [h2]
    | cons z zs =>
      have h1 := hitem y (',' :: (commaSep ((z :: zs).map pr) ++ ']' :: rest)) ⟨_, Or.inl rfl⟩
      have h2 := ih x f hf'
      simp only [List.map_cons, commaSep, readMore, ↓reduceIte, Char.reduceEq]
      simp only [List.map_cons] at h1 h2
      rw [List.append_assoc, List.cons_append, h1]
      simp only
      rw [h2]

theorem readArr_print {α} (item : Parser α) (pr : α → List Char)
    (hitem : ∀ a rest, Follow rest → item (pr a ++ rest) = some (a, rest))
    (hne : ∀ a, ∃ c t, pr a = c :: t ∧ c ≠ ']') (l : List α) (fuel : Nat) (hf : l.length ≤ fuel) (rest : List Char) :
    readArr item fuel (arrChars (l.map pr) ++ rest) = some (l, rest) := by
  cases l with
  | nil => simp [arrChars, commaSep, readArr]
  | cons y ys =>
    obtain ⟨c, t, hc, hcn⟩ := hne y
    have hm := readMore_print item pr hitem rest ys y fuel (by simp at hf; omega)
    cases ys with
    | nil =>
      have h1 := hitem y (']' :: rest) ⟨rest, Or.inr rfl⟩
      simp only [arrChars, List.map_cons, List.map_nil, commaSep, List.cons_append, List.append_assoc, List.nil_append,
        readArr, if_true]
      rw [hc] at h1 ⊢
      simp only [List.cons_append, hcn, if_false] at h1 ⊢
      rw [h1]
      simp only at hm ⊢
      rw [hm]
    | cons z zs =>
      have h1 := hitem y (',' :: (commaSep ((z :: zs).map pr) ++ ']' :: rest)) ⟨_, Or.inl rfl⟩
      simp only [arrChars, List.map_cons, commaSep, List.cons_append, List.append_assoc, List.nil_append,
        readArr, if_true]
      simp only [List.map_cons] at h1 hm
      rw [hc] at h1 ⊢
      simp only [List.cons_append, hcn, if_false] at h1 ⊢
      rw [h1]
      simp only
      rw [hm]

/-! ### edges, the property -/

theorem readEdge_print (e : Option (Nat × Nat × Int)) (rest : List Char) :
    readEdge (edgeChars e ++ rest) = some (e, rest) := by
  cases e with
  | none =>
    have := expect_append kNull rest
    simp only [edgeChars, kNull, List.cons_append, List.nil_append, readEdge, if_true] at this ⊢
    rw [this]
  | some t =>
    obtain ⟨a, b, x⟩ := t
    have h1 := readNat_natChars a (',' :: (natChars b ++ ',' :: (intChars x ++ ']' :: rest)))
      (by intro c t hc; cases hc; decide)
    have h2 := readNat_natChars b (',' :: (intChars x ++ ']' :: rest)) (by intro c t hc; cases hc; decide)
    have h3 := readInt_intChars x (']' :: rest) (by intro c t hc; cases hc; decide)
    simp only [edgeChars, List.cons_append, List.append_assoc, List.nil_append, readEdge]
    simp only [↓reduceIte, Char.reduceEq]
    rw [h1]
    simp only [expect, if_true]
    rw [h2]
    simp only [expect, if_true]
    rw [h3]
    simp only [expect, if_true]

theorem edgeChars_head (e : Option (Nat × Nat × Int)) : ∃ c t, edgeChars e = c :: t ∧ c ≠ ']' := by
  cases e with
  | none => exact ⟨'n', _, rfl, by decide⟩
  | some t => obtain ⟨a, b, x⟩ := t; exact ⟨'[', _, rfl, by decide⟩

theorem readProp_print (p : Option Bool) (rest : List Char) : readProp (propChars p ++ rest) = some (p, rest) := by
  cases p with
  | none => simp [readProp, readStr, propChars, sOther, propOfStr, sDirected, sUndirected, List.dropWhile, List.takeWhile]
  | some b =>
    cases b <;>
      simp [readProp, readStr, propChars, propOfStr, sDirected, sUndirected, List.dropWhile, List.takeWhile]

/-! ### the whole text -/

theorem commaSep_length (items : List (List Char)) (h : ∀ x, x ∈ items → x ≠ []) :
    items.length ≤ (commaSep items).length + 1 := by
  induction items with
  | nil => simp
  | cons x rest ih =>
    cases rest with
    | nil => simp [commaSep]
    | cons y ys =>
      have := ih (fun z hz => h z (List.mem_cons_of_mem _ hz))
      have hx : 0 < x.length := List.length_pos_iff.2 (h x (List.mem_cons_self ..))
      simp only [commaSep, List.length_append, List.length_cons] at this ⊢
      omega

theorem arrChars_length (items : List (List Char)) (h : ∀ x, x ∈ items → x ≠ []) :
    items.length ≤ (arrChars items).length := by
  have := commaSep_length items h
  simp only [arrChars, List.length_cons, List.length_append, List.length_nil]
  omega

theorem intChars_ne_nil (x : Int) : intChars x ≠ [] := by
  obtain ⟨c, t, h, _⟩ := intChars_head x; rw [h]; simp

theorem edgeChars_ne_nil (e : Option (Nat × Nat × Int)) : edgeChars e ≠ [] := by
  obtain ⟨c, t, h, _⟩ := edgeChars_head e; rw [h]; simp

/-- **the JSON text round trip**: the reader inverts the printer, for every wire value. -/
theorem parseWire_printWire (w : Wire) : parseWire (printWire w) = some w := by
  have hlen : w.nodes.length ≤ (printWire w).length ∧ w.holes.length ≤ (printWire w).length ∧
      w.edges.length ≤ (printWire w).length := by
    have h1 := arrChars_length (w.nodes.map intChars) (by
      intro x hx; obtain ⟨a, _, rfl⟩ := List.mem_map.1 hx; exact intChars_ne_nil a)
    have h2 := arrChars_length (w.holes.map natChars) (by
      intro x hx; obtain ⟨a, _, rfl⟩ := List.mem_map.1 hx; exact natChars_ne_nil a)
    have h3 := arrChars_length (w.edges.map edgeChars) (by
      intro x hx; obtain ⟨a, _, rfl⟩ := List.mem_map.1 hx; exact edgeChars_ne_nil a)
    simp only [List.length_map] at h1 h2 h3
    simp only [printWire, List.length_append]
    omega
  obtain ⟨hn, hh, he⟩ := hlen
  unfold parseWire
  simp only
  generalize (printWire w).length = fuel at hn hh he
  unfold printWire
  rw [expect_append]
  simp only
  rw [readArr_print readInt intChars (fun a rest hf => readInt_intChars a rest hf.nonDigit) intChars_head _ fuel hn]
  simp only
  rw [expect_append]
  simp only
  rw [readArr_print readNat natChars (fun a rest hf => readNat_natChars a rest hf.nonDigit)
    (fun a => by obtain ⟨c, t, h1, _, h2, _⟩ := natChars_head_ne a; exact ⟨c, t, h1, h2⟩) _ fuel hh]
  simp only
  rw [expect_append]
  simp only
  rw [readProp_print]
  simp only
  rw [expect_append]
  simp only
  rw [readArr_print readEdge edgeChars (fun a rest _ => readEdge_print a rest) edgeChars_head _ fuel he]
  cases w; rfl

/-- the printer is injective: different wire values never share a text -/
theorem printWire_injective (w w' : Wire) (h : printWire w = printWire w') : w = w' := by
  have := parseWire_printWire w
  rw [h, parseWire_printWire] at this
  exact (Option.some.inj this).symm

end PetgraphModel.SerdeText
