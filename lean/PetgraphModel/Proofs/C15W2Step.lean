import PetgraphModel.Proofs.C15W2Inv
/-
C15 wave 2 — consequences of the search invariant, and its preservation when the mate of a scanned
non-outer vertex receives a `Vertex` label.
-/
namespace PetgraphModel.C15W2
open PetgraphModel PetgraphModel.C15 PetgraphModel.C15M PetgraphModel.C15P

/-! ### positions in the labelling order -/

theorem tau_old {A A' : AS} {ext : List Nat} (h : A'.ord = A.ord ++ ext) {y : Nat} (hy : y ∈ A.ord) :
    A'.tau y = A.tau y := by
  unfold AS.tau
  rw [h, List.idxOf_append]
  simp [hy]

theorem tau_new_ge {A A' : AS} {ext : List Nat} (h : A'.ord = A.ord ++ ext) {y : Nat} (hy : y ∉ A.ord) :
    A.ord.length ≤ A'.tau y := by
  unfold AS.tau
  rw [h, List.idxOf_append]
  simp [hy]

theorem tau_lt_mono {A A' : AS} {ext : List Nat} (h : A'.ord = A.ord ++ ext) {y a : Nat}
    (ha : a ∈ A.ord) (hlt : A.tau y < A.tau a) : A'.tau y < A'.tau a := by
  have h1 : A.tau a < A.ord.length := List.idxOf_lt_length_of_mem ha
  have hy : y ∈ A.ord := List.idxOf_lt_length_iff.mp (by unfold AS.tau at hlt h1; omega)
  rw [tau_old h hy, tau_old h ha]
  exact hlt

theorem tau_old_lt_new {A A' : AS} {ext : List Nat} (h : A'.ord = A.ord ++ ext) {y a : Nat}
    (hy : y ∈ A.ord) (ha : a ∉ A.ord) : A'.tau y < A'.tau a := by
  have h1 : A.tau y < A.ord.length := List.idxOf_lt_length_of_mem hy
  have := tau_new_ge h ha
  rw [tau_old h hy]
  omega

/-! ### first inner vertices -/

theorem fin_congr (c : Ctx) (A A' : AS) (l : PL) (h : ∀ u ∈ verts l, A'.out u = A.out u) :
    A'.fin c l = A.fin c l := by
  unfold AS.fin
  apply firstInner_congr
  intro p u hm
  exact h u (mem_verts_of_mem hm).2

/-! ### vertices of paths -/

/-- a non-outer vertex of a path is the inner vertex of a pair whose outer vertex is its mate -/
theorem PathOK.inner_pair {c : Ctx} {A : AS} {a u : Nat} (h : PathOK c A a) (hu : u ∈ verts (A.P a))
    (hou : A.out u = false) : ∃ p, (p, u) ∈ A.P a ∧ c.μ u = some p ∧ A.out p = true := by
  obtain ⟨p, q, hm, hx⟩ := mem_verts_iff.mp hu
  cases hx with
  | inl e =>
    subst e
    rw [h.fstOuter u q hm] at hou; cases hou
  | inr e =>
    subst e
    exact ⟨p, hm, (Alt_mem _ _ _ _ h.alt p u hm).2, h.fstOuter p u hm⟩

/-- every vertex of a path other than the start is matched to a vertex of the path -/
theorem PathOK.matched {c : Ctx} {A : AS} {a u : Nat} (h : PathOK c A a) (hu : u ∈ verts (A.P a)) :
    ∃ b, c.μ u = some b := by
  obtain ⟨p, q, hm, hx⟩ := mem_verts_iff.mp hu
  have := Alt_mem _ _ _ _ h.alt p q hm
  cases hx with
  | inl e => exact ⟨q, e ▸ this.1⟩
  | inr e => exact ⟨p, e ▸ this.2⟩

/-! ### a new `Vertex` label -/

theorem AInv.vertexStep (c : Ctx) (n : Nat) (hm : MateInv c.v c.m0 n)
    (A A' : AS) (hA : AInv c A) (x o cm : Nat)
    (hx : x ∈ c.v.g.nodes) (hox : A.out x = true) (ho : o ∈ c.v.g.nodes) (hoo : A.out o = false)
    (hμ : c.μ o = some cm) (hocm : A.out cm = false) (hJ : c.J o x)
    (hL' : ∀ y ∈ c.v.g.nodes, A'.L y = if y = cm then .vertex x else A.L y)
    (hF' : ∀ y ∈ c.v.g.nodes, y ≠ cm → A'.F y = A.F y) (hFcm : A'.F cm = c.v.toIndex o)
    (hP' : ∀ y, y ≠ cm → A'.P y = A.P y) (hPcm : A'.P cm = (cm, o) :: A.P x)
    (hord' : A'.ord = A.ord ++ [cm]) : AInv c A' := by
  have hcm : cm ∈ c.v.g.nodes := hm.mate_mem hμ
  have hμcm : c.μ cm = some o := hm.symm o ho cm hμ
  have hout' : ∀ y ∈ c.v.g.nodes, A'.out y = if y = cm then true else A.out y := by
    intro y hy
    unfold AS.out
    rw [hL' y hy]
    by_cases e : y = cm <;> simp [e, Label.isOuter]
  have hcmo : cm ≠ o := (hm.joined o ho cm hμ).1.symm
  have hpx := hA.path x hx hox
  have hsvn := hpx.svMem
  have hsvo := (hA.svFree hsvn).1
  have hcmsv : cm ≠ c.sv := fun e => by rw [e, hsvo] at hocm; cases hocm
  have hosv : o ≠ c.sv := fun e => by rw [e, hsvo] at hoo; cases hoo
  -- `cm` and `o` are on no path
  have hcm_notin : ∀ a ∈ c.v.g.nodes, A.out a = true → cm ∉ verts (A.P a) := by
    intro a ha hoa hin
    obtain ⟨p, _, hp, hop⟩ := (hA.path a ha hoa).inner_pair hin hocm
    rw [hμcm] at hp
    have : o = p := Option.some.inj hp
    rw [← this, hoo] at hop; cases hop
  have ho_notin : ∀ a ∈ c.v.g.nodes, A.out a = true → o ∉ verts (A.P a) := by
    intro a ha hoa hin
    obtain ⟨p, _, hp, hop⟩ := (hA.path a ha hoa).inner_pair hin hoo
    rw [hμ] at hp
    have : cm = p := Option.some.inj hp
    rw [← this, hocm] at hop; cases hop
  have hcm_ord : cm ∉ A.ord := fun h => by
    have := ((hA.ordMem cm).mp h).2
    rw [hocm] at this; cases this
  have hout_path : ∀ a ∈ c.v.g.nodes, A.out a = true → ∀ u ∈ verts (A.P a), A'.out u = A.out u := by
    intro a ha hoa u hu
    have hun : u ∈ c.v.g.nodes := (hA.path a ha hoa).mem u hu
    rw [hout' u hun]
    have : u ≠ cm := fun e => hcm_notin a ha hoa (e ▸ hu)
    simp [this]
  -- old paths
  have hold : ∀ a ∈ c.v.g.nodes, A.out a = true → PathOK c A' a := by
    intro a ha hoa
    have hpa := hA.path a ha hoa
    have hac : a ≠ cm := fun e => by rw [e, hocm] at hoa; cases hoa
    have hPa : A'.P a = A.P a := hP' a hac
    have houtp := hout_path a ha hoa
    have hao : a ∈ A.ord := (hA.ordMem a).mpr ⟨ha, hoa⟩
    have hLa : A'.L a = A.L a := by rw [hL' a ha]; simp [hac]
    have hPy : ∀ y, A.out y = true → A'.P y = A.P y := by
      intro y hoy
      exact hP' y (fun e => by rw [e, hocm] at hoy; cases hoy)
    refine ⟨hsvn, by rw [hPa]; exact hpa.hd, by rw [hPa]; exact hpa.alt, by rw [hPa]; exact hpa.nodup,
      by rw [hPa]; exact hpa.mem, ?_, ?_, ?_, ?_, ?_, ?_, ?_⟩
    · intro p u hpu
      rw [hPa] at hpu
      rw [houtp p (mem_verts_of_mem hpu).1]
      exact hpa.fstOuter p u hpu
    · intro pre p u rest hdec hu
      rw [hPa] at hdec
      have hpu : (p, u) ∈ A.P a := by rw [hdec]; simp
      have hv' := mem_verts_of_mem hpu
      rw [houtp u hv'.2] at hu
      obtain ⟨y, hy1, hy2⟩ := hpa.inner pre p u rest hdec hu
      have hpn : p ∈ c.v.g.nodes := hpa.mem p hv'.1
      have hpc : p ≠ cm := fun e => hcm_notin a ha hoa (e ▸ hv'.1)
      have hop : A.out p = true := hpa.fstOuter p u hpu
      have hyo : A.out y = true := ((hA.path p hpn hop).labVertex y hy1).2.1
      refine ⟨y, by rw [hL' p hpn]; simp [hpc, hy1], by rw [hPy y hyo]; exact hy2⟩
    · rw [hF' a ha hac, hPa, hpa.fiHead]
      exact (fin_congr c A A' _ houtp).symm
    · intro pre p u rest hdec
      rw [hPa] at hdec
      have hpu : (p, u) ∈ A.P a := by rw [hdec]; simp
      have hv' := mem_verts_of_mem hpu
      have hsub : ∀ w ∈ verts ((p, u) :: rest), w ∈ verts (A.P a) := by
        intro w hw; rw [hdec, verts_append]; exact List.mem_append_right _ hw
      have hpc : p ≠ cm := fun e => hcm_notin a ha hoa (e ▸ hv'.1)
      have huc : u ≠ cm := fun e => hcm_notin a ha hoa (e ▸ hv'.2)
      obtain ⟨f1, f2⟩ := hpa.fi pre p u rest hdec
      refine ⟨?_, ?_⟩
      · rw [hF' p (hpa.mem p hv'.1) hpc, f1]
        exact (fin_congr c A A' _ (fun w hw => houtp w (hsub w hw))).symm
      · intro hu
        rw [houtp u hv'.2] at hu
        rw [hF' u (hpa.mem u hv'.2) huc, f2 hu]
        exact (fin_congr c A A' _ (fun w hw => houtp w (hsub w (by simp [hw])))).symm
    · intro h; rw [hLa] at h; exact hpa.labStart h
    · intro y h
      rw [hLa] at h
      obtain ⟨h1, h2, ⟨u, h3⟩, h4⟩ := hpa.labVertex y h
      refine ⟨h1, ?_, ⟨u, by rw [hPa, hPy y h2]; exact h3⟩, tau_lt_mono hord' hao h4⟩
      rw [hout' y h1]; simp [h2]
    · intro k s t h
      rw [hLa] at h
      obtain ⟨c', d', hor, hc', hd', hoc, hod, hj, t1, t2, pre, z0, post, e1, e2, e3⟩ := hpa.labEdge k s t h
      refine ⟨c', d', hor, hc', hd', ?_, ?_, hj, tau_lt_mono hord' hao t1, tau_lt_mono hord' hao t2,
        pre, z0, post, by rw [hPy c' hoc]; exact e1, by rw [hPa, hPy d' hod]; exact e2, ?_⟩
      · rw [hout' c' hc']; simp [hoc]
      · rw [hout' d' hd']; simp [hod]
      · intro w hw; exact tau_lt_mono hord' hao (e3 w hw)
  refine ⟨?_, ?_, ?_, ?_⟩
  · rw [hord']
    exact List.nodup_append.mpr ⟨hA.ordNodup, by simp, fun a ha b hb => by
      simp at hb; subst hb; exact fun e => hcm_ord (e ▸ ha)⟩
  · intro y
    rw [hord', List.mem_append, hA.ordMem y]
    constructor
    · rintro (⟨h1, h2⟩ | h)
      · exact ⟨h1, by rw [hout' y h1]; simp [h2]⟩
      · simp at h; subst h; exact ⟨hcm, by rw [hout' y hcm]; simp⟩
    · rintro ⟨h1, h2⟩
      rw [hout' y h1] at h2
      by_cases e : y = cm
      · right; simp [e]
      · left; simp [e] at h2; exact ⟨h1, h2⟩
  · intro h
    refine ⟨?_, (hA.svFree h).2⟩
    rw [hout' c.sv h]; simp [(hA.svFree h).1]
  · intro a ha hoa
    by_cases hac : a = cm
    · subst hac
      have hxc : x ≠ a := fun e => by rw [e, hocm] at hox; cases hox
      have hPx : A'.P x = A.P x := hP' x hxc
      have hpx' := hold x hx hox
      have hfx : fstOr (A.P x) c.sv = x := hpx.hd
      have houtp := hout_path x hx hox
      have hoo' : A'.out o = false := by rw [hout' o ho]; simp [hcmo.symm, hoo]
      refine ⟨hsvn, by rw [hPcm]; rfl, ?_, ?_, ?_, ?_, ?_, ?_, ?_, ?_, ?_, ?_⟩
      · rw [hPcm]
        exact ⟨hμcm, hμ, by rw [hfx]; exact hJ, hpx.alt⟩
      · rw [hPcm]
        simp only [verts_cons, List.cons_append, List.nodup_cons, List.mem_cons, List.mem_append,
          List.not_mem_nil, or_false, not_or]
        exact ⟨⟨hcmo, hcm_notin x hx hox, hcmsv⟩, ⟨ho_notin x hx hox, hosv⟩, hpx.nodup⟩
      · rw [hPcm]
        intro w hw
        simp only [verts_cons, List.mem_cons] at hw
        rcases hw with e | e | hw
        · rw [e]; exact ha
        · rw [e]; exact ho
        · exact hpx.mem w hw
      · rw [hPcm]
        intro p u hpu
        cases List.mem_cons.mp hpu with
        | inl e => obtain ⟨rfl, rfl⟩ := Prod.mk.inj e; exact hoa
        | inr e => rw [← hPx] at e; exact hpx'.fstOuter p u e
      · rw [hPcm]
        intro pre p u rest hdec hu
        cases pre with
        | nil =>
          simp only [List.nil_append, List.cons.injEq, Prod.mk.injEq] at hdec
          obtain ⟨⟨e1, e2⟩, e3⟩ := hdec
          subst e1 e2 e3
          exact ⟨x, by rw [hL' a ha]; simp, hPx.symm⟩
        | cons b pre' =>
          simp only [List.cons_append, List.cons.injEq] at hdec
          exact hpx'.inner pre' p u rest (by rw [hPx]; exact hdec.2) hu
      · rw [hFcm, hPcm]
        unfold AS.fin
        simp [firstInner, hoo']
      · rw [hPcm]
        intro pre p u rest hdec
        cases pre with
        | nil =>
          simp only [List.nil_append, List.cons.injEq, Prod.mk.injEq] at hdec
          obtain ⟨⟨e1, e2⟩, e3⟩ := hdec
          subst e1 e2 e3
          refine ⟨?_, fun h => by rw [hoo'] at h; cases h⟩
          rw [hFcm]
          unfold AS.fin
          simp [firstInner, hoo']
        | cons b pre' =>
          simp only [List.cons_append, List.cons.injEq] at hdec
          exact hpx'.fi pre' p u rest (by rw [hPx]; exact hdec.2)
      · intro h; rw [hL' a ha] at h; simp at h
      · intro y h
        rw [hL' a ha] at h
        simp only [if_true, Label.vertex.injEq] at h
        subst h
        refine ⟨hx, by rw [hout' x hx]; simp [hox], ⟨o, by rw [hPcm, hPx]⟩, ?_⟩
        exact tau_old_lt_new hord' ((hA.ordMem x).mpr ⟨hx, hox⟩) hcm_ord
      · intro k s t h; rw [hL' a ha] at h; simp at h
    · rw [hout' a ha] at hoa
      simp only [hac, if_false] at hoa
      exact hold a ha hoa

end PetgraphModel.C15W2
