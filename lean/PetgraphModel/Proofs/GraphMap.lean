import PetgraphModel.Model.GraphMap
import PetgraphModel.Spec.SimpleGraph
/-
Helper definitions and lemmas for the C03 theorems (core Lean only).

Layer 1: `Vec::swap_remove`/`position` and the `IndexMap` model as a finite map (`get?` after every
         primitive), everything up to permutation.
Layer 2: the representation invariant `Inv`, the abstraction `abs`, one lemma pair per mutating call.
Layer 3: the answers of every call (`OutOk`), all histories.
-/
namespace PetgraphModel.GMProofs
open PetgraphModel PetgraphModel.GM PetgraphModel.SimpleGraphSpec

/-! ## Layer 1 -/

theorem set_perm {α : Type} (x : α) : ∀ (l : List α) (i : Nat), i < l.length →
    (l.set i x).Perm (x :: l.eraseIdx i)
  | [], i, h => by simp at h
  | y :: t, 0, _ => by simp
  | y :: t, i+1, h => by
    simp only [List.set_cons_succ, List.eraseIdx_cons_succ]
    have := set_perm x t i (by simpa using h)
    exact (List.Perm.cons y this).trans (List.Perm.swap x y _)

theorem swapRemoveAt_perm {α : Type} (l : List α) (i : Nat) (h : i < l.length) :
    (swapRemoveAt l i).Perm (l.eraseIdx i) := by
  unfold swapRemoveAt
  simp only [h, if_true]
  rcases List.eq_nil_or_concat l with rfl | ⟨l₁, x, rfl⟩
  · simp at h
  · simp only [List.getLast?_concat, List.concat_eq_append] at *
    simp at h
    by_cases hi : i < l₁.length
    · rw [List.set_append_left _ _ hi, List.dropLast_concat, List.eraseIdx_append_of_lt_length hi]
      exact (set_perm x l₁ i hi).trans (List.perm_append_singleton x _).symm
    · have : i = l₁.length := by omega
      subst this
      simp [List.set_append_right, List.eraseIdx_append_of_length_le]

theorem position_lt {α : Type} (p : α → Bool) : ∀ (l : List α) (i : Nat), position p l = some i → i < l.length
  | [], i, h => by simp [position] at h
  | x :: t, i, h => by
    unfold position at h
    split at h
    · simp at h; subst h; simp
    · simp only [Option.map_eq_some_iff] at h
      obtain ⟨j, hj, rfl⟩ := h
      have := position_lt p t j hj
      simp; omega

/-- if at most one element of `l` satisfies `p`, removing the first match is filtering -/
theorem eraseIdx_position {α : Type} (p : α → Bool) : ∀ (l : List α) (i : Nat), position p l = some i →
    l.Pairwise (fun x y => ¬ (p x = true ∧ p y = true)) → l.eraseIdx i = l.filter (fun x => !p x)
  | [], i, h, _ => by simp [position] at h
  | x :: t, i, h, hp => by
    unfold position at h
    rw [List.pairwise_cons] at hp
    split at h
    · rename_i hx
      simp at h; subst h
      simp only [List.eraseIdx_cons_zero, List.filter_cons, hx, Bool.not_true, Bool.false_eq_true, if_false]
      symm
      rw [List.filter_eq_self]
      intro y hy
      have := hp.1 y hy
      simp [hx] at this
      simp [this]
    · rename_i hx
      simp only [Option.map_eq_some_iff] at h
      obtain ⟨j, hj, rfl⟩ := h
      simp only [List.eraseIdx_cons_succ, List.filter_cons]
      simp only [Bool.not_eq_true] at hx
      simp [hx, eraseIdx_position p t j hj hp.2]

theorem position_none {α : Type} (p : α → Bool) : ∀ (l : List α), position p l = none → ∀ x ∈ l, p x = false
  | [], _ => by simp
  | x :: t, h => by
    unfold position at h
    split at h
    · simp at h
    · rename_i hx
      simp only [Option.map_eq_none_iff] at h
      intro y hy
      rcases List.mem_cons.1 hy with rfl | hy
      · simpa using hx
      · exact position_none p t h y hy

/-- `swap_remove(position(p))` under uniqueness: a permutation of the list without the match -/
theorem swapRemove_position_perm {α : Type} (p : α → Bool) (l : List α) (i : Nat) (h : position p l = some i)
    (hp : l.Pairwise (fun x y => ¬ (p x = true ∧ p y = true))) :
    (swapRemoveAt l i).Perm (l.filter (fun x => !p x)) := by
  rw [← eraseIdx_position p l i h hp]
  exact swapRemoveAt_perm l i (position_lt p l i h)

section imap
variable {κ ν : Type} [DecidableEq κ]
open IMap

theorem get?_isSome_iff (m : IMap κ ν) (k : κ) : (get? m k).isSome = true ↔ k ∈ keys m := by
  induction m with
  | nil => simp [get?, keys]
  | cons e t ih =>
    obtain ⟨k', v⟩ := e
    simp only [get?, keys, List.map_cons, List.mem_cons] at *
    split <;> grind

theorem get?_eq_none_iff (m : IMap κ ν) (k : κ) : get? m k = none ↔ k ∉ keys m := by
  rw [← get?_isSome_iff]; cases get? m k <;> simp

theorem mem_of_get? (m : IMap κ ν) (k : κ) (v : ν) (h : get? m k = some v) : (k, v) ∈ m := by
  induction m with
  | nil => simp [get?] at h
  | cons e t ih =>
    obtain ⟨k', v'⟩ := e
    simp only [get?] at h
    split at h
    · grind
    · simp [ih h]

theorem get?_of_mem (m : IMap κ ν) (hn : (keys m).Nodup) (k : κ) (v : ν) (h : (k, v) ∈ m) : get? m k = some v := by
  induction m with
  | nil => simp at h
  | cons e t ih =>
    obtain ⟨k', v'⟩ := e
    simp only [keys, List.map_cons, List.nodup_cons] at hn
    simp only [get?]
    rcases List.mem_cons.1 h with h | h
    · grind
    · have : k ∈ keys t := List.mem_map.2 ⟨(k, v), h, rfl⟩
      have hne : k' ≠ k := by intro e; subst e; exact hn.1 this
      simp [hne, ih hn.2 h]

theorem get?_eq_some_iff (m : IMap κ ν) (hn : (keys m).Nodup) (k : κ) (v : ν) :
    get? m k = some v ↔ (k, v) ∈ m := ⟨mem_of_get? m k v, get?_of_mem m hn k v⟩

/-- with duplicate-free keys, `get?` only depends on the entries as a set -/
theorem get?_perm (m m' : IMap κ ν) (hp : m.Perm m') (hn : (keys m).Nodup) (k : κ) : get? m k = get? m' k := by
  have hn' : (keys m').Nodup := (hp.map (fun x : κ × ν => x.1)).nodup_iff.1 hn
  apply Option.ext
  intro v
  rw [get?_eq_some_iff m hn, get?_eq_some_iff m' hn', hp.mem_iff]

theorem keys_set (m : IMap κ ν) (k : κ) (v : ν) : keys (IMap.set m k v) = keys m := by
  induction m with
  | nil => simp [IMap.set, keys]
  | cons e t ih =>
    obtain ⟨k', v'⟩ := e
    simp only [IMap.set, keys] at *
    split <;> simp_all

theorem get?_set (m : IMap κ ν) (k : κ) (v : ν) (x : κ) :
    get? (IMap.set m k v) x = if x = k then (get? m k).map (fun _ => v) else get? m x := by
  induction m with
  | nil => simp [IMap.set, get?]
  | cons e t ih =>
    obtain ⟨k', v'⟩ := e
    simp only [IMap.set, get?]
    split <;> simp only [get?] <;> grind

omit [DecidableEq κ] in
theorem keys_append (m : IMap κ ν) (k : κ) (v : ν) : keys (m ++ [(k, v)]) = keys m ++ [k] := by
  simp [keys]

theorem get?_append (m : IMap κ ν) (k : κ) (v : ν) (x : κ) :
    get? (m ++ [(k, v)]) x = match get? m x with | some y => some y | none => if k = x then some v else none := by
  induction m with
  | nil => simp [get?]
  | cons e t ih =>
    obtain ⟨k', v'⟩ := e
    simp only [List.cons_append, get?]
    split <;> simp_all

theorem get?_filter_ne (m : IMap κ ν) (k x : κ) :
    get? (m.filter (fun e => !decide (e.1 = k))) x = if x = k then none else get? m x := by
  induction m with
  | nil => simp [get?]
  | cons e t ih =>
    obtain ⟨k', v'⟩ := e
    simp only [List.filter_cons]
    split <;> simp only [get?] <;> grind

theorem indexOf?_some (m : IMap κ ν) (k : κ) (i : Nat) (h : indexOf? m k = some i) :
    ∃ hi : i < m.length, m[i].1 = k := by
  induction m generalizing i with
  | nil => simp [indexOf?] at h
  | cons e t ih =>
    obtain ⟨k', v'⟩ := e
    simp only [indexOf?] at h
    split at h
    · simp at h; subst h; simp_all
    · simp only [Option.map_eq_some_iff] at h
      obtain ⟨j, hj, rfl⟩ := h
      obtain ⟨hj', e⟩ := ih j hj
      exact ⟨by simp; omega, by simpa using e⟩

theorem indexOf?_none (m : IMap κ ν) (k : κ) : indexOf? m k = none ↔ get? m k = none := by
  induction m with
  | nil => simp [indexOf?, get?]
  | cons e t ih =>
    obtain ⟨k', v'⟩ := e
    simp only [indexOf?, get?]
    split <;> simp_all

theorem eraseIdx_indexOf (m : IMap κ ν) (hn : (keys m).Nodup) (k : κ) (i : Nat) (h : indexOf? m k = some i) :
    m.eraseIdx i = m.filter (fun e => !decide (e.1 = k)) := by
  induction m generalizing i with
  | nil => simp [indexOf?] at h
  | cons e t ih =>
    obtain ⟨k', v'⟩ := e
    simp only [keys, List.map_cons, List.nodup_cons] at hn
    simp only [indexOf?] at h
    split at h
    · rename_i hk
      simp at h; subst h; subst hk
      simp only [List.eraseIdx_cons_zero, List.filter_cons]
      simp only [decide_true, Bool.not_true, Bool.false_eq_true, if_false]
      symm; rw [List.filter_eq_self]
      intro y hy
      have : y.1 ∈ keys t := List.mem_map.2 ⟨y, hy, rfl⟩
      have : y.1 ≠ k' := by intro e; rw [e] at this; exact hn.1 this
      simp [this]
    · rename_i hk
      simp only [Option.map_eq_some_iff] at h
      obtain ⟨j, hj, rfl⟩ := h
      simp only [List.eraseIdx_cons_succ, List.filter_cons]
      simp [hk, ih hn.2 j hj]

theorem swapRemove_perm (m : IMap κ ν) (hn : (keys m).Nodup) (k : κ) :
    (swapRemove m k).1.Perm (m.filter (fun e => !decide (e.1 = k))) := by
  unfold swapRemove
  cases h : indexOf? m k with
  | none =>
    simp only
    have := (indexOf?_none m k).1 h
    rw [get?_eq_none_iff] at this
    rw [List.filter_eq_self.2]
    intro y hy
    have : y.1 ∈ keys m := List.mem_map.2 ⟨y, hy, rfl⟩
    have : y.1 ≠ k := by intro e; subst e; contradiction
    simp [this]
  | some i =>
    simp only
    rw [← eraseIdx_indexOf m hn k i h]
    exact swapRemoveAt_perm m i (indexOf?_some m k i h).1

theorem swapRemove_snd (m : IMap κ ν) (k : κ) : (swapRemove m k).2 = get? m k := by
  unfold swapRemove
  cases h : indexOf? m k with
  | none => simp [(indexOf?_none m k).1 h]
  | some i => simp

omit [DecidableEq κ] in
theorem keys_nodup_filter (m : IMap κ ν) (hn : (keys m).Nodup) (p : κ × ν → Bool) : (keys (m.filter p)).Nodup := by
  unfold keys at *
  exact (List.filter_sublist.map _).nodup hn

theorem swapRemove_nodup (m : IMap κ ν) (hn : (keys m).Nodup) (k : κ) : (keys (swapRemove m k).1).Nodup := by
  have hp := swapRemove_perm m hn k
  exact ((hp.map (fun x : κ × ν => x.1)).nodup_iff).2 (keys_nodup_filter m hn _)

theorem get?_swapRemove (m : IMap κ ν) (hn : (keys m).Nodup) (k x : κ) :
    get? (swapRemove m k).1 x = if x = k then none else get? m x := by
  rw [get?_perm _ _ (swapRemove_perm m hn k) (swapRemove_nodup m hn k), get?_filter_ne]

theorem insert_snd (m : IMap κ ν) (k : κ) (v : ν) : (IMap.insert m k v).2 = get? m k := by
  unfold IMap.insert; cases get? m k <;> simp

theorem get?_insert (m : IMap κ ν) (k : κ) (v : ν) (x : κ) :
    get? (IMap.insert m k v).1 x = if x = k then some v else get? m x := by
  unfold IMap.insert
  cases h : get? m k with
  | none => simp only [get?_append]; split <;> grind
  | some o => simp only [get?_set]; grind

theorem insert_nodup (m : IMap κ ν) (hn : (keys m).Nodup) (k : κ) (v : ν) : (keys (IMap.insert m k v).1).Nodup := by
  unfold IMap.insert
  cases h : get? m k with
  | none =>
    simp only [keys_append]
    rw [get?_eq_none_iff] at h
    rw [List.nodup_append]
    refine ⟨hn, by simp, ?_⟩
    intro a ha b hb
    simp at hb; subst hb
    intro e; subst e; exact h ha
  | some o => simpa [keys_set] using hn

end imap

/-! ## Layer 2: invariant and abstraction -/

/-- adjacency vector of `a` (`[]` for an absent node) -/
abbrev adjF (nodes : IMap Nat Adj) (a : Nat) : Adj := (IMap.get? nodes a).getD []

/-- the consistency of the two maps, stated on their finite-map views: `P` = node present,
`A` = adjacency vector, `E` = edge map -/
structure Good (d : Bool) (P : Nat → Bool) (A : Nat → Adj) (E : EKey → Option Nat) : Prop where
  /-- keys are canonical (`edge_key`) -/
  canon : ∀ a b, (E (a, b)).isSome = true → d = true ∨ a ≤ b
  /-- edges join present nodes -/
  ends : ∀ a b, (E (a, b)).isSome = true → P a = true ∧ P b = true
  /-- directed: no duplicate entries; `(b, Outgoing)` at `a` iff `a → b` is an edge; `(b, Incoming)` at `a`
  iff `b → a` is an edge and it is not a self-loop -/
  adjD : d = true → ∀ a, (A a).Nodup ∧ (∀ b, (b, Dir.out) ∈ A a ↔ (E (a, b)).isSome = true) ∧
      (∀ b, (b, Dir.inc) ∈ A a ↔ a ≠ b ∧ (E (b, a)).isSome = true)
  /-- undirected: every neighbour once (whatever its tag); `b` listed at `a` iff `{a, b}` is an edge -/
  adjU : d = false → ∀ a, ((A a).map (·.1)).Nodup ∧
      ∀ b, b ∈ (A a).map (·.1) ↔ (E (edgeKey false a b)).isSome = true

/-- representation invariant of `GraphMap` -/
structure Inv (s : State) : Prop where
  nodesNodup : (IMap.keys s.nodes).Nodup
  edgesNodup : (IMap.keys s.edges).Nodup
  good : Good s.directed (IMap.contains s.nodes) (adjF s.nodes) (IMap.get? s.edges)

/-- the abstract simple graph a state denotes -/
def abs (s : State) : SG :=
  ⟨s.directed, fun n => IMap.contains s.nodes n, fun a b => IMap.get? s.edges (edgeKey s.directed a b)⟩

theorem edgeKey_true (a b : Nat) : edgeKey true a b = (a, b) := by simp [edgeKey]
theorem edgeKey_false_comm (a b : Nat) : edgeKey false a b = edgeKey false b a := by
  unfold edgeKey; simp; split <;> split <;> first | rfl | (congr 1 <;> omega) | omega

theorem edgeKey_eq_iff (d : Bool) (a b x y : Nat) :
    edgeKey d x y = edgeKey d a b ↔ samePair d a b x y = true := by
  unfold edgeKey samePair
  cases d <;> simp <;> grind

/-- transport: `Good` only sees which keys are present, which nodes are present, and the adjacency
vectors up to permutation -/
theorem good_congr {d : Bool} {P P' : Nat → Bool} {A A' : Nat → Adj} {E E' : EKey → Option Nat}
    (h : Good d P A E) (hP : ∀ x, P' x = P x) (hA : ∀ x, (A' x).Perm (A x))
    (hE : ∀ k, (E' k).isSome = (E k).isSome) : Good d P' A' E' := by
  refine ⟨?_, ?_, ?_, ?_⟩
  · intro a b; rw [hE]; exact h.canon a b
  · intro a b; rw [hE, hP, hP]; exact h.ends a b
  · intro hd a
    obtain ⟨h1, h2, h3⟩ := h.adjD hd a
    refine ⟨(hA a).nodup_iff.2 h1, ?_, ?_⟩
    · intro b; rw [(hA a).mem_iff, hE]; exact h2 b
    · intro b; rw [(hA a).mem_iff, hE]; exact h3 b
  · intro hd a
    obtain ⟨h1, h2⟩ := h.adjU hd a
    have hp := (hA a).map (fun x : Nat × Dir => x.1)
    refine ⟨hp.nodup_iff.2 h1, ?_⟩
    intro b; rw [hp.mem_iff, hE]; exact h2 b

theorem good_addNode {d : Bool} {P : Nat → Bool} {A : Nat → Adj} {E : EKey → Option Nat}
    (h : Good d P A E) (n : Nat) : Good d (fun x => x == n || P x) A E := by
  refine ⟨h.canon, ?_, h.adjD, h.adjU⟩
  intro a b hab
  have := h.ends a b hab
  simp [this]

/-- removing entries: every adjacency vector is filtered, the keys `r` are dropped, consistently -/
theorem good_filter {d : Bool} {P : Nat → Bool} {A A' : Nat → Adj} {E E' : EKey → Option Nat}
    (h : Good d P A E) (q : Nat → Nat × Dir → Bool) (r : EKey → Bool)
    (hA : ∀ x, (A' x).Perm ((A x).filter (q x)))
    (hE : ∀ k, E' k = if r k = true then none else E k)
    (hD : d = true → ∀ a b, ((b, Dir.out) ∈ A a → q a (b, .out) = !r (a, b)) ∧
                            ((b, Dir.inc) ∈ A a → q a (b, .inc) = !r (b, a)))
    (hU : d = false → ∀ a e, e ∈ A a → q a e = !r (edgeKey false a e.1)) :
    Good d P A' E' := by
  have hsome : ∀ k, (E' k).isSome = true → (E k).isSome = true := by
    intro k hk; rw [hE] at hk; split at hk <;> simp_all
  refine ⟨fun a b hab => h.canon a b (hsome _ hab), fun a b hab => h.ends a b (hsome _ hab), ?_, ?_⟩
  · intro hd a
    obtain ⟨h1, h2, h3⟩ := h.adjD hd a
    refine ⟨(hA a).nodup_iff.2 (h1.sublist List.filter_sublist), ?_, ?_⟩
    · intro b
      rw [(hA a).mem_iff, List.mem_filter, hE]
      have := (hD hd a b).1
      grind
    · intro b
      rw [(hA a).mem_iff, List.mem_filter, hE]
      have := (hD hd a b).2
      grind
  · intro hd a
    obtain ⟨h1, h2⟩ := h.adjU hd a
    have hp := (hA a).map (fun x : Nat × Dir => x.1)
    refine ⟨hp.nodup_iff.2 (h1.sublist (List.filter_sublist.map _)), ?_⟩
    intro b
    rw [hp.mem_iff, hE]
    constructor
    · intro hb
      obtain ⟨e, he, rfl⟩ := List.mem_map.1 hb
      rw [List.mem_filter] at he
      have := hU hd a e he.1
      have h2' := (h2 e.1).1 (List.mem_map.2 ⟨e, he.1, rfl⟩)
      grind
    · intro hb
      have hb' : (E (edgeKey false a b)).isSome = true := by split at hb <;> simp_all
      obtain ⟨e, he, rfl⟩ := List.mem_map.1 ((h2 b).2 hb')
      have := hU hd a e he
      exact List.mem_map.2 ⟨e, List.mem_filter.2 ⟨he, by grind⟩, rfl⟩

theorem good_dropNode {d : Bool} {P : Nat → Bool} {A : Nat → Adj} {E : EKey → Option Nat}
    (h : Good d P A E) (n : Nat) (hE : ∀ a b, (E (a, b)).isSome = true → a ≠ n ∧ b ≠ n) :
    Good d (fun x => x != n && P x) A E := by
  refine ⟨h.canon, ?_, h.adjD, h.adjU⟩
  intro a b hab
  have h1 := h.ends a b hab
  have h2 := hE a b hab
  simp [h1, h2]

/-- adjacency vectors after the two `push`es of `add_edge` -/
def pushBoth (A : Nat → Adj) (a b : Nat) : Nat → Adj :=
  let A1 : Nat → Adj := fun y => if y = a then A a ++ [(b, Dir.out)] else A y
  fun x => if a ≠ b ∧ x = b then A1 b ++ [(a, Dir.inc)] else A1 x

theorem good_addEdge {d : Bool} {P : Nat → Bool} {A : Nat → Adj} {E : EKey → Option Nat}
    (h : Good d P A E) (a b w : Nat) (hnew : E (edgeKey d a b) = none) :
    Good d (fun x => x == a || x == b || P x) (pushBoth A a b)
      (fun k => if k = edgeKey d a b then some w else E k) := by
  refine ⟨?_, ?_, ?_, ?_⟩
  · intro x y hxy
    by_cases hk : (x, y) = edgeKey d a b
    · unfold edgeKey at hk; cases d <;> simp at hk ⊢ <;> grind
    · simp [hk] at hxy; exact h.canon x y hxy
  · intro x y hxy
    by_cases hk : (x, y) = edgeKey d a b
    · unfold edgeKey at hk; cases d <;> simp at hk ⊢ <;> grind
    · simp [hk] at hxy; have := h.ends x y hxy; simp [this]
  · intro hd x
    subst hd
    simp only [edgeKey_true] at hnew ⊢
    have ha := h.adjD rfl a
    have hb := h.adjD rfl b
    have hx := h.adjD rfl x
    unfold pushBoth
    by_cases hab : a = b
    · subst hab
      by_cases hxa : x = a
      · subst hxa
        simp only [ne_eq, not_true_eq_false, false_and, if_false, if_true]
        refine ⟨?_, ?_, ?_⟩
        · rw [List.nodup_append]; grind
        · intro c; simp only [List.mem_append, List.mem_singleton]; grind
        · intro c; simp only [List.mem_append, List.mem_singleton]; grind
      · simp only [ne_eq, not_true_eq_false, false_and, if_false, hxa]
        refine ⟨hx.1, ?_, ?_⟩
        · intro c; grind
        · intro c; grind
    · by_cases hxa : x = a
      · subst hxa
        have : ¬ (x = b) := hab
        simp only [ne_eq, hab, not_false_eq_true, and_false, if_false, if_true]
        refine ⟨?_, ?_, ?_⟩
        · rw [List.nodup_append]; grind
        · intro c; simp only [List.mem_append, List.mem_singleton]; grind
        · intro c; simp only [List.mem_append, List.mem_singleton]; grind
      · by_cases hxb : x = b
        · subst hxb
          have : ¬ (x = a) := hxa
          simp only [ne_eq, hab, not_false_eq_true, and_self, if_true, this, if_false]
          refine ⟨?_, ?_, ?_⟩
          · rw [List.nodup_append]; grind
          · intro c; simp only [List.mem_append, List.mem_singleton]; grind
          · intro c; simp only [List.mem_append, List.mem_singleton]; grind
        · simp only [ne_eq, hab, not_false_eq_true, hxb, and_false, if_false, hxa]
          refine ⟨hx.1, ?_, ?_⟩
          · intro c; grind
          · intro c; grind
  · intro hd x
    subst hd
    have ha := h.adjU rfl a
    have hb := h.adjU rfl b
    have hx := h.adjU rfl x
    have hcomm := edgeKey_false_comm
    have hkey : ∀ c e, edgeKey false c e = edgeKey false a b ↔ (c = a ∧ e = b) ∨ (c = b ∧ e = a) := by
      intro c e; rw [edgeKey_eq_iff]; simp [samePair]
    unfold pushBoth
    by_cases hab : a = b
    · subst hab
      by_cases hxa : x = a
      · subst hxa
        simp only [ne_eq, not_true_eq_false, false_and, if_false, if_true, List.map_append, List.map_cons, List.map_nil]
        refine ⟨?_, ?_⟩
        · rw [List.nodup_append]; grind
        · intro c; simp only [List.mem_append, List.mem_singleton]; grind
      · simp only [ne_eq, not_true_eq_false, false_and, if_false, hxa]
        refine ⟨hx.1, ?_⟩
        intro c; grind
    · by_cases hxa : x = a
      · subst hxa
        have : ¬ (x = b) := hab
        simp only [ne_eq, hab, not_false_eq_true, and_false, if_false, if_true, List.map_append, List.map_cons, List.map_nil]
        refine ⟨?_, ?_⟩
        · rw [List.nodup_append]; grind
        · intro c; simp only [List.mem_append, List.mem_singleton]; grind
      · by_cases hxb : x = b
        · subst hxb
          have : ¬ (x = a) := hxa
          simp only [ne_eq, hab, not_false_eq_true, and_self, if_true, this, if_false, List.map_append, List.map_cons, List.map_nil]
          refine ⟨?_, ?_⟩
          · rw [List.nodup_append]; grind
          · intro c; simp only [List.mem_append, List.mem_singleton]; grind
        · simp only [ne_eq, hab, not_false_eq_true, hxb, and_false, if_false, hxa]
          refine ⟨hx.1, ?_⟩
          intro c; grind

/-! ### the primitives on the node map -/

theorem contains_eq (m : IMap Nat Adj) (x : Nat) : IMap.contains m x = (IMap.get? m x).isSome := rfl

theorem pushAdj_nodup (nodes : IMap Nat Adj) (hn : (IMap.keys nodes).Nodup) (a : Nat) (e : Nat × Dir) :
    (IMap.keys (pushAdj nodes a e)).Nodup := by
  unfold pushAdj
  cases h : IMap.get? nodes a with
  | some l => simpa [keys_set] using hn
  | none =>
    simp only [keys_append]
    rw [get?_eq_none_iff] at h
    rw [List.nodup_append]
    refine ⟨hn, by simp, ?_⟩
    intro x hx y hy
    simp at hy; subst hy
    intro e; subst e; exact h hx

theorem get?_pushAdj (nodes : IMap Nat Adj) (a : Nat) (e : Nat × Dir) (x : Nat) :
    IMap.get? (pushAdj nodes a e) x = if x = a then some (adjF nodes a ++ [e]) else IMap.get? nodes x := by
  unfold pushAdj adjF
  cases h : IMap.get? nodes a with
  | some l => simp only [get?_set, h]; grind
  | none => simp only [get?_append]; split <;> grind

theorem adjF_pushAdj (nodes : IMap Nat Adj) (a : Nat) (e : Nat × Dir) (x : Nat) :
    adjF (pushAdj nodes a e) x = if x = a then adjF nodes a ++ [e] else adjF nodes x := by
  unfold adjF; rw [get?_pushAdj]; split <;> simp

theorem contains_pushAdj (nodes : IMap Nat Adj) (a : Nat) (e : Nat × Dir) (x : Nat) :
    IMap.contains (pushAdj nodes a e) x = (x == a || IMap.contains nodes x) := by
  simp only [contains_eq, get?_pushAdj]; split <;> simp_all

/-- the predicate `remove_single_edge` searches with -/
def rmPred (d : Bool) (b : Nat) (dir : Dir) (e : Nat × Dir) : Bool :=
  if d then decide (e = (b, dir)) else decide (e.1 = b)

theorem removeSingleEdge_spec (d : Bool) (nodes : IMap Nat Adj) (a b : Nat) (dir : Dir)
    (hu : (adjF nodes a).Pairwise (fun x y => ¬ (rmPred d b dir x = true ∧ rmPred d b dir y = true))) :
    let r := removeSingleEdge d nodes a b dir
    IMap.keys r.1 = IMap.keys nodes ∧ (∀ x, IMap.contains r.1 x = IMap.contains nodes x) ∧
    (∀ x, x ≠ a → adjF r.1 x = adjF nodes x) ∧
    (adjF r.1 a).Perm ((adjF nodes a).filter (fun e => !rmPred d b dir e)) ∧
    r.2 = (adjF nodes a).any (rmPred d b dir) := by
  intro r
  have hr : r = removeSingleEdge d nodes a b dir := rfl
  clear_value r
  unfold removeSingleEdge at hr
  cases hg : IMap.get? nodes a with
  | none =>
    simp only [hg] at hr
    subst hr
    simp [adjF, hg]
  | some sus =>
    simp only [hg] at hr
    have hadj : adjF nodes a = sus := by simp [adjF, hg]
    rw [hadj] at hu ⊢
    have hpos : (if d = true then position (fun e => decide (e = (b, dir))) sus
               else position (fun e => decide (e.1 = b)) sus) = position (rmPred d b dir) sus := by
      unfold rmPred; cases d <;> simp
    rw [hpos] at hr
    cases hp : position (rmPred d b dir) sus with
    | none =>
      simp only [hp] at hr
      subst hr
      have hall := position_none _ _ hp
      refine ⟨rfl, fun _ => rfl, fun _ _ => rfl, ?_, ?_⟩
      · rw [hadj, List.filter_eq_self.2]; intro x hx; simp [hall x hx]
      · simp only [Bool.false_eq, List.any_eq_false]; intro x hx; simp [hall x hx]
    | some i =>
      simp only [hp] at hr
      subst hr
      refine ⟨keys_set _ _ _, ?_, ?_, ?_, ?_⟩
      · intro x; simp only [contains_eq, get?_set, hg]; split <;> simp_all
      · intro x hx; simp [adjF, get?_set, hx]
      · simp only [adjF, get?_set, hg, if_true, Option.map_some, Option.getD_some]
        exact swapRemove_position_perm _ _ _ hp hu
      · simp only [Bool.true_eq, List.any_eq_true]
        have hlt := position_lt _ _ _ hp
        refine ⟨sus[i], List.getElem_mem hlt, ?_⟩
        clear hu hpos hadj hg
        induction sus generalizing i with
        | nil => simp [position] at hp
        | cons y t ih =>
          unfold position at hp
          split at hp
          · simp at hp; subst hp; simpa
          · simp only [Option.map_eq_some_iff] at hp
            obtain ⟨j, hj, rfl⟩ := hp
            simpa using ih j hj (position_lt _ _ _ hj)

/-! ### per-call lemmas: invariant and refinement -/

theorem sg_ext {g g' : SG} (hd : g.directed = g'.directed) (hn : ∀ x, g.node x = g'.node x)
    (hw : ∀ x y, g.w x y = g'.w x y) : g = g' := by
  cases g; cases g'; simp only [SG.mk.injEq] at *
  exact ⟨hd, funext hn, funext fun x => funext (hw x)⟩

theorem inv_empty (d : Bool) : Inv (State.empty d) := by
  refine ⟨by simp [State.empty, IMap.keys], by simp [State.empty, IMap.keys], ?_⟩
  refine ⟨?_, ?_, ?_, ?_⟩ <;> simp [State.empty, IMap.get?, adjF]

theorem abs_empty (d : Bool) : abs (State.empty d) = SG.empty d := by
  apply sg_ext <;> simp [abs, State.empty, SG.empty, IMap.contains, IMap.get?]

theorem addNode_directed (s : State) (n : Nat) : (addNode s n).directed = s.directed := by
  unfold addNode; split <;> rfl

theorem addNode_inv (s : State) (n : Nat) (h : Inv s) : Inv (addNode s n) := by
  unfold addNode
  split
  · exact h
  · rename_i hc
    have hnone : IMap.get? s.nodes n = none := by
      simp only [contains_eq] at hc; cases hg : IMap.get? s.nodes n <;> simp_all
    refine ⟨?_, h.edgesNodup, ?_⟩
    · simp only [keys_append]
      rw [List.nodup_append]
      refine ⟨h.nodesNodup, by simp, ?_⟩
      intro x hx y hy; simp at hy; subst hy
      intro e; subst e
      exact (get?_eq_none_iff _ _).1 hnone hx
    · refine good_congr (good_addNode h.good n) ?_ ?_ (fun _ => rfl)
      · intro x
        simp only [contains_eq, get?_append]
        cases hx : IMap.get? s.nodes x <;> simp <;> grind
      · intro x
        simp only [adjF, get?_append]
        cases hx : IMap.get? s.nodes x <;> simp
        split <;> simp

theorem addNode_abs (s : State) (n : Nat) : abs (addNode s n) = (abs s).addNode n := by
  unfold addNode
  split
  · rename_i hc
    apply sg_ext <;> simp [abs, SG.addNode]
    exact hc
  · apply sg_ext <;> simp [abs, SG.addNode]
    intro x
    simp only [contains_eq, get?_append]
    cases hx : IMap.get? s.nodes x <;> simp <;> grind

theorem addEdge_eq (s : State) (a b w : Nat) : addEdge s a b w =
    match IMap.get? s.edges (edgeKey s.directed a b) with
    | some old => ({ s with edges := (IMap.insert s.edges (edgeKey s.directed a b) w).1 }, some old)
    | none => ({ s with
        nodes := if a ≠ b then pushAdj (pushAdj s.nodes a (b, .out)) b (a, .inc) else pushAdj s.nodes a (b, .out)
        edges := (IMap.insert s.edges (edgeKey s.directed a b) w).1 }, none) := by
  unfold addEdge IMap.insert
  cases IMap.get? s.edges (edgeKey s.directed a b) <;> simp

theorem addEdge_out (s : State) (a b w : Nat) : (addEdge s a b w).2 = (abs s).w a b := by
  rw [addEdge_eq]; simp only [abs]
  cases IMap.get? s.edges (edgeKey s.directed a b) <;> simp

theorem addEdge_directed (s : State) (a b w : Nat) : (addEdge s a b w).1.directed = s.directed := by
  rw [addEdge_eq]; cases IMap.get? s.edges (edgeKey s.directed a b) <;> simp

theorem key_ends {s : State} (h : Inv s) (a b : Nat) (hk : (IMap.get? s.edges (edgeKey s.directed a b)).isSome = true) :
    IMap.contains s.nodes a = true ∧ IMap.contains s.nodes b = true := by
  unfold edgeKey at hk
  split at hk
  · exact h.good.ends a b hk
  · exact (h.good.ends b a hk).symm

theorem addEdge_inv (s : State) (a b w : Nat) (h : Inv s) : Inv (addEdge s a b w).1 := by
  rw [addEdge_eq]
  cases hg : IMap.get? s.edges (edgeKey s.directed a b) with
  | some old =>
    refine ⟨h.nodesNodup, insert_nodup _ h.edgesNodup _ _, ?_⟩
    refine good_congr h.good (fun _ => rfl) (fun _ => List.Perm.refl _) ?_
    intro k; simp only [get?_insert]; split <;> simp_all
  | none =>
    refine ⟨?_, insert_nodup _ h.edgesNodup _ _, ?_⟩
    · simp only; split
      · exact pushAdj_nodup _ (pushAdj_nodup _ h.nodesNodup _ _) _ _
      · exact pushAdj_nodup _ h.nodesNodup _ _
    · refine good_congr (good_addEdge h.good a b w hg) ?_ ?_ ?_
      · intro x; simp only; split
        · simp only [contains_pushAdj]; grind
        · simp only [contains_pushAdj]; grind
      · intro x; simp only [pushBoth]
        split
        · rename_i hab
          simp only [adjF_pushAdj]
          have : List.Perm (α := Nat × Dir) = fun l l' => l.Perm l' := rfl
          by_cases hxb : x = b
          · subst hxb; simp [hab]
          · simp [hxb]
        · rename_i hab
          simp only [adjF_pushAdj]
          simp only [ne_eq, Decidable.not_not] at hab
          simp [hab]
      · intro k; simp only [get?_insert]

theorem addEdge_abs (s : State) (a b w : Nat) (h : Inv s) : abs (addEdge s a b w).1 = (abs s).addEdge a b w := by
  have hd := addEdge_directed s a b w
  apply sg_ext
  · simp [abs, SG.addEdge, hd]
  · intro x
    rw [addEdge_eq]
    cases hg : IMap.get? s.edges (edgeKey s.directed a b) with
    | some old =>
      have := key_ends h a b (by simp [hg])
      simp only [abs, SG.addEdge]
      by_cases hxa : x = a <;> by_cases hxb : x = b <;> simp_all
    | none =>
      simp only [abs, SG.addEdge]
      split
      · simp only [contains_pushAdj]; grind
      · simp only [contains_pushAdj]; grind
  · intro x y
    have : (addEdge s a b w).1.edges = (IMap.insert s.edges (edgeKey s.directed a b) w).1 := by
      rw [addEdge_eq]; cases IMap.get? s.edges (edgeKey s.directed a b) <;> simp
    simp only [abs, SG.addEdge, this, hd, get?_insert, edgeKey_eq_iff]
    rfl

/-- what `remove_single_edge` looks for occurs at most once in an adjacency vector -/
theorem good_unique {d : Bool} {P : Nat → Bool} {A : Nat → Adj} {E : EKey → Option Nat}
    (h : Good d P A E) (a b : Nat) (dir : Dir) :
    (A a).Pairwise (fun x y => ¬ (rmPred d b dir x = true ∧ rmPred d b dir y = true)) := by
  cases d with
  | true =>
    have := (h.adjD rfl a).1
    refine List.Pairwise.imp ?_ this
    intro x y hxy; simp [rmPred]; grind
  | false =>
    have := (h.adjU rfl a).1
    rw [List.Nodup, List.pairwise_map] at this
    refine List.Pairwise.imp ?_ this
    intro x y hxy; simp [rmPred]; grind

/-- `remove_single_edge` answers whether the entry was there -/
theorem any_rmPred_out {d : Bool} {P : Nat → Bool} {A : Nat → Adj} {E : EKey → Option Nat}
    (h : Good d P A E) (a b : Nat) : (A a).any (rmPred d b .out) = (E (edgeKey d a b)).isSome := by
  cases d with
  | true =>
    have := (h.adjD rfl a).2.1 b
    rw [Bool.eq_iff_iff, List.any_eq_true, edgeKey_true, ← this]
    simp [rmPred]
  | false =>
    have := (h.adjU rfl a).2 b
    rw [Bool.eq_iff_iff, List.any_eq_true, ← this]
    simp [rmPred]

theorem any_rmPred_inc {d : Bool} {P : Nat → Bool} {A : Nat → Adj} {E : EKey → Option Nat}
    (h : Good d P A E) (a b : Nat) (hab : a ≠ b) : (A b).any (rmPred d a .inc) = (E (edgeKey d a b)).isSome := by
  cases d with
  | true =>
    have := (h.adjD rfl b).2.2 a
    rw [Bool.eq_iff_iff, List.any_eq_true, edgeKey_true]
    simp only [rmPred, if_true, decide_eq_true_eq]
    grind
  | false =>
    have := (h.adjU rfl b).2 a
    rw [Bool.eq_iff_iff, List.any_eq_true, edgeKey_false_comm, ← this]
    simp [rmPred]

/-- which entries `remove_edge(a, b)` filters out of the adjacency vector of `x` -/
def rmEdgeKeep (d : Bool) (a b x : Nat) : Nat × Dir → Bool :=
  if x = a then fun e => !rmPred d b .out e
  else if x = b then fun e => !rmPred d a .inc e else fun _ => true

theorem rmEdge_compatD (A : Nat → Adj) (E : EKey → Option Nat) (P : Nat → Bool) (g : Good true P A E) (a b x c : Nat) :
    ((c, Dir.out) ∈ A x → rmEdgeKeep true a b x (c, .out) = !decide ((x, c) = edgeKey true a b)) ∧
    ((c, Dir.inc) ∈ A x → rmEdgeKeep true a b x (c, .inc) = !decide ((c, x) = edgeKey true a b)) := by
  have := g.adjD rfl x
  simp only [rmEdgeKeep, rmPred, edgeKey_true]
  constructor
  · intro hc; split <;> (try split) <;> simp <;> grind
  · intro hc; split <;> (try split) <;> simp <;> grind

theorem rmEdge_compatU (a b x : Nat) (e : Nat × Dir) :
    rmEdgeKeep false a b x e = !decide (edgeKey false x e.1 = edgeKey false a b) := by
  have hk := edgeKey_eq_iff false a b x e.1
  simp [samePair] at hk
  simp only [rmEdgeKeep, rmPred]
  split <;> (try split) <;> simp <;> grind

theorem removeEdge_spec (s : State) (a b : Nat) (h : Inv s) :
    let r := removeEdge s a b
    Inv r.1 ∧ r.2 = some ((abs s).w a b) ∧ abs r.1 = (abs s).removeEdge a b := by
  intro r
  have hr : r = removeEdge s a b := rfl
  clear_value r
  unfold removeEdge at hr
  obtain ⟨d, nodes, edges⟩ := s
  simp only at hr
  have g : Good d (IMap.contains nodes) (adjF nodes) (IMap.get? edges) := h.good
  have hnn : (IMap.keys nodes).Nodup := h.nodesNodup
  have hen : (IMap.keys edges).Nodup := h.edgesNodup
  obtain ⟨k1, c1, o1, p1, b1⟩ := removeSingleEdge_spec d nodes a b .out (good_unique g a b .out)
  generalize removeSingleEdge d nodes a b .out = r1 at *
  have hkeys3 := swapRemove_nodup edges hen (edgeKey d a b)
  have hget3 := get?_swapRemove edges hen (edgeKey d a b)
  have hsnd3 := swapRemove_snd edges (edgeKey d a b)
  generalize IMap.swapRemove edges (edgeKey d a b) = r3 at *
  rw [any_rmPred_out g a b] at b1
  have hE : ∀ k, IMap.get? r3.1 k = if decide (k = edgeKey d a b) = true then none else IMap.get? edges k := by
    intro k; rw [hget3]; simp
  have hD : d = true → ∀ x c, ((c, Dir.out) ∈ adjF nodes x → rmEdgeKeep d a b x (c, .out) = !decide ((x, c) = edgeKey d a b)) ∧
      ((c, Dir.inc) ∈ adjF nodes x → rmEdgeKeep d a b x (c, .inc) = !decide ((c, x) = edgeKey d a b)) := by
    intro hd; subst hd; exact rmEdge_compatD _ _ _ g a b
  have hU : d = false → ∀ x e, e ∈ adjF nodes x → rmEdgeKeep d a b x e = !decide (edgeKey false x e.1 = edgeKey d a b) := by
    intro hd; subst hd; intro x e _; exact rmEdge_compatU a b x e
  by_cases hab : a = b
  · subst hab
    simp only [ne_eq, not_true_eq_false, if_false] at hr
    subst hr
    simp only [b1, hsnd3, BEq.rfl, Bool.and_self, if_true]
    refine ⟨⟨by simpa [k1] using hnn, hkeys3, ?_⟩, by simp [abs], ?_⟩
    · refine good_congr (good_filter g (rmEdgeKeep d a a) (fun k => decide (k = edgeKey d a a))
        (A' := adjF r1.1) (E' := IMap.get? r3.1) ?_ hE hD hU) c1 (fun _ => List.Perm.refl _) (fun _ => rfl)
      intro x
      by_cases hx : x = a
      · subst hx; simpa [rmEdgeKeep] using p1
      · rw [o1 x hx]; simp only [rmEdgeKeep, hx, if_false]; rw [List.filter_eq_self.2 (by simp)]
    · apply sg_ext
      · rfl
      · intro x; simp only [abs, SG.removeEdge]; exact c1 x
      · intro x y; simp only [abs, SG.removeEdge, hget3, edgeKey_eq_iff]; rfl
  · simp only [ne_eq, hab, not_false_eq_true, if_true] at hr
    have hu2 : (adjF r1.1 b).Pairwise (fun x y => ¬ (rmPred d a .inc x = true ∧ rmPred d a .inc y = true)) := by
      rw [o1 b (Ne.symm hab)]; exact good_unique g b a .inc
    obtain ⟨k2, c2, o2, p2, b2⟩ := removeSingleEdge_spec d r1.1 b a .inc hu2
    generalize removeSingleEdge d r1.1 b a .inc = r2 at *
    rw [o1 b (Ne.symm hab), any_rmPred_inc g a b hab] at b2
    rw [o1 b (Ne.symm hab)] at p2
    subst hr
    simp only [b1, b2, hsnd3, BEq.rfl, Bool.and_self, if_true]
    refine ⟨⟨by simpa [k2, k1] using hnn, hkeys3, ?_⟩, by simp [abs], ?_⟩
    · refine good_congr (good_filter g (rmEdgeKeep d a b) (fun k => decide (k = edgeKey d a b))
        (A' := adjF r2.1) (E' := IMap.get? r3.1) ?_ hE hD hU) (fun x => (c2 x).trans (c1 x)) (fun _ => List.Perm.refl _) (fun _ => rfl)
      intro x
      by_cases hxb : x = b
      · subst hxb
        have : ¬ x = a := fun e => hab e.symm
        simpa [rmEdgeKeep, this] using p2
      · rw [o2 x hxb]
        by_cases hxa : x = a
        · subst hxa; simpa [rmEdgeKeep] using p1
        · rw [o1 x hxa]; simp only [rmEdgeKeep, hxa, hxb, if_false]; rw [List.filter_eq_self.2 (by simp)]
    · apply sg_ext
      · rfl
      · intro x; simp only [abs, SG.removeEdge]; exact (c2 x).trans (c1 x)
      · intro x y; simp only [abs, SG.removeEdge, hget3, edgeKey_eq_iff]; rfl

/-- no duplicate entries (directed) / no neighbour twice (undirected) -/
def AdjNodup (d : Bool) (l : Adj) : Prop := if d = true then l.Nodup else (l.map (·.1)).Nodup

theorem adjNodup_unique {d : Bool} {l : Adj} (h : AdjNodup d l) (b : Nat) (dir : Dir) :
    l.Pairwise (fun x y => ¬ (rmPred d b dir x = true ∧ rmPred d b dir y = true)) := by
  unfold AdjNodup at h
  cases d with
  | true =>
    simp only [if_true] at h
    refine List.Pairwise.imp ?_ h
    intro x y hxy; simp [rmPred]; grind
  | false =>
    simp only [Bool.false_eq_true, if_false] at h
    rw [List.Nodup, List.pairwise_map] at h
    refine List.Pairwise.imp ?_ h
    intro x y hxy; simp [rmPred]; grind

theorem adjNodup_perm_filter {d : Bool} {l l' : Adj} (h : AdjNodup d l) (q : Nat × Dir → Bool)
    (hp : l'.Perm (l.filter q)) : AdjNodup d l' := by
  unfold AdjNodup at *
  cases d with
  | true => simp only [if_true] at *; exact hp.nodup_iff.2 (h.sublist List.filter_sublist)
  | false =>
    simp only [Bool.false_eq_true, if_false] at *
    exact (hp.map _).nodup_iff.2 (h.sublist (List.filter_sublist.map _))

theorem good_adjNodup {d : Bool} {P : Nat → Bool} {A : Nat → Adj} {E : EKey → Option Nat}
    (h : Good d P A E) (a : Nat) : AdjNodup d (A a) := by
  unfold AdjNodup
  cases d with
  | true => simpa using (h.adjD rfl a).1
  | false => simpa using (h.adjU rfl a).1

/-- the edge key the `remove_node` loop computes for a link -/
def linkKey (d : Bool) (n : Nat) (l : Nat × Dir) : EKey :=
  if l.2 = .out then edgeKey d n l.1 else edgeKey d l.1 n

/-- entries of the adjacency vector of `x` that survive the `remove_node` loop over `ls` -/
def linksKeep (d : Bool) (n : Nat) (ls : List (Nat × Dir)) (x : Nat) (e : Nat × Dir) : Bool :=
  !(ls.any fun l => decide (l.1 = x) && rmPred d n l.2.opposite e)

theorem removeLinks_spec (d : Bool) (n : Nat) : ∀ (ls : List (Nat × Dir)) (nodes : IMap Nat Adj) (edges : IMap EKey Nat),
    (IMap.keys edges).Nodup → (∀ x, AdjNodup d (adjF nodes x)) →
    let r := removeLinks d n ls nodes edges
    IMap.keys r.1 = IMap.keys nodes ∧ (∀ x, IMap.contains r.1 x = IMap.contains nodes x) ∧
    (∀ x, (adjF r.1 x).Perm ((adjF nodes x).filter (linksKeep d n ls x))) ∧
    (IMap.keys r.2).Nodup ∧
    (∀ k, IMap.get? r.2 k = if (ls.any fun l => decide (linkKey d n l = k)) = true then none else IMap.get? edges k)
  | [], nodes, edges, hen, _ => by
    refine ⟨rfl, fun _ => rfl, ?_, hen, ?_⟩
    · intro x; simp only [removeLinks]; rw [List.filter_eq_self.2 (by simp [linksKeep])]
    · intro k; simp [removeLinks]
  | (succ, dir) :: rest, nodes, edges, hen, han => by
    simp only [removeLinks]
    obtain ⟨k1, c1, o1, p1, _⟩ := removeSingleEdge_spec d nodes succ n dir.opposite (adjNodup_unique (han succ) _ _)
    generalize (removeSingleEdge d nodes succ n dir.opposite).1 = nodes1 at *
    have hkey : (if dir = Dir.out then edgeKey d n succ else edgeKey d succ n) = linkKey d n (succ, dir) := rfl
    rw [hkey]
    have hen1 := swapRemove_nodup edges hen (linkKey d n (succ, dir))
    have hget1 := get?_swapRemove edges hen (linkKey d n (succ, dir))
    generalize (IMap.swapRemove edges (linkKey d n (succ, dir))).1 = edges1 at *
    have han1 : ∀ x, AdjNodup d (adjF nodes1 x) := by
      intro x
      by_cases hx : x = succ
      · subst hx; exact adjNodup_perm_filter (han x) _ p1
      · rw [o1 x hx]; exact han x
    obtain ⟨k2, c2, p2, n2, g2⟩ := removeLinks_spec d n rest nodes1 edges1 hen1 han1
    generalize removeLinks d n rest nodes1 edges1 = r at *
    refine ⟨k2.trans k1, fun x => (c2 x).trans (c1 x), ?_, n2, ?_⟩
    · intro x
      refine (p2 x).trans ?_
      by_cases hx : x = succ
      · subst hx
        refine (p1.filter _).trans ?_
        rw [List.filter_filter]
        apply List.Perm.of_eq
        apply List.filter_congr
        intro e _
        simp only [linksKeep, List.any_cons, decide_true, Bool.true_and, Bool.not_or]
        rw [Bool.and_comm]
      · rw [o1 x hx]
        apply List.Perm.of_eq
        apply List.filter_congr
        intro e _
        have : (succ = x) = False := by simp; exact fun e => hx e.symm
        simp [linksKeep, this]
    · intro k
      rw [g2, hget1]
      by_cases h1 : linkKey d n (succ, dir) = k
      · simp [h1]
      · have : ¬ k = linkKey d n (succ, dir) := fun e => h1 e.symm
        cases hany : (rest.any fun l => decide (linkKey d n l = k)) <;> simp [hany, h1, this]

/-- the keys the `remove_node(n)` loop removes are exactly the edges incident to `n` -/
theorem linkKeys_iff {d : Bool} {P : Nat → Bool} {A : Nat → Adj} {E : EKey → Option Nat}
    (g : Good d P A E) (n a b : Nat) (hab : (E (a, b)).isSome = true) :
    ((A n).any fun l => decide (linkKey d n l = (a, b))) = true ↔ a = n ∨ b = n := by
  rw [List.any_eq_true]
  cases d with
  | true =>
    obtain ⟨_, ho, hi⟩ := g.adjD rfl n
    constructor
    · rintro ⟨⟨c, t⟩, hl, hk⟩
      cases t <;> simp [linkKey, edgeKey_true] at hk <;> grind
    · rintro (rfl | rfl)
      · exact ⟨(b, .out), (ho b).2 hab, by simp [linkKey, edgeKey_true]⟩
      · by_cases han : a = b
        · subst han; exact ⟨(a, .out), (ho a).2 hab, by simp [linkKey, edgeKey_true]⟩
        · exact ⟨(a, .inc), (hi a).2 ⟨fun e => han e.symm, hab⟩, by simp [linkKey, edgeKey_true]⟩
  | false =>
    obtain ⟨_, hm⟩ := g.adjU rfl n
    have hc := g.canon a b hab
    simp at hc
    have hlk : ∀ l : Nat × Dir, linkKey false n l = edgeKey false n l.1 := by
      intro l; unfold linkKey; split
      · rfl
      · exact edgeKey_false_comm _ _
    constructor
    · rintro ⟨l, hl, hk⟩
      simp only [hlk, decide_eq_true_eq] at hk
      unfold edgeKey at hk; simp at hk; grind
    · intro hn
      have hkey : edgeKey false n (if a = n then b else a) = (a, b) := by
        unfold edgeKey; simp; grind
      have : (if a = n then b else a) ∈ (A n).map (·.1) := by
        rw [hm, hkey]; exact hab
      obtain ⟨l, hl, hl1⟩ := List.mem_map.1 this
      exact ⟨l, hl, by simp only [hlk, decide_eq_true_eq]; rw [hl1]; exact hkey⟩

/-- which entries survive `remove_node(n)` in the adjacency vector of `x` -/
def rmNodeKeep (d : Bool) (n : Nat) (links : List (Nat × Dir)) (x : Nat) : Nat × Dir → Bool :=
  if x = n then fun _ => false else linksKeep d n links x

theorem rmNode_compatD {P : Nat → Bool} {A : Nat → Adj} {E : EKey → Option Nat}
    (g : Good true P A E) (n x c : Nat) :
    ((c, Dir.out) ∈ A x → rmNodeKeep true n (A n) x (c, .out) = !((A n).any fun l => decide (linkKey true n l = (x, c)))) ∧
    ((c, Dir.inc) ∈ A x → rmNodeKeep true n (A n) x (c, .inc) = !((A n).any fun l => decide (linkKey true n l = (c, x)))) := by
  obtain ⟨_, ho, hi⟩ := g.adjD rfl x
  obtain ⟨_, hno, hni⟩ := g.adjD rfl n
  constructor
  · intro hc
    have hE := (ho c).1 hc
    have h1 := linkKeys_iff g n x c hE
    rw [Bool.eq_iff_iff]
    simp only [Bool.not_eq_true', ← Bool.not_eq_true, h1]
    unfold rmNodeKeep
    split
    · simp_all
    · rename_i hx
      simp only [linksKeep, Bool.not_eq_true', List.any_eq_false, Bool.and_eq_true, decide_eq_true_eq, rmPred, if_true]
      constructor
      · intro h hcn
        rcases hcn with hcn | hcn
        · exact hx hcn
        · subst hcn
          have := (hni x).2 ⟨fun e => hx e.symm, hE⟩
          exact h (x, .inc) this ⟨rfl, by simp [Dir.opposite]⟩
      · intro h l hl hl2
        apply h; right
        have := hl2.2; simp at this; exact this.1
  · intro hc
    have hE := ((hi c).1 hc).2
    have hxc := ((hi c).1 hc).1
    have h1 := linkKeys_iff g n c x hE
    rw [Bool.eq_iff_iff]
    simp only [Bool.not_eq_true', ← Bool.not_eq_true, h1]
    unfold rmNodeKeep
    split
    · simp_all
    · rename_i hx
      simp only [linksKeep, Bool.not_eq_true', List.any_eq_false, Bool.and_eq_true, decide_eq_true_eq, rmPred, if_true]
      constructor
      · intro h hcn
        rcases hcn with hcn | hcn
        · subst hcn
          have := (hno x).2 hE
          exact h (x, .out) this ⟨rfl, by simp [Dir.opposite]⟩
        · exact hx hcn
      · intro h l hl hl2
        apply h; left
        have := hl2.2; simp at this; exact this.1

theorem rmNode_compatU {P : Nat → Bool} {A : Nat → Adj} {E : EKey → Option Nat}
    (g : Good false P A E) (n x : Nat) (e : Nat × Dir) (he : e ∈ A x) :
    rmNodeKeep false n (A n) x e = !((A n).any fun l => decide (linkKey false n l = edgeKey false x e.1)) := by
  obtain ⟨_, hm⟩ := g.adjU rfl x
  obtain ⟨_, hmn⟩ := g.adjU rfl n
  have hE := (hm e.1).1 (List.mem_map.2 ⟨e, he, rfl⟩)
  have hsome : (E ((edgeKey false x e.1).1, (edgeKey false x e.1).2)).isSome = true := hE
  have h1 := linkKeys_iff g n _ _ hsome
  have h1' : ((A n).any fun l => decide (linkKey false n l = edgeKey false x e.1)) = true ↔ x = n ∨ e.1 = n := by
    rw [show edgeKey false x e.1 = ((edgeKey false x e.1).1, (edgeKey false x e.1).2) from rfl, h1]
    unfold edgeKey; simp; grind
  rw [Bool.eq_iff_iff]
  simp only [Bool.not_eq_true', ← Bool.not_eq_true, h1']
  unfold rmNodeKeep
  split
  · simp_all
  · rename_i hx
    simp only [linksKeep, Bool.not_eq_true', List.any_eq_false, Bool.and_eq_true, decide_eq_true_eq, rmPred,
      Bool.false_eq_true, if_false]
    constructor
    · intro h hcn
      rcases hcn with hcn | hcn
      · exact hx hcn
      · have : x ∈ (A n).map (·.1) := by
          rw [hmn, edgeKey_false_comm, ← hcn]; exact hE
        obtain ⟨l, hl, hl1⟩ := List.mem_map.1 this
        exact h l hl ⟨hl1, hcn⟩
    · intro h l hl hl2
      exact h (Or.inr hl2.2)

theorem removeNode_spec (s : State) (n : Nat) (h : Inv s) :
    let r := removeNode s n
    Inv r.1 ∧ r.2 = (abs s).node n ∧ abs r.1 = (abs s).removeNode n := by
  intro r
  have hr : r = removeNode s n := rfl
  clear_value r
  unfold removeNode at hr
  obtain ⟨d, nodes, edges⟩ := s
  simp only at hr
  have g : Good d (IMap.contains nodes) (adjF nodes) (IMap.get? edges) := h.good
  have hnn : (IMap.keys nodes).Nodup := h.nodesNodup
  have hen : (IMap.keys edges).Nodup := h.edgesNodup
  have hn0 := swapRemove_nodup nodes hnn n
  have hg0 := get?_swapRemove nodes hnn n
  have hs0 := swapRemove_snd nodes n
  generalize IMap.swapRemove nodes n = r0 at *
  obtain ⟨nodes0, o0⟩ := r0
  simp only at hn0 hg0 hs0
  subst hs0
  cases hgn : IMap.get? nodes n with
  | none =>
    simp only [hgn] at hr
    subst hr
    have hcn : IMap.contains nodes n = false := by simp [contains_eq, hgn]
    refine ⟨h, by simp [abs, hcn], ?_⟩
    apply sg_ext
    · rfl
    · intro x; simp only [abs, SG.removeNode]
      by_cases hx : x = n <;> simp [hx, hcn]
    · intro x y; simp only [abs, SG.removeNode]
      split
      · rename_i hxy
        cases hw : IMap.get? edges (edgeKey d x y) with
        | none => rfl
        | some w =>
          exfalso
          have := key_ends h x y (by simp [hw])
          simp at hxy
          rcases hxy with rfl | rfl <;> simp_all
      · rfl
  | some links =>
    simp only [hgn] at hr
    have hlinks : adjF nodes n = links := by simp [adjF, hgn]
    have hadj0 : ∀ x, adjF nodes0 x = if x = n then [] else adjF nodes x := by
      intro x; simp only [adjF, hg0]; split <;> simp
    have hc0 : ∀ x, IMap.contains nodes0 x = (x != n && IMap.contains nodes x) := by
      intro x; simp only [contains_eq, hg0]; by_cases hx : x = n <;> simp [hx]
    have han0 : ∀ x, AdjNodup d (adjF nodes0 x) := by
      intro x; rw [hadj0]; split
      · unfold AdjNodup; cases d <;> simp
      · exact good_adjNodup g x
    obtain ⟨k1, c1, p1, n1, g1⟩ := removeLinks_spec d n links nodes0 edges hen han0
    generalize removeLinks d n links nodes0 edges = rl at *
    subst hr
    have hcn : IMap.contains nodes n = true := by simp [contains_eq, hgn]
    have hE : ∀ k, IMap.get? rl.2 k = if (fun k => (adjF nodes n).any fun l => decide (linkKey d n l = k)) k = true then none else IMap.get? edges k := by
      intro k; rw [g1, hlinks]
    have hgood : Good d (IMap.contains nodes) (adjF rl.1) (IMap.get? rl.2) := by
      refine good_filter g (rmNodeKeep d n (adjF nodes n)) _ ?_ hE ?_ ?_
      · intro x
        refine (p1 x).trans ?_
        rw [hadj0, hlinks]
        unfold rmNodeKeep
        split
        · simp
        · exact List.Perm.refl _
      · intro hd; subst hd; intro x c; exact rmNode_compatD g n x c
      · intro hd; subst hd; intro x e he; exact rmNode_compatU g n x e he
    have hnoinc : ∀ a b, (IMap.get? rl.2 (a, b)).isSome = true → a ≠ n ∧ b ≠ n := by
      intro a b hab
      rw [hE] at hab
      split at hab
      · simp at hab
      · rename_i hnot
        have := linkKeys_iff g n a b hab
        simp only [this] at hnot
        exact ⟨fun e => hnot (Or.inl e), fun e => hnot (Or.inr e)⟩
    refine ⟨⟨by rw [k1]; exact hn0, n1, ?_⟩, by simp [abs, hcn], ?_⟩
    · refine good_congr (good_dropNode hgood n hnoinc) ?_ (fun _ => List.Perm.refl _) (fun _ => rfl)
      intro x; simp only; rw [c1, hc0]
    · apply sg_ext
      · rfl
      · intro x; simp only [abs, SG.removeNode]; rw [c1, hc0]
      · intro x y
        simp only [abs, SG.removeNode]
        rw [hE]
        cases hw : IMap.get? edges (edgeKey d x y) with
        | none => simp
        | some w =>
          have hsome : (IMap.get? edges ((edgeKey d x y).1, (edgeKey d x y).2)).isSome = true := by
            show (IMap.get? edges (edgeKey d x y)).isSome = true
            simp [hw]
          have := linkKeys_iff g n _ _ hsome
          have hiff : ((adjF nodes n).any fun l => decide (linkKey d n l = edgeKey d x y)) = true ↔ (x = n ∨ y = n) := by
            rw [show edgeKey d x y = ((edgeKey d x y).1, (edgeKey d x y).2) from rfl, this]
            unfold edgeKey; split <;> simp <;> grind
          by_cases hxy : x = n ∨ y = n
          · have h1 := hiff.2 hxy
            simp only [h1, if_true]
            rcases hxy with rfl | rfl <;> simp
          · have h1 : ((adjF nodes n).any fun l => decide (linkKey d n l = edgeKey d x y)) = false := by
              cases hb : ((adjF nodes n).any fun l => decide (linkKey d n l = edgeKey d x y))
              · rfl
              · exact absurd (hiff.1 hb) hxy
            simp only [h1]
            have : (x == n || y == n) = false := by
              simp only [not_or] at hxy; simp [hxy.1, hxy.2]
            simp [this]

theorem setWeight_spec (s : State) (a b w : Nat) (h : Inv s) :
    let r := setWeight s a b w
    Inv r.1 ∧ r.2 = (abs s).w a b ∧ abs r.1 = (abs s).setWeight a b w := by
  intro r
  have hr : r = setWeight s a b w := rfl
  clear_value r
  unfold setWeight edgeWeight at hr
  cases hg : IMap.get? s.edges (edgeKey s.directed a b) with
  | none =>
    simp only [hg] at hr; subst hr
    refine ⟨h, by simp [abs, hg], ?_⟩
    simp [SG.setWeight, SG.hasEdge, abs, hg]
  | some old =>
    simp only [hg] at hr; subst hr
    refine ⟨⟨h.nodesNodup, by simpa [keys_set] using h.edgesNodup, ?_⟩, by simp [abs, hg], ?_⟩
    · refine good_congr h.good (fun _ => rfl) (fun _ => List.Perm.refl _) ?_
      intro k; simp only [get?_set]; split <;> simp_all
    · have hh : (abs s).hasEdge a b = true := by simp [SG.hasEdge, abs, hg]
      simp only [SG.setWeight, hh, if_true]
      apply sg_ext
      · rfl
      · intro x; rfl
      · intro x y
        simp only [abs, get?_set, edgeKey_eq_iff, hg, Option.map_some]
        rfl

theorem keys_map_snd {κ ν : Type} (m : IMap κ ν) (f : ν → ν) :
    IMap.keys (m.map fun e => (e.1, f e.2)) = IMap.keys m := by
  simp [IMap.keys, List.map_map, Function.comp_def]

theorem get?_map_snd {κ ν : Type} [DecidableEq κ] (m : IMap κ ν) (f : ν → ν) (k : κ) :
    IMap.get? (m.map fun e => (e.1, f e.2)) k = (IMap.get? m k).map f := by
  induction m with
  | nil => simp [IMap.get?]
  | cons e t ih =>
    obtain ⟨k', v⟩ := e
    simp only [List.map_cons, IMap.get?]
    split <;> simp_all

theorem bumpAll_spec (s : State) (k : Nat) (h : Inv s) :
    Inv (bumpAll s k).1 ∧ abs (bumpAll s k).1 = (abs s).bumpAll k := by
  unfold bumpAll
  have hk := keys_map_snd s.edges (fun v => v + k)
  have hg := get?_map_snd s.edges (fun v => v + k)
  refine ⟨⟨h.nodesNodup, by simp only; rw [hk]; exact h.edgesNodup, ?_⟩, ?_⟩
  · refine good_congr h.good (fun _ => rfl) (fun _ => List.Perm.refl _) ?_
    intro k'; simp only; rw [hg]; cases IMap.get? s.edges k' <;> simp
  · apply sg_ext
    · rfl
    · intro x; rfl
    · intro x y; simp only [abs, SG.bumpAll]; rw [hg]

theorem clear_spec (s : State) : Inv (clear s) ∧ abs (clear s) = (abs s).clear := by
  exact ⟨inv_empty s.directed, abs_empty s.directed⟩

theorem extend_directed (s : State) (es : List (Nat × Nat × Nat)) : (extend s es).directed = s.directed := by
  induction es generalizing s with
  | nil => rfl
  | cons e t ih => obtain ⟨a, b, w⟩ := e; simp only [extend]; rw [ih, addEdge_directed]

theorem extend_spec (s : State) (es : List (Nat × Nat × Nat)) (h : Inv s) :
    Inv (extend s es) ∧ abs (extend s es) = (abs s).extend es := by
  induction es generalizing s with
  | nil => exact ⟨h, rfl⟩
  | cons e t ih =>
    obtain ⟨a, b, w⟩ := e
    simp only [extend, SG.extend]
    have := ih (addEdge s a b w).1 (addEdge_inv s a b w h)
    rw [addEdge_abs s a b w h] at this
    exact this

theorem addNodes_spec (s : State) (ws : List Nat) (h : Inv s) :
    Inv (addNodes s ws) ∧ abs (addNodes s ws) = (abs s).addNodes ws := by
  induction ws generalizing s with
  | nil => exact ⟨h, rfl⟩
  | cons n t ih =>
    simp only [addNodes, SG.addNodes]
    have := ih (addNode s n) (addNode_inv s n h)
    rw [addNode_abs] at this
    exact this

theorem fromGraphEdges_spec (s : State) (ws : List Nat) (es : List (Nat × Nat × Nat)) (h : Inv s) :
    match fromGraphEdges s ws es, SG.fromGraphEdges (abs s) ws es with
    | some s', some g' => Inv s' ∧ abs s' = g'
    | none, none => True
    | _, _ => False := by
  induction es generalizing s with
  | nil => simp [fromGraphEdges, SG.fromGraphEdges, h]
  | cons e t ih =>
    obtain ⟨i, j, w⟩ := e
    simp only [fromGraphEdges, SG.fromGraphEdges]
    cases ws[i]? <;> cases ws[j]? <;> simp only
    rename_i a b
    have := ih (addEdge s a b w).1 (addEdge_inv s a b w h)
    rw [addEdge_abs s a b w h] at this
    exact this

theorem fromGraph_spec (d : Bool) (ws : List Nat) (es : List (Nat × Nat × Nat)) :
    match fromGraph d ws es, SG.fromGraph d ws es with
    | some s', some g' => Inv s' ∧ abs s' = g'
    | none, none => True
    | _, _ => False := by
  unfold fromGraph SG.fromGraph
  have h1 := addNodes_spec (State.empty d) ws (inv_empty d)
  have := fromGraphEdges_spec (addNodes (State.empty d) ws) ws es h1.1
  rw [h1.2, abs_empty] at this
  exact this

theorem buildAddEdge_spec (s : State) (a b w : Nat) (h : Inv s) :
    Inv (buildAddEdge s a b w).1 ∧
    abs (buildAddEdge s a b w).1 = (if (abs s).hasEdge a b then abs s else (abs s).addEdge a b w) ∧
    (buildAddEdge s a b w).2 = (if (abs s).hasEdge a b then none else some (a, b)) := by
  unfold buildAddEdge
  have : containsEdge s a b = (abs s).hasEdge a b := rfl
  rw [this]
  cases (abs s).hasEdge a b with
  | true => simp [h]
  | false => simp [addEdge_inv s a b w h, addEdge_abs s a b w h]

/-! ### `into_graph` / `from_graph` -/

/-- position of a node in the node map (`0` for an absent one; never used under `Inv`) -/
def idx (s : State) (a : Nat) : Nat := (IMap.indexOf? s.nodes a).getD 0

theorem indexOf?_of_contains (s : State) (a : Nat) (h : IMap.contains s.nodes a = true) :
    IMap.indexOf? s.nodes a = some (idx s a) ∧ (IMap.keys s.nodes)[idx s a]? = some a := by
  cases hi : IMap.indexOf? s.nodes a with
  | none =>
    have := (indexOf?_none _ _).1 hi
    simp [contains_eq, this] at h
  | some i =>
    obtain ⟨hlt, he⟩ := indexOf?_some _ _ _ hi
    simp [idx, hi, IMap.keys, hlt, he]

theorem resolveEdges_intoGraph (s : State) (h : Inv s) :
    resolveEdges (intoGraph s).2 = some (s.edges.map fun e => (idx s e.1.1, idx s e.1.2, e.2)) := by
  unfold intoGraph
  simp only
  have hends : ∀ e ∈ s.edges, IMap.contains s.nodes e.1.1 = true ∧ IMap.contains s.nodes e.1.2 = true := by
    intro e he
    have : IMap.get? s.edges (e.1.1, e.1.2) = some e.2 := get?_of_mem _ h.edgesNodup _ _ he
    exact h.good.ends _ _ (by simp [this])
  generalize s.edges = m at hends
  induction m with
  | nil => simp [resolveEdges]
  | cons e t ih =>
    have h1 := hends e (by simp)
    have ha := (indexOf?_of_contains s e.1.1 h1.1).1
    have hb := (indexOf?_of_contains s e.1.2 h1.2).1
    simp only [List.map_cons, ha, hb, resolveEdges]
    rw [ih (fun e' he' => hends e' (by simp [he']))]
    rfl

theorem fromGraphEdges_resolved (s : State) (s0 : State) (m : List (EKey × Nat))
    (hends : ∀ e ∈ m, IMap.contains s.nodes e.1.1 = true ∧ IMap.contains s.nodes e.1.2 = true) :
    fromGraphEdges s0 (IMap.keys s.nodes) (m.map fun e => (idx s e.1.1, idx s e.1.2, e.2)) =
      some (extend s0 (m.map fun e => (e.1.1, e.1.2, e.2))) := by
  induction m generalizing s0 with
  | nil => simp [fromGraphEdges, extend]
  | cons e t ih =>
    have h1 := hends e (by simp)
    have ha := (indexOf?_of_contains s e.1.1 h1.1).2
    have hb := (indexOf?_of_contains s e.1.2 h1.2).2
    simp only [List.map_cons, fromGraphEdges, ha, hb, extend]
    exact ih _ (fun e' he' => hends e' (by simp [he']))

theorem roundTrip_eq (s : State) (h : Inv s) :
    roundTrip s = some (extend (addNodes (State.empty s.directed) (nodesOf s)) (allEdges s)) := by
  unfold roundTrip
  simp only [resolveEdges_intoGraph s h]
  unfold fromGraph intoGraph nodesOf allEdges
  simp only
  apply fromGraphEdges_resolved
  intro e he
  have : IMap.get? s.edges (e.1.1, e.1.2) = some e.2 := get?_of_mem _ h.edgesNodup _ _ he
  exact h.good.ends _ _ (by simp [this])

theorem sg_addNodes (g : SG) (ws : List Nat) :
    (g.addNodes ws).directed = g.directed ∧ (∀ x, (g.addNodes ws).node x = (decide (x ∈ ws) || g.node x)) ∧
    (g.addNodes ws).w = g.w := by
  induction ws generalizing g with
  | nil => simp [SG.addNodes]
  | cons n t ih =>
    obtain ⟨h1, h2, h3⟩ := ih (g.addNode n)
    simp only [SG.addNodes]
    refine ⟨h1, ?_, h3⟩
    intro x; rw [h2]; simp only [SG.addNode, List.mem_cons]
    by_cases hx : x = n <;> by_cases ht : x ∈ t <;> simp [hx, ht]

theorem sg_extend_nodes (g : SG) (es : List (Nat × Nat × Nat)) :
    (g.extend es).directed = g.directed ∧
    (∀ x, (g.extend es).node x = (g.node x || es.any fun e => x == e.1 || x == e.2.1)) := by
  induction es generalizing g with
  | nil => simp [SG.extend]
  | cons e t ih =>
    obtain ⟨a, b, w⟩ := e
    obtain ⟨h1, h2⟩ := ih (g.addEdge a b w)
    simp only [SG.extend]
    refine ⟨h1, ?_⟩
    intro x; rw [h2]; simp only [SG.addEdge, List.any_cons]
    cases g.node x <;> cases (x == a) <;> cases (x == b) <;> simp

theorem sg_extend_w (g : SG) (m : IMap EKey Nat) (hn : (IMap.keys m).Nodup)
    (hc : ∀ e ∈ m, edgeKey g.directed e.1.1 e.1.2 = e.1) (x y : Nat) :
    (g.extend (m.map fun e => (e.1.1, e.1.2, e.2))).w x y =
      match IMap.get? m (edgeKey g.directed x y) with
      | some w => some w
      | none => g.w x y := by
  induction m generalizing g with
  | nil => simp [SG.extend, IMap.get?]
  | cons e t ih =>
    obtain ⟨⟨a, b⟩, w⟩ := e
    simp only [IMap.keys, List.map_cons, List.nodup_cons] at hn
    simp only [List.map_cons, SG.extend]
    have hdir : (g.addEdge a b w).directed = g.directed := rfl
    rw [ih (g.addEdge a b w) hn.2 (by intro e he; rw [hdir]; exact hc e (by simp [he]))]
    rw [hdir]
    simp only [IMap.get?]
    have hcan := hc ((a, b), w) (by simp)
    simp only at hcan
    have hiff := edgeKey_eq_iff g.directed a b x y
    rw [hcan] at hiff
    by_cases hk : (a, b) = edgeKey g.directed x y
    · have hnone : IMap.get? t (edgeKey g.directed x y) = none := by
        rw [get?_eq_none_iff, ← hk]; exact hn.1
      simp only [hnone, hk, if_true]
      have : samePair g.directed a b x y = true := hiff.1 hk.symm
      simp [SG.addEdge, this]
    · simp only [hk, if_false]
      have : samePair g.directed a b x y = false := by
        cases hsp : samePair g.directed a b x y
        · rfl
        · exact absurd (hiff.2 hsp).symm hk
      cases IMap.get? t (edgeKey g.directed x y) <;> simp [SG.addEdge, this]

theorem roundTrip_spec (s : State) (h : Inv s) :
    ∃ s', roundTrip s = some s' ∧ Inv s' ∧ abs s' = abs s := by
  refine ⟨_, roundTrip_eq s h, ?_⟩
  have h1 := addNodes_spec (State.empty s.directed) (nodesOf s) (inv_empty _)
  have h2 := extend_spec _ (allEdges s) h1.1
  refine ⟨h2.1, ?_⟩
  rw [h2.2, h1.2, abs_empty]
  obtain ⟨a1, a2, a3⟩ := sg_addNodes (SG.empty s.directed) (nodesOf s)
  obtain ⟨e1, e2⟩ := sg_extend_nodes ((SG.empty s.directed).addNodes (nodesOf s)) (allEdges s)
  apply sg_ext
  · rw [e1, a1]; rfl
  · intro x
    rw [e2, a2]
    simp only [SG.empty, Bool.or_false, abs]
    have hmem : decide (x ∈ nodesOf s) = IMap.contains s.nodes x := by
      rw [Bool.eq_iff_iff, contains_eq, get?_isSome_iff]; exact decide_eq_true_iff
    rw [hmem]
    cases hc : IMap.contains s.nodes x
    · simp only [Bool.false_or, List.any_eq_false, allEdges, List.mem_map]
      rintro e ⟨e', he', rfl⟩
      have : IMap.get? s.edges (e'.1.1, e'.1.2) = some e'.2 := get?_of_mem _ h.edgesNodup _ _ he'
      have := h.good.ends e'.1.1 e'.1.2 (by simp [this])
      simp only [Bool.or_eq_true, beq_iff_eq, not_or]
      constructor <;> (intro hx; subst hx; simp_all)
    · simp
  · intro x y
    have hc : ∀ e ∈ s.edges, edgeKey ((SG.empty s.directed).addNodes (nodesOf s)).directed e.1.1 e.1.2 = e.1 := by
      intro e he
      rw [a1]
      have : IMap.get? s.edges (e.1.1, e.1.2) = some e.2 := get?_of_mem _ h.edgesNodup _ _ he
      have := h.good.canon e.1.1 e.1.2 (by simp [this])
      show edgeKey s.directed e.1.1 e.1.2 = e.1
      unfold edgeKey
      rcases this with hd | hle
      · simp [hd]
      · simp [hle]
    have := sg_extend_w ((SG.empty s.directed).addNodes (nodesOf s)) s.edges h.edgesNodup hc x y
    unfold allEdges
    rw [this, a1, a3]
    simp only [SG.empty, abs]
    cases IMap.get? s.edges (edgeKey s.directed x y) <;> rfl

/-! ## Layer 3: the answers -/

theorem nodup_filterMap {α β : Type} (f : α → Option β) : ∀ (l : List α), l.Nodup →
    (∀ x ∈ l, ∀ y ∈ l, ∀ z, f x = some z → f y = some z → x = y) → (l.filterMap f).Nodup
  | [], _, _ => by simp
  | x :: t, hn, hinj => by
    rw [List.nodup_cons] at hn
    have ih := nodup_filterMap f t hn.2 (fun a ha b hb z => hinj a (by simp [ha]) b (by simp [hb]) z)
    rw [List.filterMap_cons]
    cases hfx : f x with
    | none => exact ih
    | some z =>
      simp only
      rw [List.nodup_cons]
      refine ⟨?_, ih⟩
      intro hz
      obtain ⟨y, hy, hfy⟩ := List.mem_filterMap.1 hz
      have := hinj x (by simp) y (by simp [hy]) z hfx hfy
      subst this; exact hn.1 hy

theorem nodup_map_of_inj {α β : Type} (f : α → β) (l : List α) (hn : l.Nodup)
    (hinj : ∀ x ∈ l, ∀ y ∈ l, f x = f y → x = y) : (l.map f).Nodup := by
  induction l with
  | nil => simp
  | cons x t ih =>
    rw [List.nodup_cons] at hn
    rw [List.map_cons, List.nodup_cons]
    refine ⟨?_, ih hn.2 (fun a ha b hb => hinj a (by simp [ha]) b (by simp [hb]))⟩
    intro hx
    obtain ⟨y, hy, hfy⟩ := List.mem_map.1 hx
    have := hinj x (by simp) y (by simp [hy]) hfy.symm
    subst this; exact hn.1 hy

theorem filterMap_congr' {α β : Type} (f g : α → Option β) (l : List α) (h : ∀ x ∈ l, f x = g x) :
    l.filterMap f = l.filterMap g := by
  induction l with
  | nil => rfl
  | cons x t ih =>
    rw [List.filterMap_cons, List.filterMap_cons, h x (by simp), ih (fun y hy => h y (by simp [hy]))]

theorem nodup_of_map {α β : Type} (f : α → β) (l : List α) (h : (l.map f).Nodup) : l.Nodup := by
  rw [List.Nodup, List.pairwise_map] at h
  exact List.Pairwise.imp (fun hab e => hab (by rw [e])) h

theorem absw (s : State) (a b : Nat) : (abs s).w a b = IMap.get? s.edges (edgeKey s.directed a b) := rfl
theorem abshas (s : State) (a b : Nat) : (abs s).hasEdge a b = (IMap.get? s.edges (edgeKey s.directed a b)).isSome := rfl

theorem neighborsDirected_ok (s : State) (h : Inv s) (a : Nat) (d : Dir) :
    NeighborsOk (abs s) a d (neighborsDirected s a d) := by
  obtain ⟨dd, nodes, edges⟩ := s
  have g : Good dd (IMap.contains nodes) (adjF nodes) (IMap.get? edges) := h.good
  unfold neighborsDirected NeighborsOk
  simp only [abshas, adjOf]
  cases dd with
  | true =>
    obtain ⟨hnd, ho, hi⟩ := g.adjD rfl a
    have hself : (a, Dir.inc) ∉ adjF nodes a := by rw [hi]; simp
    simp only [if_true, edgeKey_true]
    constructor
    · apply nodup_filterMap _ _ hnd
      intro x hx y hy z hfx hfy
      obtain ⟨x1, x2⟩ := x; obtain ⟨y1, y2⟩ := y
      simp only at hfx hfy
      split at hfx <;> split at hfy <;> simp at hfx hfy
      subst hfx; subst hfy
      cases x2 <;> cases y2 <;> cases d <;> simp_all
    · intro b
      simp only [List.mem_filterMap]
      constructor
      · rintro ⟨⟨c, t⟩, hc, hf⟩
        simp only at hf
        split at hf <;> simp at hf
        subst hf
        rename_i hcond
        cases d <;> cases t <;> simp_all
      · intro hb
        cases d with
        | out => exact ⟨(b, .out), (ho b).2 hb, by simp⟩
        | inc =>
          by_cases hab : a = b
          · subst hab; exact ⟨(a, .out), (ho a).2 hb, by simp⟩
          · exact ⟨(b, .inc), (hi b).2 ⟨hab, hb⟩, by simp⟩
  | false =>
    obtain ⟨hnd, hm⟩ := g.adjU rfl a
    simp only [Bool.false_eq_true, if_false]
    refine ⟨hnd, ?_⟩
    intro b
    rw [hm]
    cases d
    · rfl
    · simp only; rw [edgeKey_false_comm]

theorem neighbors_eq (s : State) (h : Inv s) (a : Nat) : neighbors s a = neighborsDirected s a .out := by
  unfold neighbors neighborsDirected
  cases hd : s.directed with
  | false => rfl
  | true =>
    simp only [if_true]
    apply filterMap_congr'
    intro e he
    obtain ⟨c, t⟩ := e
    have g := h.good
    rw [hd] at g
    have hi := (g.adjD rfl a).2.2 c
    cases t
    · simp
    · simp only [reduceCtorEq, false_or, if_false]
      have : c ≠ a := by
        intro hca; subst hca
        have := (hi.1 he).1; exact this rfl
      simp [this]

theorem neighbors_ok (s : State) (h : Inv s) (a : Nat) : NeighborsOk (abs s) a .out (neighbors s a) := by
  rw [neighbors_eq s h]; exact neighborsDirected_ok s h a .out

theorem nodes_ok (s : State) (h : Inv s) : NodesOk (abs s) (nodesOf s) := by
  refine ⟨h.nodesNodup, ?_⟩
  intro n
  simp only [abs, nodesOf, contains_eq, get?_isSome_iff]

theorem mem_allEdges (s : State) (h : Inv s) (a b w : Nat) :
    (a, b, w) ∈ allEdges s ↔ IMap.get? s.edges (a, b) = some w := by
  rw [get?_eq_some_iff _ h.edgesNodup]
  unfold allEdges
  simp only [List.mem_map]
  constructor
  · rintro ⟨⟨⟨x, y⟩, z⟩, he, heq⟩
    simp only [Prod.mk.injEq] at heq
    obtain ⟨rfl, rfl, rfl⟩ := heq
    exact he
  · intro he; exact ⟨((a, b), w), he, rfl⟩

theorem canon_key (s : State) (h : Inv s) (a b : Nat) (hk : (IMap.get? s.edges (a, b)).isSome = true) :
    edgeKey s.directed a b = (a, b) := by
  have := h.good.canon a b hk
  unfold edgeKey
  rcases this with hd | hle
  · simp [hd]
  · simp [hle]

theorem allEdges_ok (s : State) (h : Inv s) : AllEdgesOk (abs s) (allEdges s) := by
  refine ⟨?_, ?_, ?_, ?_⟩
  · unfold allEdges
    apply nodup_map_of_inj
    · have := h.edgesNodup
      unfold IMap.keys at this
      exact nodup_of_map _ _ this
    · intro x hx y hy hxy
      simp only [Prod.mk.injEq] at hxy
      obtain ⟨⟨x1, x2⟩, x3⟩ := x; obtain ⟨⟨y1, y2⟩, y3⟩ := y
      simp_all
  · intro a b w hm
    rw [mem_allEdges s h] at hm
    rw [absw, canon_key s h a b (by simp [hm])]; exact hm
  · intro a b w hw
    rw [absw] at hw
    by_cases hk : edgeKey s.directed a b = (a, b)
    · left; rw [mem_allEdges s h, ← hk]; exact hw
    · right
      unfold edgeKey at hk hw
      split at hk
      · exact absurd rfl hk
      · rename_i hc
        simp only [Bool.or_eq_true, decide_eq_true_eq, not_or] at hc
        simp only [hc.1, hc.2, Bool.false_eq_true, decide_false, Bool.or_self, if_false] at hw
        refine ⟨by show s.directed = false; simpa using hc.1, ?_⟩
        rw [mem_allEdges s h]; exact hw
  · intro hd a b w w' hab h1 h2
    rw [mem_allEdges s h] at h1 h2
    have c1 := h.good.canon a b (by simp [h1])
    have c2 := h.good.canon b a (by simp [h2])
    simp only [abs] at hd
    simp only [hd, Bool.false_eq_true, false_or] at c1 c2
    exact hab (Nat.le_antisymm c1 c2)

/-- the edges at `a` in direction `d`, as plain triples -/
def edgeTriples (s : State) (a : Nat) (d : Dir) : List (Nat × Nat × Nat) :=
  (neighborsDirected s a d).map fun b =>
    if d = .inc then (b, a, (IMap.get? s.edges (edgeKey s.directed b a)).getD 0)
    else (a, b, (IMap.get? s.edges (edgeKey s.directed a b)).getD 0)

theorem edgesDirected_eq (s : State) (h : Inv s) (a : Nat) (d : Dir) :
    edgesDirected s a d = someWeights (edgeTriples s a d) := by
  have hn := (neighborsDirected_ok s h a d).2
  unfold edgesDirected edgeTriples someWeights
  rw [List.map_map]
  apply List.map_congr_left
  intro b hb
  have hb' := (hn b).1 hb
  cases d with
  | out =>
    simp only [abshas] at hb'
    obtain ⟨w, hw⟩ := Option.isSome_iff_exists.1 hb'
    simp [hw]
  | inc =>
    simp only [abshas] at hb'
    obtain ⟨w, hw⟩ := Option.isSome_iff_exists.1 hb'
    simp [hw]

theorem edgeTriples_ok (s : State) (h : Inv s) (a : Nat) (d : Dir) : EdgesOk (abs s) a d (edgeTriples s a d) := by
  obtain ⟨hnd, hn⟩ := neighborsDirected_ok s h a d
  unfold edgeTriples
  refine ⟨?_, ?_⟩
  · apply nodup_map_of_inj _ _ hnd
    intro x _ y _ hxy
    cases d <;> simp at hxy <;> exact hxy.1
  · intro x y w
    simp only [List.mem_map]
    cases d with
    | out =>
      simp only [reduceCtorEq, if_false, Prod.mk.injEq]
      constructor
      · rintro ⟨b, hb, rfl, rfl, rfl⟩
        have := (hn b).1 hb
        simp only [abshas] at this
        obtain ⟨w, hw⟩ := Option.isSome_iff_exists.1 this
        simp [absw, hw]
      · rintro ⟨rfl, hw⟩
        refine ⟨y, (hn y).2 (by simp [SG.hasEdge, hw]), rfl, rfl, ?_⟩
        rw [absw] at hw; simp [hw]
    | inc =>
      simp only [if_true, Prod.mk.injEq]
      constructor
      · rintro ⟨b, hb, rfl, rfl, rfl⟩
        have := (hn b).1 hb
        simp only [abshas] at this
        obtain ⟨w, hw⟩ := Option.isSome_iff_exists.1 this
        simp [absw, hw]
      · rintro ⟨rfl, hw⟩
        refine ⟨x, (hn x).2 (by simp [SG.hasEdge, hw]), rfl, rfl, ?_⟩
        rw [absw] at hw; simp [hw]

theorem edgesOf_eq (s : State) (h : Inv s) (a : Nat) : edgesOf s a = edgesDirected s a .out := by
  unfold edgesOf edgesDirected
  rw [neighbors_eq s h]
  simp

theorem intoGraph_ok (s : State) (h : Inv s) :
    OutOk (abs s) .intoGraph (.graph (intoGraph s).1 (intoGraph s).2) := by
  refine ⟨nodesOf s, s.edges.map (fun e => (idx s e.1.1, idx s e.1.2, e.2)), ?_, nodes_ok s h, allEdges s, allEdges_ok s h, ?_⟩
  · unfold intoGraph
    simp only [List.map_map, Out.graph.injEq, true_and]
    apply List.map_congr_left
    intro e he
    have : IMap.get? s.edges (e.1.1, e.1.2) = some e.2 := get?_of_mem _ h.edgesNodup _ _ he
    have := h.good.ends e.1.1 e.1.2 (by simp [this])
    simp [(indexOf?_of_contains s _ this.1).1, (indexOf?_of_contains s _ this.2).1]
  · unfold allEdges
    simp only [List.map_map]
    apply List.map_congr_left
    intro e he
    have : IMap.get? s.edges (e.1.1, e.1.2) = some e.2 := get?_of_mem _ h.edgesNodup _ _ he
    have := h.good.ends e.1.1 e.1.2 (by simp [this])
    simp only [Function.comp, nodesOf]
    rw [(indexOf?_of_contains s _ this.1).2, (indexOf?_of_contains s _ this.2).2]

/-- invariant and refinement of one call -/
theorem step_spec (s : State) (op : Op) (h : Inv s) :
    Inv (step s op).1 ∧ abs (step s op).1 = specStep (abs s) op := by
  cases op with
  | addNode n => exact ⟨addNode_inv s n h, addNode_abs s n⟩
  | addEdge a b w => exact ⟨addEdge_inv s a b w h, addEdge_abs s a b w h⟩
  | removeNode n => have := removeNode_spec s n h; exact ⟨this.1, this.2.2⟩
  | removeEdge a b => have := removeEdge_spec s a b h; exact ⟨this.1, this.2.2⟩
  | setWeight a b w => have := setWeight_spec s a b w h; exact ⟨this.1, this.2.2⟩
  | indexSet a b w => have := setWeight_spec s a b w h; exact ⟨this.1, this.2.2⟩
  | bumpAll k => exact bumpAll_spec s k h
  | clear => exact clear_spec s
  | extend es => exact extend_spec s es h
  | buildAddEdge a b w =>
    have := buildAddEdge_spec s a b w h
    refine ⟨this.1, ?_⟩
    simp only [step, specStep]; rw [this.2.1]
  | buildUpdateEdge a b w => exact ⟨addEdge_inv s a b w h, addEdge_abs s a b w h⟩
  | roundTrip =>
    obtain ⟨s', h1, h2, h3⟩ := roundTrip_spec s h
    simp only [step, h1, specStep]; exact ⟨h2, h3⟩
  | fromGraph ws es =>
    have := fromGraph_spec s.directed ws es
    simp only [step, specStep]
    show Inv (match fromGraph s.directed ws es with | some s' => (s', Out.unit) | none => (s, Out.panic)).1 ∧
      abs (match fromGraph s.directed ws es with | some s' => (s', Out.unit) | none => (s, Out.panic)).1 =
        (SG.fromGraph s.directed ws es).getD (abs s)
    cases h1 : fromGraph s.directed ws es <;> cases h2 : SG.fromGraph s.directed ws es <;> simp only [h1, h2] at this
    · exact ⟨h, rfl⟩
    · exact this
  | fromEdges es =>
    have := extend_spec (State.empty s.directed) es (inv_empty _)
    rw [abs_empty] at this
    exact this
  | _ => exact ⟨h, rfl⟩

theorem sg_fromGraphEdges_directed (g : SG) (ws : List Nat) (es : List (Nat × Nat × Nat)) (g' : SG)
    (h : SG.fromGraphEdges g ws es = some g') : g'.directed = g.directed := by
  induction es generalizing g with
  | nil => simp [SG.fromGraphEdges] at h; rw [← h]
  | cons e t ih =>
    obtain ⟨i, j, w⟩ := e
    simp only [SG.fromGraphEdges] at h
    cases hi : ws[i]? <;> cases hj : ws[j]? <;> simp only [hi, hj] at h
    · cases h
    · cases h
    · cases h
    · exact (ih _ h).trans rfl

theorem specStep_directed (g : SG) (op : Op) : (specStep g op).directed = g.directed := by
  cases op <;> simp only [specStep, SG.addNode, SG.addEdge, SG.removeNode, SG.removeEdge, SG.bumpAll, SG.clear, SG.empty]
  case setWeight a b w => unfold SG.setWeight; split <;> rfl
  case indexSet a b w => unfold SG.setWeight; split <;> rfl
  case extend es => exact (sg_extend_nodes g es).1
  case buildAddEdge a b w => split <;> rfl
  case fromEdges es => exact (sg_extend_nodes _ es).1
  case fromGraph ws es =>
    cases hf : SG.fromGraph g.directed ws es with
    | none => rfl
    | some g' =>
      simp only [Option.getD_some]
      unfold SG.fromGraph at hf
      rw [sg_fromGraphEdges_directed _ _ _ _ hf, (sg_addNodes _ _).1]; rfl

theorem step_directed (s : State) (op : Op) (h : Inv s) : (step s op).1.directed = s.directed := by
  have := (step_spec s op h).2
  have h1 : (abs (step s op).1).directed = (specStep (abs s) op).directed := by rw [this]
  exact h1.trans (specStep_directed (abs s) op)

theorem nodesOf_length (s : State) : (nodesOf s).length = s.nodes.length := by simp [nodesOf, IMap.keys]
theorem allEdges_length (s : State) : (allEdges s).length = s.edges.length := by simp [allEdges]

/-- every answer is the one the abstract graph prescribes -/
theorem out_ok (s : State) (op : Op) (h : Inv s) : OutOk (abs s) op (step s op).2 := by
  cases op with
  | addNode n => rfl
  | addEdge a b w => simp only [OutOk, step]; rw [addEdge_out]
  | removeNode n => simp only [OutOk, step]; rw [(removeNode_spec s n h).2.1]
  | removeEdge a b => simp only [OutOk, step]; rw [(removeEdge_spec s a b h).2.1]
  | setWeight a b w => simp only [OutOk, step]; rw [(setWeight_spec s a b w h).2.1]
  | indexSet a b w =>
    simp only [OutOk, step]; rw [(setWeight_spec s a b w h).2.1]
    cases (abs s).w a b <;> rfl
  | bumpAll k => exact ⟨allEdges s, rfl, allEdges_ok s h⟩
  | clear => rfl
  | extend es => rfl
  | buildAddEdge a b w =>
    simp only [OutOk, step]
    rw [(buildAddEdge_spec s a b w h).2.2]
    cases (abs s).hasEdge a b
    · simp only [Bool.false_eq_true, if_false]
      exact ⟨(a, b), rfl, by simp [samePair]⟩
    · simp
  | buildUpdateEdge a b w => exact ⟨(a, b), rfl, by simp [samePair]⟩
  | roundTrip =>
    obtain ⟨s', h1, _, _⟩ := roundTrip_spec s h
    simp only [OutOk, step, h1]
  | fromGraph ws es =>
    simp only [OutOk, step]
    have := fromGraph_spec s.directed ws es
    show (match fromGraph s.directed ws es with | some s' => (s', Out.unit) | none => (s, Out.panic)).2 =
      if (SG.fromGraph s.directed ws es).isSome = true then Out.unit else Out.panic
    cases h1 : fromGraph s.directed ws es <;> cases h2 : SG.fromGraph s.directed ws es <;> simp only [h1, h2] at this ⊢
    · rfl
    · rfl
  | fromEdges es => rfl
  | clone => rfl
  | containsNode n => rfl
  | containsEdge a b => rfl
  | isAdjacent a b => rfl
  | edgeWeight a b => rfl
  | index a b =>
    simp only [OutOk, step, edgeWeight, absw]
    cases IMap.get? s.edges (edgeKey s.directed a b) <;> rfl
  | neighbors a => exact ⟨_, rfl, neighbors_ok s h a⟩
  | neighborsDirected a d => exact ⟨_, rfl, neighborsDirected_ok s h a d⟩
  | edges a =>
    refine ⟨edgeTriples s a .out, ?_, edgeTriples_ok s h a .out⟩
    simp only [step]; rw [edgesOf_eq s h, edgesDirected_eq s h]
  | edgesDirected a d =>
    refine ⟨edgeTriples s a d, ?_, edgeTriples_ok s h a d⟩
    simp only [step]; rw [edgesDirected_eq s h]
  | nodes => exact ⟨_, rfl, nodes_ok s h⟩
  | allEdges => exact ⟨_, rfl, allEdges_ok s h⟩
  | nodeCount => exact ⟨nodesOf s, nodes_ok s h, by simp [step, nodeCount, nodesOf_length]⟩
  | edgeCount => exact ⟨allEdges s, allEdges_ok s h, by simp [step, edgeCount, allEdges_length]⟩
  | toIndex n =>
    simp only [OutOk, step]
    cases hc : (abs s).node n with
    | false =>
      have : IMap.get? s.nodes n = none := by
        simp only [abs, contains_eq] at hc
        cases hg : IMap.get? s.nodes n <;> simp_all
      simp [(indexOf?_none _ _).2 this]
    | true =>
      have hi := (indexOf?_of_contains s n hc).1
      obtain ⟨hlt, _⟩ := indexOf?_some _ _ _ hi
      simp only [if_true, hi]
      exact ⟨idx s n, nodesOf s, rfl, nodes_ok s h, by rw [nodesOf_length]; exact hlt⟩
  | fromIndex i =>
    simp only [OutOk, step]
    refine ⟨nodesOf s, nodes_ok s h, ?_⟩
    rw [nodesOf_length]
    by_cases hlt : i < s.nodes.length
    · simp only [hlt, if_true, List.getElem?_eq_getElem hlt]
      refine ⟨s.nodes[i].1, rfl, ?_⟩
      rw [← (nodes_ok s h).2]
      exact List.mem_map.2 ⟨s.nodes[i], List.getElem_mem hlt, rfl⟩
    · simp only [hlt, if_false]
      rw [List.getElem?_eq_none (by omega)]
  | edgeToIndex a b =>
    simp only [OutOk, step]
    rw [abshas]
    cases hi : IMap.indexOf? s.edges (edgeKey s.directed a b) with
    | none =>
      have hn : IMap.get? s.edges (edgeKey s.directed a b) = none := (indexOf?_none _ _).1 hi
      simp [hn]
    | some i =>
      have hne : IMap.get? s.edges (edgeKey s.directed a b) ≠ none := by
        intro hn; rw [(indexOf?_none _ _).2 hn] at hi; cases hi
      have hs : (IMap.get? s.edges (edgeKey s.directed a b)).isSome = true := by
        cases hg : IMap.get? s.edges (edgeKey s.directed a b) <;> simp_all
      simp only [hs, if_true]
      refine ⟨i, allEdges s, rfl, allEdges_ok s h, ?_⟩
      rw [allEdges_length]; exact (indexOf?_some _ _ _ hi).1
  | edgeFromIndex i =>
    simp only [OutOk, step]
    refine ⟨allEdges s, allEdges_ok s h, ?_⟩
    rw [allEdges_length]
    by_cases hlt : i < s.edges.length
    · simp only [hlt, if_true, List.getElem?_eq_getElem hlt]
      refine ⟨s.edges[i].1.1, s.edges[i].1.2, rfl, ?_⟩
      have hm : s.edges[i] ∈ s.edges := List.getElem_mem hlt
      have hg : IMap.get? s.edges (s.edges[i].1.1, s.edges[i].1.2) = some s.edges[i].2 :=
        get?_of_mem _ h.edgesNodup _ _ hm
      rw [abshas, canon_key s h _ _ (by simp [hg])]; simp [hg]
    · simp only [hlt, if_false]
      rw [List.getElem?_eq_none (by omega)]
  | intoGraph => exact intoGraph_ok s h

/-- the answers of a whole history are the prescribed ones, call by call -/
def OutsOk (g : SG) : List Op → List Out → Prop
  | [], [] => True
  | op :: ops, o :: os => OutOk g op o ∧ OutsOk (specStep g op) ops os
  | _, _ => False

theorem run_spec (s : State) (ops : List Op) (h : Inv s) :
    Inv (run s ops).1 ∧ abs (run s ops).1 = specRun (abs s) ops ∧ OutsOk (abs s) ops (run s ops).2 := by
  induction ops generalizing s with
  | nil => exact ⟨h, rfl, trivial⟩
  | cons op ops ih =>
    have h1 := step_spec s op h
    have h2 := ih (step s op).1 h1.1
    simp only [run, specRun, OutsOk]
    rw [← h1.2]
    exact ⟨h2.1, h2.2.1, out_ok s op h, h2.2.2⟩

theorem abs_wf (s : State) (h : Inv s) : (abs s).WF := by
  refine ⟨?_, ?_⟩
  · intro a b hab
    exact key_ends h a b hab
  · intro hd a b
    simp only [abs] at hd ⊢
    rw [hd, edgeKey_false_comm]

section
variable {κ ν : Type} [DecidableEq κ]
theorem indexOf?_eq_some_iff (m : IMap κ ν) (hn : (IMap.keys m).Nodup) (k : κ) (i : Nat) :
    IMap.indexOf? m k = some i ↔ (m[i]?.map (·.1)) = some k := by
  constructor
  · intro h
    obtain ⟨hlt, he⟩ := indexOf?_some m k i h
    simp [hlt, he]
  · intro h
    induction m generalizing i with
    | nil => simp at h
    | cons e t ih =>
      obtain ⟨k', v⟩ := e
      simp only [IMap.keys, List.map_cons, List.nodup_cons] at hn
      cases i with
      | zero =>
        simp at h; subst h; simp [IMap.indexOf?]
      | succ j =>
        simp only [List.getElem?_cons_succ] at h
        have hk : k ∈ IMap.keys t := by
          cases hj : t[j]? with
          | none => simp [hj] at h
          | some e =>
            simp [hj] at h
            exact List.mem_map.2 ⟨e, List.mem_of_getElem? hj, h⟩
        have hne : k' ≠ k := by intro e; subst e; exact hn.1 hk
        simp only [IMap.indexOf?, hne, if_false]
        rw [ih hn.2 j h]; rfl
end

end PetgraphModel.GMProofs
