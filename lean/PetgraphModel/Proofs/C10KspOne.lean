import PetgraphModel.Proofs.C10Ksp
import Mathlib.Data.List.Nodup
/-
`k_shortest_path` with `k = 1` and no goal coincides with dijkstra's specification: the model's
returned map is exactly `{v ↦ shortest-walk cost | v reachable}` — for every min-`pop`, every
consistent view with non-negative weights whose `to_index` is injective on the nodes a walk can reach.
-/
namespace PetgraphModel.C10P
open PetgraphModel PetgraphModel.MGraph PetgraphModel.SP

/-- nodes a walk from `s` can end in: `s` itself and the arc targets -/
def RelN (v : View) (s x : Nat) : Prop := x = s ∨ ∃ a w, (a, x, w) ∈ v.g.arcs

def IxInj (v : View) (s : Nat) : Prop :=
  ∀ a b, RelN v s a → RelN v s b → v.toIndex a = v.toIndex b → a = b

/-- `x` has been popped at least once -/
def Vis (v : View) (st : KState) (x : Nat) : Prop := 1 ≤ (st.counter[v.toIndex x]?).getD 0

structure JInv (v : View) (s : Nat) (st : KState) : Prop where
  len : st.counter.length = v.nb
  heapRel : ∀ e, e ∈ st.heap → RelN v s e.2
  heapReal : ∀ e, e ∈ st.heap → WalkCost v.g s e.2 e.1
  scored : ∀ x c, amGet st.scores x = some c → RelN v s x ∧ Vis v st x ∧ WalkCost v.g s x c ∧ ∀ e, e ∈ st.heap → c ≤ e.1
  closed : ∀ x, RelN v s x → Vis v st x → ∃ c, amGet st.scores x = some c ∧
    ∀ y w, (x, y, w) ∈ v.g.arcs →
      (∃ cy, amGet st.scores y = some cy ∧ cy ≤ c + w) ∨ (∃ e, e ∈ st.heap ∧ e.2 = y ∧ e.1 ≤ c + w)
  src : (∃ c, amGet st.scores s = some c ∧ c ≤ 0) ∨ (∃ e, e ∈ st.heap ∧ e.2 = s ∧ e.1 ≤ 0)

theorem getD_set (l : List Nat) (i j n : Nat) (hi : i < l.length) :
    ((l.set i n)[j]?).getD 0 = if j = i then n else (l[j]?).getD 0 := by
  by_cases h : j = i
  · subst h; simp [hi]
  · have : ¬ i = j := fun e => h e.symm
    simp [h, List.getElem?_set, this]

theorem kone_loop {pop : Pop} (hp : IsMinPop pop) {v : View} (hv : ViewArcs v) (hw : NonNeg v.g) (s : Nat)
    (hix : IxOk v s) (hinj : IxInj v s) :
    ∀ (fuel : Nat) (st : KState) (m : List (Nat × Int)), JInv v s st →
      kspLoop pop v none 1 fuel st = .done m →
      ∃ st', JInv v s st' ∧ st'.heap = [] ∧ st'.scores = m := by
  intro fuel
  induction fuel with
  | zero => intro st m _ h; simp [kspLoop] at h
  | succ f ih =>
    intro st m J h
    simp only [kspLoop] at h
    cases hpop : pop st.heap with
    | none =>
      rw [hpop] at h
      simp at h
      exact ⟨st, J, (hp.none_iff _).mp hpop, h⟩
    | some eh =>
      obtain ⟨⟨c, node⟩, h'⟩ := eh
      rw [hpop] at h
      simp only at h
      have hmem := hp.mem _ _ _ hpop
      have hin : (c, node) ∈ st.heap := (hmem _).mpr (Or.inl rfl)
      have hsub : ∀ e, e ∈ h' → e ∈ st.heap := fun e he => (hmem e).mpr (Or.inr he)
      have hminc : ∀ e, e ∈ st.heap → c ≤ e.1 := fun e he => hp.min _ _ _ hpop e he
      have hrel : RelN v s node := J.heapRel _ hin
      have hreal : WalkCost v.g s node c := J.heapReal _ hin
      have hlt : v.toIndex node < st.counter.length := by
        rw [J.len]
        rcases hrel with e | ⟨a, w, ha⟩
        · rw [e]; exact hix.1
        · exact hix.2 _ _ _ ha
      have hsome : st.counter[v.toIndex node]? = some (st.counter[v.toIndex node]'hlt) :=
        List.getElem?_eq_getElem _
      generalize hn : st.counter[v.toIndex node]'hlt = n at hsome
      simp only [hsome] at h
      -- visited-ness after the counter update
      have hvis' : ∀ x, RelN v s x →
          (Vis v { st with heap := h', counter := st.counter.set (v.toIndex node) (n + 1) } x ↔ (x = node ∨ Vis v st x)) := by
        intro x hx
        simp only [Vis, getD_set _ _ _ _ hlt]
        by_cases hxi : v.toIndex x = v.toIndex node
        · have : x = node := hinj x node hx hrel hxi
          simp [hxi, this]
        · have : x ≠ node := fun e => hxi (by rw [e])
          simp [hxi, this]
      by_cases hgt : n + 1 > 1
      · -- `node` was visited before: a stale entry
        simp only [hgt, if_true] at h
        have hvn : Vis v st node := by
          simp only [Vis, hsome, Option.getD_some]; omega
        refine ih _ m ⟨by simp [J.len], fun e he => J.heapRel e (hsub e he), fun e he => J.heapReal e (hsub e he),
          ?_, ?_, ?_⟩ h
        · intro x cx hx
          obtain ⟨a, b, c', d⟩ := J.scored x cx hx
          exact ⟨a, ((hvis' x a).mpr (Or.inr b)), c', fun e he => d e (hsub e he)⟩
        · intro x hx hvx
          have hvx' : Vis v st x := by
            rcases (hvis' x hx).mp hvx with e | e
            · rw [e]; exact hvn
            · exact e
          obtain ⟨cx, hcx, hcl⟩ := J.closed x hx hvx'
          refine ⟨cx, hcx, ?_⟩
          intro y w harc
          rcases hcl y w harc with h1 | ⟨e, he, hey, hle⟩
          · exact Or.inl h1
          · rcases (hmem e).mp he with h2 | h2
            · -- the witness was the popped entry: `node` is visited, its score is at most the entry
              subst h2
              simp only at hey hle
              subst hey
              obtain ⟨cn, hcn, _⟩ := J.closed _ hrel hvn
              have := (J.scored _ cn hcn).2.2.2 _ hin
              exact Or.inl ⟨cn, hcn, by simp only at this; omega⟩
            · exact Or.inr ⟨e, h2, hey, hle⟩
        · rcases J.src with h1 | ⟨e, he, hes, hle⟩
          · exact Or.inl h1
          · rcases (hmem e).mp he with h2 | h2
            · subst h2
              simp only at hes hle
              subst hes
              obtain ⟨cn, hcn, _⟩ := J.closed _ hrel hvn
              have := (J.scored _ cn hcn).2.2.2 _ hin
              exact Or.inl ⟨cn, hcn, by simp only at this; omega⟩
            · exact Or.inr ⟨e, h2, hes, hle⟩
      · -- first pop of `node`: record its score and push its extensions
        have hn0 : n = 0 := by omega
        subst hn0
        simp only [hgt, if_false] at h
        simp at h
        have hnv : ¬ Vis v st node := by
          simp only [Vis, hsome, Option.getD_some]; omega
        have hnotscored : amGet st.scores node = none := by
          cases hsc : amGet st.scores node with
          | none => rfl
          | some cn => exact absurd (J.scored node cn hsc).2.1 hnv
        have hext : ∀ e, e ∈ (v.outOf node).map (fun x => (c + v.weight x.2, x.1)) →
            ∃ y w, (node, y, w) ∈ v.g.arcs ∧ e = (c + w, y) := by
          intro e he
          obtain ⟨te, hte, rfl⟩ := List.mem_map.mp he
          exact ⟨te.1, v.weight te.2, (hv node te.1 (v.weight te.2)).mp ⟨te.2, hte, rfl⟩, rfl⟩
        refine ih _ m ⟨by simp [J.len], ?_, ?_, ?_, ?_, ?_⟩ h
        · intro e he
          simp only [List.mem_append] at he
          rcases he with he | he
          · exact J.heapRel e (hsub e he)
          · obtain ⟨y, w, harc, rfl⟩ := hext e he
            exact Or.inr ⟨node, w, harc⟩
        · intro e he
          simp only [List.mem_append] at he
          rcases he with he | he
          · exact J.heapReal e (hsub e he)
          · obtain ⟨y, w, harc, rfl⟩ := hext e he
            exact WalkCost.snoc hreal harc
        · intro x cx hx
          simp only [amGet_amSet] at hx
          have hheap : ∀ (c0 : Int), (∀ e, e ∈ st.heap → c0 ≤ e.1) → c0 ≤ c →
              ∀ e, e ∈ h' ++ (v.outOf node).map (fun x => (c + v.weight x.2, x.1)) → c0 ≤ e.1 := by
            intro c0 hall hc0 e he
            simp only [List.mem_append] at he
            rcases he with he | he
            · exact hall e (hsub e he)
            · obtain ⟨y, w, harc, rfl⟩ := hext e he
              have := hw _ _ _ harc
              simp only; omega
          by_cases hxn : x = node
          · simp [hxn] at hx
            subst hxn; subst hx
            exact ⟨hrel, (hvis' x hrel).mpr (Or.inl rfl), hreal, hheap c hminc (Int.le_refl _)⟩
          · simp [hxn] at hx
            obtain ⟨a, b, c', d⟩ := J.scored x cx hx
            exact ⟨a, (hvis' x a).mpr (Or.inr b), c', hheap cx d (d _ hin)⟩
        · intro x hx hvx
          simp only [amGet_amSet]
          rcases (hvis' x hx).mp hvx with hxn | hvx'
          · subst hxn
            refine ⟨c, by simp, ?_⟩
            intro y w harc
            right
            obtain ⟨eid, hrow, hwe⟩ := (hv x y w).mpr harc
            refine ⟨(c + w, y), ?_, rfl, Int.le_refl _⟩
            simp only [List.mem_append, List.mem_map]
            right
            exact ⟨(y, eid), hrow, by simp [hwe]⟩
          · have hxn : x ≠ node := fun e => hnv (e ▸ hvx')
            obtain ⟨cx, hcx, hcl⟩ := J.closed x hx hvx'
            refine ⟨cx, by simp [hxn, hcx], ?_⟩
            intro y w harc
            rcases hcl y w harc with ⟨cy, hcy, hle⟩ | ⟨e, he, hey, hle⟩
            · left
              have hyn : y ≠ node := by intro e; rw [e, hnotscored] at hcy; cases hcy
              exact ⟨cy, by simp [hyn, hcy], hle⟩
            · rcases (hmem e).mp he with h2 | h2
              · -- the witness was the popped entry: `node` now carries exactly that score
                subst h2
                simp only at hey hle
                subst hey
                exact Or.inl ⟨c, by simp, hle⟩
              · exact Or.inr ⟨e, List.mem_append.mpr (Or.inl h2), hey, hle⟩
        · simp only [amGet_amSet]
          rcases J.src with ⟨c0, hc0, hle⟩ | ⟨e, he, hes, hle⟩
          · left
            have : s ≠ node := by intro e; rw [e, hnotscored] at hc0; cases hc0
            exact ⟨c0, by simp [this, hc0], hle⟩
          · rcases (hmem e).mp he with h2 | h2
            · subst h2
              simp only at hes hle
              subst hes
              exact Or.inl ⟨c, by simp, hle⟩
            · exact Or.inr ⟨e, List.mem_append.mpr (Or.inl h2), hes, hle⟩

/-- **k = 1 coincides with dijkstra** (model level) -/
theorem ksp_one_correct {pop : Pop} (hp : IsMinPop pop) {v : View} (hv : ViewArcs v) (hw : NonNeg v.g) (s : Nat)
    (hix : IxOk v s) (hinj : IxInj v s) (m : List (Nat × Int))
    (h : kShortestPath pop v s none 1 = .done m) :
    (∀ x c, amGet m x = some c ↔ IsShortest v.g s x c) ∧ (∀ x, amGet m x = none ↔ ¬ Reach v.g s x) := by
  have J0 : JInv v s { counter := List.replicate v.nb 0, heap := [(0, s)] } := by
    refine ⟨by simp, ?_, ?_, ?_, ?_, ?_⟩
    · intro e he; simp at he; subst he; exact Or.inl rfl
    · intro e he; simp at he; subst he; exact WalkCost.nil _
    · intro x c hx; simp [amGet] at hx
    · intro x _ hvx
      simp only [Vis] at hvx
      have : ((List.replicate v.nb 0)[v.toIndex x]?).getD 0 = 0 := by
        simp only [List.getElem?_replicate]
        split <;> rfl
      omega
    · exact Or.inr ⟨(0, s), by simp, rfl, Int.le_refl _⟩
  obtain ⟨st', J, hh, hm⟩ := kone_loop hp hv hw s hix hinj _ _ m J0 h
  subst hm
  -- every walk is matched by a score
  have lb : ∀ x c', WalkCost v.g s x c' → ∃ c, amGet st'.scores x = some c ∧ c ≤ c' := by
    intro x c' hwalk
    induction hwalk with
    | nil =>
      rcases J.src with h1 | ⟨e, he, _, _⟩
      · exact h1
      · rw [hh] at he; cases he
    | @snoc b x c1 w _ harc ihb =>
      obtain ⟨cb, hcb, hle⟩ := ihb
      obtain ⟨hrb, hvb, _, _⟩ := J.scored b cb hcb
      obtain ⟨cb', hcb', hcl⟩ := J.closed b hrb hvb
      rw [hcb] at hcb'; cases hcb'
      rcases hcl x w harc with ⟨cy, hcy, hley⟩ | ⟨e, he, _, _⟩
      · exact ⟨cy, hcy, by omega⟩
      · rw [hh] at he; cases he
  have h1 : ∀ x c, amGet st'.scores x = some c ↔ IsShortest v.g s x c := by
    intro x c
    constructor
    · intro hx
      refine ⟨(J.scored x c hx).2.2.1, ?_⟩
      intro c' hwk
      obtain ⟨c0, hc0, hle⟩ := lb x c' hwk
      rw [hx] at hc0; cases hc0; exact hle
    · intro hs
      obtain ⟨c0, hc0, hle⟩ := lb x c hs.1
      have := hs.2 c0 (J.scored x c0 hc0).2.2.1
      have : c0 = c := by omega
      rw [hc0, this]
  refine ⟨h1, ?_⟩
  intro x
  rw [← DistProofs.walk_iff_reach]
  constructor
  · intro hn ⟨c', hwk⟩
    obtain ⟨c0, hc0, _⟩ := lb x c' hwk
    rw [hn] at hc0; cases hc0
  · intro hn
    cases hx : amGet st'.scores x with
    | none => rfl
    | some c => exact absurd ⟨c, (J.scored x c hx).2.2.1⟩ hn

/-- the driver's per-case checks establish `IxInj` for every source among the nodes -/
theorem ixInjB_sound (v : View) (h1 : C10.viewOkB v = true) (h2 : C10.ixOkB v = true) (s : Nat)
    (hs : s ∈ v.g.nodes) : IxInj v s := by
  unfold C10.ixOkB at h2
  simp only [Bool.and_eq_true] at h2
  have hlen : ((v.g.nodes.map v.toIndex).eraseDups).length = (v.g.nodes.map v.toIndex).length := by
    simpa using h2.2
  have hnd : (v.g.nodes.map v.toIndex).Nodup := nodup_of_eraseDups_length _ hlen
  unfold C10.viewOkB at h1
  simp only [Bool.and_eq_true, List.all_eq_true] at h1
  obtain ⟨⟨_, hends⟩, _⟩ := h1
  have hnode : ∀ x, RelN v s x → x ∈ v.g.nodes := by
    intro x hx
    rcases hx with e | ⟨a, w, harc⟩
    · rw [e]; exact hs
    · have := hends (a, x, w) harc
      simp at this
      exact this.2
  intro a b ha hb hab
  exact List.inj_on_of_nodup_map hnd (hnode a ha) (hnode b hb) hab

end PetgraphModel.C10P
