import PetgraphModel.Spec.C03Ordered
import PetgraphModel.Proofs.GraphMapJudge
import PetgraphModel.Proofs.C03W4Ordered
/-
C03 (wave 4) —
* what the two ordered-set primitives of `Spec/C03Ordered.lean` do, in closed form (the wording of the
  `IndexMap` / `Vec` documentation): `pushNew_*`, `swapDel_*`;
* every order is a permutation of the set the unordered specification names (`*_perm`).
-/
namespace PetgraphModel.C03W4
open PetgraphModel PetgraphModel.GM PetgraphModel.SimpleGraphSpec PetgraphModel.OrderedGraphSpec
open PetgraphModel.GMProofs PetgraphModel.GMJudge

/-! ### `pushNew`, `swapDel` in closed form -/

theorem pushNew_new {α : Type} [DecidableEq α] (l : List α) (x : α) (h : x ∉ l) : pushNew l x = l ++ [x] := by
  simp [pushNew, h]

theorem pushNew_old {α : Type} [DecidableEq α] (l : List α) (x : α) (h : x ∈ l) : pushNew l x = l := by
  simp [pushNew, h]

/-- nothing to remove: nothing happens -/
theorem swapDel_absent {α : Type} (p : α → Bool) : ∀ (l : List α), (∀ y ∈ l, p y = false) → swapDel p l = l
  | [], _ => rfl
  | x :: t, h => by
    have hx : p x = false := h x (by simp)
    simp only [swapDel, hx, Bool.false_eq_true, if_false]
    rw [swapDel_absent p t (fun y hy => h y (by simp [hy]))]

/-- removing the last element: it is popped, every other position stays -/
theorem swapDel_last {α : Type} (p : α → Bool) (pre : List α) (x : α) (hpre : ∀ y ∈ pre, p y = false)
    (hx : p x = true) : swapDel p (pre ++ [x]) = pre := by
  induction pre with
  | nil => simp [swapDel, hx]
  | cons y t ih =>
    have hy : p y = false := hpre y (by simp)
    simp only [List.cons_append, swapDel, hy, Bool.false_eq_true, if_false]
    rw [ih (fun z hz => hpre z (by simp [hz]))]

/-- removing an inner element: the LAST element `z` takes its place, every other position stays -/
theorem swapDel_inner {α : Type} (p : α → Bool) (pre mid : List α) (x z : α) (hpre : ∀ y ∈ pre, p y = false)
    (hx : p x = true) : swapDel p (pre ++ x :: (mid ++ [z])) = pre ++ z :: mid := by
  induction pre with
  | nil =>
    simp only [List.nil_append, swapDel, hx, if_true]
    simp [List.getLast?_append, List.dropLast_concat]
  | cons y t ih =>
    have hy : p y = false := hpre y (by simp)
    simp only [List.cons_append, swapDel, hy, Bool.false_eq_true, if_false]
    rw [ih (fun z hz => hpre z (by simp [hz]))]

/-! ### every order is a permutation of the set the unordered specification names -/

theorem nodesOk_perm (g : SG) (k : Nat) (hb : g.Bounded k) (l : List Nat) (h : NodesOk g l) :
    l.Perm ((univ k).filter g.node) := by
  have h2 := nodesOk_spec g k hb
  rw [List.perm_ext_iff_of_nodup h.1 h2.1]
  intro a; rw [h.2, h2.2]

theorem neighborsOk_perm (g : SG) (k : Nat) (hb : g.Bounded k) (a : Nat) (d : Dir) (l : List Nat)
    (h : NeighborsOk g a d l) : l.Perm ((univ k).filter (hasDir g a d)) := by
  have hn : ((univ k).filter (hasDir g a d)).Nodup := (nodup_univ k).sublist List.filter_sublist
  rw [List.perm_ext_iff_of_nodup h.1 hn]
  intro b
  rw [h.2, List.mem_filter, mem_univ]
  constructor
  · intro hh
    have : hasDir g a d b = true := by cases d <;> exact hh
    exact ⟨hasDir_lt g k hb a d b this, this⟩
  · intro hh; cases d <;> exact hh.2

/-- `all_edges()`: the listed names, made canonical, are a permutation of the edge set (an undirected
edge once), and every listed weight is the edge's weight -/
theorem allEdgesOk_perm (g : SG) (k : Nat) (hb : g.Bounded k) (hw : g.WF) (l : List (Nat × Nat × Nat))
    (h : AllEdgesOk g l) :
    (l.map fun e => canon g.directed (e.1, e.2.1)).Perm (specEdgeKeys g k) ∧ ∀ e ∈ l, g.w e.1 e.2.1 = some e.2.2 := by
  have hB := (allEdgesB_iff g k hb hw l).2 h
  unfold allEdgesB enumOk at hB
  simp only [Bool.and_eq_true, beq_iff_eq, List.all_eq_true] at hB
  obtain ⟨hv, ⟨hnd, hall⟩, hlen⟩ := hB
  refine ⟨?_, fun e he => ?_⟩
  · have hnd' := (nodupB_iff _).1 hnd
    have hn2 : (specEdgeKeys g k).Nodup := (nodup_pairs k).sublist List.filter_sublist
    have hsub : ∀ p ∈ l.map (fun e => canon g.directed (e.1, e.2.1)), p ∈ specEdgeKeys g k := by
      intro p hp
      have hk := hall p hp
      refine List.mem_filter.2 ⟨?_, hk⟩
      rw [mem_pairs]
      simp only [isKey, Bool.and_eq_true] at hk
      exact hb.w_lt p.1 p.2 hk.2
    rw [List.perm_ext_iff_of_nodup hnd' hn2]
    intro p
    exact ⟨hsub p, fun hp => mem_of_subset_length _ _ hnd' hsub (by rw [hlen]; exact Nat.le_refl _) p hp⟩
  · have := hv e he
    simpa [validEdge] using this

end PetgraphModel.C03W4
