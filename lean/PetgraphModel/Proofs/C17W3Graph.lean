import PetgraphModel.Proofs.SerdeDe
import PetgraphModel.Proofs.C01W2Main
/-
Helper lemmas for C17, wave 3 (part 3): the `Graph` of the serde model (`Serde.Raw` with all weights present, C17)
and the `Graph` of C01 (`G.State`) are the same data structure.

`embedGraph` / `unembedGraph` translate between the two representations (same two arrays, same `next` pointers).
The C01 model stores weights as `Nat`, the serde model as `Int`: weights are translated by the bijection
`encW`/`decW` (zig-zag code); no invariant and no operation of C01 inspects a weight.

* `GraphInv g → GProofs.Inv (embedGraph g)` and `GProofs.Inv t → GraphInv (unembedGraph t)`;
* a *loaded* graph additionally has all its lists in descending index order (`link_edges`), so its embedding
  satisfies `Inv1`, hence the refinement invariant `RInv … id edges.length` of C01.  (`GraphInv` alone does not
  imply `RInv`: two parallel edges `e1, e2` from `a` to `b` listed `e1, e2` at `a` and `e2, e1` at `b` satisfy
  `GraphInv`, and no stamp function decreases along both lists; no history of `Graph` calls and no `link_edges`
  produces such a state.)
-/
namespace PetgraphModel.SerdeProofs
open PetgraphModel PetgraphModel.Serde

/-! ### weights -/

/-- zig-zag code `0, -1, 1, -2, 2, … ↦ 0, 1, 2, 3, 4, …` -/
def encW (z : Int) : Nat := if 0 ≤ z then 2 * z.toNat else 2 * (-z).toNat - 1
def decW (n : Nat) : Int := if n % 2 = 0 then ((n / 2 : Nat) : Int) else -(((n + 1) / 2 : Nat) : Int)

theorem decW_encW (z : Int) : decW (encW z) = z := by
  unfold decW encW
  split <;> split <;> omega

theorem encW_decW (n : Nat) : encW (decW n) = n := by
  unfold decW encW
  split <;> split <;> omega

/-! ### the embedding -/

def embNG (n : NodeSlot) : G.Node := { weight := encW (n.w.getD 0), next0 := n.n0, next1 := n.n1 }
def embEG (e : EdgeSlot) : G.Edge := { weight := encW (e.w.getD 0), next0 := e.n0, next1 := e.n1, src := e.src, tgt := e.tgt }
def unNG (n : G.Node) : NodeSlot := { w := some (decW n.weight), n0 := n.next0, n1 := n.next1 }
def unEG (e : G.Edge) : EdgeSlot := { w := some (decW e.weight), n0 := e.next0, n1 := e.next1, src := e.src, tgt := e.tgt }

/-- a `Graph` of the serde model as a `Graph` state of the C01 model -/
def embedGraph (g : Raw) : G.State :=
  { endv := g.END, directed := g.directed, nodes := g.nodes.map embNG, edges := g.edges.map embEG }

/-- the inverse: a C01 state as a `Graph` of the serde model -/
def unembedGraph (t : G.State) : Raw :=
  { END := t.endv, directed := t.directed, nodes := t.nodes.map unNG, edges := t.edges.map unEG }

theorem embNG_unNG (n : G.Node) : embNG (unNG n) = n := by
  simp [embNG, unNG, encW_decW]
theorem embEG_unEG (e : G.Edge) : embEG (unEG e) = e := by
  simp [embEG, unEG, encW_decW]
theorem unNG_embNG (n : NodeSlot) (h : n.w.isSome = true) : unNG (embNG n) = n := by
  obtain ⟨w, n0, n1⟩ := n
  cases w with
  | none => simp at h
  | some x => simp [embNG, unNG, decW_encW]
theorem unEG_embEG (e : EdgeSlot) (h : e.w.isSome = true) : unEG (embEG e) = e := by
  obtain ⟨w, n0, n1, a, b⟩ := e
  cases w with
  | none => simp at h
  | some x => simp [embEG, unEG, decW_encW]

theorem embed_unembedGraph (t : G.State) : embedGraph (unembedGraph t) = t := by
  obtain ⟨endv, d, ns, es⟩ := t
  simp [embedGraph, unembedGraph, List.map_map, Function.comp_def, embNG_unNG, embEG_unEG]

theorem unembed_embedGraph (g : Raw) (hI : GraphInv g) : unembedGraph (embedGraph g) = g := by
  obtain ⟨END, d, ns, es⟩ := g
  simp only [embedGraph, unembedGraph, List.map_map, Raw.mk.injEq, true_and]
  constructor
  · conv => rhs; rw [← List.map_id ns]
    apply List.map_congr_left
    intro n hn
    obtain ⟨i, hi⟩ := List.getElem?_of_mem hn
    exact unNG_embNG n (hI.allNodes i n hi)
  · conv => rhs; rw [← List.map_id es]
    apply List.map_congr_left
    intro e he
    obtain ⟨i, hi⟩ := List.getElem?_of_mem he
    exact unEG_embEG e (hI.allEdges i e hi)

/-- direction index: `false` = `Outgoing` = 0, `true` = `Incoming` = 1 -/
def kN (k : Bool) : Nat := if k then 1 else 0

theorem embEG_next (e : EdgeSlot) (k : Bool) : (embEG e).next k = e.next (kN k) := by cases k <;> rfl
theorem unEG_next (e : G.Edge) (k : Bool) : (unEG e).next (kN k) = e.next k := by cases k <;> rfl
theorem embEG_node (e : EdgeSlot) (k : Bool) : (embEG e).node k = e.node (kN k) := by cases k <;> rfl
theorem embNG_next (n : NodeSlot) (k : Bool) : (embNG n).next k = n.next (kN k) := by cases k <;> rfl
theorem unNG_next (n : G.Node) (k : Bool) : (unNG n).next (kN k) = n.next k := by cases k <;> rfl

theorem gE_map_some {α β} {f : α → β} {l : List α} {i : Nat} {y : β} (h : (l.map f)[i]? = some y) :
    ∃ x, l[i]? = some x ∧ y = f x := by
  rw [List.getElem?_map] at h
  cases hx : l[i]? with
  | none => simp [hx] at h
  | some x => simp [hx] at h; exact ⟨x, rfl, h.symm⟩

theorem gE_map_of {α β} (f : α → β) {l : List α} {i : Nat} {x : α} (h : l[i]? = some x) :
    (l.map f)[i]? = some (f x) := by
  rw [List.getElem?_map, h]; rfl

/-! ### chains -/

theorem chain_to_isList {edges : List EdgeSlot} {END h : Nat} {l : List Nat} (k : Bool)
    (c : Chain edges END (kN k) h l) : GProofs.IsList (edges.map embEG) k END h l := by
  induction c with
  | nil => exact .nil
  | cons e s l hs _ ih =>
    refine .cons (embEG s) (gE_map_of embEG hs) ?_
    rw [embEG_next]; exact ih

theorem chain_of_isList' {es : List G.Edge} {endv h : Nat} {l : List Nat} (k : Bool)
    (c : GProofs.IsList es k endv h l) : Chain (es.map unEG) endv (kN k) h l := by
  induction c with
  | nil => exact .nil
  | @cons e l ed he _ ih =>
    refine .cons e (unEG ed) l (gE_map_of unEG he) ?_
    rw [unEG_next]; exact ih

/-! ### serde invariant ⇒ C01 invariant -/

theorem inv_embedGraph (g : Raw) (hI : GraphInv g) : GProofs.Inv (embedGraph g) := by
  have hex : ∀ (k : Bool) (i : Nat), ∃ l : List Nat, l.Nodup ∧
      (∀ e, e ∈ l ↔ ∃ ed, (g.edges.map embEG)[e]? = some ed ∧ ed.node k = i) ∧
      (∀ nd, (g.nodes.map embNG)[i]? = some nd → GProofs.IsList (g.edges.map embEG) k g.END (nd.next k) l) := by
    intro k i
    cases hn : g.nodes[i]? with
    | none =>
      refine ⟨[], List.nodup_nil, fun e => ?_, fun nd hnd => ?_⟩
      · constructor
        · intro h; simp at h
        · rintro ⟨ed, hed, hk⟩
          exfalso
          obtain ⟨s, hs, rfl⟩ := gE_map_some hed
          obtain ⟨⟨a, ha, _⟩, ⟨b, hb, _⟩⟩ := hI.endpoints e s hs (hI.allEdges e s hs)
          cases k
          · have : s.src = i := hk
            rw [this, hn] at ha; cases ha
          · have : s.tgt = i := hk
            rw [this, hn] at hb; cases hb
      · obtain ⟨x, hx, _⟩ := gE_map_some hnd
        rw [hn] at hx; cases hx
    | some n =>
      have hlive := hI.allNodes i n hn
      have hmem : ∀ (l : List Nat) (P : EdgeSlot → Prop),
          (∀ s : EdgeSlot, P s ↔ s.w.isSome = true ∧ s.node (kN k) = i) →
          (∀ e, e ∈ l ↔ ∃ s, g.edges[e]? = some s ∧ P s) →
          ∀ e, e ∈ l ↔ ∃ ed, (g.edges.map embEG)[e]? = some ed ∧ ed.node k = i := by
        intro l P hP hm e
        rw [hm e]
        constructor
        · rintro ⟨s, hs, hp⟩
          exact ⟨embEG s, gE_map_of embEG hs, by rw [embEG_node]; exact ((hP s).1 hp).2⟩
        · rintro ⟨ed, hed, hk⟩
          obtain ⟨s, hs, rfl⟩ := gE_map_some hed
          rw [embEG_node] at hk
          exact ⟨s, hs, (hP s).2 ⟨hI.allEdges e s hs, hk⟩⟩
      cases k
      · obtain ⟨l, hc, hnd, hm⟩ := hI.out i n hn hlive
        refine ⟨l, hnd, hmem l _ (fun s => Iff.rfl) hm, fun nd hnd' => ?_⟩
        obtain ⟨x, hx, rfl⟩ := gE_map_some hnd'
        rw [hn] at hx; cases hx
        exact chain_to_isList false hc
      · obtain ⟨l, hc, hnd, hm⟩ := hI.inn i n hn hlive
        refine ⟨l, hnd, hmem l _ (fun s => Iff.rfl) hm, fun nd hnd' => ?_⟩
        obtain ⟨x, hx, rfl⟩ := gE_map_some hnd'
        rw [hn] at hx; cases hx
        exact chain_to_isList true hc
  refine { szN := by simpa [embedGraph] using hI.lenN, szE := by simpa [embedGraph] using hI.lenE, ends := ?_, lists := ?_ }
  · intro e ed hed
    obtain ⟨s, hs, rfl⟩ := gE_map_some (f := embEG) hed
    obtain ⟨⟨a, ha, _⟩, ⟨b, hb, _⟩⟩ := hI.endpoints e s hs (hI.allEdges e s hs)
    have h1 := (List.getElem?_eq_some_iff.1 ha).1
    have h2 := (List.getElem?_eq_some_iff.1 hb).1
    simpa [embedGraph, embEG] using And.intro h1 h2
  · refine ⟨fun k i => Classical.choose (hex k i), fun k i nd hnd => ?_, fun k i => ?_, fun k i e => ?_⟩
    · exact (Classical.choose_spec (hex k i)).2.2 nd hnd
    · exact (Classical.choose_spec (hex k i)).1
    · exact (Classical.choose_spec (hex k i)).2.1 e

/-! ### C01 invariant ⇒ serde invariant -/

theorem graphInv_unembed (t : G.State) (hI : GProofs.Inv t) : GraphInv (unembedGraph t) := by
  obtain ⟨adj, hl, hn, hm⟩ := hI.lists
  have hlist : ∀ (k : Bool) (i : Nat) (nd : NodeSlot), (t.nodes.map unNG)[i]? = some nd →
      ∃ l, Chain (t.edges.map unEG) t.endv (kN k) (nd.next (kN k)) l ∧
        ExactList (t.edges.map unEG) (fun s => s.w.isSome = true ∧ s.node (kN k) = i) l := by
    intro k i nd hnd
    obtain ⟨n, hn', rfl⟩ := gE_map_some (f := unNG) hnd
    refine ⟨adj k i, ?_, hn k i, fun e => ?_⟩
    · rw [unNG_next]; exact chain_of_isList' k (hl k i n hn')
    · rw [hm k i e]
      constructor
      · rintro ⟨ed, hed, hk⟩
        exact ⟨unEG ed, gE_map_of unEG hed, rfl, by cases k <;> exact hk⟩
      · rintro ⟨s, hs, _, hk⟩
        obtain ⟨ed, hed, rfl⟩ := gE_map_some (f := unEG) hs
        exact ⟨ed, hed, by cases k <;> exact hk⟩
  refine { lenN := by simpa [unembedGraph] using hI.szN, lenE := by simpa [unembedGraph] using hI.szE,
           endpoints := ?_, out := ?_, inn := ?_, allNodes := ?_, allEdges := ?_ }
  · intro e s hs _
    obtain ⟨ed, hed, rfl⟩ := gE_map_some (f := unEG) hs
    obtain ⟨h1, h2⟩ := hI.ends e ed hed
    exact ⟨⟨unNG t.nodes[ed.src], gE_map_of unNG (List.getElem?_eq_getElem h1), rfl⟩,
           ⟨unNG t.nodes[ed.tgt], gE_map_of unNG (List.getElem?_eq_getElem h2), rfl⟩⟩
  · intro i nd hnd _
    exact hlist false i nd hnd
  · intro i nd hnd _
    exact hlist true i nd hnd
  · intro i nd hnd
    obtain ⟨n, _, rfl⟩ := gE_map_some (f := unNG) hnd
    rfl
  · intro e s hs
    obtain ⟨ed, _, rfl⟩ := gE_map_some (f := unEG) hs
    rfl

/-! ### loaded graphs: descending lists -/

theorem idxDesc_pairwise {α} (p : α → Bool) (l : List α) (n : Nat) : (idxDesc p l n).Pairwise (· > ·) := by
  induction n with
  | zero => simp [idxDesc]
  | succ n ih =>
    unfold idxDesc
    split
    · exact List.pairwise_cons.2 ⟨fun x hx => idxDesc_lt p l n x hx, ih⟩
    · exact ih

theorem Chain.head_cases {edges : List EdgeSlot} {END k h : Nat} {l : List Nat} (c : Chain edges END k h l) :
    (h = END ∧ l = []) ∨ ∃ l', l = h :: l' := by
  cases c with
  | nil => exact Or.inl ⟨rfl, rfl⟩
  | cons e s l _ _ => exact Or.inr ⟨l, rfl⟩

theorem Chain.desc {edges : List EdgeSlot} {END k h : Nat} {l : List Nat} (c : Chain edges END k h l)
    (hp : l.Pairwise (· > ·)) : ∀ e, e ∈ l → ∀ s, edges[e]? = some s → s.next k = END ∨ s.next k < e := by
  induction c with
  | nil => intro e he; simp at he
  | cons e s l hs hc ih =>
    obtain ⟨h1, h2⟩ := List.pairwise_cons.1 hp
    intro e' he' s' hs'
    rcases List.mem_cons.1 he' with rfl | hmem
    · rw [hs] at hs'; cases hs'
      rcases hc.head_cases with ⟨h3, _⟩ | ⟨l', rfl⟩
      · exact Or.inl h3
      · exact Or.inr (h1 _ List.mem_cons_self)
    · exact ih h2 e' hmem s' hs'

theorem desc_embedGraph {END : Nat} {directed : Bool} {g : Raw} (D : GraphDe END directed g) :
    GProofs.Desc (embedGraph g) := by
  intro e ed hed k
  obtain ⟨s, hs, rfl⟩ := gE_map_some (f := embEG) hed
  have hw := D.allEdges e s hs
  obtain ⟨⟨a, ha, hal⟩, ⟨b, hb, hbl⟩⟩ := D.linked.endpoints e s hs hw
  rw [embEG_next]
  show s.next (kN k) = g.END ∨ s.next (kN k) < e
  rw [D.hEND]
  cases k
  · have hc := (D.linked.heads s.src a ha hal).1
    have hmem : e ∈ incident g.edges 0 s.src := ((exact_incident g.edges s.src).1.2 e).2 ⟨s, hs, hw, rfl⟩
    exact hc.desc (idxDesc_pairwise _ _ _) e hmem s hs
  · have hc := (D.linked.heads s.tgt b hb hbl).2
    have hmem : e ∈ incident g.edges 1 s.tgt := ((exact_incident g.edges s.tgt).2.2 e).2 ⟨s, hs, hw, rfl⟩
    exact hc.desc (idxDesc_pairwise _ _ _) e hmem s hs

/-- every loaded `Graph`, embedded into the C01 model, satisfies `Inv1` (invariant + descending lists) and hence the
refinement invariant of C01 with "stamp = index" -/
theorem deGraph_inv1 {END : Nat} {directed : Bool} {order : List Field} {w : Wire} {g : Raw}
    (h : deGraph END directed order w = .ok g) : GProofs.Inv1 (embedGraph g) :=
  ⟨inv_embedGraph g (deGraph_de h).inv, desc_embedGraph (deGraph_de h)⟩

theorem deGraph_rinv {END : Nat} {directed : Bool} {order : List Field} {w : Wire} {g : Raw}
    (h : deGraph END directed order w = .ok g) : GProofs.RInv (embedGraph g) id (embedGraph g).edges.length :=
  GProofs.rinv_of_inv1 (deGraph_inv1 h)

/-- no answer of a specification run is a fault -/
theorem specRun2_no_fault {sp sp' : CGS.Spec} {ops : List G.Op} {os : List G.Out}
    (h : GProofs.SpecRun2 sp ops os sp') : ∀ o, o ∈ os → ∀ f, o ≠ .fault f := by
  induction h with
  | nil sp => intro o ho; simp at ho
  | cons hacc _ ih =>
    intro o ho f hf
    rcases List.mem_cons.1 ho with rfl | ho'
    · rw [hf] at hacc; exact GProofs.specAccepts2_no_fault hacc
    · exact ih o ho' f hf

/-! ### `GraphInv` alone does not give the refinement invariant -/

/-- two parallel edges listed in opposite orders at the two endpoints -/
def crossed : Raw :=
  { END := 7, directed := true,
    nodes := [{ w := some 0, n0 := 0, n1 := 7 }, { w := some 0, n0 := 7, n1 := 1 }],
    edges := [{ w := some 0, n0 := 1, n1 := 7, src := 0, tgt := 1 }, { w := some 0, n0 := 7, n1 := 0, src := 0, tgt := 1 }] }

theorem crossed_inv : GraphInv crossed := by
  have hlt : ∀ {e : Nat} {s : EdgeSlot}, crossed.edges[e]? = some s → e = 0 ∨ e = 1 := by
    intro e s hs
    have : e < 2 := (List.getElem?_eq_some_iff.1 hs).1
    omega
  have hnl : ∀ {i : Nat} {nd : NodeSlot}, crossed.nodes[i]? = some nd → i = 0 ∨ i = 1 := by
    intro i nd hs
    have : i < 2 := (List.getElem?_eq_some_iff.1 hs).1
    omega
  have c01 : Chain crossed.edges 7 0 0 [0, 1] := .cons 0 _ _ rfl (.cons 1 _ _ rfl .nil)
  have c10 : Chain crossed.edges 7 1 1 [1, 0] := .cons 1 _ _ rfl (.cons 0 _ _ rfl .nil)
  refine { lenN := by decide, lenE := by decide, endpoints := ?_, out := ?_, inn := ?_, allNodes := ?_, allEdges := ?_ }
  · intro e s hs _
    rcases hlt hs with rfl | rfl <;> (simp [crossed] at hs; subst hs; exact ⟨⟨_, rfl, rfl⟩, ⟨_, rfl, rfl⟩⟩)
  · intro i nd hi _
    rcases hnl hi with rfl | rfl
    · simp [crossed] at hi; subst hi
      refine ⟨[0, 1], c01, by decide, fun e => ⟨fun he => ?_, fun ⟨s, hs, _⟩ => ?_⟩⟩
      · simp at he
        rcases he with rfl | rfl
        · exact ⟨_, rfl, rfl, rfl⟩
        · exact ⟨_, rfl, rfl, rfl⟩
      · rcases hlt hs with rfl | rfl <;> simp
    · simp [crossed] at hi; subst hi
      refine ⟨[], .nil, by decide, fun e => ⟨fun he => by simp at he, fun ⟨s, hs, _, h3⟩ => ?_⟩⟩
      rcases hlt hs with rfl | rfl <;> (simp [crossed] at hs; subst hs; simp at h3)
  · intro i nd hi _
    rcases hnl hi with rfl | rfl
    · simp [crossed] at hi; subst hi
      refine ⟨[], .nil, by decide, fun e => ⟨fun he => by simp at he, fun ⟨s, hs, _, h3⟩ => ?_⟩⟩
      rcases hlt hs with rfl | rfl <;> (simp [crossed] at hs; subst hs; simp at h3)
    · simp [crossed] at hi; subst hi
      refine ⟨[1, 0], c10, by decide, fun e => ⟨fun he => ?_, fun ⟨s, hs, _⟩ => ?_⟩⟩
      · simp at he
        rcases he with rfl | rfl
        · exact ⟨_, rfl, rfl, rfl⟩
        · exact ⟨_, rfl, rfl, rfl⟩
      · rcases hlt hs with rfl | rfl <;> simp
  · intro i nd hi
    rcases hnl hi with rfl | rfl <;> (simp [crossed] at hi; subst hi; rfl)
  · intro e s hs
    rcases hlt hs with rfl | rfl <;> (simp [crossed] at hs; subst hs; rfl)

theorem crossed_no_rinv (st : Nat → Nat) (ck : Nat) : ¬ GProofs.RInv (embedGraph crossed) st ck := by
  intro h
  have h1 := h.sd 0 (embEG { w := some 0, n0 := 1, n1 := 7, src := 0, tgt := 1 }) false rfl (by decide)
  have h2 := h.sd 1 (embEG { w := some 0, n0 := 7, n1 := 0, src := 0, tgt := 1 }) true rfl (by decide)
  simp only [embEG, G.Edge.next] at h1 h2
  simp at h1 h2
  omega

end PetgraphModel.SerdeProofs
