import PetgraphModel.Proofs.C13W4Check
/-
C13, wave 4 — relabeling the concrete indices changes neither `node_count()` nor `edge_count()`, hence not the
early size tests of the wrappers: whether `subgraph_isomorphisms_iter` returns `None` is relabeling-invariant
(together with `iterModelF_relabel`: the SET of yielded mappings is).
-/
namespace PetgraphModel.C13.Vf2
open PetgraphModel PetgraphModel.C13

/-- the instance "is `g` isomorphic to `h`" of the plain functions -/
def pairInst (g h : CG) : Inst :=
  { g0 := g, g1 := h, nm := fun _ _ => true, em := fun _ _ => true, semantic := false }

/-- a concrete graph `g'` whose abstract graph is `g` relabeled by an injective `σ` has the same number of
nodes and (its `edge_count()` describing its neighbour lists) the same number of edges -/
theorem counts_eq_of_relabel {g g' : CG} (ok : CGOk g) (ok' : CGOk g') (e : ECountOk g) (e' : ECountOk g')
    {σ τ : Nat → Nat} (hl : ∀ a, a < g.n → τ (σ a) = a) (hdir : g'.directed = g.directed)
    (hn : ∀ a', a' ∈ g'.toMGraph.nodes ↔ a' ∈ (C13.relabel σ g.toMGraph).nodes)
    (he : ∀ x, x ∈ g'.toMGraph.edges ↔ x ∈ (C13.relabel σ g.toMGraph).edges) :
    g'.n = g.n ∧ g'.ecount = g.ecount := by
  have hnodes : ∀ a', a' < g'.n ↔ ∃ a, a < g.n ∧ σ a = a' := by
    intro a'
    have := hn a'
    simpa [CG.toMGraph, C13.relabel] using this
  have inj : ∀ a, a < g.n → ∀ b, b < g.n → σ a = σ b → a = b := by
    intro a ha b hb hab
    rw [← hl a ha, ← hl b hb, hab]
  have hneq : g'.n = g.n := by
    have nd : ((List.range g.n).map σ).Nodup := by
      refine List.Nodup.map_on ?_ List.nodup_range
      intro a ha b hb hab
      exact inj a (List.mem_range.mp ha) b (List.mem_range.mp hb) hab
    have pm : (List.range g'.n).Perm ((List.range g.n).map σ) := by
      rw [List.perm_ext_iff_of_nodup List.nodup_range nd]
      intro a'
      rw [List.mem_range, hnodes a']
      simp [List.mem_map]
    simpa using pm.length_eq
  refine ⟨hneq, ?_⟩
  have wf := toMGraph_wf ok
  have injN : ∀ a ∈ g.toMGraph.nodes, ∀ b ∈ g.toMGraph.nodes, σ a = σ b → a = b := by
    intro a ha b hb
    exact inj a (by simpa [CG.toMGraph] using ha) b (by simpa [CG.toMGraph] using hb)
  have emb : Embeds (pairInst g g').problem σ := by
    refine ⟨?_, ?_, ?_, ?_, ?_⟩
    · intro a ha
      have ha : a < g.n := by simpa [pairInst, Inst.problem, CG.toMGraph] using ha
      have : σ a < g'.n := (hnodes _).mpr ⟨a, ha, rfl⟩
      simpa [pairInst, Inst.problem, CG.toMGraph] using this
    · intro a ha b hb
      exact injN a ha b hb
    · intro a ha b hb
      show g.toMGraph.Adj a b ↔ g'.toMGraph.Adj (σ a) (σ b)
      have hr := adj_relabel (σ := σ) wf injN (a := a) (b := b) ha hb
      rw [← hr]
      have dirEq : (C13.relabel σ g.toMGraph).directed = g'.toMGraph.directed := by
        show g.directed = g'.directed
        exact hdir.symm
      constructor
      · exact adj_of_same dirEq (fun x => (he x).symm)
      · exact adj_of_same dirEq.symm he
    · intro a _; rfl
    · intro _ _ _ _ _; rfl
  have fin := Final.of_embeds (I := pairInst g g') ok ok' emb
  have := Final.ecount_eq (I := pairInst g g') ok ok' hdir.symm e e' fin hneq.symm
  exact this.symm

namespace Relabeled
variable {I I' : Inst} {σ0 τ0 σ1 τ1 : Nat → Nat}

/-- relabeling keeps `node_count()` and `edge_count()` of both arguments -/
theorem counts_eq (r : Relabeled I I' σ0 τ0 σ1 τ1) (ok : InstOk I) (ok' : InstOk I') :
    I'.g0.n = I.g0.n ∧ I'.g0.ecount = I.g0.ecount ∧ I'.g1.n = I.g1.n ∧ I'.g1.ecount = I.g1.ecount := by
  have a := counts_eq_of_relabel (cgOkB_sound ok.h0) (cgOkB_sound ok'.h0) ok.e0 ok'.e0 r.hl0 r.same.dir0
    r.same.nodes0 r.same.edges0
  have b := counts_eq_of_relabel (cgOkB_sound ok.h1) (cgOkB_sound ok'.h1) ok.e1 ok'.e1 r.hl1 r.same.dir1
    r.same.nodes1 r.same.edges1
  exact ⟨a.1, a.2, b.1, b.2⟩

/-- the early size tests of the wrappers give the same result on an instance and a relabeled copy, so
`subgraph_isomorphisms_iter` returns `None` on both or on neither (any fuels) -/
theorem iterModelF_none_iff (r : Relabeled I I' σ0 τ0 σ1 τ1) (ok : InstOk I) (ok' : InstOk I') (fuel fuel' : Nat) :
    iterModelF I' fuel' = none ↔ iterModelF I fuel = none := by
  obtain ⟨a, b, c, d⟩ := r.counts_eq ok ok'
  unfold iterModelF
  rw [a, b, c, d]
  by_cases hc : (decide (I.g0.n > I.g1.n) || decide (I.g0.ecount > I.g1.ecount)) = true
  · rw [if_pos hc, if_pos hc]
  · rw [if_neg hc, if_neg hc]
    simp

end Relabeled

end PetgraphModel.C13.Vf2
