import PetgraphModel.Oracle.Reach
/-
Totality of the reachability oracle: `reachFrom` / `reachB` never run out of fuel, hence `reachB`
*decides* `MGraph.Reach`.  Core Lean only.

Potential-function argument.  `arcW d disc es` counts the arcs of the edge list `es` whose source is
not yet discovered (an edge contributes the arc `src → tgt`, and when the graph is undirected and
the edge is not a self-loop also `tgt → src`; this matches exactly how `MGraph.succ` counts).
`Φ st disc = st.length + arcW disc` drops by exactly one in each iteration of `reachLoop`.
-/
namespace PetgraphModel
namespace Oracle
open MGraph

/-- number of arcs (as counted by `MGraph.succ`) whose source is not in `disc` -/
def arcW (d : Bool) (disc : List Nat) : List Edge → Nat
  | [] => 0
  | e :: es =>
      (if e.src ∈ disc then 0 else 1)
        + (if d = false ∧ e.tgt ≠ e.src ∧ e.tgt ∉ disc then 1 else 0)
        + arcW d disc es

theorem arcW_le (d : Bool) (disc : List Nat) (es : List Edge) : arcW d disc es ≤ 2 * es.length := by
  induction es with
  | nil => simp [arcW]
  | cons e es ih =>
    simp only [arcW, List.length_cons]
    split <;> split <;> omega

/-- discovering a fresh node `x` removes exactly its `succ`-arcs from the count -/
theorem arcW_discover (d : Bool) (x : Nat) (disc : List Nat) (hx : x ∉ disc) (es : List Edge) :
    (es.filterMap fun e =>
        if e.src = x then some e.tgt
        else if d = false ∧ e.tgt = x then some e.src
        else none).length + arcW d (x :: disc) es = arcW d disc es := by
  induction es with
  | nil => simp [arcW]
  | cons e es ih =>
    simp only [arcW]
    by_cases h1 : e.src = x
    · -- the arc `src → tgt` leaves the count; a possible reverse arc has source `tgt ≠ x`
      have hsd : e.src ∉ disc := h1 ▸ hx
      have hmem : e.src ∈ x :: disc := by simp [h1]
      have h2 : (e.tgt ≠ e.src ∧ e.tgt ∉ x :: disc) ↔ (e.tgt ≠ e.src ∧ e.tgt ∉ disc) := by
        constructor
        · rintro ⟨a, b⟩; exact ⟨a, fun hb => b (List.mem_cons_of_mem _ hb)⟩
        · rintro ⟨a, b⟩
          refine ⟨a, fun hb => ?_⟩
          cases List.mem_cons.mp hb with
          | inl h => exact a (h.trans h1.symm)
          | inr h => exact b h
      rw [List.filterMap_cons_some (b := e.tgt) (by rw [if_pos h1]), List.length_cons]
      rw [h1] at hsd hmem h2
      simp only [h1]
      simp only [hsd, hmem, if_true, if_false]
      by_cases hd : d = false
      · by_cases hc : e.tgt ≠ x ∧ e.tgt ∉ disc
        · have hc' := h2.mpr hc
          rw [if_pos ⟨hd, hc'.1, hc'.2⟩, if_pos ⟨hd, hc.1, hc.2⟩]; omega
        · have hc' : ¬ (e.tgt ≠ x ∧ e.tgt ∉ x :: disc) := fun h => hc (h2.mp h)
          rw [if_neg (fun h => hc' ⟨h.2.1, h.2.2⟩), if_neg (fun h => hc ⟨h.2.1, h.2.2⟩)]; omega
      · rw [if_neg (fun h => hd h.1), if_neg (fun h => hd h.1)]; omega
    · have hm1 : e.src ∈ x :: disc ↔ e.src ∈ disc := by
        constructor
        · intro h
          cases List.mem_cons.mp h with
          | inl h => exact absurd h h1
          | inr h => exact h
        · exact List.mem_cons_of_mem _
      have hfirst : (if e.src ∈ x :: disc then 0 else 1) = (if e.src ∈ disc then 0 else 1) := by
        by_cases hs : e.src ∈ disc
        · rw [if_pos (hm1.mpr hs), if_pos hs]
        · rw [if_neg (fun h => hs (hm1.mp h)), if_neg hs]
      rw [hfirst]
      by_cases h2 : d = false ∧ e.tgt = x
      · -- the reverse arc `tgt → src` (source `x`) leaves the count
        have htx : e.tgt = x := h2.2
        have hne : e.tgt ≠ e.src := fun h => h1 (h.symm.trans htx)
        have htd : e.tgt ∉ disc := htx ▸ hx
        have hA : (if d = false ∧ e.tgt ≠ e.src ∧ e.tgt ∉ x :: disc then 1 else 0) = 0 :=
          if_neg (fun h => h.2.2 (by rw [htx]; exact List.mem_cons_self ..))
        have hB : (if d = false ∧ e.tgt ≠ e.src ∧ e.tgt ∉ disc then 1 else 0) = 1 :=
          if_pos ⟨h2.1, hne, htd⟩
        rw [List.filterMap_cons_some (b := e.src) (by rw [if_neg h1, if_pos h2]), List.length_cons,
          hA, hB]
        omega
      · rw [List.filterMap_cons_none (by rw [if_neg h1, if_neg h2])]
        have hsecond :
            (if d = false ∧ e.tgt ≠ e.src ∧ e.tgt ∉ x :: disc then 1 else 0)
              = (if d = false ∧ e.tgt ≠ e.src ∧ e.tgt ∉ disc then 1 else 0) := by
          by_cases hc : d = false ∧ e.tgt ≠ e.src ∧ e.tgt ∉ disc
          · have : d = false ∧ e.tgt ≠ e.src ∧ e.tgt ∉ x :: disc := by
              refine ⟨hc.1, hc.2.1, fun hb => ?_⟩
              cases List.mem_cons.mp hb with
              | inl h => exact h2 ⟨hc.1, h⟩
              | inr h => exact hc.2.2 h
            rw [if_pos this, if_pos hc]
          · have : ¬ (d = false ∧ e.tgt ≠ e.src ∧ e.tgt ∉ x :: disc) := fun h =>
              hc ⟨h.1, h.2.1, fun hb => h.2.2 (List.mem_cons_of_mem _ hb)⟩
            rw [if_neg this, if_neg hc]
        rw [hsecond]
        omega

theorem succ_length_add_arcW (g : MGraph) (x : Nat) (disc : List Nat) (hx : x ∉ disc) :
    (g.succ x).length + arcW g.directed (x :: disc) g.edges = arcW g.directed disc g.edges := by
  unfold MGraph.succ
  exact arcW_discover g.directed x disc hx g.edges

/-- enough fuel (more than the potential) always suffices -/
theorem reachLoop_total (g : MGraph) :
    ∀ (f : Nat) (st disc : List Nat), st.length + arcW g.directed disc g.edges < f →
      ∃ r, reachLoop g f st disc = some r := by
  intro f
  induction f with
  | zero => intro st disc h; omega
  | succ f ih =>
    intro st disc h
    cases st with
    | nil => exact ⟨disc, by simp [reachLoop]⟩
    | cons x st =>
      simp only [reachLoop]
      by_cases hx : x ∈ disc
      · rw [if_pos hx]
        apply ih
        simp only [List.length_cons] at h
        omega
      · rw [if_neg hx]
        apply ih
        have := succ_length_add_arcW g x disc hx
        simp only [List.length_cons] at h
        simp only [List.length_append]
        omega

theorem reachFrom_total (g : MGraph) (s : Nat) : ∃ r, reachFrom g s = some r := by
  unfold reachFrom
  apply reachLoop_total
  have := arcW_le g.directed [] g.edges
  simp only [fuelFor, List.length_cons, List.length_nil]
  omega

theorem reachB_total (g : MGraph) (a b : Nat) : ∃ r, reachB g a b = some r := by
  obtain ⟨l, hl⟩ := reachFrom_total g a
  exact ⟨l.contains b, by simp [reachB, hl]⟩

/-- hence the oracle decides reachability -/
theorem reachB_iff (g : MGraph) (a b : Nat) : reachB g a b = some true ↔ MGraph.Reach g a b := by
  constructor
  · intro h; exact (reachB_spec g a b true h).mp rfl
  · intro h
    obtain ⟨r, hr⟩ := reachB_total g a b
    have := (reachB_spec g a b r hr).mpr h
    rw [hr, this]

theorem reachB_false_iff (g : MGraph) (a b : Nat) :
    reachB g a b = some false ↔ ¬ MGraph.Reach g a b := by
  constructor
  · intro h hr
    have := (reachB_spec g a b false h).mpr hr
    cases this
  · intro h
    obtain ⟨r, hr⟩ := reachB_total g a b
    cases r with
    | false => exact hr
    | true => exact absurd ((reachB_spec g a b true hr).mp rfl) h

end Oracle
end PetgraphModel
