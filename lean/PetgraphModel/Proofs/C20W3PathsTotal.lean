import PetgraphModel.Proofs.C20W2Paths
/-
C20 (wave 3) — the mirrored `all_simple_paths` iterator is TOTAL: an explicit amount of fuel suffices
for the run to exhaustion (for every `from`, `to`, bounds).
-/
namespace PetgraphModel.C20.Paths
open PetgraphModel PetgraphModel.MGraph

/-- steps spent on one child while `m` nodes are still unvisited; `E` bounds every out-degree -/
def stepsW (E : Nat) : Nat → Nat
  | 0 => 1
  | m+1 => 2 + E * stepsW E m

/-- fuel that always suffices -/
def fuelBound (g : MGraph) : Nat := g.edges.length * stepsW g.edges.length (g.nodes.length - 1) + 2

theorem stepsW_pos (E m : Nat) : 1 ≤ stepsW E m := by
  cases m with
  | zero => simp [stepsW]
  | succ m => simp only [stepsW]; omega

theorem succ_length_le (g : MGraph) (x : Nat) : (g.succ x).length ≤ g.edges.length := by
  unfold MGraph.succ
  exact List.length_filterMap_le _ _

/-- the termination measure: a level at depth `d` (its owner is the `d`-th visited node) with `k`
remaining children weighs `k * stepsW E (n - d) + 1` -/
def mu (n E : Nat) : List (List Nat) → Nat
  | [] => 0
  | cs :: rest => cs.length * stepsW E (n - (rest.length + 1)) + 1 + mu n E rest

/-- the part of the state invariant needed for termination -/
structure TInv (g : MGraph) (st : St) : Prop where
  nodup : st.rvis.Nodup
  sub : ∀ x ∈ st.rvis, x ∈ g.nodes
  len : st.stack.length = st.rvis.length
  ch : ∀ cs ∈ st.stack, ∀ c ∈ cs, c ∈ g.nodes

theorem tinv_pop {g : MGraph} {rvis cs : List Nat} {rest : List (List Nat)}
    (h : TInv g { rvis := rvis, stack := cs :: rest }) : TInv g { rvis := rvis.tail, stack := rest } := by
  obtain ⟨h1, h2, h3, h4⟩ := h
  simp only at h1 h2 h3 h4
  cases rvis with
  | nil => simp at h3
  | cons v t =>
    refine ⟨(List.nodup_cons.mp h1).2, fun x hx => h2 x (List.mem_cons_of_mem _ hx), ?_,
      fun l hl => h4 l (List.mem_cons_of_mem _ hl)⟩
    simpa using h3

theorem tinv_shrink {g : MGraph} {rvis cs cs' : List Nat} {rest : List (List Nat)}
    (h : TInv g { rvis := rvis, stack := cs :: rest }) (hsub : ∀ c ∈ cs', c ∈ cs) :
    TInv g { rvis := rvis, stack := cs' :: rest } := by
  obtain ⟨h1, h2, h3, h4⟩ := h
  simp only at h1 h2 h3 h4
  refine ⟨h1, h2, by simpa using h3, ?_⟩
  intro l hl c hc
  cases List.mem_cons.mp hl with
  | inl e => subst e; exact h4 _ (List.mem_cons_self) c (hsub c hc)
  | inr e => exact h4 l (List.mem_cons_of_mem _ e) c hc

theorem tinv_descend {g : MGraph} (hg : EndpointsOk g) {rvis cs : List Nat} {child : Nat} {rest : List (List Nat)}
    (h : TInv g { rvis := rvis, stack := (child :: cs) :: rest }) (hnew : child ∉ rvis) :
    TInv g { rvis := child :: rvis, stack := g.succ child :: cs :: rest } ∧ rvis.length + 1 ≤ g.nodes.length := by
  obtain ⟨h1, h2, h3, h4⟩ := h
  simp only at h1 h2 h3 h4
  have hc : child ∈ g.nodes := h4 _ List.mem_cons_self child List.mem_cons_self
  have hnd : (child :: rvis).Nodup := List.nodup_cons.mpr ⟨hnew, h1⟩
  have hsub : ∀ x ∈ child :: rvis, x ∈ g.nodes := by
    intro x hx
    cases List.mem_cons.mp hx with
    | inl e => exact e ▸ hc
    | inr e => exact h2 x e
  refine ⟨⟨hnd, hsub, by simpa using h3, ?_⟩, ?_⟩
  · intro l hl c hcl
    cases List.mem_cons.mp hl with
    | inl e => subst e; exact (adj_nodes hg (MGraph.mem_succ.mp hcl)).2
    | inr e =>
      cases List.mem_cons.mp e with
      | inl e' => subst e'; exact h4 _ List.mem_cons_self c (List.mem_cons_of_mem _ hcl)
      | inr e' => exact h4 l (List.mem_cons_of_mem _ e') c hcl
  · have := List.Nodup.length_le_of_subset hnd (fun x hx => hsub x hx)
    simpa using this

theorem mu_shrink (n E : Nat) {cs cs' : List Nat} (rest : List (List Nat)) (h : cs'.length < cs.length) :
    mu n E (cs' :: rest) < mu n E (cs :: rest) := by
  simp only [mu]
  have hw := stepsW_pos E (n - (rest.length + 1))
  have : (cs'.length + 1) * stepsW E (n - (rest.length + 1)) ≤ cs.length * stepsW E (n - (rest.length + 1)) :=
    Nat.mul_le_mul_right _ h
  rw [Nat.add_mul] at this
  omega

theorem mu_pop (n E : Nat) (cs : List Nat) (rest : List (List Nat)) : mu n E rest < mu n E (cs :: rest) := by
  simp only [mu]; omega

theorem mu_descend (n E : Nat) {sc cs : List Nat} (child : Nat) (rest : List (List Nat)) (hsc : sc.length ≤ E)
    (hd : rest.length + 1 + 1 ≤ n) :
    mu n E (sc :: cs :: rest) < mu n E ((child :: cs) :: rest) := by
  simp only [mu, List.length_cons]
  obtain ⟨m, hm⟩ : ∃ m, n - (rest.length + 1) = m + 1 := ⟨n - (rest.length + 1) - 1, by omega⟩
  have hm' : n - (rest.length + 1 + 1) = m := by omega
  rw [hm, hm', Nat.add_mul]
  simp only [stepsW]
  have : sc.length * stepsW E m ≤ E * stepsW E m := Nat.mul_le_mul_right _ hsc
  omega

theorem length_dropWhile_tail_le (p : Nat → Bool) (cs : List Nat) : (cs.dropWhile p).tail.length ≤ cs.length := by
  have := (List.dropWhile_sublist p (l := cs)).length_le
  simp only [List.length_tail]
  omega

/-- one call of `next` with more fuel than the measure returns; a yield strictly decreases the measure -/
theorem next_total (g : MGraph) (hg : EndpointsOk g) (to minLen maxLen : Nat) :
    ∀ (f : Nat) (st : St), TInv g st → mu g.nodes.length g.edges.length st.stack < f →
      ∃ r st', next g.succ to minLen maxLen f st = some (r, st') ∧
        (r.isSome → TInv g st' ∧ mu g.nodes.length g.edges.length st'.stack < mu g.nodes.length g.edges.length st.stack) := by
  intro f
  induction f with
  | zero => intro st _ h; omega
  | succ f ih =>
    intro st hinv hmu
    obtain ⟨rvis, stack⟩ := st
    simp only at hmu
    -- a recursive call on a state of smaller measure
    have recur : ∀ st1 : St, TInv g st1 →
        mu g.nodes.length g.edges.length st1.stack < mu g.nodes.length g.edges.length stack →
        ∃ r st', next g.succ to minLen maxLen f st1 = some (r, st') ∧
          (r.isSome → TInv g st' ∧ mu g.nodes.length g.edges.length st'.stack < mu g.nodes.length g.edges.length stack) := by
      intro st1 h1 hlt
      obtain ⟨r, st', he, hr⟩ := ih st1 h1 (by omega)
      exact ⟨r, st', he, fun hs => ⟨(hr hs).1, Nat.lt_trans (hr hs).2 hlt⟩⟩
    unfold next
    simp only
    split
    · exact ⟨none, _, rfl, by simp⟩
    · rename_i rest
      exact recur _ (tinv_pop hinv) (mu_pop _ _ _ _)
    · rename_i child cs rest
      have hshrink : TInv g { rvis := rvis, stack := cs :: rest } :=
        tinv_shrink hinv (fun c hc => List.mem_cons_of_mem _ hc)
      have hmus : mu g.nodes.length g.edges.length (cs :: rest) <
          mu g.nodes.length g.edges.length ((child :: cs) :: rest) := mu_shrink _ _ _ (by simp)
      split
      · split
        · split
          · exact ⟨_, _, rfl, fun _ => ⟨hshrink, hmus⟩⟩
          · exact recur _ hshrink hmus
        · split
          · rename_i hnew
            have hnew' : child ∉ rvis := by simpa using hnew
            have hd := tinv_descend hg hinv hnew'
            have hlen : rest.length + 1 = rvis.length := by simpa using hinv.len
            exact recur _ hd.1 (mu_descend _ _ child rest (succ_length_le g child) (by omega))
          · exact recur _ hshrink hmus
      · split
        · refine ⟨_, _, rfl, fun _ => ⟨tinv_shrink hinv ?_, mu_shrink _ _ _ ?_⟩⟩
          · intro c hc
            split at hc
            · exact List.mem_cons_of_mem _ hc
            · exact List.mem_cons_of_mem _ ((List.dropWhile_sublist _).subset (List.mem_of_mem_tail hc))
          · split
            · simp
            · have := length_dropWhile_tail_le (· != to) cs
              simp only [List.length_cons]; omega
        · exact recur _ (tinv_pop hinv) (mu_pop _ _ _ _)

theorem collect_total (g : MGraph) (hg : EndpointsOk g) (to minLen maxLen fuel : Nat) :
    ∀ (k : Nat) (st : St) (acc : List (List Nat)), TInv g st →
      mu g.nodes.length g.edges.length st.stack < k → mu g.nodes.length g.edges.length st.stack < fuel →
      (collect g.succ to minLen maxLen fuel k st acc).isSome := by
  intro k
  induction k with
  | zero => intro st acc _ h; omega
  | succ k ih =>
    intro st acc hinv hk hfuel
    obtain ⟨r, st', he, hr⟩ := next_total g hg to minLen maxLen fuel st hinv hfuel
    simp only [collect, he]
    cases r with
    | none => simp
    | some p =>
      have := hr (by simp)
      exact ih st' (p :: acc) this.1 (by omega) (by omega)

/-- totality, general form: `g.nodes.Nodup` is not needed and `count` (only used for the default
`max_length`) is arbitrary -/
theorem allSimplePaths_total_gen (g : MGraph) (hg : EndpointsOk g) (count a b lo : Nat)
    (hi : Option Nat) (ha : a ∈ g.nodes) (fuel : Nat) (hf : fuelBound g ≤ fuel) :
    (allSimplePaths g.succ count a b lo hi fuel).isSome := by
  unfold allSimplePaths
  have hmu : mu g.nodes.length g.edges.length [g.succ a] < fuel := by
    simp only [mu, List.length_nil]
    have : (g.succ a).length * stepsW g.edges.length (g.nodes.length - (0 + 1)) ≤
        g.edges.length * stepsW g.edges.length (g.nodes.length - (0 + 1)) :=
      Nat.mul_le_mul_right _ (succ_length_le g a)
    unfold fuelBound at hf
    simp only [Nat.zero_add] at this ⊢
    omega
  apply collect_total g hg _ _ _ fuel fuel _ [] _ hmu hmu
  refine ⟨by simp, by simpa using ha, by simp, ?_⟩
  intro l hl c hc
  simp only [List.mem_singleton] at hl
  subst hl
  exact (adj_nodes hg (MGraph.mem_succ.mp hc)).2

/-- **totality of the mirrored iterator**: with `fuelBound g` fuel the run to exhaustion never runs out -/
theorem allSimplePaths_total (g : MGraph) (hg : EndpointsOk g) (hnd : g.nodes.Nodup) (a b lo : Nat)
    (hi : Option Nat) (ha : a ∈ g.nodes) (fuel : Nat) (hf : fuelBound g ≤ fuel) :
    (allSimplePaths g.succ g.nodes.length a b lo hi fuel).isSome :=
  have _ := hnd
  allSimplePaths_total_gen g hg g.nodes.length a b lo hi ha fuel hf

end PetgraphModel.C20.Paths
