import PetgraphModel.Theorems.C20
import PetgraphModel.Proofs.C07W5Same
/-
C07, wave 5 — maximal_cliques and page_rank across presentations of the same abstract graph.

* `IsMaxClique` depends only on the node SET, the adjacency relation and the member SET of the clique; the
  Bron–Kerbosch model's answers on two presentations are therefore the same family of sets, each once.
* the PageRank model over exact rationals depends on the node list only up to rearrangement.
-/
namespace PetgraphModel.C07W5
open PetgraphModel PetgraphModel.MGraph PetgraphModel.C07W2 PetgraphModel.C20

/-! ### maximal cliques -/

theorem mem_canon {g : MGraph} {c : List Nat} {x : Nat} : x ∈ canon g c ↔ x ∈ g.nodes ∧ x ∈ c := by
  simp [canon]

theorem canon_sublist (g : MGraph) (c : List Nat) : (canon g c).Sublist g.nodes := List.filter_sublist

/-- being a maximal clique depends only on the node set, the adjacency relation and the member set -/
theorem isMaxClique_congr {g1 g2 : MGraph} (hn : SameNodes g1 g2) (ha : SameAdj g1 g2) {S1 S2 : List Nat}
    (hS : ∀ x, x ∈ S1 ↔ x ∈ S2) : IsMaxClique g1 S1 ↔ IsMaxClique g2 S2 := by
  have key : ∀ {g1 g2 : MGraph} {S1 S2 : List Nat}, SameNodes g1 g2 → SameAdj g1 g2 → (∀ x, x ∈ S1 ↔ x ∈ S2) →
      IsMaxClique g1 S1 → IsMaxClique g2 S2 := by
    intro g1 g2 S1 S2 hn ha hS ⟨h1, h2, h3⟩
    refine ⟨fun a ha' => (hn a).mp (h1 a ((hS a).mpr ha')), ?_, ?_⟩
    · intro a ha' b hb hab
      exact (ha a b).mp (h2 a ((hS a).mpr ha') b ((hS b).mpr hb) hab)
    · intro v hv hnot
      obtain ⟨a, haS, hna⟩ := h3 v ((hn v).mpr hv) (fun h => hnot ((hS v).mp h))
      exact ⟨a, (hS a).mp haS, fun h => hna ((ha v a).mpr h)⟩
  exact ⟨key hn ha hS, key (fun x => (hn x).symm) (fun a b => (ha a b).symm) (fun x => (hS x).symm)⟩

theorem canon_eq_of_mem {g : MGraph} {c c' : List Nat} (h : ∀ x ∈ g.nodes, (x ∈ c ↔ x ∈ c')) :
    canon g c = canon g c' := by
  unfold canon
  apply List.filter_congr
  intro x hx
  have := h x hx
  simp only [List.contains_eq_mem, this]

theorem mem_of_canon_eq {g : MGraph} {c c' : List Nat} (h : canon g c = canon g c') :
    ∀ x ∈ g.nodes, (x ∈ c ↔ x ∈ c') := by
  intro x hx
  have h1 : x ∈ canon g c ↔ x ∈ canon g c' := by rw [h]
  rw [mem_canon, mem_canon] at h1
  exact ⟨fun hc => (h1.mp ⟨hx, hc⟩).2, fun hc => (h1.mpr ⟨hx, hc⟩).2⟩

/-- transfer of canonical forms between two node lists with the same members -/
theorem canon_transfer {g1 g2 : MGraph} (hn : SameNodes g1 g2) {c c' : List Nat}
    (h : canon g1 c = canon g1 c') : canon g2 c = canon g2 c' :=
  canon_eq_of_mem fun x hx => mem_of_canon_eq h x ((hn x).mpr hx)

/-- **the family of maximal cliques does not depend on the presentation**: two lists of cliques, each of which is
"exactly the maximal cliques, each once" for its own graph (the conclusion of `C20_cliques_model_exact`), over two
presentations of the same graph, are — written in the second graph's node order — rearrangements of each other. -/
theorem cliques_families_perm {g1 g2 : MGraph} (hn : SameNodes g1 g2) (ha : SameAdj g1 g2)
    {out1 out2 : List (List Nat)}
    (nd1 : (out1.map (canon g1)).Nodup) (nd2 : (out2.map (canon g2)).Nodup)
    (ex1 : ∀ S, S.Sublist g1.nodes → (S ∈ out1.map (canon g1) ↔ IsMaxClique g1 S))
    (ex2 : ∀ S, S.Sublist g2.nodes → (S ∈ out2.map (canon g2) ↔ IsMaxClique g2 S)) :
    (out1.map (canon g2)).Perm (out2.map (canon g2)) := by
  have hn' : SameNodes g2 g1 := fun x => (hn x).symm
  have same : ∀ c x, x ∈ canon g1 c ↔ x ∈ canon g2 c := fun c x => by
    rw [mem_canon, mem_canon, hn x]
  have nd1' : (out1.map (canon g2)).Nodup := by
    unfold List.Nodup at nd1 ⊢
    rw [List.pairwise_map] at nd1 ⊢
    exact nd1.imp fun hne e => hne (canon_transfer hn' e)
  refine (List.perm_ext_iff_of_nodup nd1' nd2).mpr fun S => ?_
  constructor
  · intro hS
    obtain ⟨c, hc, rfl⟩ := List.mem_map.mp hS
    have m1 : IsMaxClique g1 (canon g1 c) :=
      (ex1 _ (canon_sublist g1 c)).mp (List.mem_map.mpr ⟨c, hc, rfl⟩)
    exact (ex2 _ (canon_sublist g2 c)).mpr ((isMaxClique_congr hn ha (same c)).mp m1)
  · intro hS
    obtain ⟨c', hc', rfl⟩ := List.mem_map.mp hS
    have m2 : IsMaxClique g2 (canon g2 c') :=
      (ex2 _ (canon_sublist g2 c')).mp (List.mem_map.mpr ⟨c', hc', rfl⟩)
    have m1 : IsMaxClique g1 (canon g1 c') := (isMaxClique_congr hn ha (same c')).mpr m2
    obtain ⟨c, hc, hcc⟩ := List.mem_map.mp ((ex1 _ (canon_sublist g1 c')).mpr m1)
    exact List.mem_map.mpr ⟨c, hc, canon_transfer hn hcc⟩

/-! ### PageRank over exact rationals: the node list matters only up to rearrangement -/

theorem sum_perm_rat {l1 l2 : List Rat} (h : l1.Perm l2) : l1.sum = l2.sum := by
  induction h with
  | nil => rfl
  | cons x _ ih => simp [ih]
  | swap x y l => simp only [List.sum_cons]; rw [← Rat.add_assoc, ← Rat.add_assoc, Rat.add_comm y x]
  | trans _ _ ih1 ih2 => exact ih1.trans ih2

theorem sum_map_perm_congr {l1 l2 : List Nat} (h : l1.Perm l2) {f g : Nat → Rat} (hfg : ∀ x ∈ l1, f x = g x) :
    (l1.map f).sum = (l2.map g).sum := by
  rw [List.map_congr_left hfg]
  exact sum_perm_rat (h.map g)

/-- rank of `w` in a table aligned with a node list -/
theorem rk_aligned (ns : List Nat) (f : Nat → Rat) (w : Nat) :
    PR.rk (ns.map fun v => (v, f v)) w = if w ∈ ns then f w else 0 := by
  unfold PR.rk
  induction ns with
  | nil => simp
  | cons a t ih =>
    simp only [List.map_cons, List.lookup_cons, List.mem_cons]
    by_cases hwa : w = a
    · subst hwa; simp
    · have : (w == a) = false := by simpa using hwa
      rw [this]
      simp only [hwa, false_or]
      exact ih

/-- two rank tables aligned with rearranged node lists through the same function -/
def Aligned (ns1 ns2 : List Nat) (r1 r2 : List (Nat × Rat)) : Prop :=
  ∃ f : Nat → Rat, r1 = ns1.map (fun v => (v, f v)) ∧ r2 = ns2.map (fun v => (v, f v))

theorem Aligned.rk_eq {ns1 ns2 : List Nat} (hp : ns1.Perm ns2) {r1 r2 : List (Nat × Rat)}
    (h : Aligned ns1 ns2 r1 r2) (w : Nat) : PR.rk r1 w = PR.rk r2 w := by
  obtain ⟨f, rfl, rfl⟩ := h
  rw [rk_aligned, rk_aligned]
  by_cases hw : w ∈ ns1
  · simp [hw, hp.mem_iff.mp hw]
  · have hw2 : w ∉ ns2 := fun h' => hw (hp.mem_iff.mpr h')
    simp [hw, hw2]

theorem pi_eq {g1 g2 : MGraph} (sg : SameGraph g1 g2) (d : Rat) {r1 r2 : List (Nat × Rat)}
    (h : Aligned g1.nodes g2.nodes r1 r2) (v : Nat) : PR.pi g1 d r1 v = PR.pi g2 d r2 v := by
  unfold PR.pi
  refine sum_map_perm_congr sg.nodes fun w _ => ?_
  unfold PR.contrib PR.hasEdge PR.outDeg
  rw [h.rk_eq sg.nodes w, sg.edges, sg.length]

theorem step_aligned {g1 g2 : MGraph} (sg : SameGraph g1 g2) (d : Rat) {r1 r2 : List (Nat × Rat)}
    (h : Aligned g1.nodes g2.nodes r1 r2) :
    (PR.step g1 d r1 = none ∧ PR.step g2 d r2 = none) ∨
    ∃ r1' r2', PR.step g1 d r1 = some r1' ∧ PR.step g2 d r2 = some r2' ∧ Aligned g1.nodes g2.nodes r1' r2' := by
  have hs : (g1.nodes.map (PR.pi g1 d r1)).sum = (g2.nodes.map (PR.pi g2 d r2)).sum :=
    sum_map_perm_congr sg.nodes fun v _ => pi_eq sg d h v
  unfold PR.step
  simp only
  rw [← hs]
  by_cases h0 : (g1.nodes.map (PR.pi g1 d r1)).sum = 0
  · simp [h0]
  · simp only [h0, ↓reduceIte]
    refine Or.inr ⟨_, _, rfl, rfl, fun v => PR.pi g1 d r1 v / (g1.nodes.map (PR.pi g1 d r1)).sum, rfl, ?_⟩
    apply List.map_congr_left
    intro v _
    simp only [pi_eq sg d h v]

theorem iter_aligned {g1 g2 : MGraph} (sg : SameGraph g1 g2) (d : Rat) (k : Nat) :
    ∀ {r1 r2 : List (Nat × Rat)}, Aligned g1.nodes g2.nodes r1 r2 →
      (PR.iter g1 d k r1 = none ∧ PR.iter g2 d k r2 = none) ∨
      ∃ r1' r2', PR.iter g1 d k r1 = some r1' ∧ PR.iter g2 d k r2 = some r2' ∧ Aligned g1.nodes g2.nodes r1' r2' := by
  induction k with
  | zero => intro r1 r2 h; exact Or.inr ⟨r1, r2, rfl, rfl, h⟩
  | succ k ih =>
    intro r1 r2 h
    rcases step_aligned sg d h with ⟨e1, e2⟩ | ⟨r1', r2', e1, e2, h'⟩
    · exact Or.inl ⟨by simp [PR.iter, e1], by simp [PR.iter, e2]⟩
    · simp only [PR.iter, e1, e2]
      exact ih h'

/-- **page_rank does not depend on the order of the node list**: on two presentations of the same abstract graph the
exact-rational model either is undefined on both (the open finding D22: a zero normalising sum) or gives every node
the same rank on both. -/
theorem pageRank_sameGraph {g1 g2 : MGraph} (sg : SameGraph g1 g2) (d : Rat) (k : Nat) :
    (PR.pageRank g1 d k = none ∧ PR.pageRank g2 d k = none) ∨
    ∃ r1 r2, PR.pageRank g1 d k = some r1 ∧ PR.pageRank g2 d k = some r2 ∧ ∀ x, PR.rk r1 x = PR.rk r2 x := by
  have h0 : Aligned g1.nodes g2.nodes (PR.init g1) (PR.init g2) :=
    ⟨fun _ => 1 / (g1.nodes.length : Rat), rfl, by unfold PR.init; rw [sg.length]⟩
  rcases iter_aligned sg d k h0 with h | ⟨r1, r2, e1, e2, h⟩
  · exact Or.inl h
  · exact Or.inr ⟨r1, r2, e1, e2, fun x => h.rk_eq sg.nodes x⟩

end PetgraphModel.C07W5
