import PetgraphModel.Model.C18Decode
import PetgraphModel.Proofs.Graph6
/-
C18 (wave 5) — the decoder on arbitrary strings: `G6.decode s = G6.decodeClosed s` for every `s`
(exact panic conditions (P1)–(P4) of `Model/C18Decode.lean`, the value otherwise), and what follows from it.
-/
namespace PetgraphModel.G6P
open PetgraphModel.G6

/-- `.chars().map(|c| (c as usize) - N)`: a panic iff some code is below 63 -/
theorem charsToBytes_eq (s : List Char) :
    charsToBytes s = if s.any (fun c => decide (c.toNat < 63)) then none else some (byteValues s) := by
  induction s with
  | nil => rfl
  | cons c cs ih =>
    simp only [charsToBytes, List.any_cons, byteValues, List.map_cons, N]
    by_cases h : c.toNat < 63
    · simp [h]
    · simp only [h, if_false, decide_false, Bool.false_or]
      rw [ih]
      split <;> simp [byteValues]

theorem bitsToNat_append (a b : List Bool) : bitsToNat (a ++ b) = bitsToNat a * 2 ^ b.length + bitsToNat b := by
  simp only [bitsToNat, List.foldl_append]
  rw [foldl_bits]
  rfl

theorem bytesToBits_cons (b : Nat) (bs : List Nat) : bytesToBits (b :: bs) = numberBits b 6 ++ bytesToBits bs := by
  simp [bytesToBits]

theorem bytesToBits_length (bs : List Nat) : (bytesToBits bs).length = 6 * bs.length := by
  induction bs with
  | nil => rfl
  | cons b bs ih => rw [bytesToBits_cons, List.length_append, numberBits_length, ih, List.length_cons]; omega

/-- the size header: `get_order_bytes_and_adj_matrix_bytes` followed by `get_bits_as_decimal` of the order bytes -/
theorem header_eq (bytes : List Nat) :
    (splitHeader bytes).map (fun p => (bitsToNat (bytesToBits p.1), p.2)) = decodeHeader bytes := by
  cases bytes with
  | nil => rfl
  | cons first rest =>
    simp only [splitHeader, decodeHeader, N]
    by_cases h : first = 63
    · simp only [h, if_true]
      match rest with
      | [] => rfl
      | [_] => rfl
      | [_, _] => rfl
      | b1 :: b2 :: b3 :: body =>
        have hl : ¬ (b1 :: b2 :: b3 :: body).length < 3 := by simp
        simp only [hl, if_false, Option.map_some, List.take_succ_cons, List.take_zero, List.drop_succ_cons,
          List.drop_zero]
        rw [bytesToBits_cons, bytesToBits_cons, bytesToBits_cons]
        rw [bitsToNat_append, bitsToNat_append, bitsToNat_append]
        have e0 : bytesToBits [] = [] := rfl
        have z0 : bitsToNat [] = 0 := rfl
        rw [e0, z0, bitsToNat_numberBits, bitsToNat_numberBits, bitsToNat_numberBits]
        simp only [List.length_append, numberBits_length, List.length_nil]
        have e : ∀ a b c : Nat, a % 2 ^ 6 * 2 ^ (6 + (6 + 0)) + (b % 2 ^ 6 * 2 ^ (6 + 0) + (c % 2 ^ 6 * 2 ^ 0 + 0)) =
            a % 64 * 4096 + b % 64 * 64 + c % 64 := by
          intro a b c
          norm_num
          omega
        rw [e]
    · simp only [h, if_false, Option.map_some]
      rw [bytesToBits_cons, bitsToNat_append, bitsToNat_numberBits]
      have e0 : bytesToBits [] = [] := rfl
      have z0 : bitsToNat [] = 0 := rfl
      rw [e0, z0]
      simp

theorem takeEdges_short (ps : List (Nat × Nat)) (bits : List Bool) (h : bits.length < ps.length) :
    takeEdges ps bits = none := by
  induction ps generalizing bits with
  | nil => simp at h
  | cons p ps ih =>
    cases bits with
    | nil => rfl
    | cons b bs =>
      simp only [takeEdges]
      rw [ih bs (by simpa using h)]
      rfl

open Spec.Graph6 in
/-- the `k`-th pair of the format's ordering is the pair `(i, j)` with `j(j-1)/2 + i = k` -/
theorem pairs_map_idx (n : Nat) :
    (pairs n).map (fun p => p.2 * (p.2 - 1) / 2 + p.1) = List.range (pairs n).length := by
  induction n with
  | zero => rfl
  | succ n ih =>
    have hl := pairs_length n
    rw [pairs_succ, List.map_append, ih, List.length_append, List.length_map, List.length_range, List.range_add,
      List.map_map]
    congr 1
    apply List.map_congr_left
    intro i _
    simp only [Function.comp]
    have : n * (n - 1) / 2 = (pairs n).length := by omega
    rw [this]

theorem map_getD_range {α : Type} (l : List α) (d : α) (L : Nat) (h : L ≤ l.length) :
    (List.range L).map (fun k => l.getD k d) = l.take L := by
  apply List.ext_getElem
  · simp [Nat.min_eq_left h]
  · intro k h1 h2
    simp only [List.length_map, List.length_range] at h1
    simp only [List.getElem_map, List.getElem_range, List.getElem_take]
    rw [List.getD_eq_getElem?_getD, List.getElem?_eq_getElem (by omega)]
    rfl

theorem numberBits_six (b : Nat) :
    numberBits b 6 = [b.testBit 5, b.testBit 4, b.testBit 3, b.testBit 2, b.testBit 1, b.testBit 0] := by
  simp [numberBits]

/-- `bytes_vector_to_bits_vector`: bit `k` of the result is bit `5 - k % 6` of byte `k / 6` -/
theorem bytesToBits_getD (body : List Nat) (k : Nat) : (bytesToBits body).getD k false = bodyBit body k := by
  induction body generalizing k with
  | nil => simp [bytesToBits, bodyBit]
  | cons b bs ih =>
    rw [bytesToBits_cons, numberBits_six]
    by_cases hk : k < 6
    · unfold bodyBit
      have h0 : k / 6 = 0 := by omega
      rw [h0]
      have : k = 0 ∨ k = 1 ∨ k = 2 ∨ k = 3 ∨ k = 4 ∨ k = 5 := by omega
      rcases this with rfl | rfl | rfl | rfl | rfl | rfl <;> rfl
    · have h6 : 6 ≤ k := by omega
      rw [List.getD_eq_getElem?_getD, List.getElem?_append_right (by simpa using h6)]
      simp only [List.length_cons, List.length_nil]
      rw [← List.getD_eq_getElem?_getD, ih (k - 6)]
      unfold bodyBit
      have h1 : k / 6 = (k - 6) / 6 + 1 := by omega
      have h2 : k % 6 = (k - 6) % 6 := by omega
      rw [h1, h2, List.getD_cons_succ]

open Spec.Graph6 in
/-- `get_edges`: (P4) when the bits run out, otherwise the pairs whose bit is set -/
theorem getEdges_eq (n : Nat) (body : List Nat) :
    getEdges n (bytesToBits body) =
      if 6 * body.length < n * (n - 1) / 2 then none else some (edges n (bodyAdj body)) := by
  have hl := pairs_length n
  have hL : n * (n - 1) / 2 = (pairs n).length := by omega
  rw [getEdges, positions_eq, hL]
  by_cases h : 6 * body.length < (pairs n).length
  · rw [if_pos h]
    exact takeEdges_short _ _ (by rw [bytesToBits_length]; exact h)
  · rw [if_neg h]
    have hle : (pairs n).length ≤ (bytesToBits body).length := by rw [bytesToBits_length]; omega
    have hm : (pairs n).map (fun p => bodyAdj body p.1 p.2) = (bytesToBits body).take (pairs n).length := by
      rw [← map_getD_range _ false _ hle, ← pairs_map_idx, List.map_map]
      apply List.map_congr_left
      intro p _
      simp only [Function.comp, bodyAdj]
      rw [bytesToBits_getD]
    conv_lhs => rw [← List.take_append_drop (pairs n).length (bytesToBits body), ← hm]
    rw [takeEdges_map]
    rfl

/-- the decoder after the byte conversion, in closed form -/
theorem decodeBytes_closed (bytes : List Nat) : decodeBytes bytes = decodeClosedBytes bytes := by
  unfold decodeBytes decodeClosedBytes
  have hh := header_eq bytes
  cases hsp : splitHeader bytes with
  | none =>
    rw [hsp] at hh
    simp only [Option.map_none] at hh
    rw [← hh]
  | some p =>
    obtain ⟨ob, mb⟩ := p
    rw [hsp] at hh
    simp only [Option.map_some] at hh
    rw [← hh]
    simp only
    rw [getEdges_eq]
    by_cases hc : 6 * mb.length < bitsToNat (bytesToBits ob) * (bitsToNat (bytesToBits ob) - 1) / 2
    · simp [hc]
    · simp [hc]

theorem decode_eq_bind (s : List Char) : decode s = (charsToBytes s).bind decodeBytes := by
  unfold decode decodeBytes
  cases charsToBytes s <;> rfl

/-- **the decoder on arbitrary strings** -/
theorem decode_closed (s : List Char) : decode s = decodeClosed s := by
  rw [decode_eq_bind, charsToBytes_eq]
  unfold decodeClosed
  by_cases hany : s.any (fun c => decide (c.toNat < 63)) = true
  · simp [hany]
  · simp only [hany, if_false, Bool.false_eq_true, Option.bind_some]
    rw [decodeBytes_closed]
    rfl

/-- … and compiled without overflow checks -/
theorem decodeWrap_closed (s : List Char) : decodeWrap s = decodeClosedBytes (byteValuesWrap s) :=
  decodeBytes_closed _

theorem decodeWrap_none_iff (s : List Char) : decodeWrap s = none ↔ decodePanicsBytes (byteValuesWrap s) = true := by
  rw [decodeWrap_closed]
  unfold decodeClosedBytes decodePanicsBytes
  cases decodeHeader (byteValuesWrap s) with
  | none => simp
  | some p =>
    obtain ⟨n, body⟩ := p
    simp only
    by_cases h : 6 * body.length < n * (n - 1) / 2
    · simp [h]
    · simp [h]

theorem decodeWrapGuarded_eq (s : List Char) : decodeWrapGuarded s = decodeWrap s := by
  unfold decodeWrapGuarded
  by_cases h : decodePanicsBytes (byteValuesWrap s) = true
  · rw [if_pos h, (decodeWrap_none_iff s).2 h]
  · rw [if_neg h]

/-- without a byte below 63 the two builds read the same byte values, hence decode alike -/
theorem byteValuesWrap_eq (s : List Char) (h : s.any (fun c => decide (c.toNat < 63)) = false) :
    byteValuesWrap s = byteValues s := by
  unfold byteValuesWrap byteValues
  apply List.map_congr_left
  intro c hc
  have : ¬ c.toNat < 63 := by
    intro hlt
    have : s.any (fun c => decide (c.toNat < 63)) = true := List.any_eq_true.2 ⟨c, hc, by simpa using hlt⟩
    rw [h] at this; cases this
  simp [this]

theorem decodeWrap_eq_decode (s : List Char) (h : s.any (fun c => decide (c.toNat < 63)) = false) :
    decodeWrap s = decode s := by
  rw [decode_eq_bind, charsToBytes_eq, h]
  simp only [Bool.false_eq_true, if_false, Option.bind_some]
  unfold decodeWrap
  rw [byteValuesWrap_eq s h]

/-- the low six bits of a wrapped byte below 63 are `code + 1`; it is never the long-header marker -/
theorem wrapped_byte (c : Nat) (h : c < 63) :
    (c + 18446744073709551616 - 63) % 64 = c + 1 ∧ c + 18446744073709551616 - 63 ≠ 63 := by
  omega

theorem decode_none_iff (s : List Char) : decode s = none ↔ decodePanics s = true := by
  rw [decode_closed]
  unfold decodeClosed decodePanics
  by_cases hany : s.any (fun c => decide (c.toNat < 63)) = true
  · simp [hany]
  · simp only [hany, if_false, Bool.false_eq_true, Bool.false_or]
    cases decodeHeader (byteValues s) with
    | none => simp
    | some p =>
      obtain ⟨n, body⟩ := p
      simp only
      by_cases h : 6 * body.length < n * (n - 1) / 2
      · simp [h]
      · simp [h]

theorem decodeGuarded_eq (s : List Char) : decodeGuarded s = decode s := by
  unfold decodeGuarded
  by_cases h : decodePanics s = true
  · rw [if_pos h, (decode_none_iff s).2 h]
  · rw [if_neg h]

theorem decodeHeader_lt (bytes : List Nat) (n : Nat) (body : List Nat) (h : decodeHeader bytes = some (n, body)) :
    n < 262144 ∧ body.length < bytes.length := by
  cases bytes with
  | nil => simp [decodeHeader] at h
  | cons b0 rest =>
    simp only [decodeHeader] at h
    by_cases h0 : b0 = 63
    · simp only [h0, if_true] at h
      match rest, h with
      | b1 :: b2 :: b3 :: body', h =>
        simp only [Option.some.injEq, Prod.mk.injEq] at h
        obtain ⟨rfl, rfl⟩ := h
        refine ⟨by omega, by simp; omega⟩
    · simp only [h0, if_false, Option.some.injEq, Prod.mk.injEq] at h
      obtain ⟨rfl, rfl⟩ := h
      exact ⟨by omega, by simp⟩

/-- whatever the decoder answers is a simple graph on `0..n`: pairs `i < j < n`, none twice; the order has 18 bits -/
theorem decode_wf (s : List Char) (n : Nat) (es : List (Nat × Nat)) (h : decode s = some (n, es)) :
    (∀ e ∈ es, e.1 < e.2 ∧ e.2 < n) ∧ es.Nodup ∧ n < 262144 ∧
      ∃ adj : Nat → Nat → Bool, es = Spec.Graph6.edges n adj := by
  rw [decode_closed] at h
  unfold decodeClosed at h
  split at h
  · cases h
  · cases hh : decodeHeader (byteValues s) with
    | none => rw [hh] at h; cases h
    | some p =>
      obtain ⟨m, body⟩ := p
      rw [hh] at h
      simp only at h
      split at h
      · cases h
      · simp only [Option.some.injEq, Prod.mk.injEq] at h
        obtain ⟨rfl, rfl⟩ := h
        refine ⟨?_, edges_nodup _ _, (decodeHeader_lt _ _ _ hh).1, _, rfl⟩
        rintro ⟨i, j⟩ he
        rw [mem_edges] at he
        exact ⟨he.1, he.2.1⟩

end PetgraphModel.G6P
