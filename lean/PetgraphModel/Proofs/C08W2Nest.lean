import PetgraphModel.Proofs.C08W2Dfsv
/-
C08 (wave 2): the bracket-matching run `nestRun [] L = some []` is the same as the textbook grammar
of well-parenthesised words (`Balanced`), with `Discover n` / `Finish n` as the brackets labelled
`n` and edge events as neutral letters.
-/
namespace PetgraphModel.TravProofs
open PetgraphModel PetgraphModel.Trav

/-- well-parenthesised event words: `ε`, a neutral edge event in front, or
`Discover n · balanced · Finish n · balanced` -/
inductive Balanced : List Ev → Prop
  | nil : Balanced []
  | edge {e : Ev} {l : List Ev} : (edgeOf e).isSome → Balanced l → Balanced (e :: l)
  | call {n t t' : Nat} {a b : List Ev} :
      Balanced a → Balanced b → Balanced (.discover n t :: (a ++ .finish n t' :: b))

theorem nestStep_edge {e : Ev} (he : (edgeOf e).isSome) (st : List Nat) : nestStep st e = some st := by
  cases e <;> simp [edgeOf] at he <;> rfl

theorem nestRun_frame (st : List Nat) :
    ∀ (a : List Ev) (s s' : List Nat), nestRun s a = some s' → nestRun (s ++ st) a = some (s' ++ st) := by
  intro a
  induction a with
  | nil =>
    intro s s' h
    simp only [nestRun, Option.some.injEq] at h ⊢
    rw [h]
  | cons e a ih =>
    intro s s' h
    rw [nestRun] at h ⊢
    cases e with
    | discover n t =>
      simp only [nestStep, Option.bind_some] at h ⊢
      exact ih (n :: s) s' h
    | finish n t =>
      cases s with
      | nil => simp [nestStep] at h
      | cons m s1 =>
        simp only [nestStep, List.cons_append] at h ⊢
        by_cases hmn : m = n
        · simp only [hmn, ↓reduceIte, Option.bind_some] at h ⊢
          exact ih s1 s' h
        · simp [hmn] at h
    | tree a' w => simp only [nestStep, Option.bind_some] at h ⊢; exact ih s s' h
    | back a' w => simp only [nestStep, Option.bind_some] at h ⊢; exact ih s s' h
    | cross a' w => simp only [nestStep, Option.bind_some] at h ⊢; exact ih s s' h

/-- first-return decomposition: the bracket opened by `n` is closed by a `Finish n`, with a balanced
word in between -/
theorem nest_first_return :
    ∀ (k : Nat) (l : List Ev), l.length ≤ k → ∀ (n : Nat) (st st' : List Nat),
      nestRun (n :: st) l = some st' → st'.length ≤ st.length →
      ∃ a t' b, l = a ++ .finish n t' :: b ∧ nestRun [] a = some [] ∧ nestRun st b = some st' := by
  intro k
  induction k with
  | zero =>
    intro l hl n st st' h hlen
    have : l = [] := List.length_eq_zero_iff.mp (Nat.le_zero.mp hl)
    subst this
    simp only [nestRun, Option.some.injEq] at h
    subst h
    simp at hlen
    omega
  | succ k ih =>
    intro l hl n st st' h hlen
    cases l with
    | nil =>
      simp only [nestRun, Option.some.injEq] at h
      subst h
      simp at hlen
      omega
    | cons e l =>
      have hl' : l.length ≤ k := by simpa using hl
      rw [nestRun] at h
      cases e with
      | discover m t =>
        simp only [nestStep, Option.bind_some] at h
        obtain ⟨a1, t1, b1, e1, n1, r1⟩ := ih l hl' m (n :: st) st' h (by simp; omega)
        have hb1 : b1.length ≤ k := by
          have : l.length = a1.length + (b1.length + 1) := by rw [e1]; simp
          omega
        obtain ⟨a2, t2, b2, e2, n2, r2⟩ := ih b1 hb1 n st st' r1 hlen
        refine ⟨.discover m t :: (a1 ++ .finish m t1 :: a2), t2, b2, ?_, ?_, r2⟩
        · rw [e1, e2]; simp
        · rw [nestRun]
          simp only [nestStep, Option.bind_some]
          rw [nestRun_append]
          have := nestRun_frame [m] a1 [] [] n1
          simp only [List.nil_append] at this
          rw [this]
          simp only [Option.bind_some, nestRun, nestStep, ↓reduceIte]
          exact n2
      | finish m t =>
        simp only [nestStep] at h
        by_cases hnm : n = m
        · simp only [hnm, ↓reduceIte, Option.bind_some] at h
          exact ⟨[], t, l, by rw [hnm]; rfl, rfl, h⟩
        · simp [hnm] at h
      | tree a' w =>
        simp only [nestStep, Option.bind_some] at h
        obtain ⟨a1, t1, b1, e1, n1, r1⟩ := ih l hl' n st st' h hlen
        exact ⟨.tree a' w :: a1, t1, b1, by rw [e1]; rfl, by simpa [nestRun, nestStep] using n1, r1⟩
      | back a' w =>
        simp only [nestStep, Option.bind_some] at h
        obtain ⟨a1, t1, b1, e1, n1, r1⟩ := ih l hl' n st st' h hlen
        exact ⟨.back a' w :: a1, t1, b1, by rw [e1]; rfl, by simpa [nestRun, nestStep] using n1, r1⟩
      | cross a' w =>
        simp only [nestStep, Option.bind_some] at h
        obtain ⟨a1, t1, b1, e1, n1, r1⟩ := ih l hl' n st st' h hlen
        exact ⟨.cross a' w :: a1, t1, b1, by rw [e1]; rfl, by simpa [nestRun, nestStep] using n1, r1⟩

theorem balanced_of_nest :
    ∀ (k : Nat) (l : List Ev), l.length ≤ k → nestRun [] l = some [] → Balanced l := by
  intro k
  induction k with
  | zero =>
    intro l hl _
    have : l = [] := List.length_eq_zero_iff.mp (Nat.le_zero.mp hl)
    subst this
    exact Balanced.nil
  | succ k ih =>
    intro l hl h
    cases l with
    | nil => exact Balanced.nil
    | cons e l =>
      have hl' : l.length ≤ k := by simpa using hl
      rw [nestRun] at h
      cases e with
      | discover m t =>
        simp only [nestStep, Option.bind_some] at h
        obtain ⟨a, t', b, e1, n1, r1⟩ := nest_first_return k l hl' m [] [] h (Nat.le_refl _)
        have hlen : l.length = a.length + (b.length + 1) := by rw [e1]; simp
        rw [e1]
        exact Balanced.call (ih a (by omega) n1) (ih b (by omega) r1)
      | finish m t => simp [nestStep] at h
      | tree a' w =>
        simp only [nestStep, Option.bind_some] at h
        exact Balanced.edge rfl (ih l hl' h)
      | back a' w =>
        simp only [nestStep, Option.bind_some] at h
        exact Balanced.edge rfl (ih l hl' h)
      | cross a' w =>
        simp only [nestStep, Option.bind_some] at h
        exact Balanced.edge rfl (ih l hl' h)

theorem nest_of_balanced {l : List Ev} (h : Balanced l) : nestRun [] l = some [] := by
  induction h with
  | nil => rfl
  | edge he _ ih => rw [nestRun, nestStep_edge he]; exact ih
  | @call n t t' a b _ _ iha ihb =>
    rw [nestRun]
    simp only [nestStep, Option.bind_some]
    rw [nestRun_append]
    have := nestRun_frame [n] a [] [] iha
    simp only [List.nil_append] at this
    rw [this]
    simp only [Option.bind_some, nestRun, nestStep, ↓reduceIte]
    exact ihb

/-- the stack run and the grammar agree -/
theorem balanced_iff_nest (l : List Ev) : Balanced l ↔ nestRun [] l = some [] :=
  ⟨nest_of_balanced, balanced_of_nest l.length l (Nat.le_refl _)⟩

/-- on `Continue` the whole event stream is a well-parenthesised word -/
theorem dfsv_balanced {v : View} {script : List Ctl} {fuel : Nat} {starts : List Nat} {s' : VS}
    (h : dfsSearch v script fuel starts {} = (s', .cont)) : Balanced s'.evs.reverse := by
  have hn := dfsv_nested h
  rw [hn.2.1 rfl] at hn
  exact (balanced_iff_nest _).mpr hn.1

end PetgraphModel.TravProofs
