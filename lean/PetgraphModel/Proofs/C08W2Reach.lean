import PetgraphModel.Proofs.C08W2Dfsv
/-
C08 (wave 2): which nodes `depth_first_search` reports.

* soundness (any script, any result): every discovered node is reachable from a start node;
* completeness (the visitor always answers `Continue`, result `Continue`): every node reachable from
  a start node is discovered (and, by `dfsv_nested`, finished).
-/
namespace PetgraphModel.TravProofs
open PetgraphModel PetgraphModel.Trav PetgraphModel.MGraph

/-- reachability along the view's neighbour lists -/
inductive SReach (v : View) : Nat → Nat → Prop
  | refl (a : Nat) : SReach v a a
  | step {a b c : Nat} : SReach v a b → c ∈ v.succ b → SReach v a c

theorem SReach.reach {v : View} (hv : ViewOk v) {a b : Nat} (h : SReach v a b) : Reach v.g a b := by
  induction h with
  | refl => exact Reach.refl _
  | step _ hc ih => exact Reach.step ih ((hv _ _).mp hc)

/-! ### soundness -/

structure InvR (v : View) (starts : List Nat) (m : MS) : Prop where
  reachOk : ∀ x, x ∈ m.disc → ∃ s, s ∈ starts ∧ SReach v s x
  expOk : ∀ n, m.mode = .expectDisc n → ∃ u ws rest, m.stack = (u, ws) :: rest ∧ n ∈ v.succ u

theorem afterDiscover_ne (c : Ctl) (n : Nat) : afterDiscover c ≠ .expectDisc n := by cases c <;> simp [afterDiscover]
theorem afterFinish_ne (c : Ctl) (n : Nat) : afterFinish c ≠ .expectDisc n := by cases c <;> simp [afterFinish]
theorem afterEdge_ne (c : Ctl) (n : Nat) : afterEdge c ≠ .expectDisc n := by cases c <;> simp [afterEdge]
theorem afterTree_eq {c : Ctl} {w n : Nat} (h : afterTree w c = .expectDisc n) : n = w := by
  cases c <;> simp [afterTree] at h; exact h.symm

theorem invR_snoc {v : View} {starts : List Nat} {c : Ctl} {m1 m : MS} {L : List Ev} {e : Ev}
    (inv : Inv v m1 L) (invr : InvR v starts m1) (h : step v starts c m1 e = some m) :
    InvR v starts m := by
  cases e with
  | discover n t =>
    obtain ⟨_, _, hmd, rfl⟩ := step_discover h
    refine ⟨?_, fun k hk => absurd hk (afterDiscover_ne c k)⟩
    intro x hx
    rcases List.mem_cons.mp hx with h1 | h1
    · subst h1
      rcases hmd with hmd | ⟨_, _, hs⟩
      · obtain ⟨u, ws, rest, hst, hn⟩ := invr.expOk x hmd
        have hu : u ∈ m1.disc :=
          ((inv.stackOpen u).mp (by rw [hst]; exact List.mem_cons_self ..)).1
        obtain ⟨s, hs, hr⟩ := invr.reachOk u hu
        exact ⟨s, hs, SReach.step hr hn⟩
      · exact ⟨x, hs, SReach.refl x⟩
    · exact invr.reachOk x h1
  | finish n t =>
    obtain ⟨_, _, _, _, _, rfl⟩ := step_finish h
    exact ⟨invr.reachOk, fun k hk => absurd hk (afterFinish_ne c k)⟩
  | tree a w =>
    obtain ⟨ws, rest, hst, _, _, rfl⟩ := step_tree h
    refine ⟨invr.reachOk, ?_⟩
    intro n hn
    have := afterTree_eq hn
    subst this
    obtain ⟨done, hdone⟩ := inv.succOk a (n :: ws) (by rw [hst]; exact List.mem_cons_self ..)
    exact ⟨a, ws, rest, rfl, by rw [hdone]; simp⟩
  | back a w =>
    obtain ⟨_, _, _, _, _, _, rfl⟩ := step_back h
    exact ⟨invr.reachOk, fun k hk => absurd hk (afterEdge_ne c k)⟩
  | cross a w =>
    obtain ⟨_, _, _, _, _, _, rfl⟩ := step_cross h
    exact ⟨invr.reachOk, fun k hk => absurd hk (afterEdge_ne c k)⟩

theorem invR_of_replay (v : View) (starts : List Nat) (script : List Ctl) :
    ∀ (l : List Ev) (m : MS), replay v starts script l = some m → InvR v starts m := by
  intro l
  induction l with
  | nil =>
    intro m h
    simp only [replay, Option.some.injEq] at h
    subst h
    exact ⟨by simp [MS.init], by simp [MS.init]⟩
  | cons e l ih =>
    intro m h
    rw [replay] at h
    cases h1 : replay v starts script l with
    | none => rw [h1] at h; cases h
    | some m1 =>
      rw [h1] at h
      exact invR_snoc (inv_of_replay v starts script l m1 h1) (ih m1 h1) h

/-- every discovered node is reachable from one of the start nodes -/
theorem dfsv_reach_sound {v : View} (hv : ViewOk v) {script : List Ctl} {fuel : Nat}
    {starts : List Nat} {s' : VS} {r : Res}
    (h : dfsSearch v script fuel starts {} = (s', r)) (x : Nat) (hx : x ∈ discOf s'.evs.reverse) :
    ∃ s, s ∈ starts ∧ Reach v.g s x := by
  obtain ⟨m, hrun, _, _, _, _⟩ := dfsv_final h
  have hrep : replay v starts script s'.evs = some m := by rw [replay_eq_run]; exact hrun
  have inv := inv_of_run hrun
  obtain ⟨s, hs, hr⟩ := (invR_of_replay v starts script _ m hrep).reachOk x
    ((mem_rev_iff inv.discEq).mpr hx)
  exact ⟨s, hs, hr.reach hv⟩

/-! ### completeness: the start nodes get discovered (model level) -/

theorem finishStep_disc (script : List Ctl) (u : Nat) (s : VS) :
    (finishStep script u s).1.disc = s.disc := by
  unfold finishStep; split <;> rfl

theorem thenRes_mono {p : VS × Res} {k : VS → VS × Res} {x : Nat}
    (hk : x ∈ p.1.disc → x ∈ (k p.1).1.disc) (hx : x ∈ p.1.disc) : x ∈ (thenRes p k).1.disc := by
  obtain ⟨s, r⟩ := p
  cases r with
  | cont => exact hk hx
  | brk => exact hx
  | panicPruneFinish => exact hx
  | fuel => exact hx

theorem dfsv_mono (v : View) (script : List Ctl) :
    ∀ f : Nat, (∀ u s x, x ∈ s.disc → x ∈ (dfsVisitor v script f u s).1.disc) ∧
      (∀ u ws s x, x ∈ s.disc → x ∈ (neighLoop v script f u ws s).1.disc) := by
  intro f
  induction f with
  | zero =>
    exact ⟨fun u s x hx => by rw [dfsVisitor_zero]; exact hx,
      fun u ws s x hx => by rw [neighLoop_zero]; exact hx⟩
  | succ f ih =>
    obtain ⟨ihV, ihN⟩ := ih
    constructor
    · intro u s x hx
      by_cases hu : u ∈ s.disc
      · rw [dfsVisitor_succ_old v script f u s hu]; exact hx
      · rw [dfsVisitor_succ_new v script f u s hu]
        split
        · exact List.mem_cons_of_mem _ hx
        · rw [finishStep_disc]; exact List.mem_cons_of_mem _ hx
        · apply thenRes_mono
          · intro h1; rw [finishStep_disc]; exact h1
          · exact ihN _ _ _ _ (List.mem_cons_of_mem _ hx)
    · intro u ws s x hx
      cases ws with
      | nil => rw [neighLoop_nil]; exact hx
      | cons w ws =>
        by_cases hw : w ∈ s.disc
        · rw [neighLoop_cons_old v script f u w ws s hw]
          split
          · exact hx
          · exact ihN _ _ _ _ hx
        · rw [neighLoop_cons_new v script f u w ws s hw]
          split
          · exact hx
          · exact ihN _ _ _ _ hx
          · apply thenRes_mono
            · intro h1; exact ihN _ _ _ _ h1
            · exact ihV _ _ _ hx

theorem dfsVisitor_self (v : View) (script : List Ctl) (f u : Nat) (s : VS)
    (h : (dfsVisitor v script f u s).2 = .cont) : u ∈ (dfsVisitor v script f u s).1.disc := by
  cases f with
  | zero => rw [dfsVisitor_zero] at h; cases h
  | succ f =>
    by_cases hu : u ∈ s.disc
    · rw [dfsVisitor_succ_old v script f u s hu]; exact hu
    · rw [dfsVisitor_succ_new v script f u s hu]
      split
      · exact List.mem_cons_self ..
      · rw [finishStep_disc]; exact List.mem_cons_self ..
      · apply thenRes_mono
        · intro h1; rw [finishStep_disc]; exact h1
        · exact (dfsv_mono v script f).2 _ _ _ _ (List.mem_cons_self ..)

theorem dfsSearch_starts (v : View) (script : List Ctl) (fuel : Nat) :
    ∀ (l : List Nat) (s : VS), (dfsSearch v script fuel l s).2 = .cont →
      (∀ x, x ∈ s.disc → x ∈ (dfsSearch v script fuel l s).1.disc) ∧
      (∀ x, x ∈ l → x ∈ (dfsSearch v script fuel l s).1.disc) := by
  intro l
  induction l with
  | nil => intro s _; exact ⟨fun x hx => hx, fun x hx => by cases hx⟩
  | cons st rest ih =>
    intro s h
    rw [dfsSearch_cons] at h ⊢
    have hself := dfsVisitor_self v script fuel st s
    have hmono := (dfsv_mono v script fuel).1 st s
    generalize dfsVisitor v script fuel st s = p at h hself hmono ⊢
    obtain ⟨s2, r2⟩ := p
    cases r2 with
    | cont =>
      simp only [thenRes] at h ⊢
      obtain ⟨i1, i2⟩ := ih s2 h
      refine ⟨fun x hx => i1 x (hmono x hx), ?_⟩
      intro x hx
      rcases List.mem_cons.mp hx with h1 | h1
      · subst h1; exact i1 x (hself rfl)
      · exact i2 x h1
    | brk => cases h
    | panicPruneFinish => cases h
    | fuel => cases h

/-! ### completeness: finished nodes have all their successors discovered (all-`Continue` runs) -/

structure InvC (v : View) (m : MS) : Prop where
  modeOk : m.mode = .run ∨ ∃ w, m.mode = .expectDisc w
  stackCl : ∀ u ws, (u, ws) ∈ m.stack → ∀ w, w ∈ v.succ u →
    w ∈ ws ∨ w ∈ m.disc ∨ m.mode = .expectDisc w
  finCl : ∀ u, u ∈ m.fin → ∀ w, w ∈ v.succ u → w ∈ m.disc

theorem invC_snoc {v : View} {starts : List Nat} {m1 m : MS} {e : Ev}
    (invc : InvC v m1) (h : step v starts .cont m1 e = some m) : InvC v m := by
  cases e with
  | discover n t =>
    obtain ⟨_, _, hmd, rfl⟩ := step_discover h
    refine ⟨Or.inl rfl, ?_, ?_⟩
    · intro u ws hmem w hw
      rcases List.mem_cons.mp hmem with h1 | h1
      · simp only [Prod.mk.injEq] at h1
        obtain ⟨rfl, rfl⟩ := h1
        exact Or.inl hw
      · rcases invc.stackCl u ws h1 w hw with h2 | h2 | h2
        · exact Or.inl h2
        · exact Or.inr (Or.inl (List.mem_cons_of_mem _ h2))
        · rcases hmd with hmd | ⟨hmd, _⟩
          · rw [hmd] at h2
            simp only [Mode.expectDisc.injEq] at h2
            exact Or.inr (Or.inl (h2 ▸ List.mem_cons_self ..))
          · rw [hmd] at h2; cases h2
    · intro u hu w hw
      exact List.mem_cons_of_mem _ (invc.finCl u hu w hw)
  | finish n t =>
    obtain ⟨ws, rest, hst, _, hmd, rfl⟩ := step_finish h
    have hrun : m1.mode = .run ∧ ws = [] := by
      rcases hmd with hmd | hmd
      · exact hmd
      · rcases invc.modeOk with h1 | ⟨_, h1⟩ <;> rw [hmd] at h1 <;> cases h1
    refine ⟨Or.inl rfl, ?_, ?_⟩
    · intro u ws' hmem w hw
      rcases invc.stackCl u ws' (by rw [hst]; exact List.mem_cons_of_mem _ hmem) w hw with h2 | h2 | h2
      · exact Or.inl h2
      · exact Or.inr (Or.inl h2)
      · rw [hrun.1] at h2; cases h2
    · intro u hu w hw
      rcases List.mem_cons.mp hu with h1 | h1
      · subst h1
        rcases invc.stackCl u ws (by rw [hst]; exact List.mem_cons_self ..) w hw with h2 | h2 | h2
        · rw [hrun.2] at h2; cases h2
        · exact h2
        · rw [hrun.1] at h2; cases h2
      · exact invc.finCl u h1 w hw
  | tree a x =>
    obtain ⟨ws, rest, hst, hmd, _, rfl⟩ := step_tree h
    refine ⟨Or.inr ⟨x, rfl⟩, ?_, invc.finCl⟩
    intro u ws' hmem w hw
    rcases List.mem_cons.mp hmem with h1 | h1
    · simp only [Prod.mk.injEq] at h1
      obtain ⟨rfl, rfl⟩ := h1
      rcases invc.stackCl u (x :: ws') (by rw [hst]; exact List.mem_cons_self ..) w hw with h2 | h2 | h2
      · rcases List.mem_cons.mp h2 with h3 | h3
        · exact Or.inr (Or.inr (by rw [h3]; rfl))
        · exact Or.inl h3
      · exact Or.inr (Or.inl h2)
      · rw [hmd] at h2; cases h2
    · rcases invc.stackCl u ws' (by rw [hst]; exact List.mem_cons_of_mem _ h1) w hw with h2 | h2 | h2
      · exact Or.inl h2
      · exact Or.inr (Or.inl h2)
      · rw [hmd] at h2; cases h2
  | back a x =>
    obtain ⟨ws, rest, hst, hmd, hxd, _, rfl⟩ := step_back h
    refine ⟨Or.inl rfl, ?_, invc.finCl⟩
    intro u ws' hmem w hw
    rcases List.mem_cons.mp hmem with h1 | h1
    · simp only [Prod.mk.injEq] at h1
      obtain ⟨rfl, rfl⟩ := h1
      rcases invc.stackCl u (x :: ws') (by rw [hst]; exact List.mem_cons_self ..) w hw with h2 | h2 | h2
      · rcases List.mem_cons.mp h2 with h3 | h3
        · exact Or.inr (Or.inl (h3 ▸ hxd))
        · exact Or.inl h3
      · exact Or.inr (Or.inl h2)
      · rw [hmd] at h2; cases h2
    · rcases invc.stackCl u ws' (by rw [hst]; exact List.mem_cons_of_mem _ h1) w hw with h2 | h2 | h2
      · exact Or.inl h2
      · exact Or.inr (Or.inl h2)
      · rw [hmd] at h2; cases h2
  | cross a x =>
    obtain ⟨ws, rest, hst, hmd, hxd, _, rfl⟩ := step_cross h
    refine ⟨Or.inl rfl, ?_, invc.finCl⟩
    intro u ws' hmem w hw
    rcases List.mem_cons.mp hmem with h1 | h1
    · simp only [Prod.mk.injEq] at h1
      obtain ⟨rfl, rfl⟩ := h1
      rcases invc.stackCl u (x :: ws') (by rw [hst]; exact List.mem_cons_self ..) w hw with h2 | h2 | h2
      · rcases List.mem_cons.mp h2 with h3 | h3
        · exact Or.inr (Or.inl (h3 ▸ hxd))
        · exact Or.inl h3
      · exact Or.inr (Or.inl h2)
      · rw [hmd] at h2; cases h2
    · rcases invc.stackCl u ws' (by rw [hst]; exact List.mem_cons_of_mem _ h1) w hw with h2 | h2 | h2
      · exact Or.inl h2
      · exact Or.inr (Or.inl h2)
      · rw [hmd] at h2; cases h2

theorem invC_of_replay (v : View) (starts : List Nat) (script : List Ctl) :
    ∀ (l : List Ev) (m : MS), (∀ k, k < l.length → ctlAt script k = .cont) →
      replay v starts script l = some m → InvC v m := by
  intro l
  induction l with
  | nil =>
    intro m _ h
    simp only [replay, Option.some.injEq] at h
    subst h
    exact ⟨Or.inl rfl, by simp [MS.init], by simp [MS.init]⟩
  | cons e l ih =>
    intro m hall h
    rw [replay] at h
    cases h1 : replay v starts script l with
    | none => rw [h1] at h; cases h
    | some m1 =>
      rw [h1] at h
      simp only [Option.bind_some] at h
      rw [hall l.length (by simp)] at h
      exact invC_snoc (ih m1 (fun k hk => hall k (by simp; omega)) h1) h

/-- with a visitor that always answers `Continue` and result `Continue`, the discovered nodes are
exactly the nodes reachable from the start nodes -/
theorem dfsv_reach_exact {v : View} (hv : ViewOk v) {script : List Ctl} {fuel : Nat}
    {starts : List Nat} {s' : VS}
    (h : dfsSearch v script fuel starts {} = (s', .cont))
    (hall : ∀ k, k < s'.evs.length → ctlAt script k = .cont) (x : Nat) :
    x ∈ discOf s'.evs.reverse ↔ ∃ s, s ∈ starts ∧ Reach v.g s x := by
  refine ⟨dfsv_reach_sound hv h x, ?_⟩
  rintro ⟨s, hs, hr⟩
  obtain ⟨m, hrun, hd, hf, _, _⟩ := dfsv_final h
  have hrep : replay v starts script s'.evs = some m := by rw [replay_eq_run]; exact hrun
  have inv := inv_of_run hrun
  have invc := invC_of_replay v starts script _ m hall hrep
  have hfin := (dfsv_nested h).2.2 rfl
  have hst := (dfsSearch_starts v script fuel starts {} (by rw [h])).2 s hs
  rw [h] at hst
  have key : x ∈ m.disc := by
    induction hr with
    | refl => rw [hd]; exact hst
    | @step b c _ hadj ih =>
      have hb : b ∈ m.fin :=
        (mem_rev_iff inv.finEq).mpr (hfin b ((mem_rev_iff inv.discEq).mp ih))
      exact invc.finCl b hb c ((hv b c).mpr hadj)
  exact (mem_rev_iff inv.discEq).mp key

end PetgraphModel.TravProofs
