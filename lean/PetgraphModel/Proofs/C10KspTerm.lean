import PetgraphModel.Proofs.C10KspOne
/-
Termination of the k_shortest_path mirror model: the fuel `k * (#edges(a) entries) + 2` always
suffices, for every min-`pop`, every view, every goal — the loop never reports `fuel`.
Potential: heap length + Σ over the rows `(a, row)` of the view of `(k − min k counter[to_index a]) * |row|`.
-/
namespace PetgraphModel.C10P
open PetgraphModel PetgraphModel.SP

def rowWt (v : View) (k : Nat) (c : List Nat) (r : Nat × List (Nat × Nat)) : Nat :=
  (k - min k ((c[v.toIndex r.1]?).getD 0)) * r.2.length

def potential (v : View) (k : Nat) (c : List Nat) (out : List (Nat × List (Nat × Nat))) : Nat :=
  (out.map (rowWt v k c)).sum

theorem rowWt_mono (v : View) (k : Nat) (c : List Nat) (i n : Nat) (hi : i < c.length) (hn : c[i]? = some n)
    (r : Nat × List (Nat × Nat)) : rowWt v k (c.set i (n + 1)) r ≤ rowWt v k c r := by
  unfold rowWt
  rw [getD_set _ _ _ _ hi]
  apply Nat.mul_le_mul_right
  by_cases h : v.toIndex r.1 = i
  · simp [h, hn]; omega
  · simp [h]

theorem potential_mono (v : View) (k : Nat) (c : List Nat) (i n : Nat) (hi : i < c.length) (hn : c[i]? = some n)
    (out : List (Nat × List (Nat × Nat))) : potential v k (c.set i (n + 1)) out ≤ potential v k c out := by
  unfold potential
  induction out with
  | nil => simp
  | cons r rest ih =>
    simp only [List.map_cons, List.sum_cons]
    have := rowWt_mono v k c i n hi hn r
    omega

theorem potential_expand (v : View) (k : Nat) (c : List Nat) (u n : Nat) (hi : v.toIndex u < c.length)
    (hn : c[v.toIndex u]? = some n) (hlt : n < k) (out : List (Nat × List (Nat × Nat))) :
    potential v k (c.set (v.toIndex u) (n + 1)) out + ((out.lookup u).getD []).length ≤ potential v k c out := by
  induction out with
  | nil => simp [potential]
  | cons r rest ih =>
    obtain ⟨a, row⟩ := r
    have hm := potential_mono v k c (v.toIndex u) n hi hn rest
    unfold potential at hm ih ⊢
    simp only [List.map_cons, List.sum_cons]
    by_cases hau : a = u
    · subst hau
      have hl : List.lookup a ((a, row) :: rest) = some row := by simp [List.lookup]
      rw [hl]
      simp only [Option.getD_some]
      have h1 : rowWt v k (c.set (v.toIndex a) (n + 1)) (a, row) = (k - (n + 1)) * row.length := by
        unfold rowWt
        rw [getD_set _ _ _ _ hi]
        simp
        congr 1
        omega
      have h2 : rowWt v k c (a, row) = (k - n) * row.length := by
        unfold rowWt
        simp [hn]
        congr 1
        omega
      rw [h1, h2]
      have : (k - n) * row.length = (k - (n + 1)) * row.length + row.length := by
        have : k - n = (k - (n + 1)) + 1 := by omega
        rw [this, Nat.add_mul, Nat.one_mul]
      omega
    · have hl : List.lookup u ((a, row) :: rest) = List.lookup u rest := by
        have : (u == a) = false := by simpa using (Ne.symm hau)
        simp [List.lookup, this]
      rw [hl]
      have := rowWt_mono v k c (v.toIndex u) n hi hn (a, row)
      omega

theorem potential_skip (v : View) (k : Nat) (c : List Nat) (i n : Nat) (hi : i < c.length) (hn : c[i]? = some n)
    (hge : k ≤ n) (out : List (Nat × List (Nat × Nat))) :
    potential v k (c.set i (n + 1)) out = potential v k c out := by
  unfold potential
  congr 1
  apply List.map_congr_left
  intro r _
  unfold rowWt
  rw [getD_set _ _ _ _ hi]
  by_cases h : v.toIndex r.1 = i
  · simp [h, hn]
    congr 1
    omega
  · simp [h]

theorem ksp_loop_terminates {pop : Pop} (hp : IsMinPop pop) (v : View) (goal : Option Nat) (k : Nat) :
    ∀ (fuel : Nat) (st : KState), st.heap.length + potential v k st.counter v.out < fuel →
      kspLoop pop v goal k fuel st ≠ .fuel := by
  intro fuel
  induction fuel with
  | zero => intro st h; omega
  | succ f ih =>
    intro st hμ
    simp only [kspLoop]
    cases hpop : pop st.heap with
    | none => simp
    | some eh =>
      obtain ⟨⟨c, u⟩, h'⟩ := eh
      have hlen := hp.len _ _ _ hpop
      simp only
      cases hc : st.counter[v.toIndex u]? with
      | none => simp
      | some n =>
        simp only
        have hi : v.toIndex u < st.counter.length := by
          cases Nat.lt_or_ge (v.toIndex u) st.counter.length with
          | inl h => exact h
          | inr h => rw [List.getElem?_eq_none h] at hc; cases hc
        by_cases hgt : n + 1 > k
        · simp only [hgt, if_true]
          apply ih
          have := potential_skip v k st.counter (v.toIndex u) n hi hc (by omega) v.out
          simp only
          omega
        · simp only [hgt, if_false]
          split
          · simp
          · apply ih
            have hexp := potential_expand v k st.counter u n hi hc (by omega) v.out
            have hout : (v.outOf u).length = ((v.out.lookup u).getD []).length := rfl
            have hcnt : ∀ (st2 : KState), st2.counter = st.counter.set (v.toIndex u) (n + 1) → st2.heap = h' →
                (st2.heap ++ (v.outOf u).map fun x => (c + v.weight x.2, x.1)).length +
                  potential v k st2.counter v.out < f := by
              intro st2 h1 h2
              rw [h1, h2]
              simp only [List.length_append, List.length_map]
              omega
            split
            · exact hcnt _ rfl rfl
            · exact hcnt _ rfl rfl

/-- the fuel of the model always suffices -/
theorem ksp_terminates {pop : Pop} (hp : IsMinPop pop) (v : View) (s : Nat) (goal : Option Nat) (k : Nat) :
    kShortestPath pop v s goal k ≠ .fuel := by
  apply ksp_loop_terminates hp v goal k
  have : potential v k (List.replicate v.nb 0) v.out = k * outTotal v := by
    unfold potential outTotal
    induction v.out with
    | nil => simp
    | cons r rest ih =>
      simp only [List.map_cons, List.sum_cons, ih, Nat.mul_add]
      congr 1
      unfold rowWt
      have : ((List.replicate v.nb 0)[v.toIndex r.1]?).getD 0 = 0 := by
        simp only [List.getElem?_replicate]; split <;> rfl
      rw [this]; simp
  simp only [kspFuel, List.length_cons, List.length_nil]
  omega

end PetgraphModel.C10P
