import PetgraphModel.Model.C12W4
import PetgraphModel.Proofs.C12Heap
/-
C12, wave 4 — the heap mirror against the priority-queue specification, and `MinScored` keys.

* `heapRun_accepted`: for EVERY script of `push` / `pop` / `clear` calls the answers of the heap
  mirror are accepted by `pqJudge` (pop returns `None` exactly on the empty queue and otherwise an
  item of least score; the internal vector always holds exactly the queued items) — the mirror
  refines the priority-queue specification the real `BinaryHeap` is judged against.
* `scoreRle_eq_rle`: `MinScored<f64, _>`'s `<=` (the transcription `SP.scoreCmp` of `MinScored::cmp`,
  NaN branches included) on scores in range is the mirror's `rle` on the keys `scoreKey`
  (NaN = the greatest key, popped last; `-∞`/`+∞` below/above every finite score).
-/
namespace PetgraphModel.MstModel
open PetgraphModel

theorem isPerm_map_a {h m : List Item} (hp : h.Perm m) : (layout h).isPerm (m.map (·.a)) = true :=
  List.isPerm_iff.mpr (hp.map _)

/-- one call: the mirror's answer is accepted, and heap shape and contents are maintained -/
theorem heapStep_refines (h m : List Item) (op : HOp) (hh : IsHeap h) (hp : h.Perm m) :
    ∃ m', pqJudge m op (heapStep h op).2 = .ok m' ∧ IsHeap (heapStep h op).1 ∧ (heapStep h op).1.Perm m' := by
  cases op with
  | push it =>
    have hp' : (push h it).Perm (it :: m) := (push_perm h it).trans (hp.cons it)
    refine ⟨it :: m, ?_, push_heap hh it, hp'⟩
    simp only [heapStep, pqJudge, isPerm_map_a hp', if_true]
  | pop =>
    cases hpop : pop h with
    | none =>
      have hnil : h = [] := pop_none.mp hpop
      subst hnil
      have hm : m = [] := List.Perm.nil_eq hp |>.symm
      subst hm
      have hs : heapStep [] .pop = ([], .popped none []) := by simp [heapStep, hpop, layout]
      rw [hs]
      exact ⟨[], by simp [pqJudge], hh, List.Perm.refl _⟩
    | some r =>
      obtain ⟨x, h'⟩ := r
      have hperm := pop_perm hpop
      obtain ⟨hheap', hmin⟩ := pop_heap hh hpop
      have hxm : x ∈ m := hp.mem_iff.mp (hperm.mem_iff.mpr (List.mem_cons_self ..))
      have hp' : h'.Perm (m.erase x) := by
        have h1 : (x :: h').Perm m := hperm.symm.trans hp
        have h2 := h1.erase x
        simpa using h2
      have hs : heapStep h .pop = (h', .popped (some x) (layout h')) := by simp [heapStep, hpop]
      rw [hs]
      refine ⟨m.erase x, ?_, hheap', hp'⟩
      have c1 : m.contains x = true := by simpa using hxm
      have c2 : (m.all fun y => decide (x.w ≤ y.w)) = true := by
        simp only [List.all_eq_true, decide_eq_true_eq]
        exact fun y hy => hmin y (hp.mem_iff.mpr hy)
      simp only [pqJudge, c1, c2, Bool.not_true, Bool.false_eq_true, if_false,
        isPerm_map_a hp', if_true]
  | clear =>
    exact ⟨[], rfl, isHeap_nil, List.Perm.refl _⟩

theorem heapRun_refines : ∀ (ops : List HOp) (h m : List Item), IsHeap h → h.Perm m →
    pqJudgeAll m ops (heapRun h ops) = none
  | [], _, _, _, _ => rfl
  | op :: ops, h, m, hh, hp => by
    obtain ⟨m', h1, h2, h3⟩ := heapStep_refines h m op hh hp
    simp only [heapRun, pqJudgeAll, h1]
    exact heapRun_refines ops _ m' h2 h3

/-- **the heap mirror refines the priority-queue specification**, for every script -/
theorem heapRun_accepted (ops : List HOp) : pqJudgeAll [] ops (heapRun [] ops) = none :=
  heapRun_refines ops [] [] isHeap_nil (List.Perm.refl _)

/-- what `pqJudge` accepts of a `pop`: `None` only on the empty queue, otherwise a queued item of
least score, which leaves the queue -/
theorem pqJudge_pop_sound {m m' : List Item} {r : Option Item} {lay : List Nat}
    (h : pqJudge m .pop (.popped r lay) = .ok m') :
    (r = none → m = [] ∧ m' = []) ∧
    (∀ x, r = some x → x ∈ m ∧ (∀ y ∈ m, x.w ≤ y.w) ∧ m' = m.erase x ∧ lay.Perm (m'.map (·.a))) := by
  cases r with
  | none =>
    simp only [pqJudge] at h
    split at h
    · rename_i hc
      simp only [Bool.and_eq_true, List.isEmpty_iff] at hc
      have hm' : m' = [] := by injection h with h; exact h.symm
      exact ⟨fun _ => ⟨hc.1, hm'⟩, fun x hx => nomatch hx⟩
    · cases h
  | some x =>
    simp only [pqJudge] at h
    constructor
    · intro hx; cases hx
    intro x' hx'
    cases hx'
    split at h
    · cases h
    · rename_i c1
      split at h
      · cases h
      · rename_i c2
        split at h
        · rename_i c3
          cases h
          simp only [Bool.not_eq_true, Bool.not_eq_false', List.contains_iff_mem] at c1
          simp only [Bool.not_eq_true, Bool.not_eq_false', List.all_eq_true, decide_eq_true_eq] at c2
          exact ⟨by simpa using c1, c2, rfl, List.isPerm_iff.mp c3⟩
        · cases h

/-- **`MinScored`'s order on float-like scores is the mirror's order on the keys**: for scores in
range (`|x| < 10^30` for finite `x`; infinities and NaN always), Rust's `a <= b` on
`MinScored<f64, _>` — `MinScored::cmp` transcribed branch by branch incl. the NaN cases — holds iff
`scoreKey b ≤ scoreKey a`, which is `rle` of the heap mirror. -/
theorem scoreRle_eq_rle (a b : SP.Score) (ha : scoreInRangeB a = true) (hb : scoreInRangeB b = true)
    (pa pb qa qb : Nat) :
    scoreRle a b = rle ⟨scoreKey a, pa, qa⟩ ⟨scoreKey b, pb, qb⟩ := by
  unfold scoreRle rle SP.scoreCmp SP.minScoredCmp
  cases a <;> cases b <;>
    simp only [scoreInRangeB, Bool.and_eq_true, decide_eq_true_eq] at ha hb <;>
    simp only [SP.Score.eq, SP.Score.lt, scoreKey]
  case fin.fin x y =>
    by_cases h1 : x = y
    · subst h1; simp
    · by_cases h2 : x < y
      · have h3 : ¬ y ≤ x := by omega
        simp [h1, h2, h3]
      · have h3 : y < x := by omega
        have h4 : y ≤ x := by omega
        simp [h1, h2, h3, h4]
  all_goals first
    | decide
    | (simp; done)
    | (simp; apply decide_eq_false; unfold bigKey at *; omega)
    | (simp; have hlg : (SP.Ord3.less != SP.Ord3.greater) = true := rfl
       rw [hlg]; symm; apply decide_eq_true; unfold bigKey at *; omega)

end PetgraphModel.MstModel
