import PetgraphModel.Proofs.C18W5Built
import PetgraphModel.Theorems.C03
/-
C18 (wave 5) — `GraphMap::from_graph6_string` builds the decoded graph.

After the `add_node(i)` calls for `i in 0..n` the node map has the keys `0, 1, …, n-1` (in this order) and the edge
map is empty; every `add_edge(a, b, ())` with a fresh canonical key `(a, b)` (`a < b < n`) appends `((a, b), 0)` to
the edge map and keeps the key list of the node map.  Hence the key list of the edge map of the result is the decoded
edge list itself.
-/
namespace PetgraphModel.G6V
open PetgraphModel PetgraphModel.Visit

open PetgraphModel.GM PetgraphModel.GMProofs in
/-- the node phase: the keys are `0..n` in this order, no edge -/
theorem gm_nodes_phase (n : Nat) :
    (GM.run (GM.State.empty false) ((List.range n).map GM.Op.addNode)).1 =
      ⟨false, (List.range n).map fun i => (i, []), []⟩ := by
  induction n with
  | zero => rfl
  | succ n ih =>
    rw [List.range_succ, List.map_append, C03W4.run_append, ih]
    simp only [List.map_cons, List.map_nil, GM.run, GM.step, GM.addNode]
    have hc : IMap.contains ((List.range n).map fun i => (i, ([] : Adj))) n = false := by
      rw [contains_eq, Bool.eq_false_iff]
      intro h
      rw [get?_isSome_iff] at h
      simp [IMap.keys] at h
    rw [hc]
    simp

/-- the state between the calls of the edge phase -/
structure EdgePhase (n : Nat) (done : List (Nat × Nat)) (s : GM.State) : Prop where
  directed : s.directed = false
  keys : GM.IMap.keys s.nodes = List.range n
  edges : s.edges = done.map fun e => (e, 0)

open PetgraphModel.GM PetgraphModel.GMProofs in
theorem pushAdj_keys (nodes : IMap Nat Adj) (a : Nat) (e : Nat × Dir) (ha : a ∈ IMap.keys nodes) :
    IMap.keys (pushAdj nodes a e) = IMap.keys nodes := by
  unfold pushAdj
  cases h : IMap.get? nodes a with
  | some l => exact keys_set _ _ _
  | none => rw [get?_eq_none_iff] at h; exact absurd ha h

open PetgraphModel.GM PetgraphModel.GMProofs in
theorem gm_edge_step (n : Nat) (done : List (Nat × Nat)) (s : GM.State) (h : EdgePhase n done s)
    (a b : Nat) (hab : a < b) (hb : b < n) (hfresh : (a, b) ∉ done) :
    EdgePhase n (done ++ [(a, b)]) (GM.addEdge s a b 0).1 := by
  have hk : edgeKey s.directed a b = (a, b) := by
    rw [h.directed]; unfold edgeKey; simp; omega
  have hnone : IMap.get? s.edges (a, b) = none := by
    rw [get?_eq_none_iff, h.edges]
    simpa [IMap.keys] using hfresh
  have hne : a ≠ b := by omega
  rw [addEdge_eq, hk, hnone]
  simp only [IMap.insert, hnone, if_pos hne]
  have ha' : a ∈ IMap.keys s.nodes := by rw [h.keys]; exact List.mem_range.2 (by omega)
  have hb' : b ∈ IMap.keys s.nodes := by rw [h.keys]; exact List.mem_range.2 hb
  refine ⟨h.directed, ?_, ?_⟩
  · show IMap.keys (pushAdj (pushAdj s.nodes a (b, .out)) b (a, .inc)) = List.range n
    rw [pushAdj_keys _ _ _ (by rw [pushAdj_keys _ _ _ ha']; exact hb'), pushAdj_keys _ _ _ ha', h.keys]
  · show s.edges ++ [((a, b), 0)] = _
    rw [h.edges]; simp

theorem gm_edges_phase (n : Nat) (es done : List (Nat × Nat)) (s : GM.State) (h : EdgePhase n done s)
    (hes : ∀ e ∈ es, e.1 < e.2 ∧ e.2 < n) (hnd : (done ++ es).Nodup) :
    EdgePhase n (done ++ es) (GM.run s (es.map fun e => GM.Op.addEdge e.1 e.2 0)).1 := by
  induction es generalizing done s with
  | nil => simpa [GM.run] using h
  | cons e t ih =>
    obtain ⟨a, b⟩ := e
    have hab := hes (a, b) List.mem_cons_self
    have hfresh : (a, b) ∉ done := by
      intro hm
      rw [List.nodup_append] at hnd
      exact hnd.2.2 _ hm _ List.mem_cons_self rfl
    have h' := gm_edge_step n done s h a b hab.1 hab.2 hfresh
    have := ih (done ++ [(a, b)]) (GM.addEdge s a b 0).1 h'
      (fun e he => hes e (List.mem_cons_of_mem _ he)) (by simpa using hnd)
    simpa [GM.run, GM.step] using this

/-- `GraphMap::from_graph6_string`: if the decoder answers `(n, es)`, the call builds the nodes `0..n` (in this order) and
exactly the decoded edges. -/
theorem fromGraph6GraphMap_built (str : List Char) (n : Nat) (es : List (Nat × Nat))
    (hd : G6.decode str = some (n, es)) (hes : ∀ e ∈ es, e.1 < e.2 ∧ e.2 < n) (hnd : es.Nodup) :
    ∃ s, fromGraph6GraphMap str = some s ∧ C03T.Inv s ∧ s.directed = false ∧ Built 1 (graphMapTable s) n es := by
  refine ⟨(GM.run (GM.State.empty false) (graphMapOps n es)).1, ?_, (C03T.C03_all_histories false (graphMapOps n es)).1, ?_⟩
  · unfold fromGraph6GraphMap; rw [hd]
  have h0 : EdgePhase n [] (GM.run (GM.State.empty false) ((List.range n).map GM.Op.addNode)).1 := by
    rw [gm_nodes_phase]
    exact ⟨rfl, by simp [GM.IMap.keys, Function.comp_def], rfl⟩
  have h := gm_edges_phase n es [] _ h0 hes (by simpa using hnd)
  rw [← C03W4.run_append] at h
  rw [List.nil_append] at h
  change EdgePhase n es (GM.run (GM.State.empty false) (graphMapOps n es)).1 at h
  generalize (GM.run (GM.State.empty false) (graphMapOps n es)).1 = s at h
  refine ⟨h.directed, ⟨h.directed, ?_, ?_, ?_, ?_⟩⟩
  · show some (GM.nodesOf s) = _
    rw [GM.nodesOf, h.keys]
  · show some (GM.nodeCount s) = _
    have := congrArg List.length h.keys
    simp [GM.IMap.keys] at this
    rw [GM.nodeCount, this]
  · show some (GM.edgeCount s) = _
    rw [GM.edgeCount, h.edges, List.length_map]
  · refine ⟨_, rfl, ?_⟩
    have : (List.map (fun e : Visit.ERef => (min e.src e.tgt, max e.src e.tgt))
        ((GM.allEdges s).map fun e => GMView.eref s (e.1, e.2.1, some e.2.2))) = es := by
      rw [GM.allEdges, h.edges]
      simp only [List.map_map]
      conv => rhs; rw [← List.map_id es]
      apply List.map_congr_left
      intro e he
      have := hes e he
      simp only [Function.comp, GMView.eref, id]
      rw [Nat.min_eq_left (by omega), Nat.max_eq_right (by omega)]
    rw [this]
    simp

theorem fromGraph6GraphMap_decode_none (str : List Char) (hd : G6.decode str = none) : fromGraph6GraphMap str = none := by
  unfold fromGraph6GraphMap; rw [hd]

end PetgraphModel.G6V
