import PetgraphModel.Proofs.C13W2Search
import PetgraphModel.Proofs.C13W2Count
/-
C13, wave 2 — completeness of the VF2 mirror model: the loop, `isomorphisms()` (one `next()` call), the
drained iterator.
-/
namespace PetgraphModel.C13.Vf2
open PetgraphModel

/-- what one run of the `while let` loop does to the set of pending mappings -/
structure LoopPost (I : Inst) (m : M) (result : Result) (m' : M) (r : Result) : Prop where
  tinv : TInv I m'
  shape : m'.stack = [] ∨ ∃ a b ol st, m'.stack = Frame.inner a b ol :: st
  done : r = none → m'.stack = []
  pend : ∀ mp, Final I mp →
    ((Pending I mp m'.stack ∨ r = some mp) ↔ (Pending I mp m.stack ∨ result = some mp)) ∧
    (¬ (Pending I mp m.stack ∧ result = some mp) → ¬ (Pending I mp m'.stack ∧ r = some mp))

theorem isoLoop_pending {I : Inst} (ok0 : CGOk I.g0) (ok1 : CGOk I.g1) (hd : I.g0.directed = I.g1.directed)
    (hin : I.g0.directed = true → ∀ i, (I.g0.inNb i).Nodup) {sub : Bool}
    (hsizes : ∀ tr mp, Final I mp → ExtT mp tr → sizesOkS sub (SG I.g0 tr) (SG I.g1 (tr.map Prod.swap)) = true) :
    ∀ (fuel : Nat) (m : M) (result : Result) (m' : M) (r : Result),
      Inv I m → Good I result → TInv I m → ResOk m result →
      isoLoop I sub fuel m result = some (m', r) → LoopPost I m result m' r := by
  intro fuel
  induction fuel with
  | zero => intro m result m' r _ _ _ _ h; simp [isoLoop] at h
  | succ fuel ih =>
    intro m result m' r hinv hg ht hres h
    rw [isoLoop] at h
    split at h
    · rename_i hs
      cases h
      exact ⟨ht, Or.inl hs, fun _ => hs, fun mp f => ⟨Iff.rfl, id⟩⟩
    · rename_i fr rest hs
      split at h
      rename_i m2 r2 chk hstep
      have hi2 := frameStep_inv ok0 ok1 hd hinv hs hg hstep
      obtain ⟨t2, hr2, hc2, hp2⟩ := frameStep_pending ok0 ok1 hd hin hsizes hinv ht hs hres hstep
      split at h
      · rename_i hret
        cases h
        simp only [Bool.and_eq_true] at hret
        refine ⟨t2, Or.inr (hc2 hret.1), ?_, hp2⟩
        intro hn; rw [hn] at hret; exact absurd hret.2 (by simp)
      · rename_i hret
        have hres2 : ResOk m2 r2 := by
          cases hchk : chk with
          | false => exact hr2 hchk
          | true =>
            intro hsome
            exfalso; apply hret
            simp [hchk, hsome]
        have post := ih m2 r2 m' r hi2.1 hi2.2 t2 hres2 h
        refine ⟨post.tinv, post.shape, post.done, ?_⟩
        intro mp f
        have a := post.pend mp f
        have b := hp2 mp f
        exact ⟨a.1.trans b.1, fun hx => a.2 (b.2 hx)⟩

/-- one call of `next()` from a state that is not complete -/
structure CallPost (I : Inst) (m m' : M) (r : Result) : Prop where
  inv : Inv I m'
  tinv : TInv I m'
  inc : m'.s0.isComplete = false
  good : Good I r
  done : r = none → m'.stack = []
  pend : ∀ mp, Final I mp →
    ((Pending I mp m'.stack ∨ r = some mp) ↔ Pending I mp m.stack) ∧ ¬ (Pending I mp m'.stack ∧ r = some mp)

theorem isomorphisms_pending {I : Inst} (ok0 : CGOk I.g0) (ok1 : CGOk I.g1) (hd : I.g0.directed = I.g1.directed)
    (hin : I.g0.directed = true → ∀ i, (I.g0.inNb i).Nodup) (hn : 0 < I.g0.n) {sub : Bool}
    (hsizes : ∀ tr mp, Final I mp → ExtT mp tr → sizesOkS sub (SG I.g0 tr) (SG I.g1 (tr.map Prod.swap)) = true)
    {fuel : Nat} {m m' : M} {r : Result} (hinv : Inv I m) (ht : TInv I m) (hinc : m.s0.isComplete = false)
    (h : isomorphisms I sub fuel m = some (m', r)) : CallPost I m m' r := by
  have snd := isomorphisms_sound ok0 ok1 hd sub fuel m m' r hinv h
  unfold isomorphisms at h
  rw [hinc] at h
  simp only [Bool.false_eq_true, if_false] at h
  have post := isoLoop_pending ok0 ok1 hd hin hsizes fuel m none m' r hinv (fun mp hmp => by cases hmp) ht
    (fun hs => by cases hs) h
  refine ⟨snd.1, post.tinv, ?_, snd.2, post.done, ?_⟩
  · rcases post.shape with hs | ⟨a, b, ol, st, hs⟩
    · have := post.tinv.s0
      rw [hs] at this
      rw [this]
      show (St.new I.g0).isComplete = false
      simp only [St.isComplete, St.new, List.length_replicate, beq_eq_false_iff_ne, ne_eq]
      omega
    · obtain ⟨ha, _, ha', _⟩ := snd.1.innerHead a b ol st hs
      exact incomplete_of_gen_lt snd.1.core (snd.1.core.gen_lt ha ha')
  · intro mp f
    have := post.pend mp f
    refine ⟨?_, this.2 (fun hx => by cases hx.2)⟩
    rw [this.1]
    simp

/-! ### the drained iterator -/

/- `inNodupB` (executable side condition: the `Incoming` lists of a directed graph have no repeated entry),
`fuelOk` and `iterFuelOk` are defined in `Model/C13Vf2Side.lean` (the driver evaluates them). -/

theorem inNodupB_sound {g : CG} (h : cgOkB g = true) (hb : inNodupB g = true) :
    g.directed = true → ∀ i, (g.inNb i).Nodup := by
  intro hd i
  unfold cgOkB at h
  simp only [Bool.and_eq_true, beq_iff_eq] at h
  have hli : g.inN.length = g.n := h.1.1.1.2
  by_cases hi : i < g.n
  · simp only [inNodupB, hd, Bool.not_true, Bool.false_or, List.all_eq_true, List.mem_range,
      decide_eq_true_eq] at hb
    exact hb i hi
  · rw [inNb_nil_of_ge hli (Nat.le_of_not_lt hi)]; exact List.nodup_nil



theorem iterLoop_complete {I : Inst} (ok0 : CGOk I.g0) (ok1 : CGOk I.g1) (hd : I.g0.directed = I.g1.directed)
    (hin : I.g0.directed = true → ∀ i, (I.g0.inNb i).Nodup) (hn : 0 < I.g0.n)
    (p0 : I.g0.abs.Perm (List.range I.g0.n)) (p1 : I.g1.abs.Perm (List.range I.g1.n)) :
    ∀ (k : Nat) (m : M) (acc : List (List Nat)),
      Inv I m → TInv I m → m.s0.isComplete = false → fuelOk I k m = true →
      acc.Nodup → (∀ mp, Final I mp → (toAbstract I mp ∈ acc ↔ ¬ Pending I mp m.stack)) →
      (iterLoop I k m acc).2 = true →
      (iterLoop I k m acc).1.Nodup ∧ ∀ mp, Final I mp → toAbstract I mp ∈ (iterLoop I k m acc).1 := by
  intro k
  induction k with
  | zero =>
    intro m acc hinv ht hinc hfuel hnd hacc hfin
    unfold iterLoop at hfin ⊢
    unfold fuelOk at hfuel
    split
    · rename_i heq
      rw [heq] at hfin; cases hfin
    · rename_i hne
      cases hiso : isomorphisms I true bigFuel m with
      | none => rw [hiso] at hfuel; cases hfuel
      | some pr =>
        obtain ⟨m', r⟩ := pr
        cases r with
        | some mp' => exact absurd hiso (hne m' mp')
        | none =>
          have post := isomorphisms_pending ok0 ok1 hd hin hn (ExtT.sizesOkS_sub ok0 ok1 hd) hinv ht hinc hiso
          have hst := post.done rfl
          refine ⟨List.nodup_reverse.mpr hnd, ?_⟩
          intro mp f
          rw [List.mem_reverse, hacc mp f]
          intro hp
          have := ((post.pend mp f).1).mpr hp
          rw [hst] at this
          rcases this with h | h
          · exact h
          · cases h
  | succ k ih =>
    intro m acc hinv ht hinc hfuel hnd hacc hfin
    unfold iterLoop at hfin ⊢
    unfold fuelOk at hfuel
    cases hiso : isomorphisms I true bigFuel m with
    | none => rw [hiso] at hfuel; cases hfuel
    | some pr =>
      obtain ⟨m', r⟩ := pr
      have post := isomorphisms_pending ok0 ok1 hd hin hn (ExtT.sizesOkS_sub ok0 ok1 hd) hinv ht hinc hiso
      cases r with
      | none =>
        have hst := post.done rfl
        show acc.reverse.Nodup ∧ ∀ mp, Final I mp → toAbstract I mp ∈ acc.reverse
        refine ⟨List.nodup_reverse.mpr hnd, ?_⟩
        intro mp f
        rw [List.mem_reverse, hacc mp f]
        intro hp
        have := ((post.pend mp f).1).mpr hp
        rw [hst] at this
        rcases this with h | h
        · exact h
        · cases h
      | some mp' =>
        rw [hiso] at hfuel hfin
        have hfuel : fuelOk I k m' = true := hfuel
        have hfin : (iterLoop I k m' (toAbstract I mp' :: acc)).2 = true := hfin
        show (iterLoop I k m' (toAbstract I mp' :: acc)).1.Nodup ∧
          ∀ mp, Final I mp → toAbstract I mp ∈ (iterLoop I k m' (toAbstract I mp' :: acc)).1
        have f' : Final I mp' := post.good mp' rfl
        have pp' := post.pend mp' f'
        have hpend' : Pending I mp' m.stack := pp'.1.mp (Or.inr rfl)
        apply ih m' (toAbstract I mp' :: acc) post.inv post.tinv post.inc hfuel
        · refine List.nodup_cons.mpr ⟨?_, hnd⟩
          intro hmem
          exact (hacc mp' f').mp hmem hpend'
        · intro mp f
          have pp := post.pend mp f
          constructor
          · intro hmem hp
            rcases List.mem_cons.mp hmem with heq | hmem
            · have : mp = mp' := toAbstract_inj p0 p1 f f' heq
              subst this
              exact pp.2 ⟨hp, rfl⟩
            · exact (hacc mp f).mp hmem (pp.1.mp (Or.inl hp))
          · intro hnp
            by_cases heq : mp = mp'
            · subst heq; exact List.mem_cons_self
            · refine List.mem_cons_of_mem _ ((hacc mp f).mpr ?_)
              intro hp
              rcases pp.1.mpr hp with h | h
              · exact hnp h
              · exact heq (Option.some.inj h).symm
        · exact hfin

/-- completeness of the model's `subgraph_isomorphisms_iter` when the drained iterator reports its end -/
theorem iterModel_complete {I : Inst} (ok0 : CGOk I.g0) (ok1 : CGOk I.g1) (hd : I.g0.directed = I.g1.directed)
    (hin : I.g0.directed = true → ∀ i, (I.g0.inNb i).Nodup) (hn : 0 < I.g0.n)
    (p0 : I.g0.abs.Perm (List.range I.g0.n)) (p1 : I.g1.abs.Perm (List.range I.g1.n))
    (hfuel : iterFuelOk I = true) {vs : List (List Nat)} (h : iterModel I = some (vs, true)) :
    vs.Nodup ∧ ∀ mp, Final I mp → toAbstract I mp ∈ vs := by
  unfold iterModel at h
  split at h
  · cases h
  · simp only [Option.some.injEq] at h
    have tinit : TInv I (M.init I) := by
      refine ⟨rfl, rfl, ?_, ?_⟩
      · intro fr hfr; simp [M.init] at hfr
      · show FrOk I [Frame.outer]
        simp [FrOk]
    have hinc : (M.init I).s0.isComplete = false := by
      show (St.new I.g0).isComplete = false
      simp only [St.isComplete, St.new, List.length_replicate, beq_eq_false_iff_ne, ne_eq]
      omega
    have := iterLoop_complete ok0 ok1 hd hin hn p0 p1 (fallingFact I.g1.n I.g0.n + 2) (M.init I) []
      (init_inv I) tinit hinc hfuel List.nodup_nil
      (by
        intro mp f
        simp only [List.not_mem_nil, false_iff, not_not]
        show Pending I mp [Frame.outer]
        simp only [Pending, trailOf_nil, List.length_nil]
        exact Or.inl ⟨fun p hp => (by cases hp), hn⟩)
      (by rw [h])
    rw [h] at this
    exact this

end PetgraphModel.C13.Vf2
