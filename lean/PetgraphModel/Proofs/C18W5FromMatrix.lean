import PetgraphModel.Proofs.C18W5Built
import PetgraphModel.Theorems.C04
/-
C18 (wave 5) — `MatrixGraph::from_graph6_string` builds what the decoder answered.

`fromGraph6Matrix` = `with_capacity(order)`; `add_node(())` × order; `extend_with_edges(edges)` on the storage model
`Model/Matrix.lean`.  The construction is followed with the invariant `MXB.Mid` (C04 invariant and abstraction relation,
undirected, `Option` null element, no id ever removed, `upper_bound = k`): `add_node` hands out `0, 1, 2, …` and panics
exactly at `Ix::max()`; with every endpoint an existing node the `while` loop of `extend_with_edges` does nothing and each
`add_edge` is between live nodes on an absent pair (the decoded list is duplicate-free and oriented `a < b`), so
`assert!(old.is_none())` holds.  `edge_references` is then a permutation of the abstract edge list
(`MatrixProofs.edgeRefs_perm`), whose keys are the decoded pairs reversed.
-/
namespace PetgraphModel.G6V
open PetgraphModel PetgraphModel.Visit

namespace MXB
open PetgraphModel.Matrix PetgraphModel.MatrixSpec PetgraphModel.MatrixProofs

theorem addNode_eq (s : State) (w : Int) (hrem : s.nodes.removed = []) :
    addNode s w = if s.nodes.len % (s.ixMax + 1) = s.ixMax then (s, .panic) else
      ({ s with nodes := { s.nodes with
            elements := (resizeWith s.nodes.elements (s.nodes.upperBound + 1) none).setIfInBounds s.nodes.upperBound (some w),
            upperBound := s.nodes.upperBound + 1 } }, .id (s.nodes.upperBound % (s.ixMax + 1))) := by
  unfold addNode tryAddNode IdStorage.add
  rw [hrem]
  by_cases h : s.nodes.len % (s.ixMax + 1) = s.ixMax <;> simp [h, hrem]

theorem addNode_frame (s : State) (w : Int) (s' : State) (id : Nat) (hrem : s.nodes.removed = [])
    (e : addNode s w = (s', .id id)) :
    s'.dir = s.dir ∧ s'.nz = s.nz ∧ s'.ixMax = s.ixMax ∧ s'.nodes.removed = [] ∧
      s'.nodes.upperBound = s.nodes.upperBound + 1 := by
  rw [addNode_eq s w hrem] at e
  split at e
  · simp at e
  · injection e with e1 e2
    subst e1
    simp [hrem]

theorem extendForEdge_frame (s s1 : State) (a b : Nat) (e : extendForEdge s a b = .ok s1) :
    s1.dir = s.dir ∧ s1.nz = s.nz ∧ s1.ixMax = s.ixMax ∧ s1.nodes = s.nodes := by
  unfold extendForEdge at e
  simp only at e
  split at e
  · split at e
    · injection e with e; subst e; simp
    · simp at e
  · injection e with e; subst e; simp

theorem updateEdge_frame (s : State) (a b : Nat) (w : Int) :
    (updateEdge s a b w).1.dir = s.dir ∧ (updateEdge s a b w).1.nz = s.nz ∧
      (updateEdge s a b w).1.ixMax = s.ixMax ∧ (updateEdge s a b w).1.nodes = s.nodes := by
  unfold updateEdge
  cases h : extendForEdge s a b with
  | error e => simp
  | ok s1 =>
    have := extendForEdge_frame s s1 a b h
    simp only
    split
    · exact this
    · split
      · exact this
      · exact this

theorem addEdge_frame (s : State) (a b : Nat) (w : Int) :
    (addEdge s a b w).1.dir = s.dir ∧ (addEdge s a b w).1.nz = s.nz ∧ (addEdge s a b w).1.ixMax = s.ixMax ∧
      (addEdge s a b w).1.nodes = s.nodes := by
  have := updateEdge_frame s a b w
  unfold addEdge
  split
  · rename_i h; rw [h] at this; exact this
  · rename_i h; rw [h] at this; exact this
  · exact this

structure Mid (ixMax : Nat) (s : State) (g : G) (k : Nat) : Prop where
  inv : MatrixProofs.Inv s
  r : R s g
  dir : s.dir = false
  nz : s.nz = false
  ix : s.ixMax = ixMax
  rem : s.nodes.removed = []
  ub : s.nodes.upperBound = k

theorem Mid.ids {ixMax : Nat} {s : State} {g : G} {k : Nat} (m : Mid ixMax s g k) :
    s.nodes.ids = List.range k := by
  unfold IdStorage.ids
  rw [m.rem, m.ub]
  simp

theorem Mid.len {ixMax : Nat} {s : State} {g : G} {k : Nat} (m : Mid ixMax s g k) :
    s.nodes.len = k := by
  unfold IdStorage.len
  rw [m.rem, m.ub]; rfl

theorem Mid.live {ixMax : Nat} {s : State} {g : G} {k : Nat} (m : Mid ixMax s g k) (x : Nat) :
    g.live x = true ↔ x < k := by
  rw [live_eq m.r, ← Ids.mem_ids_iff_live m.inv.ids, m.ids, List.mem_range]

theorem Mid.stepAdd {ixMax : Nat} {s : State} {g : G} {k : Nat} (m : Mid ixMax s g k) (hk : k < ixMax) :
    ∃ s' id, Matrix.addNode s 0 = (s', Out.id id) ∧ Mid ixMax s' (g.addNode id 0) (k + 1) := by
  have hne : g.nodeCount ≠ s.ixMax := by rw [m.r.ncount, m.len, m.ix]; omega
  obtain ⟨s', id, e, _, hi, hr⟩ := (addNode_spec m.inv m.r 0).2 hne
  obtain ⟨f1, f2, f3, f4, f5⟩ := addNode_frame s 0 s' id m.rem e
  exact ⟨s', id, e, hi, hr, by rw [f1, m.dir], by rw [f2, m.nz], by rw [f3, m.ix], f4, by rw [f5, m.ub]⟩

theorem Mid.stepPanic {ixMax : Nat} {s : State} {g : G} (m : Mid ixMax s g ixMax) :
    Matrix.addNode s 0 = (s, Out.panic) :=
  (addNode_spec m.inv m.r 0).1 (by rw [m.r.ncount, m.len, m.ix])

theorem run_cons (s : State) (op : Matrix.Op) (ops : List Matrix.Op) :
    run s (op :: ops) = ((run (step s op).1 ops).1, (step s op).2 :: (run (step s op).1 ops).2) := rfl

theorem run_addNodes (ixMax : Nat) : ∀ (j : Nat) (s : State) (g : G) (k : Nat), Mid ixMax s g k → k + j ≤ ixMax →
    ∃ g', Mid ixMax (run s (List.replicate j (.addNode 0))).1 g' (k + j) ∧ g'.edges = g.edges ∧
      (run s (List.replicate j (.addNode 0))).2.any mxPanicked = false
  | 0, s, g, k, m, _ => ⟨g, m, rfl, rfl⟩
  | j + 1, s, g, k, m, hk => by
    obtain ⟨s', id, e, m'⟩ := m.stepAdd (by omega)
    obtain ⟨g', m'', he, hp⟩ := run_addNodes ixMax j s' _ (k + 1) m' (by omega)
    rw [List.replicate_succ, run_cons]
    have hs : step s (.addNode 0) = (s', .id id) := e
    rw [hs]
    refine ⟨g', ?_, he, ?_⟩
    · rw [show k + (j + 1) = k + 1 + j by omega]; exact m''
    · simp only [List.any_cons, hp, mxPanicked, Bool.or_false]

theorem run_addNodes_panic (ixMax : Nat) : ∀ (j : Nat) (s : State) (g : G) (k : Nat), Mid ixMax s g k → k ≤ ixMax →
    ixMax < k + j → (run s (List.replicate j (.addNode 0))).2.any mxPanicked = true
  | 0, s, g, k, m, h1, h2 => by omega
  | j + 1, s, g, k, m, h1, h2 => by
    rw [List.replicate_succ, run_cons]
    by_cases hk : k = ixMax
    · subst hk
      have hs : step s (.addNode 0) = (s, .panic) := m.stepPanic
      rw [hs]
      simp [mxPanicked]
    · obtain ⟨s', id, e, m'⟩ := m.stepAdd (by omega)
      have hs : step s (.addNode 0) = (s', .id id) := e
      rw [hs]
      have := run_addNodes_panic ixMax j s' _ (k + 1) m' (by omega) (by omega)
      simp only [List.any_cons, this, Bool.or_true]

theorem extend_cons (s : State) (a b : Nat) (w : Int) (rest : List (Nat × Nat × Int))
    (h : max a b < s.nodes.len) :
    extendWithEdges s ((a, b, w) :: rest) =
      match addEdge s a b w with
      | (s2, .unit) => extendWithEdges s2 rest
      | r => r := by
  rw [extendWithEdges]
  have h0 : max a b + 1 - s.nodes.len = 0 := by omega
  simp only [h0, addNodesUpTo]
  rfl

theorem key_false (a b : Nat) (h : a < b) : key false a b = (b, a) := by
  unfold key
  simp only [Bool.false_eq_true, if_false]
  rw [Nat.max_eq_right (by omega), Nat.min_eq_left (by omega)]

theorem extend_edges (ixMax n : Nat) : ∀ (es : List (Nat × Nat)) (s : State) (g : G), Mid ixMax s g n →
    (∀ e ∈ es, e.1 < e.2 ∧ e.2 < n) → es.Nodup → (∀ e ∈ es, g.weight e.1 e.2 = none) →
    ∃ s' g', extendWithEdges s (unitEdgesZ es) = (s', .unit) ∧ Mid ixMax s' g' n ∧
      (g'.edges.map (·.1)).Perm (es.map (fun e => (e.2, e.1)) ++ g.edges.map (·.1))
  | [], s, g, m, _, _, _ => ⟨s, g, rfl, m, by simp⟩
  | (a, b) :: rest, s, g, m, hes, hnd, hw => by
    have hab := hes (a, b) (List.mem_cons_self ..)
    simp only at hab
    have hgd : g.directed = false := by rw [m.r.dir, m.dir]
    have ha : g.live a = true := (m.live a).2 (by omega)
    have hb : g.live b = true := (m.live b).2 hab.2
    have hwab : g.weight a b = none := hw (a, b) (List.mem_cons_self ..)
    obtain ⟨s', e, hi, hr⟩ := (addEdge_spec m.inv m.r ha hb 0).2 (by rw [m.nz]; simp)
    rw [hwab] at e
    simp only [Option.isSome_none, Bool.false_eq_true, if_false] at e
    obtain ⟨f1, f2, f3, f4⟩ := addEdge_frame s a b 0
    rw [e] at f1 f2 f3 f4
    simp only at f1 f2 f3 f4
    have m' : Mid ixMax s' (g.setEdge a b 0) n :=
      ⟨hi, hr, by rw [f1, m.dir], by rw [f2, m.nz], by rw [f3, m.ix], by rw [f4, m.rem], by rw [f4, m.ub]⟩
    have hnd' := List.nodup_cons.1 hnd
    have hw' : ∀ e ∈ rest, (g.setEdge a b 0).weight e.1 e.2 = none := by
      intro e' he'
      rw [Spec.weight_setEdge, hgd]
      have h1 := hes e' (List.mem_cons_of_mem _ he')
      rw [key_false _ _ h1.1, key_false _ _ hab.1]
      rw [if_neg]
      · exact hw e' (List.mem_cons_of_mem _ he')
      · intro heq
        injection heq with h2 h3
        apply hnd'.1
        have : e' = (a, b) := Prod.ext h3 h2
        rw [← this]; exact he'
    obtain ⟨s'', g'', e2, m'', hp⟩ := extend_edges ixMax n rest s' _ m'
      (fun e he => hes e (List.mem_cons_of_mem _ he)) hnd'.2 hw'
    refine ⟨s'', g'', ?_, m'', ?_⟩
    · show extendWithEdges s ((a, b, 0) :: unitEdgesZ rest) = _
      rw [extend_cons s a b 0 _ (by rw [m.len]; omega), e]
      exact e2
    · have hfil : (g.setEdge a b 0).edges = ((b, a), 0) :: g.edges := by
        unfold G.setEdge
        simp only
        rw [hgd, key_false _ _ hab.1]
        congr 1
        rw [List.filter_eq_self]
        intro x hx
        unfold G.weight at hwab
        rw [Option.map_eq_none_iff, List.find?_eq_none] at hwab
        have := hwab x hx
        rw [hgd, key_false _ _ hab.1] at this
        simpa using this
      rw [hfil] at hp
      simp only [List.map_cons] at hp ⊢
      exact hp.trans List.perm_middle

theorem withCapacity_nodes (dir nz : Bool) (ixMax k : Nat) (s : State)
    (e : withCapacity dir nz ixMax k = .ok s) : s.nodes = {} := by
  unfold withCapacity at e
  simp only at e
  split at e
  · split at e
    · injection e with e; subst e; rfl
    · simp at e
  · injection e with e; subst e; rfl

end MXB

open PetgraphModel.Matrix PetgraphModel.MatrixSpec PetgraphModel.MatrixProofs in
/-- `MatrixGraph::from_graph6_string`: if the decoder answers `(n, es)` and the index type has room (`ixMax = Ix::max()`),
the call does not panic and builds the nodes `0..n` and exactly the decoded edges. -/
theorem fromGraph6Matrix_built (ixMax : Nat) (str : List Char) (n : Nat) (es : List (Nat × Nat))
    (hd : G6.decode str = some (n, es)) (hes : ∀ e ∈ es, e.1 < e.2 ∧ e.2 < n) (hnd : es.Nodup)
    (hfit : n ≤ ixMax) :
    ∃ s g, fromGraph6Matrix ixMax str = some s ∧ C04T.Inv s ∧ C04T.R s g ∧ s.dir = false ∧
      s.nodes.ids = List.range n ∧ Built 1 (matrixTable s) n es := by
  obtain ⟨s0, e0, hi0, hr0, hd0, hnz0, hix0, _⟩ := withCapacity_spec false false ixMax n
  have hn0 := MXB.withCapacity_nodes _ _ _ _ _ e0
  have m0 : MXB.Mid ixMax s0 (MatrixSpec.G.empty false) 0 :=
    ⟨hi0, hr0, hd0, hnz0, hix0, by rw [hn0], by rw [hn0]⟩
  obtain ⟨g1, m1, he1, hp1⟩ := MXB.run_addNodes ixMax n s0 _ 0 m0 (by omega)
  rw [Nat.zero_add] at m1
  have hw1 : ∀ e ∈ es, g1.weight e.1 e.2 = none := by
    intro e _
    unfold G.weight
    rw [he1]; rfl
  obtain ⟨s2, g2, e2, m2, hp2⟩ := MXB.extend_edges ixMax n es _ g1 m1 hes hnd hw1
  rw [he1] at hp2
  have hp2' : (g2.edges.map (·.1)).Perm (es.map fun e => (e.2, e.1)) := by
    have h0 : (MatrixSpec.G.empty false).edges = [] := rfl
    rw [h0, List.map_nil, List.append_nil] at hp2
    exact hp2
  refine ⟨s2, g2, ?_, m2.inv, m2.r, m2.dir, m2.ids, ⟨m2.dir, ?_, ?_, ?_, ?_⟩⟩
  · unfold fromGraph6Matrix
    rw [hd]
    simp only [e0, hp1, e2, mxPanicked]
    rfl
  · show some s2.nodes.ids = _
    rw [m2.ids]
  · show some s2.nodes.len = _
    rw [m2.len]
  · show some s2.nbEdges = _
    rw [← m2.r.count]
    have := hp2'.length_eq
    simp only [List.length_map] at this
    rw [G.edgeCount, this]
  · refine ⟨_, rfl, ?_⟩
    have hperm := (edgeRefs_perm m2.r).map (fun p => (p.1.2, p.1.1))
    rw [List.map_map]
    have hfl : (es.flatMap fun e => List.replicate 1 e) = es := by
      simp [List.replicate]
    rw [hfl]
    have h1 : ((fun e : ERef => (min e.src e.tgt, max e.src e.tgt)) ∘ MXView.eref s2) =
        ((fun p : (Nat × Nat) × Int => (p.1.2, p.1.1)) ∘ fun t : Nat × Nat × Int => (key s2.dir t.1 t.2.1, t.2.2)) := by
      funext t
      simp only [Function.comp, MXView.eref, key, m2.dir, Bool.false_eq_true, if_false]
    rw [h1, ← List.map_map]
    refine hperm.trans ?_
    have h2 := hp2'.map (fun p : Nat × Nat => (p.2, p.1))
    rw [List.map_map, List.map_map] at h2
    have h3 : ((fun p : Nat × Nat => (p.2, p.1)) ∘ fun e : Nat × Nat => (e.2, e.1)) = id := by
      funext e; rfl
    rw [h3, List.map_id] at h2
    exact h2

open PetgraphModel.Matrix PetgraphModel.MatrixSpec PetgraphModel.MatrixProofs in
/-- … and panics (`add_node`: index limit) when the index type is too small -/
theorem fromGraph6Matrix_panics (ixMax : Nat) (str : List Char) (n : Nat) (es : List (Nat × Nat))
    (hd : G6.decode str = some (n, es)) (hfit : ¬ n ≤ ixMax) : fromGraph6Matrix ixMax str = none := by
  obtain ⟨s0, e0, hi0, hr0, hd0, hnz0, hix0, _⟩ := withCapacity_spec false false ixMax n
  have hn0 := MXB.withCapacity_nodes _ _ _ _ _ e0
  have m0 : MXB.Mid ixMax s0 (MatrixSpec.G.empty false) 0 :=
    ⟨hi0, hr0, hd0, hnz0, hix0, by rw [hn0], by rw [hn0]⟩
  have hp := MXB.run_addNodes_panic ixMax n s0 _ 0 m0 (by omega) (by omega)
  unfold fromGraph6Matrix
  rw [hd]
  simp only [e0, hp, if_true]

theorem fromGraph6Matrix_decode_none (ixMax : Nat) (str : List Char) (hd : G6.decode str = none) :
    fromGraph6Matrix ixMax str = none := by
  unfold fromGraph6Matrix
  rw [hd]

end PetgraphModel.G6V
