import PetgraphModel.Proofs.C16W2ApInv
/-
C16, second wave — articulation points, Part I (g): the invariant is preserved by a `noBack` step
(the finished child `u` is folded into its parent `p`: low-link update and the non-root test).
-/
namespace PetgraphModel.C16P.W2Ap
open PetgraphModel MGraph C16M

section
variable {v : View} {u p : Nat} {P R : List Nat} {rest : List (Nat × FS)} {st : AP}

theorem finished_pop {x : Nat} (h : Finished ((p, .run P R) :: rest) st x) :
    Finished ((u, .fin) :: (p, .run P R) :: rest) st x := by
  refine ⟨h.1, fun s hs => ?_⟩
  cases List.mem_cons.mp hs with
  | inl h' => cases h'; rfl
  | inr h' => exact h.2 s h'

theorem folded_pop_mk {x : Nat} (h : Folded ((u, .fin) :: (p, .run P R) :: rest) st x) :
    Folded ((p, .run P R) :: rest) st x :=
  ⟨h.1, fun s hs => h.2 s (List.mem_cons_of_mem _ hs)⟩

theorem folded_pop {x : Nat} (h : Folded ((p, .run P R) :: rest) st x) :
    x = u ∨ Folded ((u, .fin) :: (p, .run P R) :: rest) st x := by
  by_cases hxu : x = u
  · exact Or.inl hxu
  · refine Or.inr ⟨h.1, fun s hs => ?_⟩
    cases List.mem_cons.mp hs with
    | inl h' => cases h'; exact hxu rfl
    | inr h' => exact h.2 s h'

/-- facts shared by the groups -/
structure PopFacts (v : View) (u p : Nat) (P R : List Nat) (rest : List (Nat × FS)) (st : AP) : Prop where
  huv : u ∈ st.visited
  hpv : p ∈ st.visited
  hne : u ≠ p
  hpar : pO st u = some p
  hufold : Folded ((p, .run P R) :: rest) st u
  hpl : p < st.low.length

theorem popFacts (hi : IndexOk v) (C : Core v ((u, .fin) :: (p, .run P R) :: rest) st) :
    PopFacts v u p P R rest st := by
  have hmu : (u, FS.fin) ∈ (u, FS.fin) :: (p, FS.run P R) :: rest := List.mem_cons_self ..
  have hmp : (p, FS.run P R) ∈ (u, FS.fin) :: (p, FS.run P R) :: rest :=
    List.mem_cons_of_mem _ (List.mem_cons_self ..)
  have huv := C.nonpend_vis u _ hmu (by intro h; cases h)
  have hpv := C.nonpend_vis p _ hmp (by intro h; cases h)
  have hnot : ∀ s, (u, s) ∉ (p, FS.run P R) :: rest := C.head_notin
  refine ⟨huv, hpv, ?_, C.chain.1, ⟨huv, hnot⟩, (C.lt_nb hi (C.gvalid p _ hmp)).2.2.1⟩
  intro h; subst h
  exact hnot _ (List.mem_cons_self ..)

theorem core_pop (C : Core v ((u, .fin) :: (p, .run P R) :: rest) st) :
    Core v ((p, .run P R) :: rest) st := by
  have hsub : ∀ x s, (x, s) ∈ (p, FS.run P R) :: rest → (x, s) ∈ (u, FS.fin) :: (p, FS.run P R) :: rest :=
    fun x s h => List.mem_cons_of_mem _ h
  refine
    { tab := C.tab, gvalid := fun x s hm => C.gvalid x s (hsub x s hm), gnodup := ?_, disc_vis := C.disc_vis,
      disc_lt := C.disc_lt, disc_inj := C.disc_inj, par_vis := C.par_vis, par_lt := C.par_lt,
      par_unvis := ?_, chain := chain_tail _ _ _ C.chain,
      pend_unvis := fun x hm => C.pend_unvis x (hsub x _ hm),
      nonpend_vis := fun x s hm => C.nonpend_vis x s (hsub x s hm),
      run_split := fun x P' R' hm => C.run_split x P' R' (hsub x _ hm),
      proc_vis := ?_, done_vis := fun x w hf => C.done_vis x w (finished_pop hf),
      desc := fun x u' s hx hm => C.desc x u' s hx (hsub u' s hm),
      done_desc := fun x w hf => C.done_desc x w (finished_pop hf) }
  · have := C.gnodup
    simp only [List.map_cons, List.nodup_cons] at this ⊢
    exact this.2
  · intro i q hp hiv
    obtain ⟨r', hr'⟩ := C.par_unvis i q hp hiv
    cases hr'
  · intro x P' R' w hm hw
    rcases C.proc_vis x P' R' w (hsub x _ hm) hw with h1 | h1
    · exact Or.inl h1
    · cases List.mem_cons.mp h1 with
      | inl h' => cases h'
      | inr h' => exact Or.inr h'

theorem low_pop (hi : IndexOk v) (C : Core v ((u, .fin) :: (p, .run P R) :: rest) st)
    (L : LowInv v ((u, .fin) :: (p, .run P R) :: rest) st) :
    LowInv v ((p, .run P R) :: rest) (stLow st p (minU (lO st p) (lO st u))) := by
  have F := popFacts hi C
  have hsub : ∀ x s, (x, s) ∈ (p, FS.run P R) :: rest → (x, s) ∈ (u, FS.fin) :: (p, FS.run P R) :: rest :=
    fun x s h => List.mem_cons_of_mem _ h
  have hmin : minU (lO st p) (lO st u) = some (min (lN st p) (lN st u)) := by
    rw [(L.lO_some F.hpv).1, (L.lO_some F.huv).1]; rfl
  rw [hmin]
  have hlO : ∀ j, lO (stLow st p (some (min (lN st p) (lN st u)))) j =
      if j = p then some (min (lN st p) (lN st u)) else lO st j := fun j => lO_stLow st p j _ F.hpl
  have hlN : ∀ j, lN (stLow st p (some (min (lN st p) (lN st u)))) j =
      if j = p then min (lN st p) (lN st u) else lN st j := by
    intro j; rw [lN_stLow st p j _ F.hpl]; rfl
  have hlNle : ∀ j, lN (stLow st p (some (min (lN st p) (lN st u)))) j ≤ lN st j := by
    intro j; rw [hlN]; split
    · subst_vars; exact Nat.min_le_left _ _
    · exact Nat.le_refl _
  have hlNu : lN (stLow st p (some (min (lN st p) (lN st u)))) u = lN st u := by
    rw [hlN, if_neg F.hne]
  refine { low_le := ?_, proc_low := ?_, done_low := ?_, low_fold := ?_, low_att := ?_ }
  · intro i hiv
    by_cases hip : i = p
    · subst hip
      refine ⟨min (lN st i) (lN st u), by rw [hlO, if_pos rfl], ?_⟩
      show _ ≤ dN st i
      have := Nat.min_le_left (lN st i) (lN st u)
      have := (L.lO_some F.hpv).2
      omega
    · obtain ⟨l, h1, h2⟩ := L.low_le i hiv
      exact ⟨l, by rw [hlO, if_neg hip]; exact h1, h2⟩
  · intro x P' R' w hm hw hwv hwp
    show _ ≤ dN st w
    have := L.proc_low x P' R' w (hsub x _ hm) hw hwv hwp
    have := hlNle x
    omega
  · intro x w hf hw hwp
    show _ ≤ dN st w
    have := L.done_low x w (finished_pop hf) hw hwp
    have := hlNle x
    omega
  · intro c u' hp'0 hf
    have hp' : pO st c = some u' := hp'0
    rcases folded_pop (u := u) hf with h | h
    · subst h
      have : u' = p := by
        have := F.hpar; rw [hp'] at this; exact Option.some.inj this
      subst this
      rw [hlNu, hlN, if_pos rfl]; exact Nat.min_le_right _ _
    · have hcp : c ≠ p := folded_ne_head hf
      rw [hlN c, if_neg hcp]
      have := L.low_fold c u' hp' h
      have := hlNle u'
      omega
  · intro x hxv
    show _ = dN st x ∨ (∃ w, _ ∧ _ ∧ _ = dN st w) ∨ _
    by_cases hxp : x = p
    · subst hxp
      rw [hlN, if_pos rfl]
      by_cases hle : lN st x ≤ lN st u
      · have hm : min (lN st x) (lN st u) = lN st x := Nat.min_eq_left hle
        rcases L.low_att x hxv with h1 | ⟨w, hw, hwv, h1⟩ | ⟨c', hc', hf, h1⟩
        · exact Or.inl (hm.trans h1)
        · exact Or.inr (Or.inl ⟨w, hw, hwv, hm.trans h1⟩)
        · refine Or.inr (Or.inr ⟨c', hc', folded_pop_mk hf, ?_⟩)
          rw [hlN c', if_neg (folded_ne_head (folded_pop_mk hf))]; exact hm.trans h1
      · have hm : min (lN st x) (lN st u) = lN st u := Nat.min_eq_right (by omega)
        exact Or.inr (Or.inr ⟨u, F.hpar, F.hufold, by rw [hlNu]; exact hm⟩)
    · rw [hlN, if_neg hxp]
      rcases L.low_att x hxv with h1 | ⟨w, hw, hwv, h1⟩ | ⟨c', hc', hf, h1⟩
      · exact Or.inl h1
      · exact Or.inr (Or.inl ⟨w, hw, hwv, h1⟩)
      · refine Or.inr (Or.inr ⟨c', hc', folded_pop_mk hf, ?_⟩)
        rw [hlN c', if_neg (folded_ne_head (folded_pop_mk hf))]; exact h1

theorem geU_some (a b : Nat) : geU (some a) (some b) = true ↔ b ≤ a := by
  simp [geU]

theorem aps_pop (hi : IndexOk v) (C : Core v ((u, .fin) :: (p, .run P R) :: rest) st)
    (L : LowInv v ((u, .fin) :: (p, .run P R) :: rest) st)
    (A : ApsInv ((u, .fin) :: (p, .run P R) :: rest) st) :
    ApsInv ((p, .run P R) :: rest)
      (if (pO st p).isSome ∧ geU (lO st u) (dO st p) = true
       then stAps (stLow st p (minU (lO st p) (lO st u))) p
       else stLow st p (minU (lO st p) (lO st u))) := by
  have F := popFacts hi C
  have hcond : ((pO st p).isSome ∧ geU (lO st u) (dO st p) = true) ↔
      ((∃ q, pO st p = some q) ∧ dN st p ≤ lN st u) := by
    rw [(L.lO_some F.huv).1, C.dO_some F.hpv, geU_some, Option.isSome_iff_exists]
  have hlN : ∀ c, c ≠ p → lN (stLow st p (minU (lO st p) (lO st u))) c = lN st c := by
    intro c hc; rw [lN_stLow st p c _ F.hpl, if_neg hc]
  have hfin : ∀ x, Finished ((p, .run P R) :: rest) st x → Finished ((u, .fin) :: (p, .run P R) :: rest) st x :=
    fun x h => finished_pop h
  split
  · rename_i hc
    obtain ⟨⟨q, hq⟩, hle⟩ := hcond.mp hc
    refine { aps_vis := ?_, aps_sound := ?_, aps_nonroot := ?_, aps_root := ?_ }
    · intro i hia
      rcases (mem_insertAp i p st.aps).mp hia with h | h
      · subst h; exact F.hpv
      · exact A.aps_vis i h
    · intro i hia
      rcases (mem_insertAp i p st.aps).mp hia with h | h
      · subst h
        refine Or.inl ⟨q, u, hq, F.hpar, F.hufold, ?_⟩
        show dN st i ≤ lN (stLow st i (minU (lO st i) (lO st u))) u
        rw [hlN u F.hne]; exact hle
      · rcases A.aps_sound i h with ⟨q', c', h1, h2, h3, h4⟩ | h'
        · refine Or.inl ⟨q', c', h1, h2, folded_pop_mk h3, ?_⟩
          show dN st i ≤ lN (stLow st p (minU (lO st p) (lO st u))) c'
          rw [hlN c' (folded_ne_head (folded_pop_mk h3))]; exact h4
        · exact Or.inr h'
    · intro u' q' c' h1 h20 hf hle'
      have h2 : pO st c' = some u' := h20
      apply (mem_insertAp u' p st.aps).mpr
      rcases folded_pop (u := u) hf with h | h
      · subst h
        left
        have := F.hpar; rw [h2] at this; exact Option.some.inj this
      · right
        have hle'' : dN st u' ≤ lN st c' := by
          rw [← hlN c' (folded_ne_head hf)]; exact hle'
        exact A.aps_nonroot u' q' c' h1 h2 h hle''
    · intro r c1 c2 h0 hf hne h1 h2
      exact (mem_insertAp r p st.aps).mpr (Or.inr (A.aps_root r c1 c2 h0 (hfin r hf) hne h1 h2))
  · rename_i hc
    refine { aps_vis := A.aps_vis, aps_sound := ?_, aps_nonroot := ?_,
             aps_root := fun r c1 c2 h0 hf => A.aps_root r c1 c2 h0 (hfin r hf) }
    · intro i hia
      rcases A.aps_sound i hia with ⟨q', c', h1, h2, h3, h4⟩ | h'
      · refine Or.inl ⟨q', c', h1, h2, folded_pop_mk h3, ?_⟩
        show dN st i ≤ _
        rw [hlN c' (folded_ne_head (folded_pop_mk h3))]; exact h4
      · exact Or.inr h'
    · intro u' q' c' h10 h20 hf hle'
      have h1 : pO st u' = some q' := h10
      have h2 : pO st c' = some u' := h20
      rcases folded_pop (u := u) hf with h | h
      · subst h
        exfalso
        have hu'p : u' = p := by
          have := F.hpar; rw [h2] at this; exact Option.some.inj this
        subst hu'p
        apply hc
        rw [hcond]
        refine ⟨⟨q', h1⟩, ?_⟩
        rw [← hlN c' F.hne]; exact hle'
      · have hle'' : dN st u' ≤ lN st c' := by
          rw [← hlN c' (folded_ne_head hf)]; exact hle'
        exact A.aps_nonroot u' q' c' h1 h2 h hle''

end
end PetgraphModel.C16P.W2Ap
