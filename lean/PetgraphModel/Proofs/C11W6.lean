import PetgraphModel.Model.C11W6
import PetgraphModel.Proofs.C11Models
import PetgraphModel.Proofs.C11W4
/-
C11, wave 6 — the corners.

* `oadd_spec`: `Meas.oadd` is `overflowing_add` — the flag says exactly whether the exact sum leaves
  `[min(), max()]`, the value is the exact sum when it does not and the sum wrapped by `max() − min() + 1`
  (back into the range, for operands in the range) when it does.
* `spfa_min_irrelevant`, `floyd_min_irrelevant`: with non-negative costs the models never look at `min()`:
  two cost types with the same `max() ≥ 0` and `min() ≤ 0` give the same run.  This carries the model
  theorems (whose width hypothesis `min() ≤ −L·Wm` no unsigned type can meet) over to `u8 … u128, usize`.
-/
namespace PetgraphModel.C11W6
open PetgraphModel PetgraphModel.C11M PetgraphModel.C11MP

/-! ### `overflowing_add` -/

theorem oadd_spec (B : Meas) (a b : Int) :
    ((B.oadd a b).2 = true ↔ (a + b < B.min ∨ B.max < a + b)) ∧
    ((B.oadd a b).2 = false → (B.oadd a b).1 = a + b) ∧
    (B.max < a + b → (B.oadd a b).1 = a + b - (B.max - B.min + 1)) ∧
    (a + b < B.min → a + b ≤ B.max → (B.oadd a b).1 = a + b + (B.max - B.min + 1)) := by
  unfold Meas.oadd
  simp only
  split
  · rename_i h
    refine ⟨⟨fun _ => Or.inr h, fun _ => rfl⟩, ?_, fun _ => rfl, fun _ h2 => ?_⟩
    · intro h'; cases h'
    · omega
  · rename_i h
    split
    · rename_i h2
      refine ⟨⟨fun _ => Or.inl h2, fun _ => rfl⟩, ?_, fun h3 => ?_, fun _ _ => rfl⟩
      · intro h'; cases h'
      · omega
    · rename_i h2
      refine ⟨⟨?_, ?_⟩, fun _ => rfl, fun h3 => ?_, fun h3 => ?_⟩
      · intro h'; cases h'
      · intro h'; omega
      · omega
      · omega

/-- the wrapped value is back in the range when both operands are in the range (two's complement) -/
theorem oadd_wrap_in_range (B : Meas) (a b : Int) (ha : B.min ≤ a ∧ a ≤ B.max) (hb : B.min ≤ b ∧ b ≤ B.max)
    (hneg : B.min ≤ 0) (hlt : B.min < 0 → -B.min ≤ B.max + 1) (h0 : 0 ≤ B.max) :
    B.min ≤ (B.oadd a b).1 ∧ (B.oadd a b).1 ≤ B.max := by
  unfold Meas.oadd
  simp only
  split
  · rename_i h
    by_cases hm : B.min < 0
    · have := hlt hm; constructor <;> simp only <;> omega
    · constructor <;> simp only <;> omega
  · split
    · rename_i h h2
      by_cases hm : B.min < 0
      · have := hlt hm; constructor <;> simp only <;> omega
      · constructor <;> simp only <;> omega
    · constructor <;> simp only <;> omega

/-! ### `min()` is irrelevant for non-negative costs -/

def NonnegTab {κ : Type} [BEq κ] (t : Tab κ Int) : Prop := ∀ k x, tget t k = some x → 0 ≤ x

theorem oadd_same {B B' : Meas} (hm : B.max = B'.max) (hB : B.min ≤ 0) (hB' : B'.min ≤ 0) {a b : Int}
    (ha : 0 ≤ a) (hb : 0 ≤ b) :
    (B.oadd a b).2 = (B'.oadd a b).2 ∧ ((B.oadd a b).2 = false → (B.oadd a b).1 = (B'.oadd a b).1) := by
  unfold Meas.oadd
  simp only [← hm]
  split
  · exact ⟨rfl, fun h => by cases h⟩
  · rw [if_neg (by omega), if_neg (by omega)]
    exact ⟨rfl, fun _ => rfl⟩

theorem weight_nonneg {v : View} (hnn : ∀ e ∈ v.g.edges, 0 ≤ e.w) (eid : Nat) : 0 ≤ v.weight eid := by
  unfold View.weight View.edge?
  cases h : v.g.edges.find? (·.id = eid) with
  | none => simp
  | some e => simpa using hnn e (List.mem_of_find?_eq_some h)

theorem foldl_congr_inv {α β : Type} (P : α → Prop) (f g : α → β → α)
    (hfg : ∀ a b, P a → f a b = g a b ∧ P (f a b)) :
    ∀ (l : List β) (a : α), P a → l.foldl f a = l.foldl g a ∧ P (l.foldl f a) := by
  intro l
  induction l with
  | nil => intro a ha; exact ⟨rfl, ha⟩
  | cons b l ih =>
    intro a ha
    obtain ⟨h1, h2⟩ := hfg a b ha
    simp only [List.foldl_cons]
    rw [← h1]
    exact ih _ h2

section
variable {B B' : Meas} (hm : B.max = B'.max) (h0 : 0 ≤ B.max) (hB : B.min ≤ 0) (hB' : B'.min ≤ 0)
include hm h0 hB hB'

theorem getD_nonneg {κ : Type} [BEq κ] {t : Tab κ Int} (ht : NonnegTab t) (k : κ) : 0 ≤ (tget t k).getD B.max := by
  cases h : tget t k with
  | none => simpa using h0
  | some x => simpa using ht k x h

theorem spEdge_min (v : View) (hw : ∀ eid, 0 ≤ v.weight eid) (i : Nat) (st : SP) (te : Nat × Nat)
    (hst : NonnegTab st.d) :
    spEdge B v i st te = spEdge B' v i st te ∧ NonnegTab (spEdge B v i st te).d := by
  have ha := getD_nonneg hm h0 hB hB' hst i
  obtain ⟨hf, hv⟩ := oadd_same hm hB hB' ha (hw te.2)
  unfold spEdge
  simp only [← hm]
  cases hfl : (B.oadd ((tget st.d i).getD B.max) (v.weight te.2)).2 with
  | true =>
    rw [hfl] at hf
    simp only [← hf, Bool.not_true, Bool.false_and]
    exact ⟨by simp, by simpa using hst⟩
  | false =>
    rw [hfl] at hf
    have hv' := hv hfl
    simp only [← hf, ← hv', Bool.not_false, Bool.true_and]
    refine ⟨trivial, ?_⟩
    split
    · have hx := oadd_exact hfl
      have key : NonnegTab (tset st.d te.1 (B.oadd ((tget st.d i).getD B.max) (v.weight te.2)).1) := by
        intro k x hk
        rw [tget_tset] at hk
        split at hk
        · cases hk; rw [hx]; have := hw te.2; omega
        · exact hst k x hk
      split <;> exact key
    · exact hst

theorem spLoop_min (v : View) (hw : ∀ eid, 0 ≤ v.weight eid) :
    ∀ (f : Nat) (st : SP), NonnegTab st.d → spLoop B v f st = spLoop B' v f st := by
  intro f
  induction f with
  | zero => intro st _; rfl
  | succ f ih =>
    intro st hst
    unfold spLoop
    cases hq : st.q with
    | nil => rfl
    | cons i q =>
      simp only
      split
      · rfl
      · have h := foldl_congr_inv (fun st : SP => NonnegTab st.d) (spEdge B v i) (spEdge B' v i)
          (fun a b ha => spEdge_min hm h0 hB hB' v hw i a b ha) (v.outOf i)
          { st with q := q, inq := st.inq.erase i, visits := tset st.visits i ((tget st.visits i).getD 0 + 1) } hst
        rw [← h.1]
        exact ih _ h.2

/-- **spfa with non-negative costs does not depend on `min()`** -/
theorem spfa_min_irrelevant (v : View) (hnn : ∀ e ∈ v.g.edges, 0 ≤ e.w) (s : Nat) :
    spfa B v s = spfa B' v s := by
  unfold spfa
  apply spLoop_min hm h0 hB hB' v (weight_nonneg hnn)
  intro k x hk
  have := tget_single (x := k) (s := s) (y := x) hk
  omega

theorem dist_same (st : FW) (i j : Nat) : st.dist B i j = st.dist B' i j := by
  unfold FW.dist; rw [hm]

theorem dist_nonneg {st : FW} (hst : NonnegTab st.d) (i j : Nat) : 0 ≤ st.dist B i j :=
  getD_nonneg hm h0 hB hB' hst (i, j)

theorem fwInitEdge_min (dir : Bool) (st : FW) (e : Edge) (he : 0 ≤ e.w) (hst : NonnegTab st.d) :
    fwInitEdge B dir st e = fwInitEdge B' dir st e ∧ NonnegTab (fwInitEdge B dir st e).d := by
  unfold fwInitEdge
  rw [← dist_same hm h0 hB hB' st]
  refine ⟨rfl, ?_⟩
  split
  · have key : NonnegTab (tset st.d (e.src, e.tgt) e.w) := by
      intro k x hk
      rw [tget_tset] at hk
      split at hk
      · cases hk; exact he
      · exact hst k x hk
    simp only
    split
    · intro k x hk
      simp only at hk
      rw [tget_tset] at hk
      split at hk
      · cases hk; exact he
      · exact key k x hk
    · exact key
  · exact hst

theorem fwDiag_min (st : FW) (i : Nat) (hst : NonnegTab st.d) :
    fwDiag B st i = fwDiag B' st i ∧ NonnegTab (fwDiag B st i).d := by
  unfold fwDiag
  rw [← dist_same hm h0 hB hB' st]
  refine ⟨rfl, ?_⟩
  split
  · intro k x hk
    simp only at hk
    rw [tget_tset] at hk
    split at hk
    · cases hk; exact Int.le_refl 0
    · exact hst k x hk
  · exact hst

theorem fwStep_min (k i : Nat) (st : FW) (j : Nat) (hst : NonnegTab st.d) :
    fwStep B k i st j = fwStep B' k i st j ∧ NonnegTab (fwStep B k i st j).d := by
  have h1 := dist_nonneg hm h0 hB hB' hst i k
  have h2 := dist_nonneg hm h0 hB hB' hst k j
  obtain ⟨hf, hv⟩ := oadd_same hm hB hB' h1 h2
  unfold fwStep
  simp only [← dist_same hm h0 hB hB' st, ← hm]
  split
  · exact ⟨rfl, hst⟩
  · cases hfl : (B.oadd (st.dist B i k) (st.dist B k j)).2 with
    | true =>
      rw [hfl] at hf
      simp only [← hf, Bool.not_true, Bool.false_and]
      exact ⟨by simp, by simpa using hst⟩
    | false =>
      rw [hfl] at hf
      have hv' := hv hfl
      simp only [← hf, ← hv', Bool.not_false, Bool.true_and]
      refine ⟨trivial, ?_⟩
      split
      · have hx := oadd_exact hfl
        intro q x hq
        simp only at hq
        rw [tget_tset] at hq
        split at hq
        · cases hq; rw [hx]; omega
        · exact hst q x hq
      · exact hst

/-- **floyd_warshall(_path) with non-negative costs does not depend on `min()`** -/
theorem floyd_min_irrelevant (v : View) (hnn : ∀ e ∈ v.g.edges, 0 ≤ e.w) :
    floydWarshall B v = floydWarshall B' v := by
  unfold floydWarshall
  simp only
  -- initialisation from the edges
  have hI : ∀ (l : List Edge), (∀ e ∈ l, 0 ≤ e.w) → ∀ st : FW, NonnegTab st.d →
      l.foldl (fwInitEdge B v.g.directed) st = l.foldl (fwInitEdge B' v.g.directed) st ∧
      NonnegTab (l.foldl (fwInitEdge B v.g.directed) st).d := by
    intro l
    induction l with
    | nil => intro _ st hst; exact ⟨rfl, hst⟩
    | cons e l ih =>
      intro hl st hst
      obtain ⟨h1, h2⟩ := fwInitEdge_min hm h0 hB hB' v.g.directed st e (hl e (by simp)) hst
      simp only [List.foldl_cons]
      rw [← h1]
      exact ih (fun e he => hl e (by simp [he])) _ h2
  have hemp : NonnegTab (({} : FW).d) := by intro k x hk; simp [tget] at hk
  obtain ⟨e1, n1⟩ := hI v.g.edges hnn {} hemp
  obtain ⟨e2, n2⟩ := foldl_congr_inv (fun st : FW => NonnegTab st.d) (fwDiag B) (fwDiag B')
    (fun a b ha => fwDiag_min hm h0 hB hB' a b ha) v.g.nodes _ n1
  have hJ : ∀ k i, ∀ st : FW, NonnegTab st.d →
      (ordByIx v).foldl (fwStep B k i) st = (ordByIx v).foldl (fwStep B' k i) st ∧
      NonnegTab ((ordByIx v).foldl (fwStep B k i) st).d :=
    fun k i => foldl_congr_inv (fun st : FW => NonnegTab st.d) (fwStep B k i) (fwStep B' k i)
      (fun a b ha => fwStep_min hm h0 hB hB' k i a b ha) (ordByIx v)
  have hIi : ∀ k, ∀ st : FW, NonnegTab st.d →
      (ordByIx v).foldl (fun st i => (ordByIx v).foldl (fwStep B k i) st) st =
        (ordByIx v).foldl (fun st i => (ordByIx v).foldl (fwStep B' k i) st) st ∧
      NonnegTab ((ordByIx v).foldl (fun st i => (ordByIx v).foldl (fwStep B k i) st) st).d :=
    fun k => foldl_congr_inv (fun st : FW => NonnegTab st.d) _ _ (fun a b ha => hJ k b a ha) (ordByIx v)
  obtain ⟨e3, _⟩ := foldl_congr_inv (fun st : FW => NonnegTab st.d)
    (fun st k => (ordByIx v).foldl (fun st i => (ordByIx v).foldl (fwStep B k i) st) st)
    (fun st k => (ordByIx v).foldl (fun st i => (ordByIx v).foldl (fwStep B' k i) st) st)
    (fun a b ha => hIi b a ha) (ordByIx v) _ n2
  rw [← e1, ← e2] at *
  rw [← e3]
  simp only [← dist_same hm h0 hB hB']

end

end PetgraphModel.C11W6
