import PetgraphModel.Model.Traversal
import PetgraphModel.Oracle.Reach
/-
Definitions for the C08 statements (runs to exhaustion, view consistency, avoiding reachability)
and their proofs.
-/
namespace PetgraphModel.TravProofs
open PetgraphModel PetgraphModel.Trav PetgraphModel.MGraph

/-- the encoding's neighbour iteration describes the abstract graph -/
def ViewOk (v : View) : Prop := ∀ a b, b ∈ v.succ a ↔ v.g.Adj a b
def PredOk (v : View) : Prop := ∀ a b, b ∈ v.pred a ↔ v.g.Adj b a

/-- reachability from `s` through nodes outside `D` (all nodes of the walk, `s` included, avoid `D`) -/
inductive ReachAvoid (g : MGraph) (D : List Nat) : Nat → Nat → Prop
  | refl {a : Nat} : a ∉ D → ReachAvoid g D a a
  | step {a b c : Nat} : ReachAvoid g D a b → g.Adj b c → c ∉ D → ReachAvoid g D a c

/-- iterate `Dfs::next` until it returns `None`; `none` = fuel exhausted -/
def dfsAll (v : View) (inner : Nat) : Nat → Dfs → List Nat → Option (List Nat × Dfs)
  | 0, _, _ => none
  | k+1, d, acc =>
    match dfsNext v inner d with
    | none => none
    | some (none, d') => some (acc, d')
    | some (some x, d') => dfsAll v inner k d' (acc ++ [x])

def postAll (v : View) (inner : Nat) : Nat → Post → List Nat → Option (List Nat × Post)
  | 0, _, _ => none
  | k+1, d, acc =>
    match postNext v inner d with
    | none => none
    | some (none, d') => some (acc, d')
    | some (some x, d') => postAll v inner k d' (acc ++ [x])

def bfsAll (v : View) : Nat → Bfs → List Nat → Option (List Nat)
  | 0, _, _ => none
  | k+1, b, acc =>
    match bfsNext v b with
    | (none, _) => some acc
    | (some x, b') => bfsAll v k b' (acc ++ [x])

def topoAll (v : View) (inner : Nat) : Nat → Topo → List Nat → Option (List Nat)
  | 0, _, _ => none
  | k+1, t, acc =>
    match topoNext v inner t with
    | none => none
    | some (none, _) => some acc
    | some (some x, t') => topoAll v inner k t' (acc ++ [x])

/-- hop distance: `Dist g s x n` iff there is a walk of exactly `n` edges from `s` to `x` -/
inductive WalkLen (g : MGraph) : Nat → Nat → Nat → Prop
  | zero (a : Nat) : WalkLen g a a 0
  | succ {a b c n : Nat} : WalkLen g a b n → g.Adj b c → WalkLen g a c (n + 1)

/-- `n` is the hop distance from `s` to `x` -/
def IsDist (g : MGraph) (s x n : Nat) : Prop := WalkLen g s x n ∧ ∀ m, WalkLen g s x m → n ≤ m

/-! ### obligations (statements fixed by `Theorems/C08.lean`) -/

theorem dfs_moveTo (v : View) (hv : ViewOk v) (s : Nat) (D : List Nat) (inner outer : Nat)
    (out : List Nat) (d' : Dfs)
    (h : dfsAll v inner outer { stack := [s], disc := D } [] = some (out, d')) :
    out.Nodup ∧ (∀ x, x ∈ out ↔ ReachAvoid v.g D s x) ∧ (∀ x, x ∈ d'.disc ↔ x ∈ D ∨ x ∈ out) := by sorry

theorem dfs_fresh (v : View) (hv : ViewOk v) (s : Nat) (inner outer : Nat) (out : List Nat) (d' : Dfs)
    (h : dfsAll v inner outer { stack := [s], disc := [] } [] = some (out, d')) :
    out.Nodup ∧ ∀ x, x ∈ out ↔ Reach v.g s x := by sorry

theorem bfs_spec (v : View) (hv : ViewOk v) (s : Nat) (fuel : Nat) (out : List Nat)
    (h : bfsAll v fuel (Bfs.new s) [] = some out) :
    out.Nodup ∧ (∀ x, x ∈ out ↔ Reach v.g s x) ∧
    ∀ i j (hi : i < out.length) (hj : j < out.length), i ≤ j →
      ∀ di dj, IsDist v.g s out[i] di → IsDist v.g s out[j] dj → di ≤ dj := by sorry

theorem post_set (v : View) (hv : ViewOk v) (s : Nat) (inner outer : Nat) (out : List Nat)
    (d' : Post) (h : postAll v inner outer { stack := [s] } [] = some (out, d')) :
    out.Nodup ∧ ∀ x, x ∈ out ↔ Reach v.g s x := by sorry

theorem post_order (v : View) (hv : ViewOk v) (s : Nat) (inner outer : Nat) (out : List Nat)
    (d' : Post) (h : postAll v inner outer { stack := [s] } [] = some (out, d'))
    (x y : Nat) (hx : x ∈ out) (hxy : v.g.Adj x y) (hback : ¬ Reach v.g y x) :
    out.idxOf y < out.idxOf x := by sorry

theorem topo_order (v : View) (hv : ViewOk v) (hp : PredOk v) (inner outer : Nat) (out : List Nat)
    (h : topoAll v inner outer (Topo.new v) [] = some out) :
    out.Nodup ∧ ∀ x ∈ out, ∀ p, v.g.Adj p x → p ∈ out ∧ out.idxOf p < out.idxOf x := by sorry

theorem topo_no_cyclic (v : View) (hv : ViewOk v) (hp : PredOk v) (inner outer : Nat) (out : List Nat)
    (h : topoAll v inner outer (Topo.new v) [] = some out) (c x : Nat)
    (hc : Reach1 v.g c c) (hcx : Reach v.g c x) : x ∉ out := by sorry

theorem dfsv_times (v : View) (script : List Ctl) (fuel : Nat) (starts : List Nat) (s' : VS) (r : Res)
    (h : dfsSearch v script fuel starts {} = (s', r)) :
    (s'.evs.reverse.filterMap fun e => match e with
      | .discover _ t => some t | .finish _ t => some t | _ => none) = List.range s'.time := by sorry

end PetgraphModel.TravProofs
