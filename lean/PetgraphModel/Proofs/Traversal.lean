import PetgraphModel.Model.Traversal
import PetgraphModel.Oracle.Reach
/-
Definitions for the C08 statements (runs to exhaustion, view consistency, avoiding reachability)
and their proofs.
-/
namespace PetgraphModel.TravProofs
open PetgraphModel PetgraphModel.Trav PetgraphModel.MGraph

/-- the encoding's neighbour iteration describes the abstract graph -/
def ViewOk (v : View) : Prop := ∀ a b, b ∈ v.succ a ↔ v.g.Adj a b
def PredOk (v : View) : Prop := ∀ a b, b ∈ v.pred a ↔ v.g.Adj b a

/-- reachability from `s` through nodes outside `D` (all nodes of the walk, `s` included, avoid `D`) -/
inductive ReachAvoid (g : MGraph) (D : List Nat) : Nat → Nat → Prop
  | refl {a : Nat} : a ∉ D → ReachAvoid g D a a
  | step {a b c : Nat} : ReachAvoid g D a b → g.Adj b c → c ∉ D → ReachAvoid g D a c

/-- iterate `Dfs::next` until it returns `None`; `none` = fuel exhausted -/
def dfsAll (v : View) (inner : Nat) : Nat → Dfs → List Nat → Option (List Nat × Dfs)
  | 0, _, _ => none
  | k+1, d, acc =>
    match dfsNext v inner d with
    | none => none
    | some (none, d') => some (acc, d')
    | some (some x, d') => dfsAll v inner k d' (acc ++ [x])

def postAll (v : View) (inner : Nat) : Nat → Post → List Nat → Option (List Nat × Post)
  | 0, _, _ => none
  | k+1, d, acc =>
    match postNext v inner d with
    | none => none
    | some (none, d') => some (acc, d')
    | some (some x, d') => postAll v inner k d' (acc ++ [x])

def bfsAll (v : View) : Nat → Bfs → List Nat → Option (List Nat)
  | 0, _, _ => none
  | k+1, b, acc =>
    match bfsNext v b with
    | (none, _) => some acc
    | (some x, b') => bfsAll v k b' (acc ++ [x])

def topoAll (v : View) (inner : Nat) : Nat → Topo → List Nat → Option (List Nat)
  | 0, _, _ => none
  | k+1, t, acc =>
    match topoNext v inner t with
    | none => none
    | some (none, _) => some acc
    | some (some x, t') => topoAll v inner k t' (acc ++ [x])

/-- hop distance: `Dist g s x n` iff there is a walk of exactly `n` edges from `s` to `x` -/
inductive WalkLen (g : MGraph) : Nat → Nat → Nat → Prop
  | zero (a : Nat) : WalkLen g a a 0
  | succ {a b c n : Nat} : WalkLen g a b n → g.Adj b c → WalkLen g a c (n + 1)

/-- `n` is the hop distance from `s` to `x` -/
def IsDist (g : MGraph) (s x n : Nat) : Prop := WalkLen g s x n ∧ ∀ m, WalkLen g s x m → n ≤ m


/-! ### general helpers -/

theorem reach_trans {g : MGraph} {a b c : Nat} (h1 : Reach g a b) (h2 : Reach g b c) : Reach g a c := by
  induction h2 with
  | refl => exact h1
  | step _ hc ih => exact Reach.step ih hc

theorem ReachAvoid.not_mem {g : MGraph} {D : List Nat} {a b : Nat} (h : ReachAvoid g D a b) : b ∉ D := by
  cases h with
  | refl h => exact h
  | step _ _ h => exact h

theorem reachAvoid_nil {g : MGraph} {a b : Nat} : ReachAvoid g [] a b ↔ Reach g a b := by
  constructor
  · intro h
    induction h with
    | refl => exact Reach.refl _
    | step _ hc _ ih => exact Reach.step ih hc
  · intro h
    induction h with
    | refl => exact ReachAvoid.refl (by simp)
    | step _ hc ih => exact ReachAvoid.step ih hc (by simp)

theorem not_contains {l : List Nat} {y : Nat} : (!l.contains y) = true ↔ y ∉ l := by simp

/-! ### Dfs -/

structure DfsInv (g : MGraph) (D : List Nat) (s : Nat) (stack disc acc : List Nat) : Prop where
  nodup : acc.Nodup
  discEq : ∀ x, x ∈ disc ↔ x ∈ D ∨ x ∈ acc
  accAvoid : ∀ x, x ∈ acc → ReachAvoid g D s x
  stAvoid : ∀ x, x ∈ stack → x ∈ disc ∨ ReachAvoid g D s x
  closed : ∀ x, x ∈ acc → ∀ y, g.Adj x y → y ∈ disc ∨ y ∈ stack
  start : s ∈ disc ∨ s ∈ stack

theorem dfsNext_inv (v : View) (hv : ViewOk v) (D : List Nat) (s : Nat) (acc : List Nat) :
    ∀ (f : Nat) (d : Dfs) (r : Option Nat) (d' : Dfs), DfsInv v.g D s d.stack d.disc acc →
      dfsNext v f d = some (r, d') →
      (r = none → DfsInv v.g D s [] d'.disc acc) ∧
      (∀ x, r = some x → DfsInv v.g D s d'.stack d'.disc (acc ++ [x])) := by
  intro f
  induction f with
  | zero => intro d r d' _ h; simp [dfsNext] at h
  | succ f ih =>
    intro d r d' inv h
    rw [dfsNext] at h
    split at h
    · rename_i hst
      simp only [Option.some.injEq, Prod.mk.injEq] at h
      obtain ⟨rfl, rfl⟩ := h
      rw [hst] at inv
      exact ⟨fun _ => inv, fun x hx => by cases hx⟩
    · rename_i x st hst
      rw [hst] at inv
      split at h
      · rename_i hx
        apply ih _ r d' _ h
        refine ⟨inv.nodup, inv.discEq, inv.accAvoid, fun y hy => inv.stAvoid y (List.mem_cons_of_mem _ hy), ?_, ?_⟩
        · intro a ha y hy
          rcases inv.closed a ha y hy with h | h
          · exact Or.inl h
          · rcases List.mem_cons.mp h with h | h
            · exact Or.inl (h ▸ hx)
            · exact Or.inr h
        · rcases inv.start with h | h
          · exact Or.inl h
          · rcases List.mem_cons.mp h with h | h
            · exact Or.inl (h ▸ hx)
            · exact Or.inr h
      · rename_i hx
        simp only [Option.some.injEq, Prod.mk.injEq] at h
        obtain ⟨rfl, rfl⟩ := h
        refine ⟨fun h => (by cases h), ?_⟩
        intro x' hx'
        simp only [Option.some.injEq] at hx'
        subst hx'
        have hxr : ReachAvoid v.g D s x := by
          rcases inv.stAvoid x (List.mem_cons_self ..) with h | h
          · exact absurd h hx
          · exact h
        have hxacc : x ∉ acc := fun h => hx ((inv.discEq x).mpr (Or.inr h))
        refine ⟨?_, ?_, ?_, ?_, ?_, ?_⟩
        · exact List.nodup_append.mpr ⟨inv.nodup, by simp, by
            intro a ha b hb; simp at hb; subst hb; intro hab; subst hab; exact hxacc ha⟩
        · intro y
          simp only [List.mem_cons, List.mem_append, inv.discEq y]
          grind
        · intro y hy
          rcases List.mem_append.mp hy with h | h
          · exact inv.accAvoid y h
          · simp at h; subst h; exact hxr
        · intro y hy
          simp only [List.mem_append, List.mem_reverse, List.mem_filter] at hy
          rcases hy with ⟨hy1, hy2⟩ | hy
          · by_cases hyD : y ∈ D
            · exact Or.inl (List.mem_cons_of_mem _ ((inv.discEq y).mpr (Or.inl hyD)))
            · exact Or.inr (ReachAvoid.step hxr ((hv x y).mp hy1) hyD)
          · rcases inv.stAvoid y (List.mem_cons_of_mem _ hy) with h | h
            · exact Or.inl (List.mem_cons_of_mem _ h)
            · exact Or.inr h
        · intro a ha y hy
          simp only [List.mem_append, List.mem_reverse, List.mem_filter, List.mem_cons]
          rcases List.mem_append.mp ha with h | h
          · rcases inv.closed a h y hy with h' | h'
            · exact Or.inl (Or.inr h')
            · rcases List.mem_cons.mp h' with h'' | h''
              · exact Or.inl (Or.inl h'')
              · exact Or.inr (Or.inr h'')
          · simp at h; subst h
            by_cases hyd : y = a ∨ y ∈ d.disc
            · exact Or.inl hyd
            · refine Or.inr (Or.inl ⟨(hv a y).mpr hy, ?_⟩)
              exact not_contains.mpr (by simpa using hyd)
        · rcases inv.start with h | h
          · exact Or.inl (List.mem_cons_of_mem _ h)
          · rcases List.mem_cons.mp h with h | h
            · exact Or.inl (h ▸ List.mem_cons_self ..)
            · exact Or.inr (List.mem_append.mpr (Or.inr h))

theorem dfsAll_inv (v : View) (hv : ViewOk v) (D : List Nat) (s : Nat) (inner : Nat) :
    ∀ (k : Nat) (d : Dfs) (acc out : List Nat) (d' : Dfs), DfsInv v.g D s d.stack d.disc acc →
      dfsAll v inner k d acc = some (out, d') → DfsInv v.g D s [] d'.disc out := by
  intro k
  induction k with
  | zero => intro d acc out d' _ h; simp [dfsAll] at h
  | succ k ih =>
    intro d acc out d' inv h
    rw [dfsAll] at h
    split at h
    · cases h
    · rename_i d1 hn
      simp only [Option.some.injEq, Prod.mk.injEq] at h
      obtain ⟨rfl, rfl⟩ := h
      exact (dfsNext_inv v hv D s acc inner d none _ inv hn).1 rfl
    · rename_i x d1 hn
      exact ih d1 _ out d' ((dfsNext_inv v hv D s acc inner d (some x) _ inv hn).2 x rfl) h


theorem idxOf_snoc_mem {l : List Nat} {a x : Nat} (h : a ∈ l) : (l ++ [x]).idxOf a = l.idxOf a := by
  rw [List.idxOf_append, if_pos h]

theorem idxOf_snoc_new {l : List Nat} {x : Nat} (h : x ∉ l) : (l ++ [x]).idxOf x = l.length := by
  rw [List.idxOf_append, if_neg h, List.idxOf_cons_self]; simp

theorem nodup_snoc {l : List Nat} {x : Nat} (hl : l.Nodup) (h : x ∉ l) : (l ++ [x]).Nodup :=
  List.nodup_append.mpr ⟨hl, by simp, by
    intro a ha b hb; simp at hb; subst hb; intro hab; subst hab; exact h ha⟩

/-! ### Topo -/

structure TopoInv (g : MGraph) (tovisit ordered acc : List Nat) : Prop where
  nodup : acc.Nodup
  ordEq : ∀ x, x ∈ ordered ↔ x ∈ acc
  ready : ∀ x, x ∈ tovisit → ∀ p, g.Adj p x → p ∈ ordered
  order : ∀ x, x ∈ acc → ∀ p, g.Adj p x → p ∈ acc ∧ acc.idxOf p < acc.idxOf x

theorem topoNext_inv (v : View) (hp : PredOk v) (acc : List Nat) :
    ∀ (f : Nat) (t : Topo) (x : Nat) (t' : Topo), TopoInv v.g t.tovisit t.ordered acc →
      topoNext v f t = some (some x, t') → TopoInv v.g t'.tovisit t'.ordered (acc ++ [x]) := by
  intro f
  induction f with
  | zero => intro t x t' _ h; simp [topoNext] at h
  | succ f ih =>
    intro t x t' inv h
    rw [topoNext] at h
    split at h
    · simp at h
    · rename_i y rest hst
      rw [hst] at inv
      split at h
      · have inv' : TopoInv v.g rest t.ordered acc :=
          ⟨inv.nodup, inv.ordEq, fun z hz => inv.ready z (List.mem_cons_of_mem _ hz), inv.order⟩
        exact ih _ x t' inv' h
      · rename_i hy
        simp only [Option.some.injEq, Prod.mk.injEq] at h
        obtain ⟨rfl, rfl⟩ := h
        have hyo : y ∉ t.ordered := by simpa using hy
        have hya : y ∉ acc := fun h => hyo ((inv.ordEq y).mpr h)
        refine ⟨nodup_snoc inv.nodup hya, ?_, ?_, ?_⟩
        · intro z
          simp only [List.mem_cons, List.mem_append, inv.ordEq z]
          grind
        · intro z hz p hpz
          simp only [List.mem_append, List.mem_reverse, List.mem_filter, List.all_eq_true] at hz
          rcases hz with ⟨_, hz⟩ | hz
          · simpa using hz p ((hp z p).mpr hpz)
          · exact List.mem_cons_of_mem _ (inv.ready z (List.mem_cons_of_mem _ hz) p hpz)
        · intro z hz p hpz
          rcases List.mem_append.mp hz with hz | hz
          · have := inv.order z hz p hpz
            refine ⟨List.mem_append_left _ this.1, ?_⟩
            rw [idxOf_snoc_mem this.1, idxOf_snoc_mem hz]; exact this.2
          · simp at hz; subst hz
            have hpa : p ∈ acc := (inv.ordEq p).mp (inv.ready z (List.mem_cons_self ..) p hpz)
            refine ⟨List.mem_append_left _ hpa, ?_⟩
            rw [idxOf_snoc_mem hpa, idxOf_snoc_new hya]
            exact List.idxOf_lt_length_of_mem hpa

theorem topoAll_inv (v : View) (hp : PredOk v) (inner : Nat) :
    ∀ (k : Nat) (t : Topo) (acc out : List Nat), TopoInv v.g t.tovisit t.ordered acc →
      topoAll v inner k t acc = some out →
      out.Nodup ∧ ∀ x ∈ out, ∀ p, v.g.Adj p x → p ∈ out ∧ out.idxOf p < out.idxOf x := by
  intro k
  induction k with
  | zero => intro t acc out _ h; simp [topoAll] at h
  | succ k ih =>
    intro t acc out inv h
    rw [topoAll] at h
    split at h
    · cases h
    · simp only [Option.some.injEq] at h
      subst h
      exact ⟨inv.nodup, inv.order⟩
    · rename_i x t1 hn
      exact ih t1 _ out (topoNext_inv v hp acc inner t x t1 inv hn) h


/-! ### depth_first_search event times -/

def evTime : Ev → Option Nat
  | .discover _ t => some t
  | .finish _ t => some t
  | _ => none

/-- the Discover/Finish times recorded so far are `0, 1, …, time-1` in order -/
def TimesOk (s : VS) : Prop := s.evs.reverse.filterMap evTime = List.range s.time

theorem timesOk_tick {s : VS} {e : Ev} {script : List Ctl} (h : TimesOk s) (he : evTime e = some s.time) :
    TimesOk (emit script { s with time := s.time + 1 } e).1 := by
  simp only [TimesOk, emit, List.reverse_cons, List.filterMap_append, List.filterMap_cons, he,
    List.filterMap_nil, List.range_succ] at *
  rw [h]

theorem timesOk_emit {s : VS} {e : Ev} {script : List Ctl} (h : TimesOk s) (he : evTime e = none) :
    TimesOk (emit script s e).1 := by
  simp only [TimesOk, emit, List.reverse_cons, List.filterMap_append, List.filterMap_cons, he,
    List.filterMap_nil, List.append_nil] at *
  exact h

theorem timesOk_disc {s : VS} {l : List Nat} (h : TimesOk s) : TimesOk { s with disc := l } := h
theorem timesOk_fin {s : VS} {l : List Nat} (h : TimesOk s) : TimesOk { s with fin := l } := h

theorem dfsv_timesOk (v : View) (script : List Ctl) :
    ∀ f : Nat, (∀ u s, TimesOk s → TimesOk (dfsVisitor v script f u s).1) ∧
      (∀ u ws s, TimesOk s → TimesOk (neighLoop v script f u ws s).1) := by
  intro f
  induction f with
  | zero =>
    constructor
    · intro u s h; rw [dfsVisitor]; exact h
    · intro u ws s h; rw [neighLoop]; exact h
  | succ f ih =>
    obtain ⟨ihV, ihN⟩ := ih
    constructor
    · intro u s h
      rw [dfsVisitor]
      split
      · exact h
      · have h1 : TimesOk (emit script { disc := u :: s.disc, fin := s.fin, time := s.time + 1, evs := s.evs }
            (.discover u s.time)).1 :=
          timesOk_tick (s := { s with disc := u :: s.disc }) (timesOk_disc h) rfl
        dsimp only at h1 ⊢
        generalize emit script _ (Ev.discover u s.time) = p at h1 ⊢
        obtain ⟨s1, c1⟩ := p
        dsimp only at h1 ⊢
        split
        · exact h1
        · have h2 : TimesOk (if c1 = Ctl.prune then (s1, Res.cont) else neighLoop v script f u (v.succ u) s1).1 := by
            split
            · exact h1
            · exact ihN _ _ _ h1
          generalize (if c1 = Ctl.prune then (s1, Res.cont) else neighLoop v script f u (v.succ u) s1) = q at h2 ⊢
          obtain ⟨s2, r2⟩ := q
          dsimp only at h2 ⊢
          split
          · have h3 := timesOk_tick (s := { s2 with fin := u :: s2.fin }) (script := script)
              (e := .finish u s2.time) (timesOk_fin h2) rfl
            dsimp only at h3
            generalize emit script _ (Ev.finish u s2.time) = p3 at h3 ⊢
            obtain ⟨s3, c3⟩ := p3
            dsimp only at h3 ⊢
            split <;> exact h3
          · exact h2
    · intro u ws s h
      cases ws with
      | nil => rw [neighLoop]; exact h; exact fun h => Nat.succ_ne_zero _ h
      | cons w ws =>
        rw [neighLoop]
        split
        · have h1 := timesOk_emit (script := script) (e := .tree u w) h rfl
          generalize emit script s (Ev.tree u w) = p at h1 ⊢
          obtain ⟨s1, c1⟩ := p
          dsimp only at h1 ⊢
          split
          · exact h1
          · exact ihN _ _ _ h1
          · have h2 := ihV w s1 h1
            generalize dfsVisitor v script f w s1 = q at h2 ⊢
            obtain ⟨s2, r2⟩ := q
            dsimp only at h2 ⊢
            split
            · exact ihN _ _ _ h2
            · exact h2
        · have h1 : TimesOk (emit script s (if !s.fin.contains w then Ev.back u w else Ev.cross u w)).1 :=
            timesOk_emit h (by split <;> rfl)
          generalize emit script s (if !s.fin.contains w then Ev.back u w else Ev.cross u w) = p at h1 ⊢
          obtain ⟨s1, c1⟩ := p
          dsimp only at h1 ⊢
          split
          · exact h1
          · exact ihN _ _ _ h1

theorem dfsSearch_timesOk (v : View) (script : List Ctl) (fuel : Nat) :
    ∀ (starts : List Nat) (s : VS), TimesOk s → TimesOk (dfsSearch v script fuel starts s).1 := by
  intro starts
  induction starts with
  | nil => intro s h; exact h
  | cons st rest ih =>
    intro s h
    rw [dfsSearch]
    have h1 := (dfsv_timesOk v script fuel).1 st s h
    generalize dfsVisitor v script fuel st s = q at h1 ⊢
    obtain ⟨s1, r1⟩ := q
    dsimp only at h1 ⊢
    split
    · exact ih _ h1
    · exact h1


/-! ### DfsPostOrder -/

/-- the stack entries above the topmost copy of `z` -/
def above (z : Nat) (l : List Nat) : List Nat := l.takeWhile (· != z)

theorem above_cons_self (z : Nat) (l : List Nat) : above z (z :: l) = [] := by
  simp [above]

theorem above_cons_ne {a z : Nat} (l : List Nat) (h : a ≠ z) : above z (a :: l) = a :: above z l := by
  simp [above, h]

theorem above_append {z : Nat} {A : List Nat} (l : List Nat) (h : z ∉ A) : above z (A ++ l) = A ++ above z l := by
  unfold above
  apply List.takeWhile_append_of_pos
  intro a ha
  simp only [bne_iff_ne, ne_eq]
  intro haz; subst haz; exact h ha

structure PostInv (g : MGraph) (s : Nat) (stack disc fin : List Nat) : Prop where
  finDisc : ∀ x, x ∈ fin → x ∈ disc
  grayStack : ∀ x, x ∈ disc → x ∉ fin → x ∈ stack
  discReach : ∀ x, x ∈ disc → Reach g s x
  stReach : ∀ x, x ∈ stack → Reach g s x
  start : s ∈ disc ∨ s ∈ stack
  closed : ∀ x, x ∈ fin → ∀ y, g.Adj x y → y ∈ disc
  grayAbove : ∀ z, z ∈ disc → z ∉ fin → ∀ w, w ∈ above z stack → Reach g z w
  grayAdj : ∀ z, z ∈ disc → z ∉ fin → ∀ y, g.Adj z y → y ∈ disc ∨ y ∈ above z stack

theorem postInv_push (v : View) (hv : ViewOk v) (s x : Nat) (st disc fin : List Nat)
    (inv : PostInv v.g s (x :: st) disc fin) (hx : x ∉ disc) :
    PostInv v.g s (((v.succ x).filter (fun y => !(x :: disc).contains y)).reverse ++ (x :: st))
      (x :: disc) fin := by
  have hxr : Reach v.g s x := inv.stReach x (List.mem_cons_self ..)
  have hxfin : x ∉ fin := fun h => hx (inv.finDisc x h)
  have hP : ∀ w, w ∈ ((v.succ x).filter (fun y => !(x :: disc).contains y)).reverse ↔
      v.g.Adj x w ∧ w ∉ x :: disc := by
    intro w
    rw [List.mem_reverse, List.mem_filter, not_contains, hv x w]
  have habove : ∀ z, z ∈ x :: disc →
      above z (((v.succ x).filter (fun y => !(x :: disc).contains y)).reverse ++ (x :: st)) =
        ((v.succ x).filter (fun y => !(x :: disc).contains y)).reverse ++ above z (x :: st) := by
    intro z hz
    apply above_append
    intro h
    exact ((hP z).mp h).2 hz
  generalize ((v.succ x).filter (fun y => !(x :: disc).contains y)).reverse = P at hP habove ⊢
  refine ⟨?_, ?_, ?_, ?_, ?_, ?_, ?_, ?_⟩
  · intro a ha; exact List.mem_cons_of_mem _ (inv.finDisc a ha)
  · intro a ha hafin
    rcases List.mem_cons.mp ha with h | h
    · subst h; simp
    · exact List.mem_append_right _ (inv.grayStack a h hafin)
  · intro a ha
    rcases List.mem_cons.mp ha with h | h
    · exact h ▸ hxr
    · exact inv.discReach a h
  · intro a ha
    rcases List.mem_append.mp ha with h | h
    · exact Reach.step hxr ((hP a).mp h).1
    · exact inv.stReach a h
  · rcases inv.start with h | h
    · exact Or.inl (List.mem_cons_of_mem _ h)
    · exact Or.inr (List.mem_append_right _ h)
  · intro a ha y hy; exact List.mem_cons_of_mem _ (inv.closed a ha y hy)
  · intro z hz hzfin w hw
    rw [habove z hz] at hw
    rcases List.mem_cons.mp hz with h | h
    · subst h
      rw [above_cons_self, List.append_nil] at hw
      exact Reach.step (Reach.refl _) ((hP w).mp hw).1
    · have hzx : x ≠ z := fun e => hx (e ▸ h)
      rcases List.mem_append.mp hw with hw | hw
      · have : Reach v.g z x := inv.grayAbove z h hzfin x (by rw [above_cons_ne _ hzx]; simp)
        exact Reach.step this ((hP w).mp hw).1
      · exact inv.grayAbove z h hzfin w hw
  · intro z hz hzfin y hy
    rw [habove z hz]
    rcases List.mem_cons.mp hz with h | h
    · subst h
      by_cases hyd : y ∈ z :: disc
      · exact Or.inl hyd
      · exact Or.inr (List.mem_append_left _ ((hP y).mpr ⟨hy, hyd⟩))
    · rcases inv.grayAdj z h hzfin y hy with h' | h'
      · exact Or.inl (List.mem_cons_of_mem _ h')
      · exact Or.inr (List.mem_append_right _ h')

theorem postInv_pop (g : MGraph) (s x : Nat) (st disc fin fin' : List Nat)
    (inv : PostInv g s (x :: st) disc fin) (hx : x ∈ disc) (hfin' : ∀ a, a ∈ fin' ↔ a = x ∨ a ∈ fin) :
    PostInv g s st disc fin' := by
  have hmono : ∀ z, z ∉ fin' → z ∉ fin ∧ x ≠ z := fun z hz =>
    ⟨fun h => hz ((hfin' z).mpr (Or.inr h)), fun h => hz ((hfin' z).mpr (Or.inl h.symm))⟩
  refine ⟨?_, ?_, inv.discReach, fun a ha => inv.stReach a (List.mem_cons_of_mem _ ha), ?_, ?_, ?_, ?_⟩
  · intro a ha
    rcases (hfin' a).mp ha with h | h
    · exact h ▸ hx
    · exact inv.finDisc a h
  · intro a ha hafin
    obtain ⟨h1, h2⟩ := hmono a hafin
    rcases List.mem_cons.mp (inv.grayStack a ha h1) with h | h
    · exact absurd h.symm h2
    · exact h
  · rcases inv.start with h | h
    · exact Or.inl h
    · rcases List.mem_cons.mp h with h | h
      · exact Or.inl (h ▸ hx)
      · exact Or.inr h
  · intro a ha y hy
    rcases (hfin' a).mp ha with h | h
    · subst h
      by_cases hafin : a ∈ fin
      · exact inv.closed a hafin y hy
      · rcases inv.grayAdj a hx hafin y hy with h' | h'
        · exact h'
        · rw [above_cons_self] at h'; cases h'
    · exact inv.closed a h y hy
  · intro z hz hzfin w hw
    obtain ⟨h1, h2⟩ := hmono z hzfin
    apply inv.grayAbove z hz h1 w
    rw [above_cons_ne _ h2]; exact List.mem_cons_of_mem _ hw
  · intro z hz hzfin y hy
    obtain ⟨h1, h2⟩ := hmono z hzfin
    rcases inv.grayAdj z hz h1 y hy with h' | h'
    · exact Or.inl h'
    · rw [above_cons_ne _ h2] at h'
      rcases List.mem_cons.mp h' with h'' | h''
      · exact Or.inl (h'' ▸ hx)
      · exact Or.inr h''

theorem postInv_finish (g : MGraph) (s x : Nat) (st disc fin : List Nat)
    (inv : PostInv g s (x :: st) disc fin) (hx : x ∈ disc) (hxfin : x ∉ fin) :
    ∀ y, g.Adj x y → ¬ Reach g y x → y ∈ fin := by
  intro y hy hback
  have hyd : y ∈ disc := by
    rcases inv.grayAdj x hx hxfin y hy with h | h
    · exact h
    · rw [above_cons_self] at h; cases h
  apply Classical.byContradiction
  intro hyfin
  apply hback
  by_cases hxy : x = y
  · exact hxy ▸ Reach.refl _
  · apply inv.grayAbove y hyd hyfin x
    rw [above_cons_ne _ hxy]; simp

theorem postNext_inv (v : View) (hv : ViewOk v) (s : Nat) :
    ∀ (f : Nat) (d : Post) (r : Option Nat) (d' : Post), PostInv v.g s d.stack d.disc d.fin →
      postNext v f d = some (r, d') →
      PostInv v.g s d'.stack d'.disc d'.fin ∧
      (r = none → d'.stack = [] ∧ d'.fin = d.fin) ∧
      (∀ x, r = some x → d'.fin = x :: d.fin ∧ x ∉ d.fin ∧
        ∀ y, v.g.Adj x y → ¬ Reach v.g y x → y ∈ d.fin) := by
  intro f
  induction f with
  | zero => intro d r d' _ h; simp [postNext] at h
  | succ f ih =>
    intro d r d' inv h
    rw [postNext] at h
    split at h
    · rename_i hst
      simp only [Option.some.injEq, Prod.mk.injEq] at h
      obtain ⟨rfl, rfl⟩ := h
      exact ⟨inv, fun _ => ⟨hst, rfl⟩, fun x hx => by cases hx⟩
    · rename_i x st hst
      rw [hst] at inv
      split at h
      · rename_i hx
        have hx' : x ∉ d.disc := not_contains.mp hx
        refine ih ⟨((v.succ x).filter (fun y => !(x :: d.disc).contains y)).reverse ++ (x :: st),
          x :: d.disc, d.fin⟩ r d' ?_ h
        exact postInv_push v hv s x st d.disc d.fin inv hx'
      · rename_i hx
        have hx' : x ∈ d.disc := by simpa using hx
        split at h
        · rename_i hxf
          have hxf' : x ∉ d.fin := not_contains.mp hxf
          simp only [Option.some.injEq, Prod.mk.injEq] at h
          obtain ⟨rfl, rfl⟩ := h
          refine ⟨postInv_pop v.g s x st d.disc d.fin _ inv hx' (by simp), fun h => (by cases h), ?_⟩
          intro x' hx''
          simp only [Option.some.injEq] at hx''
          subst hx''
          exact ⟨rfl, hxf', postInv_finish v.g s x st d.disc d.fin inv hx' hxf'⟩
        · rename_i hxf
          have hxf' : x ∈ d.fin := by simpa using hxf
          refine ih ⟨st, d.disc, d.fin⟩ r d' ?_ h
          exact postInv_pop v.g s x st d.disc d.fin d.fin inv hx' (by
            intro a; constructor
            · exact Or.inr
            · rintro (h | h)
              · exact h ▸ hxf'
              · exact h)

structure AccInv (g : MGraph) (acc fin : List Nat) : Prop where
  nodup : acc.Nodup
  accEq : ∀ x, x ∈ acc ↔ x ∈ fin
  order : ∀ x, x ∈ acc → ∀ y, g.Adj x y → ¬ Reach g y x → y ∈ acc ∧ acc.idxOf y < acc.idxOf x

theorem postAll_inv (v : View) (hv : ViewOk v) (s : Nat) (inner : Nat) :
    ∀ (k : Nat) (d : Post) (acc out : List Nat) (d' : Post), PostInv v.g s d.stack d.disc d.fin →
      AccInv v.g acc d.fin → postAll v inner k d acc = some (out, d') →
      PostInv v.g s [] d'.disc d'.fin ∧ AccInv v.g out d'.fin := by
  intro k
  induction k with
  | zero => intro d acc out d' _ _ h; simp [postAll] at h
  | succ k ih =>
    intro d acc out d' inv ainv h
    rw [postAll] at h
    split at h
    · cases h
    · rename_i d1 hn
      simp only [Option.some.injEq, Prod.mk.injEq] at h
      obtain ⟨rfl, rfl⟩ := h
      obtain ⟨h1, h2, _⟩ := postNext_inv v hv s inner d none _ inv hn
      obtain ⟨h3, h4⟩ := h2 rfl
      rw [h3] at h1
      rw [← h4] at ainv
      exact ⟨h1, ainv⟩
    · rename_i x d1 hn
      obtain ⟨h1, _, h2⟩ := postNext_inv v hv s inner d (some x) _ inv hn
      obtain ⟨h3, h4, h5⟩ := h2 x rfl
      have hxa : x ∉ acc := fun h => h4 ((ainv.accEq x).mp h)
      apply ih d1 _ out d' h1 _ h
      rw [h3]
      refine ⟨nodup_snoc ainv.nodup hxa, ?_, ?_⟩
      · intro a
        simp only [List.mem_append, List.mem_cons, ainv.accEq a]
        grind
      · intro a ha y hy hback
        rcases List.mem_append.mp ha with ha | ha
        · have := ainv.order a ha y hy hback
          refine ⟨List.mem_append_left _ this.1, ?_⟩
          rw [idxOf_snoc_mem this.1, idxOf_snoc_mem ha]; exact this.2
        · simp at ha; subst ha
          have hya : y ∈ acc := (ainv.accEq y).mpr (h5 y hy hback)
          refine ⟨List.mem_append_left _ hya, ?_⟩
          rw [idxOf_snoc_mem hya, idxOf_snoc_new hxa]
          exact List.idxOf_lt_length_of_mem hya

theorem post_all (v : View) (hv : ViewOk v) (s : Nat) (inner outer : Nat) (out : List Nat)
    (d' : Post) (h : postAll v inner outer { stack := [s] } [] = some (out, d')) :
    PostInv v.g s [] d'.disc d'.fin ∧ AccInv v.g out d'.fin := by
  apply postAll_inv v hv s inner outer _ [] out d' _ _ h
  · refine ⟨by simp, by simp, by simp, ?_, Or.inr (by simp), by simp, by simp, by simp⟩
    intro x hx; simp at hx; subst hx; exact Reach.refl _
  · exact ⟨List.nodup_nil, by simp, by simp⟩


/-! ### Bfs -/

theorem WalkLen.reach {g : MGraph} {s x n : Nat} (h : WalkLen g s x n) : Reach g s x := by
  induction h with
  | zero => exact Reach.refl _
  | succ _ hc ih => exact Reach.step ih hc

theorem IsDist.unique {g : MGraph} {s x d d' : Nat} (h : IsDist g s x d) (h' : IsDist g s x d') : d = d' :=
  Nat.le_antisymm (h.2 _ h'.1) (h'.2 _ h.1)

/-- `a` is not farther from `s` than `b` -/
def dle (g : MGraph) (s a b : Nat) : Prop := ∀ da db, IsDist g s a da → IsDist g s b db → da ≤ db

theorem bfsVisitAll_spec (ys : List Nat) : ∀ (disc q : List Nat), ∃ news,
    bfsVisitAll disc q ys = (news.reverse ++ disc, q ++ news) ∧ news.Nodup ∧
    (∀ y, y ∈ news → y ∈ ys ∧ y ∉ disc) ∧ (∀ y, y ∈ ys → y ∈ disc ∨ y ∈ news) := by
  induction ys with
  | nil => intro disc q; exact ⟨[], by simp [bfsVisitAll]⟩
  | cons y ys ih =>
    intro disc q
    rw [bfsVisitAll]
    split
    · rename_i hy
      have hy' : y ∈ disc := by simpa using hy
      obtain ⟨news, h1, h2, h3, h4⟩ := ih disc q
      refine ⟨news, h1, h2, fun a ha => ⟨List.mem_cons_of_mem _ (h3 a ha).1, (h3 a ha).2⟩, ?_⟩
      intro a ha
      rcases List.mem_cons.mp ha with h | h
      · exact Or.inl (h ▸ hy')
      · exact h4 a h
    · rename_i hy
      have hy' : y ∉ disc := by simpa using hy
      obtain ⟨news, h1, h2, h3, h4⟩ := ih (y :: disc) (q ++ [y])
      refine ⟨y :: news, by rw [h1]; simp, ?_, ?_, ?_⟩
      · exact List.nodup_cons.mpr ⟨fun h => (h3 y h).2 (List.mem_cons_self ..), h2⟩
      · intro a ha
        rcases List.mem_cons.mp ha with h | h
        · subst h; exact ⟨List.mem_cons_self .., hy'⟩
        · exact ⟨List.mem_cons_of_mem _ (h3 a h).1, fun h' => (h3 a h).2 (List.mem_cons_of_mem _ h')⟩
      · intro a ha
        rcases List.mem_cons.mp ha with h | h
        · exact Or.inr (h ▸ List.mem_cons_self ..)
        · rcases h4 a h with h' | h'
          · rcases List.mem_cons.mp h' with h'' | h''
            · exact Or.inr (h'' ▸ List.mem_cons_self ..)
            · exact Or.inl h''
          · exact Or.inr (List.mem_cons_of_mem _ h')

structure BfsInv (g : MGraph) (s : Nat) (acc q disc : List Nat) : Prop where
  nodup : (acc ++ q).Nodup
  discEq : ∀ x, x ∈ disc ↔ x ∈ acc ∨ x ∈ q
  hasDist : ∀ x, x ∈ disc → ∃ d, IsDist g s x d
  sorted : (acc ++ q).Pairwise (dle g s)
  tight : ∀ a, a ∈ q → ∀ b, b ∈ q → ∀ da db, IsDist g s a da → IsDist g s b db → db ≤ da + 1
  closed : ∀ x, x ∈ acc → ∀ y, g.Adj x y → y ∈ disc
  start : s ∈ disc

theorem bfsInv_step (g : MGraph) (s x : Nat) (acc q0 disc news : List Nat)
    (inv : BfsInv g s acc (x :: q0) disc) (hn : news.Nodup)
    (h1 : ∀ y, y ∈ news → g.Adj x y ∧ y ∉ disc) (h2 : ∀ y, g.Adj x y → y ∈ disc ∨ y ∈ news) :
    BfsInv g s (acc ++ [x]) (q0 ++ news) (news.reverse ++ disc) := by
  have hxd : x ∈ disc := (inv.discEq x).mpr (Or.inr (List.mem_cons_self ..))
  obtain ⟨L, hL⟩ := inv.hasDist x hxd
  obtain ⟨hsA, hsQ, hsAQ⟩ := List.pairwise_append.mp inv.sorted
  obtain ⟨hsx, hsQ0⟩ := List.pairwise_cons.mp hsQ
  -- everything within distance `L` is discovered
  have claimA : ∀ m z, WalkLen g s z m → m ≤ L → z ∈ disc := by
    intro m z hw
    induction hw with
    | zero => exact fun _ => inv.start
    | @succ b c n hwb hadj ih =>
      intro hle
      have hb : b ∈ disc := ih (by omega)
      obtain ⟨db, hdb⟩ := inv.hasDist b hb
      have hdbn : db ≤ n := hdb.2 n hwb
      rcases (inv.discEq b).mp hb with hba | hbq
      · exact inv.closed b hba c hadj
      · exfalso
        rcases List.mem_cons.mp hbq with h | h
        · subst h
          have := hdb.unique hL
          omega
        · have := hsx b h L db hL hdb
          omega
  have claimB : ∀ y, y ∈ news → IsDist g s y (L + 1) := by
    intro y hy
    refine ⟨WalkLen.succ hL.1 (h1 y hy).1, ?_⟩
    intro m hm
    apply Classical.byContradiction
    intro hlt
    exact (h1 y hy).2 (claimA m y hm (by omega))
  have hre : acc ++ [x] ++ (q0 ++ news) = (acc ++ x :: q0) ++ news := by simp
  refine ⟨?_, ?_, ?_, ?_, ?_, ?_, ?_⟩
  · rw [hre]
    refine List.nodup_append.mpr ⟨inv.nodup, hn, ?_⟩
    intro a ha b hb hab
    subst hab
    exact (h1 a hb).2 ((inv.discEq a).mpr (List.mem_append.mp ha))
  · intro y
    simp only [List.mem_append, List.mem_reverse, inv.discEq y, List.mem_cons,
      List.not_mem_nil, or_false]
    grind
  · intro y hy
    rcases List.mem_append.mp hy with h | h
    · exact ⟨L + 1, claimB y (List.mem_reverse.mp h)⟩
    · exact inv.hasDist y h
  · rw [hre]
    refine List.pairwise_append.mpr ⟨inv.sorted, ?_, ?_⟩
    · apply List.Pairwise.imp_of_mem (R := fun _ _ => True) ?_ (List.pairwise_of_forall (fun _ _ => trivial))
      intro a b ha hb _ da db hda hdb
      have := hda.unique (claimB a ha)
      have := hdb.unique (claimB b hb)
      omega
    · intro a ha b hb da db hda hdb
      have := hdb.unique (claimB b hb)
      rcases List.mem_append.mp ha with h | h
      · have := hsAQ a h x (List.mem_cons_self ..) da L hda hL
        omega
      · have := inv.tight x (List.mem_cons_self ..) a h L da hL hda
        omega
  · intro a ha b hb da db hda hdb
    rcases List.mem_append.mp ha with ha | ha <;> rcases List.mem_append.mp hb with hb | hb
    · exact inv.tight a (List.mem_cons_of_mem _ ha) b (List.mem_cons_of_mem _ hb) da db hda hdb
    · have := hdb.unique (claimB b hb)
      have := hsx a ha L da hL hda
      omega
    · have := hda.unique (claimB a ha)
      have := inv.tight x (List.mem_cons_self ..) b (List.mem_cons_of_mem _ hb) L db hL hdb
      omega
    · have := hda.unique (claimB a ha)
      have := hdb.unique (claimB b hb)
      omega
  · intro a ha y hy
    rcases List.mem_append.mp ha with h | h
    · exact List.mem_append_right _ (inv.closed a h y hy)
    · simp at h; subst h
      rcases h2 y hy with h' | h'
      · exact List.mem_append_right _ h'
      · exact List.mem_append_left _ (List.mem_reverse.mpr h')
  · exact List.mem_append_right _ inv.start

theorem bfsNext_nil (v : View) (b : Bfs) (h : b.queue = []) : bfsNext v b = (none, b) := by
  unfold bfsNext; rw [h]

theorem bfsNext_cons (v : View) (b : Bfs) (x : Nat) (q : List Nat) (h : b.queue = x :: q) :
    bfsNext v b = (some x, { queue := (bfsVisitAll b.disc q (v.succ x)).2,
                             disc := (bfsVisitAll b.disc q (v.succ x)).1 }) := by
  unfold bfsNext; rw [h]

theorem bfsAll_inv (v : View) (hv : ViewOk v) (s : Nat) :
    ∀ (k : Nat) (b : Bfs) (acc out : List Nat), BfsInv v.g s acc b.queue b.disc →
      bfsAll v k b acc = some out → ∃ disc, BfsInv v.g s out [] disc := by
  intro k
  induction k with
  | zero => intro b acc out _ h; simp [bfsAll] at h
  | succ k ih =>
    intro b acc out inv h
    rw [bfsAll] at h
    cases hq : b.queue with
    | nil =>
      rw [bfsNext_nil v b hq] at h
      simp only [Option.some.injEq] at h
      subst h
      rw [hq] at inv
      exact ⟨_, inv⟩
    | cons x q0 =>
      rw [bfsNext_cons v b x q0 hq] at h
      rw [hq] at inv
      obtain ⟨news, e, hn, h3, h4⟩ := bfsVisitAll_spec (v.succ x) b.disc q0
      rw [e] at h
      refine ih _ _ out ?_ h
      exact bfsInv_step v.g s x acc q0 b.disc news inv hn
        (fun y hy => ⟨(hv x y).mp (h3 y hy).1, (h3 y hy).2⟩) (fun y hy => h4 y ((hv x y).mpr hy))

/-! ### obligations (statements fixed by `Theorems/C08.lean`) -/

theorem dfs_moveTo (v : View) (hv : ViewOk v) (s : Nat) (D : List Nat) (inner outer : Nat)
    (out : List Nat) (d' : Dfs)
    (h : dfsAll v inner outer { stack := [s], disc := D } [] = some (out, d')) :
    out.Nodup ∧ (∀ x, x ∈ out ↔ ReachAvoid v.g D s x) ∧ (∀ x, x ∈ d'.disc ↔ x ∈ D ∨ x ∈ out) := by
  have inv0 : DfsInv v.g D s [s] D [] := by
    refine ⟨List.nodup_nil, by simp, by simp, ?_, by simp, Or.inr (by simp)⟩
    intro x hx
    simp at hx; subst hx
    by_cases h : x ∈ D
    · exact Or.inl h
    · exact Or.inr (ReachAvoid.refl h)
  have inv := dfsAll_inv v hv D s inner outer _ [] out d' inv0 h
  refine ⟨inv.nodup, fun x => ⟨inv.accAvoid x, ?_⟩, inv.discEq⟩
  intro hx
  induction hx with
  | refl hD =>
    rcases inv.start with h | h
    · rcases (inv.discEq _).mp h with h | h
      · exact absurd h hD
      · exact h
    · cases h
  | step _ hc hD ih =>
    rcases inv.closed _ ih _ hc with h | h
    · rcases (inv.discEq _).mp h with h | h
      · exact absurd h hD
      · exact h
    · cases h


theorem dfs_fresh (v : View) (hv : ViewOk v) (s : Nat) (inner outer : Nat) (out : List Nat) (d' : Dfs)
    (h : dfsAll v inner outer { stack := [s], disc := [] } [] = some (out, d')) :
    out.Nodup ∧ ∀ x, x ∈ out ↔ Reach v.g s x := by
  have := dfs_moveTo v hv s [] inner outer out d' h
  exact ⟨this.1, fun x => (this.2.1 x).trans reachAvoid_nil⟩

theorem bfs_spec (v : View) (hv : ViewOk v) (s : Nat) (fuel : Nat) (out : List Nat)
    (h : bfsAll v fuel (Bfs.new s) [] = some out) :
    out.Nodup ∧ (∀ x, x ∈ out ↔ Reach v.g s x) ∧
    ∀ i j (hi : i < out.length) (hj : j < out.length), i ≤ j →
      ∀ di dj, IsDist v.g s out[i] di → IsDist v.g s out[j] dj → di ≤ dj := by
  have hs0 : IsDist v.g s s 0 := ⟨WalkLen.zero s, fun _ _ => Nat.zero_le _⟩
  have inv0 : BfsInv v.g s [] [s] [s] := by
    refine ⟨by simp, by simp, ?_, by simp, ?_, by simp, by simp⟩
    · intro x hx; simp at hx; subst hx; exact ⟨0, hs0⟩
    · intro a ha b hb da db hda hdb
      simp at ha hb; subst ha; subst hb
      have := hdb.unique hs0
      omega
  obtain ⟨disc, inv⟩ := bfsAll_inv v hv s fuel (Bfs.new s) [] out inv0 h
  have hnd := inv.nodup
  have hso := inv.sorted
  rw [List.append_nil] at hnd hso
  have hde : ∀ x, x ∈ disc ↔ x ∈ out := by
    intro x; rw [inv.discEq x]; simp
  refine ⟨hnd, fun x => ⟨?_, ?_⟩, ?_⟩
  · intro hx
    obtain ⟨d, hd⟩ := inv.hasDist x ((hde x).mpr hx)
    exact hd.1.reach
  · intro hx
    rw [← hde]
    induction hx with
    | refl => exact inv.start
    | step _ hc ih => exact inv.closed _ ((hde _).mp ih) _ hc
  · intro i j hi hj hij di dj hdi hdj
    rcases Nat.lt_or_eq_of_le hij with hlt | heq
    · exact List.pairwise_iff_getElem.mp hso i j hi hj hlt di dj hdi hdj
    · subst heq
      exact Nat.le_of_eq (hdi.unique hdj)

theorem post_set (v : View) (hv : ViewOk v) (s : Nat) (inner outer : Nat) (out : List Nat)
    (d' : Post) (h : postAll v inner outer { stack := [s] } [] = some (out, d')) :
    out.Nodup ∧ ∀ x, x ∈ out ↔ Reach v.g s x := by
  obtain ⟨inv, ainv⟩ := post_all v hv s inner outer out d' h
  refine ⟨ainv.nodup, fun x => ⟨fun hx => inv.discReach x (inv.finDisc x ((ainv.accEq x).mp hx)), ?_⟩⟩
  intro hx
  have hdf : ∀ a, a ∈ d'.disc → a ∈ d'.fin := by
    intro a ha
    apply Classical.byContradiction
    intro haf
    cases inv.grayStack a ha haf
  rw [ainv.accEq]
  induction hx with
  | refl =>
    rcases inv.start with h | h
    · exact hdf _ h
    · cases h
  | step _ hc ih => exact hdf _ (inv.closed _ ih _ hc)

theorem post_order (v : View) (hv : ViewOk v) (s : Nat) (inner outer : Nat) (out : List Nat)
    (d' : Post) (h : postAll v inner outer { stack := [s] } [] = some (out, d'))
    (x y : Nat) (hx : x ∈ out) (hxy : v.g.Adj x y) (hback : ¬ Reach v.g y x) :
    out.idxOf y < out.idxOf x := by
  exact ((post_all v hv s inner outer out d' h).2.order x hx y hxy hback).2

set_option linter.unusedVariables false in
theorem topo_order (v : View) (hv : ViewOk v) (hp : PredOk v) (inner outer : Nat) (out : List Nat)
    (h : topoAll v inner outer (Topo.new v) [] = some out) :
    out.Nodup ∧ ∀ x ∈ out, ∀ p, v.g.Adj p x → p ∈ out ∧ out.idxOf p < out.idxOf x := by
  refine topoAll_inv v hp inner outer _ [] out ⟨List.nodup_nil, by simp [Topo.new], ?_, by simp⟩ h
  intro x hx p hpx
  simp only [Topo.new, Topo.initials, List.mem_reverse, List.mem_filter, List.isEmpty_iff] at hx
  have := (hp x p).mpr hpx
  rw [hx.2] at this
  cases this

theorem topo_no_cyclic (v : View) (hv : ViewOk v) (hp : PredOk v) (inner outer : Nat) (out : List Nat)
    (h : topoAll v inner outer (Topo.new v) [] = some out) (c x : Nat)
    (hc : Reach1 v.g c c) (hcx : Reach v.g c x) : x ∉ out := by
  have ho := (topo_order v hv hp inner outer out h).2
  intro hx
  have hcout : c ∈ out := by
    induction hcx with
    | refl => exact hx
    | step _ hadj ih => exact ih (ho _ hx _ hadj).1
  have key : ∀ a b, Reach1 v.g a b → b ∈ out → a ∈ out ∧ out.idxOf a < out.idxOf b := by
    intro a b hab
    induction hab with
    | single hadj => exact fun hb => ho _ hb _ hadj
    | step _ hadj ih =>
      intro hc'
      have h1 := ho _ hc' _ hadj
      have h2 := ih h1.1
      exact ⟨h2.1, Nat.lt_trans h2.2 h1.2⟩
  exact Nat.lt_irrefl _ (key c c hc hcout).2

theorem dfsv_times (v : View) (script : List Ctl) (fuel : Nat) (starts : List Nat) (s' : VS) (r : Res)
    (h : dfsSearch v script fuel starts {} = (s', r)) :
    (s'.evs.reverse.filterMap fun e => match e with
      | .discover _ t => some t | .finish _ t => some t | _ => none) = List.range s'.time := by
  have h0 : TimesOk ({} : VS) := rfl
  have h1 := dfsSearch_timesOk v script fuel starts {} h0
  rw [h] at h1
  exact h1

end PetgraphModel.TravProofs
