import PetgraphModel.Proofs.CsrFlat
set_option linter.style.nameCheck false
namespace PetgraphModel.CsrProofs
open PetgraphModel.CsrM

/-- the flat vectors of `s` are the rows `R` laid out one after the other -/
structure Rep (s : State) (R : List Row) : Prop where
  col : s.column = R.flatten.map (·.1)
  wts : s.edges = R.flatten.map (·.2)
  row : s.row = offsets 0 R
  nw : s.nodeWeights.length = R.length

/-- every row strictly ascending with entries below the node count -/
def RowsOK (R : List Row) : Prop := ∀ r ∈ R, Asc (keys r) ∧ ∀ x ∈ keys r, x < R.length

theorem Rep.nodeCount {s : State} {R : List Row} (h : Rep s R) : s.nodeCount = R.length := by
  simp [State.nodeCount, h.row, offsets_length]

theorem Rep.column_length {s : State} {R : List Row} (h : Rep s R) : s.column.length = R.flatten.length := by
  rw [h.col, List.length_map]

theorem Rep.edges_length {s : State} {R : List Row} (h : Rep s R) : s.edges.length = R.flatten.length := by
  rw [h.wts, List.length_map]

theorem Rep.range_lt {s : State} {R : List Row} (h : Rep s R) (a : Nat) (ha : a < R.length) :
    neighborsRange s a = some (start R a, start R (a + 1)) := by
  unfold neighborsRange
  rw [h.row, offsets_getElem? 0 R a (by omega), offsets_getElem? 0 R (a + 1) (by omega)]
  simp

/-- since /repo commit aadb875 (repair of D32): `row[a + 1]` is indexed, so every node that does not exist panics -/
theorem Rep.range_ge {s : State} {R : List Row} (h : Rep s R) (a : Nat) (ha : R.length ≤ a) :
    neighborsRange s a = none := by
  unfold neighborsRange
  rw [h.row, offsets_getElem?_none 0 R (a + 1) (by omega)]
  cases (offsets 0 R)[a]? <;> rfl

theorem slice_map_rows {β : Type} (R : List Row) (f : Nat × Int → β) (a : Nat) (ha : a < R.length) :
    slice (R.flatten.map f) (start R a, start R (a + 1)) = some (R[a].map f) := by
  unfold slice
  have h1 : start R a ≤ start R (a + 1) := by rw [start_succ R a ha]; omega
  have h2 : start R (a + 1) ≤ (R.flatten.map f).length := by rw [List.length_map]; exact start_mono R (a + 1)
  simp only [h1, h2, and_self, if_true]
  rw [← List.map_take, ← List.map_drop, flatten_slice R a ha]

theorem Rep.neighborsOf_lt {s : State} {R : List Row} (h : Rep s R) (a : Nat) (ha : a < R.length) :
    neighborsOf s a = some (start R a, keys R[a]) := by
  unfold neighborsOf
  rw [h.range_lt a ha, h.col]
  simp only [slice_map_rows R _ a ha]
  rfl

theorem Rep.findEdgePos_lt {s : State} {R : List Row} (h : Rep s R) (ok : RowsOK R) (a b : Nat) (ha : a < R.length) :
    findEdgePos s a b =
      some (if b ∈ keys R[a] then .found (lb b (keys R[a]) + start R a) else .absent (lb b (keys R[a]) + start R a)) := by
  unfold findEdgePos
  rw [h.neighborsOf_lt a ha]
  have hasc : Asc (keys R[a]) := (ok _ (List.getElem_mem ha)).1
  simp only [searchPos_eq_linear _ _ _ hasc, linearPos_eq, mem_iff_lb _ _ hasc]
  split <;> simp [Pos.shift]

/-- the rows after `add_edge_(a, b, w)` really inserted -/
def insAt (R : List Row) (a b : Nat) (w : Int) : List Row :=
  match R[a]? with
  | some r => R.set a (insRow b w r)
  | none => R

theorem insAt_length (R : List Row) (a b : Nat) (w : Int) : (insAt R a b w).length = R.length := by
  unfold insAt; split <;> simp

theorem insAt_getElem (R : List Row) (a b : Nat) (w : Int) (x : Nat) (hx : x < R.length) :
    (insAt R a b w)[x]'(by rw [insAt_length]; exact hx) = if x = a then insRow b w R[x] else R[x] := by
  by_cases ha : a < R.length
  · have e : insAt R a b w = R.set a (insRow b w R[a]) := by
      simp [insAt, List.getElem?_eq_getElem ha]
    simp only [e, List.getElem_set]
    by_cases hxa : a = x
    · subst hxa; simp
    · have : ¬ x = a := fun e => hxa e.symm
      simp [hxa, this]
  · have e : insAt R a b w = R := by
      simp [insAt, List.getElem?_eq_none (by omega : R.length ≤ a)]
    have : ¬ x = a := by omega
    simp [e, this]

theorem RowsOK.insAt {R : List Row} (ok : RowsOK R) (a b : Nat) (w : Int) (ha : a < R.length) (hb : b < R.length)
    (hnew : b ∉ keys R[a]) : RowsOK (insAt R a b w) := by
  intro r hr
  obtain ⟨x, hx, rfl⟩ := List.getElem_of_mem hr
  have hx' : x < R.length := by rw [insAt_length] at hx; exact hx
  rw [insAt_getElem R a b w x hx', insAt_length]
  have hox := ok _ (List.getElem_mem hx')
  split
  · rename_i hxa; subst hxa
    refine ⟨asc_insRow b w _ hox.1 hnew, ?_⟩
    intro y hy
    rcases (mem_keys_insRow b w _ y).mp hy with rfl | hy
    · exact hb
    · exact hox.2 y hy
  · exact hox

theorem map_insertIdx' {α β : Type} (f : α → β) (l : List α) (n : Nat) (a : α) :
    (l.insertIdx n a).map f = (l.map f).insertIdx n (f a) := by
  induction l generalizing n with
  | nil => cases n <;> simp
  | cons x xs ih => cases n <;> simp [ih]

theorem addEdge__oob (s : State) (a b : Nat) (w : Int) (h : ¬ (a < s.nodeCount ∧ b < s.nodeCount)) :
    addEdge_ s a b w = some (s, .error (a, b)) := by
  simp [addEdge_, h]

theorem Rep.addEdge__present {s : State} {R : List Row} (h : Rep s R) (ok : RowsOK R) (a b : Nat) (w : Int)
    (ha : a < R.length) (hb : b < R.length) (hin : b ∈ keys R[a]) :
    addEdge_ s a b w = some (s, .ok false) := by
  unfold addEdge_
  simp only [h.nodeCount, ha, hb, and_self, not_true_eq_false, if_false, h.findEdgePos_lt ok a b ha, hin, if_true]

theorem Rep.addEdge__absent {s : State} {R : List Row} (h : Rep s R) (ok : RowsOK R) (a b : Nat) (w : Int)
    (ha : a < R.length) (hb : b < R.length) (hin : b ∉ keys R[a]) :
    ∃ s', addEdge_ s a b w = some (s', .ok true) ∧ Rep s' (insAt R a b w) ∧
      s'.directed = s.directed ∧ s'.modulus = s.modulus ∧ s'.cutoff = s.cutoff ∧ s'.debug = s.debug ∧
      s'.nodeWeights = s.nodeWeights ∧ s'.edgeCount = s.edgeCount ∧ s'.column.length = s.column.length + 1 := by
  unfold addEdge_
  simp only [h.nodeCount, ha, hb, and_self, not_true_eq_false, if_false, h.findEdgePos_lt ok a b ha, hin]
  have hlb : lb b (keys R[a]) ≤ R[a].length := by simpa using lb_le b (keys R[a])
  have hpos : lb b (keys R[a]) + start R a ≤ R.flatten.length := by
    have := start_succ R a ha
    have := start_mono R (a + 1)
    omega
  have hrl : a + 1 ≤ s.row.length := by rw [h.row, offsets_length]; omega
  simp only [h.column_length, h.edges_length, hpos, hrl, and_self, if_true]
  refine ⟨_, rfl, ?_, rfl, rfl, rfl, rfl, rfl, rfl, ?_⟩
  rotate_left
  · show (s.column.insertIdx _ b).length = _
    rw [List.length_insertIdx, h.column_length, if_pos hpos]
  have hRa : R[a]? = some R[a] := List.getElem?_eq_getElem ha
  have hins : insAt R a b w = R.set a (R[a].insertIdx (lb b (keys R[a])) (b, w)) := by
    simp [insAt, hRa, insertIdx_lb]
  constructor
  · show (s.column.insertIdx _ b) = _
    rw [hins, h.col, ← insertIdx_flatten R a _ (b, w) ha hlb, Nat.add_comm]
    exact (map_insertIdx' (fun x : Nat × Int => x.1) R.flatten _ (b, w)).symm
  · show (s.edges.insertIdx _ w) = _
    rw [hins, h.wts, ← insertIdx_flatten R a _ (b, w) ha hlb, Nat.add_comm]
    exact (map_insertIdx' (fun x : Nat × Int => x.2) R.flatten _ (b, w)).symm
  · show s.row.take (a + 1) ++ (s.row.drop (a + 1)).map (· + 1) = _
    rw [hins, h.row, offsets_set 0 R a _ ha (by rw [insertIdx_lb, length_insRow])]
  · show s.nodeWeights.length = _
    rw [insAt_length, h.nw]

end PetgraphModel.CsrProofs
