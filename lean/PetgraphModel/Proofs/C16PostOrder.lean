import PetgraphModel.Proofs.C16Chk
/-
C16 — what `simple_fast` needs from `DfsPostOrder`: run to exhaustion from the root it emits
exactly the nodes reachable from the root, each once (`PostOrderSpec`).  Proved here directly for
`Trav.postNext` (the walker model of C08), so that the C16 theorems do not depend on the C08 proofs.
-/
namespace PetgraphModel.C16P
open PetgraphModel MGraph C16M PetgraphModel.Trav

structure PInv (v : View) (root : Nat) (d : Post) : Prop where
  finNodup : d.fin.Nodup
  finDisc : ∀ x, x ∈ d.fin → x ∈ d.disc
  discReach : ∀ x, x ∈ d.disc → Reach v.g root x
  stackReach : ∀ x, x ∈ d.stack → Reach v.g root x
  start : root ∈ d.disc ∨ root ∈ d.stack
  closed : ∀ x, x ∈ d.disc → ∀ y, v.g.Adj x y → y ∈ d.disc ∨ y ∈ d.stack
  pending : ∀ x, x ∈ d.disc → x ∈ d.fin ∨ x ∈ d.stack

theorem postNext_inv (v : View) (hv : ViewOk v) (root : Nat) : ∀ (f : Nat) (d d' : Post) (r : Option Nat),
    PInv v root d → postNext v f d = some (r, d') →
    PInv v root d' ∧ (match r with
      | some x => d'.fin = x :: d.fin
      | none => d'.stack = [] ∧ d'.fin = d.fin) := by
  intro f
  induction f with
  | zero => intro d d' r _ h; simp [postNext] at h
  | succ f ih =>
    intro d d' r inv h
    unfold postNext at h
    split at h
    · rename_i hst
      simp only [Option.some.injEq, Prod.mk.injEq] at h
      obtain ⟨rfl, rfl⟩ := h
      exact ⟨inv, hst, rfl⟩
    · rename_i x st hst
      have hxs : x ∈ d.stack := by rw [hst]; simp
      have hxr : Reach v.g root x := inv.stackReach x hxs
      split at h
      · -- discover x
        rename_i hnd
        simp only [Bool.not_eq_true', ← Bool.not_eq_true, List.contains_iff_mem] at hnd
        obtain ⟨inv', hr⟩ := ih _ d' r (by
          refine ⟨inv.finNodup, fun y hy => List.mem_cons_of_mem _ (inv.finDisc y hy), ?_, ?_, ?_, ?_, ?_⟩
          · intro y hy
            cases List.mem_cons.mp hy with
            | inl h' => exact h' ▸ hxr
            | inr h' => exact inv.discReach y h'
          · intro y hy
            simp only [List.mem_append, List.mem_reverse, List.mem_filter, List.mem_cons] at hy
            rcases hy with ⟨hy, _⟩ | rfl | hy
            · exact Reach.step hxr ((hv x y).mp hy)
            · exact hxr
            · exact inv.stackReach y (by rw [hst]; exact List.mem_cons_of_mem _ hy)
          · cases inv.start with
            | inl h' => exact Or.inl (List.mem_cons_of_mem _ h')
            | inr h' =>
              rw [hst] at h'
              cases List.mem_cons.mp h' with
              | inl h'' => exact Or.inl (h'' ▸ List.mem_cons_self ..)
              | inr h'' => exact Or.inr (by simp [h''])
          · intro a ha y hy
            simp only [List.mem_append, List.mem_reverse, List.mem_filter, List.mem_cons]
            cases List.mem_cons.mp ha with
            | inl h' =>
              subst h'
              by_cases hyd : y = a ∨ y ∈ d.disc
              · exact Or.inl hyd
              · right; left
                refine ⟨(hv a y).mpr hy, ?_⟩
                rw [Bool.not_eq_true', ← Bool.not_eq_true, List.contains_iff_mem, List.mem_cons]
                exact hyd
            | inr h' =>
              cases inv.closed a h' y hy with
              | inl h'' => exact Or.inl (Or.inr h'')
              | inr h'' =>
                rw [hst] at h''
                cases List.mem_cons.mp h'' with
                | inl h3 => exact Or.inl (Or.inl h3)
                | inr h3 => exact Or.inr (Or.inr (Or.inr h3))
          · intro a ha
            simp only [List.mem_append, List.mem_reverse, List.mem_filter, List.mem_cons]
            cases List.mem_cons.mp ha with
            | inl h' => exact Or.inr (Or.inr (Or.inl h'))
            | inr h' =>
              cases inv.pending a h' with
              | inl h'' => exact Or.inl h''
              | inr h'' =>
                rw [hst] at h''
                cases List.mem_cons.mp h'' with
                | inl h3 => exact Or.inr (Or.inr (Or.inl h3))
                | inr h3 => exact Or.inr (Or.inr (Or.inr h3))) h
        exact ⟨inv', hr⟩
      · rename_i hd
        simp only [Bool.not_eq_true', ← Bool.not_eq_true, List.contains_iff_mem, Decidable.not_not] at hd
        split at h
        · -- emit x
          rename_i hnf
          simp only [Bool.not_eq_true', ← Bool.not_eq_true, List.contains_iff_mem] at hnf
          simp only [Option.some.injEq, Prod.mk.injEq] at h
          obtain ⟨rfl, rfl⟩ := h
          refine ⟨⟨List.nodup_cons.mpr ⟨hnf, inv.finNodup⟩, ?_, inv.discReach, ?_, ?_, ?_, ?_⟩, rfl⟩
          · intro y hy
            cases List.mem_cons.mp hy with
            | inl h' => exact h' ▸ hd
            | inr h' => exact inv.finDisc y h'
          · intro y hy; exact inv.stackReach y (by rw [hst]; exact List.mem_cons_of_mem _ hy)
          · cases inv.start with
            | inl h' => exact Or.inl h'
            | inr h' =>
              rw [hst] at h'
              cases List.mem_cons.mp h' with
              | inl h'' => exact Or.inl (h'' ▸ hd)
              | inr h'' => exact Or.inr h''
          · intro a ha y hy
            cases inv.closed a ha y hy with
            | inl h' => exact Or.inl h'
            | inr h' =>
              rw [hst] at h'
              cases List.mem_cons.mp h' with
              | inl h'' => exact Or.inl (h'' ▸ hd)
              | inr h'' => exact Or.inr h''
          · intro a ha
            cases inv.pending a ha with
            | inl h' => exact Or.inl (List.mem_cons_of_mem _ h')
            | inr h' =>
              rw [hst] at h'
              cases List.mem_cons.mp h' with
              | inl h'' => exact Or.inl (h'' ▸ List.mem_cons_self ..)
              | inr h'' => exact Or.inr h''
        · -- pop a finished node
          rename_i hf
          simp only [Bool.not_eq_true', ← Bool.not_eq_true, List.contains_iff_mem, Decidable.not_not] at hf
          obtain ⟨inv', hr⟩ := ih _ d' r (by
            refine ⟨inv.finNodup, inv.finDisc, inv.discReach, ?_, ?_, ?_, ?_⟩
            · intro y hy; exact inv.stackReach y (by rw [hst]; exact List.mem_cons_of_mem _ hy)
            · cases inv.start with
              | inl h' => exact Or.inl h'
              | inr h' =>
                rw [hst] at h'
                cases List.mem_cons.mp h' with
                | inl h'' => exact Or.inl (h'' ▸ hd)
                | inr h'' => exact Or.inr h''
            · intro a ha y hy
              cases inv.closed a ha y hy with
              | inl h' => exact Or.inl h'
              | inr h' =>
                rw [hst] at h'
                cases List.mem_cons.mp h' with
                | inl h'' => exact Or.inl (h'' ▸ hd)
                | inr h'' => exact Or.inr h''
            · intro a ha
              cases inv.pending a ha with
              | inl h' => exact Or.inl h'
              | inr h' =>
                rw [hst] at h'
                cases List.mem_cons.mp h' with
                | inl h'' => exact Or.inl (h'' ▸ hf)
                | inr h'' => exact Or.inr h'') h
          exact ⟨inv', hr⟩

theorem postOrderFrom_spec (v : View) (hv : ViewOk v) (root : Nat) (inner : Nat) :
    ∀ (k : Nat) (d : Post) (acc post : List Nat), PInv v root d → acc.reverse = d.fin →
      postOrderFrom v inner k d acc = some post →
      post.Nodup ∧ ∀ x, x ∈ post ↔ Reach v.g root x := by
  intro k
  induction k with
  | zero => intro d acc post _ _ h; simp [postOrderFrom] at h
  | succ k ih =>
    intro d acc post inv hacc h
    simp only [postOrderFrom] at h
    split at h
    · cases h
    · rename_i d' hn
      simp only [Option.some.injEq] at h
      subst h
      obtain ⟨inv', hst, hfin⟩ := postNext_inv v hv root inner d d' none inv hn
      have hmem : ∀ x, x ∈ acc ↔ x ∈ d'.fin := by
        intro x; rw [hfin, ← hacc]; simp
      refine ⟨?_, fun x => ?_⟩
      · have : acc.reverse.Nodup := by rw [hacc, ← hfin]; exact inv'.finNodup
        exact (List.pairwise_reverse.mp this).imp (fun h => Ne.symm h)
      · rw [hmem x]
        constructor
        · intro hx; exact inv'.discReach x (inv'.finDisc x hx)
        · intro hr
          have hdisc : ∀ y, Reach v.g root y → y ∈ d'.disc := by
            intro y hy
            induction hy with
            | refl =>
              cases inv'.start with
              | inl h' => exact h'
              | inr h' => rw [hst] at h'; cases h'
            | step _ hadj ihy =>
              cases inv'.closed _ ihy _ hadj with
              | inl h' => exact h'
              | inr h' => rw [hst] at h'; cases h'
          cases inv'.pending x (hdisc x hr) with
          | inl h' => exact h'
          | inr h' => rw [hst] at h'; cases h'
    · rename_i x d' hn
      obtain ⟨inv', hfin⟩ := postNext_inv v hv root inner d d' (some x) inv hn
      exact ih d' (acc ++ [x]) post inv' (by simp only at hfin; rw [hfin, ← hacc]; simp) h

/-- `DfsPostOrder` from the root emits exactly the reachable set, each node once -/
theorem postOrderSpec_of_viewOk (v : View) (hv : ViewOk v) (root : Nat) : PostOrderSpec v root := by
  intro post h
  exact postOrderFrom_spec v hv root _ _ { stack := [root] } [] post
    ⟨by simp, by simp, by simp, by intro x hx; simp at hx; exact hx ▸ Reach.refl _,
     Or.inr (by simp), by simp, by simp⟩ rfl h

end PetgraphModel.C16P
