import PetgraphModel.Proofs.C08W4Acc
import PetgraphModel.Proofs.C08W2Reach
/-
C08 (wave 4): which nodes `depth_first_search` discovers when the visitor prunes.

`C08_dfsv_reach_exact` covers visitors that always answer `Continue`.  With `Prune` the discovered
set depends on where the visitor pruned:

* `Prune` on `Discover(u)` — no edge out of `u` is followed (`PrunedAt`);
* `Prune` on `TreeEdge(u, w)` — `w` is not entered through this edge; it may still be entered through
  another edge, even a parallel `u → w` edge whose `TreeEdge` is answered `Continue` (`TreeAns`).

For a run that ends with `Continue` the discovered (= finished) nodes are exactly the nodes reachable
from the start nodes along edges `u → w` with `u` not pruned and `(u, w)` not blocked
(`PReach`): nodes reachable only through pruned nodes / pruned tree edges are NOT discovered.

All statements are about any stream the reference machine accepts (`Accepts`), so they hold of the
model's histories and of every stream the run-time judge accepts.
-/
namespace PetgraphModel.TravProofs
open PetgraphModel PetgraphModel.Trav PetgraphModel.MGraph

/-! ### statement vocabulary (forward event lists) -/

/-- `Discover(u)` was answered `Prune` -/
def PrunedAt (script : List Ctl) (L : List Ev) (u : Nat) : Prop :=
  ∃ pre t post, L = pre ++ .discover u t :: post ∧ ctlAt script pre.length = .prune

/-- some `TreeEdge(u, w)` was answered `c` -/
def TreeAns (script : List Ctl) (L : List Ev) (c : Ctl) (u w : Nat) : Prop :=
  ∃ pre post, L = pre ++ .tree u w :: post ∧ ctlAt script pre.length = c

/-- the edge `u → w` was pruned away: a `TreeEdge(u, w)` was answered `Prune` and none `Continue` -/
def Blocked (script : List Ctl) (L : List Ev) (u w : Nat) : Prop :=
  TreeAns script L .prune u w ∧ ¬ TreeAns script L .cont u w

/-- reachability that respects the visitor's prunes -/
inductive PReach (g : MGraph) (script : List Ctl) (L : List Ev) : Nat → Nat → Prop
  | refl (a : Nat) : PReach g script L a a
  | step {a b c : Nat} : PReach g script L a b → ¬ PrunedAt script L b → g.Adj b c →
      ¬ Blocked script L b c → PReach g script L a c

theorem PReach.reach {g : MGraph} {script : List Ctl} {L : List Ev} {a b : Nat}
    (h : PReach g script L a b) : Reach g a b := by
  induction h with
  | refl => exact Reach.refl _
  | step _ _ hadj _ ih => exact Reach.step ih hadj

/-! ### the same sets computed along a history (newest event first, as `replay` reads it) -/

def prunedOf (script : List Ctl) : List Ev → List Nat
  | [] => []
  | .discover n _ :: l => if ctlAt script l.length = .prune then n :: prunedOf script l else prunedOf script l
  | _ :: l => prunedOf script l

def treeOf (script : List Ctl) (c : Ctl) : List Ev → List (Nat × Nat)
  | [] => []
  | .tree u w :: l => if ctlAt script l.length = c then (u, w) :: treeOf script c l else treeOf script c l
  | _ :: l => treeOf script c l

theorem prunedOf_mono (script : List Ctl) (e : Ev) (l : List Ev) {n : Nat} (h : n ∈ prunedOf script l) :
    n ∈ prunedOf script (e :: l) := by
  cases e <;> simp only [prunedOf] <;> try exact h
  split
  · exact List.mem_cons_of_mem _ h
  · exact h

theorem treeOf_mono (script : List Ctl) (c : Ctl) (e : Ev) (l : List Ev) {p : Nat × Nat}
    (h : p ∈ treeOf script c l) : p ∈ treeOf script c (e :: l) := by
  cases e <;> simp only [treeOf] <;> try exact h
  split
  · exact List.mem_cons_of_mem _ h
  · exact h

theorem prunedOf_iff (script : List Ctl) (n : Nat) : ∀ (l : List Ev),
    n ∈ prunedOf script l ↔ PrunedAt script l.reverse n := by
  intro l
  induction l with
  | nil =>
    simp only [prunedOf, List.not_mem_nil, List.reverse_nil, false_iff]
    rintro ⟨pre, t, post, h, _⟩
    cases pre <;> cases h
  | cons e l ih =>
    constructor
    · intro h
      have key : n ∈ prunedOf script l ∨ (∃ t, e = .discover n t ∧ ctlAt script l.length = .prune) := by
        cases e with
        | discover m t =>
          simp only [prunedOf] at h
          split at h
          · rename_i hc
            rcases List.mem_cons.mp h with h1 | h1
            · exact Or.inr ⟨t, by rw [h1], hc⟩
            · exact Or.inl h1
          · exact Or.inl h
        | finish m t => exact Or.inl h
        | tree a w => exact Or.inl h
        | back a w => exact Or.inl h
        | cross a w => exact Or.inl h
      rcases key with h1 | ⟨t, rfl, hc⟩
      · obtain ⟨pre, t, post, hL, hc⟩ := ih.mp h1
        exact ⟨pre, t, post ++ [e], by rw [List.reverse_cons, hL]; simp, hc⟩
      · exact ⟨l.reverse, t, [], by simp, by simpa using hc⟩
    · rintro ⟨pre, t, post, hL, hc⟩
      rw [List.reverse_cons] at hL
      rcases List.eq_nil_or_concat post with hp | ⟨post', e', hp⟩
      · subst hp
        have := List.append_inj' hL rfl
        have he : e = .discover n t := by simpa using this.2
        subst he
        have hlen : pre.length = l.length := by rw [← this.1]; simp
        simp only [prunedOf]
        rw [← hlen, if_pos hc]
        exact List.mem_cons_self ..
      · rw [List.concat_eq_append] at hp
        subst hp
        have h2 : l.reverse ++ [e] = (pre ++ Ev.discover n t :: post') ++ [e'] := by rw [hL]; simp
        have := List.append_inj' h2 rfl
        exact prunedOf_mono script e l (ih.mpr ⟨pre, t, post', this.1, hc⟩)

theorem treeOf_iff (script : List Ctl) (c : Ctl) (u w : Nat) : ∀ (l : List Ev),
    (u, w) ∈ treeOf script c l ↔ TreeAns script l.reverse c u w := by
  intro l
  induction l with
  | nil =>
    simp only [treeOf, List.not_mem_nil, List.reverse_nil, false_iff]
    rintro ⟨pre, post, h, _⟩
    cases pre <;> cases h
  | cons e l ih =>
    constructor
    · intro h
      have key : (u, w) ∈ treeOf script c l ∨ (e = .tree u w ∧ ctlAt script l.length = c) := by
        cases e with
        | tree a x =>
          simp only [treeOf] at h
          split at h
          · rename_i hc
            rcases List.mem_cons.mp h with h1 | h1
            · simp only [Prod.mk.injEq] at h1
              exact Or.inr ⟨by rw [h1.1, h1.2], hc⟩
            · exact Or.inl h1
          · exact Or.inl h
        | finish m t => exact Or.inl h
        | discover m t => exact Or.inl h
        | back a x => exact Or.inl h
        | cross a x => exact Or.inl h
      rcases key with h1 | ⟨rfl, hc⟩
      · obtain ⟨pre, post, hL, hc⟩ := ih.mp h1
        exact ⟨pre, post ++ [e], by rw [List.reverse_cons, hL]; simp, hc⟩
      · exact ⟨l.reverse, [], by simp, by simpa using hc⟩
    · rintro ⟨pre, post, hL, hc⟩
      rw [List.reverse_cons] at hL
      rcases List.eq_nil_or_concat post with hp | ⟨post', e', hp⟩
      · subst hp
        have := List.append_inj' hL rfl
        have he : e = .tree u w := by simpa using this.2
        subst he
        have hlen : pre.length = l.length := by rw [← this.1]; simp
        simp only [treeOf]
        rw [← hlen, if_pos hc]
        exact List.mem_cons_self ..
      · rw [List.concat_eq_append] at hp
        subst hp
        have h2 : l.reverse ++ [e] = (pre ++ Ev.tree u w :: post') ++ [e'] := by rw [hL]; simp
        have := List.append_inj' h2 rfl
        exact treeOf_mono script c e l (ih.mpr ⟨pre, post', this.1, hc⟩)


/-! ### histories without `Break` and without the `Prune`-on-`Finish` panic -/

def isFin : Ev → Prop
  | .finish _ _ => True
  | _ => False

def okHist (script : List Ctl) : List Ev → Prop
  | [] => True
  | e :: l => (ctlAt script l.length ≠ .brk ∧ ¬ (ctlAt script l.length = .prune ∧ isFin e)) ∧ okHist script l

theorem okHist_of_alive (v : View) (starts : List Nat) (script : List Ctl) :
    ∀ (l : List Ev) (m : MS), replay v starts script l = some m → m.mode ≠ .dead → m.mode ≠ .panic →
      okHist script l := by
  intro l
  induction l with
  | nil => intro _ _ _ _; trivial
  | cons e l ih =>
    intro m h hd hp
    rw [replay] at h
    cases h1 : replay v starts script l with
    | none => rw [h1] at h; cases h
    | some m1 =>
      rw [h1] at h
      simp only [Option.bind_some] at h
      have hm := step_mode h
      have ha := step_alive h
      refine ⟨⟨?_, ?_⟩, ih m1 h1 ha.1 ha.2⟩
      · intro hc
        exact hd (by rw [hm]; exact modeAfter_dead.mpr hc)
      · rintro ⟨hc, hf⟩
        apply hp
        rw [hm]
        cases e with
        | finish n t => exact modeAfter_panic.mpr ⟨hc, n, t, rfl⟩
        | discover n t => cases hf
        | tree a w => cases hf
        | back a w => cases hf
        | cross a w => cases hf

/-! ### the invariant -/

/-- reachability along a list of edges -/
inductive TReach (T : List (Nat × Nat)) : Nat → Nat → Prop
  | refl (a : Nat) : TReach T a a
  | step {a b c : Nat} : TReach T a b → (b, c) ∈ T → TReach T a c

theorem TReach.mono {T T' : List (Nat × Nat)} (h : ∀ p, p ∈ T → p ∈ T') {a b : Nat} (hr : TReach T a b) :
    TReach T' a b := by
  induction hr with
  | refl => exact TReach.refl _
  | step _ hm ih => exact TReach.step ih (h _ hm)

structure InvP (v : View) (starts : List Nat) (script : List Ctl) (l : List Ev) (m : MS) : Prop where
  treeReach : ∀ x, x ∈ m.disc → ∃ s, s ∈ starts ∧ TReach (treeOf script .cont l) s x
  expOk : ∀ n, m.mode = .expectDisc n → ∃ u ws rest, m.stack = (u, ws) :: rest ∧ (u, n) ∈ treeOf script .cont l
  prunedFin : ∀ b, b ∈ prunedOf script l → b ∈ m.fin ∨ (m.mode = .expectFin ∧ ∃ ws rest, m.stack = (b, ws) :: rest)
  treeSrc : ∀ b w, (b, w) ∈ treeOf script .cont l → b ∈ m.disc ∧ b ∉ prunedOf script l ∧ w ∈ v.succ b
  modeOk : m.mode = .run ∨ (∃ w, m.mode = .expectDisc w) ∨ m.mode = .expectFin
  expFin : m.mode = .expectFin → ∃ b ws rest, m.stack = (b, ws) :: rest ∧ b ∈ prunedOf script l
  stackCl : ∀ u ws, (u, ws) ∈ m.stack → u ∉ prunedOf script l → ∀ w, w ∈ v.succ u →
    w ∈ ws ∨ w ∈ m.disc ∨ m.mode = .expectDisc w ∨ (u, w) ∈ treeOf script .prune l
  finCl : ∀ u, u ∈ m.fin → u ∉ prunedOf script l → ∀ w, w ∈ v.succ u →
    w ∈ m.disc ∨ (u, w) ∈ treeOf script .prune l
  contCl : ∀ u w, (u, w) ∈ treeOf script .cont l → w ∈ m.disc ∨ m.mode = .expectDisc w

theorem invP_init (v : View) (starts : List Nat) (script : List Ctl) : InvP v starts script [] MS.init := by
  refine ⟨?_, ?_, ?_, ?_, Or.inl rfl, ?_, ?_, ?_, ?_⟩ <;> simp [MS.init, prunedOf, treeOf]

theorem afterEdge_run {c : Ctl} (h : c ≠ .brk) : afterEdge c = .run := by
  cases c <;> simp_all [afterEdge]

/-- a non-tree edge event: one neighbour less to examine, nothing else changes -/
theorem invP_nontree {v : View} {starts : List Nat} {script : List Ctl} {l : List Ev} {m1 : MS}
    {e : Ev} {a x : Nat} {ws : List Nat} {rest : List (Nat × List Nat)}
    (invp : InvP v starts script l m1) (hst : m1.stack = (a, x :: ws) :: rest) (hmd : m1.mode = .run)
    (hxd : x ∈ m1.disc) (he : e = .back a x ∨ e = .cross a x) :
    InvP v starts script (e :: l) { m1 with stack := (a, ws) :: rest, mode := .run } := by
  have hp : prunedOf script (e :: l) = prunedOf script l := by rcases he with h | h <;> subst h <;> rfl
  have ht : ∀ c, treeOf script c (e :: l) = treeOf script c l := by
    intro c; rcases he with h | h <;> subst h <;> rfl
  refine ⟨?_, ?_, ?_, ?_, Or.inl rfl, ?_, ?_, ?_, ?_⟩
  · rw [ht]; exact invp.treeReach
  · intro n hn; cases hn
  · intro b hb
    rw [hp] at hb
    rcases invp.prunedFin b hb with h | ⟨h, _⟩
    · exact Or.inl h
    · rw [hmd] at h; cases h
  · rw [ht, hp]; exact invp.treeSrc
  · intro h; cases h
  · intro u ws' hmem hu w hw
    rw [hp] at hu
    rw [ht]
    rcases List.mem_cons.mp hmem with h1 | h1
    · simp only [Prod.mk.injEq] at h1
      obtain ⟨rfl, rfl⟩ := h1
      rcases invp.stackCl u (x :: ws') (by rw [hst]; exact List.mem_cons_self ..) hu w hw with h2 | h2 | h2 | h2
      · rcases List.mem_cons.mp h2 with h3 | h3
        · exact Or.inr (Or.inl (h3 ▸ hxd))
        · exact Or.inl h3
      · exact Or.inr (Or.inl h2)
      · rw [hmd] at h2; cases h2
      · exact Or.inr (Or.inr (Or.inr h2))
    · rcases invp.stackCl u ws' (by rw [hst]; exact List.mem_cons_of_mem _ h1) hu w hw with h2 | h2 | h2 | h2
      · exact Or.inl h2
      · exact Or.inr (Or.inl h2)
      · rw [hmd] at h2; cases h2
      · exact Or.inr (Or.inr (Or.inr h2))
  · rw [hp, ht]; exact invp.finCl
  · rw [ht]
    intro u w huw
    rcases invp.contCl u w huw with h | h
    · exact Or.inl h
    · rw [hmd] at h; cases h

theorem invP_snoc {v : View} {starts : List Nat} {script : List Ctl} {l : List Ev} {m1 m : MS} {e : Ev}
    (inv : Inv v m1 l.reverse) (invp : InvP v starts script l m1)
    (hb : ctlAt script l.length ≠ .brk) (hpf : ¬ (ctlAt script l.length = .prune ∧ isFin e))
    (h : step v starts (ctlAt script l.length) m1 e = some m) : InvP v starts script (e :: l) m := by
  generalize hcdef : ctlAt script l.length = c at *
  cases e with
  | discover n t =>
    obtain ⟨_, hnd, hmd, rfl⟩ := step_discover h
    have ht : ∀ c', treeOf script c' (.discover n t :: l) = treeOf script c' l := fun _ => rfl
    have hpmono : ∀ b, b ∈ prunedOf script l → b ∈ prunedOf script (.discover n t :: l) :=
      fun b hb => prunedOf_mono script _ l hb
    have hpnew : ∀ b, b ∈ prunedOf script (.discover n t :: l) → b ∈ prunedOf script l ∨ (b = n ∧ c = .prune) := by
      intro b hb
      simp only [prunedOf, hcdef] at hb
      split at hb
      · rename_i hc
        rcases List.mem_cons.mp hb with h1 | h1
        · exact Or.inr ⟨h1, hc⟩
        · exact Or.inl h1
      · exact Or.inl hb
    have hm1 : m1.mode ≠ .expectFin := by
      rcases hmd with h1 | ⟨h1, _⟩ <;> rw [h1] <;> simp
    refine ⟨?_, ?_, ?_, ?_, ?_, ?_, ?_, ?_, ?_⟩
    · intro x hx
      rw [ht]
      rcases List.mem_cons.mp hx with h1 | h1
      · subst h1
        rcases hmd with hmd | ⟨_, _, hs⟩
        · obtain ⟨u, ws, rest, hst, hun⟩ := invp.expOk x hmd
          have hu : u ∈ m1.disc := ((inv.stackOpen u).mp (by rw [hst]; exact List.mem_cons_self ..)).1
          obtain ⟨s, hs, hr⟩ := invp.treeReach u hu
          exact ⟨s, hs, TReach.step hr hun⟩
        · exact ⟨x, hs, TReach.refl x⟩
      · exact invp.treeReach x h1
    · intro k hk; exact absurd hk (afterDiscover_ne c k)
    · intro b hb
      rcases hpnew b hb with h1 | ⟨rfl, hc⟩
      · rcases invp.prunedFin b h1 with h2 | ⟨h2, _⟩
        · exact Or.inl h2
        · exact absurd h2 hm1
      · exact Or.inr ⟨by rw [hc]; rfl, _, _, rfl⟩
    · intro b w hbw
      rw [ht] at hbw
      obtain ⟨h1, h2, h3⟩ := invp.treeSrc b w hbw
      refine ⟨List.mem_cons_of_mem _ h1, ?_, h3⟩
      intro hbp
      rcases hpnew b hbp with h4 | ⟨h4, _⟩
      · exact h2 h4
      · exact hnd (h4 ▸ h1)
    · cases c with
      | cont => exact Or.inl rfl
      | prune => exact Or.inr (Or.inr rfl)
      | brk => exact absurd rfl hb
    · intro hmode
      have hc : c = .prune := by cases c <;> simp_all [afterDiscover]
      refine ⟨n, _, _, rfl, ?_⟩
      simp only [prunedOf, hcdef, hc, ↓reduceIte]
      exact List.mem_cons_self ..
    · intro u ws hmem hu w hw
      rw [ht]
      rcases List.mem_cons.mp hmem with h1 | h1
      · simp only [Prod.mk.injEq] at h1
        obtain ⟨rfl, rfl⟩ := h1
        exact Or.inl hw
      · rcases invp.stackCl u ws h1 (fun hp => hu (hpmono u hp)) w hw with h2 | h2 | h2 | h2
        · exact Or.inl h2
        · exact Or.inr (Or.inl (List.mem_cons_of_mem _ h2))
        · rcases hmd with hmd | ⟨hmd, _⟩
          · rw [hmd] at h2
            simp only [Mode.expectDisc.injEq] at h2
            exact Or.inr (Or.inl (h2 ▸ List.mem_cons_self ..))
          · rw [hmd] at h2; cases h2
        · exact Or.inr (Or.inr (Or.inr h2))
    · intro u hu hup w hw
      rw [ht]
      rcases invp.finCl u hu (fun hp => hup (hpmono u hp)) w hw with h2 | h2
      · exact Or.inl (List.mem_cons_of_mem _ h2)
      · exact Or.inr h2
    · intro u w huw
      rw [ht] at huw
      rcases invp.contCl u w huw with h2 | h2
      · exact Or.inl (List.mem_cons_of_mem _ h2)
      · rcases hmd with hmd | ⟨hmd, _⟩
        · rw [hmd] at h2
          simp only [Mode.expectDisc.injEq] at h2
          exact Or.inl (h2 ▸ List.mem_cons_self ..)
        · rw [hmd] at h2; cases h2
  | finish n t =>
    obtain ⟨ws, rest, hst, _, hmd, rfl⟩ := step_finish h
    have hc : c = .cont := by
      cases c with
      | cont => rfl
      | brk => exact absurd rfl hb
      | prune => exact absurd ⟨rfl, trivial⟩ hpf
    subst hc
    have hp : prunedOf script (.finish n t :: l) = prunedOf script l := rfl
    have ht : ∀ c', treeOf script c' (.finish n t :: l) = treeOf script c' l := fun _ => rfl
    have hm1 : ∀ w, m1.mode ≠ .expectDisc w := by
      intro w
      rcases hmd with ⟨h1, _⟩ | h1 <;> rw [h1] <;> simp
    refine ⟨?_, ?_, ?_, ?_, Or.inl rfl, ?_, ?_, ?_, ?_⟩
    · rw [ht]; exact invp.treeReach
    · intro k hk; cases hk
    · intro b hbp
      rw [hp] at hbp
      rcases invp.prunedFin b hbp with h1 | ⟨_, ws', rest', h1⟩
      · exact Or.inl (List.mem_cons_of_mem _ h1)
      · rw [hst] at h1
        simp only [List.cons.injEq, Prod.mk.injEq] at h1
        exact Or.inl (h1.1.1 ▸ List.mem_cons_self ..)
    · rw [ht, hp]; exact invp.treeSrc
    · intro hk; cases hk
    · intro u ws' hmem hu w hw
      rw [hp] at hu; rw [ht]
      rcases invp.stackCl u ws' (by rw [hst]; exact List.mem_cons_of_mem _ hmem) hu w hw with h2 | h2 | h2 | h2
      · exact Or.inl h2
      · exact Or.inr (Or.inl h2)
      · exact absurd h2 (hm1 w)
      · exact Or.inr (Or.inr (Or.inr h2))
    · intro u hu hup w hw
      rw [hp] at hup; rw [ht]
      rcases List.mem_cons.mp hu with h1 | h1
      · subst h1
        have hrun : m1.mode = .run ∧ ws = [] := by
          rcases hmd with hmd | hmd
          · exact hmd
          · obtain ⟨b, ws', rest', h2, h3⟩ := invp.expFin hmd
            rw [hst] at h2
            simp only [List.cons.injEq, Prod.mk.injEq] at h2
            exact absurd (h2.1.1 ▸ h3) hup
        rcases invp.stackCl u ws (by rw [hst]; exact List.mem_cons_self ..) hup w hw with h2 | h2 | h2 | h2
        · rw [hrun.2] at h2; cases h2
        · exact Or.inl h2
        · exact absurd h2 (hm1 w)
        · exact Or.inr h2
      · exact invp.finCl u h1 hup w hw
    · intro u w huw
      rw [ht] at huw
      rcases invp.contCl u w huw with h2 | h2
      · exact Or.inl h2
      · exact absurd h2 (hm1 w)
  | tree a x =>
    obtain ⟨ws, rest, hst, hmd, hxd, rfl⟩ := step_tree h
    have hp : prunedOf script (.tree a x :: l) = prunedOf script l := rfl
    have htmono : ∀ c' p, p ∈ treeOf script c' l → p ∈ treeOf script c' (.tree a x :: l) :=
      fun c' p hp => treeOf_mono script c' _ l hp
    have htnew : ∀ c' p, p ∈ treeOf script c' (.tree a x :: l) → p ∈ treeOf script c' l ∨ (p = (a, x) ∧ c = c') := by
      intro c' p hp
      simp only [treeOf, hcdef] at hp
      split at hp
      · rename_i hc
        rcases List.mem_cons.mp hp with h1 | h1
        · exact Or.inr ⟨h1, hc⟩
        · exact Or.inl h1
      · exact Or.inl hp
    have htself : (a, x) ∈ treeOf script c (.tree a x :: l) := by
      simp only [treeOf, hcdef, ↓reduceIte]
      exact List.mem_cons_self ..
    have hastack : a ∈ m1.stack.map Prod.fst := by rw [hst]; exact List.mem_cons_self ..
    have haopen := (inv.stackOpen a).mp hastack
    have hanp : a ∉ prunedOf script l := by
      intro hap
      rcases invp.prunedFin a hap with h1 | ⟨h1, _⟩
      · exact haopen.2 h1
      · rw [hmd] at h1; cases h1
    refine ⟨?_, ?_, ?_, ?_, ?_, ?_, ?_, ?_, ?_⟩
    · intro y hy
      obtain ⟨s, hs, hr⟩ := invp.treeReach y hy
      exact ⟨s, hs, hr.mono (htmono .cont)⟩
    · intro n hn
      have hcn : c = .cont ∧ n = x := by
        cases c <;> simp_all [afterTree]
      obtain ⟨rfl, rfl⟩ := hcn
      exact ⟨a, ws, rest, rfl, htself⟩
    · intro b hbp
      rw [hp] at hbp
      rcases invp.prunedFin b hbp with h1 | ⟨h1, _⟩
      · exact Or.inl h1
      · rw [hmd] at h1; cases h1
    · intro b w hbw
      rw [hp]
      rcases htnew .cont (b, w) hbw with h1 | ⟨h1, _⟩
      · exact invp.treeSrc b w h1
      · simp only [Prod.mk.injEq] at h1
        obtain ⟨rfl, rfl⟩ := h1
        refine ⟨haopen.1, hanp, ?_⟩
        obtain ⟨done, hdone⟩ := inv.succOk b (w :: ws) (by rw [hst]; exact List.mem_cons_self ..)
        rw [hdone]; simp
    · cases c with
      | cont => exact Or.inr (Or.inl ⟨x, rfl⟩)
      | prune => exact Or.inl rfl
      | brk => exact absurd rfl hb
    · intro hk
      cases c <;> simp [afterTree] at hk
    · intro u ws' hmem hu w hw
      rw [hp] at hu
      have conv : ∀ {P : Prop}, (w ∈ ws' ∨ w ∈ m1.disc ∨ P ∨ (u, w) ∈ treeOf script .prune l) →
          m1.mode = .run → (P → False) →
          w ∈ ws' ∨ w ∈ m1.disc ∨ afterTree x c = .expectDisc w ∨ (u, w) ∈ treeOf script .prune (.tree a x :: l) := by
        intro P h0 _ hP
        rcases h0 with h2 | h2 | h2 | h2
        · exact Or.inl h2
        · exact Or.inr (Or.inl h2)
        · exact (hP h2).elim
        · exact Or.inr (Or.inr (Or.inr (htmono _ _ h2)))
      rcases List.mem_cons.mp hmem with h1 | h1
      · simp only [Prod.mk.injEq] at h1
        obtain ⟨rfl, rfl⟩ := h1
        rcases invp.stackCl u (x :: ws') (by rw [hst]; exact List.mem_cons_self ..) hu w hw with h2 | h2 | h2 | h2
        · rcases List.mem_cons.mp h2 with h3 | h3
          · subst h3
            cases c with
            | cont => exact Or.inr (Or.inr (Or.inl rfl))
            | prune => exact Or.inr (Or.inr (Or.inr htself))
            | brk => exact absurd rfl hb
          · exact Or.inl h3
        · exact Or.inr (Or.inl h2)
        · rw [hmd] at h2; cases h2
        · exact Or.inr (Or.inr (Or.inr (htmono _ _ h2)))
      · exact conv (invp.stackCl u ws' (by rw [hst]; exact List.mem_cons_of_mem _ h1) hu w hw) hmd
          (fun h2 => by rw [hmd] at h2; cases h2)
    · intro u hu hup w hw
      rw [hp] at hup
      rcases invp.finCl u hu hup w hw with h2 | h2
      · exact Or.inl h2
      · exact Or.inr (htmono _ _ h2)
    · intro u w huw
      rcases htnew .cont (u, w) huw with h1 | ⟨h1, hc⟩
      · rcases invp.contCl u w h1 with h2 | h2
        · exact Or.inl h2
        · rw [hmd] at h2; cases h2
      · simp only [Prod.mk.injEq] at h1
        obtain ⟨rfl, rfl⟩ := h1
        subst hc
        exact Or.inr rfl
  | back a x =>
    obtain ⟨ws, rest, hst, hmd, hxd, _, rfl⟩ := step_back h
    rw [afterEdge_run hb]
    exact invP_nontree invp hst hmd hxd (Or.inl rfl)
  | cross a x =>
    obtain ⟨ws, rest, hst, hmd, hxd, _, rfl⟩ := step_cross h
    rw [afterEdge_run hb]
    exact invP_nontree invp hst hmd hxd (Or.inr rfl)

theorem invP_of_replay (v : View) (starts : List Nat) (script : List Ctl) :
    ∀ (l : List Ev) (m : MS), okHist script l → replay v starts script l = some m →
      InvP v starts script l m := by
  intro l
  induction l with
  | nil =>
    intro m _ h
    simp only [replay, Option.some.injEq] at h
    subst h
    exact invP_init v starts script
  | cons e l ih =>
    intro m hok h
    rw [replay] at h
    cases h1 : replay v starts script l with
    | none => rw [h1] at h; cases h
    | some m1 =>
      rw [h1] at h
      simp only [Option.bind_some] at h
      exact invP_snoc (inv_of_replay v starts script l m1 h1) (ih m1 hok.2 h1) hok.1.1 hok.1.2 h


/-- **The discovered set under `Prune`.**  For an accepted stream that ends with `Continue` (so no
`Break`, no panic) in which every start node was discovered, a node is discovered iff it is reachable
from a start node along edges whose source was not pruned at its `Discover` and that were not pruned
away as tree edges. -/
theorem acc_reach_prune {v : View} (hv : ViewOk v) {script : List Ctl} {starts : List Nat} {L : List Ev}
    (h : Accepts v starts script L .cont) (hst : ∀ s, s ∈ starts → s ∈ discOf L) (x : Nat) :
    x ∈ discOf L ↔ ∃ s, s ∈ starts ∧ PReach v.g script L s x := by
  obtain ⟨m, hrun, hmode, hstack⟩ := h
  have hrep : replay v starts script L.reverse = some m := by
    rw [replay_eq_run, List.reverse_reverse]; exact hrun
  have inv := inv_of_run hrun
  have hok := okHist_of_alive v starts script L.reverse m hrep (by rw [hmode]; simp) (by rw [hmode]; simp)
  have invp := invP_of_replay v starts script L.reverse m hok hrep
  have hpr : ∀ n, n ∈ prunedOf script L.reverse ↔ PrunedAt script L n := by
    intro n; rw [prunedOf_iff, List.reverse_reverse]
  have htr : ∀ c u w, (u, w) ∈ treeOf script c L.reverse ↔ TreeAns script L c u w := by
    intro c u w; rw [treeOf_iff, List.reverse_reverse]
  constructor
  · intro hx
    obtain ⟨s, hs, hr⟩ := invp.treeReach x ((mem_rev_iff inv.discEq).mpr hx)
    refine ⟨s, hs, ?_⟩
    clear hx
    induction hr with
    | refl => exact PReach.refl _
    | @step b c _ hbc ih =>
      obtain ⟨_, h2, h3⟩ := invp.treeSrc b c hbc
      exact PReach.step ih (fun hp => h2 ((hpr b).mpr hp)) ((hv b c).mp h3)
        (fun hbl => hbl.2 ((htr .cont b c).mp hbc))
  · rintro ⟨s, hs, hr⟩
    have key : x ∈ m.disc := by
      induction hr with
      | refl => exact (mem_rev_iff inv.discEq).mpr (hst s hs)
      | @step b c _ hnp hadj hnb ih =>
        have hbfin : b ∈ m.fin := by
          apply Classical.byContradiction
          intro hbf
          have : b ∈ m.stack.map Prod.fst := (inv.stackOpen b).mpr ⟨ih, hbf⟩
          rw [hstack] at this
          cases this
        rcases invp.finCl b hbfin (fun hp => hnp ((hpr b).mp hp)) c ((hv b c).mpr hadj) with h1 | h1
        · exact h1
        · have hcont : TreeAns script L .cont b c := by
            apply Classical.byContradiction
            intro hnc
            exact hnb ⟨(htr .prune b c).mp h1, hnc⟩
          rcases invp.contCl b c ((htr .cont b c).mpr hcont) with h2 | h2
          · exact h2
          · rw [hmode] at h2; cases h2
    exact (mem_rev_iff inv.discEq).mp key

/-- without any `Prune` answer `PReach` is plain reachability -/
theorem preach_of_reach {g : MGraph} {script : List Ctl} {L : List Ev}
    (hall : ∀ k, k < L.length → ctlAt script k ≠ .prune) {a b : Nat} (h : Reach g a b) :
    PReach g script L a b := by
  induction h with
  | refl => exact PReach.refl _
  | step _ hadj ih =>
    refine PReach.step ih ?_ hadj ?_
    · rintro ⟨pre, t, post, hL, hc⟩
      exact hall pre.length (by rw [hL]; simp) hc
    · rintro ⟨⟨pre, post, hL, hc⟩, _⟩
      exact hall pre.length (by rw [hL]; simp) hc

end PetgraphModel.TravProofs
