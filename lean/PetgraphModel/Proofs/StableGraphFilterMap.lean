import PetgraphModel.Proofs.StableGraphBulk
import PetgraphModel.Proofs.StableGraphRefine
/-
C02 helper lemmas, part 5: `filter_map` refines the reference (`Spec.filterMap`).
-/
namespace PetgraphModel.SGProofs
open PetgraphModel PetgraphModel.SG PetgraphModel.SGSpec

theorem keepNodes_getElem (dn : List Nat) (cn : Int) : ∀ (src : List Node) (o j : Nat),
    (keepNodes dn cn src o)[j]? = (src[j]?).map (fmKeepNode dn cn (o + j)) := by
  intro src
  induction src with
  | nil => intro o j; simp [keepNodes]
  | cons n ns ih =>
    intro o j
    cases j with
    | zero => simp [keepNodes]
    | succ k =>
      simp only [keepNodes, List.getElem?_cons_succ, ih]
      have : o + 1 + k = o + (k + 1) := by omega
      rw [this]

theorem keepEdges_getElem (de : List Nat) (ce : Int) (r : State) : ∀ (src : List Edge) (o j : Nat),
    (keepEdges de ce r src o)[j]? =
      (src[j]?).map (fun e => (fmKeepEdge de ce r (o + j) e).map (fun w' => (⟨e.a, e.b, w'⟩ : SEdge))) := by
  intro src
  induction src with
  | nil => intro o j; simp [keepEdges]
  | cons n ns ih =>
    intro o j
    cases j with
    | zero => simp [keepEdges]
    | succ k =>
      simp only [keepEdges, List.getElem?_cons_succ, ih]
      have : o + 1 + k = o + (k + 1) := by omega
      rw [this]

theorem liveIdx_of_bound_zero {α : Type} : ∀ (l : List (Option α)) (o : Nat), boundOf l = 0 → liveIdx l o = [] := by
  intro l
  induction l with
  | nil => intro o _; rfl
  | cons x xs ih =>
    intro o h
    simp only [boundOf] at h
    split at h
    · omega
    · rename_i hz
      split at h
      · omega
      · rename_i hx
        simp only [liveIdx, hx, Bool.false_eq_true, if_false]
        exact ih (o + 1) (by omega)

theorem liveIdx_take_bound {α : Type} : ∀ (l : List (Option α)) (o : Nat), liveIdx (l.take (boundOf l)) o = liveIdx l o := by
  intro l
  induction l with
  | nil => intro o; rfl
  | cons x xs ih =>
    intro o
    simp only [boundOf]
    split
    · rename_i hpos
      simp only [List.take_succ_cons, liveIdx, ih]
    · rename_i hz
      have hz' : boundOf xs = 0 := by omega
      split
      · rename_i hx
        simp [liveIdx, hx, liveIdx_of_bound_zero xs (o + 1) hz']
      · rename_i hx
        simp [liveIdx, hx, liveIdx_of_bound_zero xs (o + 1) hz']

theorem calledIdx_eq (r : State) (dn : List Nat) : ∀ (es : List Edge) (o : Nat),
    (∀ e ∈ es, e.w.isSome → (fmEdgeCalled r e = (!dn.contains e.a && !dn.contains e.b))) →
    calledIdx r es o = ((edgeList (es.map absEdge) o).filter fun p => !dn.contains p.2.a && !dn.contains p.2.b).map (·.1) := by
  intro es
  induction es with
  | nil => intro o _; rfl
  | cons e es ih =>
    intro o h
    have ih' := ih (o + 1) (fun e' he' => h e' (List.mem_cons_of_mem _ he'))
    simp only [calledIdx, List.map_cons, edgeList]
    cases hw : e.w with
    | none =>
      have : fmEdgeCalled r e = false := by unfold fmEdgeCalled; simp [hw]
      simp [this, absEdge, hw, ih']
    | some w =>
      have hc := h e List.mem_cons_self (by rw [hw]; rfl)
      simp only [absEdge, hw, Option.map_some, List.filter_cons]
      rw [hc]
      by_cases ha : e.a ∈ dn <;> by_cases hb : e.b ∈ dn <;> simp [ha, hb, ih']

theorem edgeList_of_bound_zero : ∀ (l : List (Option SEdge)) (o : Nat), boundOf l = 0 → edgeList l o = [] := by
  intro l
  induction l with
  | nil => intro o _; rfl
  | cons x xs ih =>
    intro o h
    simp only [boundOf] at h
    split at h
    · omega
    · split at h
      · omega
      · rename_i hx
        cases x with
        | none => simp only [edgeList]; exact ih (o + 1) (by omega)
        | some _ => simp at hx

theorem edgeList_take_bound : ∀ (l : List (Option SEdge)) (o : Nat), edgeList (l.take (boundOf l)) o = edgeList l o := by
  intro l
  induction l with
  | nil => intro o; rfl
  | cons x xs ih =>
    intro o
    simp only [boundOf]
    split
    · simp only [List.take_succ_cons, edgeList, ih]
    · rename_i hz
      have hz' : boundOf xs = 0 := by omega
      cases x with
      | none => simp [edgeList, edgeList_of_bound_zero xs (o + 1) hz']
      | some y => simp [edgeList, edgeList_of_bound_zero xs (o + 1) hz']

/-- `filter_map`: survivors keep their indices (with the mapped weights), dropped nodes take their incident edges with
them, nothing else appears; the closures are called for exactly the documented elements -/
theorem filterMap_refines {s s' : State} {dn de vn ve : List Nat} {cn ce : Int} (hinv : Inv s)
    (h : filterMap s dn de cn ce = .ok (s', vn, ve)) :
    Inv s' ∧ (abs s').equiv ((abs s).filterMap dn de cn ce) ∧ vn = (abs s).nodeIds ∧
      ve = (abs s).filterMapEdgeCalls dn := by
  obtain ⟨s1, vn1, ve1, r1, hrun, hinv', hdir, hN, hr1, hE, hvn, hve⟩ := filterMap_content hinv dn de cn ce
  rw [h] at hrun
  simp only [Except.ok.injEq, Prod.mk.injEq] at hrun
  obtain ⟨rfl, rfl, rfl⟩ := hrun
  have hnb : nodeBound s = boundOf (s.nodes.map (·.w)) := rfl
  -- nodes of the result, slot by slot
  have hnode : ∀ i, (abs s').node i = ((abs s).node i).bind (fun w => if dn.contains i then none else some (w + cn)) := by
    intro i
    unfold Spec.node
    rw [abs_nodes, abs_nodes, hN, keepNodes_getElem, List.getElem?_map]
    simp only [Nat.zero_add]
    by_cases hi : i < nodeBound s
    · rw [List.getElem?_take_of_lt hi]
      cases hn : s.nodes[i]? with
      | none => rfl
      | some n =>
        simp only [Option.map_some, Option.join_some, fmKeepNode]
        cases n.w <;> rfl
    · rw [List.getElem?_take_eq_none (by omega)]
      have := boundOf_above (s.nodes.map (·.w)) i (by rw [← hnb]; omega)
      rw [List.getElem?_map] at this
      cases hn : s.nodes[i]? with
      | none => rfl
      | some n =>
        rw [hn] at this
        simp only [Option.map_some, Option.join_some] at this ⊢
        rw [this]; rfl
  -- liveness in the intermediate result = survival
  have hcontains : ∀ y, containsNode r1 y = ((abs s).nodeLive y && !dn.contains y) := by
    intro y
    have h1 : containsNode r1 y = (nodeWeight r1 y).isSome := by
      unfold containsNode
      cases hg : getNode r1 y with
      | none => rw [getNode_none.1 hg]; rfl
      | some n =>
        obtain ⟨hn, hl⟩ := getNode_some.1 hg
        unfold nodeWeight; rw [hn]; simp [hl]
    have h2 : nodeWeight r1 y = (abs s').node y := by
      unfold nodeWeight Spec.node
      rw [abs_nodes, ← hr1, List.getElem?_map]
      cases r1.nodes[y]? <;> rfl
    rw [h1, h2, hnode y]
    unfold Spec.nodeLive
    cases (abs s).node y with
    | none => rfl
    | some w => by_cases hd : y ∈ dn <;> simp [hd]
  have hcalled : ∀ (e : Nat) (x : Edge), s.edges[e]? = some x → x.w.isSome →
      fmEdgeCalled r1 x = (!dn.contains x.a && !dn.contains x.b) := by
    intro e x hx hxl
    obtain ⟨na, hna, hacta⟩ := hinv.endp e x hx hxl 0 (by omega)
    obtain ⟨nb, hnb', hactb⟩ := hinv.endp e x hx hxl 1 (by omega)
    simp only [Edge.node_zero, Edge.node_one] at hna hnb' hacta hactb
    have hla : (abs s).nodeLive x.a = true := by
      unfold Spec.nodeLive; rw [abs_node]; unfold nodeWeight; rw [hna]
      rcases hacta with h' | h'; exact h'; cases h'
    have hlb : (abs s).nodeLive x.b = true := by
      unfold Spec.nodeLive; rw [abs_node]; unfold nodeWeight; rw [hnb']
      rcases hactb with h' | h'; exact h'; cases h'
    unfold fmEdgeCalled
    rw [hcontains, hcontains, hla, hlb, hxl]; simp
  have heb : edgeBound s = boundOf (s.edges.map (·.w)) := rfl
  have hedge : ∀ e, (abs s').edge e = ((abs s).edge e).bind (fun x =>
      if dn.contains x.a || dn.contains x.b || de.contains e then none else some { x with w := x.w + ce }) := by
    intro e
    unfold Spec.edge
    rw [abs_edges, abs_edges, hE, keepEdges_getElem, List.getElem?_map]
    simp only [Nat.zero_add]
    by_cases hi : e < edgeBound s
    · rw [List.getElem?_take_of_lt hi]
      cases hx : s.edges[e]? with
      | none => rfl
      | some x =>
        simp only [Option.map_some, Option.join_some, fmKeepEdge, absEdge]
        cases hw : x.w with
        | none => rfl
        | some w =>
          have := hcalled e x hx (by rw [hw]; rfl)
          simp only [this, Option.map_some, Option.bind_some]
          by_cases ha : x.a ∈ dn <;> by_cases hb : x.b ∈ dn <;> by_cases hd : e ∈ de <;> simp [ha, hb, hd]
    · rw [List.getElem?_take_eq_none (by omega)]
      have := boundOf_above (s.edges.map (·.w)) e (by rw [← heb]; omega)
      rw [List.getElem?_map] at this
      cases hx : s.edges[e]? with
      | none => rfl
      | some x =>
        rw [hx] at this
        simp only [Option.map_some, Option.join_some] at this ⊢
        simp [absEdge, this]
  refine ⟨hinv', ⟨?_, fun i => ?_, fun e => ?_⟩, ?_, ?_⟩
  · show s'.directed = s.directed
    exact hdir
  · rw [hnode i]
    unfold Spec.filterMap Spec.node
    simp only [List.getElem?_mapIdx]
    cases hn : (abs s).nodes[i]? with
    | none => rfl
    | some o =>
      simp only [Option.map_some, Option.join_some]
      cases o with
      | none => by_cases hd : dn.contains i = true <;> simp [hd]
      | some w => by_cases hd : dn.contains i = true <;> simp [hd]
  · rw [hedge e]
    unfold Spec.filterMap Spec.edge
    simp only [List.getElem?_mapIdx]
    cases hn : (abs s).edges[e]? with
    | none => rfl
    | some o =>
      simp only [Option.map_some, Option.join_some]
  · rw [hvn, ← nodeIndices_abs]
    unfold nodeIndices
    rw [List.map_take]
    exact liveIdx_take_bound (s.nodes.map (·.w)) 0
  · rw [hve]
    unfold Spec.filterMapEdgeCalls Spec.edgeRefs
    rw [calledIdx_eq r1 dn (s.edges.take (edgeBound s)) 0 (fun x hx hxl => by
      obtain ⟨i, hi, rfl⟩ := List.getElem_of_mem hx
      have hi' : i < s.edges.length := by simp at hi; omega
      have : (s.edges.take (edgeBound s))[i] = s.edges[i] := by simp
      rw [this] at hxl ⊢
      exact hcalled i _ (List.getElem?_eq_getElem hi') hxl)]
    congr 2
    rw [abs_edges, List.map_take]
    have hbe : edgeBound s = boundOf (s.edges.map absEdge) := by
      rw [heb]
      apply boundOf_congr
      simp only [List.map_map]
      apply List.map_congr_left
      intro x _; simp [absEdge_isSome]
    rw [hbe]
    exact edgeList_take_bound (s.edges.map absEdge) 0

end PetgraphModel.SGProofs
