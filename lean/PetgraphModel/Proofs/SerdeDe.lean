import PetgraphModel.Proofs.SerdeFree
/-
Helper lemmas for C17 (part 4): the invariants of a loaded `Graph` / `StableGraph`, and `de w = ok g → Inv g`,
`de w ≠ panic` for every wire value.
-/
namespace PetgraphModel.SerdeProofs
open PetgraphModel.Serde

/-! ### the invariants -/

/-- is `l` exactly the (duplicate-free) list of the indices whose slot satisfies `P`? -/
def ExactList {α} (slots : List α) (P : α → Prop) (l : List Nat) : Prop :=
  l.Nodup ∧ ∀ e, e ∈ l ↔ ∃ s, slots[e]? = some s ∧ P s

/-- consistency guarantees of the arrays shared by `Graph` and `StableGraph` -/
structure RawInv (g : Raw) : Prop where
  lenN : g.nodes.length ≤ g.END
  lenE : g.edges.length ≤ g.END
  /-- every live edge joins two live nodes -/
  endpoints : ∀ (e : Nat) (s : EdgeSlot), g.edges[e]? = some s → s.w.isSome = true →
    (∃ a : NodeSlot, g.nodes[s.src]? = some a ∧ a.w.isSome = true) ∧
    (∃ b : NodeSlot, g.nodes[s.tgt]? = some b ∧ b.w.isSome = true)
  /-- the outgoing list of a live node is a finite `next[0]` chain of exactly the live edges whose source it is -/
  out : ∀ (i : Nat) (nd : NodeSlot), g.nodes[i]? = some nd → nd.w.isSome = true →
    ∃ l, Chain g.edges g.END 0 nd.n0 l ∧ ExactList g.edges (fun s => s.w.isSome = true ∧ s.src = i) l
  /-- the incoming list likewise (`next[1]`, target) -/
  inn : ∀ (i : Nat) (nd : NodeSlot), g.nodes[i]? = some nd → nd.w.isSome = true →
    ∃ l, Chain g.edges g.END 1 nd.n1 l ∧ ExactList g.edges (fun s => s.w.isSome = true ∧ s.tgt = i) l

/-- `Graph`: no vacancies -/
structure GraphInv (g : Raw) : Prop extends RawInv g where
  allNodes : ∀ (i : Nat) (nd : NodeSlot), g.nodes[i]? = some nd → nd.w.isSome = true
  allEdges : ∀ (e : Nat) (s : EdgeSlot), g.edges[e]? = some s → s.w.isSome = true

/-- `StableGraph`: the free lists are exact and the cached counts are right -/
structure StableInv (s : Stable) : Prop extends RawInv s.g where
  /-- the free edge list is a `next[0]` chain of exactly the vacant edge slots -/
  freeEdges : ∃ l, Chain s.g.edges s.g.END 0 s.freeEdge l ∧ ExactList s.g.edges (fun e => e.w = none) l
  /-- the free node list is a doubly linked list (`next[0]` forward, `next[1]` back) of exactly the vacant node slots -/
  freeNodes : ∃ l, DChain s.g.nodes s.g.END s.g.END s.freeNode l ∧ ExactList s.g.nodes (fun n => n.w = none) l
  nodeCount : s.nodeCount = (s.g.nodes.filter (fun (n : NodeSlot) => n.w.isSome)).length
  edgeCount : s.edgeCount = (s.g.edges.filter (fun (e : EdgeSlot) => e.w.isSome)).length

theorem exact_incident (edges : List EdgeSlot) (i : Nat) :
    ExactList edges (fun s => s.w.isSome = true ∧ s.node 0 = i) (incident edges 0 i) ∧
    ExactList edges (fun s => s.w.isSome = true ∧ s.node 1 = i) (incident edges 1 i) := by
  constructor <;>
  · refine ⟨nodup_idxDesc _ _ _, fun e => ?_⟩
    unfold incident
    rw [mem_idxDesc]
    constructor
    · rintro ⟨_, s, hs, hp⟩
      exact ⟨s, hs, by simpa [incP] using hp⟩
    · rintro ⟨s, hs, hp⟩
      exact ⟨(List.getElem?_eq_some_iff.1 hs).1, s, hs, by simpa [incP] using hp⟩

theorem exact_vacantE (edges : List EdgeSlot) : ExactList edges (fun e => e.w = none) (vacantE edges) := by
  refine ⟨nodup_idxDesc _ _ _, fun e => ?_⟩
  unfold vacantE
  rw [mem_idxDesc]
  constructor
  · rintro ⟨_, s, hs, hp⟩; exact ⟨s, hs, by simpa using hp⟩
  · rintro ⟨s, hs, hp⟩; exact ⟨(List.getElem?_eq_some_iff.1 hs).1, s, hs, by simpa using hp⟩

theorem exact_vacantN (nodes : List NodeSlot) : ExactList nodes (fun n => n.w = none) (vacantN nodes) := by
  refine ⟨nodup_idxDesc _ _ _, fun e => ?_⟩
  unfold vacantN
  rw [mem_idxDesc]
  constructor
  · rintro ⟨_, s, hs, hp⟩; exact ⟨s, hs, by simpa using hp⟩
  · rintro ⟨s, hs, hp⟩; exact ⟨(List.getElem?_eq_some_iff.1 hs).1, s, hs, by simpa using hp⟩

theorem RawInv.of_linked {g : Raw} (L : Linked g.END g.nodes g.edges)
    (hn : g.nodes.length ≤ g.END) (he : g.edges.length ≤ g.END) : RawInv g := by
  refine ⟨hn, he, L.endpoints, ?_, ?_⟩
  · intro i nd hi hl
    exact ⟨_, (L.heads i nd hi hl).1, by simpa [EdgeSlot.node] using (exact_incident g.edges i).1⟩
  · intro i nd hi hl
    exact ⟨_, (L.heads i nd hi hl).2, by simpa [EdgeSlot.node] using (exact_incident g.edges i).2⟩

/-! ### hole interleaving -/

theorem interleave_fresh (END total : Nat) (holes : List Nat) :
    ∀ (compact : List Int) (acc : List NodeSlot) (pos : Nat) (ns : List NodeSlot),
      interleave END total holes compact acc pos = .ok ns →
      (∀ nd, nd ∈ acc → freshNode END nd) → ∀ nd, nd ∈ ns → freshNode END nd := by
  induction holes with
  | nil =>
    intro compact acc pos ns h hacc nd hnd
    simp only [interleave, Except.ok.injEq] at h
    subst h
    rcases List.mem_append.1 hnd with h | h
    · exact hacc nd h
    · obtain ⟨x, _, rfl⟩ := List.mem_map.1 h
      exact ⟨rfl, rfl⟩
  | cons hh hs ih =>
    intro compact acc pos ns h hacc nd hnd
    unfold interleave at h
    split at h
    · simp at h
    · dsimp only at h
      split at h
      · simp at h
      · split at h
        · simp at h
        · refine ih _ _ _ ns h ?_ nd hnd
          intro x hx
          rcases List.mem_append.1 hx with h1 | h1
          · rcases List.mem_append.1 h1 with h2 | h2
            · exact hacc x h2
            · obtain ⟨y, _, rfl⟩ := List.mem_map.1 h2
              exact ⟨rfl, rfl⟩
          · simp at h1; subst h1; exact ⟨rfl, rfl⟩

theorem interleave_no_panic (END total : Nat) (holes : List Nat) :
    ∀ (compact : List Int) (acc : List NodeSlot) (pos : Nat),
      interleave END total holes compact acc pos ≠ .error .panic := by
  induction holes with
  | nil => intro compact acc pos; simp [interleave]
  | cons hh hs ih =>
    intro compact acc pos
    unfold interleave
    split
    · simp
    · dsimp only
      split
      · simp
      · rename_i hlen
        split
        · rename_i h2
          exfalso
          apply h2
          simp only [ne_eq, Decidable.not_not] at hlen
          rw [List.length_append, hlen]; rfl
        · exact ih _ _ _

/-! ### `Graph::link_edges` -/

theorem linkEdgesGraph_inv (END : Nat) (rest : List EdgeSlot) :
    ∀ (nodes : List NodeSlot) (done : List EdgeSlot) (ns : List NodeSlot) (es : List EdgeSlot),
      linkEdgesGraph nodes done rest = .ok (ns, es) → Linked END nodes done →
      (∀ (i : Nat) (nd : NodeSlot), nodes[i]? = some nd → nd.w.isSome = true) →
      (∀ e, e ∈ rest → e.w.isSome = true) →
      Linked END ns es ∧ NodesKept nodes ns ∧ es.map skel = done.map skel ++ rest.map skel := by
  induction rest with
  | nil =>
    intro nodes done ns es h L _ _
    simp only [linkEdgesGraph, Except.ok.injEq, Prod.mk.injEq] at h
    obtain ⟨rfl, rfl⟩ := h
    exact ⟨L, NodesKept.refl _, by simp⟩
  | cons e rest ih =>
    intro nodes done ns es h L hn hr
    unfold linkEdgesGraph at h
    cases hl : linkNodes nodes e.src e.tgt done.length with
    | none => simp [hl] at h
    | some r =>
      obtain ⟨ns1, x0, x1⟩ := r
      simp only [hl] at h
      have hw := hr e (List.mem_cons_self ..)
      have ha : ∀ an : NodeSlot, nodes[e.src]? = some an → an.w.isSome = true := fun an h' => hn _ an h'
      have hb : ∀ bn : NodeSlot, nodes[e.tgt]? = some bn → bn.w.isSome = true := fun bn h' => hn _ bn h'
      have K := NodesKept.of_link hl ha hb
      obtain ⟨L', K', S⟩ := ih ns1 _ ns es h (L.step_live e hl hw ha hb) (by
        intro i nd hi
        have := K.w i
        rw [hi] at this
        cases hni : nodes[i]? with
        | none => simp [hni] at this
        | some nd0 =>
          simp [hni] at this
          rw [this]; exact hn i nd0 hni) (fun x hx => hr x (List.mem_cons_of_mem _ hx))
      refine ⟨L', K.trans K', ?_⟩
      rw [S]; simp [skel]


/-! ### `StableGraph::from_deserialized` -/

theorem NodesKept.map_w {a b : List NodeSlot} (K : NodesKept a b) :
    b.map (fun (n : NodeSlot) => n.w) = a.map (fun (n : NodeSlot) => n.w) := by
  apply List.ext_getElem?
  intro i
  rw [List.getElem?_map, List.getElem?_map]
  exact K.w i

theorem liveCount_of_map_w {a b : List NodeSlot}
    (h : b.map (fun (n : NodeSlot) => n.w) = a.map (fun (n : NodeSlot) => n.w)) :
    (b.filter (fun (n : NodeSlot) => n.w.isSome)).length = (a.filter (fun (n : NodeSlot) => n.w.isSome)).length := by
  have e : ∀ l : List NodeSlot, (l.filter (fun (n : NodeSlot) => n.w.isSome)).length
      = ((l.map (fun (n : NodeSlot) => n.w)).filter Option.isSome).length := by
    intro l
    rw [List.filter_map, List.length_map]
    rfl
  rw [e, e, h]

theorem NodesKept.vacantN {a b : List NodeSlot} (K : NodesKept a b) : vacantN b = vacantN a := by
  unfold SerdeProofs.vacantN
  rw [K.len]
  apply idxDesc_congr_hit
  intro e _
  have := K.w e
  unfold hit
  cases hb : b[e]? <;> cases ha : a[e]? <;> simp_all

/-- everything `link_edges` establishes, in the exact form it establishes it (lists in descending index order) -/
structure StableDe (END : Nat) (directed : Bool) (s : Stable) : Prop where
  hEND : s.g.END = END
  hdir : s.g.directed = directed
  lenN : s.g.nodes.length < END
  lenE : s.g.edges.length < END
  linked : Linked END s.g.nodes s.g.edges
  freeEdges : Chain s.g.edges END 0 s.freeEdge (vacantE s.g.edges)
  freeNodes : DChain s.g.nodes END END s.freeNode (vacantN s.g.nodes)
  nodeCount : s.nodeCount = (s.g.nodes.filter (fun (n : NodeSlot) => n.w.isSome)).length
  edgeCount : s.edgeCount = (s.g.edges.filter (fun (e : EdgeSlot) => e.w.isSome)).length

theorem StableDe.inv {END : Nat} {directed : Bool} {s : Stable} (D : StableDe END directed s) : StableInv s := by
  have hE := D.hEND
  refine { toRawInv := RawInv.of_linked (hE ▸ D.linked) (by have := D.lenN; omega) (by have := D.lenE; omega),
           freeEdges := ⟨_, hE ▸ D.freeEdges, exact_vacantE _⟩,
           freeNodes := ⟨_, hE ▸ D.freeNodes, exact_vacantN _⟩,
           nodeCount := D.nodeCount, edgeCount := D.edgeCount }

theorem fromDeserializedStable_de {END : Nat} {directed : Bool} {w : Wire} {s : Stable}
    (h : fromDeserializedStable END directed w = .ok s) :
    StableDe END directed s ∧
    ∃ nodes, interleave END (w.nodes.length + w.holes.length) w.holes w.nodes [] 0 = .ok nodes ∧
      s.g.nodes.map (fun (n : NodeSlot) => n.w) = nodes.map (fun (n : NodeSlot) => n.w) ∧
      s.g.edges.map skel = (w.edges.map (wireEdge END)).map skel := by
  unfold fromDeserializedStable at h
  by_cases hp : w.prop ≠ some directed
  · simp [hp] at h
  rw [if_neg hp] at h
  by_cases hle : w.edges.length ≥ END
  · simp [hle] at h
  rw [if_neg hle] at h
  cases hi : interleave END (w.nodes.length + w.holes.length) w.holes w.nodes [] 0 with
  | error e => simp [hi] at h
  | ok nodes =>
    simp only [hi] at h
    by_cases hln : nodes.length ≥ END
    · simp [hln] at h
    rw [if_neg hln] at h
    have hfresh := interleave_fresh END _ w.holes w.nodes [] 0 nodes hi (by simp)
    obtain ⟨fs, hfs, FI, hfw⟩ := linkFreeNodes_inv END nodes { done := [], free := END, count := 0 }
      ⟨by simpa [vacantN, idxDesc] using DChain.nil (nodes := []) (END := END) END, by simp, by simp⟩
      hfresh (by simp; omega)
    simp only [hfs] at h
    cases hl : linkEdgesStable END (w.edges.map (wireEdge END)) { nodes := fs.done, done := [], free := END, count := 0 } with
    | error i => simp [hl] at h
    | ok ls =>
      simp only [hl, Except.ok.injEq] at h
      have hfw' : fs.done.map (fun (n : NodeSlot) => n.w) = nodes.map (fun (n : NodeSlot) => n.w) := by simpa using hfw
      have hflen : fs.done.length = nodes.length := by
        have := congrArg List.length hfw'; simpa using this
      obtain ⟨LI, K, S⟩ := linkEdgesStable_inv END _ _ ls hl (by
        refine ⟨⟨?_, ?_⟩, ?_, ?_⟩
        · intro i nd hi' hlive
          obtain ⟨h0, h1⟩ := FI.fresh i nd hi' hlive
          simp only [incident, idxDesc, List.length_nil, h0, h1]
          exact ⟨.nil, .nil⟩
        · intro e x hx; simp at hx
        · simpa [vacantE, idxDesc] using Chain.nil (edges := []) (END := END) (k := 0)
        · simp)
      have hS : ls.done.map skel = (w.edges.map (wireEdge END)).map skel := by simpa using S
      have helen : ls.done.length = w.edges.length := by
        have := congrArg List.length hS; simpa using this
      subst h
      refine ⟨{ hEND := rfl, hdir := rfl, lenN := ?_, lenE := ?_, linked := LI.linked, freeEdges := LI.free,
                freeNodes := ?_, nodeCount := ?_, edgeCount := LI.count }, nodes, rfl, ?_, hS⟩
      · show ls.nodes.length < END
        rw [K.len, hflen]; omega
      · show ls.done.length < END
        rw [helen]; omega
      · show DChain ls.nodes END END fs.free (vacantN ls.nodes)
        rw [K.vacantN]
        refine FI.chain.congr ?_
        intro i hi'
        obtain ⟨x, hx, hxv⟩ := ((exact_vacantN fs.done).2 i).1 hi'
        rw [K.vac i x hx hxv, hx]
      · show fs.count = _
        rw [FI.count]
        exact (liveCount_of_map_w K.map_w).symm
      · show ls.nodes.map (fun (n : NodeSlot) => n.w) = _
        rw [K.map_w, hfw']

/-- `Deserialize for StableGraph`, any wire value, any field order: success implies the invariant -/
theorem deStable_de {END : Nat} {directed : Bool} {order : List Field} {w : Wire} {s : Stable}
    (h : deStable END directed order w = .ok s) : StableDe END directed s := by
  unfold deStable at h
  split at h
  · simp at h
  · exact (fromDeserializedStable_de h).1

theorem fromDeserializedStable_no_panic (END : Nat) (directed : Bool) (w : Wire) :
    fromDeserializedStable END directed w ≠ .error .panic := by
  unfold fromDeserializedStable
  split
  · simp
  split
  · simp
  cases hi : interleave END (w.nodes.length + w.holes.length) w.holes w.nodes [] 0 with
  | error e =>
    have := interleave_no_panic END (w.nodes.length + w.holes.length) w.holes w.nodes [] 0
    rw [hi] at this
    simp only []
    intro h'
    apply this
    simpa using h'
  | ok nodes =>
    simp only []
    split
    · simp
    rename_i hln
    have hfresh := interleave_fresh END _ w.holes w.nodes [] 0 nodes hi (by simp)
    obtain ⟨fs, hfs, _, _⟩ := linkFreeNodes_inv END nodes { done := [], free := END, count := 0 }
      ⟨by simpa [vacantN, idxDesc] using DChain.nil (nodes := []) (END := END) END, by simp, by simp⟩
      hfresh (by simp; omega)
    simp only [hfs]
    split <;> simp

theorem parseStage_ne_panic (stable : Bool) (m : Nat) (w : Wire) (order : List Field) :
    parseStage stable m w order ≠ some .panic := by
  have hE : ∀ l, parseEdges stable m l ≠ some .panic := by
    intro l
    induction l with
    | nil => simp [parseEdges]
    | cons x xs ih =>
      cases x with
      | none => unfold parseEdges; split <;> simp_all
      | some t =>
        obtain ⟨a, b, c⟩ := t
        unfold parseEdges; split <;> simp_all
  have hH : ∀ l, parseHoles stable m l ≠ some .panic := by
    intro l
    induction l with
    | nil => simp [parseHoles]
    | cons x xs ih =>
      unfold parseHoles
      split
      · simp
      · split <;> simp_all
  have hF : ∀ f, parseField stable m w f ≠ some .panic := by
    intro f
    cases f <;> simp [parseField, hE, hH]
  unfold parseStage
  split
  · rename_i e he
    obtain ⟨f, _, hf⟩ := List.exists_of_findSome?_eq_some he
    intro h'
    cases h'
    exact hF f hf
  · split <;> simp

theorem deStable_no_panic (END : Nat) (directed : Bool) (order : List Field) (w : Wire) :
    deStable END directed order w ≠ .error .panic := by
  unfold deStable
  split
  · rename_i e he
    intro h'
    cases h'
    exact parseStage_ne_panic _ _ _ _ he
  · exact fromDeserializedStable_no_panic _ _ _

/-! ### `Graph::from_deserialized` -/

structure GraphDe (END : Nat) (directed : Bool) (g : Raw) : Prop where
  hEND : g.END = END
  hdir : g.directed = directed
  lenN : g.nodes.length < END
  lenE : g.edges.length < END
  linked : Linked END g.nodes g.edges
  allNodes : ∀ (i : Nat) (nd : NodeSlot), g.nodes[i]? = some nd → nd.w.isSome = true
  allEdges : ∀ (e : Nat) (s : EdgeSlot), g.edges[e]? = some s → s.w.isSome = true

theorem GraphDe.inv {END : Nat} {directed : Bool} {g : Raw} (D : GraphDe END directed g) : GraphInv g := by
  have hE := D.hEND
  exact { toRawInv := RawInv.of_linked (hE ▸ D.linked) (by have := D.lenN; omega) (by have := D.lenE; omega),
          allNodes := D.allNodes, allEdges := D.allEdges }


theorem parseEdges_graph_none {m : Nat} {l : List (Option (Nat × Nat × Int))}
    (h : parseEdges false m l = none) : ∀ e, e ∈ l → e.isSome = true := by
  induction l with
  | nil => simp
  | cons x xs ih =>
    cases x with
    | none => simp [parseEdges] at h
    | some t =>
      obtain ⟨a, b, c⟩ := t
      unfold parseEdges at h
      split at h
      · simp at h
      · intro e he
        rcases List.mem_cons.1 he with rfl | h'
        · rfl
        · exact ih h e h'

theorem parseStage_none_edges {stable : Bool} {m : Nat} {w : Wire} {order : List Field}
    (h : parseStage stable m w order = none) : parseEdges stable m w.edges = none := by
  unfold parseStage at h
  split at h
  · simp at h
  · rename_i hf
    split at h
    · rename_i hc
      have he : Field.e ∈ order := by
        simp only [Bool.and_eq_true, List.contains_iff_mem] at hc
        simpa using hc.2
      have := (List.findSome?_eq_none_iff.1 hf) Field.e he
      simpa [parseField] using this
    · simp at h

theorem fromDeserializedGraph_de {END : Nat} {directed : Bool} {w : Wire} {g : Raw}
    (h : fromDeserializedGraph END directed w = .ok g) (hall : ∀ e, e ∈ w.edges → e.isSome = true) :
    GraphDe END directed g ∧ g.nodes.map (fun (n : NodeSlot) => n.w) = w.nodes.map some ∧
      g.edges.map skel = (w.edges.map (wireEdge END)).map skel := by
  unfold fromDeserializedGraph at h
  by_cases hp : w.prop ≠ some directed
  · simp [hp] at h
  rw [if_neg hp] at h
  by_cases hln : w.nodes.length ≥ END
  · simp [hln] at h
  rw [if_neg hln] at h
  by_cases hle : w.edges.length ≥ END
  · simp [hle] at h
  rw [if_neg hle] at h
  cases hl : linkEdgesGraph (w.nodes.map (liveSlot END)) [] (w.edges.map (wireEdge END)) with
  | error i => simp [hl] at h
  | ok r =>
    obtain ⟨ns, es⟩ := r
    simp only [hl, Except.ok.injEq] at h
    subst h
    have hnodes : ∀ (i : Nat) (nd : NodeSlot), (w.nodes.map (liveSlot END))[i]? = some nd →
        nd.w.isSome = true ∧ nd.n0 = END ∧ nd.n1 = END := by
      intro i nd hi
      rw [List.getElem?_map] at hi
      cases hx : w.nodes[i]? with
      | none => simp [hx] at hi
      | some x => simp [hx] at hi; subst hi; simp [liveSlot]
    have hedges : ∀ e, e ∈ w.edges.map (wireEdge END) → e.w.isSome = true := by
      intro e he
      obtain ⟨x, hx, rfl⟩ := List.mem_map.1 he
      have := hall x hx
      cases x with
      | none => simp at this
      | some t => obtain ⟨a, b, c⟩ := t; simp [wireEdge]
    obtain ⟨L, K, S⟩ := linkEdgesGraph_inv END _ _ _ ns es hl (by
      refine ⟨?_, ?_⟩
      · intro i nd hi _
        obtain ⟨_, h0, h1⟩ := hnodes i nd hi
        simp only [incident, idxDesc, List.length_nil, h0, h1]
        exact ⟨.nil, .nil⟩
      · intro e x hx; simp at hx) (fun i nd hi => (hnodes i nd hi).1) hedges
    have hS : es.map skel = (w.edges.map (wireEdge END)).map skel := by simpa using S
    have helen : es.length = w.edges.length := by
      have := congrArg List.length hS; simpa using this
    have hw : ns.map (fun (n : NodeSlot) => n.w) = w.nodes.map some := by
      rw [K.map_w]; simp [liveSlot]
    refine ⟨{ hEND := rfl, hdir := rfl, lenN := ?_, lenE := ?_, linked := L, allNodes := ?_, allEdges := ?_ }, hw, hS⟩
    · show ns.length < END
      rw [K.len]; simp; omega
    · show es.length < END
      rw [helen]; omega
    · intro i nd hi
      have := K.w i
      rw [hi] at this
      cases hx : (w.nodes.map (liveSlot END))[i]? with
      | none => simp [hx] at this
      | some x =>
        simp [hx] at this
        rw [this]; exact (hnodes i x hx).1
    · intro e x hx
      have h1 : (es.map skel)[e]? = some (skel x) := by rw [List.getElem?_map, hx]; rfl
      rw [hS, List.getElem?_map] at h1
      cases hy : (w.edges.map (wireEdge END))[e]? with
      | none => simp [hy] at h1
      | some y =>
        simp [hy] at h1
        have hyl := hedges y (List.mem_of_getElem? hy)
        have : y.w = x.w := by
          have := congrArg Prod.fst h1; simpa [skel] using this
        rw [← this]; exact hyl

theorem deGraph_de {END : Nat} {directed : Bool} {order : List Field} {w : Wire} {g : Raw}
    (h : deGraph END directed order w = .ok g) : GraphDe END directed g := by
  unfold deGraph at h
  split at h
  · simp at h
  · rename_i hps
    have hall := parseEdges_graph_none (parseStage_none_edges hps)
    refine (fromDeserializedGraph_de h ?_).1
    split <;> exact hall

theorem fromDeserializedGraph_no_panic (END : Nat) (directed : Bool) (w : Wire) :
    fromDeserializedGraph END directed w ≠ .error .panic := by
  unfold fromDeserializedGraph
  by_cases hp : w.prop ≠ some directed
  · simp [hp]
  rw [if_neg hp]
  by_cases hln : w.nodes.length ≥ END
  · simp [hln]
  rw [if_neg hln]
  by_cases hle : w.edges.length ≥ END
  · simp [hle]
  rw [if_neg hle]
  cases linkEdgesGraph (w.nodes.map (liveSlot END)) [] (w.edges.map (wireEdge END)) with
  | error i => simp
  | ok r => simp

theorem deGraph_no_panic (END : Nat) (directed : Bool) (order : List Field) (w : Wire) :
    deGraph END directed order w ≠ .error .panic := by
  unfold deGraph
  split
  · rename_i e he
    intro h'
    cases h'
    exact parseStage_ne_panic _ _ _ _ he
  · exact fromDeserializedGraph_no_panic _ _ _

/-! ### `GraphMap` -/

theorem fromGraph_fold_some (g : Raw) (es : List EdgeSlot)
    (hgood : ∀ e, e ∈ es → ∃ wa wb w, (g.nodes[e.src]?).bind (fun (n : NodeSlot) => n.w) = some wa ∧
      (g.nodes[e.tgt]?).bind (fun (n : NodeSlot) => n.w) = some wb ∧ e.w = some w) :
    ∀ m : GMap, (es.foldl (fun acc e =>
      match acc with
      | none => none
      | some (m : GMap) =>
        match (g.nodes[e.src]?).bind (·.w), (g.nodes[e.tgt]?).bind (·.w), e.w with
        | some wa, some wb, some w => some (m.addEdge wa wb w).1
        | _, _, _ => none) (some m)).isSome = true := by
  induction es with
  | nil => intro m; rfl
  | cons e es ih =>
    intro m
    obtain ⟨wa, wb, w, h1, h2, h3⟩ := hgood e (List.mem_cons_self ..)
    simp only [List.foldl_cons, h1, h2, h3]
    exact ih (fun x hx => hgood x (List.mem_cons_of_mem _ hx)) _

theorem fromGraph_some {END : Nat} {directed : Bool} {g : Raw} (D : GraphDe END directed g) :
    (GMap.fromGraph g).isSome = true := by
  unfold GMap.fromGraph
  apply fromGraph_fold_some
  intro e he
  obtain ⟨i, hi⟩ := List.getElem?_of_mem he
  have hw := D.allEdges i e hi
  obtain ⟨⟨a, ha1, ha2⟩, ⟨b, hb1, hb2⟩⟩ := D.linked.endpoints i e hi hw
  cases hwa : a.w with
  | none => simp [hwa] at ha2
  | some wa =>
    cases hwb : b.w with
    | none => simp [hwb] at hb2
    | some wb =>
      cases hwe : e.w with
      | none => simp [hwe] at hw
      | some we => exact ⟨wa, wb, we, by simp [ha1, hwa], by simp [hb1, hwb], rfl⟩

theorem deMap_no_panic (directed : Bool) (order : List Field) (w : Wire) :
    deMap directed order w ≠ .error .panic := by
  unfold deMap
  cases hg : deGraph 4294967295 directed order w with
  | error e =>
    simp only []
    intro h'
    cases h'
    exact deGraph_no_panic _ _ _ _ hg
  | ok g =>
    simp only []
    have := fromGraph_some (deGraph_de hg)
    cases hm : GMap.fromGraph g with
    | none => simp [hm] at this
    | some m => simp

end PetgraphModel.SerdeProofs
