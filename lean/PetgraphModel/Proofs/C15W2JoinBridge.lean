import PetgraphModel.Proofs.C15W2JoinArr
/-
C15 wave 2 — from the arrays back to the paths: the chain of a path is a good chain, and a
decomposition of the chain at the join is a decomposition of the path.
-/
namespace PetgraphModel.C15W2
open PetgraphModel PetgraphModel.C15 PetgraphModel.C15M PetgraphModel.C15P

section
variable {c : Ctx} {s : GS} {P : Nat → PL} {ord : List Nat}

theorem innerNodes_nodes (_hv : VHyp c.v c.mode) (A : AS) (l : PL) (hmem : ∀ x ∈ verts l, x ∈ c.v.g.nodes) :
    ∀ u ∈ innerNodes A l, u ∈ c.v.g.nodes := by
  intro u hu
  obtain ⟨⟨p, hp⟩, _⟩ := (mem_innerNodes A l u).mp hu
  exact hmem u (mem_verts_of_mem hp).2

/-- the chain of the path of an outer vertex -/
theorem innerSeq_chainOK (hv : VHyp c.v c.mode) (n0 : Nat) (hm : MateInv c.v c.m0 n0) (I : SInv c s P ord)
    (y : Nat) (hy : y ∈ c.v.g.nodes) (hoy : (absOf c s.label s.fi P ord).out y = true) :
    ChainOK c s.label s.fi (innerSeq c (absOf c s.label s.fi P ord) (P y)) ∧
    ∃ r, innerSeq c (absOf c s.label s.fi P ord) (P y) = fiI s.fi (c.v.toIndex y) :: r := by
  obtain ⟨h1, h2⟩ := path_chain hv n0 hm I (P y).length y hy hoy (Nat.le_refl _)
  refine ⟨⟨h1, ?_, ?_, ?_, ⟨_, rfl⟩⟩, h2⟩
  · -- no index twice
    have hpy := I.abs.path y hy hoy
    have hnodes := innerNodes_nodes hv (absOf c s.label s.fi P ord) (P y) hpy.mem
    have hnd : (innerNodes (absOf c s.label s.fi P ord) (P y)).Nodup := by
      have := hpy.nodup
      exact ((List.nodup_append.mp this).1).sublist (innerNodes_sublist _ _)
    unfold innerSeq
    refine List.nodup_append.mpr ⟨nodup_map_of_inj_on _ _ hnd
      (fun a ha b hb e => hv.ix.inj a (hnodes a ha) b (hnodes b hb) e), by simp, ?_⟩
    intro i hi j hj e
    simp at hj
    obtain ⟨u, hu, rfl⟩ := List.mem_map.mp hi
    exact hv.idx_ne_nb (hnodes u hu) (e.trans hj)
  · intro i hi
    unfold innerSeq at hi
    cases List.mem_append.mp hi with
    | inl h =>
      obtain ⟨u, hu, rfl⟩ := List.mem_map.mp h
      have := hv.ix.lt u (innerNodes_nodes hv _ (P y) (I.abs.path y hy hoy).mem u hu)
      omega
    | inr h => simp at h; omega
  · intro i hi
    unfold innerSeq at hi
    cases List.mem_append.mp hi with
    | inl h =>
      obtain ⟨u, hu, rfl⟩ := List.mem_map.mp h
      exact ((mem_innerNodes _ _ u).mp hu).2
    | inr h => simp at h; rw [h]; exact I.dummyLab

end

/-- a decomposition of the chain of a path at `join` is a decomposition of the path -/
theorem split_path (c : Ctx) (A : AS) (hidx : ∀ u, u ∈ c.v.g.nodes → c.v.toIndex u ≠ c.v.nb) :
    ∀ (l : PL) (LA R : List Nat) (join : Nat), (∀ x ∈ verts l, x ∈ c.v.g.nodes) →
      innerSeq c A l = LA ++ join :: R →
      ∃ pre suf, l = pre ++ suf ∧ (innerNodes A pre).map c.v.toIndex = LA ∧
        ((suf = [] ∧ join = c.v.nb) ∨
          ∃ pj uj r, suf = (pj, uj) :: r ∧ A.out uj = false ∧ join = c.v.toIndex uj)
  | [], LA, R, join, _, h => by
    unfold innerSeq at h
    simp only [innerNodes, List.map_nil, List.nil_append] at h
    cases LA with
    | nil =>
      simp only [List.nil_append, List.cons.injEq] at h
      exact ⟨[], [], rfl, rfl, Or.inl ⟨rfl, h.1.symm⟩⟩
    | cons a LA' =>
      simp only [List.cons_append, List.cons.injEq] at h
      have := congrArg List.length h.2
      simp at this
  | (p, u) :: r, LA, R, join, hmem, h => by
    have hmem' : ∀ x ∈ verts r, x ∈ c.v.g.nodes := fun x hx => hmem x (by simp [hx])
    by_cases hu : A.out u = true
    · have h' : innerSeq c A r = LA ++ join :: R := by
        unfold innerSeq at h ⊢
        simpa [innerNodes, hu] using h
      obtain ⟨pre, suf, e1, e2, e3⟩ := split_path c A hidx r LA R join hmem' h'
      exact ⟨(p, u) :: pre, suf, by rw [e1]; rfl, by simpa [innerNodes, hu] using e2, e3⟩
    · have hu' : A.out u = false := by simpa using hu
      have h' : c.v.toIndex u :: innerSeq c A r = LA ++ join :: R := by
        unfold innerSeq at h ⊢
        simpa [innerNodes, hu'] using h
      cases LA with
      | nil =>
        simp only [List.nil_append, List.cons.injEq] at h'
        exact ⟨[], (p, u) :: r, rfl, rfl, Or.inr ⟨p, u, r, rfl, hu', h'.1.symm⟩⟩
      | cons a LA' =>
        simp only [List.cons_append, List.cons.injEq] at h'
        obtain ⟨pre, suf, e1, e2, e3⟩ := split_path c A hidx r LA' R join hmem' h'.2
        refine ⟨(p, u) :: pre, suf, by rw [e1]; rfl, ?_, e3⟩
        simp [innerNodes, hu', e2, h'.1]

end PetgraphModel.C15W2
